(* NpciGenFacts.v — the methods of npdu.py as TRANSLATED from the working tree on this run
   (coq/gen/NpciFns.v, translator/gen_npcifns.py) are, for all inputs, the hand model Npci.v.
   The scripts never mention a generated variable name: they destruct the inputs (objects, option
   fields, address shapes, the input list), keep `put` opaque, and compute.  The loops are related to
   the structural recursions of the model by lemmas that take the loop body as an arbitrary function
   with a pointwise specification, discharged by `reflexivity` on the generated text. *)
From Bac Require Import Base BytesFacts Npci NpciRt NpciFacts NpciMsgFacts.
From BacGen Require Import NpciFns.
From Coq Require Import ZifyBool ZifyN ZifyNat.
Ltac Zify.zify_post_hook ::= Z.to_euclidean_division_equations.
Open Scope N_scope.

(* ---- glue between Python objects and model values *)
Definition rmap {A B} (f : A -> B) (r : res A) : res B :=
  match r with Ok a => Ok (f a) | Err e => Err e end.
(* a PDU / NPDU right after its constructor, holding the octets bs *)
Definition buf (bs : list N) : pyobj := mkObj bs false 0 1 None None None None None None.
Definition app_data (b : list N) (p : pyobj) : pyobj := set_pduData (pduData p ++ b) p.
(* the octets an encode call leaves in the buffer it was given *)
Definition out {O} (r : res (O * pyobj)) : res (list N) := rmap (fun x => pduData (snd x)) r.
(* what a message decode call leaves: the message object (as a model value) and the octets not consumed *)
Definition view {O} (f : O -> msg) (r : res (O * pyobj)) : res (msg * list N) :=
  rmap (fun x => (f (fst x), pduData (snd x))) r.

Definition msg_of_whois o := WhoIsRouter (wirtnNetwork o).
Definition msg_of_iam o := IAmRouter (iartnNetworkList o).
Definition msg_of_icb o := ICouldBeRouter (icbrtnNetwork o) (icbrtnPerformanceIndex o).
Definition msg_of_rej o := RejectMessage (rmtnRejectionReason o) (rmtnDNET o).
Definition msg_of_busy o := RouterBusy (rbtnNetworkList o).
Definition msg_of_avail o := RouterAvailable (ratnNetworkList o).
Definition msg_of_irt o := InitRT (irtTable o).
Definition msg_of_irta o := InitRTAck (irtaTable o).
Definition msg_of_est o := EstablishConn (ectnDNET o) (ectnTerminationTime o).
Definition msg_of_disc o := DisconnectConn (dctnDNET o).
Definition msg_of_what (o : obj_WhatIsNetworkNumber) := WhatIsNetNum.
Definition msg_of_nni o := NetNumIs (nniNet o) (nniFlag o).

Definition npci_of (o : pyobj) : npci :=
  mkNpci (npduVersion o) (pduExpectingReply o) (pduNetworkPriority o) (npduDADR o) (npduSADR o)
         (npduHopCount o) (npduNetMessage o) (npduVendorID o).
Definition obj_of_npci (h : npci) (data : list N) : pyobj :=
  mkObj data (er h) (prio h) (ver h) None (dadr h) (sadr h) (hop h) (nmsg h) (vendor h).
(* the object after a successful NPCI.decode: a field the frame does not carry keeps its old value *)
Definition keep {A} (new old : option A) : option A := match new with Some _ => new | None => old end.
Definition obj_after (o : pyobj) (c : N) (h : npci) : pyobj :=
  mkObj (pduData o) (er h) (prio h) (ver h) (Some c) (keep (dadr h) (npduDADR o)) (keep (sadr h) (npduSADR o))
        (keep (hop h) (npduHopCount o)) (nmsg h) (keep (vendor h) (npduVendorID o)).

(* ---- constants read from the source *)
Lemma address_codes n m :
  addrType (RStation n m) = Address_remoteStationAddr /\ addrType (RBroadcast n) = Address_remoteBroadcastAddr
  /\ addrType GBroadcast = Address_globalBroadcastAddr.
Proof. repeat split; reflexivity. Qed.

Lemma message_type_constants :
  [WhoIsRouterToNetwork_messageType; IAmRouterToNetwork_messageType; ICouldBeRouterToNetwork_messageType;
   RejectMessageToNetwork_messageType; RouterBusyToNetwork_messageType; RouterAvailableToNetwork_messageType;
   InitializeRoutingTable_messageType; InitializeRoutingTableAck_messageType; EstablishConnectionToNetwork_messageType;
   DisconnectConnectionToNetwork_messageType; WhatIsNetworkNumber_messageType; NetworkNumberIs_messageType]
  = map msg_type msg_witnesses.
Proof. reflexivity. Qed.

(* ---- tactics *)
Create HintDb pyset.
#[export] Hint Unfold set_pduData set_pduExpectingReply set_pduNetworkPriority set_npduVersion set_npduControl set_npduDADR set_npduSADR set_npduHopCount set_npduNetMessage set_npduVendorID set_wirtnNetwork set_iartnNetworkList set_icbrtnNetwork set_icbrtnPerformanceIndex set_rmtnRejectionReason set_rmtnDNET set_rbtnNetworkList set_ratnNetworkList set_irtTable set_irtaTable set_ectnDNET set_ectnTerminationTime set_dctnDNET set_nniNet set_nniFlag : pyset.
Ltac step :=
  match goal with
  | |- context [put ?x] => destruct (put x)
  | |- context [get_short ?l] => lazymatch l with _ :: _ => fail | [] => fail | _ => destruct l as [|? [|? ?]] eqn:? end
  | |- context [Base.get ?l] => lazymatch l with _ :: _ => fail | [] => fail | _ => destruct l eqn:? end
  | |- context [if ?c then _ else _] => destruct c eqn:?
  | |- context [match ?x with _ => _ end] => destruct x eqn:?
  end.
Ltac norm := cbn -[put put_short put_long N.ltb N.leb N.eqb N.land N.lor N.div N.modulo N.mul N.add lenN firstn skipn] in *.
Ltac lits :=
  repeat match goal with
  | |- context [put 0] => change (put 0) with (@Ok (list N) [0])
  | |- context [put (Npos ?p)] => let v := eval vm_compute in (put (Npos p)) in change (put (Npos p)) with v
  | |- context [put_short (Npos ?p)] => let v := eval vm_compute in (put_short (Npos p)) in change (put_short (Npos p)) with v
  | |- context [put_short 0] => change (put_short 0) with [0; 0]
  end.
Ltac tidy := autounfold with pyset in *; lits; norm; repeat (progress (rewrite <- ?app_assoc, ?app_nil_r; cbn [app])); try reflexivity; try discriminate.
Ltac crush := tidy; repeat (step; tidy).

Lemma app_data_app a b p : app_data b (app_data a p) = app_data (a ++ b) p.
Proof. destruct p; unfold app_data; cbn. rewrite app_assoc. reflexivity. Qed.
Lemma app_data_nil p : app_data [] p = p.
Proof. destruct p; unfold app_data; cbn. rewrite app_nil_r. reflexivity. Qed.

(* ================= the twelve messages: encode ================= *)
Lemma WhoIsRouterToNetwork_encode_is_model o p :
  WhoIsRouterToNetwork_encode o p = do b <- enc_msg (msg_of_whois o); Ok (o, app_data b p).
Proof. destruct o as [[n|]], p; unfold WhoIsRouterToNetwork_encode, app_data; crush. Qed.

Lemma ICouldBeRouterToNetwork_encode_is_model o p :
  ICouldBeRouterToNetwork_encode o p = do b <- enc_msg (msg_of_icb o); Ok (o, app_data b p).
Proof. destruct o, p; unfold ICouldBeRouterToNetwork_encode, app_data, py_put; crush. Qed.

Lemma RejectMessageToNetwork_encode_is_model o p :
  RejectMessageToNetwork_encode o p = do b <- enc_msg (msg_of_rej o); Ok (o, app_data b p).
Proof. destruct o, p; unfold RejectMessageToNetwork_encode, app_data, py_put; crush. Qed.

Lemma EstablishConnectionToNetwork_encode_is_model o p :
  EstablishConnectionToNetwork_encode o p = do b <- enc_msg (msg_of_est o); Ok (o, app_data b p).
Proof. destruct o, p; unfold EstablishConnectionToNetwork_encode, app_data, py_put; crush. Qed.

Lemma DisconnectConnectionToNetwork_encode_is_model o p :
  DisconnectConnectionToNetwork_encode o p = do b <- enc_msg (msg_of_disc o); Ok (o, app_data b p).
Proof. destruct o, p; unfold DisconnectConnectionToNetwork_encode, app_data, py_put; crush. Qed.

Lemma WhatIsNetworkNumber_encode_is_model o p :
  WhatIsNetworkNumber_encode o p = do b <- enc_msg (msg_of_what o); Ok (o, app_data b p).
Proof. destruct o, p; unfold WhatIsNetworkNumber_encode, app_data; crush. Qed.

Lemma NetworkNumberIs_encode_is_model o p :
  NetworkNumberIs_encode o p = do b <- enc_msg (msg_of_nni o); Ok (o, app_data b p).
Proof. destruct o, p; unfold NetworkNumberIs_encode, app_data, py_put; crush. Qed.

(* `for net in <list>: npdu.put_short(net)` *)
Lemma fold_put_nets (f : pyobj -> N -> res pyobj) l p :
  (forall q x, f q x = py_put_short x q) ->
  fold_res f l p = Ok (app_data (put_nets l) p).
Proof.
  intros Hf. revert p. induction l as [|x r IH]; intros p; cbn [fold_res put_nets flat_map].
  - rewrite app_data_nil. reflexivity.
  - rewrite Hf. unfold py_put_short. cbn [bind]. rewrite IH. fold (app_data (put_short x) p).
    rewrite app_data_app. reflexivity.
Qed.

Lemma IAmRouterToNetwork_encode_is_model o p :
  IAmRouterToNetwork_encode o p = do b <- enc_msg (msg_of_iam o); Ok (o, app_data b p).
Proof.
  unfold IAmRouterToNetwork_encode. rewrite fold_put_nets by (intros; reflexivity). reflexivity.
Qed.
Lemma RouterBusyToNetwork_encode_is_model o p :
  RouterBusyToNetwork_encode o p = do b <- enc_msg (msg_of_busy o); Ok (o, app_data b p).
Proof.
  unfold RouterBusyToNetwork_encode. rewrite fold_put_nets by (intros; reflexivity). reflexivity.
Qed.
Lemma RouterAvailableToNetwork_encode_is_model o p :
  RouterAvailableToNetwork_encode o p = do b <- enc_msg (msg_of_avail o); Ok (o, app_data b p).
Proof.
  unfold RouterAvailableToNetwork_encode. rewrite fold_put_nets by (intros; reflexivity). reflexivity.
Qed.

(* `for rte in <table>: put_short(rtDNET); put(rtPortID); put(len(rtPortInfo)); put_data(rtPortInfo)` *)
Lemma fold_enc_rtes (f : pyobj -> rte -> res pyobj) t p :
  (forall q e, f q e = do q1 <- py_put_short (rt_dnet e) q; do q2 <- py_put (rt_port e) q1;
                       do q3 <- py_put (lenN (rt_info e)) q2; py_put_data (rt_info e) q3) ->
  fold_res f t p = do b <- enc_rtes t; Ok (app_data b p).
Proof.
  intros Hf. revert p. induction t as [|e r IH]; intros p; cbn [fold_res enc_rtes bind].
  - rewrite app_data_nil. reflexivity.
  - rewrite Hf. unfold py_put_short, py_put, py_put_data. cbn [bind].
    destruct (put (rt_port e)) as [pb|]; [|reflexivity]. cbn [bind].
    destruct (put (lenN (rt_info e))) as [lb|]; [|reflexivity]. cbn [bind].
    rewrite IH. destruct (enc_rtes r) as [rest|]; [|reflexivity]. cbn [bind].
    destruct p; unfold app_data; cbn. rewrite <- !app_assoc. reflexivity.
Qed.

Lemma table_encode (f : pyobj -> rte -> res pyobj) t p :
  (forall q e, f q e = do q1 <- py_put_short (rt_dnet e) q; do q2 <- py_put (rt_port e) q1;
                       do q3 <- py_put (lenN (rt_info e)) q2; py_put_data (rt_info e) q3) ->
  (do q <- py_put (lenN t) p; fold_res f t q) = do b <- enc_table t; Ok (app_data b p).
Proof.
  intros Hf. unfold py_put, enc_table. destruct (put (lenN t)) as [nb|]; [|reflexivity]. cbn [bind].
  rewrite (fold_enc_rtes f t _ Hf). destruct (enc_rtes t); [|reflexivity]. cbn [bind].
  fold (app_data nb p). rewrite app_data_app. reflexivity.
Qed.

Lemma InitializeRoutingTable_encode_is_model o p :
  InitializeRoutingTable_encode o p = do b <- enc_msg (msg_of_irt o); Ok (o, app_data b p).
Proof.
  unfold InitializeRoutingTable_encode.
  match goal with |- (do q <- py_put _ _; do r <- fold_res ?f _ q; _) = _ =>
    transitivity (do r <- (do q <- py_put (lenN (irtTable o)) p; fold_res f (irtTable o) q); Ok (o, r)) end.
  { destruct (py_put (lenN (irtTable o)) p); reflexivity. }
  rewrite table_encode by (intros; reflexivity). cbn [msg_of_irt enc_msg].
  destruct (enc_table (irtTable o)); reflexivity.
Qed.
Lemma InitializeRoutingTableAck_encode_is_model o p :
  InitializeRoutingTableAck_encode o p = do b <- enc_msg (msg_of_irta o); Ok (o, app_data b p).
Proof.
  unfold InitializeRoutingTableAck_encode.
  match goal with |- (do q <- py_put _ _; do r <- fold_res ?f _ q; _) = _ =>
    transitivity (do r <- (do q <- py_put (lenN (irtaTable o)) p; fold_res f (irtaTable o) q); Ok (o, r)) end.
  { destruct (py_put (lenN (irtaTable o)) p); reflexivity. }
  rewrite table_encode by (intros; reflexivity). cbn [msg_of_irta enc_msg].
  destruct (enc_table (irtaTable o)); reflexivity.
Qed.

(* ================= the twelve messages: decode ================= *)
Lemma WhoIsRouterToNetwork_decode_is_model o p :
  view msg_of_whois (WhoIsRouterToNetwork_decode o p) = dec_msg WhoIsRouterToNetwork_messageType (pduData p).
Proof. destruct o, p as [d]; unfold WhoIsRouterToNetwork_decode, view, msg_of_whois; destruct d as [|a [|b r]]; crush. Qed.

Lemma ICouldBeRouterToNetwork_decode_is_model o p :
  view msg_of_icb (ICouldBeRouterToNetwork_decode o p) = dec_msg ICouldBeRouterToNetwork_messageType (pduData p).
Proof. destruct o, p as [d]; unfold ICouldBeRouterToNetwork_decode, view, msg_of_icb; destruct d as [|a [|b [|c r]]]; crush. Qed.

Lemma RejectMessageToNetwork_decode_is_model o p :
  view msg_of_rej (RejectMessageToNetwork_decode o p) = dec_msg RejectMessageToNetwork_messageType (pduData p).
Proof. destruct o, p as [d]; unfold RejectMessageToNetwork_decode, view, msg_of_rej; destruct d as [|a [|b [|c r]]]; crush. Qed.

Lemma EstablishConnectionToNetwork_decode_is_model o p :
  view msg_of_est (EstablishConnectionToNetwork_decode o p) = dec_msg EstablishConnectionToNetwork_messageType (pduData p).
Proof. destruct o, p as [d]; unfold EstablishConnectionToNetwork_decode, view, msg_of_est; destruct d as [|a [|b [|c r]]]; crush. Qed.

Lemma DisconnectConnectionToNetwork_decode_is_model o p :
  view msg_of_disc (DisconnectConnectionToNetwork_decode o p) = dec_msg DisconnectConnectionToNetwork_messageType (pduData p).
Proof. destruct o, p as [d]; unfold DisconnectConnectionToNetwork_decode, view, msg_of_disc; destruct d as [|a [|b r]]; crush. Qed.

Lemma WhatIsNetworkNumber_decode_is_model o p :
  view msg_of_what (WhatIsNetworkNumber_decode o p) = dec_msg WhatIsNetworkNumber_messageType (pduData p).
Proof. destruct o, p as [d]; reflexivity. Qed.

Lemma NetworkNumberIs_decode_is_model o p :
  view msg_of_nni (NetworkNumberIs_decode o p) = dec_msg NetworkNumberIs_messageType (pduData p).
Proof. destruct o, p as [d]; unfold NetworkNumberIs_decode, view, msg_of_nni; destruct d as [|a [|b [|c r]]]; crush. Qed.

(* `while npdu.pduData: <list>.append(npdu.get_short())` with fuel 1 + len(pduData) *)
Lemma list_ind2 {A} (P : list A -> Prop) :
  P [] -> (forall a, P [a]) -> (forall a b r, P r -> P (a :: b :: r)) -> forall l, P l.
Proof.
  intros H0 H1 H2. fix IH 1. intros [|a [|b r]]; [exact H0|apply H1|apply H2, IH].
Qed.

Lemma while_nets {O} (c : pyobj * O -> bool) (f : pyobj * O -> res (pyobj * O)) (app : O -> N -> O) :
  (forall q o, c (q, o) = py_nonempty (pduData q)) ->
  (forall q o, f (q, o) = do (v, q') <- py_get_short q; Ok (q', app o v)) ->
  forall bs fuel q o, (length bs < fuel)%nat -> pduData q = bs ->
  while_res fuel c f (q, o) = do l <- dec_nets bs; Ok (set_pduData [] q, fold_left app l o).
Proof.
  intros Hc Hf bs. induction bs as [|a|a b r IH] using list_ind2; intros fuel q o Hlt Hq;
    (destruct fuel as [|fuel]; [cbn in Hlt; lia|]); cbn [while_res]; rewrite Hc, Hq; cbn [py_nonempty].
  - destruct q; cbn in Hq; subst; reflexivity.
  - rewrite Hf. unfold py_get_short. rewrite Hq. reflexivity.
  - rewrite Hf. unfold py_get_short. rewrite Hq. cbn [get_short bind].
    rewrite (IH fuel (set_pduData r q) (app o (a * 256 + b))); [|cbn in Hlt; lia|destruct q; reflexivity].
    cbn [dec_nets]. destruct (dec_nets r); cbn [bind fold_left]; [|reflexivity].
    destruct q; reflexivity.
Qed.

Lemma fold_left_snoc {O A} (mk : list A -> O) (get : O -> list A) (app : O -> A -> O) :
  (forall l, get (mk l) = l) -> (forall o v, app o v = mk (get o ++ [v])) ->
  forall l acc, fold_left app l (mk acc) = mk (acc ++ l).
Proof.
  intros Hg Ha l. induction l as [|x r IH]; intros acc; cbn [fold_left].
  - rewrite app_nil_r. reflexivity.
  - rewrite Ha, Hg, IH, <- app_assoc. reflexivity.
Qed.

Ltac nets_decode mk getl setl :=
  match goal with |- view _ (do x <- while_res _ _ _ (?q, _); _) = _ =>
    rewrite while_nets with (app := fun o v => setl (getl o ++ [v]) o) (bs := pduData q);
      [ | intros; reflexivity | intros; reflexivity | cbn; lia | reflexivity ];
    unfold dec_msg; cbn [N.eqb Pos.eqb];
    destruct (dec_nets _); cbn [bind view rmap fst snd]; [|reflexivity];
    change (setl [] _) with (mk (@nil N));
    rewrite (fold_left_snoc mk getl (fun o v => setl (getl o ++ [v]) o)) by (intros; reflexivity);
    destruct q; reflexivity
  end.

Lemma IAmRouterToNetwork_decode_is_model o p :
  view msg_of_iam (IAmRouterToNetwork_decode o p) = dec_msg IAmRouterToNetwork_messageType (pduData p).
Proof.
  unfold IAmRouterToNetwork_decode, IAmRouterToNetwork_messageType.
  nets_decode mk_IAmRouterToNetwork iartnNetworkList set_iartnNetworkList.
Qed.
Lemma RouterBusyToNetwork_decode_is_model o p :
  view msg_of_busy (RouterBusyToNetwork_decode o p) = dec_msg RouterBusyToNetwork_messageType (pduData p).
Proof.
  unfold RouterBusyToNetwork_decode, RouterBusyToNetwork_messageType.
  nets_decode mk_RouterBusyToNetwork rbtnNetworkList set_rbtnNetworkList.
Qed.
Lemma RouterAvailableToNetwork_decode_is_model o p :
  view msg_of_avail (RouterAvailableToNetwork_decode o p) = dec_msg RouterAvailableToNetwork_messageType (pduData p).
Proof.
  unfold RouterAvailableToNetwork_decode, RouterAvailableToNetwork_messageType.
  nets_decode mk_RouterAvailableToNetwork ratnNetworkList set_ratnNetworkList.
Qed.

(* `for i in range(n): dnet = get_short(); port = get(); k = get(); info = get_data(k); <table>.append(RoutingTableEntry(..))` *)
Lemma iter_dec_rtes {O} (f : pyobj * O -> res (pyobj * O)) (app : O -> rte -> O) :
  (forall q o, f (q, o) = do (d, q1) <- py_get_short q; do (pt, q2) <- py_get q1; do (k, q3) <- py_get q2;
                          do (i, q4) <- py_get_data k q3; Ok (q4, app o (mkRte d pt i))) ->
  forall n q o, iter_res n f (q, o) = do (t, r) <- dec_rtes n (pduData q); Ok (set_pduData r q, fold_left app t o).
Proof.
  intros Hf n. induction n as [|n IH]; intros q o; cbn [iter_res dec_rtes].
  - destruct q; reflexivity.
  - rewrite Hf. unfold py_get_short, py_get, py_get_data.
    destruct (get_short (pduData q)) as [[d r1]|]; [|reflexivity]. cbn [bind pduData set_pduData].
    destruct (get r1) as [[pt r2]|]; [|reflexivity]. cbn [bind pduData set_pduData].
    destruct (get r2) as [[k r3]|]; [|reflexivity]. cbn [bind pduData set_pduData].
    destruct (get_data k r3) as [[i r4]|]; [|reflexivity]. cbn [bind pduData set_pduData].
    rewrite IH. cbn [pduData set_pduData].
    destruct (dec_rtes n r4) as [[t r5]|]; [|reflexivity]. cbn [bind fold_left].
    destruct q; reflexivity.
Qed.

Ltac table_decode mk getl setl :=
  unfold dec_msg; cbn [N.eqb Pos.eqb]; unfold dec_table, py_get;
  match goal with |- context [Base.get (pduData ?q)] =>
    destruct (Base.get (pduData q)) as [[n r1]|]; [|reflexivity];
    cbn [bind];
    rewrite iter_dec_rtes with (app := fun o e => setl (getl o ++ [e]) o); [ | intros; reflexivity ];
    cbn [pduData set_pduData];
    destruct (dec_rtes _ _) as [[t r2]|]; cbn [bind view rmap fst snd]; [|reflexivity];
    change (setl [] _) with (mk (@nil rte));
    rewrite (fold_left_snoc mk getl (fun o e => setl (getl o ++ [e]) o)) by (intros; reflexivity);
    destruct q; reflexivity
  end.

Lemma InitializeRoutingTable_decode_is_model o p :
  view msg_of_irt (InitializeRoutingTable_decode o p) = dec_msg InitializeRoutingTable_messageType (pduData p).
Proof.
  unfold InitializeRoutingTable_decode, InitializeRoutingTable_messageType.
  table_decode mk_InitializeRoutingTable irtTable set_irtTable.
Qed.
Lemma InitializeRoutingTableAck_decode_is_model o p :
  view msg_of_irta (InitializeRoutingTableAck_decode o p) = dec_msg InitializeRoutingTableAck_messageType (pduData p).
Proof.
  unfold InitializeRoutingTableAck_decode, InitializeRoutingTableAck_messageType.
  table_decode mk_InitializeRoutingTableAck irtaTable set_irtaTable.
Qed.

