(* PrimBits.v — BitString content octets: unused-bit count, MSB-first packing with zero padding, round trip. *)
From Bac Require Import Base BytesFacts Tag Prim.
From Coq Require Import ZifyBool ZifyN ZifyNat.
Ltac Zify.zify_post_hook ::= Z.to_euclidean_division_equations.
Open Scope N_scope.

Lemma list_ind8 (P : list bool -> Prop) :
  P [] -> (forall l, (0 < length l < 8)%nat -> P l) ->
  (forall b7 b6 b5 b4 b3 b2 b1 b0 r, P r -> P (b7::b6::b5::b4::b3::b2::b1::b0::r)) ->
  forall l, P l.
Proof.
  intros H0 Hs H8. fix IH 1. intros l.
  destruct l as [|b7 [|b6 [|b5 [|b4 [|b3 [|b2 [|b1 [|b0 r]]]]]]]]; try (apply Hs; cbn [length]; lia).
  - apply H0.
  - apply H8. apply IH.
Qed.

Lemma byte_bits_oct b7 b6 b5 b4 b3 b2 b1 b0 :
  byte_bits (oct b7 b6 b5 b4 b3 b2 b1 b0) = [b7; b6; b5; b4; b3; b2; b1; b0].
Proof. destruct b7, b6, b5, b4, b3, b2, b1, b0; reflexivity. Qed.

Lemma oct_byte b7 b6 b5 b4 b3 b2 b1 b0 : oct b7 b6 b5 b4 b3 b2 b1 b0 < 256.
Proof. destruct b7, b6, b5, b4, b3, b2, b1, b0; reflexivity. Qed.

Lemma unused_bits_8 b7 b6 b5 b4 b3 b2 b1 b0 r :
  unused_bits (b7::b6::b5::b4::b3::b2::b1::b0::r) = unused_bits r.
Proof.
  unfold unused_bits, lenN. cbn [length].
  replace (N.of_nat (S (S (S (S (S (S (S (S (length r))))))))) mod 8) with (N.of_nat (length r) mod 8) by lia.
  reflexivity.
Qed.

(* the octets, read most significant bit first, are the bits followed by zero padding *)
Lemma unpack_pack l :
  flat_map byte_bits (pack_bits l) = l ++ repeat false (N.to_nat (unused_bits l)).
Proof.
  induction l as [|l Hl|b7 b6 b5 b4 b3 b2 b1 b0 r IH] using list_ind8.
  - reflexivity.
  - destruct l as [|b7 [|b6 [|b5 [|b4 [|b3 [|b2 [|b1 [|b0 r]]]]]]]]; cbn [length] in Hl; try lia;
    unfold pack_bits, nth; cbn [flat_map]; rewrite byte_bits_oct; reflexivity.
  - cbn [pack_bits flat_map]. rewrite byte_bits_oct, IH, unused_bits_8. reflexivity.
Qed.

Lemma unused_bits_spec l : unused_bits l = (8 - lenN l mod 8) mod 8.
Proof. unfold unused_bits. destruct (lenN l mod 8 =? 0) eqn:E; lia. Qed.

Lemma pack_bits_length l : lenN (pack_bits l) = (lenN l + 7) / 8.
Proof.
  induction l as [|l Hl|b7 b6 b5 b4 b3 b2 b1 b0 r IH] using list_ind8.
  - reflexivity.
  - destruct l as [|b7 [|b6 [|b5 [|b4 [|b3 [|b2 [|b1 [|b0 r]]]]]]]]; cbn [length] in Hl; try lia; reflexivity.
  - cbn [pack_bits]. unfold lenN in *. cbn [length]. lia.
Qed.

Lemma pack_bits_bytes l : bytes_ok (pack_bits l) = true.
Proof.
  induction l as [|l Hl|b7 b6 b5 b4 b3 b2 b1 b0 r IH] using list_ind8.
  - reflexivity.
  - destruct l as [|b7 [|b6 [|b5 [|b4 [|b3 [|b2 [|b1 [|b0 r]]]]]]]]; cbn [length] in Hl; try lia;
    unfold pack_bits, nth, bytes_ok, byte_ok; cbn [forallb]; rewrite andb_true_r; apply N.ltb_lt, oct_byte.
  - cbn [pack_bits]. unfold bytes_ok in *. cbn [forallb]. rewrite IH, andb_true_r. apply N.ltb_lt, oct_byte.
Qed.

Lemma bits_roundtrip l : dec_bits (enc_bits l) = Ok l.
Proof.
  unfold enc_bits, dec_bits. rewrite unpack_pack. f_equal.
  destruct (unused_bits l =? 0) eqn:E.
  - apply N.eqb_eq in E. rewrite E. cbn [N.to_nat repeat]. apply app_nil_r.
  - rewrite app_length, repeat_length.
    replace (length l + N.to_nat (unused_bits l) - N.to_nat (unused_bits l))%nat with (length l) by lia.
    rewrite firstn_app, Nat.sub_diag, firstn_all. cbn [firstn]. apply app_nil_r.
Qed.

Lemma unused_bits_lt l : unused_bits l < 8.
Proof. rewrite unused_bits_spec. lia. Qed.
