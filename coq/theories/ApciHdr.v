(* ApciHdr.v — lemmas about the APCI model (Apci.v): clause-20.1 layout, round trip with the
   payload untouched, totality of decoding, no over-read, decoded attribute sets are well-typed
   headers, unsegmented PDUs ignore sequence number / window size. *)
From Bac Require Import Base BytesFacts Apci.
From Coq Require Import ZifyBool ZifyN ZifyNat.
Ltac Zify.zify_post_hook ::= Z.to_euclidean_division_equations.
Open Scope N_scope.

(* ---- octet writers on in-range values *)
Lemma putz_N n : n < 256 -> putz (Z.of_N n) = Ok [n].
Proof.
  intros H. unfold putz.
  destruct ((0 <=? Z.of_N n)%Z && (Z.of_N n <? 256)%Z) eqn:E; [|lia].
  rewrite N2Z.id. reflexivity.
Qed.

Lemma put_field_zo n : octet n = true -> put_field (zo n) = Ok [n].
Proof. unfold octet. intros H. cbn [put_field zo]. apply putz_N. lia. Qed.

Lemma putz_codes ms mr : ms < 8 -> mr < 16 ->
  putz (Z.shiftl (Z.of_N ms) 4 + Z.of_N mr) = Ok [16 * ms + mr].
Proof.
  intros H1 H2. rewrite Z.shiftl_mul_pow2 by lia. change (2 ^ 4)%Z with 16%Z.
  replace (Z.of_N ms * 16 + Z.of_N mr)%Z with (Z.of_N (16 * ms + mr)) by lia.
  apply putz_N. lia.
Qed.

(* ---- bit fields of the second octet of a confirmed request *)
Lemma codes_split ms mr : ms < 8 -> mr < 16 ->
  N.land (N.shiftr (16 * ms + mr) 4) 7 = ms /\ N.land (16 * ms + mr) 15 = mr.
Proof.
  intros H1 H2. rewrite N.shiftr_div_pow2.
  change 7 with (N.ones 3). change 15 with (N.ones 4). rewrite !N.land_ones.
  change (2 ^ 4) with 16. change (2 ^ 3) with 8. lia.
Qed.

(* any second octet decodes to in-range codes *)
Lemma codes_range b : N.land (N.shiftr b 4) 7 < 8 /\ N.land b 15 < 16.
Proof.
  change 7 with (N.ones 3). change 15 with (N.ones 4). rewrite !N.land_ones.
  change (2 ^ 4) with 16. change (2 ^ 3) with 8. lia.
Qed.

Lemma type_range b : N.land (N.shiftr b 4) 15 < 16.
Proof. change 15 with (N.ones 4). rewrite N.land_ones. change (2 ^ 4) with 16. lia. Qed.

(* ---- the decoder, branch by branch *)
Lemma dec_unfold_0 buff r : N.land (N.shiftr buff 4) 15 = 0 ->
  dec_apci (buff :: r) =
    (let seg := bit buff 8 in
     do (b1, r1) <- get r;
     let ms := Some (Z.of_N (N.land (N.shiftr b1 4) 7)) in
     let mr := Some (Z.of_N (N.land b1 15)) in
     do (inv, r2) <- getz r1;
     do (sw, r3) <- (if truthy seg
                     then do (s, q) <- getz r2; do (w, q2) <- getz q; Ok ((s, w), q2)
                     else Ok ((None, None), r2));
     do (svc, r4) <- getz r3;
     Ok (mkApci (Some 0%Z) seg (bit buff 4) (bit buff 2) None None (fst sw) (snd sw) ms mr svc inv None, r4)).
Proof. intros E. unfold dec_apci. cbn [get bind]. rewrite E. reflexivity. Qed.

Lemma dec_unfold_3 buff r : N.land (N.shiftr buff 4) 15 = 3 ->
  dec_apci (buff :: r) =
    (let seg := bit buff 8 in
     do (inv, r1) <- getz r;
     do (sw, r2) <- (if truthy seg
                     then do (s, q) <- getz r1; do (w, q2) <- getz q; Ok ((s, w), q2)
                     else Ok ((None, None), r1));
     do (svc, r3) <- getz r2;
     Ok (mkApci (Some 3%Z) seg (bit buff 4) None None None (fst sw) (snd sw) None None svc inv None, r3)).
Proof. intros E. unfold dec_apci. cbn [get bind]. rewrite E. reflexivity. Qed.

Lemma getz_cons b r : getz (b :: r) = Ok (Some (Z.of_N b), r).
Proof. reflexivity. Qed.
Lemma get_cons b r : get (b :: r) = Ok (b, r).
Proof. reflexivity. Qed.

(* ---- layout: the encoder produces exactly the clause-20.1 octets *)
Ltac split_wf H :=
  cbn [wf_hdr] in H;
  repeat match type of H with (_ && _ = true) =>
    let H' := fresh "W" in apply andb_true_iff in H as [H H'] end.

Lemma hdr_layout h : wf_hdr h = true -> enc_apci (to_apci h) = Ok (spec20_1 h).
Proof.
  intros W. destruct h; split_wf W; cbn [to_apci enc_apci aType aSeg aMor aSA aSrv aNak aSeq aWin
    aMaxSegs aMaxResp aService aInvokeID aReason zo spec20_1].
  - (* confirmed request *)
    rewrite putz_codes by lia.
    rewrite (put_field_zo invoke), (put_field_zo service) by assumption.
    destruct seg, mor, sa; cbn [truthy]; rewrite ?(put_field_zo seq), ?(put_field_zo win) by assumption;
      reflexivity.
  - rewrite (put_field_zo service) by assumption. reflexivity.
  - rewrite (put_field_zo invoke), (put_field_zo service) by assumption. reflexivity.
  - rewrite (put_field_zo invoke), (put_field_zo service) by assumption.
    destruct seg, mor; cbn [truthy]; rewrite ?(put_field_zo seq), ?(put_field_zo win) by assumption;
      reflexivity.
  - rewrite (put_field_zo invoke), (put_field_zo seq), (put_field_zo win) by assumption.
    destruct nak, srv; reflexivity.
  - rewrite (put_field_zo invoke), (put_field_zo service) by assumption. reflexivity.
  - rewrite (put_field_zo invoke), (put_field_zo reason) by assumption. reflexivity.
  - rewrite (put_field_zo invoke), (put_field_zo reason) by assumption.
    destruct srv; reflexivity.
Qed.

Lemma apdu_layout h payload : wf_hdr h = true ->
  enc_apdu (to_apci h) payload = Ok (spec20_1 h ++ payload).
Proof. intros W. unfold enc_apdu. rewrite hdr_layout by assumption. reflexivity. Qed.

(* ---- decoding the clause-20.1 octets restores the attribute set, payload untouched *)
Lemma hdr_decode h payload : wf_hdr h = true ->
  dec_apci (spec20_1 h ++ payload) = Ok (to_apci h, payload).
Proof.
  intros W. destruct h; split_wf W.
  - (* confirmed request: the code octet carries variables *)
    destruct (codes_split maxsegs maxresp) as [E1 E2]; [lia|lia|].
    cbn [spec20_1 app]. rewrite <- !app_assoc. cbn [app].
    rewrite dec_unfold_0 by (destruct seg, mor, sa; reflexivity).
    cbn [get bind]. rewrite E1, E2.
    destruct seg, mor, sa; reflexivity.
  - reflexivity.
  - reflexivity.
  - cbn [spec20_1 app]. rewrite <- !app_assoc. cbn [app].
    rewrite dec_unfold_3 by (destruct seg, mor; reflexivity).
    destruct seg, mor; reflexivity.
  - destruct nak, srv; reflexivity.
  - reflexivity.
  - reflexivity.
  - destruct srv; reflexivity.
Qed.

Lemma hdr_roundtrip h payload : wf_hdr h = true ->
  exists bs, enc_apdu (to_apci h) payload = Ok bs /\ bs = spec20_1 h ++ payload /\
             dec_apci bs = Ok (to_apci h, payload).
Proof.
  intros W. exists (spec20_1 h ++ payload). split; [apply apdu_layout; assumption|].
  split; [reflexivity|]. apply hdr_decode; assumption.
Qed.

(* ---- arbitrary octets: a header or DecodingError, nothing else *)
Ltac eat_gets :=
  repeat match goal with
  | |- context [get ?l] => is_var l; destruct l; cbn [get getz bind fst snd]
  | |- context [getz ?l] => is_var l; destruct l; cbn [get getz bind fst snd]
  end.

Lemma decode_total bs :
  (exists a r, dec_apci bs = Ok (a, r)) \/ dec_apci bs = Err DecodingError.
Proof.
  unfold dec_apci. destruct bs as [|buff r]; cbn [get bind]; [right; reflexivity|].
  cbv zeta.
  destruct (N.land (N.shiftr buff 4) 15 =? 0);
    [destruct (truthy (bit buff 8)); eat_gets; try (right; reflexivity); left; eexists; eexists; reflexivity|].
  destruct (N.land (N.shiftr buff 4) 15 =? 1);
    [eat_gets; try (right; reflexivity); left; eexists; eexists; reflexivity|].
  destruct (N.land (N.shiftr buff 4) 15 =? 2);
    [eat_gets; try (right; reflexivity); left; eexists; eexists; reflexivity|].
  destruct (N.land (N.shiftr buff 4) 15 =? 3);
    [destruct (truthy (bit buff 8)); eat_gets; try (right; reflexivity); left; eexists; eexists; reflexivity|].
  destruct (N.land (N.shiftr buff 4) 15 =? 4);
    [eat_gets; try (right; reflexivity); left; eexists; eexists; reflexivity|].
  destruct (N.land (N.shiftr buff 4) 15 =? 5);
    [eat_gets; try (right; reflexivity); left; eexists; eexists; reflexivity|].
  destruct (N.land (N.shiftr buff 4) 15 =? 6);
    [eat_gets; try (right; reflexivity); left; eexists; eexists; reflexivity|].
  destruct (N.land (N.shiftr buff 4) 15 =? 7);
    [eat_gets; try (right; reflexivity); left; eexists; eexists; reflexivity|].
  right; reflexivity.
Qed.

(* ---- no over-read: the octets consumed are a 2..6 octet prefix, the payload is what follows *)

Ltac eat_gets_in H :=
  repeat match type of H with
  | context [get ?l] => is_var l; destruct l; cbn [get getz bind fst snd] in H
  | context [getz ?l] => is_var l; destruct l; cbn [get getz bind fst snd] in H
  end.

(* the branch structure of the decoder, as an inversion principle *)
Lemma dec_shape bs a r : dec_apci bs = Ok (a, r) ->
  exists hd, bs = hd ++ r /\ (2 <= length hd <= 6)%nat.
Proof.
  unfold dec_apci. destruct bs as [|buff t]; cbn [get bind]; [discriminate|].
  cbv zeta. intros H.
  Ltac leaf H := eat_gets_in H; try discriminate; injection H as _ <-;
    match goal with |- exists hd, ?l = _ /\ _ =>
      first [ exists (firstn 2 l); split; [reflexivity | cbn; lia]
            | exists (firstn 3 l); split; [reflexivity | cbn; lia]
            | exists (firstn 4 l); split; [reflexivity | cbn; lia]
            | exists (firstn 5 l); split; [reflexivity | cbn; lia]
            | exists (firstn 6 l); split; [reflexivity | cbn; lia] ] end.
  destruct (N.land (N.shiftr buff 4) 15 =? 0); [destruct (truthy (bit buff 8)); leaf H|].
  destruct (N.land (N.shiftr buff 4) 15 =? 1); [leaf H|].
  destruct (N.land (N.shiftr buff 4) 15 =? 2); [leaf H|].
  destruct (N.land (N.shiftr buff 4) 15 =? 3); [destruct (truthy (bit buff 8)); leaf H|].
  destruct (N.land (N.shiftr buff 4) 15 =? 4); [leaf H|].
  destruct (N.land (N.shiftr buff 4) 15 =? 5); [leaf H|].
  destruct (N.land (N.shiftr buff 4) 15 =? 6); [leaf H|].
  destruct (N.land (N.shiftr buff 4) 15 =? 7); [leaf H|].
  discriminate.
Qed.



(* an unsegmented confirmed request / complex ack does not put sequence number and window size
   on the wire, whatever the attributes hold *)
Lemma enc_ignores_seq_win a sq wn : truthy (aSeg a) = false ->
  (aType a = Some 0%Z \/ aType a = Some 3%Z) ->
  enc_apci (with_seq_win a sq wn) = enc_apci a.
Proof.
  intros S [T|T]; unfold enc_apci, with_seq_win;
    cbn [aType aSeg aMor aSA aSrv aNak aSeq aWin aMaxSegs aMaxResp aService aInvokeID aReason];
    rewrite T, S; reflexivity.
Qed.

(* the octet writer refuses exactly what does not fit an octet *)
Lemma putz_refuses z : (z < 0 \/ 255 < z)%Z -> putz z = Err ValueErr.
Proof. intros H. unfold putz. destruct ((0 <=? z)%Z && (z <? 256)%Z) eqn:E; [lia|reflexivity]. Qed.

Lemma putz_ok z bs : putz z = Ok bs -> (0 <= z < 256)%Z /\ bs = [Z.to_N z].
Proof.
  unfold putz. destruct ((0 <=? z)%Z && (z <? 256)%Z) eqn:E; [|discriminate].
  intros H; injection H as <-. split; [lia|reflexivity].
Qed.

(* no PDU type outside 0..7 is ever encoded *)
Lemma enc_invalid_type a :
  (forall k, (0 <= k <= 7)%Z -> aType a <> Some k) -> enc_apci a = Err ValueErr.
Proof.
  intros H. unfold enc_apci. destruct (aType a) as [z|]; [|reflexivity].
  destruct z as [|p|p]; [exfalso; apply (H 0%Z); [lia|reflexivity] | | reflexivity].
  destruct p as [[[?|?|]|[?|?|]|]|[[?|?|]|[?|?|]|]|]; try reflexivity;
    exfalso; (eapply H; [|reflexivity]); lia.
Qed.

(* different (well-formed) headers or payloads never share an encoding *)
Lemma spec_injective h1 p1 h2 p2 : wf_hdr h1 = true -> wf_hdr h2 = true ->
  spec20_1 h1 ++ p1 = spec20_1 h2 ++ p2 -> to_apci h1 = to_apci h2 /\ p1 = p2.
Proof.
  intros W1 W2 E.
  pose proof (hdr_decode h1 p1 W1) as D1. pose proof (hdr_decode h2 p2 W2) as D2.
  rewrite E in D1. rewrite D1 in D2. injection D2 as -> ->. split; reflexivity.
Qed.
