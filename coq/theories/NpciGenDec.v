(* NpciGenDec.v — the translated NPCI.decode is dec_npci (split from NpciGenFacts.v: slow case analysis) *)
From Bac Require Import Base BytesFacts Npci NpciRt NpciFacts NpciMsgFacts NpciGenFacts.
From BacGen Require Import NpciFns.
From Coq Require Import ZifyBool ZifyN ZifyNat.
Ltac Zify.zify_post_hook ::= Z.to_euclidean_division_equations.
Open Scope N_scope.

(* NPCI.decode: the fields stored are those of dec_npci, the raw control octet is stored in npduControl,
   the buffer keeps what dec_npci leaves; a field the frame does not carry keeps its old value *)
Lemma NPCI_decode_is_model o p :
  NPCI_decode o p =
  do (ch, r) <- dec_npci (pduData p); Ok (obj_after o (fst ch) (snd ch), set_pduData r p).
Proof.
  destruct o as [odata oer opr over oc od os oh om ov], p as [d].
  unfold NPCI_decode, dec_npci, obj_after, keep, py_get, py_get_short, py_get_data, dec_opt, dec_dadr, dec_sadr, dec_mt,
    is_vendor_type, get_data.
  destruct d as [|v [|c r]]; [reflexivity|reflexivity|].
  change (lenN (v :: c :: r) <? 2) with (N.of_nat (S (S (length r))) <? 2).
  replace (N.of_nat (S (S (length r))) <? 2) with false by (symmetry; apply N.ltb_ge; lia).
  crush.
Qed.
