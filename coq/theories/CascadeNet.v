(* CascadeNet.v — the IpNet world of an abstract configuration (BipDeliv.acfg) placed on IP subnets
   behind the router, and the conditions on that placement (net_ok).  Definitions only. *)
From Bac Require Import Base Bip IpNet BipDeliv.
Open Scope N_scope.

Definition lanof (sl : sub -> nat) (fl : addr * addr -> nat) (r : rcv) : nat :=
  match r with RS s _ | RB s => sl s | RF x => fl x end.
Definition kind_of (c : acfg) (r : rcv) : kind :=
  match r with RS _ _ => KSimple | RB s => KBbmd (bbmd_of c s) | RF x => KForeign (foreign_of x) end.
Definition node_of (c : acfg) sl fl (r : rcv) : node :=
  mkNode (lanof sl fl r) (rcv_addr r) true (kind_of c r).
(* nodes in the order of all_rcvs: per subnet the BBMD then its ordinary nodes, then the foreign devices *)
Definition world_of (c : acfg) (lans : list lan) sl fl (now : Z) : world :=
  mkWorld lans (map (node_of c sl fl) (all_rcvs c)) now.

(* the LANs whose subnet holds an IP address: where the router sends a datagram for it *)
Fixpoint homes_from (j : nat) (ls : list lan) (a : addr) : list nat :=
  match ls with
  | [] => []
  | l :: r => (if N.land (fst a) (l_mask l) =? l_subnet l then [j] else []) ++ homes_from (S j) r a
  end.
Definition homes (ls : list lan) (a : addr) : list nat := homes_from 0 ls a.
Definition lan_at (ls : list lan) (i : nat) : lan := nth i ls (mkLan 0 0 0).

(* the placement is sound: every address is routed to exactly its own LAN, a subnet's LAN has the
   subnet's broadcast address, one BBMD subnet per LAN, foreign devices on LANs without BBMD *)
Record net_ok (c : acfg) (lans : list lan) sl fl : Prop := mkNetOk {
  nk_range : forall r, In r (all_rcvs c) -> (lanof sl fl r < length lans)%nat;
  nk_home_node : forall r, In r (all_rcvs c) -> homes lans (rcv_addr r) = [lanof sl fl r];
  nk_home_bcast : forall s, In s (a_subs c) -> homes lans (sb_bcast s) = [sl s];
  nk_bcast : forall s, In s (a_subs c) -> lan_bcast (lan_at lans (sl s)) = sb_bcast s;
  nk_self_home : forall l, (l < length lans)%nat -> In l (homes lans (lan_bcast (lan_at lans l)));
  nk_sl_inj : forall s s', In s (a_subs c) -> In s' (a_subs c) -> sl s = sl s' -> s = s';
  nk_fl : forall x s, In x (a_fds c) -> In s (a_subs c) -> fl x <> sl s;
  nk_not_lanbcast : forall r l, In r (all_rcvs c) -> (l < length lans)%nat -> rcv_addr r <> lan_bcast (lan_at lans l)
}.

(* deliveries of a log, by address *)
Definition adelivery := (addr * addr * dest * npdu)%type.
Definition up_addrs (w : world) (os : list obs) : list adelivery :=
  flat_map (fun o => match o with
                     | ODeliver i (Up s d p) =>
                         match nth_error (w_nodes w) i with Some n => [(n_addr n, s, d, p)] | None => [] end
                     | _ => []
                     end) os.
Definition dl (d : delivery) : adelivery :=
  match d with (r, s, dd, p) => (rcv_addr r, s, dd, p) end.

(* the datagrams node r puts on its LAN when it performs acts (IpNet.emit) *)
Definition emitted (c : acfg) lans sl fl now (r : rcv) (acts : list action) : list dgram :=
  fst (emit (world_of c lans sl fl now) 0 (node_of c sl fl r) acts).
