(* AsapCodec.v — the reply decision computed from the octets of the request parameters:
   service lookup in the translated registry (gen/Schemas.v, from apdu.confirmed_request_types),
   parameter decoding by the C03 codec model (Codec.decode_pdu), then Asap.asap_confirmed. *)
From Bac Require Import Base.
From Bac Require Import Tag.
From Bac Require Import Schema.
From Bac Require Import Codec.
From Bac Require Import Asap.
From BacGen Require Import Schemas.
Open Scope N_scope.

Fixpoint assocN {A} (k : N) (l : list (N * A)) : option A :=
  match l with [] => None | (k', v) :: r => if k =? k' then Some v else assocN k r end.

(* exception class -> what ApplicationServiceAccessPoint.indication does with it *)
Definition dec_out_of_err (e : err) : dec_out :=
  match e with
  | InvalidParameterDatatype => DReject 3
  | InvalidTag => DReject 4
  | MissingRequired => DReject 5
  | TooManyArguments => DReject 7
  | RejectExc r => DReject r
  | AbortExc r => DAbort r
  | e => DExn e
  end.

Definition decode_outcome (svc : N) (params : list N) : option dec_out :=
  match assocN svc confirmed_request_types with
  | None => None
  | Some t => Some match decode_pdu t params with Ok _ => DOk | Err e => dec_out_of_err e end
  end.

Definition asap_octets (svc : N) (params : list N) (have_helper : bool) (x : exec_out) : list reply :=
  match decode_outcome svc params with
  | None => asap_confirmed false have_helper DOk x
  | Some d => asap_confirmed true have_helper d x
  end.

(* canonical output: the decode outcome class followed by the replies *)
Definition canon_dec_out (o : option dec_out) : list Z :=
  match o with
  | None => [0%Z]
  | Some DOk => [1%Z]
  | Some (DReject r) => [2%Z; zN r]
  | Some (DAbort r) => [3%Z; zN r]
  | Some (DExn e) => [4%Z; err_code e]
  end.
Definition canon_octets (svc : N) (params : list N) (have_helper : bool) (x : exec_out) : list Z :=
  canon_dec_out (decode_outcome svc params) ++ canon_replies (asap_octets svc params have_helper x).
