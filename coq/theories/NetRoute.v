(* NetRoute.v — exact behaviour of the nodes along a correct route: the steps of the induction on the tree path
   (origin station, intermediate router, last router, addressed station).  Lemmas about Net.v (property C06). *)
From Coq Require Import ZifyBool ZifyN ZifyNat.
From Bac Require Import Base Net NetFacts NetTerm2 NetReply.
Ltac Zify.zify_post_hook ::= Z.to_euclidean_division_equations.
Open Scope N_scope.

Lemma optN_eqb_sym : forall a b, optN_eqb a b = optN_eqb b a.
Proof. intros [x|] [y|]; cbn; try reflexivity. apply N.eqb_sym. Qed.

Lemma find_net_from_none : forall l k net a,
  find_net_from l k net = None -> In a l -> optN_eqb (a_net a) net = false.
Proof.
  induction l as [|b r IH]; intros k net a H Hin; [contradiction|]. cbn in H.
  destruct (optN_eqb (a_net b) net) eqn:E; [discriminate|].
  destruct Hin as [Hin|Hin]; [subst; assumption|eapply IH; eauto].
Qed.

Lemma not_connected : forall n d a, find_net n (Some d) = None -> In a (adapters n) ->
  optN_eqb (Some d) (a_net a) = false.
Proof. intros n d a H Hin. rewrite optN_eqb_sym. eapply find_net_from_none; eauto. Qed.

Lemma cache_get_set_other : forall c k m s d, snd k <> d -> cache_get (cache_set c k m) s d = cache_get c s d.
Proof.
  induction c as [|[k0 m0] r IH]; intros k m s d Hne; cbn [cache_set cache_get].
  - assert (key_eqb k (s, d) = false).
    { unfold key_eqb. cbn. destruct (N.eqb_spec (snd k) d); [contradiction|]. apply andb_false_r. }
    rewrite H. reflexivity.
  - destruct (key_eqb k0 k) eqn:E; cbn [cache_get].
    + assert (key_eqb k (s, d) = false).
      { unfold key_eqb. cbn. destruct (N.eqb_spec (snd k) d); [contradiction|]. apply andb_false_r. }
      rewrite H.
      assert (key_eqb k0 (s, d) = false).
      { unfold key_eqb in *. apply andb_prop in E. destruct E as [_ E]. apply N.eqb_eq in E. cbn.
        destruct (N.eqb_spec (snd k0) d); [congruence|]. apply andb_false_r. }
      rewrite H0. reflexivity.
    + destruct (key_eqb k0 (s, d)); [reflexivity|]. apply IH. assumption.
Qed.

Lemma find_path_from_ext : forall l k c c' d, (forall s, cache_get c' s d = cache_get c s d) ->
  find_path_from l k c' d = find_path_from l k c d.
Proof.
  induction l as [|a r IH]; intros k c c' d H; cbn [find_path_from]; [reflexivity|].
  rewrite H. destruct (cache_get c (a_net a) d); [reflexivity|]. apply IH. assumption.
Qed.

(* the node after the SADR of p has been learned on adapter ai *)
Definition learned (n : node) (ai : adapter) (src : mac) (p : npdu) : node :=
  match n_sadr p with
  | Some (snet, _) => set_cache n (cache_update (rcache n) (a_net ai) src [snet])
  | None => n
  end.

Lemma learned_adapters : forall n ai src p, adapters (learned n ai src p) = adapters n.
Proof. intros. unfold learned. destruct (n_sadr p) as [[? ?]|]; reflexivity. Qed.

Lemma learned_find_path : forall n ai src p d,
  (forall snet sm, n_sadr p = Some (snet, sm) -> snet <> d) ->
  find_path (learned n ai src p) d = find_path n d.
Proof.
  intros n ai src p d H. unfold find_path. rewrite learned_adapters. unfold learned.
  destruct (n_sadr p) as [[snet sm]|]; [|reflexivity]. cbn [rcache set_cache].
  apply find_path_from_ext. intro s. unfold cache_update. cbn [fold_left].
  apply cache_get_set_other. cbn. apply (H snet sm). reflexivity.
Qed.

(* ---- an intermediate router: exactly one copy, to the cached next hop, hop - 1, SADR = originator *)
Lemma router_forwards_unicast : forall n i ai inet src dst p d dm j m',
  nth_adapter n i = Some ai -> modelled_config n = true -> is_router n = true ->
  a_net ai = Some inet ->
  n_msg p = None -> n_dadr p = Some (DStation d dm) -> n_hop p <> 0 ->
  (forall snet sm, n_sadr p = Some (snet, sm) -> find_net n (Some snet) = None /\ snet <> d) ->
  find_net n (Some d) = None ->
  find_path n d = Some (j, m') ->
  process_npdu n i src dst p =
    (learned n ai src p,
     [Fwd j (LStation m') (mkNpdu (n_dadr p) (Some (fwd_sadr inet src p)) (n_hop p - 1) None (n_data p))]).
Proof.
  intros n i ai inet src dst p d dm j m' Ha Hm Hr Hi Hmsg Hd Hh Hs Hfn Hfp.
  assert (Hain : In ai (adapters n)) by (eapply nth_error_In; exact Ha).
  destruct (local_adapter_exists _ _ _ Ha) as [la Hla].
  assert (Hlain : In la (adapters n)) by (eapply nth_error_In; exact Hla).
  unfold process_npdu. rewrite Ha, Hm, Hla. cbn [negb].
  assert (Hspoof : match n_sadr p with
                   | Some (snet, _) => match find_net n (Some snet) with Some _ => true | None => false end
                   | None => false end = false).
  { destruct (n_sadr p) as [[snet sm]|] eqn:Es; [|reflexivity]. destruct (Hs snet sm eq_refl) as [H1 _]. rewrite H1. reflexivity. }
  rewrite Hspoof. fold (learned n ai src p).
  rewrite Hd, Hmsg. cbv iota beta.
  rewrite (not_connected n d ai Hfn Hain), (not_connected n d la Hfn Hlain). cbn [andb].
  unfold forward.
  assert (Er : is_router (learned n ai src p) = true) by (unfold is_router; rewrite learned_adapters; exact Hr).
  rewrite Er. cbn [negb].
  destruct (N.eqb_spec (n_hop p) 0); [contradiction|]. rewrite Hi.
  assert (Efn : find_net (learned n ai src p) (Some d) = None) by (unfold find_net; rewrite learned_adapters; exact Hfn).
  rewrite Efn.
  rewrite (learned_find_path n ai src p d), Hfp by (intros snet sm E; apply (Hs snet sm E)).
  rewrite Hmsg, Hd. reflexivity.
Qed.

(* the router's own application (if any) is not the addressee: the destination network is not the local adapter's,
   or it is and the address differs *)
Definition not_for_me (la : adapter) (d : N) (dm : mac) : bool :=
  if optN_eqb (Some d) (a_net la)
  then match a_mac la with Some lm => negb (mac_eqb dm lm) | None => false end
  else true.

(* ---- the last router: exactly one copy, on the destination network, link-addressed to the station, no DADR *)
Lemma last_router_delivers : forall n i ai inet src dst p d dm j la,
  nth_adapter n i = Some ai -> nth_adapter n (local_idx n) = Some la ->
  modelled_config n = true -> is_router n = true ->
  a_net ai = Some inet ->
  n_msg p = None -> n_dadr p = Some (DStation d dm) -> n_hop p <> 0 ->
  (forall snet sm, n_sadr p = Some (snet, sm) -> find_net n (Some snet) = None) ->
  find_net n (Some d) = Some j -> j <> i ->
  optN_eqb (Some d) (a_net ai) = false -> not_for_me la d dm = true ->
  process_npdu n i src dst p =
    (learned n ai src p,
     [Fwd j (LStation dm) (mkNpdu None (Some (fwd_sadr inet src p)) (n_hop p - 1) None (n_data p))]).
Proof.
  intros n i ai inet src dst p d dm j la Ha Hla Hm Hr Hi Hmsg Hd Hh Hs Hfn Hji Hnai Hnla.
  unfold process_npdu. rewrite Ha, Hm, Hla. cbn [negb].
  assert (Hspoof : match n_sadr p with
                   | Some (snet, _) => match find_net n (Some snet) with Some _ => true | None => false end
                   | None => false end = false).
  { destruct (n_sadr p) as [[snet sm]|] eqn:Es; [|reflexivity]. rewrite (Hs snet sm eq_refl). reflexivity. }
  rewrite Hspoof. fold (learned n ai src p).
  rewrite Hd, Hmsg. cbv iota beta. rewrite Hnai.
  assert (Er : is_router (learned n ai src p) = true) by (unfold is_router; rewrite learned_adapters; exact Hr).
  assert (Efn : find_net (learned n ai src p) (Some d) = Some j) by (unfold find_net; rewrite learned_adapters; exact Hfn).
  assert (Hfw : forward (learned n ai src p) i ai src p (DStation d dm) =
                [Fwd j (LStation dm) (mkNpdu None (Some (fwd_sadr inet src p)) (n_hop p - 1) None (n_data p))]).
  { unfold forward. rewrite Er. cbn [negb]. destruct (N.eqb_spec (n_hop p) 0); [contradiction|]. rewrite Hi, Efn.
    destruct (Nat.eqb_spec j i); [contradiction|]. rewrite Hmsg. reflexivity. }
  unfold not_for_me in Hnla. destruct (optN_eqb (Some d) (a_net la)).
  - destruct (a_mac la) as [lm|]; [|discriminate]. destruct (mac_eqb dm lm); [discriminate|].
    cbn [negb andb]. rewrite Hfw. reflexivity.
  - cbn [andb]. rewrite Hfw. reflexivity.
Qed.

(* ---- the addressed station: hands the payload up once, showing the originator *)
Lemma station_hands_up : forall n a src dst p sn sm,
  adapters n = [a] -> has_app n = true ->
  n_msg p = None -> n_dadr p = None -> apdu_ok (n_data p) = true ->
  n_sadr p = Some (sn, sm) -> optN_eqb (a_net a) (Some sn) = false ->
  process_npdu n 0 src dst p = (learned n a src p, [Up (ARS sn sm) (ldest_to_addr dst) (n_data p)]).
Proof.
  intros n a src dst p sn sm Had Happ Hmsg Hd Hok Hs Hne.
  unfold process_npdu, nth_adapter, modelled_config, local_idx, find_net, learned. rewrite Had, Hs, Hd, Hmsg.
  cbn [nth_error negb find_net_from last_with_addr]. rewrite Hne.
  assert (Hl : match match a_mac a with Some _ => Some 0%nat | None => None end with Some i => i | None => 0%nat end = 0%nat)
    by (destruct (a_mac a); reflexivity).
  rewrite Hl. cbn [nth_error Nat.eqb orb has_app set_cache andb]. rewrite Happ, Hok. cbn [negb andb].
  unfold is_router. cbn [adapters set_cache]. rewrite Had. cbn [length Nat.eqb negb andb]. reflexivity.
Qed.

(* ---- the originating station with a cached path: one frame, to the recorded router, full hop count *)
Lemma station_sends_unicast : forall n a d dm m data,
  adapters n = [a] -> optN_eqb (Some d) (a_net a) = false ->
  pending_get (pending n) d = None -> cache_get (rcache n) (a_net a) d = Some m ->
  indication n (ARS d dm) data = (n, [Tx 0 (LStation m) (mkNpdu (Some (DStation d dm)) None 255 None data)]).
Proof.
  intros n a d dm m data Had Hne Hp Hc.
  unfold indication, local_idx, nth_adapter, modelled_config, find_path. rewrite Had. cbn [last_with_addr].
  assert (Hl : match match a_mac a with Some _ => Some 0%nat | None => None end with Some i => i | None => 0%nat end = 0%nat)
    by (destruct (a_mac a); reflexivity).
  rewrite Hl. cbn [nth_error negb]. rewrite Hne, Hp. cbn [find_path_from]. rewrite Hc. reflexivity.
Qed.
