(* SsmC11a.v — invoke-id allocation succeeds whenever one of the 255 ids it probes is free, wherever the live ids lie
   (runs of live ids across the wrap 255 -> 0 included), and what it returns is never live. *)
From Coq Require Import ZifyBool ZifyN ZifyNat.
From Bac Require Import Base PyRt Ssm SsmFacts.
Open Scope Z_scope.
Ltac Zify.zify_post_hook ::= Z.to_euclidean_division_equations.

(* j = how many ids have been probed so far: next = initial + j (mod 256); a free id k probes ahead is reached *)
Lemma alloc_id_progress : forall (k : nat) (fuel : nat) initial next peer live,
  (k < fuel)%nat -> 0 <= initial < 256 -> 0 <= next < 256 ->
  (next - initial) mod 256 + Z.of_nat k < 255 ->
  existsb (tr_matches ((next + Z.of_nat k) mod 256) peer) live = false ->
  exists id nx, alloc_id fuel initial next peer live = (Ok id, nx).
Proof.
  induction k as [|k IH]; intros fuel initial next peer live Hf Hi Hn Hj Hfree; destruct fuel as [|fuel]; try lia; cbn [alloc_id].
  - replace (initial =? (next + 1) mod 256) with false by lia.
    replace ((next + Z.of_nat 0) mod 256) with next in Hfree by lia. rewrite Hfree. eauto.
  - replace (initial =? (next + 1) mod 256) with false by lia.
    destruct (existsb (tr_matches next peer) live); [|eauto].
    apply IH; try lia.
    replace (((next + 1) mod 256 + Z.of_nat k) mod 256) with ((next + Z.of_nat (S k)) mod 256) by lia. exact Hfree.
Qed.

(* the allocator hands out an id as soon as any of next, next+1, ..., next+254 (mod 256) is free for that peer *)
Lemma get_next_invoke_id_succeeds : forall next peer live k, 0 <= next < 256 -> 0 <= k < 255 ->
  existsb (tr_matches ((next + k) mod 256) peer) live = false ->
  exists id nx, get_next_invoke_id next peer live = (Ok id, nx) /\
                (forall t, In t live -> ~ (s_invoke t = id /\ s_peer t = peer)).
Proof.
  intros next peer live k Hn Hk Hfree. unfold get_next_invoke_id.
  destruct (alloc_id_progress (Z.to_nat k) 257 next next peer live) as (id & nx & H); try lia.
  - replace (Z.of_nat (Z.to_nat k)) with k by lia. exact Hfree.
  - exists id, nx. split; [exact H|]. eapply get_next_invoke_id_fresh. unfold get_next_invoke_id. exact H.
Qed.

(* the run across the wrap of the seeded defect: ids 255 and 0 live, cursor at 255 -> the id handed out is 1 *)
Lemma wrap_run_example :
  let mk i := set_invoke_f i (mkSsm 5 (-1) IDLE None 0 0 0 0 false 0 0 None 3 3000 1500 3 (Some 64) 50 false None None 2 3000) in
  get_next_invoke_id 255 5 [mk 255; mk 0] = (Ok 1, 2) /\ get_next_invoke_id 254 5 [mk 254; mk 255; mk 0] = (Ok 1, 2).
Proof. vm_compute. split; reflexivity. Qed.
