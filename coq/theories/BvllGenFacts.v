(* BvllGenFacts.v — the definitions translated from py34/bacpypes/bvll.py (BacGen.BvllFns,
   regenerated on every run) equal the hand model Bac.Bvll, FOR ALL INPUTS.  The scripts do not
   mention generated variable names: they unfold the generated definitions, destruct the objects /
   option fields / octet-list shapes and compute. *)
From Coq Require Import ZifyBool ZifyN ZifyNat.
From Bac Require Import Base BytesFacts Bvll BvllFacts BvllRound BvllTotal BvllStable BvllRt BvllGen.
Open Scope N_scope.
Ltac Zify.zify_post_hook ::= Z.to_euclidean_division_equations.

(* destruct an object into nine variables whose names do not shadow the projections *)
Ltac dobj o :=
  let xt := fresh "xt" in let xf := fresh "xf" in let xl := fresh "xl" in let xd := fresh "xd" in
  let xc := fresh "xc" in let xb := fresh "xb" in let xa := fresh "xa" in let xv := fresh "xv" in
  let xq := fresh "xq" in destruct o as [xt xf xl xd xc xb xa xv xq].

(* arithmetic on lengths written in another order in the source (len(x) + 4 for 4 + len(x), ...) is the same number *)
Ltac norm_len :=
  try rewrite (N.add_comm (lenN _) _); try rewrite (N.mul_comm (lenN _) _); try rewrite (N.add_comm (_ * _) _).

(* ---- class-level constants ---------------------------------------------------------------- *)
Lemma message_type_is_model k : class_messageType k = fn_of_kind k.
Proof. destruct k; reflexivity. Qed.

(* ---- BVLCI.update ------------------------------------------------------------------------- *)
Lemma BVLCI_update_is_model dst src : BVLCI_update dst src = Ok (hdr_copy dst src, src).
Proof. reflexivity. Qed.

(* ---- BVLCI.encode + BVLPDU.encode: header, length check, body ------------------------------ *)
Definition enc_header_spec (self pdu : pyobj) : res (pyobj * pyobj) :=
  do t <- put (bvlciType self);
  do f <- put (bvlciFunction self);
  if negb (bvlciLength self =? lenN (pduData self) + 4) then Err EncodingError
  else Ok (self, py_append pdu (t ++ f ++ put_short (bvlciLength self))).

Lemma BVLCI_encode_is_model self pdu : BVLCI_encode self pdu = enc_header_spec self pdu.
Proof.
  dobj self; dobj pdu. unfold BVLCI_encode, enc_header_spec, py_put_N, py_put_short_N, py_append.
  cbn [bind bvlciType bvlciFunction bvlciLength pduData set_pduData].
  destruct (put xt) as [t|]; [|reflexivity].
  destruct (put xf) as [f|]; [|reflexivity].
  cbn [bind bvlciType bvlciFunction bvlciLength pduData set_pduData].
  norm_len. destruct (negb _); [reflexivity|].
  cbn [bind bvlciType bvlciFunction bvlciLength pduData set_pduData].
  now rewrite <- !app_assoc.
Qed.

Lemma BVLPDU_encode_is_model self pdu :
  BVLPDU_encode self pdu =
  do t <- put (bvlciType self);
  do f <- put (bvlciFunction self);
  if negb (bvlciLength self =? lenN (pduData self) + 4) then Err EncodingError
  else Ok (self, py_append pdu (t ++ f ++ put_short (bvlciLength self) ++ pduData self)).
Proof.
  unfold BVLPDU_encode. rewrite BVLCI_encode_is_model. unfold enc_header_spec.
  dobj self; dobj pdu. unfold py_put_data_bytes, py_append.
  cbn [bind bvlciType bvlciFunction bvlciLength pduData set_pduData].
  destruct (put xt) as [t|]; [|reflexivity].
  destruct (put xf) as [f|]; [|reflexivity].
  cbn [bind].
  destruct (negb _); [reflexivity|].
  cbn [bind bvlciType bvlciFunction bvlciLength pduData set_pduData].
  now rewrite <- !app_assoc.
Qed.

(* ---- BVLCI.decode + BVLPDU.decode --------------------------------------------------------- *)
Lemma get_data_all l : get_data (lenN l) l = Ok (l, []).
Proof. rewrite <- (app_nil_r l) at 2. apply get_data_app. Qed.

Lemma BVLPDU_decode_is_model self pdu :
  BVLPDU_decode self pdu =
  do (fl, body) <- dec_bvlci (pduData pdu);
  Ok (set_pduData body (set_bvlciLength (snd fl) (set_bvlciFunction (fst fl) (set_bvlciType 129 self))),
      set_pduData [] pdu).
Proof.
  dobj self; dobj pdu. unfold BVLPDU_decode, BVLCI_decode, dec_bvlci, py_get, py_get_short, py_get_data.
  cbn [pduData set_pduData].
  destruct xd0 as [|t r]; [reflexivity|].
  cbn [get bind set_pduData set_bvlciType bvlciType pduData bvlciFunction bvlciLength bvlciResultCode bvlciBDT bvlciAddress bvlciTimeToLive bvlciFDT].
  destruct (t =? 129) eqn:T; cbn [negb bind]; [|reflexivity].
  apply N.eqb_eq in T; subst t.
  destruct r as [|f r]; [reflexivity|].
  cbn [get bind set_pduData set_bvlciFunction bvlciType pduData bvlciFunction bvlciLength bvlciResultCode bvlciBDT bvlciAddress bvlciTimeToLive bvlciFDT].
  destruct r as [|hi [|lo r]]; [reflexivity|reflexivity|].
  cbn [get_short bind set_pduData set_bvlciLength bvlciType pduData bvlciFunction bvlciLength bvlciResultCode bvlciBDT bvlciAddress bvlciTimeToLive bvlciFDT].
  norm_len. destruct (negb _); [reflexivity|].
  cbn [bind pduData]. rewrite get_data_all.
  reflexivity.
Qed.

(* ---- table loops: any loop body that does per entry what enc_bdte / enc_fdte say ------------ *)
Lemma py_for_enc {A} (enc1 : A -> res (list N)) (encs : list A -> res (list N))
      (body : A -> pyobj * pyobj -> res (pyobj * pyobj)) :
  encs [] = Ok [] ->
  (forall e r, encs (e :: r) = do x <- enc1 e; do y <- encs r; Ok (x ++ y)) ->
  (forall e s b, body e (s, b) = do x <- enc1 e; Ok (s, py_append b x)) ->
  forall t s b, py_for t body (s, b) = do x <- encs t; Ok (s, py_append b x).
Proof.
  intros E0 E1 B. induction t as [|e r IH]; intros s b.
  - rewrite E0. cbn [py_for bind]. unfold py_append. rewrite app_nil_r. now dobj b.
  - cbn [py_for]. rewrite B, E1. destruct (enc1 e) as [x|]; [|reflexivity]. cbn [bind].
    rewrite IH. destruct (encs r) as [y|]; [|reflexivity]. cbn [bind].
    f_equal. f_equal. dobj b. unfold py_append. cbn [pduData set_pduData]. now rewrite app_assoc.
Qed.

Lemma enc_bdte_body e (s b : pyobj) :
  (do v1 <- py_addrAddr_bdte e; do b1 <- py_put_data_obytes v1 b;
   do v2 <- py_addrMask_bdte e; do b2 <- py_put_long_Z v2 b1; Ok (s, b2))
  = do x <- enc_bdte e; Ok (s, py_append b x).
Proof.
  destruct e as [a m]; dobj b. unfold py_addrAddr_bdte, py_addrMask_bdte, enc_bdte, py_put_data_obytes, py_put_long_Z, py_append.
  destruct a as [| |l]; cbn [b_addr b_mask py_addrAddr_addr addr_bytes bind]; try reflexivity.
  destruct m as [z|]; cbn [bind pduData set_pduData]; [|reflexivity].
  now rewrite <- app_assoc.
Qed.

Lemma enc_fdte_body e (s b : pyobj) :
  (do v1 <- py_addrAddr_addr (f_addr e); do b1 <- py_put_data_obytes v1 b;
   do b2 <- py_put_short_OZ (f_ttl e) b1; do b3 <- py_put_short_OZ (f_rem e) b2; Ok (s, b3))
  = do x <- enc_fdte e; Ok (s, py_append b x).
Proof.
  destruct e as [a t r]; dobj b. unfold enc_fdte, py_put_data_obytes, py_put_short_OZ, py_append.
  destruct a as [| |l]; cbn [f_addr f_ttl f_rem py_addrAddr_addr addr_bytes bind]; try reflexivity.
  destruct (put_short_o t) as [x|]; cbn [bind pduData set_pduData]; [|reflexivity].
  destruct (put_short_o r) as [y|]; cbn [bind pduData set_pduData]; [|reflexivity].
  now rewrite <- !app_assoc.
Qed.

(* ---- the twelve encode() methods ---------------------------------------------------------- *)
(* for ANY object `self` of class k and ANY target `b`: the class encode leaves the (possibly
   recomputed) length in self, copies the header into b and appends enc_body of the parameters *)
Definition enc_self (k : bvl_class) (self : pyobj) : pyobj :=
  set_bvlciLength (enc_len (bvlciLength self) (msg_of_obj k self)) self.

Lemma class_encode_is_model k self b :
  class_encode k self b =
  do body <- enc_body (msg_of_obj k self);
  Ok (enc_self k self, py_append (hdr_copy b (enc_self k self)) body).
Proof.
  destruct k; unfold class_encode, enc_self, msg_of_obj, enc_body, enc_len.
  - (* Result *)
    dobj self; dobj b. unfold Result_encode. rewrite BVLCI_update_is_model. norm_len. unfold py_put_short_OZ.
    cbn [bind bvlciResultCode]. destruct (put_short_o xc); reflexivity.
  - (* WriteBDT *)
    dobj self; dobj b. unfold WriteBroadcastDistributionTable_encode. rewrite BVLCI_update_is_model. norm_len.
    cbn [bind bvlciBDT bvlciLength set_bvlciLength]. norm_len.
    apply (py_for_enc enc_bdte enc_bdt); [reflexivity|reflexivity|].
    intros e s b'. cbv beta iota. apply enc_bdte_body.
  - (* ReadBDT *)
    dobj self; dobj b. unfold ReadBroadcastDistributionTable_encode. rewrite BVLCI_update_is_model. norm_len.
    cbn. unfold py_append. cbn. now rewrite app_nil_r.
  - (* ReadBDTAck *)
    dobj self; dobj b. unfold ReadBroadcastDistributionTableAck_encode. rewrite BVLCI_update_is_model. norm_len.
    cbn [bind bvlciBDT bvlciLength set_bvlciLength]. norm_len.
    apply (py_for_enc enc_bdte enc_bdt); [reflexivity|reflexivity|].
    intros e s b'. cbv beta iota. apply enc_bdte_body.
  - (* Forwarded *)
    dobj self; dobj b. unfold ForwardedNPDU_encode. rewrite BVLCI_update_is_model. norm_len.
    unfold py_put_data_obytes, py_put_data_bytes, py_append.
    cbn [bind bvlciAddress pduData set_bvlciLength bvlciLength].
    destruct xa; cbn [py_addrAddr_addr addr_bytes bind]; try reflexivity.
    cbn. now rewrite <- app_assoc.
  - (* RegisterFD *)
    dobj self; dobj b. unfold RegisterForeignDevice_encode. rewrite BVLCI_update_is_model. norm_len. unfold py_put_short_OZ.
    cbn [bind bvlciTimeToLive]. destruct (put_short_o xv); reflexivity.
  - (* ReadFDT *)
    dobj self; dobj b. unfold ReadForeignDeviceTable_encode. rewrite BVLCI_update_is_model. norm_len.
    cbn. unfold py_append. cbn. now rewrite app_nil_r.
  - (* ReadFDTAck *)
    dobj self; dobj b. unfold ReadForeignDeviceTableAck_encode. rewrite BVLCI_update_is_model. norm_len.
    cbn [bind bvlciFDT bvlciLength set_bvlciLength].
    apply (py_for_enc enc_fdte enc_fdt); [reflexivity|reflexivity|].
    intros e s b'. cbv beta iota. apply enc_fdte_body.
  - (* DeleteFDT *)
    dobj self; dobj b. unfold DeleteForeignDeviceTableEntry_encode. rewrite BVLCI_update_is_model. norm_len.
    unfold py_put_data_obytes, py_append.
    cbn [bind bvlciAddress pduData set_bvlciLength bvlciLength].
    destruct xa; cbn [py_addrAddr_addr addr_bytes bind]; reflexivity.
  - dobj self; dobj b. unfold DistributeBroadcastToNetwork_encode. rewrite BVLCI_update_is_model. norm_len. reflexivity.
  - dobj self; dobj b. unfold OriginalUnicastNPDU_encode. rewrite BVLCI_update_is_model. norm_len. reflexivity.
  - dobj self; dobj b. unfold OriginalBroadcastNPDU_encode. rewrite BVLCI_update_is_model. norm_len. reflexivity.
Qed.

(* ---- the decoders' table loops: any `while b.pduData:` loop whose body does per entry what the
   model's step does, run with as much fuel as there are octets ------------------------------- *)
Lemma set_pduData_nil_id b : pduData b = [] -> set_pduData [] b = b.
Proof. dobj b. cbn. now intros ->. Qed.

Lemma while_bdt (cond : pyobj * pyobj -> bool) (body : pyobj * pyobj -> res (pyobj * pyobj)) :
  (forall s b, cond (s, b) = py_nonempty (pduData b)) ->
  (forall s b, body (s, b) =
     do (a, r) <- dec_addr (pduData b); do (m, r2) <- get_long r;
     Ok (set_bvlciBDT (bvlciBDT s ++ [mkBdte a (Some (Z.of_N m))]) s, set_pduData r2 b)) ->
  forall fuel s b, py_while fuel cond body (s, b) =
     do t <- dec_bdt_fuel fuel (pduData b); Ok (set_bvlciBDT (bvlciBDT s ++ t) s, set_pduData [] b).
Proof.
  intros C B. induction fuel as [|f IH]; intros s b.
  - cbn [py_while]. rewrite C. destruct (pduData b) eqn:E; cbn [py_nonempty dec_bdt_fuel bind].
    + rewrite set_pduData_nil_id by exact E. dobj s. cbn. now rewrite app_nil_r.
    + reflexivity.
  - cbn [py_while]. rewrite C. destruct (pduData b) as [|x l] eqn:E; cbn [py_nonempty dec_bdt_fuel bind].
    + rewrite set_pduData_nil_id by exact E. dobj s. cbn. now rewrite app_nil_r.
    + rewrite B, E. destruct (dec_addr (x :: l)) as [[a r]|]; cbn [bind]; [|reflexivity].
      destruct (get_long r) as [[m r2]|]; cbn [bind]; [|reflexivity].
      rewrite IH. dobj s; dobj b. cbn [pduData set_pduData bvlciBDT set_bvlciBDT].
      destruct (dec_bdt_fuel f r2) as [t|]; cbn [bind]; [|reflexivity].
      cbn. now rewrite <- app_assoc.
Qed.

Lemma while_fdt (cond : pyobj * pyobj -> bool) (body : pyobj * pyobj -> res (pyobj * pyobj)) :
  (forall s b, cond (s, b) = py_nonempty (pduData b)) ->
  (forall s b, body (s, b) =
     do (a, r) <- dec_addr (pduData b); do (ttl, r2) <- get_short r; do (rem, r3) <- get_short r2;
     Ok (set_bvlciFDT (bvlciFDT s ++ [mkFdte a (Some (Z.of_N ttl)) (Some (Z.of_N rem))]) s, set_pduData r3 b)) ->
  forall fuel s b, py_while fuel cond body (s, b) =
     do t <- dec_fdt_fuel fuel (pduData b); Ok (set_bvlciFDT (bvlciFDT s ++ t) s, set_pduData [] b).
Proof.
  intros C B. induction fuel as [|f IH]; intros s b.
  - cbn [py_while]. rewrite C. destruct (pduData b) eqn:E; cbn [py_nonempty dec_fdt_fuel bind].
    + rewrite set_pduData_nil_id by exact E. dobj s. cbn. now rewrite app_nil_r.
    + reflexivity.
  - cbn [py_while]. rewrite C. destruct (pduData b) as [|x l] eqn:E; cbn [py_nonempty dec_fdt_fuel bind].
    + rewrite set_pduData_nil_id by exact E. dobj s. cbn. now rewrite app_nil_r.
    + rewrite B, E. destruct (dec_addr (x :: l)) as [[a r]|]; cbn [bind]; [|reflexivity].
      destruct (get_short r) as [[ttl r2]|]; cbn [bind]; [|reflexivity].
      destruct (get_short r2) as [[rem r3]|]; cbn [bind]; [|reflexivity].
      rewrite IH. dobj s; dobj b. cbn [pduData set_pduData bvlciFDT set_bvlciFDT].
      destruct (dec_fdt_fuel f r3) as [t|]; cbn [bind]; [|reflexivity].
      cbn. now rewrite <- app_assoc.
Qed.

(* ---- the twelve decode() methods ---------------------------------------------------------- *)
(* for ANY object `self` (whatever its attributes held before) and ANY source `b`: the parameters
   left in self are dec_body of b's octets, the header is b's *)
Definition same_header (r b : pyobj) : Prop :=
  bvlciType r = bvlciType b /\ bvlciFunction r = bvlciFunction b /\ bvlciLength r = bvlciLength b.

Lemma class_decode_spec k self b :
  match class_decode k self b with
  | Ok (r, _) => dec_body k (pduData b) = Ok (msg_of_obj k r) /\ same_header r b
  | Err e => dec_body k (pduData b) = Err e
  end.
Proof.
  destruct k; unfold class_decode, msg_of_obj, dec_body, same_header.
  - (* Result *)
    dobj self; dobj b. unfold Result_decode. rewrite BVLCI_update_is_model. unfold py_get_short.
    cbn [bind pduData]. destruct (get_short xd0) as [[c r]|]; cbn; auto.
  - (* WriteBDT *)
    dobj self; dobj b. unfold WriteBroadcastDistributionTable_decode. rewrite BVLCI_update_is_model.
    cbn [bind pduData]. unfold dec_bdt.
    erewrite while_bdt; [ | intros s b; dobj b; reflexivity | ].
    + cbn [pduData]. destruct (dec_bdt_fuel (length xd0) xd0); cbn; auto.
    + intros s b. cbv beta iota. unfold py_get_data, py_get_long, dec_addr. dobj b. cbn [pduData bind].
      destruct (get_data 6 xd1) as [[d r]|]; cbn [bind pduData set_pduData]; [|reflexivity].
      destruct (get_long r) as [[m r2]|]; reflexivity.
  - dobj self; dobj b. unfold ReadBroadcastDistributionTable_decode. rewrite BVLCI_update_is_model. cbn; auto.
  - (* ReadBDTAck *)
    dobj self; dobj b. unfold ReadBroadcastDistributionTableAck_decode. rewrite BVLCI_update_is_model.
    cbn [bind pduData]. unfold dec_bdt.
    erewrite while_bdt; [ | intros s b; dobj b; reflexivity | ].
    + cbn [pduData]. destruct (dec_bdt_fuel (length xd0) xd0); cbn; auto.
    + intros s b. cbv beta iota. unfold py_get_data, py_get_long, dec_addr. dobj b. cbn [pduData bind].
      destruct (get_data 6 xd1) as [[d r]|]; cbn [bind pduData set_pduData]; [|reflexivity].
      destruct (get_long r) as [[m r2]|]; reflexivity.
  - (* Forwarded *)
    dobj self; dobj b. unfold ForwardedNPDU_decode. rewrite BVLCI_update_is_model.
    unfold py_get_data, dec_addr. cbn [bind pduData].
    destruct (get_data 6 xd0) as [[d r]|]; cbn [bind pduData set_pduData]; [|reflexivity].
    rewrite get_data_all. cbn; auto.
  - (* RegisterFD *)
    dobj self; dobj b. unfold RegisterForeignDevice_decode. rewrite BVLCI_update_is_model. unfold py_get_short.
    cbn [bind pduData]. destruct (get_short xd0) as [[c r]|]; cbn; auto.
  - dobj self; dobj b. unfold ReadForeignDeviceTable_decode. rewrite BVLCI_update_is_model. cbn; auto.
  - (* ReadFDTAck *)
    dobj self; dobj b. unfold ReadForeignDeviceTableAck_decode. rewrite BVLCI_update_is_model.
    cbn [bind pduData]. unfold dec_fdt.
    erewrite while_fdt; [ | intros s b; dobj b; reflexivity | ].
    + cbn [pduData]. destruct (dec_fdt_fuel (length xd0) xd0); cbn; auto.
    + intros s b. cbv beta iota. unfold py_get_data, py_get_short, dec_addr. dobj b. cbn [pduData bind].
      destruct (get_data 6 xd1) as [[d r]|]; cbn [bind pduData set_pduData]; [|reflexivity].
      destruct (get_short r) as [[t r2]|]; cbn [bind pduData set_pduData]; [|reflexivity].
      destruct (get_short r2) as [[q r3]|]; reflexivity.
  - (* DeleteFDT *)
    dobj self; dobj b. unfold DeleteForeignDeviceTableEntry_decode. rewrite BVLCI_update_is_model.
    unfold py_get_data, dec_addr. cbn [bind pduData].
    destruct (get_data 6 xd0) as [[d r]|]; cbn; auto.
  - dobj self; dobj b. unfold DistributeBroadcastToNetwork_decode. rewrite BVLCI_update_is_model.
    unfold py_get_data. cbn [bind pduData]. rewrite get_data_all. cbn; auto.
  - dobj self; dobj b. unfold OriginalUnicastNPDU_decode. rewrite BVLCI_update_is_model.
    unfold py_get_data. cbn [bind pduData]. rewrite get_data_all. cbn; auto.
  - dobj self; dobj b. unfold OriginalBroadcastNPDU_decode. rewrite BVLCI_update_is_model.
    unfold py_get_data. cbn [bind pduData]. rewrite get_data_all. cbn; auto.
Qed.

Lemma class_decode_is_model k self b :
  (do (r, _) <- class_decode k self b; Ok (msg_of_obj k r)) = dec_body k (pduData b).
Proof.
  pose proof (class_decode_spec k self b) as H. destruct (class_decode k self b) as [[r b']|e]; cbn [bind].
  - now destruct H as [-> _].
  - now rewrite H.
Qed.

(* ---- whole frames: AnnexJCodec.indication / confirmation over the translated methods -------- *)
Lemma msg_of_obj_of_msg stored m : msg_of_obj (kind_of m) (obj_of_msg stored m) = m.
Proof. destruct m; reflexivity. Qed.

(* ANY object of ANY class sent through the codec *)
Lemma gen_indication_is_model k o :
  gen_indication k o =
  do body <- enc_body (msg_of_obj k o);
  do t <- put (bvlciType o);
  do f <- put (bvlciFunction o);
  if negb (enc_len (bvlciLength o) (msg_of_obj k o) =? lenN body + 4) then Err EncodingError
  else Ok (t ++ f ++ put_short (enc_len (bvlciLength o) (msg_of_obj k o)) ++ body).
Proof.
  unfold gen_indication. rewrite class_encode_is_model.
  destruct (enc_body (msg_of_obj k o)) as [body|]; cbn [bind]; [|reflexivity].
  rewrite BVLPDU_encode_is_model. unfold enc_self. dobj o.
  cbn [hdr_copy empty_obj py_append bvlciType bvlciFunction bvlciLength pduData
       set_bvlciType set_bvlciFunction set_bvlciLength set_pduData bvlciResultCode bvlciBDT
       bvlciAddress bvlciTimeToLive bvlciFDT app].
  destruct (put xt) as [t|]; cbn [bind]; [|reflexivity].
  destruct (put xf) as [f|]; cbn [bind]; [|reflexivity].
  destruct (negb _); reflexivity.
Qed.

Lemma gen_enc_frame_with_is_model stored m : gen_enc_frame_with stored m = enc_frame_with stored m.
Proof.
  unfold gen_enc_frame_with, enc_frame_with. rewrite gen_indication_is_model, msg_of_obj_of_msg.
  destruct m; reflexivity.
Qed.

Lemma gen_enc_frame_is_model m : gen_enc_frame m = enc_frame m.
Proof. apply gen_enc_frame_with_is_model. Qed.

(* whatever the freshly constructed object holds *)
Lemma gen_dec_frame_from_is_model fresh bs : gen_dec_frame_from fresh bs = dec_frame bs.
Proof.
  unfold gen_dec_frame_from, gen_confirmation, dec_frame, dec_msg. rewrite BVLPDU_decode_is_model.
  cbn [pduData set_pduData empty_obj].
  destruct (dec_bvlci bs) as [[[f l] body]|]; cbn [bind fst snd]; [|reflexivity].
  cbn [bvlciFunction set_pduData set_bvlciLength set_bvlciFunction set_bvlciType bvlciType bvlciLength pduData
       bvlciResultCode bvlciBDT bvlciAddress bvlciTimeToLive bvlciFDT].
  destruct (lookup_fn f bvl_pdu_types) as [k|]; [|reflexivity].
  rewrite <- class_decode_is_model with (self := fresh k)
    (b := {| bvlciType := 129; bvlciFunction := f; bvlciLength := l; pduData := body; bvlciResultCode := None;
             bvlciBDT := []; bvlciAddress := ANone; bvlciTimeToLive := None; bvlciFDT := [] |}).
  destruct (class_decode k (fresh k) _) as [[r b']|]; reflexivity.
Qed.

Lemma gen_dec_frame_is_model bs : gen_dec_frame bs = dec_frame bs.
Proof. apply gen_dec_frame_from_is_model. Qed.

(* the delivered object carries the header that was read from the datagram *)
Lemma gen_confirmation_header fresh bs k rpdu :
  gen_confirmation fresh bs = Ok (k, rpdu) ->
  exists body, dec_bvlci bs = Ok (bvlciFunction rpdu, bvlciLength rpdu, body) /\ bvlciType rpdu = 129 /\
               lookup_fn (bvlciFunction rpdu) bvl_pdu_types = Some k.
Proof.
  unfold gen_confirmation. rewrite BVLPDU_decode_is_model. cbn [pduData set_pduData empty_obj].
  destruct (dec_bvlci bs) as [[[f l] body]|]; cbn [bind fst snd]; [|discriminate].
  cbn [bvlciFunction set_pduData set_bvlciLength set_bvlciFunction set_bvlciType bvlciType bvlciLength pduData
       bvlciResultCode bvlciBDT bvlciAddress bvlciTimeToLive bvlciFDT].
  destruct (lookup_fn f bvl_pdu_types) as [k'|] eqn:L; [|discriminate].
  match goal with |- context[class_decode k' ?s ?b] => pose proof (class_decode_spec k' s b) as H; destruct (class_decode k' s b) as [[r b']|] end;
    cbn [bind]; [|discriminate].
  intros E; injection E as <- <-. destruct H as [_ (Ht & Hf & Hl)]. cbn in Ht, Hf, Hl.
  exists body. rewrite Ht, Hf, Hl. auto.
Qed.

(* ---- the property's main statements, directly on the translated functions ------------------- *)
Lemma gen_length_field stored m bs :
  gen_enc_frame_with stored m = Ok bs -> lenN bs < 65536 ->
  nth 0 bs 0 = 129 /\ nth 1 bs 0 = fn_of m /\ nth 2 bs 0 * 256 + nth 3 bs 0 = lenN bs.
Proof. rewrite gen_enc_frame_with_is_model. apply length_field. Qed.

Lemma gen_frame_roundtrip fresh m : wf_msg m = true -> frame_len m < 65536 ->
  exists bs, gen_enc_frame m = Ok bs /\ gen_dec_frame_from fresh bs = Ok m /\ lenN bs = frame_len m.
Proof.
  intros W L. destruct (frame_roundtrip m W L) as (bs & E & D & N). exists bs.
  now rewrite gen_enc_frame_is_model, gen_dec_frame_from_is_model.
Qed.

Lemma gen_stale_refused stored m : wf_msg m = true ->
  enc_len stored m <> frame_len m -> gen_enc_frame_with stored m = Err EncodingError.
Proof. rewrite gen_enc_frame_with_is_model. apply stale_refused. Qed.

Lemma gen_dec_frame_type fresh bs : hd_error bs <> Some 129 -> gen_dec_frame_from fresh bs = Err DecodingError.
Proof. rewrite gen_dec_frame_from_is_model. apply dec_frame_type. Qed.

Lemma gen_dec_frame_length_any fresh bs :
  nth 2 bs 0 * 256 + nth 3 bs 0 <> lenN bs -> gen_dec_frame_from fresh bs = Err DecodingError.
Proof. rewrite gen_dec_frame_from_is_model. apply dec_frame_length_any. Qed.

Lemma gen_dec_frame_accepts fresh bs m : gen_dec_frame_from fresh bs = Ok m ->
  exists hi lo body, bs = 129 :: fn_of m :: hi :: lo :: body /\ hi * 256 + lo = lenN bs.
Proof. rewrite gen_dec_frame_from_is_model. apply dec_frame_accepts. Qed.

Lemma gen_dec_frame_total fresh bs :
  (exists m, gen_dec_frame_from fresh bs = Ok m) \/ gen_dec_frame_from fresh bs = Err DecodingError.
Proof. rewrite gen_dec_frame_from_is_model. apply dec_frame_total. Qed.

Lemma gen_dec_frame_unknown fresh f hi lo body :
  12 <= f -> gen_dec_frame_from fresh (129 :: f :: hi :: lo :: body) = Err DecodingError.
Proof. rewrite gen_dec_frame_from_is_model. apply dec_frame_unknown. Qed.
