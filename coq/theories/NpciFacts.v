From Bac Require Import Base BytesFacts Npci.
