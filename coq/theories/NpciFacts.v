(* NpciFacts.v — lemmas about the header codec of Npci.v: layout, round trip, refusals. *)
From Bac Require Import Base BytesFacts Npci.
From Coq Require Import ZifyBool ZifyN ZifyNat.
Ltac Zify.zify_post_hook ::= Z.to_euclidean_division_equations.
Open Scope N_scope.

(* ---------- the control octet ---------- *)
Definition ctl (bn bd bs be : bool) (p : N) : N :=
  let c0 := N.lor (N.lor (if bn then 0x80 else 0) (if bd then 0x20 else 0)) (if bs then 0x08 else 0) in
  let c1 := if be then N.lor c0 0x04 else c0 in
  N.lor c1 (N.land p 0x03).

Lemma control_of_ctl h :
  control_of h = ctl (is_some (nmsg h)) (is_some (dadr h)) (is_some (sadr h)) (er h) (prio h).
Proof.
  unfold control_of, ctl. destruct (nmsg h), (dadr h), (sadr h); reflexivity.
Qed.

Lemma small4 p : p < 4 -> p = 0 \/ p = 1 \/ p = 2 \/ p = 3.
Proof. lia. Qed.

Lemma ctl_spec bn bd bs be p : p < 4 ->
  let c := ctl bn bd bs be p in
  c = 128 * b2n bn + 32 * b2n bd + 8 * b2n bs + 4 * b2n be + p
  /\ c < 256
  /\ negb (N.land c 0x80 =? 0) = bn
  /\ negb (N.land c 0x20 =? 0) = bd
  /\ negb (N.land c 0x08 =? 0) = bs
  /\ negb (N.land c 0x04 =? 0) = be
  /\ N.land c 0x03 = p
  /\ N.land c 0x50 = 0.
Proof.
  intros Hp. destruct (small4 p Hp) as [-> | [-> | [-> | ->]]];
    destruct bn, bd, bs, be; vm_compute; repeat split; reflexivity.
Qed.

(* whatever the priority, the octet written carries the priority modulo 4 and no reserved bit *)
Lemma ctl_any bn bd bs be p :
  ctl bn bd bs be p = ctl bn bd bs be (p mod 4).
Proof.
  unfold ctl. f_equal. change 3 with (N.ones 2). rewrite !N.land_ones.
  change (2 ^ 2) with 4. rewrite N.mod_mod by lia. reflexivity.
Qed.

(* ---------- small reader facts ---------- *)
Lemma put_ok n : n < 256 -> put n = Ok [n].
Proof. intros H. unfold put. destruct (n <? 256) eqn:E; [reflexivity | lia]. Qed.

Lemma put_short_small n : n < 65536 -> put_short n = [n / 256; n mod 256].
Proof. intros H. unfold put_short, be2. f_equal; [|f_equal]; lia. Qed.

Lemma get_short_two a b r : get_short (a :: b :: r) = Ok (a * 256 + b, r).
Proof. reflexivity. Qed.

Lemma get_short_net n r : n < 65536 -> get_short (n / 256 :: n mod 256 :: r) = Ok (n, r).
Proof. intros H. cbn [get_short]. f_equal. f_equal. lia. Qed.

Lemma lenN_cons {A} (x : A) l : lenN (x :: l) = 1 + lenN l.
Proof. unfold lenN. cbn [length]. lia. Qed.

(* ---------- pieces: address fields ---------- *)
Lemma enc_dadr_spec a : wf_dadr a = true -> enc_dadr a = Ok (spec_addr a).
Proof.
  destruct a as [net mac | net | ]; cbn [wf_dadr enc_dadr spec_addr]; intros H.
  - unfold wf_station in H. rewrite put_ok by lia. cbn [bind].
    rewrite put_short_small by lia. reflexivity.
  - rewrite put_short_small by lia. reflexivity.
  - reflexivity.
Qed.

Lemma enc_sadr_spec a : wf_sadr a = true -> enc_sadr a = Ok (spec_addr a).
Proof.
  destruct a as [net mac | net | ]; cbn [wf_sadr enc_sadr spec_addr]; intros H; try discriminate.
  unfold wf_station in H. rewrite put_ok by lia. cbn [bind].
  rewrite put_short_small by lia. reflexivity.
Qed.

Lemma lenN_nil_iff {A} (l : list A) : lenN l = 0 <-> l = [].
Proof. destruct l; unfold lenN; cbn [length]; split; intros H; try reflexivity; try discriminate; lia. Qed.

Lemma dec_dadr_spec a r : wf_dadr a = true -> dec_dadr (spec_addr a ++ r) = Ok (a, r).
Proof.
  destruct a as [net mac | net | ]; cbn [wf_dadr spec_addr]; intros H.
  - unfold wf_station in H. unfold dec_dadr.
    cbn [app]. rewrite get_short_net by lia. cbn [bind get].
    rewrite get_data_app. cbn [bind].
    destruct (net =? 65535) eqn:E1; [lia|].
    destruct (lenN mac =? 0) eqn:E2; [lia|]. reflexivity.
  - unfold dec_dadr. cbn [app]. rewrite get_short_net by lia. cbn [bind get].
    unfold get_data. destruct (lenN r <? 0) eqn:E0; [lia|]. cbn [N.to_nat firstn skipn bind].
    destruct (net =? 65535) eqn:E1; [lia|]. reflexivity.
  - unfold dec_dadr. cbn [app get_short bind get].
    unfold get_data. destruct (lenN r <? 0) eqn:E0; [lia|]. cbn [N.to_nat firstn skipn bind].
    reflexivity.
Qed.

Lemma dec_sadr_spec a r : wf_sadr a = true -> dec_sadr (spec_addr a ++ r) = Ok (a, r).
Proof.
  destruct a as [net mac | net | ]; cbn [wf_sadr spec_addr]; intros H; try discriminate.
  unfold wf_station in H. unfold dec_sadr.
  cbn [app]. rewrite get_short_net by lia. cbn [bind get].
  rewrite get_data_app. cbn [bind].
  destruct (net =? 65535) eqn:E1; [lia|].
  destruct (lenN mac =? 0) eqn:E2; [lia|]. reflexivity.
Qed.

(* a source that is a broadcast or has no octets, laid out as clause 6.2 lays out any address, is refused *)
Lemma dec_sadr_bad net mac r :
  net < 65536 -> lenN mac < 256 -> (net = 65535 \/ mac = []) ->
  dec_sadr (spec_addr (RStation net mac) ++ r) = Err DecodingError.
Proof.
  intros Hn Hl Hbad. unfold dec_sadr. cbn [spec_addr app].
  rewrite get_short_net by lia. cbn [bind get].
  rewrite get_data_app. cbn [bind].
  destruct (net =? 65535) eqn:E1; [reflexivity|].
  destruct Hbad as [->| ->]; [lia|]. reflexivity.
Qed.

(* ---------- layout ---------- *)
Lemma spec_control_ctl h : prio h < 4 -> control_of h = spec_control h /\ control_of h < 256.
Proof.
  intros Hp. rewrite control_of_ctl.
  destruct (ctl_spec (is_some (nmsg h)) (is_some (dadr h)) (is_some (sadr h)) (er h) (prio h) Hp)
    as (E & L & _). split; [exact E | exact L].
Qed.

Ltac split_wf H :=
  unfold wf_npci in H;
  repeat match type of H with (_ && _) = true => let H' := fresh "W" in apply andb_true_iff in H as [H H'] end.

Lemma enc_npci_spec h : wf_npci h = true -> enc_npci h = Ok (spec6_2 h).
Proof.
  intros H. split_wf H.
  destruct (spec_control_ctl h ltac:(lia)) as [Ec Lc].
  unfold enc_npci, spec6_2.
  rewrite (put_ok (ver h)) by lia. cbn [bind].
  rewrite put_ok by exact Lc. cbn [bind]. rewrite Ec.
  replace (ver h) with 1 by lia.
  destruct h as [v e p d s hp m vd]; cbn [Npci.ver Npci.er Npci.prio Npci.dadr Npci.sadr Npci.hop Npci.nmsg Npci.vendor] in *.
  assert (Hd : match d with Some a => enc_dadr a | None => Ok [] end = Ok (opt_list d spec_addr)).
  { destruct d as [a|]; cbn [wf_opt opt_list] in *; [apply enc_dadr_spec; assumption | reflexivity]. }
  assert (Hs : match s with Some a => enc_sadr a | None => Ok [] end = Ok (opt_list s spec_addr)).
  { destruct s as [a|]; cbn [wf_opt opt_list] in *; [apply enc_sadr_spec; assumption | reflexivity]. }
  rewrite Hd, Hs. cbn [bind].
  assert (Hh : match d with Some _ => put_opt hp | None => Ok [] end = Ok (opt_list hp (fun x => [x]))).
  { destruct d, hp; try discriminate; cbn [put_opt opt_list]; [apply put_ok; lia | reflexivity]. }
  rewrite Hh. cbn [bind].
  destruct m as [t|], vd as [vv|]; try discriminate; cbn [opt_list bind].
  - apply andb_true_iff in W as [Wt Wv].
    assert (t < 256) by (unfold is_vendor_type in Wt; lia).
    rewrite put_ok by assumption. cbn [bind]. rewrite Wt.
    rewrite put_short_small by lia. rewrite ?app_nil_r; reflexivity.
  - assert (Ht : t < 128) by lia.
    rewrite put_ok by lia. cbn [bind].
    assert (is_vendor_type t = false) as -> by (unfold is_vendor_type; lia).
    rewrite ?app_nil_r; reflexivity.
  - rewrite ?app_nil_r; reflexivity.
Qed.

(* ---------- round trip ---------- *)
Lemma dec_opt_dadr d r : wf_opt wf_dadr d = true ->
  dec_opt (is_some d) dec_dadr (opt_list d spec_addr ++ r) = Ok (d, r).
Proof.
  destruct d as [a|]; cbn [wf_opt is_some opt_list dec_opt app]; intros H; [|reflexivity].
  rewrite dec_dadr_spec by assumption. reflexivity.
Qed.

Lemma dec_opt_sadr s r : wf_opt wf_sadr s = true ->
  dec_opt (is_some s) dec_sadr (opt_list s spec_addr ++ r) = Ok (s, r).
Proof.
  destruct s as [a|]; cbn [wf_opt is_some opt_list dec_opt app]; intros H; [|reflexivity].
  rewrite dec_sadr_spec by assumption. reflexivity.
Qed.

Lemma dec_opt_hop hp r :
  dec_opt (is_some hp) get (opt_list hp (fun x => [x]) ++ r) = Ok (hp, r).
Proof. destruct hp; reflexivity. Qed.

Definition wf_mv (m vd : option N) : bool :=
  match m, vd with
  | Some t, Some v => is_vendor_type t && (v <? 65536)
  | Some t, None => t <? 128
  | None, None => true
  | None, Some _ => false
  end.

Lemma dec_opt_mt m vd r : wf_mv m vd = true ->
  dec_opt (is_some m) dec_mt
    (opt_list m (fun t => [t]) ++ opt_list vd (fun v => [v / 256; v mod 256]) ++ r)
  = Ok (match m with Some t => Some (t, vd) | None => None end, r).
Proof.
  destruct m as [t|], vd as [v|]; cbn [wf_mv is_some opt_list dec_opt app]; intros H; try discriminate.
  - apply andb_true_iff in H as [Ht Hv]. unfold dec_mt. cbn [get bind]. rewrite Ht.
    rewrite get_short_net by lia. reflexivity.
  - unfold dec_mt. cbn [get bind].
    assert (is_vendor_type t = false) as -> by (unfold is_vendor_type; lia). reflexivity.
  - reflexivity.
Qed.

Lemma dec_npci_spec h payload : wf_npci h = true ->
  dec_npci (spec6_2 h ++ payload) = Ok (spec_control h, h, payload).
Proof.
  intros H. split_wf H.
  assert (Hp : prio h < 4) by lia.
  destruct (spec_control_ctl h Hp) as [Ec Lc].
  destruct (ctl_spec (is_some (nmsg h)) (is_some (dadr h)) (is_some (sadr h)) (er h) (prio h) Hp)
    as (_ & _ & Bn & Bd & Bs & Be & Bp & _).
  rewrite <- control_of_ctl in Bn, Bd, Bs, Be, Bp. rewrite Ec in Bn, Bd, Bs, Be, Bp.
  unfold dec_npci, spec6_2. cbn [app].
  rewrite !lenN_cons.
  destruct (1 + (1 + lenN _) <? 2) eqn:EL; [lia|]. clear EL.
  cbn [get bind N.eqb Pos.eqb negb]. cbv zeta.
  rewrite Bn, Bd, Bs, Be, Bp.
  rewrite <- !app_assoc.
  destruct h as [v e p d s hp m vd];
    cbn [Npci.ver Npci.er Npci.prio Npci.dadr Npci.sadr Npci.hop Npci.nmsg Npci.vendor] in *.
  rewrite dec_opt_dadr by assumption. cbn [bind].
  rewrite dec_opt_sadr by assumption. cbn [bind].
  assert (Eh : is_some d = is_some hp) by (destruct d, hp; try discriminate; reflexivity).
  rewrite Eh, dec_opt_hop. cbn [bind].
  rewrite dec_opt_mt by exact W. cbn [bind].
  assert (v = 1) as -> by lia.
  destruct m as [t|]; cbn [option_map fst]; [reflexivity|].
  destruct vd; [discriminate | reflexivity].
Qed.

Lemma npci_roundtrip h payload : wf_npci h = true ->
  exists bs, enc_npci h = Ok bs /\ dec_npci (bs ++ payload) = Ok (control_of h, h, payload).
Proof.
  intros H. exists (spec6_2 h). split; [apply enc_npci_spec; assumption|].
  rewrite dec_npci_spec by assumption.
  assert (Hp : prio h < 4) by (split_wf H; lia).
  destruct (spec_control_ctl h Hp) as [-> _]. reflexivity.
Qed.

(* ---------- refusals ---------- *)
Lemma dec_npci_version bs : (forall r, bs <> 1 :: r) -> dec_npci bs = Err DecodingError.
Proof.
  intros H. unfold dec_npci. destruct (lenN bs <? 2); [reflexivity|].
  destruct bs as [|v r]; [reflexivity|]. cbn [get bind].
  destruct (v =? 1) eqn:E; [|reflexivity].
  exfalso. apply (H r). f_equal. lia.
Qed.

Definition with_sadr (h : npci) (s : option addr) : npci :=
  mkNpci (ver h) (er h) (prio h) (dadr h) s (hop h) (nmsg h) (vendor h).

Lemma dec_npci_bad_sadr h net mac payload :
  wf_npci (with_sadr h None) = true -> net < 65536 -> lenN mac < 256 -> (net = 65535 \/ mac = []) ->
  dec_npci (spec6_2 (with_sadr h (Some (RStation net mac))) ++ payload) = Err DecodingError.
Proof.
  intros H Hn Hl Hbad. split_wf H.
  destruct h as [v e p d s hp m vd]; unfold with_sadr in *;
    cbn [Npci.ver Npci.er Npci.prio Npci.dadr Npci.sadr Npci.hop Npci.nmsg Npci.vendor] in *.
  assert (Hp : p < 4) by lia.
  set (h' := mkNpci v e p d (Some (RStation net mac)) hp m vd).
  destruct (spec_control_ctl h' Hp) as [Ec Lc].
  destruct (ctl_spec (is_some (nmsg h')) (is_some (dadr h')) (is_some (sadr h')) (er h') (prio h') Hp)
    as (_ & _ & Bn & Bd & Bs & Be & Bp & _).
  rewrite <- control_of_ctl in Bn, Bd, Bs, Be, Bp. rewrite Ec in Bn, Bd, Bs, Be, Bp.
  unfold dec_npci, spec6_2. cbn [app].
  rewrite !lenN_cons.
  destruct (1 + (1 + lenN _) <? 2) eqn:EL; [lia|]. clear EL.
  cbn [get bind N.eqb Pos.eqb negb]. cbv zeta.
  rewrite Bn, Bd, Bs, Be, Bp.
  rewrite <- !app_assoc.
  subst h'. cbn [Npci.ver Npci.er Npci.prio Npci.dadr Npci.sadr Npci.hop Npci.nmsg Npci.vendor is_some].
  rewrite dec_opt_dadr by assumption. cbn [bind].
  cbn [opt_list dec_opt]. rewrite dec_sadr_bad by assumption. reflexivity.
Qed.

(* the encoder does lay such a header out (it is the decoder that refuses it) *)
Lemma enc_npci_bad_sadr h net mac :
  wf_npci (with_sadr h None) = true -> net < 65536 -> lenN mac < 256 ->
  enc_npci (with_sadr h (Some (RStation net mac))) = Ok (spec6_2 (with_sadr h (Some (RStation net mac)))).
Proof.
  intros H Hn Hl. split_wf H.
  destruct h as [v e p d s hp m vd]; unfold with_sadr in *;
    cbn [Npci.ver Npci.er Npci.prio Npci.dadr Npci.sadr Npci.hop Npci.nmsg Npci.vendor] in *.
  assert (Hp : p < 4) by lia.
  set (h' := mkNpci v e p d (Some (RStation net mac)) hp m vd).
  destruct (spec_control_ctl h' Hp) as [Ec Lc].
  unfold enc_npci, spec6_2.
  subst h'. cbn [Npci.ver Npci.er Npci.prio Npci.dadr Npci.sadr Npci.hop Npci.nmsg Npci.vendor] in *.
  rewrite (put_ok v) by lia. cbn [bind].
  rewrite put_ok by exact Lc. cbn [bind]. rewrite Ec.
  replace v with 1 by lia.
  assert (Hd : match d with Some a => enc_dadr a | None => Ok [] end = Ok (opt_list d spec_addr)).
  { destruct d as [a|]; cbn [wf_opt opt_list] in *; [apply enc_dadr_spec; assumption | reflexivity]. }
  rewrite Hd. cbn [bind enc_sadr]. rewrite (put_ok (lenN mac)) by lia. cbn [bind].
  rewrite put_short_small by lia.
  assert (Hh : match d with Some _ => put_opt hp | None => Ok [] end = Ok (opt_list hp (fun x => [x]))).
  { destruct d, hp; try discriminate; cbn [put_opt opt_list]; [apply put_ok; lia | reflexivity]. }
  rewrite Hh. cbn [bind].
  destruct m as [t|], vd as [vv|]; try discriminate; cbn [opt_list bind spec_addr].
  - apply andb_true_iff in W as [Wt Wv].
    assert (t < 256) by (unfold is_vendor_type in Wt; lia).
    rewrite put_ok by assumption. cbn [bind]. rewrite Wt.
    rewrite put_short_small by lia. rewrite ?app_nil_r; reflexivity.
  - assert (Ht : t < 128) by lia.
    rewrite put_ok by lia. cbn [bind].
    assert (is_vendor_type t = false) as -> by (unfold is_vendor_type; lia).
    rewrite ?app_nil_r; reflexivity.
  - rewrite ?app_nil_r; reflexivity.
Qed.

(* ---------- readers extend along a longer buffer; their only error is DecodingError ---------- *)
Definition extensible {A} (f : list N -> res (A * list N)) : Prop :=
  forall a x r y, f a = Ok (x, r) -> f (a ++ y) = Ok (x, r ++ y).
Definition only_dec {A} (f : list N -> res A) : Prop :=
  forall bs e, f bs = Err e -> e = DecodingError.

Lemma get_ext : extensible get.
Proof. intros [|b a] x r y H; [discriminate|]. injection H as <- <-. reflexivity. Qed.
Lemma get_short_ext : extensible get_short.
Proof. intros [|b [|c a]] x r y H; try discriminate. injection H as <- <-. reflexivity. Qed.
Lemma get_data_ext k : extensible (get_data k).
Proof.
  intros a x r y H. unfold get_data in *. rewrite lenN_app.
  destruct (lenN a <? k) eqn:E; [discriminate|].
  destruct (lenN a + lenN y <? k) eqn:E'; [lia|].
  injection H as <- <-.
  assert (Hk : (N.to_nat k - length a = 0)%nat) by (unfold lenN in E; lia).
  rewrite firstn_app, skipn_app, Hk. cbn [firstn skipn]. rewrite app_nil_r. reflexivity.
Qed.

Lemma get_only : only_dec get.
Proof. intros [|b a] e H; cbn in H; congruence. Qed.
Lemma get_short_only : only_dec get_short.
Proof. intros [|b [|c a]] e H; cbn in H; congruence. Qed.
Lemma get_data_only k : only_dec (get_data k).
Proof. intros a e H. unfold get_data in H. destruct (lenN a <? k); congruence. Qed.

Ltac step_ext Hext :=
  match goal with
  | H : bind ?m _ = Ok _ |- _ =>
      let E := fresh "E" in
      destruct m as [[? ?]|] eqn:E; cbn [bind] in H; [|discriminate];
      rewrite (Hext _ _ _ _ E); cbn [bind]
  end.

Lemma dec_dadr_ext : extensible dec_dadr.
Proof.
  intros a x r y H. unfold dec_dadr in *.
  step_ext get_short_ext. step_ext get_ext. step_ext (get_data_ext n0).
  injection H as <- <-. reflexivity.
Qed.

Lemma dec_sadr_ext : extensible dec_sadr.
Proof.
  intros a x r y H. unfold dec_sadr in *.
  step_ext get_short_ext. step_ext get_ext. step_ext (get_data_ext n0).
  destruct (n =? 65535); [discriminate|]. destruct (n0 =? 0); [discriminate|].
  injection H as <- <-. reflexivity.
Qed.

Lemma dec_mt_ext : extensible dec_mt.
Proof.
  intros a x r y H. unfold dec_mt in *.
  step_ext get_ext. destruct (is_vendor_type n).
  - step_ext get_short_ext. injection H as <- <-. reflexivity.
  - injection H as <- <-. reflexivity.
Qed.

Lemma dec_opt_ext {A} b (f : list N -> res (A * list N)) : extensible f -> extensible (dec_opt b f).
Proof.
  intros Hf a x r y H. unfold dec_opt in *. destruct b.
  - step_ext Hf. injection H as <- <-. reflexivity.
  - injection H as <- <-. reflexivity.
Qed.

Lemma dec_npci_ext : extensible dec_npci.
Proof.
  intros a x r y H. unfold dec_npci in *. rewrite lenN_app.
  destruct (lenN a <? 2) eqn:E; [discriminate|].
  destruct (lenN a + lenN y <? 2) eqn:E'; [lia|].
  step_ext get_ext. destruct (negb (n =? 1)); [discriminate|].
  step_ext get_ext. cbv zeta in *.
  step_ext (dec_opt_ext (negb (N.land n0 32 =? 0)) dec_dadr dec_dadr_ext).
  step_ext (dec_opt_ext (negb (N.land n0 8 =? 0)) dec_sadr dec_sadr_ext).
  step_ext (dec_opt_ext (negb (N.land n0 32 =? 0)) get get_ext).
  step_ext (dec_opt_ext (negb (N.land n0 128 =? 0)) dec_mt dec_mt_ext).
  injection H as <- <-. reflexivity.
Qed.

Ltac step_only Hon :=
  match goal with
  | H : bind ?m _ = Err _ |- _ =>
      let E := fresh "E" in
      destruct m as [[? ?]|] eqn:E; cbn [bind] in H; [| injection H as <-; exact (Hon _ _ E)]
  end.

Lemma dec_dadr_only : only_dec dec_dadr.
Proof.
  intros a e H. unfold dec_dadr in H.
  step_only get_short_only. step_only get_only. step_only (get_data_only n0). discriminate.
Qed.
Lemma dec_sadr_only : only_dec dec_sadr.
Proof.
  intros a e H. unfold dec_sadr in H.
  step_only get_short_only. step_only get_only. step_only (get_data_only n0).
  destruct (n =? 65535); [congruence|]. destruct (n0 =? 0); congruence.
Qed.
Lemma dec_mt_only : only_dec dec_mt.
Proof.
  intros a e H. unfold dec_mt in H.
  step_only get_only. destruct (is_vendor_type n); [|discriminate].
  step_only get_short_only. discriminate.
Qed.
Lemma dec_opt_only {A} b (f : list N -> res (A * list N)) : only_dec f -> only_dec (dec_opt b f).
Proof.
  intros Hf a e H. unfold dec_opt in H. destruct b; [|discriminate].
  step_only Hf. discriminate.
Qed.

Lemma dec_npci_only : only_dec dec_npci.
Proof.
  intros a e H. unfold dec_npci in H.
  destruct (lenN a <? 2); [congruence|].
  step_only get_only. destruct (negb (n =? 1)); [congruence|].
  step_only get_only. cbv zeta in H.
  step_only (dec_opt_only (negb (N.land n0 32 =? 0)) dec_dadr dec_dadr_only).
  step_only (dec_opt_only (negb (N.land n0 8 =? 0)) dec_sadr dec_sadr_only).
  step_only (dec_opt_only (negb (N.land n0 32 =? 0)) get get_only).
  step_only (dec_opt_only (negb (N.land n0 128 =? 0)) dec_mt dec_mt_only).
  discriminate.
Qed.

(* every strict prefix of a well-formed header is refused with DecodingError *)
Lemma npci_truncated h k : wf_npci h = true -> (k < length (spec6_2 h))%nat ->
  dec_npci (firstn k (spec6_2 h)) = Err DecodingError.
Proof.
  intros H Hk.
  destruct (dec_npci (firstn k (spec6_2 h))) as [[[c h'] r]|e] eqn:E.
  - exfalso. apply (dec_npci_ext _ _ _ (skipn k (spec6_2 h))) in E.
    rewrite firstn_skipn in E.
    pose proof (dec_npci_spec h [] H) as S. rewrite app_nil_r in S. rewrite S in E.
    injection E as _ _ E. symmetry in E. apply app_eq_nil in E as [_ E].
    apply (f_equal (@length N)) in E. rewrite skipn_length in E. cbn [length] in E. lia.
  - f_equal. exact (dec_npci_only _ _ E).
Qed.

(* whatever is decoded, the source is absent or a station with a real network and a non-empty MAC *)
Definition src_ok (s : option addr) : Prop :=
  match s with
  | None => True
  | Some (RStation net mac) => net <> 65535 /\ mac <> []
  | Some _ => False
  end.

Lemma dec_sadr_ok bs a r : dec_sadr bs = Ok (a, r) -> src_ok (Some a).
Proof.
  unfold dec_sadr. intros H.
  destruct (get_short bs) as [[snet q1]|] eqn:E1; cbn [bind] in H; [|discriminate].
  destruct (get q1) as [[slen q2]|] eqn:E2; cbn [bind] in H; [|discriminate].
  destruct (get_data slen q2) as [[mac q3]|] eqn:E3; cbn [bind] in H; [|discriminate].
  destruct (snet =? 65535) eqn:F1; [discriminate|]. destruct (slen =? 0) eqn:F2; [discriminate|].
  injection H as <- <-. cbn [src_ok]. split; [lia|].
  apply get_data_ok in E3 as [_ L]. intros ->. unfold lenN in L. cbn [length] in L. lia.
Qed.

Lemma dec_npci_src_ok bs c h r : dec_npci bs = Ok (c, h, r) -> src_ok (sadr h).
Proof.
  unfold dec_npci. intros H.
  destruct (lenN bs <? 2); [discriminate|].
  destruct (get bs) as [[v r1]|] eqn:E1; cbn [bind] in H; [|discriminate].
  destruct (negb (v =? 1)); [discriminate|].
  destruct (get r1) as [[c' r2]|] eqn:E2; cbn [bind] in H; [|discriminate].
  cbv zeta in H.
  destruct (dec_opt _ dec_dadr r2) as [[d r3]|] eqn:E3; cbn [bind] in H; [|discriminate].
  destruct (dec_opt _ dec_sadr r3) as [[s r4]|] eqn:E4; cbn [bind] in H; [|discriminate].
  destruct (dec_opt _ get r4) as [[hp r5]|] eqn:E5; cbn [bind] in H; [|discriminate].
  destruct (dec_opt _ dec_mt r5) as [[mv r6]|] eqn:E6; cbn [bind] in H; [|discriminate].
  injection H as <- <- <-. cbn [sadr].
  unfold dec_opt in E4. destruct (negb (N.land c' 8 =? 0)).
  - destruct (dec_sadr r3) as [[a q]|] eqn:E; cbn [bind] in E4; [|discriminate].
    injection E4 as <- <-. exact (dec_sadr_ok _ _ _ E).
  - injection E4 as <- <-. exact I.
Qed.

(* ---------- statements in terms of the encoder's own output ---------- *)
Lemma npci_truncated_enc h bs k : wf_npci h = true -> enc_npci h = Ok bs -> (k < length bs)%nat ->
  dec_npci (firstn k bs) = Err DecodingError.
Proof.
  intros H E Hk. rewrite enc_npci_spec in E by assumption. injection E as <-.
  apply npci_truncated; assumption.
Qed.

Lemma npci_bad_sadr h net mac payload :
  wf_npci (with_sadr h None) = true -> net < 65536 -> lenN mac < 256 -> (net = 65535 \/ mac = []) ->
  exists bs, enc_npci (with_sadr h (Some (RStation net mac))) = Ok bs
    /\ bs = spec6_2 (with_sadr h (Some (RStation net mac)))
    /\ dec_npci (bs ++ payload) = Err DecodingError.
Proof.
  intros H Hn Hl Hb. eexists. split; [apply enc_npci_bad_sadr; assumption|].
  split; [reflexivity|]. apply dec_npci_bad_sadr; assumption.
Qed.

Lemma npci_version_enc h bs v payload : wf_npci h = true -> enc_npci h = Ok bs -> v <> 1 ->
  dec_npci ((v :: tl bs) ++ payload) = Err DecodingError.
Proof.
  intros _ _ Hv. apply dec_npci_version. intros r E. cbn [app] in E. congruence.
Qed.

Lemma enc_npci_bytes_ok h bs : wf_npci h = true -> enc_npci h = Ok bs -> bytes_ok bs = true.
Proof.
  intros H E. rewrite enc_npci_spec in E by assumption. injection E as <-.
  pose proof H as H0. split_wf H.
  destruct (spec_control_ctl h ltac:(lia)) as [Ec Lc]. rewrite Ec in Lc.
  unfold spec6_2. rewrite !bytes_ok_app.
  assert (A : forall a, wf_dadr a = true \/ wf_sadr a = true -> bytes_ok (spec_addr a) = true).
  { assert (S : forall net mac, wf_station net mac = true -> bytes_ok (spec_addr (RStation net mac)) = true).
    { intros net mac Ha. unfold wf_station in Ha.
      apply andb_true_iff in Ha as [Ha Hm]. cbn [spec_addr]. rewrite bytes_ok_app, Hm.
      unfold bytes_ok, byte_ok. cbn [forallb]. lia. }
    intros [net mac|net|] [Ha|Ha]; cbn [wf_dadr wf_sadr] in Ha; try discriminate; try (apply S; assumption);
      cbn [spec_addr]; unfold bytes_ok, byte_ok; cbn [forallb]; lia. }
  destruct h as [v e p d s hp m vd];
    cbn [Npci.ver Npci.er Npci.prio Npci.dadr Npci.sadr Npci.hop Npci.nmsg Npci.vendor] in *.
  rewrite !andb_true_iff. repeat split.
  - unfold bytes_ok, byte_ok. cbn [forallb]. lia.
  - destruct d as [a|]; cbn [opt_list wf_opt] in *; [apply A; left; assumption | reflexivity].
  - destruct s as [a|]; cbn [opt_list wf_opt] in *; [apply A; right; assumption | reflexivity].
  - destruct d, hp; try discriminate; cbn [opt_list]; unfold bytes_ok, byte_ok; cbn [forallb]; [lia | reflexivity].
  - destruct m as [t|], vd; try discriminate; cbn [opt_list]; unfold bytes_ok, byte_ok, is_vendor_type in *; cbn [forallb]; lia.
  - destruct m as [t|], vd; try discriminate; cbn [opt_list]; unfold bytes_ok, byte_ok, is_vendor_type in *; cbn [forallb]; lia.
Qed.
