(* Cov.v — executable model of the COV service of bacpypes (py34/bacpypes/service/cov.py,
   service/detect.py, the monitor calls of object.py Property.WriteProperty), as the code is
   after the two `fix:` commits of C16 (missing lifetime = indefinite; renewal takes over
   lifetime and notification mode).  No proofs here (CovFacts.v).

   Time is absolute virtual-clock time in ticks of 1/8 s; analog values and increments are
   quarters.  The deferred-function queue (core.deferredFns restricted to the COV functions:
   DetectionAlgorithm._execute and COVDetection.send_initial_notification) IS a state component:
   `Write`, `SubscribeNow`, `CancelNow`, `ReadNow` do not run it, `StepQ` runs its head, `Drain`
   all of it; `Subscribe`/`Cancel`/`ReadActive` are the composites Drain; request; Drain and
   `Advance` drains before time moves (core.run never sleeps with deferred functions pending).
   Network and IOCB plumbing is run to quiescence by the harness after every event.

   code map
     write_obj      object.py:323-363 monitors + detect.py:31-56 DetectionMonitor.property_change
     write_ev       + `deferred(self.algorithm._execute)` when the write sets _triggered
     inc_filter     cov.py COVIncrementCriteria.present_value_filter
     run_dfn DExec  detect.py DetectionAlgorithm._execute -> COV*Criteria.send_cov_notifications(None); an instance that
                    was unbound meanwhile has an empty subscription list
     run_dfn DInit  cov.py COVDetection.send_initial_notification(cov) (fix C16-F4) -> send_cov_notifications(cov)
     trem           cov.py send_cov_notifications "calculate time remaining" / ActiveCOVSubscriptions.ReadProperty
     subscribe_now  cov.py ChangeOfValueServices.do_SubscribeCOVRequest / do_SubscribeCOVPropertyRequest (+ Subscription.__init__,
                    renew_subscription, PulseConverterCriteria.add_subscription); absent mode = unconfirmed (fix C16-F5)
     cancel_now     same, cancel branch (+ ChangeOfValueServices.cancel_subscription,
                    COVDetection/PulseConverterCriteria.cancel_subscription, DetectionAlgorithm.unbind)
     fire_item      task.py TaskManager order (time, counter); Subscription.process_task;
                    RecurringFunctionTask(covPeriod*1000, send_cov_notifications) + RecurringTask.install_task
     read_active    cov.py ActiveCOVSubscriptions.ReadProperty *)
From Bac Require Import Base.
Open Scope Z_scope.

Definition TICKS : Z := 8.
Definition T0 : Z := 1700000000 * 8.

Inductive kind := KInc | KGen | KPulse | KNoCov.
Inductive prop := PPv | PFl | PInc.

(* an object together with its detection algorithm (present iff bound) *)
Record obj := mkObj {
  oid : Z; okind : kind; pv : Z; fl : Z; inc : Z; period : Z;
  bound : bool;                (* app.cov_detections has an entry, monitors installed *)
  trig : bool;                 (* DetectionAlgorithm._triggered (an _execute is in the deferred queue) *)
  prev : option Z;             (* COVIncrementCriteria.previous_reported_value *)
  psched : option (Z * Z);     (* cov_period_task scheduled at (time, heap counter) *)
  gen : Z }.                   (* which detection instance this is (a new one per bind) *)
Definition mkObj0 i k v f c p := mkObj i k v f c p false false None None 0.

(* a Subscription: key (client, process, object), mode, lifetime [s], expiry task (time, counter) *)
Record sub := mkSub { s_cli : Z; s_proc : Z; s_oid : Z; s_conf : bool; s_life : Z; s_task : option (Z * Z);
                      s_id : Z }.     (* identity of the Subscription object (renewals keep it) *)

(* a deferred COV function: _execute of detection instance g of object o / the initial notification of
   the Subscription object sid *)
Inductive dfn := DExec (o g : Z) | DInit (sid : Z).

Record st := mkSt { now : Z; ctr : Z; objs : list obj; subs : list sub; queue : list dfn }.
Definition init (os : list obj) : st := mkSt T0 0 os [] [].

(* n_at: the instant of emission — not part of the PDU, used by the theorems only *)
Record ntf := mkNtf { n_cli : Z; n_proc : Z; n_oid : Z; n_conf : bool; n_trem : Z; n_pv : Z; n_fl : Z; n_at : Z }.
Record act := mkAct { a_cli : Z; a_proc : Z; a_oid : Z; a_conf : bool; a_trem : Z; a_hasinc : bool; a_inc : Z }.
Record out := mkOut { o_tag : Z; o_ack : Z; o_code : Z; o_ntfs : list ntf; o_act : option (list act) }.

Inductive ev :=
| Write (i : nat) (p : prop) (v : Z)
| Drain
| Subscribe (c p o : Z) (conf : bool) (life : option Z)
| Cancel (c p o : Z)
| Advance (t : Z)
| ReadActive (c : Z)
| StepQ
| SubscribeNow (c p o : Z) (conf : bool) (life : option Z)
| CancelNow (c p o : Z)
| ReadNow (c : Z).

(* ---- setters *)
Definition set_val (o : obj) (p : prop) (v : Z) : obj :=
  match p with
  | PPv => mkObj (oid o) (okind o) v (fl o) (inc o) (period o) (bound o) (trig o) (prev o) (psched o) (gen o)
  | PFl => mkObj (oid o) (okind o) (pv o) v (inc o) (period o) (bound o) (trig o) (prev o) (psched o) (gen o)
  | PInc => mkObj (oid o) (okind o) (pv o) (fl o) v (period o) (bound o) (trig o) (prev o) (psched o) (gen o)
  end.
Definition get_val (o : obj) (p : prop) : Z := match p with PPv => pv o | PFl => fl o | PInc => inc o end.
Definition set_det (o : obj) (b t : bool) (pr : option Z) (ps : option (Z * Z)) : obj :=
  mkObj (oid o) (okind o) (pv o) (fl o) (inc o) (period o) b t pr ps (gen o).
Definition set_gen (o : obj) (g : Z) : obj :=
  mkObj (oid o) (okind o) (pv o) (fl o) (inc o) (period o) (bound o) (trig o) (prev o) (psched o) g.
Definition set_trig (o : obj) (t : bool) := set_det o (bound o) t (prev o) (psched o).
Definition set_prev (o : obj) (pr : option Z) := set_det o (bound o) (trig o) pr (psched o).
Definition set_psched (o : obj) (ps : option (Z * Z)) := set_det o (bound o) (trig o) (prev o) ps.

(* ---- monitors and filters *)
Definition has_prop (k : kind) (p : prop) : bool :=
  match k, p with
  | KGen, PInc => false | KNoCov, PFl => false | KNoCov, PInc => false | _, _ => true end.
(* properties_tracked of the criteria class *)
Definition tracked (k : kind) (p : prop) : bool :=
  match k, p with
  | KInc, _ => true
  | KGen, PInc => false | KGen, _ => true
  | KPulse, PInc => false | KPulse, _ => true
  | KNoCov, _ => false end.
Definition reports_prev (k : kind) : bool := match k with KInc | KPulse => true | _ => false end.

(* present_value_filter: new <= prev - inc or new >= prev + inc *)
Definition inc_filter (pr new i : Z) : bool := (new <=? pr - i) || (new >=? pr + i).

Definition write_obj (o : obj) (p : prop) (v : Z) : obj :=
  let old := get_val o p in
  let o1 := set_val o p v in
  if negb (bound o && tracked (okind o) p) then o1
  else if trig o then o1
  else match p with
       | PPv => if reports_prev (okind o)
                then let pr := match prev o with None => old | Some x => x end in
                     set_det o1 (bound o1) (inc_filter pr v (inc o1)) (Some pr) (psched o1)
                else set_trig o1 (negb (old =? v))
       | _ => set_trig o1 (negb (old =? v))
       end.

Fixpoint upd_nth {A} (n : nat) (f : A -> A) (l : list A) : list A :=
  match l, n with
  | [], _ => []
  | x :: r, O => f x :: r
  | x :: r, S n' => x :: upd_nth n' f r
  end.

(* ---- notifications *)
Definition trem (nw : Z) (s : sub) : Z :=
  if s_life s =? 0 then 0
  else match s_task s with
       | None => -8      (* Python: int(None - float) raises TypeError; unreachable, CovFacts.trem_ok *)
       | Some (t, _) => let r := Z.quot (t - nw) TICKS in if r =? 0 then 1 else r
       end.
Definition mk_ntf (nw : Z) (o : obj) (s : sub) : ntf :=
  mkNtf (s_cli s) (s_proc s) (s_oid s) (s_conf s) (trem nw s) (pv o) (fl o) nw.
Definition subs_of (i : Z) (sb : list sub) : list sub := filter (fun s => s_oid s =? i) sb.
Definition report (o : obj) : obj := if reports_prev (okind o) then set_prev o (Some (pv o)) else o.
Definition send_all (nw : Z) (sb : list sub) (o : obj) : obj * list ntf :=
  (report o, map (mk_ntf nw o) (subs_of (oid o) sb)).
Definition set_objs (s : st) (os : list obj) : st := mkSt (now s) (ctr s) os (subs s) (queue s).
Definition set_queue (s : st) (q : list dfn) : st := mkSt (now s) (ctr s) (objs s) (subs s) q.

(* ---- subscription table *)
Definition key_eqb (c p o : Z) (s : sub) : bool := (s_cli s =? c) && (s_proc s =? p) && (s_oid s =? o).
Definition find_sub (c p o : Z) (sb : list sub) : option sub := find (key_eqb c p o) sb.
Definition find_id (i : Z) (sb : list sub) : option sub := find (fun x => s_id x =? i) sb.
Definition remove_sub (c p o : Z) (sb : list sub) : list sub := filter (fun s => negb (key_eqb c p o s)) sb.
Definition find_obj (i : Z) (os : list obj) : option obj := find (fun o => oid o =? i) os.
Definition upd_obj (i : Z) (f : obj -> obj) (os : list obj) : list obj :=
  map (fun o => if oid o =? i then f o else o) os.

(* a fresh detection instance per bind: deferred _execute calls of an older instance find nobody *)
Definition bind_obj (o : obj) : obj := if bound o then o else set_gen (set_det o true false None None) (gen o + 1).
Definition unbind_obj (o : obj) : obj := set_det o false false None None.
Definition next_mult (nw p8 : Z) : Z := nw + p8 - nw mod p8.

(* ---- the deferred functions *)
(* DetectionAlgorithm._execute of instance g: execute() = send_cov_notifications(), then _triggered = False;
   an instance that has been unbound meanwhile has no subscriptions left and reaches nobody *)
Definition run_dfn (s : st) (d : dfn) : st * list ntf :=
  match d with
  | DExec o g =>
      match find_obj o (objs s) with
      | Some ob => if bound ob && (gen ob =? g)
                   then (set_objs s (upd_obj o (fun _ => set_trig (report ob) false) (objs s)),
                         map (mk_ntf (now s) ob) (subs_of o (subs s)))
                   else (s, [])
      | None => (s, [])
      end
  | DInit i =>      (* COVDetection.send_initial_notification(cov): only if cov is still in the list *)
      match find_id i (subs s) with
      | Some x => match find_obj (s_oid x) (objs s) with
                  | Some ob => (set_objs s (upd_obj (s_oid x) (fun _ => report ob) (objs s)), [mk_ntf (now s) ob x])
                  | None => (s, [])
                  end
      | None => (s, [])
      end
  end.

Fixpoint run_queue (q : list dfn) (s : st) : st * list ntf :=
  match q with
  | [] => (s, [])
  | d :: r => let '(s1, n1) := run_dfn s d in
              let '(s2, n2) := run_queue r s1 in (s2, n1 ++ n2)
  end.
(* no deferred COV function defers another one, so draining is one pass over the queue *)
Definition drain (s : st) : st * list ntf := run_queue (queue s) (set_queue s []).

Definition ack_out (tag : Z) (ns : list ntf) : out := mkOut tag 1 0 ns None.
Definition err_out (tag code : Z) (ns : list ntf) : out := mkOut tag 2 code ns None.

(* remove one subscription; the detection goes away with its last subscription *)
Definition drop_sub (s : st) (c p o : Z) : st :=
  let sb := remove_sub c p o (subs s) in
  let os := match subs_of o sb with
            | [] => upd_obj o unbind_obj (objs s)
            | _ => objs s end in
  mkSt (now s) (ctr s) os sb (queue s).

(* do_SubscribeCOVRequest, subscribe / renew branch: table update, ack, deferred initial notification *)
Definition subscribe_now (s : st) (c p o : Z) (conf : bool) (life : option Z) : st * bool * Z :=
  match find_obj o (objs s) with
  | None => (s, false, 31)
  | Some ob =>
    match okind ob with
    | KNoCov => (s, false, 43)
    | _ =>
      let lf := match life with None => 0 | Some l => l end in
      let ob1 := bind_obj ob in
      match find_sub c p o (subs s) with
      | Some y =>          (* renew_subscription(lifetime, confirmed) on the same Subscription object *)
          let task := if lf =? 0 then None else Some (now s + lf * TICKS, ctr s) in
          let c1 := if lf =? 0 then ctr s else ctr s + 1 in
          let nsub := mkSub c p o conf lf task (s_id y) in
          let sb := map (fun x => if key_eqb c p o x then nsub else x) (subs s) in
          (mkSt (now s) c1 (upd_obj o (fun _ => ob1) (objs s)) sb (queue s ++ [DInit (s_id y)]), true, 0)
      | None =>
          let i := ctr s in
          let c0 := ctr s + 1 in
          let task := if 0 <? lf then Some (now s + lf * TICKS, c0) else None in
          let c1 := if 0 <? lf then c0 + 1 else c0 in
          let nsub := mkSub c p o conf lf task i in
          let per := match okind ob with KPulse => negb (period ob =? 0) | _ => false end in
          let ob2 := if per then set_psched ob1 (Some (next_mult (now s) (period ob * TICKS), c1)) else ob1 in
          let c2 := if per then c1 + 1 else c1 in
          (mkSt (now s) c2 (upd_obj o (fun _ => ob2) (objs s)) (subs s ++ [nsub]) (queue s ++ [DInit i]), true, 0)
      end
    end
  end.

Definition cancel_now (s : st) (c p o : Z) : st * bool * Z :=
  match find_obj o (objs s) with
  | None => (s, false, 31)
  | Some ob =>
    match okind ob with
    | KNoCov => (s, false, 43)
    | _ =>
      let s1 := set_objs s (upd_obj o bind_obj (objs s)) in
      match find_sub c p o (subs s) with
      | Some _ => (drop_sub s1 c p o, true, 0)
      | None => (s1, true, 0)
      end
    end
  end.

Definition req_out (tag : Z) (ok : bool) (code : Z) (ns : list ntf) : out :=
  if ok then ack_out tag ns else err_out tag code ns.

(* ---- timers *)
Inductive item := ISub (c p o : Z) | IPer (o : Z).

Fixpoint insert_by {A} (le : A -> A -> bool) (x : A) (l : list A) : list A :=
  match l with
  | [] => [x]
  | y :: r => if le x y then x :: l else y :: insert_by le x r
  end.
Definition sort_by {A} (le : A -> A -> bool) (l : list A) : list A := fold_right (insert_by le) [] l.

Definition due_items (s : st) : list (Z * item) :=
  flat_map (fun x => match s_task x with
                     | Some (t, k) => if t =? now s then [(k, ISub (s_cli x) (s_proc x) (s_oid x))] else []
                     | None => [] end) (subs s)
  ++ flat_map (fun o => match psched o with
                        | Some (t, k) => if t =? now s then [(k, IPer (oid o))] else []
                        | None => [] end) (objs s).

Definition task_eqb (a : option (Z * Z)) (t k : Z) : bool :=
  match a with Some (t', k') => (t' =? t) && (k' =? k) | None => false end.

Definition fire_item (s : st) (it : Z * item) : st * list ntf :=
  match it with
  | (k, ISub c p o) =>
      match find_sub c p o (subs s) with
      | Some x => if task_eqb (s_task x) (now s) k then (drop_sub s c p o, []) else (s, [])
      | None => (s, [])
      end
  | (k, IPer o) =>
      match find_obj o (objs s) with
      | Some ob =>
          if task_eqb (psched ob) (now s) k then
            let '(ob1, ns) := send_all (now s) (subs s) ob in
            let ob2 := set_psched ob1 (Some (next_mult (now s) (period ob * TICKS), ctr s)) in
            (mkSt (now s) (ctr s + 1) (upd_obj o (fun _ => ob2) (objs s)) (subs s) (queue s), ns)
          else (s, [])
      | None => (s, [])
      end
  end.

Fixpoint fire_items (its : list (Z * item)) (s : st) : st * list ntf :=
  match its with
  | [] => (s, [])
  | it :: r => let '(s1, n1) := fire_item s it in
               let '(s2, n2) := fire_items r s1 in (s2, n1 ++ n2)
  end.

Definition tick (s : st) : st * list ntf :=
  let s1 := mkSt (now s + 1) (ctr s) (objs s) (subs s) (queue s) in
  fire_items (sort_by (fun a b => fst a <=? fst b) (due_items s1)) s1.

Fixpoint ticks (n : nat) (s : st) : st * list ntf :=
  match n with
  | O => (s, [])
  | S n' => let '(s1, n1) := tick s in
            let '(s2, n2) := ticks n' s1 in (s2, n1 ++ n2)
  end.

(* ---- active list *)
Definition mk_act (nw : Z) (os : list obj) (s : sub) : act :=
  let '(h, i) := match find_obj (s_oid s) os with
                 | Some o => match okind o with KInc => (true, inc o) | _ => (false, 0) end
                 | None => (false, 0) end in
  mkAct (s_cli s) (s_proc s) (s_oid s) (s_conf s) (trem nw s) h i.
Definition read_active (s : st) : list act := map (mk_act (now s) (objs s)) (subs s).

(* ---- one event *)
Definition write_ev (s : st) (i : nat) (p : prop) (v : Z) : st * out :=
  match nth_error (objs s) i with
  | None => (s, mkOut 1 9 10 [] None)
  | Some o => if has_prop (okind o) p
              then let o' := write_obj o p v in
                   (* deferred(self.algorithm._execute) when the write sets _triggered *)
                   let q := if negb (trig o) && trig o' then queue s ++ [DExec (oid o) (gen o)] else queue s in
                   (mkSt (now s) (ctr s) (upd_nth i (fun x => write_obj x p v) (objs s)) (subs s) q, mkOut 1 0 0 [] None)
              else (s, mkOut 1 9 11 [] None)
  end.

Definition step (s : st) (e : ev) : st * out :=
  match e with
  | Write i p v => write_ev s i p v
  | StepQ => match queue s with
             | [] => (s, mkOut 7 0 0 [] None)
             | d :: r => let '(s1, ns) := run_dfn (set_queue s r) d in (s1, mkOut 7 0 0 ns None)
             end
  | Drain => let '(s1, ns) := drain s in (s1, mkOut 2 0 0 ns None)
  | SubscribeNow c p o conf life => let '(s1, ok, code) := subscribe_now s c p o conf life in (s1, req_out 8 ok code [])
  | CancelNow c p o => let '(s1, ok, code) := cancel_now s c p o in (s1, req_out 9 ok code [])
  | ReadNow c => (s, mkOut 10 1 0 [] (Some (read_active s)))
  | Subscribe c p o conf life =>
      let '(s1, n1) := drain s in
      let '(s2, ok, code) := subscribe_now s1 c p o conf life in
      let '(s3, n3) := drain s2 in (s3, req_out 3 ok code (n1 ++ n3))
  | Cancel c p o =>
      let '(s1, n1) := drain s in
      let '(s2, ok, code) := cancel_now s1 c p o in
      let '(s3, n3) := drain s2 in (s3, req_out 4 ok code (n1 ++ n3))
  | Advance t => let '(s1, n1) := drain s in
                 let '(s2, n2) := ticks (Z.to_nat t) s1 in (s2, mkOut 5 0 0 (n1 ++ n2) None)
  | ReadActive c => let '(s1, ns) := drain s in (s1, mkOut 6 1 0 ns (Some (read_active s1)))
  end.

Fixpoint run (s : st) (es : list ev) : st * list out :=
  match es with
  | [] => (s, [])
  | e :: r => let '(s1, o) := step s e in
              let '(s2, os) := run s1 r in (s2, o :: os)
  end.

(* ---- canonical output for the correspondence check *)
Fixpoint lex_leb (a b : list Z) : bool :=
  match a, b with
  | [], _ => true
  | _ :: _, [] => false
  | x :: a', y :: b' => if x <? y then true else if y <? x then false else lex_leb a' b'
  end.
Definition canon_ntf (n : ntf) : list Z :=
  [n_cli n; n_proc n; n_oid n; zb (n_conf n); n_trem n; n_pv n; n_fl n].
Definition canon_act (a : act) : list Z :=
  [a_cli a; a_proc a; a_oid a; zb (a_conf a); a_trem a; zb (a_hasinc a); a_inc a].
Definition canon_out (o : out) : list Z :=
  [o_tag o; o_ack o; o_code o; 0; zlen (o_ntfs o)]
  ++ concat (sort_by lex_leb (map canon_ntf (o_ntfs o)))
  ++ match o_act o with
     | None => [-1]
     | Some l => zlen l :: concat (sort_by lex_leb (map canon_act l))
     end.
Definition run_canon (os : list obj) (es : list ev) : list Z :=
  concat (map canon_out (snd (run (init os) es))).
