(* PrimDispatch.v — Tag.app_to_object (primitivedata.py 202-214) with the class list Tag._app_tag_class
   (1877-1882): the generic way an application-tagged primitive becomes an object — the class is picked by
   the tag NUMBER (Any.cast_out, the Choice/AnyAtomic decoders of constructeddata.py and basetypes.py go
   through it), not named by the caller as in Prim.dec_app.
     if self.tagClass != Tag.applicationTagClass: raise ValueError
     klass = self._app_tag_class[self.tagNumber]      # 16 entries: 13 classes, None, None, None -> IndexError past 15
     if not klass: return None
     return klass(self)                               # the class's own decode(tag)
   The classes in the list are the BASE classes: Enumerated there has an empty translate table (numbers stay
   numbers), ObjectIdentifier uses the stock ObjectType table (otb).  No proofs here (PrimDispatchFacts.v). *)
From Bac Require Export Prim.
Open Scope N_scope.

(* Tag._app_tag_class[n]: Some k = the class with application tag number k, None = the three unused slots *)
Definition app_tag_class (n : N) : res (option N) :=
  if n <? 13 then Ok (Some n) else if n <? 16 then Ok None else Err IndexErr.

(* the translate table of the base class with tag number k *)
Definition base_table (otb : table) (k : N) : table := if k =? 12 then otb else [].

Definition app_to_object (otb : table) (t : tag) : res (option prim) :=
  if negb (cls t =? 0) then Err ValueErr
  else
    do k <- app_tag_class (num t);
    match k with
    | None => Ok None
    | Some k => do v <- dec_app (base_table otb k) k t; Ok (Some v)
    end.

(* octets -> Tag(pdu) -> app_to_object: what a generic receiver does *)
Definition wire_to_object (otb : table) (bs : list N) : res (option prim * list N) :=
  do (t, r) <- dec_tag bs; do o <- app_to_object otb t; Ok (o, r).

Definition canon_obj (o : option prim) : list Z :=
  match o with None => [0%Z] | Some v => 1%Z :: canon_prim v end.
Definition canon_obj_rest (p : option prim * list N) : list Z :=
  (canon_obj (fst p) ++ zlen (snd p) :: zs (snd p))%list.
