(* DeviceRx.v — the receive path of a (non-router, server-role) device as ONE function from the octets of a
   frame on the LAN to what the device does.  Composition of models written for other properties:

     layer (code)                                                        model used
     NetworkAdapter.confirmation: NPDU.decode      (netservice.py:213)    Npci.dec_npci            (C08)
     NetworkServiceAccessPoint.process_npdu        (netservice.py:472)    net_rx below; RouterCache.update_router_info /
                                                                          get_router_info          (C19)
     NetworkServiceElement.indication              (netservice.py:~700)   Npci.dec_msg (C08) + nse_rx below
     APDU.decode in process_npdu                   (netservice.py:556)    Apci.dec_apci            (C07)
     StateMachineAccessPoint.confirmation          (appservice.py:1195)   smap_rx below over Ssm.find_tr / new_ssm
     ServerSSM.indication / confirmation / process_task                   Ssm.s_indication / s_confirmation / s_process_task
                                                                                                   (C04/C05/C11/C12)
     ApplicationServiceAccessPoint.indication + Application.indication    AsapCodec.asap_octets over Codec.decode_pdu (C03)
     NetworkServiceAccessPoint.indication (the way down)                  send below

   The device: one adapter whose network number is not known (bind(node) without address: adapterNet = None,
   adapterAddr = None), so it never forwards; it never initiates confirmed requests (its client transaction
   table is empty).  What is NOT computed here and enters as data of the event (record svc): whether the
   application has a helper for the service, what the helper did (Asap.exec_out), how many octets of
   parameters its ComplexAck has, and whether an I-Am made the application update its device-information cache.
   Out of the modelled fragment (predicate in_fragment): a Network-Number-Is received as a broadcast (the adapter
   would learn its network number), and every frame after it.

   Time is the virtual clock in milliseconds; an SSM object is its own TaskManager entry, so the timers of
   the device are the s_timer fields of the transactions; d_gone is a ghost list of every transaction object
   that has left the table ("no timer without transaction" = none of them holds a timer).  No proofs here. *)
From Bac Require Import Base PyRt.
From Bac Require Npci Apci RouterCache SsmWorld.
From Bac Require Import Ssm.
From Bac Require Import Tag Schema Codec Asap AsapCodec.
From BacGen Require Import Schemas ApduFns.
Open Scope Z_scope.

(* ---------- addresses ---------- *)
(* a station as the application layer sees it: LocalStation mac (net = None) or RemoteStation net mac.
   Ssm.v keys transactions by a Z: the MAC octets as base-256 digits behind a leading 1 (so that length counts), times 2^17,
   plus 0 for a local station or network + 1 — injective for octets < 256 and networks < 65536; peer_decode below is its
   inverse (DeviceRxFacts.peer_decode_examples; no general lemma is needed by the theorems) *)
Definition mac_code (m : list N) : Z := fold_left (fun acc b => acc * 256 + Z.of_N b) m 1.
Definition peer_code (net : option N) (m : list N) : Z :=
  mac_code m * 131072 + match net with None => 0 | Some n => Z.of_N n + 1 end.

Record frame := mkFrame { f_src : list N;          (* MAC of the sender on the LAN *)
                          f_bcast : bool;          (* sent to the LAN broadcast address *)
                          f_data : list N }.       (* the octets *)

(* what the application layer above the ASAP did with this frame's request (observed, not computed) *)
Record svc := mkSvc { x_helper : bool; x_exec : exec_out; x_len : Z; x_iam : option (Z * Z) }.
Definition no_svc : svc := mkSvc false XSilent 0 None.

(* ---------- what the device puts on the LAN ---------- *)
Inductive dout :=
| DFrame (dst : Z) (route : option (N * list N)) (a : apdu)  (* an APDU to the station with MAC code dst; DNET/DADR when routed *)
| DWhoIsRouter (net : N).                                    (* Who-Is-Router-To-Network broadcast for a reply without path *)

Record dev_state := mkDev {
  d_cfg : SsmWorld.nodecfg;            (* local device object / SMAP settings and the device-information cache (c_know) *)
  d_str : list ssm;                    (* StateMachineAccessPoint.serverTransactions *)
  d_gone : list ssm;                   (* ghost: transaction objects that have left the table *)
  d_tctr : Z;                          (* TaskManager counter *)
  d_dcc : Z;                           (* dccEnableDisable: 0 enable, 1 disable, 2 disableInitiation *)
  d_cache : RouterCache.cache;         (* NetworkServiceAccessPoint.router_info_cache *)
  d_pending : list (N * (option (N * list N) * apdu));   (* pending_nets: dnet -> replies waiting for a path, oldest first *)
  d_lost : bool }.                     (* left the modelled fragment *)

Definition dev_init (c : SsmWorld.nodecfg) : dev_state := mkDev c [] [] 0 0 RouterCache.empty [] false.

Definition set_tables l g c st := mkDev (d_cfg st) l g c (d_dcc st) (d_cache st) (d_pending st) (d_lost st).
Definition set_cfg c st := mkDev c (d_str st) (d_gone st) (d_tctr st) (d_dcc st) (d_cache st) (d_pending st) (d_lost st).
Definition set_net ca p st := mkDev (d_cfg st) (d_str st) (d_gone st) (d_tctr st) (d_dcc st) ca p (d_lost st).
Definition set_lost st := mkDev (d_cfg st) (d_str st) (d_gone st) (d_tctr st) (d_dcc st) (d_cache st) (d_pending st) true.

Definition NONE_NET : Z := -1.            (* adapterNet None, as in RouterCache.v *)
Definition ROUTER_AVAILABLE : Z := 0.

(* ---------- the way down: NetworkServiceAccessPoint.indication for a reply (netservice.py:322-470) ---------- *)
(* local station -> the adapter; remote station -> the router the cache names, else park it and ask *)
Definition send (st : dev_state) (net : option N) (m : list N) (a : apdu) : dev_state * list dout :=
  match net with
  | None => (st, [DFrame (mac_code m) None a])
  | Some n =>
      if existsb (fun e => (fst e =? n)%N) (d_pending st)
      then (set_net (d_cache st) (d_pending st ++ [(n, (Some (n, m), a))]) st, [])       (* already waiting for a path *)
      else match RouterCache.get_router_info (d_cache st) NONE_NET (Z.of_N n) with
           | Some r => (st, [DFrame r (Some (n, m)) a])
           | None => (set_net (d_cache st) (d_pending st ++ [(n, (Some (n, m), a))]) st, [DWhoIsRouter n])
           end
  end.

Fixpoint send_all (st : dev_state) (net : option N) (m : list N) (outs : list out) : dev_state * list dout :=
  match outs with
  | [] => (st, [])
  | Tx a :: r => let '(st1, o1) := send st net m a in
                 let '(st2, o2) := send_all st1 net m r in (st2, o1 ++ o2)
  | ToApp _ :: r => send_all st net m r      (* an Abort handed to the application: ASAP.indication ignores the PDU type *)
  end.

(* ---------- transactions ---------- *)
(* where the transaction a handler ran on goes: back to its place, or out of the table (ServerSSM.set_state
   removes it on COMPLETED/ABORTED).  pos = None: a transaction StateMachineAccessPoint.confirmation has just
   created and appended (the code appends first and removes on completion: the same list) *)
Definition place (st : dev_state) (pos : option nat) (r : hst) : dev_state :=
  let l := d_str st in
  let l' := match pos with
            | Some k => if h_live r then SsmWorld.replace_nth k (h_s r) l else SsmWorld.remove_nth k l
            | None => if h_live r then l ++ [h_s r] else l
            end in
  set_tables l' (if h_live r then d_gone st else h_s r :: d_gone st) (h_ctr r) st.

(* the application's answer as an APDU (apdu.py: set_context copies the invoke ID; Error carries class and code
   as two enumerated values; the parameters of a ComplexAck are not modelled, only their length) *)
Definition reply_apdu (req : apdu) (x : svc) (r : reply) : apdu :=
  let inv := a_invoke req in
  let t := Z.of_N (ptype r) in
  if t =? 6 then mk_reject inv (Z.of_N (ra r))
  else if t =? 7 then mk_abort false inv (Z.of_N (ra r))
  else if t =? 5 then mk_error inv (a_service req) [145; Z.of_N (ra r); 145; Z.of_N (rb r)]
  else if t =? 2 then mk_sack inv (a_service req)
  else mk_cack false false (-1) (-1) inv (a_service req) (repeat 0 (Z.to_nat (x_len x))).

(* StateMachineAccessPoint.sap_confirmation (appservice.py:1358): the transaction is looked up again *)
Definition answer (st : dev_state) (now peer : Z) (net : option N) (m : list N) (a : apdu) : dev_state * list dout :=
  match find_tr (a_invoke a) peer (d_str st) O with
  | None => (st, [])
  | Some (i, t) =>
      let r := fst (s_confirmation a (mkH t [] (d_tctr st) now true)) in
      send_all (place st (Some i) r) net m (rev (h_outs r))
  end.

Fixpoint answer_all (st : dev_state) (now peer : Z) (net : option N) (m : list N) (l : list apdu) : dev_state * list dout :=
  match l with
  | [] => (st, [])
  | a :: r => let '(st1, o1) := answer st now peer net m a in
              let '(st2, o2) := answer_all st1 now peer net m r in (st2, o1 ++ o2)
  end.

(* ApplicationServiceAccessPoint.indication + Application.indication for a confirmed request given to the
   application: the reply decision of C10's first half, from the octets *)
Definition app_replies (x : svc) (req : apdu) : list apdu :=
  map (reply_apdu req x)
      (asap_octets (Z.to_N (a_service req)) (map Z.to_N (a_data req)) (x_helper x) (x_exec x)).

(* what a ServerSSM handler emitted, oldest first: frames go down, a request goes up and is answered *)
Fixpoint do_outs (x : svc) (now peer : Z) (net : option N) (m : list N) (outs : list out) (st : dev_state)
  : dev_state * list dout :=
  match outs with
  | [] => (st, [])
  | Tx a :: r => let '(st1, o1) := send st net m a in
                 let '(st2, o2) := do_outs x now peer net m r st1 in (st2, o1 ++ o2)
  | ToApp a :: r =>
      if a_type a =? 0 then
        let '(st1, o1) := answer_all st now peer net m (app_replies x a) in
        let '(st2, o2) := do_outs x now peer net m r st1 in (st2, o1 ++ o2)
      else do_outs x now peer net m r st
  end.

Definition run_server (st : dev_state) (pos : option nat) (t : ssm) (hm : M) (x : svc) (now peer : Z)
                      (net : option N) (m : list N) : dev_state * list dout :=
  let r := fst (hm (mkH t [] (d_tctr st) now true)) in
  do_outs x now peer net m (rev (h_outs r)) (place st pos r).

(* DeviceInfoCache.iam_device_info as modelled in SsmWorld.iam_update: the record of the peer takes the announced
   values; transactions of that peer created when a record existed share it *)
Definition iam_update (st : dev_state) (peer ma sg : Z) : dev_state :=
  let c := d_cfg st in
  let d := match SsmWorld.assoc peer (SsmWorld.c_know c) with
           | Some old => mkDinfo (Some ma) sg (d_maxsegs old) (d_maxnpdu old)
           | None => mkDinfo (Some ma) sg None None end in
  let c' := SsmWorld.mkNode (SsmWorld.c_addr c) (SsmWorld.c_maxapdu c) (SsmWorld.c_seg c) (SsmWorld.c_maxsegs c)
              (SsmWorld.c_retries c) (SsmWorld.c_apdu_to c) (SsmWorld.c_seg_to c) (SsmWorld.c_window c)
              (SsmWorld.c_app_to c) (SsmWorld.c_raw c) (SsmWorld.set_assoc peer d (SsmWorld.c_know c)) in
  let alias := fun t => if (s_peer t =? peer) && match s_dinfo t with Some _ => true | None => false end
                        then SsmWorld.set_dinfo_f (Some d) t else t in
  mkDev c' (map alias (d_str st)) (d_gone st) (d_tctr st) (d_dcc st) (d_cache st) (d_pending st) (d_lost st).

(* ---------- StateMachineAccessPoint.confirmation (appservice.py:1195-1303) ---------- *)
Definition oz (o : option Z) : Z := match o with Some z => z | None => -1 end.
Definition to_apdu (h : Apci.apci) (payload : list N) : apdu :=
  mkApdu (oz (Apci.aType h)) (Apci.truthy (Apci.aSeg h)) (Apci.truthy (Apci.aMor h)) (Apci.truthy (Apci.aSA h))
         (Apci.truthy (Apci.aSrv h)) (Apci.truthy (Apci.aNak h)) (oz (Apci.aSeq h)) (oz (Apci.aWin h))
         (oz (Apci.aMaxSegs h)) (oz (Apci.aMaxResp h)) (oz (Apci.aService h)) (oz (Apci.aInvokeID h))
         (oz (Apci.aReason h)) (map Z.of_N payload).

(* device communication control: what a disabled device still listens to *)
Definition dcc_passes (dcc : Z) (a : apdu) : bool :=
  if dcc =? 1 then
    ((a_type a =? 0) && ((a_service a =? 17) || (a_service a =? 20))) || ((a_type a =? 1) && (a_service a =? 8))
  else true.

Definition smap_rx (st : dev_state) (now : Z) (net : option N) (m : list N) (a : apdu) (x : svc) : dev_state * list dout :=
  let peer := peer_code net m in
  if negb (dcc_passes (d_dcc st) a) then (st, [])
  else if a_type a =? 0 then
    match find_tr (a_invoke a) peer (d_str st) O with
    | Some (i, t) => run_server st (Some i) t (s_indication a) x now peer net m
    | None => run_server st None (SsmWorld.new_ssm (d_cfg st) peer false) (s_indication a) x now peer net m
    end
  else if a_type a =? 1 then
    (* to the application; nothing comes back through the transaction layer *)
    (match x_iam x with Some (ma, sg) => iam_update st peer ma sg | None => st end, [])
  else if to_client_side a then (st, [])           (* no client transactions: nothing matches *)
  else if (a_type a =? 4) || (a_type a =? 7) then
    match find_tr (a_invoke a) peer (d_str st) O with
    | Some (i, t) => run_server st (Some i) t (s_indication a) x now peer net m
    | None => (st, [])
    end
  else (st, []).

(* ---------- NetworkServiceElement on a device with one adapter ---------- *)
(* `for dnet in npdu.iartnNetworkList: pending_npdus = sap.pending_nets.get(dnet)`: network by network in the order of
   the message, the replies of one network oldest first, each to the router that spoke *)
Fixpoint flush_net (src : Z) (n : Z) (p : list (N * (option (N * list N) * apdu)))
  : list (N * (option (N * list N) * apdu)) * list dout :=
  match p with
  | [] => ([], [])
  | (n', (rt, a)) :: r =>
      let '(keep, o) := flush_net src n r in
      if Z.of_N n' =? n then (keep, DFrame src rt a :: o) else ((n', (rt, a)) :: keep, o)
  end.
Fixpoint flush_pending (src : Z) (nets : list Z) (p : list (N * (option (N * list N) * apdu)))
  : list (N * (option (N * list N) * apdu)) * list dout :=
  match nets with
  | [] => (p, [])
  | n :: r => let '(k1, o1) := flush_net src n p in
              let '(k2, o2) := flush_pending src r k1 in (k2, o1 ++ o2)
  end.

Definition nse_rx (st : dev_state) (f : frame) (msg : Npci.msg) : dev_state * list dout :=
  match msg with
  | Npci.IAmRouter nets =>
      (* update_router_references(None, source, nets), then the replies waiting for those networks go out *)
      let zn := map Z.of_N nets in
      match RouterCache.update_router_info (d_cache st) NONE_NET (mac_code (f_src f)) zn ROUTER_AVAILABLE with
      | Err _ => (st, [])
      | Ok ca =>
          let '(keep, o) := flush_pending (mac_code (f_src f)) zn (d_pending st) in
          (set_net ca keep st, o)
      end
  | Npci.NetNumIs _ _ => if f_bcast f then (set_lost st, []) else (st, [])
  | _ => (st, [])          (* not a router: Who-Is-Router unanswered; adapterNet None: What-Is-Network-Number unanswered *)
  end.

(* ---------- NetworkServiceAccessPoint.process_npdu (netservice.py:472-560; the forwarding half ends at "not a router") ---------- *)
Definition device_rx (st : dev_state) (now : Z) (f : frame) (x : svc) : dev_state * list dout :=
  match Npci.dec_npci (f_data f) with
  | Err _ => (st, [])                                         (* NPDU.decode raised in NetworkAdapter.confirmation *)
  | Ok (_, h, rest) =>
    (* source routing: the path to SNET is (re)learned from every frame that carries one *)
    let learned :=
      match Npci.sadr h with
      | Some (Npci.RStation snet _) =>
          match RouterCache.update_router_info (d_cache st) NONE_NET (mac_code (f_src f)) [Z.of_N snet] ROUTER_AVAILABLE with
          | Ok ca => Some (set_net ca (d_pending st) st)
          | Err _ => None                                     (* KeyError out of the cache: never from a coherent cache *)
          end
      | _ => Some st
      end in
    match learned with
    | None => (st, [])
    | Some st1 =>
      let local := match Npci.dadr h with
                   | None => true | Some Npci.GBroadcast => true
                   | Some _ => false end in                   (* remote station / broadcast: adapterNet is None, nothing matches *)
      if negb local then (st1, [])
      else match Npci.nmsg h with
           | Some t =>
               if negb (existsb (N.eqb t) Npci.registered_types) then (st1, [])
               else match Npci.dec_msg t rest with
                    | Err _ => (st1, [])
                    | Ok (msg, _) => nse_rx st1 f msg
                    end
           | None =>
               match Apci.dec_apci rest with
               | Err _ => (st1, [])                           (* APDU.decode raised inside process_npdu *)
               | Ok (ah, payload) =>
                   let '(net, m) := match Npci.sadr h with
                                    | Some (Npci.RStation snet smac) => (Some snet, smac)
                                    | _ => (None, f_src f) end in
                   smap_rx st1 now net m (to_apdu ah payload) x
               end
           end
    end
  end.

(* ---------- a timer of transaction i fires (TaskManager pops it, ServerSSM.process_task) ---------- *)
(* the address a transaction answers to, back from its key *)
Fixpoint mac_decode (fuel : nat) (c : Z) (acc : list N) : list N :=
  match fuel with
  | O => acc
  | S f => if c <=? 1 then acc else mac_decode f (c / 256) (Z.to_N (c mod 256) :: acc)
  end.
Definition peer_decode (p : Z) : option N * list N :=
  let k := p mod 131072 in
  (if k =? 0 then None else Some (Z.to_N (k - 1)), mac_decode 300 (p / 131072) []).

Definition device_fire (st : dev_state) (now : Z) (i : nat) : dev_state * list dout :=
  match nth_error (d_str st) i with
  | None => (st, [])
  | Some t =>
      let '(net, m) := peer_decode (s_peer t) in
      let r := fst (s_process_task (mkH (set_timer_f None t) [] (d_tctr st) now true)) in
      send_all (place st (Some i) r) net m (rev (h_outs r))
  end.

(* ---------- time passes: the TaskManager fires what is due, earliest (time, counter) first ---------- *)
Definition next_timer (l : list ssm) : option (Z * nat) :=
  match SsmWorld.best_in 0 false l O None with Some (tm, _, _, _, i) => Some (tm, i) | None => None end.

(* fire every timer due up to `limit` (None: until nothing is scheduled); the clock jumps to the due time
   (harness/vnet.py VClock.run).  Returns the state, the frames, the clock, and whether the fuel ran out *)
Fixpoint advance (fuel : nat) (st : dev_state) (now : Z) (limit : option Z) : dev_state * list dout * Z * bool :=
  match fuel with
  | O => (st, [], now, true)
  | S f =>
      match next_timer (d_str st) with
      | None => (st, [], now, false)
      | Some (tm, i) =>
          if match limit with Some L => L <? tm | None => false end then (st, [], now, false) else
          let now' := Z.max now tm in
          let '(st1, o1) := device_fire st now' i in
          let '(st2, o2, n2, b) := advance f st1 now' limit in (st2, o1 ++ o2, n2, b)
      end
  end.
Definition ADV_FUEL : nat := 200.

(* ---------- histories ---------- *)
Inductive event :=
| ERx (now : Z) (f : frame) (x : svc)       (* a frame arrives at virtual time now *)
| EFire (now : Z) (i : nat)                 (* the timer of the i-th listed transaction fires *)
| EAdv (now : Z) (limit : Z).               (* the clock runs from now up to limit *)

Definition device_step (st : dev_state) (ev : event) : dev_state * list dout :=
  match ev with
  | ERx now f x => device_rx st now f x
  | EFire now i => device_fire st now i
  | EAdv now limit => let '(st1, o, _, _) := advance ADV_FUEL st now (Some limit) in (st1, o)
  end.

Fixpoint device_run (st : dev_state) (evs : list event) : dev_state * list (list dout) :=
  match evs with
  | [] => (st, [])
  | ev :: r => let '(st1, o) := device_step st ev in
               let '(st2, os) := device_run st1 r in (st2, o :: os)
  end.

(* ---------- what the property observes ---------- *)
Definition armed (t : ssm) : bool := match s_timer t with Some _ => true | None => false end.
(* transactions in the table + timers held by anything (listed or not) *)
Definition residue (st : dev_state) : Z :=
  zlen (d_str st) + zlen (filter armed (d_str st)) + zlen (filter armed (d_gone st)).

(* a frame is a well-framed confirmed request ("fixed header intact"): the NPCI decodes, it is for this device,
   it carries an APDU whose fixed header decodes as a confirmed request *)
Definition request_of (f : frame) : option (option N * list N * apdu) :=
  match Npci.dec_npci (f_data f) with
  | Ok (_, h, rest) =>
      match Npci.dadr h, Npci.nmsg h with
      | None, None | Some Npci.GBroadcast, None =>
          match Apci.dec_apci rest with
          | Ok (ah, payload) =>
              let a := to_apdu ah payload in
              if a_type a =? 0 then
                Some (match Npci.sadr h with
                      | Some (Npci.RStation snet smac) => (Some snet, smac)
                      | _ => (None, f_src f) end, a)
              else None
          | Err _ => None
          end
      | _, _ => None
      end
  | Err _ => None
  end.

(* ---------- canonical outputs for the correspondence ---------- *)
Definition canon_apdu (a : apdu) : list Z :=
  [a_type a; a_invoke a;
   (if (a_type a =? 6) || (a_type a =? 7) then a_reason a
    else if a_type a =? 5 then nth 1 (a_data a) (-1) else 0);
   (if a_type a =? 5 then nth 3 (a_data a) (-1) else 0);
   SsmWorld.b3 (a_seg a); SsmWorld.b3 (a_mor a); (if a_type a =? 3 then a_seq a else if a_type a =? 4 then a_seq a else -1);
   (if a_type a =? 5 then 0 else zlen (a_data a))].
Definition canon_dout (o : dout) : list Z :=
  match o with
  | DFrame dst rt a =>
      [1; dst] ++ (match rt with Some (n, mm) => [Z.of_N n; mac_code mm] | None => [-1; -1] end) ++ canon_apdu a
  | DWhoIsRouter n => [2; Z.of_N n]
  end.
Definition canon_douts (l : list dout) : list Z := zlen l :: flat_map canon_dout l.
Definition canon_state (st : dev_state) : list Z :=
  [zlen (d_str st); zlen (filter armed (d_str st)); zlen (filter armed (d_gone st)); zb (d_lost st)].

(* one line per event: the frames it caused, then tables/timers after it *)
Fixpoint canon_run (st : dev_state) (evs : list event) : list Z :=
  match evs with
  | [] => []
  | ev :: r => let '(st1, o) := device_step st ev in canon_douts o ++ canon_state st1 ++ canon_run st1 r
  end.

(* a whole scenario: the events, then the clock runs until nothing is scheduled; canonical trace *)
Definition canon_scenario (c : SsmWorld.nodecfg) (dcc : Z) (evs : list event) (now_end : Z) : list Z :=
  let st0 := mkDev c [] [] 0 dcc RouterCache.empty [] false in
  let '(st1, _) := device_run st0 evs in
  let '(st2, o, _, live) := advance ADV_FUEL st1 now_end None in
  canon_run st0 evs ++ canon_douts o ++ canon_state st2 ++ [zb live].
