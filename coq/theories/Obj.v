(* Obj.v — C15: property reads and writes over the wire.  Executable model, no proofs.

   Mirrors (py34/bacpypes, with the three `fix:` commits of this property applied):
     constructeddata.py  ArrayOf.__getitem__/__setitem__/fix_length/__init__ (738-816),
                         Any.cast_out (1295-1368), Any.is_application_class_null (1370)
     object.py           Property.ReadProperty (179-202), Property.WriteProperty (204-369),
                         Object.ReadProperty/WriteProperty/get_datatype (600-632)
     service/object.py   do_ReadPropertyRequest, do_WritePropertyRequest, read_property_to_any,
                         read_property_to_result_element, do_ReadPropertyMultipleRequest
     app.py              Application.indication (366-403) + appservice.py 1393-1451: error mapping

   Values are abstract: an atomic value is (application tag number, code) where the code is the
   number itself for Unsigned (tag 2) and otherwise an index the harness assigns to the encoded
   tag octets; a Sequence/Choice instance is (class id, code of its encoded tag group).  The
   decoding of constructed types (Sequence.decode/Choice.decode, property C03) is not modelled
   here: its outcome on the request's tag list is part of the abstract request (fields w_one,
   w_many), computed by the harness with a stand-alone Any.cast_out call. *)
From Bac Require Import Base PyRt.
Open Scope Z_scope.

(* ---------- exceptions: Base.err + the two classes specific to this layer *)
Inductive exn : Set :=
| ExecErr (cls code : Z)      (* errors.ExecutionError(errorClass, errorCode) *)
| PropErr                     (* object.PropertyError *)
| Py (e : err).               (* any other exception class *)

Inductive xres (A : Type) : Type := XOk (a : A) | XErr (x : exn).
Arguments XOk {A} a.
Arguments XErr {A} x.
Definition xbind {A B} (r : xres A) (f : A -> xres B) : xres B :=
  match r with XOk a => f a | XErr x => XErr x end.
Notation "'xdo' x <- r ; k" := (xbind r (fun x => k))
  (at level 200, x pattern, r at level 100, k at level 200, right associativity).
Definition lift {A} (r : res A) : xres A :=
  match r with Ok a => XOk a | Err e => XErr (Py e) end.

(* basetypes.ErrorClass / ErrorCode / PropertyIdentifier numbers used below *)
Definition EC_DEVICE := 0.   Definition EC_OBJECT := 1.   Definition EC_PROPERTY := 2.
Definition E_OPERATIONAL_PROBLEM := 25.  Definition E_UNKNOWN_OBJECT := 31.
Definition E_UNKNOWN_PROPERTY := 32.     Definition E_VALUE_OUT_OF_RANGE := 37.
Definition E_WRITE_ACCESS_DENIED := 40.  Definition E_INVALID_ARRAY_INDEX := 42.
Definition E_NOT_AN_ARRAY := 50.
Definition P_ALL := 8.  Definition P_OPTIONAL := 80.  Definition P_REQUIRED := 105.
Definition P_PROPERTY_LIST := 371.
Definition WILDCARD_DEVICE := 8 * 4194304 + 4194303.      (* ('device', 4194303) *)

(* ---------- values *)
Inductive elem : Set :=
| EAtom (k c : Z)             (* python primitive of an atomic class with application tag k *)
| EObj (k c : Z)              (* instance of an Atomic class (what an AnyAtomic property holds) *)
| ECons (cid c : Z)           (* Sequence/Choice instance of class cid encoding to the group coded c *)
| EBad (cid : Z) (e : err).   (* instance of class cid whose encode() raises e *)

Inductive val : Set :=
| VNone
| VS (e : elem)
| VPyList (l : list elem)             (* plain python list *)
| VArr (n : Z) (l : list elem)        (* ArrayOf instance, self.value = [n] + l *)
| VLst (l : list elem).               (* ListOf instance *)

(* ---------- datatype descriptors *)
Inductive sdt : Set :=
| SAtom (k lo : Z) (hi : option Z)    (* Atomic subclass: application tag, Unsigned limits *)
| SAny                                (* AnyAtomic *)
| SCons (cid : Z).                    (* Sequence / Choice subclass *)
Inductive dtype : Set :=
| DS (s : sdt)
| DArray (s : sdt) (fixed : option Z) (proto : elem)   (* proto: what fix_length appends *)
| DList (s : sdt).
Record pdesc : Set := mkP { p_id : Z; p_dt : dtype; p_opt : bool; p_mut : bool }.

Definition object := list (pdesc * val).         (* _properties / _values, in dict order *)
Record device : Set := mkDev { d_self : Z; d_objs : list (Z * object) }.

Definition is_array (dt : dtype) : bool := match dt with DArray _ _ _ => true | _ => false end.
Definition is_atomic_sdt (s : sdt) : bool := match s with SCons _ => false | _ => true end.

Fixpoint find_obj (l : list (Z * object)) (oid : Z) : option object :=
  match l with [] => None | (k, o) :: r => if k =? oid then Some o else find_obj r oid end.
Fixpoint find_prop (o : object) (pid : Z) : option (pdesc * val) :=
  match o with [] => None | (p, v) :: r => if p_id p =? pid then Some (p, v) else find_prop r pid end.
Fixpoint set_prop (o : object) (pid : Z) (nv : val) : object :=
  match o with
  | [] => []
  | (p, v) :: r => if p_id p =? pid then (p, nv) :: r else (p, v) :: set_prop r pid nv
  end.
Fixpoint set_obj (l : list (Z * object)) (oid : Z) (no : object) : list (Z * object) :=
  match l with
  | [] => []
  | (k, o) :: r => if k =? oid then (k, no) :: r else (k, o) :: set_obj r oid no
  end.

(* an object from its class table (gen/ObjTables.v) and the positions that hold a value *)
Fixpoint lookup_val (vs : list (Z * val)) (i : Z) : val :=
  match vs with [] => VNone | (k, v) :: r => if k =? i then v else lookup_val r i end.
Fixpoint mk_object_from (i : Z) (t : list pdesc) (vs : list (Z * val)) : object :=
  match t with [] => [] | p :: r => (p, lookup_val vs i) :: mk_object_from (i + 1) r vs end.
Definition mk_object (t : list pdesc) (vs : list (Z * val)) : object := mk_object_from 0 t vs.

(* ---------- ArrayOf *)
Definition zlength {A} (l : list A) : Z := Z.of_nat (length l).

(* value[item] for the things a property can hold *)
Definition index (v : val) (i : Z) : res elem :=
  match v with
  | VArr n l =>                                   (* ArrayOf.__getitem__ *)
      if (i <? 0) || (n <? i) then Err IndexErr
      else if i =? 0 then Ok (EAtom 2 n)
      else py_index l (i - 1)
  | VPyList l => py_index l i
  | VLst l => py_index l i                        (* ListOf.__getitem__ *)
  | VS _ => Err TypeErr
  | VNone => Err TypeErr
  end.

Fixpoint repeat_elem (e : elem) (n : nat) : list elem :=
  match n with O => [] | S m => e :: repeat_elem e m end.

(* ArrayOf.fix_length on the element part l (len(self.value) = length l + 1) *)
Definition fix_length (proto : elem) (l : list elem) (m : Z) : list elem :=
  if m <? zlength l then firstn (Z.to_nat m) l
  else l ++ repeat_elem proto (Z.to_nat (m - zlength l)).

Fixpoint replace_nth (l : list elem) (n : nat) (x : elem) : list elem :=
  match l, n with
  | [], _ => []
  | _ :: r, O => x :: r
  | a :: r, S m => a :: replace_nth r m x
  end.
Definition py_set (l : list elem) (i : Z) (x : elem) : res (list elem) :=
  let n := zlength l in
  let j := if i <? 0 then i + n else i in
  if (j <? 0) || (n <=? j) then Err IndexErr else Ok (replace_nth l (Z.to_nat j) x).

(* arry[arrayIndex] = value *)
Definition arr_set (fixed : option Z) (proto : elem) (v : val) (i : Z) (x : elem) : res val :=
  match v with
  | VArr n l =>                                   (* ArrayOf.__setitem__ *)
      if (i <? 0) || (n <? i) then Err IndexErr
      else if i =? 0 then
        match x with
        | EAtom 2 m =>
            match fixed with
            | Some _ => if negb (m =? n) then Err TypeErr else Ok v
            | None => Ok (VArr m (fix_length proto l m))
            end
        | _ => Err TypeErr
        end
      else match py_set l (i - 1) x with Ok l' => Ok (VArr n l') | Err e => Err e end
  | VPyList l => match py_set l i x with Ok l' => Ok (VPyList l') | Err e => Err e end
  | _ => Err TypeErr                              (* no __setitem__ *)
  end.

(* ---------- validity checks of Property.WriteProperty *)
(* cls.is_valid(value) for the atomic classes; `()` (what cast_out(Null) gives) is valid for none *)
Definition is_valid (s : sdt) (e : elem) : bool :=
  match s, e with
  | SAtom k lo hi, EAtom k' c =>
      (k' =? k) && negb (k =? 0) &&
      (if k =? 2 then (lo <=? c) && match hi with Some h => c <=? h | None => true end else true)
  | SAny, EObj _ _ => true
  | _, _ => false
  end.
(* subtype.is_valid(item) if the subtype is atomic, else isinstance(item, subtype) *)
Definition elem_ok (s : sdt) (e : elem) : bool :=
  match s with
  | SCons cid => match e with ECons c' _ => c' =? cid | EBad c' _ => c' =? cid | _ => false end
  | _ => is_valid s e
  end.

Definition reject_datatype {A} : xres A := XErr (Py InvalidParameterDatatype).
Definition check_fixed (fixed : option Z) (l : list elem) : bool :=
  match fixed with Some f => zlength l =? f | None => true end.

(* first half of Property.WriteProperty (direct=False): the value that will be stored / assigned *)
Definition validate (p : pdesc) (idx : option Z) (nv : val) : xres val :=
  if negb (p_mut p) then XErr (ExecErr EC_PROPERTY E_WRITE_ACCESS_DENIED)
  else if match idx with Some i => i =? 0 | None => false end then
    match nv with
    | VS e => if is_valid (SAtom 2 0 None) e then XOk nv else reject_datatype
    | _ => reject_datatype
    end
  else match p_dt p with
  | DS (SCons cid) =>
      match nv with VS e => if elem_ok (SCons cid) e then XOk nv else reject_datatype | _ => reject_datatype end
  | DS s =>
      match nv with VS e => if is_valid s e then XOk nv else reject_datatype | _ => reject_datatype end
  | DArray s fixed _ =>
      match idx with
      | Some _ =>
          match nv with VS e => if elem_ok s e then XOk nv else reject_datatype | _ => reject_datatype end
      | None =>
          match nv with
          | VPyList l =>
              if forallb (elem_ok s) l then
                if check_fixed fixed l then XOk (VArr (zlength l) l) else XErr (Py ValueErr)
              else reject_datatype
          | VArr _ _ => XOk nv
          | _ => reject_datatype
          end
      end
  | DList s =>
      match idx with
      | Some _ => XErr (ExecErr EC_PROPERTY E_NOT_AN_ARRAY)
      | None =>
          match nv with
          | VPyList l => if forallb (elem_ok s) l then XOk (VLst l) else reject_datatype
          | _ => reject_datatype
          end
      end
  end.

(* Property.WriteProperty: new content of obj._values[identifier] *)
Definition prop_write (p : pdesc) (cur : val) (idx : option Z) (nv : val) : xres val :=
  xdo nv' <- validate p idx nv;
  match idx with
  | None => XOk nv'
  | Some i =>
      match p_dt p with
      | DArray s fixed proto =>
          match cur with
          | VNone => XErr (Py RuntimeErr)
          | _ =>
              match nv' with
              | VS x =>
                  match arr_set fixed proto cur i x with
                  | Ok v' => XOk v'
                  | Err IndexErr => XErr (ExecErr EC_PROPERTY E_INVALID_ARRAY_INDEX)
                  | Err TypeErr => XErr (ExecErr EC_PROPERTY E_VALUE_OUT_OF_RANGE)
                  | Err e => XErr (Py e)
                  end
              | _ => XErr (Py OtherErr)
              end
          end
      | _ => XErr (ExecErr EC_PROPERTY E_NOT_AN_ARRAY)
      end
  end.

(* Property.ReadProperty *)
Definition prop_read (p : pdesc) (v : val) (idx : option Z) : xres val :=
  match idx with
  | None => XOk v
  | Some i =>
      if negb (is_array (p_dt p)) then XErr (ExecErr EC_PROPERTY E_NOT_AN_ARRAY)
      else match v with
           | VNone => XOk VNone
           | _ => match index v i with
                  | Ok e => XOk (VS e)
                  | Err IndexErr => XErr (ExecErr EC_PROPERTY E_INVALID_ARRAY_INDEX)
                  | Err e => XErr (Py e)
                  end
           end
  end.

(* Object.ReadProperty (PropertyError when the class has no such property) *)
Definition obj_read (o : object) (pid : Z) (idx : option Z) : xres (pdesc * val) :=
  match find_prop o pid with
  | None => XErr PropErr
  | Some (p, v) => xdo r <- prop_read p v idx; XOk (p, r)
  end.

(* ---------- encoding of a value that is about to be sent (Any.cast_in) *)
Inductive item : Set := IA (k c : Z) | IC (cid c : Z).

(* ArrayOf/ListOf.encode for one element; also klass(value) + encode for a scalar *)
Definition enc_elem (s : sdt) (e : elem) : res (list item) :=
  match s, e with
  | SAtom k _ _, EAtom k' c => if k' =? k then Ok [IA k c] else Err TypeErr
  | SAny, EObj k c => Ok [IA k c]
  | SCons cid, ECons c' c => if c' =? cid then Ok [IC cid c] else Err TypeErr
  | SCons cid, EBad c' e => if c' =? cid then Err e else Err TypeErr
  | _, _ => Err TypeErr
  end.
Fixpoint enc_elems (s : sdt) (l : list elem) : res (list item) :=
  match l with
  | [] => Ok []
  | e :: r => do a <- enc_elem s e; do b <- enc_elems s r; Ok (a ++ b)
  end.

(* "change atomic values into something encodeable" + cast_in: common to do_ReadPropertyRequest
   and read_property_to_any; r is what Property.ReadProperty returned (not None) *)
Definition to_any (dt : dtype) (idx : option Z) (r : val) : res (list item) :=
  match dt with
  | DS s => match r with VS e => enc_elem s e | _ => Err TypeErr end
  | DList s =>
      match r with
      | VPyList l => match idx with None => enc_elems s l | Some _ => Err TypeErr end
      | VLst l => enc_elems s l
      | _ => Err TypeErr
      end
  | DArray s fixed _ =>
      match idx with
      | None =>
          match r with
          | VPyList l => if check_fixed fixed l then enc_elems s l else Err ValueErr
          | VArr _ l => enc_elems s l
          | _ => Err TypeErr
          end
      | Some i =>
          match r with
          | VS e => if i =? 0 then enc_elem (SAtom 2 0 None) e else enc_elem s e
          | _ => Err TypeErr
          end
      end
  end.

(* the part of ReadProperty both services share: datatype, value, None check, encoding *)
Definition read_any (o : object) (pid : Z) (idx : option Z) : xres (list item) :=
  xdo pr <- obj_read o pid idx;
  match snd pr with
  | VNone => XErr PropErr
  | r => lift (to_any (p_dt (fst pr)) idx r)
  end.

Definition catch_prop {A} (r : xres A) : xres A :=
  match r with XErr PropErr => XErr (ExecErr EC_PROPERTY E_UNKNOWN_PROPERTY) | _ => r end.

Definition map_oid (d : device) (oid : Z) : Z := if oid =? WILDCARD_DEVICE then d_self d else oid.

(* do_ReadPropertyRequest: (object identifier of the ack, encoded value) *)
Definition do_read (d : device) (oid pid : Z) (idx : option Z) : xres (Z * list item) :=
  let oid' := map_oid d oid in
  match find_obj (d_objs d) oid' with
  | None => XErr (ExecErr EC_OBJECT E_UNKNOWN_OBJECT)
  | Some o => catch_prop (xdo its <- read_any o pid idx; XOk (oid', its))
  end.

(* ---------- the request's property value (an Any) and Any.cast_out *)
Inductive wtag : Set := WApp (k c : Z) | WOther.
Record wire : Set := mkW {
  w_tags : list wtag;             (* one entry per tag; application tags 0..12 carry kind and code *)
  w_one : res elem;               (* cast_out(<the property's Sequence/Choice class>) on these tags *)
  w_many : res (list elem) }.     (* cast_out(<ArrayOf/ListOf that class>) on these tags *)

Definition wire_is_null (w : wire) : bool :=
  match w_tags w with [WApp 0 _] => true | _ => false end.

Definition cast_atom (k : Z) (w : wire) : res elem :=
  match w_tags w with
  | [] => Err DecodingError
  | [WApp k' c] => if k' =? k then Ok (EAtom k c) else Err InvalidTag
  | [WOther] => Err InvalidTag
  | _ => Err DecodingError
  end.
Definition cast_any (w : wire) : res elem :=
  match w_tags w with
  | [] => Err DecodingError
  | [WApp k c] => Ok (EObj k c)
  | [WOther] => Err ValueErr
  | _ => Err DecodingError
  end.
Fixpoint dec_atoms (k : Z) (ts : list wtag) : res (list elem) :=
  match ts with
  | [] => Ok []
  | WApp k' c :: r => if k' =? k then do l <- dec_atoms k r; Ok (EAtom k c :: l) else Err InvalidTag
  | WOther :: _ => Err InvalidTag
  end.
Definition cast_scalar (s : sdt) (w : wire) : res elem :=
  match s with SAtom k _ _ => cast_atom k w | SAny => cast_any w | SCons _ => w_one w end.
Definition cast_many (s : sdt) (fixed : option Z) (w : wire) : res (list elem) :=
  match s with
  | SAtom k _ _ =>
      do l <- dec_atoms k (w_tags w);
      if check_fixed fixed l then Ok l else Err ValueErr
  | SCons _ => w_many w
  | SAny => Err OtherErr          (* no registered property is an array/list of AnyAtomic *)
  end.
Definition cast_out (dt : dtype) (w : wire) : res val :=
  match dt with
  | DS s => do e <- cast_scalar s w; Ok (VS e)
  | DArray s fixed _ => do l <- cast_many s fixed w; Ok (VPyList l)
  | DList s => do l <- cast_many s None w; Ok (VPyList l)
  end.

(* the cast do_WritePropertyRequest selects: Null special case, array parts, else the datatype *)
Definition cast_for (dt : dtype) (idx : option Z) (w : wire) : res val :=
  if wire_is_null w then cast_out (DS (SAtom 0 0 None)) w
  else match dt, idx with
       | DArray s _ _, Some i =>
           if i =? 0 then do e <- cast_atom 2 w; Ok (VS e)
           else do e <- cast_scalar s w; Ok (VS e)
       | dt, _ => cast_out dt w
       end.

(* do_WritePropertyRequest on one object: its new content *)
Definition write_obj (o : object) (pid : Z) (idx : option Z) (w : wire) : xres object :=
  xdo pr <- obj_read o pid idx;
  let p := fst pr in
  match snd pr with
  | VNone => XErr PropErr
  | _ =>
      xdo value <- lift (cast_for (p_dt p) idx w);
      match find_prop o pid with
      | None => XErr PropErr
      | Some (_, cur) => xdo nv <- prop_write p cur idx value; XOk (set_prop o pid nv)
      end
  end.

Definition do_write (d : device) (oid pid : Z) (idx : option Z) (w : wire) : xres device :=
  match find_obj (d_objs d) oid with
  | None => XErr (ExecErr EC_OBJECT E_UNKNOWN_OBJECT)
  | Some o =>
      catch_prop (xdo o' <- write_obj o pid idx w;
                  XOk (mkDev (d_self d) (set_obj (d_objs d) oid o')))
  end.

(* ---------- ReadPropertyMultiple *)
Inductive rresult : Set := RVal (its : list item) | RErr (cls code : Z).
Definition relem : Set := (Z * option Z * rresult)%type.

(* read_property_to_result_element *)
Definition rp_element (o : option object) (pid : Z) (idx : option Z) : xres relem :=
  match o with
  | None => XOk (pid, idx, RErr EC_OBJECT E_UNKNOWN_OBJECT)
  | Some ob =>
      match read_any ob pid idx with
      | XOk its => XOk (pid, idx, RVal its)
      | XErr PropErr => XOk (pid, idx, RErr EC_PROPERTY E_UNKNOWN_PROPERTY)
      | XErr (ExecErr c k) => XOk (pid, idx, RErr c k)
      | XErr (Py e) => XErr (Py e)
      end
  end.

Definition is_special (pid : Z) : bool := (pid =? P_ALL) || (pid =? P_REQUIRED) || (pid =? P_OPTIONAL).
Definition selected (sel : Z) (p : pdesc) : bool :=
  negb (p_id p =? P_PROPERTY_LIST) &&
  (if sel =? P_ALL then true else if sel =? P_REQUIRED then negb (p_opt p) else p_opt p).
Definition is_unknown_property (r : relem) : bool :=
  match r with (_, _, RErr _ k) => k =? E_UNKNOWN_PROPERTY | _ => false end.

(* the `for propId, prop in obj._properties.items()` loop *)
Fixpoint rpm_expand (ob : object) (sel : Z) (idx : option Z) (ps : object) : xres (list relem) :=
  match ps with
  | [] => XOk []
  | (p, _) :: r =>
      if selected sel p then
        xdo e <- rp_element (Some ob) (p_id p) idx;
        xdo rest <- rpm_expand ob sel idx r;
        XOk (if is_unknown_property e then rest else e :: rest)
      else rpm_expand ob sel idx r
  end.

Definition rpm_ref (o : option object) (ref : Z * option Z) : xres (list relem) :=
  let (pid, idx) := ref in
  if is_special pid then
    match o with
    | None => XOk [(pid, idx, RErr EC_OBJECT E_UNKNOWN_OBJECT)]
    | Some ob => rpm_expand ob pid idx ob
    end
  else xdo e <- rp_element o pid idx; XOk [e].

Fixpoint rpm_refs (o : option object) (refs : list (Z * option Z)) : xres (list relem) :=
  match refs with
  | [] => XOk []
  | r :: rs => xdo a <- rpm_ref o r; xdo b <- rpm_refs o rs; XOk (a ++ b)
  end.

Fixpoint do_rpm (d : device) (specs : list (Z * list (Z * option Z))) : xres (list (Z * list relem)) :=
  match specs with
  | [] => XOk []
  | (oid, refs) :: r =>
      let oid' := map_oid d oid in
      xdo a <- rpm_refs (find_obj (d_objs d) oid') refs;
      xdo b <- do_rpm d r;
      XOk ((oid', a) :: b)
  end.

(* ---------- replies: Application.indication / ApplicationServiceAccessPoint.indication *)
Inductive reply : Set :=
| RAck
| RValue (oid pid : Z) (idx : option Z) (its : list item)
| RRpm (l : list (Z * list relem))
| RError (cls code : Z)
| RReject (reason : Z)
| RAbort (reason : Z).

Definition map_exn (x : exn) : reply :=
  match x with
  | ExecErr c k => RError c k
  | PropErr => RError EC_DEVICE E_OPERATIONAL_PROBLEM     (* an AttributeError outside the try blocks *)
  | Py InvalidTag => RReject 4
  | Py MissingRequired => RReject 5
  | Py InvalidParameterDatatype => RReject 3
  | Py TooManyArguments => RReject 7
  | Py (RejectExc r) => RReject (Z.of_N r)
  | Py (AbortExc r) => RAbort (Z.of_N r)
  | Py _ => RError EC_DEVICE E_OPERATIONAL_PROBLEM
  end.

Inductive op : Set :=
| ORead (oid pid : Z) (idx : option Z)
| OWrite (oid pid : Z) (idx : option Z) (prio : option Z) (w : wire)   (* Property.WriteProperty ignores priority *)
| ORpm (specs : list (Z * list (Z * option Z))).

Definition step (d : device) (o : op) : reply * device :=
  match o with
  | ORead oid pid idx =>
      match do_read d oid pid idx with
      | XOk (oid', its) => (RValue oid' pid idx its, d)
      | XErr x => (map_exn x, d)
      end
  | OWrite oid pid idx _ w =>
      match do_write d oid pid idx w with
      | XOk d' => (RAck, d')
      | XErr x => (map_exn x, d)
      end
  | ORpm specs =>
      match do_rpm d specs with
      | XOk l => (RRpm l, d)
      | XErr x => (map_exn x, d)
      end
  end.

(* ---------- canonical output for the correspondence check *)
Definition c_idx (i : option Z) : Z := match i with Some n => n | None => -1 end.
Definition c_item (i : item) : list Z := match i with IA k c => [0; k; c] | IC cid c => [1; cid; c] end.
Definition c_items (l : list item) : list Z := zlength l :: flat_map c_item l.
Definition c_elem (e : elem) : list Z :=
  match e with
  | EAtom k c => [0; k; c] | EObj k c => [1; k; c] | ECons cid c => [2; cid; c]
  | EBad cid e => [3; cid; err_code e]
  end.
Definition c_elems (l : list elem) : list Z := zlength l :: flat_map c_elem l.
Definition c_val (v : val) : list Z :=
  match v with
  | VNone => [0]
  | VS e => 1 :: c_elem e
  | VPyList l => 2 :: c_elems l
  | VArr n l => 3 :: n :: c_elems l
  | VLst l => 4 :: c_elems l
  end.
Definition c_relem (r : relem) : list Z :=
  match r with
  | (pid, idx, RVal its) => pid :: c_idx idx :: 0 :: c_items its
  | (pid, idx, RErr c k) => [pid; c_idx idx; 1; c; k]
  end.
Definition c_reply (r : reply) : list Z :=
  match r with
  | RAck => [0]
  | RValue oid pid idx its => 1 :: oid :: pid :: c_idx idx :: c_items its
  | RError c k => [2; c; k]
  | RReject r => [3; r]
  | RAbort r => [4; r]
  | RRpm l => 5 :: zlength l :: flat_map (fun '(oid, es) => oid :: zlength es :: flat_map c_relem es) l
  end.
Definition has_value (pv : pdesc * val) : bool := match snd pv with VNone => false | _ => true end.
Definition c_object (o : object) : list Z :=
  let some := filter has_value o in
  zlength some :: flat_map (fun '(p, v) => p_id p :: c_val v) some.
Definition c_device (d : device) : list Z :=
  flat_map (fun '(oid, o) => oid :: c_object o) (d_objs d).

(* ---------- device life cycle: Application.add_object / delete_object (app.py 263-322) keep the local device's
   objectList (ArrayOf.append 778-790, ArrayOf.index 833-840, ArrayOf.__delitem__ 818-828).  These are local events,
   not requests; e is the element (the object identifier as stored in objectList). *)
Definition P_OBJECT_LIST := 76.
Definition elem_eqb (a b : elem) : bool :=
  match a, b with EAtom k c, EAtom k' c' => (k =? k') && (c =? c') | _, _ => false end.
Definition truthy (v : val) : bool :=             (* `if self.localDevice.objectList:` -> __len__ -> value[0] *)
  match v with VNone => false | VArr n _ => negb (n =? 0) | VPyList l | VLst l => negb (zlength l =? 0) | VS _ => true end.
Definition arr_append (v : val) (x : elem) : res val :=
  match v with
  | VArr _ l => Ok (VArr (zlength l + 1) (l ++ [x]))     (* value.append(x); value[0] = len(value) - 1 *)
  | VPyList l => Ok (VPyList (l ++ [x]))
  | _ => Err AttrErr
  end.
(* for i in range(1, value[0] + 1): if value == self.value[i]: return i *)
Fixpoint find_idx (x : elem) (l : list elem) (fuel : nat) : res nat :=
  match fuel with
  | O => Err ValueErr
  | S f => match l with
           | [] => Err IndexErr
           | y :: r => if elem_eqb x y then Ok O else do i <- find_idx x r f; Ok (S i)
           end
  end.
Fixpoint remove_nth (l : list elem) (n : nat) : list elem :=
  match l, n with [] , _ => [] | _ :: r, O => r | a :: r, S m => a :: remove_nth r m end.
Definition arr_remove (v : val) (x : elem) : res val :=
  match v with
  | VArr n l => do i <- find_idx x l (Z.to_nat n); Ok (VArr (n - 1) (remove_nth l i))   (* del value[i]; value[0] -= 1 *)
  | _ => Err AttrErr
  end.
Fixpoint del_obj (l : list (Z * object)) (oid : Z) : list (Z * object) :=
  match l with [] => [] | (k, o) :: r => if k =? oid then r else (k, o) :: del_obj r oid end.

Definition update_object_list (d : device) (objs : list (Z * object)) (f : val -> res val) : res device :=
  match find_obj objs (d_self d) with
  | None => Ok (mkDev (d_self d) objs)
  | Some dev =>
      match find_prop dev P_OBJECT_LIST with
      | None => Err AttrErr
      | Some (_, v) =>
          if truthy v then do v' <- f v; Ok (mkDev (d_self d) (set_obj objs (d_self d) (set_prop dev P_OBJECT_LIST v')))
          else Ok (mkDev (d_self d) objs)
      end
  end.
Definition dev_add (d : device) (oid : Z) (ob : object) (e : elem) : res device :=
  match find_obj (d_objs d) oid with
  | Some _ => Err RuntimeErr                      (* "already an object with identifier" *)
  | None => update_object_list d (d_objs d ++ [(oid, ob)]) (fun v => arr_append v e)
  end.
Definition dev_del (d : device) (oid : Z) (e : elem) : res device :=
  match find_obj (d_objs d) oid with
  | None => Err KeyErr
  | Some _ => update_object_list d (del_obj (d_objs d) oid) (fun v => arr_remove v e)
  end.

(* ---------- the array index as it travels.  propertyArrayIndex is an OPTIONAL context-tagged Unsigned
   (apdu.py ReadPropertyRequest / WritePropertyRequest: context 2; PropertyReference: context 1).  The element is either
   absent from the request (None) or a tag with data octets; Unsigned.decode (primitivedata.py 671-683) refuses empty
   data (InvalidTag -> Reject 4, raised while the request is decoded, before any service code runs) and otherwise folds
   ALL the octets big-endian, whatever their number and value: no octet string stands for "no index".
   Unsigned.encode (660-669) is struct.pack('>L') (struct.error outside 0..2^32-1) without its leading zero octets. *)
Fixpoint be_value (acc : Z) (bs : list Z) : Z :=
  match bs with [] => acc | b :: r => be_value (acc * 256 + b) r end.
Definition wire_index (w : option (list Z)) : res (option Z) :=
  match w with
  | None => Ok None
  | Some [] => Err InvalidTag
  | Some bs => Ok (Some (be_value 0 bs))
  end.
Fixpoint strip_zeros (bs : list Z) : list Z :=
  match bs with
  | b :: ((_ :: _) as r) => if b =? 0 then strip_zeros r else bs
  | _ => bs
  end.
Definition enc_index (i : Z) : res (list Z) :=
  if (i <? 0) || (4294967295 <? i) then Err StructErr
  else Ok (strip_zeros [(i / 16777216) mod 256; (i / 65536) mod 256; (i / 256) mod 256; i mod 256]).

(* requests with the index as octets *)
Inductive wop : Set :=
| WRead (oid pid : Z) (idx : option (list Z))
| WWrite (oid pid : Z) (idx : option (list Z)) (prio : option Z) (w : wire)
| WRpm (specs : list (Z * list (Z * option (list Z)))).
Fixpoint wire_refs (l : list (Z * option (list Z))) : res (list (Z * option Z)) :=
  match l with
  | [] => Ok []
  | (pid, wi) :: r => do i <- wire_index wi; do rest <- wire_refs r; Ok ((pid, i) :: rest)
  end.
Fixpoint wire_specs (l : list (Z * list (Z * option (list Z)))) : res (list (Z * list (Z * option Z))) :=
  match l with
  | [] => Ok []
  | (oid, refs) :: r => do a <- wire_refs refs; do rest <- wire_specs r; Ok ((oid, a) :: rest)
  end.
Definition op_of_wire (o : wop) : res op :=
  match o with
  | WRead oid pid wi => do i <- wire_index wi; Ok (ORead oid pid i)
  | WWrite oid pid wi prio w => do i <- wire_index wi; Ok (OWrite oid pid i prio w)
  | WRpm specs => do s <- wire_specs specs; Ok (ORpm s)
  end.
(* a request that does not decode is answered by the stack (map_exn), the service is never called *)
Definition step_wire (d : device) (o : wop) : reply * device :=
  match op_of_wire o with
  | Ok o' => step d o'
  | Err e => (map_exn (Py e), d)
  end.

Inductive event : Set :=
| EReq (o : op)
| EWire (o : wop)
| EAdd (oid : Z) (ob : object) (e : elem)
| EDel (oid : Z) (e : elem).

(* the final state enters the comparison as a digest of its canonical list (keeps the case files small) *)
Definition digest (l : list Z) : Z :=
  fold_left (fun h x => (h * 1000003 + x + 11) mod 2305843009213693951) l 7.
Fixpoint run_full (d : device) (ops : list op) : list Z :=      (* same with the state in full: replays *)
  match ops with
  | [] => -7 :: c_device d
  | o :: r => let (rep, d') := step d o in c_reply rep ++ run_full d' r
  end.
Fixpoint run (d : device) (ops : list op) : list Z :=
  match ops with
  | [] => [-7; digest (c_device d)]
  | o :: r => let (rep, d') := step d o in c_reply rep ++ run d' r
  end.

Fixpoint run_ev (d : device) (evs : list event) : list Z :=
  match evs with
  | [] => [-7; digest (c_device d)]
  | EReq o :: r => let (rep, d') := step d o in c_reply rep ++ run_ev d' r
  | EWire o :: r => let (rep, d') := step_wire d o in c_reply rep ++ run_ev d' r
  | EAdd oid ob e :: r =>
      match dev_add d oid ob e with Ok d' => 6 :: run_ev d' r | Err x => [7; err_code x] end
  | EDel oid e :: r =>
      match dev_del d oid e with Ok d' => 6 :: run_ev d' r | Err x => [7; err_code x] end
  end.
