(* ArrayObj.v — model of the OBJECT the ArrayOf() factory of constructeddata.py produces (698-1003 in the
   pinned tree): the Python list `self.value` whose cell 0 holds the element count and whose cells 1..n
   hold the elements, and every method that reads or writes it:
     __init__ (742-756), fix_length (758-782), append (784-797), __len__, __getitem__ (802-807),
     __setitem__ (809-823), __delitem__ (825-835), __iter__ (837), encode (856-873), decode (875-910),
     encode_item (912-942), decode_item (944-969), and the ArrayOf branch of Any.cast_out (1322-1338:
     decode into a helper, "incomplete cast" on left-overs, return helper.value[1:]) / Any.cast_in.
   Codec.v's `TArrayOf` speaks about the element list only (VList vs); here the count cell is explicit, so
   "the count is not an element" is a statement and not a convention.  Indices and lengths are N (the
   callers pass propertyArrayIndex / len(); Python's negative indices are outside this model).
   index()/remove() compare with Python's == on the element objects and are not modelled.
   No proofs here (ArrayObjFacts.v). *)
From Bac Require Import Base.
From Bac Require Import Tag.
From Bac Require Import Schema.
From Bac Require Import Codec.
From Bac Require Import Prim.
Open Scope N_scope.

Inductive cell : Set :=
| CCount (n : N)        (* an int: the length *)
| CItem (v : val).      (* an element *)

Definition aval := list cell.          (* self.value *)

(* self.value[0] read as a number *)
Definition count_of (a : aval) : res N :=
  match a with
  | CCount n :: _ => Ok n
  | CItem _ :: _ => Err TypeErr
  | [] => Err IndexErr
  end.

(* self.value[0] = n *)
Definition set_count (n : N) (a : aval) : res aval :=
  match a with _ :: r => Ok (CCount n :: r) | [] => Err IndexErr end.

(* fix_length(new_length); dflt = subtype().value / the prototype *)
Definition fix_length (dflt : val) (new : N) (a : aval) : res aval :=
  let n1 := S (N.to_nat new) in
  set_count new (if (n1 <? length a)%nat then firstn n1 a                       (* del self.value[new_length + 1:] *)
                 else a ++ repeat (CItem dflt) (n1 - length a)).              (* extend / append *)

(* ArrayOf(...)(value) *)
Definition arr_new (fixed : option N) (dflt : val) (init : option (list val)) : res aval :=
  match init with
  | None => match fixed with None => Ok [CCount 0] | Some n => fix_length dflt n [CCount 0] end
  | Some vs =>
      match fixed with
      | Some n => if negb (lenN vs =? n) then Err ValueErr else Ok (CCount (lenN vs) :: map CItem vs)
      | None => Ok (CCount (lenN vs) :: map CItem vs)
      end
  end.

Definition arr_append (fixed : option N) (v : val) (a : aval) : res aval :=
  match fixed with
  | Some _ => Err TypeErr
  | None => let a' := a ++ [CItem v] in set_count (lenN a' - 1) a'
  end.

(* __getitem__: index 0 answers the count *)
Definition arr_get (i : N) (a : aval) : res cell :=
  do n <- count_of a;
  if n <? i then Err IndexErr
  else match nth_error a (N.to_nat i) with Some c => Ok c | None => Err IndexErr end.

(* __setitem__(0, n) *)
Definition arr_set_len (fixed : option N) (dflt : val) (new : N) (a : aval) : res aval :=
  do n <- count_of a;
  match fixed with
  | Some _ => if negb (new =? n) then Err TypeErr else Ok a
  | None => fix_length dflt new a
  end.

Fixpoint set_nth (i : nat) (c : cell) (a : aval) : res aval :=
  match a, i with
  | [], _ => Err IndexErr
  | _ :: r, O => Ok (c :: r)
  | x :: r, S j => do r' <- set_nth j c r; Ok (x :: r')
  end.

(* __setitem__(i, v) with v an element.  i = 0 is the length branch: fix_length(v) does arithmetic on v, a
   TypeError for anything that is not a number (a number there is OSetLen; the harness never sends an element
   to index 0) *)
Definition arr_set (i : N) (v : val) (a : aval) : res aval :=
  do n <- count_of a;
  if n <? i then Err IndexErr
  else if i =? 0 then Err TypeErr
  else set_nth (N.to_nat i) (CItem v) a.

Fixpoint del_nth (i : nat) (a : aval) : res aval :=
  match a, i with
  | [], _ => Err IndexErr
  | _ :: r, O => Ok r
  | x :: r, S j => do r' <- del_nth j r; Ok (x :: r')
  end.

(* __delitem__ *)
Definition arr_del (fixed : option N) (i : N) (a : aval) : res aval :=
  match fixed with
  | Some _ => Err TypeErr
  | None =>
      do n <- count_of a;
      if (i <? 1) || (n <? i) then Err IndexErr
      else do a' <- del_nth (N.to_nat i) a; set_count (n - 1) a'
  end.

(* self.value[1:] as elements: __iter__, encode, cast_out *)
Definition cells_items : list cell -> res (list val) :=
  fix go (l : list cell) : res (list val) :=
  match l with
  | [] => Ok []
  | CItem v :: r => do vs <- go r; Ok (v :: vs)
  | CCount _ :: _ => Err TypeErr                 (* an int where an element is expected *)
  end.
Definition arr_items (a : aval) : res (list val) := cells_items (tl a).

Definition arr_encode (s : ty) (a : aval) : res (list tag) :=
  do vs <- arr_items a; enc_list (encode s) vs.

(* decode: the loop of SequenceOf, the fixed-length check, then self.value = [len(new_value)] + new_value *)
Definition arr_decode (s : ty) (fixed : option N) (ts : list tag) : res (aval * list tag) :=
  do (vs, r) <- dec_loop (decode s) (S (length ts)) ts;
  match fixed with
  | Some n => if negb (lenN vs =? n) then Err ValueErr else Ok (CCount (lenN vs) :: map CItem vs, r)
  | None => Ok (CCount (lenN vs) :: map CItem vs, r)
  end.

(* Unsigned(n).encode(tag) / Unsigned(tag).value — the count on the wire (primitivedata.py, property C01) *)
Definition count_tag (n : N) : res tag :=
  do d <- enc_unsigned (Z.of_N n); Ok (mkTag 0 2 (lenN d) d).

(* encode_item: no range check against the count, only Python's list bounds *)
Definition arr_encode_item (s : ty) (i : N) (a : aval) : res (list tag) :=
  if i =? 0 then do n <- count_of a; do t <- count_tag n; Ok [t]
  else match nth_error a (N.to_nat i) with
       | Some (CItem v) => encode s v
       | Some (CCount _) => Err TypeErr
       | None => Err IndexErr
       end.

(* decode_item: the decoded item REPLACES self.value (the object is a one-item holder afterwards);
   taglist.Pop() of an empty list is None and Unsigned(None) / subtype(None) are the default values
   (except ObjectIdentifier(None), a TypeError) *)
Definition arr_decode_item (s : ty) (dflt : val) (i : N) (ts : list tag) : res (cell * list tag) :=
  if i =? 0 then
    match ts with
    | [] => Ok (CCount 0, [])
    | x :: rest => do _ <- atom_check 2 x; Ok (CCount (unbe (data x)), rest)
    end
  else
    match ts, is_atomic s with
    | [], true => match s with
                  | TAtom 12 => Err TypeErr          (* ObjectIdentifier(None): its variadic __init__ refuses None *)
                  | _ => Ok (CItem dflt, [])
                  end
    | _, _ => do (v, rest) <- decode s ts; Ok (CItem v, rest)
    end.

(* Any.cast_out(ArrayOf class): helper.decode(copy of the tags); left-overs are an "incomplete cast";
   the answer is helper.value[1:] — the elements WITHOUT the count cell *)
Definition arr_cast_out (s : ty) (fixed : option N) (ts : list tag) : res (list val) :=
  do (a, rest) <- arr_decode s fixed ts;
  match rest with
  | [] => arr_items a
  | _ => Err DecodingError
  end.

(* ---------------------------------------------------------------------------------------------- *)
(* histories of method calls on one object *)
Inductive aop : Set :=
| OAppend (v : val)
| OSetLen (n : N)
| OSet (i : N) (v : val)
| ODel (i : N)
| ODecode (ts : list tag).          (* decode(taglist) into this object; left-over tags are dropped *)

Definition arr_step (s : ty) (fixed : option N) (dflt : val) (op : aop) (a : aval) : res aval :=
  match op with
  | OAppend v => arr_append fixed v a
  | OSetLen n => arr_set_len fixed dflt n a
  | OSet i v => arr_set i v a
  | ODel i => arr_del fixed i a
  | ODecode ts => do (a', _) <- arr_decode s fixed ts; Ok a'
  end.

(* a refused call leaves the object as it was (every raise precedes the first write) *)
Fixpoint arr_run (s : ty) (fixed : option N) (dflt : val) (ops : list aop) (a : aval) : list Z * aval :=
  match ops with
  | [] => ([], a)
  | op :: r =>
      match arr_step s fixed dflt op a with
      | Ok a' => let (c, z) := arr_run s fixed dflt r a' in (0%Z :: c, z)
      | Err e => let (c, z) := arr_run s fixed dflt r a in (err_code e :: c, z)
      end
  end.

(* canonical outputs for the correspondence check *)
Definition canon_cell (s : ty) (c : cell) : list Z :=
  match c with
  | CCount n => [0%Z; zN n]
  | CItem v => 1%Z :: canon_res canon_tags (encode s v)
  end.
Definition canon_arr (s : ty) (a : aval) : list Z := zlen a :: flat_map (canon_cell s) a.

(* what an observer sees of the object after a history: the per-call outcomes, self.value, len(),
   __getitem__(i) and encode_item(i) for i = 0 .. len(self.value) (one past the end), encode(), and
   Any.cast_in(obj) followed by Any.cast_out(class) *)
Definition canon_items (s : ty) (vs : list val) : list Z :=
  zlen vs :: flat_map (fun v => canon_res canon_tags (encode s v)) vs.
Definition canon_hist (s : ty) (fixed : option N) (dflt : val) (init : option (list val)) (ops : list aop) : list Z :=
  match arr_new fixed dflt init with
  | Err e => [1%Z; err_code e]
  | Ok a0 =>
      let (codes, a) := arr_run s fixed dflt ops a0 in
      0%Z :: codes ++ canon_arr s a ++ canon_res (fun n => [zN n]) (count_of a)
      ++ flat_map (fun i => canon_res (canon_cell s) (arr_get (N.of_nat i) a)
                            ++ canon_res canon_tags (arr_encode_item s (N.of_nat i) a))
                  (seq 0 (S (length a)))
      ++ canon_res canon_tags (arr_encode s a)
      ++ canon_res (canon_items s) (do ts <- arr_encode s a; arr_cast_out s fixed ts)
  end.

(* decode_item: the item by its shape (leaves reduced to their tag number, as canon_val) + the tags left *)
Definition canon_cell_shape (c : cell) : list Z :=
  match c with CCount n => [0%Z; zN n] | CItem v => 1%Z :: canon_val v end.
Definition canon_item_dec (p : cell * list tag) : list Z := canon_cell_shape (fst p) ++ canon_tags (snd p).
