(* AddrIp.v — the IP helper values (mask, subnet, host, directed broadcast) of Addr.v *)
From Bac Require Import Base Addr.
