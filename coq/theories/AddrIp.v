(* AddrIp.v — the IP helper values of Addr.v (pdu.py:195-201) in arithmetic terms:
   mask = 2^32 - 2^k, subnet = ip - ip mod 2^k, host = ip mod 2^k,
   directed broadcast = subnet + 2^k - 1, where k = 32 - mask length. *)
From Bac Require Import Base Addr.
From Coq Require Import ZifyBool ZifyN ZifyNat.
Open Scope Z_scope.

Definition mask_k (k : Z) : Z := Z.land (Z.shiftl M32 k) M32.

Lemma M32_ones : M32 = Z.ones 32.
Proof. reflexivity. Qed.

Lemma mask_bits k i : 0 <= k <= 32 -> 0 <= i -> Z.testbit (mask_k k) i = (k <=? i) && (i <? 32).
Proof.
  intros Hk Hi. unfold mask_k. rewrite Z.land_spec, (Z.shiftl_spec _ _ _ Hi), M32_ones.
  rewrite !Z.testbit_ones by lia.
  destruct (k <=? i) eqn:E1, (i <? 32) eqn:E2, (0 <=? i - k) eqn:E3, (i - k <? 32) eqn:E4, (0 <=? i) eqn:E5;
    try reflexivity; lia.
Qed.

Lemma high_bits ipz i : 0 <= ipz < 2 ^ 32 -> 32 <= i -> Z.testbit ipz i = false.
Proof.
  intros H Hi. rewrite <- (Z.mod_small ipz (2 ^ 32)) by exact H.
  rewrite <- Z.land_ones by lia. rewrite Z.land_spec, Z.ones_spec_high by lia. apply andb_false_r.
Qed.

Lemma subnet_bits_eq ipz k : 0 <= ipz < 2 ^ 32 -> 0 <= k <= 32 ->
  Z.land ipz (mask_k k) = Z.shiftl (Z.shiftr ipz k) k.
Proof.
  intros H Hk. apply Z.bits_inj'. intros i Hi.
  rewrite Z.land_spec, (mask_bits k i Hk Hi), (Z.shiftl_spec _ _ _ Hi).
  destruct (k <=? i) eqn:E1.
  - rewrite Z.shiftr_spec by lia. replace (i - k + k) with i by lia.
    destruct (i <? 32) eqn:E2; cbn [andb]; [apply andb_true_r|].
    rewrite andb_false_r. symmetry. apply (high_bits ipz i H). lia.
  - cbn [andb]. rewrite andb_false_r. symmetry. apply Z.testbit_neg_r. lia.
Qed.

Lemma subnet_arith ipz k : 0 <= ipz < 2 ^ 32 -> 0 <= k <= 32 ->
  Z.land ipz (mask_k k) = ipz / 2 ^ k * 2 ^ k.
Proof.
  intros H Hk. rewrite (subnet_bits_eq ipz k H Hk), Z.shiftl_mul_pow2, Z.shiftr_div_pow2 by lia. reflexivity.
Qed.

Lemma host_arith ipz k : 0 <= ipz < 2 ^ 32 -> 0 <= k <= 32 ->
  Z.land ipz (Z.lnot (mask_k k)) = ipz mod 2 ^ k.
Proof.
  intros H Hk. rewrite <- Z.land_ones by lia. apply Z.bits_inj'. intros i Hi.
  rewrite !Z.land_spec, (Z.lnot_spec _ _ Hi), (mask_bits k i Hk Hi), Z.testbit_ones_nonneg by lia.
  destruct (k <=? i) eqn:E1, (i <? 32) eqn:E2, (i <? k) eqn:E3; cbn [andb negb]; try reflexivity; try lia.
  rewrite !andb_true_r || rewrite !andb_false_r. rewrite (high_bits ipz i H) by lia. reflexivity.
Qed.

Lemma mask_arith k : 0 <= k <= 32 -> mask_k k = 2 ^ 32 - 2 ^ k.
Proof.
  intros Hk.
  assert (E : mask_k k = Z.land (2 ^ 32 - 1) (mask_k k)).
  { apply Z.bits_inj'. intros i Hi. rewrite Z.land_spec, (mask_bits k i Hk Hi).
    change (2 ^ 32 - 1) with (Z.ones 32). rewrite Z.testbit_ones_nonneg by lia.
    destruct (k <=? i), (i <? 32); reflexivity. }
  rewrite E, (subnet_arith (2 ^ 32 - 1) k) by lia.
  assert (P : 2 ^ 32 = 2 ^ (32 - k) * 2 ^ k) by (rewrite <- Z.pow_add_r by lia; f_equal; lia).
  assert (Hp : 0 < 2 ^ k) by (apply Z.pow_pos_nonneg; lia).
  rewrite P. replace (2 ^ (32 - k) * 2 ^ k - 1) with ((2 ^ (32 - k) - 1) * 2 ^ k + (2 ^ k - 1)) by ring.
  rewrite Z.div_add_l by lia. rewrite (Z.div_small (2 ^ k - 1)) by lia. ring.
Qed.

Lemma bcast_lor ipz k : 0 <= ipz < 2 ^ 32 -> 0 <= k <= 32 ->
  Z.land (Z.lor (Z.land ipz (mask_k k)) (Z.lnot (mask_k k))) M32 = Z.lor (Z.land ipz (mask_k k)) (Z.ones k).
Proof.
  intros H Hk. apply Z.bits_inj'. intros i Hi.
  rewrite Z.land_spec, !Z.lor_spec, Z.land_spec, (Z.lnot_spec _ _ Hi), (mask_bits k i Hk Hi), M32_ones,
    !Z.testbit_ones_nonneg by lia.
  destruct (k <=? i) eqn:E1, (i <? 32) eqn:E2, (i <? k) eqn:E3; cbn [andb negb orb];
    rewrite ?andb_true_r, ?andb_false_r, ?orb_true_r, ?orb_false_r; try reflexivity; try lia.
Qed.

Lemma bcast_arith ipz k : 0 <= ipz < 2 ^ 32 -> 0 <= k <= 32 ->
  Z.land (Z.lor (Z.land ipz (mask_k k)) (Z.lnot (mask_k k))) M32 = ipz / 2 ^ k * 2 ^ k + (2 ^ k - 1).
Proof.
  intros H Hk. rewrite (bcast_lor ipz k H Hk).
  assert (D : Z.land (Z.land ipz (mask_k k)) (Z.ones k) = 0).
  { apply Z.bits_inj'. intros i Hi.
    rewrite !Z.land_spec, (mask_bits k i Hk Hi), Z.testbit_ones_nonneg, Z.bits_0 by lia.
    destruct (k <=? i) eqn:E1, (i <? k) eqn:E3; rewrite ?andb_true_r, ?andb_false_r; try reflexivity; lia. }
  rewrite <- (Z.lxor_lor _ _ D), <- (Z.add_nocarry_lxor _ _ D), (subnet_arith ipz k H Hk).
  rewrite Z.ones_equiv. unfold Z.pred. ring.
Qed.

(* the fields of ip_denoted in arithmetic form *)
Lemma ip_fields_arith ipz len : 0 <= ipz < 2 ^ 32 -> 0 <= len <= 32 ->
  let k := 32 - len in
  let mask := Z.land (Z.shiftl M32 (32 - len)) M32 in
  mask = 2 ^ 32 - 2 ^ k /\
  Z.land ipz mask = ipz - ipz mod 2 ^ k /\
  Z.land ipz (Z.lnot mask) = ipz mod 2 ^ k /\
  Z.land (Z.lor (Z.land ipz mask) (Z.lnot mask)) M32 = ipz - ipz mod 2 ^ k + (2 ^ k - 1).
Proof.
  intros H Hl k mask. assert (Hk : 0 <= k <= 32) by (unfold k; lia).
  assert (Hp : 0 < 2 ^ k) by (apply Z.pow_pos_nonneg; lia).
  assert (Q : ipz / 2 ^ k * 2 ^ k = ipz - ipz mod 2 ^ k).
  { pose proof (Z.div_mod ipz (2 ^ k)). lia. }
  fold (mask_k k) in mask. subst mask. repeat split.
  - now apply mask_arith.
  - rewrite <- Q. now apply subnet_arith.
  - now apply host_arith.
  - rewrite <- Q. now apply bcast_arith.
Qed.
