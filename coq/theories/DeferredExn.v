(* DeferredExn.v — the deferred drain loop with exception VALUES and the handler as code
   (core.py:157-173 and 212-228):

       for fn, args, kwargs in fnlist:
           try: fn(ARGS)
           except Exception as err:
               run._exception("an error has occurred: %s", err)       # <- the handler

   Deferred.v abstracts a raising function to a flag and the handler to "logs and goes on".
   Here a function carries the value it raises (`exnv`: class, argument shape, printable or
   not) and is one of six kinds of callable; a `handler` says, for a kind of callable and an
   exception value, whether the handler ITSELF raises.  An exception raised inside the
   per-call `except` block leaves the `for`: the rest of the detached batch is gone, exactly
   as in the unguarded loop.

   `h_code` is the handler of the tree: it hands `err` itself to the logger as a lazy `%s`
   argument.  It inspects neither `err.args` nor `fn`; the message is built inside
   logging.Handler.handle, which swallows formatting errors (Handler.handleError), so the
   handler raises for NO exception value and NO kind of callable.
   No proofs here (DeferredExnFacts.v). *)
From Bac Require Export Base Deferred.
Open Scope Z_scope.

Inductive ckind : Set := KBound | KFunction | KLambda | KPartial | KCallable | KBuiltin.

(* an exception value, as far as a handler can tell values apart: the class (a number), the
   argument tuple (each argument abstracted to a code; [] = raised without arguments: bare
   `raise Boom`, failed `assert`, `ValueError()`), whether str()/repr() of it succeed *)
Record exnv : Set := mkExn { x_class : nat; x_args : list Z; x_printable : bool }.

Inductive xfn : Set := XF (id : nat) (k : ckind) (exc : option exnv) (spawns : list xfn) (acts : list sact).

Definition x_id (d : xfn) : nat := match d with XF i _ _ _ _ => i end.
Definition x_kind (d : xfn) : ckind := match d with XF _ k _ _ _ => k end.
Definition x_exc (d : xfn) : option exnv := match d with XF _ _ e _ _ => e end.
Definition x_spawns (d : xfn) : list xfn := match d with XF _ _ _ s _ => s end.

(* true = the handler itself raises on this (callable, exception value) *)
Definition handler : Type := ckind -> exnv -> bool.
Definition h_code : handler := fun _ _ => false.
(* two handlers that look at the value / the callable (the shapes of the seeded changes) *)
Definition h_first_arg : handler := fun _ e => match x_args e with [] => true | _ :: _ => false end.
Definition h_fn_name : handler := fun k _ => match k with KPartial | KCallable => true | _ => false end.

Fixpoint xerase (d : xfn) : dfn :=
  match d with
  | XF i _ e sp a => DF i (match e with Some _ => true | None => false end)
                        ((fix go (l : list xfn) : list dfn := match l with [] => [] | x :: r => xerase x :: go r end) sp) a
  end.

Fixpoint xcall_batch (h : handler) (b : list xfn) : list xfn * list xfn * bool :=
  match b with
  | [] => ([], [], false)
  | d :: rest =>
      if match x_exc d with Some e => h (x_kind d) e | None => false end
      then ([d], x_spawns d, true)
      else let '(c, q, x) := xcall_batch h rest in (d :: c, x_spawns d ++ q, x)
  end.

Fixpoint xdrain (h : handler) (fuel : nat) (q : list xfn) : list xfn * list xfn * dstatus :=
  match q with
  | [] => ([], [], DDone)
  | _ :: _ =>
      match fuel with
      | O => ([], q, DOutOfFuel)
      | S f =>
          let '(c, q', x) := xcall_batch h q in
          if x then (c, q', DRaised)
          else let '(c2, q2, s) := xdrain h f q' in (c ++ c2, q2, s)
      end
  end.

Definition xdrain_all (h : handler) (q : list xfn) := xdrain h (f_size (map xerase q)) q.
