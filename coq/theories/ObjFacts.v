(* ObjFacts.v — lemmas about the C15 model Obj.v *)
From Coq Require Import ZifyBool ZifyN ZifyNat.
From Bac Require Import Base PyRt Obj.
Open Scope Z_scope.
Ltac Zify.zify_post_hook ::= Z.to_euclidean_division_equations.

(* ------------------------------------------------------------ refused => unchanged *)
Lemma step_refused_unchanged : forall d o rep d',
  step d o = (rep, d') -> rep <> RAck -> d' = d.
Proof.
  intros d o rep d' H Hn. destruct o as [oid pid idx | oid pid idx prio w | specs]; cbn [step] in H.
  - destruct (do_read d oid pid idx) as [[oid' its] | x]; inversion H; reflexivity.
  - destruct (do_write d oid pid idx w) as [d2 | x]; inversion H; subst; [congruence | reflexivity].
  - destruct (do_rpm d specs) as [l | x]; inversion H; reflexivity.
Qed.

Lemma step_ack_is_write : forall d o d', step d o = (RAck, d') ->
  exists oid pid idx prio w, o = OWrite oid pid idx prio w /\ do_write d oid pid idx w = XOk d'.
Proof.
  intros d o d' H. destruct o as [oid pid idx | oid pid idx prio w | specs]; cbn [step] in H.
  - destruct (do_read d oid pid idx) as [[oid' its] | x]; [inversion H |].
    destruct x as [c k | | e]; cbn in H; try discriminate. destruct e; discriminate.
  - destruct (do_write d oid pid idx w) as [d2 | x] eqn:E.
    + inversion H; subst. exists oid, pid, idx, prio, w. split; [reflexivity | exact E].
    + destruct x as [c k | | e]; cbn in H; try discriminate. destruct e; discriminate.
  - destruct (do_rpm d specs) as [l | x]; [inversion H |].
    destruct x as [c k | | e]; cbn in H; try discriminate. destruct e; discriminate.
Qed.

(* ------------------------------------------------------------ association-list facts *)
Lemma find_obj_set_same : forall l oid o o', find_obj l oid = Some o -> find_obj (set_obj l oid o') oid = Some o'.
Proof.
  induction l as [| [k ob] r IH]; intros oid o o' H; cbn [find_obj set_obj] in *; [discriminate |].
  destruct (k =? oid) eqn:E; cbn [find_obj]; rewrite E; [reflexivity | eauto].
Qed.
Lemma find_obj_set_other : forall l oid o' oid2, oid2 <> oid -> find_obj (set_obj l oid o') oid2 = find_obj l oid2.
Proof.
  induction l as [| [k ob] r IH]; intros oid o' oid2 H; cbn [find_obj set_obj]; [reflexivity |].
  destruct (k =? oid) eqn:E; cbn [find_obj].
  - destruct (k =? oid2) eqn:E2; [lia | reflexivity].
  - destruct (k =? oid2); [reflexivity | apply IH; exact H].
Qed.
Lemma find_prop_set_same : forall o pid p v nv, find_prop o pid = Some (p, v) -> find_prop (set_prop o pid nv) pid = Some (p, nv).
Proof.
  induction o as [| [q u] r IH]; intros pid p v nv H; cbn [find_prop set_prop] in *; [discriminate |].
  destruct (p_id q =? pid) eqn:E; cbn [find_prop]; rewrite E.
  - inversion H; reflexivity.
  - eauto.
Qed.
Lemma find_prop_set_other : forall o pid nv pid2, pid2 <> pid -> find_prop (set_prop o pid nv) pid2 = find_prop o pid2.
Proof.
  induction o as [| [q u] r IH]; intros pid nv pid2 H; cbn [find_prop set_prop]; [reflexivity |].
  destruct (p_id q =? pid) eqn:E; cbn [find_prop].
  - destruct (p_id q =? pid2) eqn:E2; [lia | reflexivity].
  - destruct (p_id q =? pid2); [reflexivity | apply IH; exact H].
Qed.

(* ------------------------------------------------------------ an acknowledged write touches one property *)
Definition lookup (d : device) (oid pid : Z) : option (pdesc * val) :=
  match find_obj (d_objs d) oid with Some o => find_prop o pid | None => None end.

Lemma write_obj_frame : forall o pid idx w o' pid2, write_obj o pid idx w = XOk o' -> pid2 <> pid ->
  find_prop o' pid2 = find_prop o pid2.
Proof.
  intros o pid idx w o' pid2 H Hne. unfold write_obj in H.
  destruct (obj_read o pid idx) as [[p r] | x]; cbn [xbind fst snd] in H; [| discriminate].
  destruct r; try discriminate;
  (destruct (lift (cast_for (p_dt p) idx w)) as [value | x]; cbn [xbind] in H; [| discriminate];
   destruct (find_prop o pid) as [[p' cur] |]; [| discriminate];
   destruct (prop_write p cur idx value) as [nv | x]; cbn [xbind] in H; [| discriminate];
   inversion H; subst; apply find_prop_set_other; exact Hne).
Qed.

Lemma do_write_frame : forall d oid pid idx w d' oid2 pid2,
  do_write d oid pid idx w = XOk d' -> (oid2, pid2) <> (oid, pid) -> lookup d' oid2 pid2 = lookup d oid2 pid2.
Proof.
  intros d oid pid idx w d' oid2 pid2 H Hne. unfold do_write in H.
  destruct (find_obj (d_objs d) oid) as [o |] eqn:Eo; [| discriminate].
  destruct (write_obj o pid idx w) as [o' | x] eqn:Ew; cbn [xbind catch_prop] in H.
  2:{ destruct x; discriminate. }
  inversion H; subst; clear H. unfold lookup; cbn [d_objs].
  destruct (Z.eq_dec oid2 oid) as [-> | Hoid].
  - rewrite (find_obj_set_same _ _ _ o' Eo), Eo.
    apply (write_obj_frame _ _ _ _ _ pid2 Ew). congruence.
  - rewrite find_obj_set_other by exact Hoid. reflexivity.
Qed.

(* ------------------------------------------------------------ error mapping *)
Lemma read_unknown_object : forall d oid pid idx, find_obj (d_objs d) (map_oid d oid) = None ->
  step d (ORead oid pid idx) = (RError EC_OBJECT E_UNKNOWN_OBJECT, d).
Proof. intros d oid pid idx H. cbn [step]. unfold do_read. rewrite H. reflexivity. Qed.

Lemma write_unknown_object : forall d oid pid idx prio w, find_obj (d_objs d) oid = None ->
  step d (OWrite oid pid idx prio w) = (RError EC_OBJECT E_UNKNOWN_OBJECT, d).
Proof. intros d oid pid idx prio w H. cbn [step]. unfold do_write. rewrite H. reflexivity. Qed.

Lemma read_unknown_property : forall d oid pid idx o, find_obj (d_objs d) (map_oid d oid) = Some o ->
  find_prop o pid = None -> step d (ORead oid pid idx) = (RError EC_PROPERTY E_UNKNOWN_PROPERTY, d).
Proof.
  intros d oid pid idx o H Hp. cbn [step]. unfold do_read. rewrite H. unfold read_any, obj_read. rewrite Hp. reflexivity.
Qed.

Lemma write_unknown_property : forall d oid pid idx prio w o, find_obj (d_objs d) oid = Some o ->
  find_prop o pid = None -> step d (OWrite oid pid idx prio w) = (RError EC_PROPERTY E_UNKNOWN_PROPERTY, d).
Proof.
  intros d oid pid idx prio w o H Hp. cbn [step]. unfold do_write. rewrite H. unfold write_obj, obj_read. rewrite Hp. reflexivity.
Qed.

(* an absent (None) value is answered like an unknown property *)
Lemma read_absent_property : forall d oid pid o p, find_obj (d_objs d) (map_oid d oid) = Some o ->
  find_prop o pid = Some (p, VNone) -> step d (ORead oid pid None) = (RError EC_PROPERTY E_UNKNOWN_PROPERTY, d).
Proof.
  intros d oid pid o p H Hp. cbn [step]. unfold do_read. rewrite H. unfold read_any, obj_read. rewrite Hp. reflexivity.
Qed.

(* read-only: any value that passes the cast is refused with write-access-denied *)
Lemma write_read_only : forall d oid pid idx prio w o p cur r value,
  find_obj (d_objs d) oid = Some o -> find_prop o pid = Some (p, cur) -> p_mut p = false ->
  prop_read p cur idx = XOk r -> r <> VNone -> cast_for (p_dt p) idx w = Ok value ->
  step d (OWrite oid pid idx prio w) = (RError EC_PROPERTY E_WRITE_ACCESS_DENIED, d).
Proof.
  intros d oid pid idx prio w o p cur r value Ho Hp Hm Hr Hn Hc. cbn [step]. unfold do_write. rewrite Ho.
  unfold write_obj, obj_read. rewrite Hp, Hr. cbn [xbind fst snd].
  destruct r; try congruence; rewrite Hc; cbn [lift xbind]; unfold prop_write, validate; rewrite Hm; reflexivity.
Qed.

(* wrong datatype, atomic property: a single application tag of another kind is rejected (invalid-tag);
   several or no tags give Error device/operational-problem *)
Lemma write_wrong_atom : forall d oid pid prio w o p cur k lo hi k' c,
  find_obj (d_objs d) oid = Some o -> find_prop o pid = Some (p, cur) -> cur <> VNone ->
  p_dt p = DS (SAtom k lo hi) -> w_tags w = [WApp k' c] -> k' <> k -> k' <> 0 ->
  step d (OWrite oid pid None prio w) = (RReject 4, d).
Proof.
  intros d oid pid prio w o p cur k lo hi k' c Ho Hp Hn Hd Hw Hk H0. cbn [step]. unfold do_write. rewrite Ho.
  unfold write_obj, obj_read. rewrite Hp. cbn [prop_read xbind fst snd].
  assert (Hc : cast_for (p_dt p) None w = Err InvalidTag).
  { unfold cast_for, wire_is_null. rewrite Hw, Hd.
    destruct k' as [| q | q]; try congruence;
    (cbn [cast_out cast_scalar]; unfold cast_atom; rewrite Hw;
     match goal with |- context [?a =? ?b] => destruct (a =? b) eqn:E; [lia | reflexivity] end). }
  destruct cur; try congruence; rewrite Hc; reflexivity.
Qed.

Lemma is_valid_null : forall k lo hi c, is_valid (SAtom k lo hi) (EAtom 0 c) = false.
Proof.
  intros. cbn [is_valid]. destruct (0 =? k) eqn:E1; [| reflexivity].
  destruct (k =? 0) eqn:E2; [reflexivity | lia].
Qed.

(* the Null special case: an application Null is refused by every atomic property (invalid-parameter-datatype)
   or, if the property is read-only, with write-access-denied *)
Lemma write_null_atomic : forall d oid pid prio w o p cur k lo hi c,
  find_obj (d_objs d) oid = Some o -> find_prop o pid = Some (p, cur) -> cur <> VNone ->
  p_dt p = DS (SAtom k lo hi) -> w_tags w = [WApp 0 c] ->
  step d (OWrite oid pid None prio w) = (if p_mut p then RReject 3 else RError EC_PROPERTY E_WRITE_ACCESS_DENIED, d).
Proof.
  intros d oid pid prio w o p cur k lo hi c Ho Hp Hn Hd Hw. cbn [step]. unfold do_write. rewrite Ho.
  unfold write_obj, obj_read. rewrite Hp. cbn [prop_read xbind fst snd].
  assert (Hc : cast_for (p_dt p) None w = Ok (VS (EAtom 0 c))).
  { unfold cast_for, wire_is_null. rewrite Hw. cbn [cast_out cast_scalar]. unfold cast_atom. rewrite Hw. reflexivity. }
  destruct cur; try congruence; rewrite Hc; cbn [lift xbind]; unfold prop_write, validate; rewrite Hd;
    destruct (p_mut p); cbn [negb xbind]; rewrite ?is_valid_null; reflexivity.
Qed.

(* bad array index, read and write *)
Lemma index_out_of_range : forall n l i, i < 0 \/ n < i -> index (VArr n l) i = Err IndexErr.
Proof. intros n l i H. cbn [index]. destruct ((i <? 0) || (n <? i)) eqn:E; [reflexivity | lia]. Qed.

Lemma read_bad_index : forall d oid pid i o p n l, find_obj (d_objs d) (map_oid d oid) = Some o ->
  find_prop o pid = Some (p, VArr n l) -> is_array (p_dt p) = true -> i < 0 \/ n < i ->
  step d (ORead oid pid (Some i)) = (RError EC_PROPERTY E_INVALID_ARRAY_INDEX, d).
Proof.
  intros d oid pid i o p n l Ho Hp Ha Hi. cbn [step]. unfold do_read. rewrite Ho. unfold read_any, obj_read. rewrite Hp.
  unfold prop_read. rewrite Ha. cbn [negb]. rewrite index_out_of_range by exact Hi. reflexivity.
Qed.
Lemma write_bad_index : forall d oid pid i prio w o p n l, find_obj (d_objs d) oid = Some o ->
  find_prop o pid = Some (p, VArr n l) -> is_array (p_dt p) = true -> i < 0 \/ n < i ->
  step d (OWrite oid pid (Some i) prio w) = (RError EC_PROPERTY E_INVALID_ARRAY_INDEX, d).
Proof.
  intros d oid pid i prio w o p n l Ho Hp Ha Hi. cbn [step]. unfold do_write. rewrite Ho. unfold write_obj, obj_read. rewrite Hp.
  unfold prop_read. rewrite Ha. cbn [negb]. rewrite index_out_of_range by exact Hi. reflexivity.
Qed.
Lemma not_an_array : forall d oid pid i o p v, find_obj (d_objs d) (map_oid d oid) = Some o ->
  find_prop o pid = Some (p, v) -> is_array (p_dt p) = false ->
  step d (ORead oid pid (Some i)) = (RError EC_PROPERTY E_NOT_AN_ARRAY, d).
Proof.
  intros d oid pid i o p v Ho Hp Ha. cbn [step]. unfold do_read. rewrite Ho. unfold read_any, obj_read. rewrite Hp.
  unfold prop_read. rewrite Ha. reflexivity.
Qed.

Theorem error_mapping :
  (forall d oid pid idx, find_obj (d_objs d) (map_oid d oid) = None ->
     step d (ORead oid pid idx) = (RError EC_OBJECT E_UNKNOWN_OBJECT, d)) /\
  (forall d oid pid idx prio w, find_obj (d_objs d) oid = None ->
     step d (OWrite oid pid idx prio w) = (RError EC_OBJECT E_UNKNOWN_OBJECT, d)) /\
  (forall d oid pid idx o, find_obj (d_objs d) (map_oid d oid) = Some o -> find_prop o pid = None ->
     step d (ORead oid pid idx) = (RError EC_PROPERTY E_UNKNOWN_PROPERTY, d)) /\
  (forall d oid pid idx prio w o, find_obj (d_objs d) oid = Some o -> find_prop o pid = None ->
     step d (OWrite oid pid idx prio w) = (RError EC_PROPERTY E_UNKNOWN_PROPERTY, d)) /\
  (forall d oid pid idx prio w o p cur r value,
     find_obj (d_objs d) oid = Some o -> find_prop o pid = Some (p, cur) -> p_mut p = false ->
     prop_read p cur idx = XOk r -> r <> VNone -> cast_for (p_dt p) idx w = Ok value ->
     step d (OWrite oid pid idx prio w) = (RError EC_PROPERTY E_WRITE_ACCESS_DENIED, d)) /\
  (forall d oid pid prio w o p cur k lo hi k' c,
     find_obj (d_objs d) oid = Some o -> find_prop o pid = Some (p, cur) -> cur <> VNone ->
     p_dt p = DS (SAtom k lo hi) -> w_tags w = [WApp k' c] -> k' <> k -> k' <> 0 ->
     step d (OWrite oid pid None prio w) = (RReject 4, d)) /\
  (forall d oid pid i prio w o p n l, find_obj (d_objs d) oid = Some o ->
     find_prop o pid = Some (p, VArr n l) -> is_array (p_dt p) = true -> i < 0 \/ n < i ->
     step d (OWrite oid pid (Some i) prio w) = (RError EC_PROPERTY E_INVALID_ARRAY_INDEX, d)).
Proof.
  repeat split.
  - exact read_unknown_object.
  - exact write_unknown_object.
  - exact read_unknown_property.
  - exact write_unknown_property.
  - exact write_read_only.
  - exact write_wrong_atom.
  - exact write_bad_index.
Qed.
