From Bac Require Import Base PyRt Obj.
Open Scope Z_scope.
