(* BvllTotal.v — registry shape, refusals and totality of the BVLL decoder (model Bvll.v). *)
From Bac Require Import Base BytesFacts Bvll BvllFacts BvllRound.
From Coq Require Import ZifyBool ZifyN ZifyNat.
Ltac Zify.zify_post_hook ::= Z.to_euclidean_division_equations.
Open Scope N_scope.

(* ---- registry ---------------------------------------------------------------------------- *)
Lemma lookup_fn_bound f t : forallb (fun p : N * bvl_class => fst p <? 12) t = true -> 12 <= f -> lookup_fn f t = None.
Proof.
  induction t as [|[c k] t IH]; cbn [forallb lookup_fn fst]; intros H Hf; [reflexivity|].
  apply andb_true_iff in H as [Hc Ht]. destruct (c =? f) eqn:E; [lia|]. now apply IH.
Qed.

Lemma registry_unknown f : 12 <= f -> lookup_fn f bvl_pdu_types = None.
Proof. apply lookup_fn_bound. apply registry_table_exact. Qed.

Lemma registry_exact f k : lookup_fn f bvl_pdu_types = Some k <-> fn_of_kind k = f.
Proof.
  split.
  - intros H. destruct (12 <=? f) eqn:E.
    + rewrite registry_unknown in H by lia. discriminate.
    + assert (D: f = 0 \/ f = 1 \/ f = 2 \/ f = 3 \/ f = 4 \/ f = 5 \/ f = 6 \/ f = 7 \/ f = 8 \/ f = 9 \/ f = 10 \/ f = 11) by lia.
      repeat (destruct D as [-> | D]; [vm_compute in H; injection H as <-; reflexivity|]).
      subst f. vm_compute in H; injection H as <-; reflexivity.
  - intros <-. apply lookup_kind_of.
Qed.

(* ---- refusals ---------------------------------------------------------------------------- *)
Lemma dec_frame_type bs : hd_error bs <> Some 129 -> dec_frame bs = Err DecodingError.
Proof. intros H. unfold dec_frame. now rewrite dec_bvlci_type. Qed.

Lemma dec_frame_length f hi lo body :
  hi * 256 + lo <> lenN body + 4 -> dec_frame (129 :: f :: hi :: lo :: body) = Err DecodingError.
Proof. intros H. unfold dec_frame. now rewrite dec_bvlci_length. Qed.

Lemma dec_frame_short bs : (length bs < 4)%nat -> dec_frame bs = Err DecodingError.
Proof. intros H. unfold dec_frame. now rewrite dec_bvlci_short. Qed.

Lemma dec_frame_unknown f hi lo body : 12 <= f -> dec_frame (129 :: f :: hi :: lo :: body) = Err DecodingError.
Proof.
  intros H. unfold dec_frame. destruct (dec_bvlci _) as [[[f' l] b]|e] eqn:E; cbn [bind fst].
  - apply dec_bvlci_inv in E as (hi' & lo' & Hbs & _). injection Hbs as <- _ _ _.
    unfold dec_msg. now rewrite registry_unknown.
  - apply dec_bvlci_err in E. now subst.
Qed.

Lemma dec_body_kind k body m : dec_body k body = Ok m -> kind_of m = k.
Proof.
  destruct k; cbn [dec_body]; intros H;
    repeat match type of H with
           | bind ?x _ = _ => destruct x as [[? ?]|?] eqn:?; cbn [bind] in H; try discriminate
           end;
    try (injection H as <-; reflexivity).
  all: match type of H with bind ?x _ = _ => destruct x eqn:?; cbn [bind] in H; try discriminate end;
    injection H as <-; reflexivity.
Qed.

(* accepted => type 0x81, the function octet names the delivered class, the length field is the datagram's length *)
Lemma dec_frame_accepts bs m : dec_frame bs = Ok m ->
  exists hi lo body, bs = 129 :: fn_of m :: hi :: lo :: body /\ hi * 256 + lo = lenN bs.
Proof.
  unfold dec_frame. destruct (dec_bvlci bs) as [[[f l] b]|e] eqn:E; cbn [bind fst]; [|discriminate].
  apply dec_bvlci_inv in E as (hi & lo & -> & Hl & Hl2). unfold dec_msg.
  destruct (lookup_fn f bvl_pdu_types) as [k|] eqn:K; [|discriminate]. intros H.
  apply dec_body_kind in H. apply registry_exact in K. exists hi, lo, b. split; [|lia].
  unfold fn_of. now rewrite H, K.
Qed.

(* every octet string, every function code: a length field (octets 2-3, absent octets read as 0)
   that is not the datagram's octet count means refusal *)
Lemma dec_frame_length_any bs :
  nth 2 bs 0 * 256 + nth 3 bs 0 <> lenN bs -> dec_frame bs = Err DecodingError.
Proof.
  intros H. destruct (Nat.ltb (length bs) 4) eqn:E.
  - apply dec_frame_short. apply Nat.ltb_lt. exact E.
  - apply Nat.ltb_ge in E.
    destruct bs as [|t [|f [|hi [|lo body]]]]; cbn [length] in E; try lia.
    cbn [nth] in H. rewrite !lenN_cons in H.
    destruct (t =? 129) eqn:T.
    + assert (t = 129) by lia. subst t. apply dec_frame_length. lia.
    + apply dec_frame_type. cbn [hd_error]. intros X. injection X as X. lia.
Qed.

(* ---- totality: nothing but DecodingError, fuel never exhausted --------------------------- *)
Lemma get_data_cases k bs :
  get_data k bs = Err DecodingError \/
  exists d r, get_data k bs = Ok (d, r) /\ bs = d ++ r /\ lenN d = k.
Proof.
  destruct (get_data k bs) as [[d r]|e] eqn:E.
  - right. exists d, r. split; [reflexivity|]. now apply get_data_ok.
  - left. unfold get_data in E. destruct (lenN bs <? k); congruence.
Qed.

Lemma dec_addr_cases bs :
  dec_addr bs = Err DecodingError \/
  exists l r, dec_addr bs = Ok (ABytes l, r) /\ bs = l ++ r /\ lenN l = 6.
Proof.
  unfold dec_addr. destruct (get_data_cases 6 bs) as [H|(d & r & H & Hbs & Hl)]; rewrite H; cbn [bind].
  - now left.
  - right. now exists d, r.
Qed.

Lemma get_short_cases bs :
  get_short bs = Err DecodingError \/
  exists v r, get_short bs = Ok (v, r) /\ (length r <= length bs)%nat.
Proof.
  destruct bs as [|a [|b r]]; cbn [get_short]; [now left|now left|].
  right. exists (a * 256 + b), r. split; [reflexivity|cbn [length]; lia].
Qed.

Lemma get_long_cases bs :
  get_long bs = Err DecodingError \/
  exists v r, get_long bs = Ok (v, r) /\ (length r <= length bs)%nat.
Proof.
  destruct bs as [|a [|b [|c [|d r]]]]; cbn [get_long]; try (now left).
  right. eexists _, r. split; [reflexivity|cbn [length]; lia].
Qed.

Lemma dec_bdt_fuel_total fuel : forall bs, (length bs <= fuel)%nat ->
  (exists t, dec_bdt_fuel fuel bs = Ok t) \/ dec_bdt_fuel fuel bs = Err DecodingError.
Proof.
  induction fuel as [|f IH]; intros bs Hf.
  - destruct bs; [left; now exists []|cbn [length] in Hf; lia].
  - destruct bs as [|x bs']; [left; now exists []|].
    cbn [dec_bdt_fuel].
    destruct (dec_addr_cases (x :: bs')) as [H|(l & r & H & Hbs & Hl)]; rewrite H; cbn [bind]; [now right|].
    assert (Hr: (length r < length (x :: bs'))%nat).
    { rewrite Hbs, app_length. unfold lenN in Hl. lia. }
    destruct (get_long_cases r) as [H2|(v & r2 & H2 & Hr2)]; rewrite H2; cbn [bind]; [now right|].
    destruct (IH r2) as [(t & Ht)|Ht]; [lia| |]; rewrite Ht; cbn [bind]; [left; eauto|now right].
Qed.

Lemma dec_fdt_fuel_total fuel : forall bs, (length bs <= fuel)%nat ->
  (exists t, dec_fdt_fuel fuel bs = Ok t) \/ dec_fdt_fuel fuel bs = Err DecodingError.
Proof.
  induction fuel as [|f IH]; intros bs Hf.
  - destruct bs; [left; now exists []|cbn [length] in Hf; lia].
  - destruct bs as [|x bs']; [left; now exists []|].
    cbn [dec_fdt_fuel].
    destruct (dec_addr_cases (x :: bs')) as [H|(l & r & H & Hbs & Hl)]; rewrite H; cbn [bind]; [now right|].
    assert (Hr: (length r < length (x :: bs'))%nat).
    { rewrite Hbs, app_length. unfold lenN in Hl. lia. }
    destruct (get_short_cases r) as [H2|(v & r2 & H2 & Hr2)]; rewrite H2; cbn [bind]; [now right|].
    destruct (get_short_cases r2) as [H3|(v3 & r3 & H3 & Hr3)]; rewrite H3; cbn [bind]; [now right|].
    destruct (IH r3) as [(t & Ht)|Ht]; [lia| |]; rewrite Ht; cbn [bind]; [left; eauto|now right].
Qed.

Lemma dec_body_total k body :
  (exists m, dec_body k body = Ok m) \/ dec_body k body = Err DecodingError.
Proof.
  destruct k; cbn [dec_body]; try (left; eexists; reflexivity).
  - destruct (get_short_cases body) as [H|(v & r & H & _)]; rewrite H; cbn [bind]; [now right|left; eauto].
  - unfold dec_bdt. destruct (dec_bdt_fuel_total (length body) body) as [(t & H)|H]; [lia| |]; rewrite H; cbn [bind]; [left; eauto|now right].
  - unfold dec_bdt. destruct (dec_bdt_fuel_total (length body) body) as [(t & H)|H]; [lia| |]; rewrite H; cbn [bind]; [left; eauto|now right].
  - destruct (dec_addr_cases body) as [H|(l & r & H & _)]; rewrite H; cbn [bind]; [now right|left; eauto].
  - destruct (get_short_cases body) as [H|(v & r & H & _)]; rewrite H; cbn [bind]; [now right|left; eauto].
  - unfold dec_fdt. destruct (dec_fdt_fuel_total (length body) body) as [(t & H)|H]; [lia| |]; rewrite H; cbn [bind]; [left; eauto|now right].
  - destruct (dec_addr_cases body) as [H|(l & r & H & _)]; rewrite H; cbn [bind]; [now right|left; eauto].
Qed.

Lemma dec_frame_total bs :
  (exists m, dec_frame bs = Ok m) \/ dec_frame bs = Err DecodingError.
Proof.
  unfold dec_frame. destruct (dec_bvlci bs) as [[[f l] b]|e] eqn:E; cbn [bind fst].
  - unfold dec_msg. destruct (lookup_fn f bvl_pdu_types); [apply dec_body_total|now right].
  - apply dec_bvlci_err in E. subst. now right.
Qed.

(* the 16-bit field cannot hold 65536: a well-formed message whose frame has that many octets is
   emitted with a length field of 0 *)
Lemma bytes_ok_repeat0 n : bytes_ok (repeat 0 n) = true.
Proof. induction n; cbn [repeat bytes_ok forallb]; [reflexivity|]. exact IHn. Qed.

Lemma length_field_bound_tight :
  exists m bs, wf_msg m = true /\ enc_frame m = Ok bs /\ lenN bs = 65536 /\
               nth 2 bs 0 * 256 + nth 3 bs 0 = 0.
Proof.
  set (d := repeat 0 (N.to_nat 65532)).
  assert (Hd: lenN d = 65532) by (unfold lenN, d; rewrite repeat_length; lia).
  exists (OrigUnicast d). eexists. split; [apply bytes_ok_repeat0|].
  split.
  - unfold enc_frame. apply (enc_frame_with_ok _ _ d); [reflexivity|]. cbn [ctor_len enc_len]. lia.
  - rewrite Hd. change ((65532 + 4) mod 65536) with 0. cbn [be2 app nth]. rewrite !lenN_cons, Hd.
    split; reflexivity.
Qed.
