(* Bip.v — model of bvllservice.BIPSimple / BIPForeign / BIPBBMD (py34/bacpypes/bvllservice.py:342-1072)
   on decoded BVLL messages.  No proofs here.

   An address is (IPv4 as a number, UDP port): what pdu.Address compares (addrAddr = 4+2 octets;
   the netmask is NOT part of equality).  An NPDU is opaque to this layer (a number naming it).
   Time is Z milliseconds of the virtual clock. *)
From Bac Require Import Base.
Open Scope N_scope.

Definition addr := (N * N)%type.
Definition addr_eqb (a b : addr) : bool := (fst a =? fst b) && (snd a =? snd b).
Notation npdu := N (only parsing).
Definition mkA (ip port : N) : addr := (ip, port).

Record bdte := mkBdte { bd_addr : addr; bd_mask : N }.
Record fdte := mkFdte { fd_addr : addr; fd_ttl : N; fd_remain : N }.

(* bvll.py message classes, by BVLCI function code 0..11 *)
Inductive msg :=
| Result (code : N)
| WriteBDT (b : list bdte)
| ReadBDT
| ReadBDTAck (b : list bdte)
| Forwarded (a : addr) (p : npdu)
| RegisterFD (ttl : N)
| ReadFDT
| ReadFDTAck (f : list fdte)
| DeleteFDT (a : addr)
| Distribute (p : npdu)
| OrigUnicast (p : npdu)
| OrigBroadcast (p : npdu).

(* pduDestination as the multiplexer hands it up / accepts it: LocalBroadcast() or a station *)
Inductive dest := DBcast | DStation (a : addr).

Inductive action :=
| Up (src : addr) (d : dest) (p : npdu)      (* self.response(PDU(...)) : to the network layer *)
| Down (d : dest) (m : msg)                  (* self.request(xpdu)      : to the codec / wire *)
| Sap (src : addr) (m : msg).                (* self.sap_response(pdu)  : to the service element *)

Definition nak (src : addr) (code : N) : list action := [Down (DStation src) (Result code)].

(* ------------------------------------------------------------------ BIPSimple (342-471) *)
Definition simple_indication (d : dest) (p : npdu) : list action :=
  match d with
  | DStation _ => [Down d (OrigUnicast p)]
  | DBcast => [Down DBcast (OrigBroadcast p)]
  end.

Definition simple_confirmation (src : addr) (d : dest) (m : msg) : list action :=
  match m with
  | Result _ | ReadBDTAck _ | ReadFDTAck _ => [Sap src m]
  | OrigUnicast p => [Up src d p]
  | OrigBroadcast p => [Up src DBcast p]
  | Forwarded a p => [Up a DBcast p]
  | WriteBDT _ => nak src 16
  | ReadBDT => nak src 32
  | RegisterFD _ => nak src 48
  | ReadFDT => nak src 64
  | DeleteFDT _ => nak src 80
  | Distribute _ => nak src 96
  end.

(* ------------------------------------------------------------------ BIPBBMD (744-1072) *)
Record bbmd := mkBbmd { b_addr : addr; b_bdt : list bdte; b_fdt : list fdte; b_upper : bool }.

(* Address(((bdte.addrIP | ~bdte.addrMask), bdte.addrPort)) ; the tuple ctor masks with 0xFFFFFFFF *)
Definition fwd_ip (ip mask : N) : N := N.land (N.lor ip (N.ldiff 4294967295 mask)) 4294967295.
Definition fwd_dest (e : bdte) : dest := DStation (fwd_ip (fst (bd_addr e)) (bd_mask e), snd (bd_addr e)).

Definition in_bdt (a : addr) (t : list bdte) : bool := existsb (fun e => addr_eqb a (bd_addr e)) t.

(* register_foreign_device (958-983): refresh the entry with this address or append one *)
Fixpoint fdt_register (t : list fdte) (a : addr) (ttl : N) : list fdte :=
  match t with
  | [] => [mkFdte a ttl (ttl + 5)]
  | e :: r => if addr_eqb a (fd_addr e) then mkFdte (fd_addr e) ttl (ttl + 5) :: r
              else e :: fdt_register r a ttl
  end.

(* delete_foreign_device_table_entry (985-1008): scans from the end, removes the first hit *)
Fixpoint fdt_delete (t : list fdte) (a : addr) : option (list fdte) :=
  match t with
  | [] => None
  | e :: r => match fdt_delete r a with
              | Some r' => Some (e :: r')
              | None => if addr_eqb a (fd_addr e) then Some r else None
              end
  end.

(* process_task (1010-1021): every entry loses one second; entries at <= 0 are removed *)
Definition fdt_tick (t : list fdte) : list fdte :=
  filter (fun e => 0 <? fd_remain e)
         (map (fun e => mkFdte (fd_addr e) (fd_ttl e) (N.pred (fd_remain e))) t).

Definition to_peers (b : bbmd) (m : msg) : list action :=
  map (fun e => Down (fwd_dest e) m)
      (filter (fun e => negb (addr_eqb (bd_addr e) (b_addr b))) (b_bdt b)).
Definition to_fdt (t : list fdte) (m : msg) : list action :=
  map (fun e => Down (DStation (fd_addr e)) m) t.
Definition up_if (b : bbmd) (src : addr) (d : dest) (p : npdu) : list action :=
  if b_upper b then [Up src d p] else [].

Definition bbmd_indication (b : bbmd) (d : dest) (p : npdu) : list action :=
  match d with
  | DStation _ => [Down d (OrigUnicast p)]
  | DBcast => Down DBcast (OrigBroadcast p)
              :: to_peers b (Forwarded (b_addr b) p) ++ to_fdt (b_fdt b) (Forwarded (b_addr b) p)
  end.

(* the wire format of Read-FDT-Ack holds ttl and remaining time in 16 bits (put_short masks) *)
Definition fdt_wire (t : list fdte) : list fdte :=
  map (fun e => mkFdte (fd_addr e) (fd_ttl e mod 65536) (fd_remain e mod 65536)) t.

Definition bbmd_confirmation (b : bbmd) (src : addr) (d : dest) (m : msg) : bbmd * list action :=
  match m with
  | Result _ | ReadBDTAck _ | ReadFDTAck _ => (b, [Sap src m])
  | WriteBDT _ => (b, nak src 16)
  | ReadBDT => (b, [Down (DStation src) (ReadBDTAck (b_bdt b))])
  | Forwarded a p =>
      (b, up_if b a DBcast p
          ++ match d with
             | DStation _ => if in_bdt (b_addr b) (b_bdt b) then [Down DBcast (Forwarded a p)] else []
             | DBcast => []
             end
          ++ to_fdt (b_fdt b) (Forwarded a p))
  | RegisterFD ttl =>
      (mkBbmd (b_addr b) (b_bdt b) (fdt_register (b_fdt b) src ttl) (b_upper b),
       [Down (DStation src) (Result 0)])
  | ReadFDT => (b, [Down (DStation src) (ReadFDTAck (fdt_wire (b_fdt b)))])
  | DeleteFDT a =>
      match fdt_delete (b_fdt b) a with
      | Some t' => (mkBbmd (b_addr b) (b_bdt b) t' (b_upper b), [Down (DStation src) (Result 0)])
      | None => (b, [Down (DStation src) (Result 80)])
      end
  | Distribute p =>
      (b, up_if b src DBcast p
          ++ map (fun e => if addr_eqb (bd_addr e) (b_addr b) then Down DBcast (Forwarded src p)
                           else Down (fwd_dest e) (Forwarded src p)) (b_bdt b)
          ++ to_fdt (filter (fun e => negb (addr_eqb (fd_addr e) src)) (b_fdt b)) (Forwarded src p))
  | OrigUnicast p => (b, up_if b src d p)
  | OrigBroadcast p =>
      (b, up_if b src DBcast p ++ to_peers b (Forwarded src p) ++ to_fdt (b_fdt b) (Forwarded src p))
  end.

Definition bbmd_tick (b : bbmd) : bbmd := mkBbmd (b_addr b) (b_bdt b) (fdt_tick (b_fdt b)) (b_upper b).

(* ------------------------------------------------------------------ BIPForeign (477-738) *)
(* registrationStatus: -2 unregistered, -1 not attempted / no ack / expired, 0 ok, >0 NAK code.
   f_renew  = taskTime of the object itself (re-registration), when scheduled;
   f_expire = taskTime of _registration_timeout_task, when scheduled. *)
Record foreign := mkForeign { f_status : Z; f_bbmd : option addr; f_ttl : option Z;
                              f_renew : option Z; f_expire : option Z }.

Definition foreign_indication (f : foreign) (d : dest) (p : npdu) : res (list action) :=
  match d with
  | DStation _ => Ok [Down d (OrigUnicast p)]
  | DBcast =>
      if negb (f_status f =? 0)%Z then Ok []
      else match f_bbmd f with
           | Some a => Ok [Down (DStation a) (Distribute p)]
           | None => Err AttrErr          (* destination None reaches the multiplexer *)
           end
  end.

Definition foreign_confirmation (now : Z) (f : foreign) (src : addr) (d : dest) (m : msg)
  : res (foreign * list action) :=
  match m with
  | Result code =>
      if (f_status f =? -2)%Z then Ok (f, [])
      else match f_bbmd f with
           | None => Err TypeErr        (* Address.__ne__(None) tries Address(None) *)
           | Some a =>
               if negb (addr_eqb src a) then Ok (f, [])
               else if code =? 0 then
                      match f_ttl f with
                      | None => Err TypeErr
                      | Some t => Ok (mkForeign 0 (f_bbmd f) (f_ttl f) (f_renew f)
                                                (Some (now + (t + 30) * 1000)%Z), [])
                      end
                    else Ok (mkForeign (Z.of_N code) (f_bbmd f) (f_ttl f) (f_renew f) (f_expire f), [])
           end
  | OrigUnicast p => Ok (f, [Up src d p])
  | Forwarded a p =>
      if negb (f_status f =? 0)%Z then Ok (f, [])
      else match f_bbmd f with
           | None => Err TypeErr
           | Some b => if negb (addr_eqb src b) then Ok (f, []) else Ok (f, [Up a DBcast p])
           end
  | ReadBDTAck _ | ReadFDTAck _ => Ok (f, [Sap src m])
  | WriteBDT _ => Ok (f, nak src 16)
  | ReadBDT => Ok (f, nak src 32)
  | RegisterFD _ => Ok (f, nak src 48)
  | ReadFDT => Ok (f, nak src 64)
  | DeleteFDT _ => Ok (f, nak src 80)
  | Distribute _ => Ok (f, nak src 96)
  | OrigBroadcast _ => Ok (f, [])
  end.

(* register (652-677), after the repair "fix: BIPForeign.register resets an 'unregistered' status":
   a device that called unregister() before is back to -1 so that the acknowledgement is heeded *)
Definition foreign_register (f : foreign) (a : addr) (ttl : Z) : res foreign :=
  if (ttl <=? 0)%Z then Err ValueErr
  else Ok (mkForeign (if (f_status f =? -2)%Z then -1 else f_status f)%Z (Some a) (Some ttl) (Some 0%Z) None).

(* unregister (679-704) *)
Definition foreign_unregister (f : foreign) : res (foreign * list action) :=
  match f_bbmd f with
  | None => Err AttrErr
  | Some a => Ok (mkForeign (-2) None None None None, [Down (DStation a) (RegisterFD 0)])
  end.

(* process_task (706-715) run at time now: send the registration, re-arm after ttl seconds *)
Definition foreign_renew (now : Z) (f : foreign) : res (foreign * list action) :=
  match f_bbmd f, f_ttl f with
  | Some a, Some t =>
      Ok (mkForeign (f_status f) (f_bbmd f) (f_ttl f) (Some (now + t * 1000)%Z) (f_expire f),
          [Down (DStation a) (RegisterFD (Z.to_N t mod 65536))])
  | _, _ => Err TypeErr            (* put_short(None) in the codec *)
  end.

(* _registration_expired (731-738) *)
Definition foreign_expired (f : foreign) : foreign :=
  mkForeign (-1) (f_bbmd f) (f_ttl f) (f_renew f) None.

(* ------------------------------------------------------------------ canonical output (correspondence) *)
Definition canon_addr (a : addr) : list Z := [zN (fst a); zN (snd a)].
Definition canon_dest (d : dest) : list Z :=
  match d with DBcast => [0; 0; 0]%Z | DStation a => 1%Z :: canon_addr a end.
Definition canon_bdt (t : list bdte) : list Z :=
  zlen t :: flat_map (fun e => canon_addr (bd_addr e) ++ [zN (bd_mask e)]) t.
Definition canon_fdt (t : list fdte) : list Z :=
  zlen t :: flat_map (fun e => canon_addr (fd_addr e) ++ [zN (fd_ttl e); zN (fd_remain e)]) t.
Definition canon_msg (m : msg) : list Z :=
  match m with
  | Result c => [0; zN c]
  | WriteBDT t => 1 :: canon_bdt t
  | ReadBDT => [2]
  | ReadBDTAck t => 3 :: canon_bdt t
  | Forwarded a p => 4 :: canon_addr a ++ [zN p]
  | RegisterFD t => [5; zN t]
  | ReadFDT => [6]
  | ReadFDTAck t => 7 :: canon_fdt t
  | DeleteFDT a => 8 :: canon_addr a
  | Distribute p => [9; zN p]
  | OrigUnicast p => [10; zN p]
  | OrigBroadcast p => [11; zN p]
  end%Z.
Definition canon_action (a : action) : list Z :=
  match a with
  | Up s d p => 1 :: canon_addr s ++ canon_dest d ++ [zN p]
  | Down d m => 2 :: canon_dest d ++ canon_msg m
  | Sap s m => 3 :: canon_addr s ++ canon_msg m
  end%Z.
Definition canon_actions (l : list action) : list Z := zlen l :: flat_map canon_action l.
Definition canon_optz (o : option Z) : Z := match o with Some z => z | None => (-1)%Z end.
Definition canon_foreign (f : foreign) : list Z :=
  [f_status f;
   match f_bbmd f with Some a => zN (fst a) | None => (-1)%Z end;
   match f_bbmd f with Some a => zN (snd a) | None => (-1)%Z end;
   canon_optz (f_ttl f); canon_optz (f_renew f); canon_optz (f_expire f)].
Definition canon_bbmd (b : bbmd) : list Z := canon_bdt (b_bdt b) ++ canon_fdt (b_fdt b).

Definition canon_res {A} (f : A -> list Z) (r : res A) : list Z :=
  match r with Ok a => 0%Z :: f a | Err e => [1%Z; err_code e] end.

Definition canon_ok (l : list Z) : list Z := 0%Z :: l.
Definition canon_bstep (r : bbmd * list action) : list Z := canon_bbmd (fst r) ++ canon_actions (snd r).
Definition canon_fstep (r : foreign * list action) : list Z := canon_foreign (fst r) ++ canon_actions (snd r).

(* ------------------------------------------------------------------ histories of one BBMD *)
Inductive bev :=
| BConf (src : addr) (d : dest) (m : msg)     (* a frame arrives *)
| BInd (d : dest) (p : npdu)                  (* its own network layer sends *)
| BTick.                                      (* the 1 s recurring task *)

Definition bbmd_step (b : bbmd) (e : bev) : bbmd * list action :=
  match e with
  | BConf s d m => bbmd_confirmation b s d m
  | BInd d p => (b, bbmd_indication b d p)
  | BTick => (bbmd_tick b, [])
  end.

Definition bbmd_run (b : bbmd) (es : list bev) : bbmd := fold_left (fun b e => fst (bbmd_step b e)) es b.

(* per event: the table after it and what was emitted *)
Fixpoint canon_hist (b : bbmd) (es : list bev) : list Z :=
  match es with
  | [] => []
  | e :: r => let (b', a) := bbmd_step b e in canon_fdt (b_fdt b') ++ canon_actions a ++ canon_hist b' r
  end.
