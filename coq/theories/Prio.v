(* Prio.v — model of the commandable mix-in of py34/bacpypes/local/object.py:
     Commandable(datatype)._Commando.__init__            (804-835)
     _Commando._highest_priority_value                   (837-867)
     _Commando.WriteProperty                             (869-989)
     MinOnOffTask.present_value_change / process_task    (1025-1067)
     MinOnOff.__init__                                   (1076-1083)
   together with the part of object.py:Property.WriteProperty (322-363) they pass through
   (store the value, then call the property monitors) and of task.py (install_task with a
   delta replaces a pending installation; a task is due when `when <= now`).
   The code modelled is the tree *with* the two `fix:` commits of docs/C17.md.
   Values are abstract codes (Z): the code only ever compares them with `==`; for the two
   binary classes 0 is 'inactive' and 1 is 'active'.  Time is Z seconds (virtual clock).
   No proofs here (PrioFacts.v). *)
From Bac Require Export Base.
Open Scope Z_scope.

Definition val := Z.
Definition slot := option val.          (* None = the PriorityValue holds `null` *)

Definition INACTIVE : val := 0.
Definition ACTIVE : val := 1.

(* outcome of one WriteProperty call *)
Inductive wres : Set :=
| WOk
| WDenied                (* ExecutionError('property', 'writeAccessDenied')  *)
| WBadIndex              (* ExecutionError('property', 'invalidArrayIndex')  *)
| WExc (e : err).        (* any other exception class *)

Definition wres_code (r : wres) : Z :=
  match r with WOk => 0 | WDenied => 40 | WBadIndex => 42 | WExc e => 100 + err_code e end.

Record obj : Set := mkObj {
  slots : list slot;      (* priorityArray[1..16]; element k is priority k+1 *)
  dflt : val;             (* relinquishDefault *)
  pv : val;               (* presentValue *)
  monitored : bool;       (* class has the MinOnOff mix-in (a monitor on presentValue) *)
  min_on : Z;             (* minimumOnTime  `or 0` *)
  min_off : Z;            (* minimumOffTime `or 0` *)
  timer : option Z;       (* taskTime of the MinOnOffTask while it is scheduled *)
  now : Z }.

Definition with_slots (o : obj) (s : list slot) : obj :=
  mkObj s (dflt o) (pv o) (monitored o) (min_on o) (min_off o) (timer o) (now o).
Definition with_pv (o : obj) (v : val) : obj :=
  mkObj (slots o) (dflt o) v (monitored o) (min_on o) (min_off o) (timer o) (now o).
Definition with_timer (o : obj) (t : option Z) : obj :=
  mkObj (slots o) (dflt o) (pv o) (monitored o) (min_on o) (min_off o) t (now o).
Definition with_now (o : obj) (t : Z) : obj :=
  mkObj (slots o) (dflt o) (pv o) (monitored o) (min_on o) (min_off o) (timer o) t.

(* _highest_priority_value: first non-null slot scanning 1..16, else relinquishDefault *)
Fixpoint first_some (l : list slot) : option val :=
  match l with
  | [] => None
  | Some v :: _ => Some v
  | None :: r => first_some r
  end.
Definition winner (sl : list slot) (d : val) : val :=
  match first_some sl with Some v => v | None => d end.

Fixpoint set_nth (n : nat) (x : slot) (l : list slot) : list slot :=
  match l, n with
  | [], _ => []
  | _ :: r, O => x :: r
  | y :: r, S k => y :: set_nth k x r
  end.

Definition no_slots : list slot := repeat None 16.

(* MinOnOffTask.present_value_change: which delay applies to the new value *)
Definition hold_time (o : obj) (v : val) : option Z :=
  if v =? ACTIVE then Some (min_on o)
  else if v =? INACTIVE then Some (min_off o)
  else None.                                         (* raise ValueError *)

(* WriteProperty(priorityArray, v, arrayIndex=i) — also what a write of presentValue with
   priority i is redirected to.  `fuel` bounds the re-entrant call made by the monitor
   (present_value_change writes priority 6 through the same method). *)
Fixpoint write_slot (fuel : nat) (o : obj) (i : Z) (v : slot) : obj * wres :=
  match fuel with
  | O => (o, WExc OutOfFuel)
  | S f =>
    if i =? 0 then (o, WDenied)
    else if (i <? 1) || (i >? 16) then (o, WBadIndex)
    else
      let o1 := with_slots o (set_nth (Z.to_nat (i - 1)) v (slots o)) in
      let w := winner (slots o1) (dflt o1) in
      if w =? pv o1 then (o1, WOk)                   (* "no present value change" *)
      else
        (* Property.WriteProperty(presentValue, w): store, then the monitors *)
        let old := pv o1 in
        let o2 := with_pv o1 w in
        if negb (monitored o2) then (o2, WOk)
        else if old =? w then (o2, WOk)              (* present_value_change: no state change *)
        else match hold_time o2 w with
             | None => (o2, WExc ValueErr)
             | Some d =>
                 if d =? 0 then (o2, WOk)            (* "no delay": nothing written, timer untouched *)
                 else
                   let (o3, r) := write_slot f o2 6 (Some w) in
                   match r with
                   | WOk => (with_timer o3 (Some (now o3 + d)), WOk)   (* install_task(delta=d) *)
                   | _ => (o3, r)
                   end
             end
  end.

(* a command: WriteProperty('presentValue', v or (), priority=p) *)
Definition prio_index (p : option Z) : Z := match p with None => 16 | Some i => i end.
Definition command (o : obj) (p : option Z) (v : slot) : obj * wres :=
  write_slot 2 o (prio_index p) v.

(* the clock moves on by dt and the task manager runs what is due:
   MinOnOffTask.process_task = WriteProperty('presentValue', (), priority=6) *)
Definition tick (o : obj) (dt : Z) : obj * wres :=
  let o1 := with_now o (now o + dt) in
  match timer o1 with
  | Some d => if d <=? now o1 then write_slot 2 (with_timer o1 None) 6 None else (o1, WOk)
  | None => (o1, WOk)
  end.

Inductive op : Set :=
| Cmd (p : option Z) (v : slot)
| Tick (dt : Z).

Definition step (o : obj) (e : op) : obj * wres :=
  match e with Cmd p v => command o p v | Tick dt => tick o dt end.

Fixpoint run (o : obj) (es : list op) : obj :=
  match es with [] => o | e :: r => run (fst (step o e)) r end.

(* _Commando.__init__ (+ MinOnOff.__init__): `zero` is the datatype's default value.
   Without an explicit presentValue the constructor assigns the default through the
   property, the monitor is already attached, and when that value has a non-zero hold time
   the re-entrant write finds priorityArray still None: TypeError. *)
Definition new_obj (mon : bool) (zero : val) (init_pv init_dflt : option val) (on off : Z) : res obj :=
  let d := match init_dflt with Some d => d | None => zero end in
  match init_pv with
  | Some p => Ok (mkObj no_slots d p mon on off None 0)
  | None =>
      let o := mkObj no_slots d zero mon on off None 0 in
      if negb mon then Ok o
      else match hold_time o zero with
           | None => Err ValueErr
           | Some t => if t =? 0 then Ok o else Err TypeErr
           end
  end.

(* ---- canonical observation for the correspondence check ---- *)
Definition slot_code (s : slot) : Z := match s with None => -1 | Some v => v end.
Definition timer_code (t : option Z) : Z := match t with None => -1 | Some d => d end.
Definition observe (o : obj) : list Z := pv o :: timer_code (timer o) :: map slot_code (slots o).

(* the 16 slots packed into one number, base 64, slot 1 in the lowest digit:
   digit 0 = null, v+1 for a value code 0..61, 63 = anything else *)
Definition slot_digit (s : slot) : Z :=
  match s with
  | None => 0
  | Some v => if (0 <=? v) && (v <? 62) then v + 1 else 63
  end.
Fixpoint pack (sl : list slot) : Z :=
  match sl with [] => 0 | s :: r => slot_digit s + 64 * pack r end.
Definition observe_packed (o : obj) : list Z :=
  [pv o; timer_code (timer o); if Nat.eqb (length (slots o)) 16 then pack (slots o) else -1].

Fixpoint trace (o : obj) (es : list op) : list Z :=
  match es with
  | [] => []
  | e :: r => let (o', w) := step o e in (wres_code w :: observe_packed o') ++ trace o' r
  end.

Definition trace_from (ro : res obj) (es : list op) : list Z :=
  match ro with
  | Err e => [1; err_code e]
  | Ok o => 0 :: observe_packed o ++ trace o es
  end.

(* ---- the hold of a minimum on/off time, as the statement of C17 describes it ----
   Computed from what an observer sees (the present value before and after an operation, the
   clock, the two minimum times) and from nothing inside the task manager: the state held in
   slot 6 and the instant the hold ends.  PrioHold.v proves that slot 6 and the pending release of
   the model are exactly this, after any history that does not itself command priority 6. *)
Definition hold : Set := option (val * Z).       (* (state held in slot 6, until) *)

(* a hold whose time is over is gone *)
Definition expire (g : hold) (nw : Z) : hold :=
  match g with
  | Some (_, u) => if u <=? nw then None else g
  | None => None
  end.

(* minimum time of a state; states other than active / inactive have none *)
Definition min_time (on off : Z) (v : val) : Z :=
  if v =? ACTIVE then on else if v =? INACTIVE then off else 0.

(* one operation seen from outside: a change of the present value to a state with a minimum time
   > 0 starts a hold of exactly that length at the current instant (replacing a running one); any
   other operation leaves a running hold as it is — in particular a change to a state without a
   minimum time; the hold ends when the clock reaches its deadline *)
Definition hold_step (on off : Z) (g : hold) (pv0 pv1 now1 : Z) : hold :=
  expire (if negb (pv1 =? pv0) && (0 <? min_time on off pv1)
          then Some (pv1, now1 + min_time on off pv1) else g) now1.

Fixpoint hold_after (o : obj) (g : hold) (es : list op) : hold :=
  match es with
  | [] => g
  | e :: r => let o' := fst (step o e) in
              hold_after o' (hold_step (min_on o) (min_off o) g (pv o) (pv o') (now o')) r
  end.

(* histories that leave priority 6 to the hold mechanism *)
Fixpoint no_user6 (es : list op) : bool :=
  match es with
  | [] => true
  | Cmd p _ :: r => negb (prio_index p =? 6) && no_user6 r
  | Tick _ :: r => no_user6 r
  end.
