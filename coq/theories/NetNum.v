(* NetNum.v — network-number learning on top of Net.v (property C06):
   NetworkServiceElement.what_is_network_number / WhatIsNetworkNumber / network_number_is / NetworkNumberIs
   (py34/bacpypes/netservice.py, the last four methods of NetworkServiceElement) and
   RouterInfoCache.update_source_network as seen through the lookup.
   A node that hears Network-Number-Is re-files its single adapter under the announced number: the map
   NetworkServiceAccessPoint.adapters keeps exactly ONE key per adapter (modelled: the list `adapters` keeps its
   length, the adapter's a_net is replaced).  Routers of the modelled configurations were bound with the number of
   every port (adapterNetConfigured = 1), so an announcement never changes them.
   Messages 0x12 / 0x13 are link-local (clause 6.4.19/6.4.20: never routed): frames that carry them with a DADR or
   an SADR stay Unmodelled.  No proofs in this file. *)
From Bac Require Import Base Net.
Open Scope N_scope.

Record xnode := mkX {
  x_node : node;
  x_conf : N;      (* adapterNetConfigured of the adapter of a single-adapter node whose number is known:
                      1 = configured at bind time, 0 = learned, else the flag octet of the announcement it learned from *)
  x_task : N       (* network_number_is_task: 0 = None, 1 = scheduled (fires 10 s later), 2 = has fired (object still set) *) }.

Definition what_num : npdu := mkNpdu None None 0 (Some 18) [].
Definition num_is (net flag : N) : npdu := mkNpdu None None 0 (Some 19) (put_short net ++ [flag]).

(* NetworkNumberIs.decode (npdu.py): get_short, get *)
Definition dec_num_is (data : list N) : res (N * N) :=
  do x <- get_short data; do f <- get (snd x); Ok (fst x, fst f).

(* adapterNetConfigured of a port whose number is known *)
Definition conf_of (x : xnode) : N := if is_router (x_node x) then 1 else x_conf x.

(* RouterInfoCache.update_source_network(old, new) seen through get_router_info: nothing when no router is filed
   under old; else whatever was filed under new goes and every (old, d) becomes (new, d) *)
Definition has_snet (c : cache) (s : option N) : bool := existsb (fun e => optN_eqb (fst (fst e)) s) c.
Definition cache_rekey (c : cache) (old new : option N) : cache :=
  if has_snet c old then
    map (fun e => if optN_eqb (fst (fst e)) old then ((new, snd (fst e)), snd e) else e)
        (filter (fun e => negb (optN_eqb (fst (fst e)) new)) c)
  else c.

(* del sap.adapters[old]; adapter.adapterNet = net; sap.adapters[net] = adapter — one adapter, one key *)
Definition set_net (n : node) (net : N) (c : cache) : node :=
  match adapters n with
  | [a] => mkNode [mkAd (Some net) (a_mac a)] (has_app n) c (pending n)
  | _ => n
  end.

(* network_number_is(adapter) *)
Definition announce (x : xnode) (i : nat) (ai : adapter) : list action :=
  match a_net ai with
  | None => []
  | Some net => [Tx i LBcast (num_is net (conf_of x))]
  end.

(* NetworkServiceElement.WhatIsNetworkNumber *)
Definition nse_what_num (x : xnode) (i : nat) (ai : adapter) (dst : ldest) : xnode * list action :=
  match a_net ai with
  | None => (x, [])
  | Some _ =>
      match dst with
      | LBcast =>
          if negb (is_router (x_node x)) && (x_task x =? 0)
          then (mkX (x_node x) (x_conf x) 1, [])          (* not a router: wait 10 s for somebody else *)
          else (x, announce x i ai)
      | LStation _ => (x, announce x i ai)
      end
  end.

(* NetworkServiceElement.NetworkNumberIs *)
Definition nse_num_is (x : xnode) (i : nat) (ai : adapter) (dst : ldest) (net flag : N) : xnode * list action :=
  match dst with
  | LStation _ => (x, [])
  | LBcast =>
      let n := x_node x in
      match a_net ai with
      | None => (mkX (set_net n net (cache_rekey (rcache n) None (Some net))) 0 0, [])
      | Some old =>
          if old =? net then (mkX n (x_conf x) 0, [])
          else if conf_of x =? 1 then (mkX n (x_conf x) 0, [])
          else (mkX (set_net n net (cache_rekey (rcache n) (Some old) (Some net))) flag 0, [])
      end
  end.

Definition lift (x : xnode) (r : node * list action) : xnode * list action :=
  (mkX (fst r) (x_conf x) (x_task x), snd r).

(* process_npdu with the two number messages dispatched (no DADR: processLocally, not forwarded) *)
Definition xprocess (x : xnode) (i : nat) (src : mac) (dst : ldest) (p : npdu) : xnode * list action :=
  let n := x_node x in
  let other := lift x (process_npdu n i src dst p) in
  match n_msg p with
  | None => other
  | Some t =>
      if (t =? 18) || (t =? 19) then
        match nth_adapter n i with
        | None => (x, [Raise OtherErr])
        | Some ai =>
            if negb (modelled_config n) then (x, [Unmodelled]) else
            match n_dadr p, n_sadr p with
            | None, None =>
                if t =? 18 then nse_what_num x i ai dst
                else match dec_num_is (n_data p) with
                     | Err e => (x, [Raise e])
                     | Ok (net, flag) => nse_num_is x i ai dst net flag
                     end
            | _, _ => (x, [Unmodelled])
            end
        end
      else other
  end.

Inductive xevent :=
| XE (e : event)            (* learn / send / arrive as in Net.v (arrivals go through xprocess) *)
| XAsk                      (* nse.what_is_network_number(): ask on every adapter whose number is unknown *)
| XAnnounce                 (* nse.network_number_is(): announce on every adapter with a configured number *)
| XTick.                    (* more than 10 s pass *)

Definition do_xevent (x : xnode) (e : xevent) : xnode * list action :=
  let n := x_node x in
  match e with
  | XE (EArrive i s d p) => xprocess x i s d p
  | XE e' => lift x (do_event n e')
  | XAsk =>
      (x, flat_map (fun j => match nth_adapter n j with
                             | Some a => match a_net a with None => [Tx j LBcast what_num] | Some _ => [] end
                             | None => [] end) (all_ports n))
  | XAnnounce =>
      (x, flat_map (fun j => match nth_adapter n j with
                             | Some a => match a_net a with
                                         | Some net => if conf_of x =? 1 then [Tx j LBcast (num_is net 1)] else []
                                         | None => [] end
                             | None => [] end) (all_ports n))
  | XTick =>
      if x_task x =? 1 then
        match nth_adapter n 0 with
        | Some a => (mkX n (x_conf x) 2, announce x 0%nat a)
        | None => (mkX n (x_conf x) 2, [])
        end
      else (x, [])
  end.

Fixpoint run_xscript (x : xnode) (es : list xevent) : xnode * list (list action) :=
  match es with
  | [] => (x, [])
  | e :: r => let '(x1, a) := do_xevent x e in
              let '(x2, l) := run_xscript x1 r in (x2, a :: l)
  end.

(* a freshly bound node: configured where the number was given *)
Definition xinit (n : node) : xnode := mkX n 1 0.

(* canonical output: actions per event, then the adapters map (key, adapterNet, adapterNetConfigured per entry),
   the task state, the cache view and the parked packets *)
Definition c_optnet (o : option N) : Z := match o with Some v => zN v | None => (-1)%Z end.
Definition c_adapters (x : xnode) : list Z :=
  zlen (adapters (x_node x))
  :: flat_map (fun a => [c_optnet (a_net a); c_optnet (a_net a);
                         match a_net a with Some _ => zN (conf_of x) | None => (-1)%Z end]) (adapters (x_node x)).
Definition c_xscript (r : xnode * list (list action)) (grid : list N) : list Z :=
  flat_map c_actions (snd r) ++ c_adapters (fst r) ++ [zN (x_task (fst r))]
  ++ c_cache_view (x_node (fst r)) grid ++ c_pending (x_node (fst r)).
