(* SchedRun.v — core.run (guarded code): terminates within the supplied fuel in a quiescent state,
   loses nothing, hence fires everything that was due whichever tasks raise. *)
From Bac Require Import Base Deferred DeferredFacts Sched SchedFacts SchedThms SchedPassive SchedOrder.
From Coq Require Import Permutation Sorted ZifyBool ZifyN ZifyNat.
Ltac Zify.zify_post_hook ::= Z.to_euclidean_division_equations.
Open Scope Z_scope.

Definition rmeasure (s : st) : nat :=
  (2 * due_count s + match dq s with [] => 0 | _ :: _ => 1 end)%nat.

Lemma quiescent_spec : forall s, Inv s -> quiescent s = true -> dq s = [] /\ due_count s = 0%nat.
Proof.
  intros s [[Hso _ _ _] _] H. unfold quiescent in H. destruct (dq s); [|discriminate].
  split; [reflexivity|]. rewrite due_count_eq. destruct (heap s) as [|e r]; [reflexivity|].
  apply dcount_sorted_zero; [exact Hso | lia].
Qed.

Lemma run_loop_progress : forall jit c, passive_cfg c -> 0 <= jit -> forall fuel s s' ev, Inv s -> passive_dq s ->
  (rmeasure s < fuel)%nat -> run_loop true jit c fuel s = (s', ev) ->
  ~ In (EvErr OutOfFuel) ev /\ now s' = now s /\ Inv s' /\ quiescent s' = true.
Proof.
  intros jit c Hc Hj. induction fuel as [|f IH]; intros s s' ev Hi Hp Hf H; [lia|].
  cbn [run_loop] in H. destruct (quiescent s) eqn:Q.
  { inversion H; subst. split; [intros []|]. split; [reflexivity|]. split; assumption. }
  destruct (get_next_task s) as [[t s1] z] eqn:G. destruct t as [e|].
  - destruct (process_task jit c s1 e) as [[s2 ev1] r1] eqn:P. cbv beta iota zeta in H.
    destruct (fire_heap_inv _ _ _ _ _ _ _ _ _ Hc Hi Hp G P) as [rest [Hh [Hd [Hn [Hi2 [Hp2 [_ Hx]]]]]]].
    assert (Hev : ev1 = [fire_of s1 e] \/ exists i, ev1 = [fire_of s1 e; EvInst i true]).
    { destruct Hx as [[_ ->]|[iv [off [_ [_ [_ [-> _]]]]]]]; [left; reflexivity | right; eexists; reflexivity]. }
    assert (Hs : due_count s = S (dcount (now s) rest)).
    { rewrite due_count_eq, Hh. unfold dcount. cbn [filter].
      destruct (e_when e <=? now s) eqn:E; [reflexivity | lia]. }
    assert (H2 : due_count s2 = dcount (now s) rest).
    { rewrite due_count_eq, Hn. destruct Hx as [[-> _]|[iv [off [_ [Hiv [_ [_ Hperm]]]]]]]; [reflexivity|].
      rewrite (dcount_perm _ _ _ Hperm). unfold dcount. cbn [filter e_when fst].
      pose proof (next_slot_after jit iv off (now s) Hiv Hj).
      destruct (next_slot jit iv off (now s) <=? now s) eqn:E; [lia | reflexivity]. }
    destruct r1.
    + destruct (run_loop true jit c f s2) as [s4 ev3] eqn:R. inversion H; subst.
      assert (Hm : (rmeasure s2 < f)%nat).
      { unfold rmeasure in *. rewrite H2. rewrite Hs in Hf. destruct (dq s2), (dq s); lia. }
      destruct (IH _ _ _ Hi2 Hp2 Hm R) as [Hnf [Hn4 [Hi4 Hq4]]].
      split; [|split; [congruence | split; assumption]].
      intros Hin. destruct Hin as [Hin|Hin]; [discriminate|]. apply in_app_or in Hin.
      destruct Hin as [Hin|Hin]; [|exact (Hnf Hin)]. apply in_app_or in Hin.
      destruct Hin as [Hin|[Hin|[]]]; [exact (fire_events_nofuel _ _ _ Hev Hin) | discriminate].
    + destruct (do_drain true jit c s2) as [[s3 ev2] r2] eqn:D.
      destruct (do_drain_passive _ _ _ _ _ _ _ Hp2 D) as [q [-> [_ [_ Hg]]]].
      destruct (Hg eq_refl) as [_ [-> Hnf2]].
      destruct (run_loop true jit c f (set_dq s2 [])) as [s4 ev3] eqn:R. inversion H; subst.
      assert (Hi3 : Inv (set_dq s2 [])) by (apply Inv_set_dq, Hi2).
      assert (Hm : (rmeasure (set_dq s2 []) < f)%nat).
      { unfold rmeasure in *. cbn [dq set_dq]. change (due_count (set_dq s2 [])) with (due_count s2).
        rewrite H2. rewrite Hs in Hf. destruct (dq s); lia. }
      destruct (IH _ _ _ Hi3 (eq_refl : passive_dq (set_dq s2 [])) Hm R) as [Hnf [Hn4 [Hi4 Hq4]]].
      split; [|split; [cbn [now set_dq] in Hn4; congruence | split; assumption]].
      intros Hin. destruct Hin as [Hin|Hin]; [discriminate|]. apply in_app_or in Hin.
      destruct Hin as [Hin|Hin]; [|exact (Hnf Hin)]. apply in_app_or in Hin.
      destruct Hin as [Hin|Hin]; [exact (fire_events_nofuel _ _ _ Hev Hin) | exact (Hnf2 Hin)].
  - cbv beta iota zeta in H. pose proof (get_next_none_due _ _ _ Hi G) as Hz0.
    apply get_next_none in G. destruct G as [-> ->].
    destruct (do_drain true jit c s) as [[s3 ev2] r2] eqn:D.
    destruct (do_drain_passive _ _ _ _ _ _ _ Hp D) as [q [-> [_ [_ Hg]]]].
    destruct (Hg eq_refl) as [_ [-> Hnf2]].
    destruct (run_loop true jit c f (set_dq s [])) as [s4 ev3] eqn:R. inversion H; subst.
    assert (Hi3 : Inv (set_dq s [])) by (apply Inv_set_dq, Hi).
    assert (Hdq : dq s <> []).
    { intros Hd. unfold quiescent in Q. rewrite Hd in Q. destruct Hi as [[Hso _ _ _] _].
      rewrite due_count_eq in Hz0. destruct (heap s) as [|e r]; [discriminate|].
      destruct (e_when e <=? now s) eqn:E; [|discriminate].
      pose proof (dcount_in (now s) (e :: r) e (or_introl eq_refl) ltac:(lia)). lia. }
    assert (Hm : (rmeasure (set_dq s []) < f)%nat).
    { unfold rmeasure in *. cbn [dq set_dq]. change (due_count (set_dq s [])) with (due_count s).
      destruct (dq s); [contradiction | lia]. }
    destruct (IH _ _ _ Hi3 (eq_refl : passive_dq (set_dq s [])) Hm R) as [Hnf [Hn4 [Hi4 Hq4]]].
    split; [|split; [exact Hn4 | split; assumption]].
    intros Hin. cbn [app] in Hin. apply in_app_or in Hin.
    destruct Hin as [Hin|Hin]; [exact (Hnf2 Hin) | exact (Hnf Hin)].
Qed.

(* core.run: ends within its fuel with nothing due and nothing deferred; every entry that was due
   has fired, whichever callbacks raised (callbacks without scheduling actions) *)
Lemma run_fires_all_due : forall jit c s s' ev, passive_cfg c -> passive_dq s -> 0 <= jit -> Inv s ->
  run true jit c s = (s', ev) ->
  ~ In (EvErr OutOfFuel) ev /\ dq s' = [] /\ due_count s' = 0%nat /\
  forall x, In x (heap s) -> e_when x <= now s -> In x (fired ev).
Proof.
  intros jit c s s' ev Hc Hp Hj Hi H.
  assert (Hm : (rmeasure s < 2 * due_count s + 2 + slack)%nat) by (unfold rmeasure; destruct (dq s); lia).
  destruct (run_loop_progress jit c Hc Hj _ _ _ _ Hi Hp Hm H) as [Hnf [Hn [Hi' Hq]]].
  destruct (quiescent_spec _ Hi' Hq) as [Hd Hz].
  split; [exact Hnf|]. split; [exact Hd|]. split; [exact Hz|].
  intros x Hx Hdue. destruct (run_conserves _ _ _ _ _ _ Hc Hp Hi H x Hx) as [Hin|Hin]; [|exact Hin].
  exfalso. rewrite due_count_eq in Hz. pose proof (dcount_in (now s') _ _ Hin ltac:(lia)). lia.
Qed.
