(* NetBcast.v — a remote broadcast travelling along a consistent route is heard exactly once by every listening
   station of the target network and by nobody else (lemmas about Net.v, property C06). *)
From Coq Require Import ZifyBool ZifyN ZifyNat.
From Bac Require Import Base Net NetFacts NetTerm NetTerm2 NetReply NetOnce NetRoute NetArrive NetLocal.
Ltac Zify.zify_post_hook ::= Z.to_euclidean_division_equations.
Open Scope N_scope.

(* ---- an intermediate router (no application) *)
Lemma router_forwards_bcast : forall n i ai inet src dst p d j m',
  nth_adapter n i = Some ai -> modelled_config n = true -> is_router n = true ->
  a_net ai = Some inet ->
  n_msg p = None -> n_dadr p = Some (DBcast d) -> n_hop p <> 0 ->
  (forall snet sm, n_sadr p = Some (snet, sm) -> find_net n (Some snet) = None /\ snet <> d) ->
  find_net n (Some d) = None ->
  find_path n d = Some (j, m') ->
  process_npdu n i src dst p =
    (learned n ai src p,
     [Fwd j (LStation m') (mkNpdu (n_dadr p) (Some (fwd_sadr inet src p)) (n_hop p - 1) None (n_data p))]).
Proof.
  intros n i ai inet src dst p d j m' Ha Hm Hr Hi Hmsg Hd Hh Hs Hfn Hfp.
  assert (Hain : In ai (adapters n)) by (eapply nth_error_In; exact Ha).
  destruct (local_adapter_exists _ _ _ Ha) as [la Hla].
  assert (Hlain : In la (adapters n)) by (eapply nth_error_In; exact Hla).
  unfold process_npdu. rewrite Ha, Hm, Hla. cbn [negb].
  assert (Hspoof : match n_sadr p with
                   | Some (snet, _) => match find_net n (Some snet) with Some _ => true | None => false end
                   | None => false end = false).
  { destruct (n_sadr p) as [[snet sm]|] eqn:Es; [|reflexivity]. destruct (Hs snet sm eq_refl) as [H1 _]. rewrite H1. reflexivity. }
  rewrite Hspoof. fold (learned n ai src p).
  rewrite Hd, Hmsg. cbv iota beta.
  rewrite (not_connected n d ai Hfn Hain), (not_connected n d la Hfn Hlain). cbn [andb].
  unfold forward.
  assert (Er : is_router (learned n ai src p) = true) by (unfold is_router; rewrite learned_adapters; exact Hr).
  rewrite Er. cbn [negb].
  destruct (N.eqb_spec (n_hop p) 0); [contradiction|]. rewrite Hi.
  assert (Efn : find_net (learned n ai src p) (Some d) = None) by (unfold find_net; rewrite learned_adapters; exact Hfn).
  rewrite Efn.
  rewrite (learned_find_path n ai src p d), Hfp by (intros snet sm E; apply (Hs snet sm E)).
  rewrite Hmsg, Hd. reflexivity.
Qed.

(* ---- the last router (no application): one local broadcast on the target network, DADR removed *)
Lemma last_router_bcast : forall n i ai inet src dst p d j,
  nth_adapter n i = Some ai -> modelled_config n = true -> is_router n = true -> has_app n = false ->
  a_net ai = Some inet ->
  n_msg p = None -> n_dadr p = Some (DBcast d) -> n_hop p <> 0 ->
  (forall snet sm, n_sadr p = Some (snet, sm) -> find_net n (Some snet) = None) ->
  find_net n (Some d) = Some j -> j <> i -> optN_eqb (Some d) (a_net ai) = false ->
  process_npdu n i src dst p =
    (learned n ai src p,
     [Fwd j LBcast (mkNpdu None (Some (fwd_sadr inet src p)) (n_hop p - 1) None (n_data p))]).
Proof.
  intros n i ai inet src dst p d j Ha Hm Hr Happ Hi Hmsg Hd Hh Hs Hfn Hji Hnai.
  destruct (local_adapter_exists _ _ _ Ha) as [la Hla].
  unfold process_npdu. rewrite Ha, Hm, Hla. cbn [negb].
  assert (Hspoof : match n_sadr p with
                   | Some (snet, _) => match find_net n (Some snet) with Some _ => true | None => false end
                   | None => false end = false).
  { destruct (n_sadr p) as [[snet sm]|] eqn:Es; [|reflexivity]. rewrite (Hs snet sm eq_refl). reflexivity. }
  rewrite Hspoof. fold (learned n ai src p).
  rewrite Hd, Hmsg. cbv iota beta. rewrite Hnai.
  assert (Hha : has_app (learned n ai src p) = false) by (unfold learned; destruct (n_sadr p) as [[? ?]|]; exact Happ).
  rewrite Hha, andb_false_r.
  unfold forward.
  assert (Er : is_router (learned n ai src p) = true) by (unfold is_router; rewrite learned_adapters; exact Hr).
  rewrite Er. cbn [negb].
  destruct (N.eqb_spec (n_hop p) 0); [contradiction|]. rewrite Hi.
  assert (Efn : find_net (learned n ai src p) (Some d) = Some j) by (unfold find_net; rewrite learned_adapters; exact Hfn).
  rewrite Efn. destruct (Nat.eqb_spec j i); [contradiction|]. rewrite Hmsg. reflexivity.
Qed.

(* ---- the target LAN: who listens *)
Definition listenerb (ns : list wnode) (f : frame) (x : nat * nat) : bool :=
  match nth_error ns (fst x) with
  | Some w =>
      match nth_error (w_ports w) (snd x), adapters (w_node w), n_sadr (f_npdu f) with
      | Some (_, wmac), [a], Some (sn, _) =>
          Nat.eqb (snd x) 0 && accepts wmac f && has_app (w_node w) && negb (optN_eqb (a_net a) (Some sn))
      | _, _, _ => false
      end
  | None => false
  end.

Definition silentb (ns : list wnode) (x : nat * nat) : bool :=
  match nth_error ns (fst x) with Some w => negb (has_app (w_node w)) | None => true end.

Lemma listenerb_set_nth : forall ns who w' f x, fst x <> who ->
  listenerb (set_nth ns who w') f x = listenerb ns f x.
Proof. intros. unfold listenerb. rewrite set_nth_nth_other by auto. reflexivity. Qed.

Lemma silentb_set_nth : forall ns who w' x, fst x <> who -> silentb (set_nth ns who w') x = silentb ns x.
Proof. intros. unfold silentb. rewrite set_nth_nth_other by auto. reflexivity. Qed.

Lemma hearers_length : forall os, length (hearers os) = ups os.
Proof.
  unfold hearers, ups. induction os as [|o l IH]; [reflexivity|]. cbn [flat_map filter].
  destruct o; cbn [is_oup app length]; rewrite ?IH; auto.
Qed.

Lemma deliver_bcast_exact : forall members ns f q tr ns' q' tr' sn sm,
  deliver ns f members q tr = (ns', q', tr') ->
  n_dadr (f_npdu f) = None -> n_msg (f_npdu f) = None -> apdu_ok (n_data (f_npdu f)) = true ->
  n_sadr (f_npdu f) = Some (sn, sm) ->
  NoDup (map fst members) ->
  (forall x, In x members -> listenerb ns f x = true \/ silentb ns x = true) ->
  q' = q /\ exists osn, tr' = osn ++ tr /\ hearers osn = rev (map fst (filter (listenerb ns f) members)).
Proof.
  induction members as [|[who port] r IH]; intros ns f q tr ns' q' tr' sn sm H Hd Hm Hok Hs Hnd Hcl; cbn [deliver] in H.
  - inversion H; subst. split; [reflexivity|]. exists []. split; reflexivity.
  - cbn [map fst] in Hnd. inversion Hnd as [|? ? Hnotin Hnd']; subst.
    assert (Hcl' : forall x, In x r -> listenerb ns f x = true \/ silentb ns x = true) by (intros x Hx; apply Hcl; right; assumption).
    assert (Hskip : listenerb ns f (who, port) = false -> deliver ns f r q tr = (ns', q', tr') ->
              q' = q /\ exists osn, tr' = osn ++ tr /\
                hearers osn = rev (map fst (filter (listenerb ns f) ((who, port) :: r)))).
    { intros Hl H0. cbn [filter]. rewrite Hl. eapply IH; eauto. }
    destruct (nth_error ns who) as [w|] eqn:En.
    2:{ apply Hskip; [|assumption]. unfold listenerb. cbn [fst]. rewrite En. reflexivity. }
    destruct (nth_error (w_ports w) port) as [[lan wmac]|] eqn:Ep.
    2:{ apply Hskip; [|assumption]. unfold listenerb. cbn [fst snd]. rewrite En, Ep. reflexivity. }
    destruct (accepts wmac f) eqn:Eacc.
    2:{ apply Hskip; [|assumption]. unfold listenerb. cbn [fst snd]. rewrite En, Ep.
        destruct (adapters (w_node w)) as [|a [|b l]]; try reflexivity. rewrite Hs, Eacc.
        rewrite andb_false_r. reflexivity. }
    destruct (process_npdu (w_node w) port (f_src f) (f_dst f) (f_npdu f)) as [n' acts] eqn:Epr.
    destruct (emit (mkW n' (w_ports w)) who acts) as [fs os] eqn:Ee.
    (* the rest of the members are classified the same way after this node has changed *)
    assert (Hrest : forall x, In x r -> fst x <> who).
    { intros x Hx E. apply Hnotin. rewrite <- E. apply in_map. assumption. }
    assert (Hcl2 : forall x, In x r -> listenerb (set_nth ns who (mkW n' (w_ports w))) f x = true \/
                                       silentb (set_nth ns who (mkW n' (w_ports w))) x = true).
    { intros x Hx. rewrite listenerb_set_nth, silentb_set_nth by (apply Hrest; assumption). apply Hcl'. assumption. }
    assert (Hfilt : filter (listenerb (set_nth ns who (mkW n' (w_ports w))) f) r = filter (listenerb ns f) r).
    { apply filter_ext_in. intros x Hx. apply listenerb_set_nth. apply Hrest. assumption. }
    pose proof (process_npdu_nodadr _ _ _ _ _ _ _ Epr Hd Hm) as Hq.
    destruct (emit_quiet _ _ _ _ _ Ee Hq) as (Hfs & Hups & Hwho). subst fs. rewrite app_nil_r in H.
    destruct (IH _ _ _ _ _ _ _ sn sm H Hd Hm Hok Hs Hnd' Hcl2) as (A1 & osn & A2 & A3).
    split; [assumption|]. exists (osn ++ rev os). rewrite rev_append_rev in A2. rewrite A2, <- app_assoc.
    split; [reflexivity|]. rewrite hearers_app, A3, Hfilt. cbn [filter].
    destruct (listenerb ns f (who, port)) eqn:El.
    + (* a listening station: exactly one delivery *)
      unfold listenerb in El. cbn [fst snd] in El. rewrite En, Ep in El.
      destruct (adapters (w_node w)) as [|a [|b l]] eqn:Ead; try discriminate. rewrite Hs in El.
      apply andb_prop in El. destruct El as [El E4]. apply andb_prop in El. destruct El as [El E3].
      apply andb_prop in El. destruct El as [E1 E2]. apply Nat.eqb_eq in E1. subst port.
      assert (E4' : optN_eqb (a_net a) (Some sn) = false) by (destruct (optN_eqb (a_net a) (Some sn)); [discriminate|reflexivity]).
      rewrite (station_hands_up (w_node w) a (f_src f) (f_dst f) (f_npdu f) sn sm Ead E3 Hm Hd Hok Hs E4') in Epr.
      inversion Epr; subst n' acts. cbn [emit] in Ee. inversion Ee; subst os.
      cbn [map fst rev hearers flat_map app]. reflexivity.
    + (* a silent node: nothing is handed up *)
      destruct (Hcl (who, port) (or_introl eq_refl)) as [Hc|Hc]; [congruence|].
      unfold silentb in Hc. cbn [fst] in Hc. rewrite En in Hc.
      assert (Hnu : forall s d x, ~ In (Up s d x) acts).
      { intros s d x Hin. destruct (process_npdu_up _ _ _ _ _ _ _ _ _ _ Epr Hin) as (? & ? & _ & _ & _ & _ & Hha & _).
        rewrite Hha in Hc. discriminate. }
      assert (Hz : ups os = 0%nat) by (rewrite (count_up_none _ Hnu) in Hups; lia).
      assert (Hh : hearers (rev os) = []).
      { assert (length (hearers (rev os)) = 0%nat).
        { rewrite hearers_length. unfold ups in *. clear - Hz. 
          assert (forall l, length (filter is_oup (rev l)) = length (filter is_oup l)).
          { induction l as [|o l IHl]; [reflexivity|]. cbn [rev]. rewrite filter_app, app_length. cbn [filter].
            destruct (is_oup o); cbn [length]; lia. }
          rewrite H. assumption. }
        destruct (hearers (rev os)); [reflexivity|discriminate]. }
      rewrite Hh, app_nil_r. reflexivity.
Qed.

(* `bcast_arrives lns ns f hs`: frame f (a remote broadcast, alone in flight) follows a consistent route to its
   target network, where exactly the nodes hs hear it *)
Inductive bcast_arrives (lns : list (N * list (nat * nat))) : list wnode -> frame -> list nat -> Prop :=
| barr_last_router : forall ns f who i w m ai inet d j lan' mj,
    acceptor lns ns f who i w m ->
    nth_adapter (w_node w) i = Some ai ->
    modelled_config (w_node w) = true -> is_router (w_node w) = true -> has_app (w_node w) = false ->
    a_net ai = Some inet ->
    n_msg (f_npdu f) = None -> n_dadr (f_npdu f) = Some (DBcast d) -> n_hop (f_npdu f) <> 0 ->
    (forall snet sm, n_sadr (f_npdu f) = Some (snet, sm) -> find_net (w_node w) (Some snet) = None) ->
    find_net (w_node w) (Some d) = Some j -> j <> i -> optN_eqb (Some d) (a_net ai) = false ->
    nth_error (w_ports w) j = Some (lan', mj) ->
    apdu_ok (n_data (f_npdu f)) = true ->
    NoDup (map fst (lan_members lns lan')) ->
    (forall x, In x (lan_members lns lan') ->
       listenerb (set_nth ns who (mkW (learned (w_node w) ai (f_src f) (f_npdu f)) (w_ports w)))
                 (mkFrame lan' mj LBcast
                    (mkNpdu None (Some (fwd_sadr inet (f_src f) (f_npdu f))) (n_hop (f_npdu f) - 1) None (n_data (f_npdu f)))) x = true
       \/ silentb (set_nth ns who (mkW (learned (w_node w) ai (f_src f) (f_npdu f)) (w_ports w))) x = true) ->
    bcast_arrives lns ns f
      (rev (map fst (filter
         (listenerb (set_nth ns who (mkW (learned (w_node w) ai (f_src f) (f_npdu f)) (w_ports w)))
                    (mkFrame lan' mj LBcast
                       (mkNpdu None (Some (fwd_sadr inet (f_src f) (f_npdu f))) (n_hop (f_npdu f) - 1) None (n_data (f_npdu f)))))
         (lan_members lns lan'))))
| barr_router : forall ns f who i w m ai inet d j m' lan' mj hs,
    acceptor lns ns f who i w m ->
    nth_adapter (w_node w) i = Some ai ->
    modelled_config (w_node w) = true -> is_router (w_node w) = true -> a_net ai = Some inet ->
    n_msg (f_npdu f) = None -> n_dadr (f_npdu f) = Some (DBcast d) -> n_hop (f_npdu f) <> 0 ->
    (forall snet sm, n_sadr (f_npdu f) = Some (snet, sm) -> find_net (w_node w) (Some snet) = None /\ snet <> d) ->
    find_net (w_node w) (Some d) = None -> find_path (w_node w) d = Some (j, m') ->
    nth_error (w_ports w) j = Some (lan', mj) ->
    bcast_arrives lns (set_nth ns who (mkW (learned (w_node w) ai (f_src f) (f_npdu f)) (w_ports w)))
            (mkFrame lan' mj (LStation m')
               (mkNpdu (n_dadr (f_npdu f)) (Some (fwd_sadr inet (f_src f) (f_npdu f))) (n_hop (f_npdu f) - 1) None
                       (n_data (f_npdu f))))
            hs ->
    bcast_arrives lns ns f hs.

Theorem bcast_route_arrives : forall lns ns f hs,
  bcast_arrives lns ns f hs ->
  forall w, lans w = lns -> nodes w = ns -> queue w = [f] ->
  exists k osn, queue (run k w) = [] /\ trace (run k w) = osn ++ trace w /\ hearers osn = hs.
Proof.
  intros lns ns f hs H. induction H; intros w0 Hl Hn Hq; subst lns ns.
  - (* the last router, then the target LAN *)
    pose proof (last_router_bcast (w_node w) i ai inet (f_src f) (f_dst f) (f_npdu f) d j) as Hpr. feed Hpr.
    match type of Hpr with _ = (?nn, [Fwd _ ?dst ?q]) =>
      assert (He : emit (mkW nn (w_ports w)) who [Fwd j dst q] = ([mkFrame lan' mj dst q], []))
        by (cbn [emit w_ports]; match goal with Hx : nth_error (w_ports w) j = Some _ |- _ => rewrite Hx end; reflexivity)
    end.
    pose proof (step_exact w0 f who i w m _ _ _ _ Hq H Hpr He) as Hs1.
    match type of Hs1 with step _ = Some ?ww => set (w1 := ww) in * end.
    match goal with Hc : forall x, In x (lan_members (lans w0) lan') -> _ |- _ => rename Hc into Hcl end.
    set (g := mkFrame lan' mj LBcast
                (mkNpdu None (Some (fwd_sadr inet (f_src f) (f_npdu f))) (n_hop (f_npdu f) - 1) None (n_data (f_npdu f)))) in *.
    destruct (deliver (nodes w1) g (lan_members (lans w1) (f_lan g)) [] [OFrame g]) as [[ns2 q2] os2] eqn:Ed.
    assert (Hgs : n_sadr (f_npdu g) = Some (fst (fwd_sadr inet (f_src f) (f_npdu f)), snd (fwd_sadr inet (f_src f) (f_npdu f))))
      by (subst g; cbn [f_npdu n_sadr]; destruct (fwd_sadr inet (f_src f) (f_npdu f)); reflexivity).
    destruct (deliver_bcast_exact _ _ g _ _ _ _ _ _ _ Ed eq_refl eq_refl ltac:(assumption) Hgs
                ltac:(assumption) Hcl) as (Hq2 & osn & Htr & Hh).
    exists 2%nat, (osn ++ [OFrame g] ++ [OFrame f]). cbn [run]. rewrite Hs1.
    unfold step, step_core. cbn [queue w1]. fold g. change (lans w1) with (lans w0) in *. rewrite Ed.
    cbn [queue trace]. subst q2 os2. repeat split.
    + cbn [w1 trace rev_append app]. rewrite <- !app_assoc. reflexivity.
    + rewrite !hearers_app. cbn [hearers flat_map app]. rewrite app_nil_r. exact Hh.
  - (* an intermediate router *)
    pose proof (router_forwards_bcast (w_node w) i ai inet (f_src f) (f_dst f) (f_npdu f) d j m') as Hpr. feed Hpr.
    match type of Hpr with _ = (?nn, [Fwd _ ?dst ?q]) =>
      assert (He : emit (mkW nn (w_ports w)) who [Fwd j dst q] = ([mkFrame lan' mj dst q], []))
        by (cbn [emit w_ports]; match goal with Hx : nth_error (w_ports w) j = Some _ |- _ => rewrite Hx end; reflexivity)
    end.
    pose proof (step_exact w0 f who i w m _ _ _ _ Hq H Hpr He) as Hs.
    match type of Hs with step _ = Some ?w1 => destruct (IHbcast_arrives w1 eq_refl eq_refl eq_refl) as (k & osn & A1 & A2 & A3) end.
    exists (S k). exists (osn ++ [OFrame f]). cbn [run]. rewrite Hs. split; [exact A1|]. split.
    + rewrite A2. cbn [trace rev_append app]. rewrite <- app_assoc. reflexivity.
    + rewrite hearers_app. cbn [hearers flat_map app]. rewrite app_nil_r. exact A3.
Qed.
