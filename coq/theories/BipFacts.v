(* BipFacts.v — lemmas about Bip.v: the foreign device table under any history (one entry per
   address, served window counted in ticks, immediate deletion), the renewal arithmetic, and the
   per-frame forwarding decisions (no echo to a distributing device, no re-forwarding to peers,
   originator preserved). *)
From Coq Require Import ZifyBool ZifyN ZifyNat.
From Bac Require Import Base Bip.
Ltac Zify.zify_post_hook ::= Z.to_euclidean_division_equations.
Open Scope N_scope.

(* ------------------------------------------------------------------ addresses *)
Lemma addr_eqb_eq : forall a b : addr, addr_eqb a b = true <-> a = b.
Proof.
  intros [a1 a2] [b1 b2]. unfold addr_eqb. cbn [fst snd]. rewrite andb_true_iff, !N.eqb_eq.
  split. - intros [-> ->]. reflexivity. - intros H. inversion H. auto.
Qed.
Lemma addr_eqb_refl : forall a, addr_eqb a a = true.
Proof. intros. apply addr_eqb_eq. reflexivity. Qed.
Lemma addr_eqb_neq : forall a b : addr, addr_eqb a b = false <-> a <> b.
Proof.
  intros. split.
  - intros H E. apply addr_eqb_eq in E. congruence.
  - intros H. destruct (addr_eqb a b) eqn:E; [apply addr_eqb_eq in E; contradiction | reflexivity].
Qed.
Lemma addr_eqb_sym : forall a b, addr_eqb a b = addr_eqb b a.
Proof.
  intros. destruct (addr_eqb a b) eqn:E.
  - apply addr_eqb_eq in E. subst. symmetry. apply addr_eqb_refl.
  - symmetry. apply addr_eqb_neq. apply addr_eqb_neq in E. congruence.
Qed.

(* ------------------------------------------------------------------ the table *)
Definition addrs (t : list fdte) : list addr := map fd_addr t.
Definition listed (t : list fdte) (a : addr) : bool := existsb (fun e => addr_eqb a (fd_addr e)) t.

(* first entry for an address *)
Fixpoint find (t : list fdte) (a : addr) : option fdte :=
  match t with
  | [] => None
  | e :: r => if addr_eqb a (fd_addr e) then Some e else find r a
  end.

Lemma listed_In : forall t a, listed t a = true <-> In a (addrs t).
Proof.
  induction t as [|e r IH]; intros a; cbn [listed existsb addrs map In].
  - split; [discriminate | tauto].
  - rewrite orb_true_iff. fold (listed r a). rewrite IH, addr_eqb_eq. unfold addrs. intuition.
Qed.

Lemma find_listed : forall t a, listed t a = match find t a with Some _ => true | None => false end.
Proof.
  induction t as [|e r IH]; intros a; cbn [listed existsb find]; [reflexivity|].
  destruct (addr_eqb a (fd_addr e)); [reflexivity|]. cbn [orb]. apply IH.
Qed.

Lemma find_not_In : forall t a, ~ In a (addrs t) -> find t a = None.
Proof.
  intros t a H. pose proof (find_listed t a) as L. destruct (find t a); [|reflexivity].
  exfalso. apply H. apply listed_In. exact L.
Qed.

(* --- register *)
Lemma register_addrs : forall t a ttl,
  addrs (fdt_register t a ttl) = if listed t a then addrs t else addrs t ++ [a].
Proof.
  induction t as [|e r IH]; intros a ttl; cbn [fdt_register listed existsb addrs map app]; [reflexivity|].
  destruct (addr_eqb a (fd_addr e)) eqn:E; cbn [orb map fd_addr].
  - reflexivity.
  - fold (listed r a). fold (addrs r). fold (addrs (fdt_register r a ttl)). rewrite IH.
    destruct (listed r a); reflexivity.
Qed.

Lemma nodup_snoc : forall (l : list addr) a, NoDup l -> ~ In a l -> NoDup (l ++ [a]).
Proof.
  induction l as [|x l IH]; intros a N I; cbn [app].
  - constructor; [intros []|constructor].
  - inversion N; subst. constructor.
    + rewrite in_app_iff. cbn [In]. intros [H|[H|[]]]; [contradiction|]. subst. apply I. left. reflexivity.
    + apply IH; [assumption|]. intros H. apply I. right. exact H.
Qed.

Lemma register_nodup : forall t a ttl, NoDup (addrs t) -> NoDup (addrs (fdt_register t a ttl)).
Proof.
  intros t a ttl H. rewrite register_addrs. destruct (listed t a) eqn:L; [exact H|].
  apply nodup_snoc; [exact H|].
  intros I. apply listed_In in I. congruence.
Qed.

Lemma find_register_same : forall t a ttl,
  exists a', a' = a /\ find (fdt_register t a ttl) a = Some (mkFdte a' ttl (ttl + 5)).
Proof.
  induction t as [|e r IH]; intros a ttl; cbn [fdt_register find].
  - exists a. cbn [find fd_addr]. rewrite addr_eqb_refl. auto.
  - destruct (addr_eqb a (fd_addr e)) eqn:E; cbn [find fd_addr]; rewrite E.
    + exists (fd_addr e). split; [symmetry; apply addr_eqb_eq; exact E | reflexivity].
    + apply IH.
Qed.

Lemma find_register_other : forall t a b ttl, a <> b -> find (fdt_register t b ttl) a = find t a.
Proof.
  induction t as [|e r IH]; intros a b ttl N; cbn [fdt_register find].
  - cbn [fd_addr]. apply addr_eqb_neq in N. rewrite N. reflexivity.
  - destruct (addr_eqb b (fd_addr e)) eqn:E; cbn [find fd_addr].
    + apply addr_eqb_eq in E. subst b. apply addr_eqb_neq in N. rewrite N. reflexivity.
    + rewrite IH by exact N. reflexivity.
Qed.

(* --- delete *)
Lemma delete_sub : forall t a t', fdt_delete t a = Some t' ->
  (forall x, In x (addrs t') -> In x (addrs t)) /\ (NoDup (addrs t) -> NoDup (addrs t')).
Proof.
  induction t as [|e r IH]; intros a t' H; cbn [fdt_delete] in H; [discriminate|].
  destruct (fdt_delete r a) as [r'|] eqn:D.
  - inversion H; subst. destruct (IH a r' D) as [S ND]. split.
    + cbn [addrs map In]. intros x [X|X]; [left; exact X | right; apply S; exact X].
    + cbn [addrs map]. intros N. inversion N as [|? ? Hn Hd]; subst. constructor; [|apply ND; assumption].
      intros I. apply Hn. apply S. exact I.
  - destruct (addr_eqb a (fd_addr e)); [|discriminate]. inversion H; subst. split.
    + cbn [addrs map In]. auto.
    + cbn [addrs map]. intros N. inversion N; assumption.
Qed.

Lemma delete_none : forall t a, fdt_delete t a = None <-> listed t a = false.
Proof.
  induction t as [|e r IH]; intros a; cbn [fdt_delete listed existsb]; [tauto|].
  fold (listed r a). destruct (fdt_delete r a) eqn:D.
  - split; [discriminate|]. intros H. apply orb_false_iff in H. destruct H as [_ H].
    apply IH in H. congruence.
  - assert (listed r a = false) as L by (apply IH; exact D). rewrite L, orb_false_r.
    destruct (addr_eqb a (fd_addr e)); split; congruence.
Qed.

Lemma delete_removes : forall t a t', NoDup (addrs t) -> fdt_delete t a = Some t' -> listed t' a = false.
Proof.
  induction t as [|e r IH]; intros a t' N H; cbn [fdt_delete] in H; [discriminate|].
  cbn [addrs map] in N. inversion N as [|? ? Hn Hd]; subst.
  destruct (fdt_delete r a) as [r'|] eqn:D.
  - inversion H; subst. cbn [listed existsb]. fold (listed r' a). rewrite (IH a r' Hd D), orb_false_r.
    apply addr_eqb_neq. intros E. subst a. apply Hn.
    assert (listed r (fd_addr e) = true) as L.
    { destruct (listed r (fd_addr e)) eqn:L; [reflexivity|]. apply delete_none in L. congruence. }
    apply listed_In. exact L.
  - destruct (addr_eqb a (fd_addr e)) eqn:E; [|discriminate]. inversion H; subst.
    apply delete_none. exact D.
Qed.

Lemma find_delete_other : forall t a b t', a <> b -> fdt_delete t b = Some t' -> find t' a = find t a.
Proof.
  induction t as [|e r IH]; intros a b t' N H; cbn [fdt_delete] in H; [discriminate|].
  destruct (fdt_delete r b) as [r'|] eqn:D.
  - inversion H; subst. cbn [find]. rewrite (IH a b r' N D). reflexivity.
  - destruct (addr_eqb b (fd_addr e)) eqn:E; [|discriminate]. inversion H; subst.
    cbn [find]. apply addr_eqb_eq in E. subst b. apply addr_eqb_neq in N. rewrite N. reflexivity.
Qed.

(* --- tick *)
Definition dec (e : fdte) : fdte := mkFdte (fd_addr e) (fd_ttl e) (N.pred (fd_remain e)).
Lemma tick_unfold : forall e r, fdt_tick (e :: r) =
  if 0 <? N.pred (fd_remain e) then dec e :: fdt_tick r else fdt_tick r.
Proof. intros. unfold fdt_tick. cbn [map filter fd_remain]. reflexivity. Qed.

Lemma tick_sub : forall t x, In x (addrs (fdt_tick t)) -> In x (addrs t).
Proof.
  induction t as [|e r IH]; intros x; [cbn; tauto|]. rewrite tick_unfold.
  destruct (0 <? N.pred (fd_remain e)); cbn [addrs map In dec fd_addr]; fold (addrs (fdt_tick r)); fold (addrs r).
  - intros [H|H]; [left; exact H | right; apply IH; exact H].
  - intros H. right. apply IH. exact H.
Qed.

Lemma tick_nodup : forall t, NoDup (addrs t) -> NoDup (addrs (fdt_tick t)).
Proof.
  induction t as [|e r IH]; intros N; [constructor|]. rewrite tick_unfold.
  cbn [addrs map] in N. inversion N as [|? ? Hn Hd]; subst.
  destruct (0 <? N.pred (fd_remain e)); [|apply IH; assumption].
  cbn [addrs map dec fd_addr]. constructor; [|apply IH; assumption].
  intros I. apply Hn. apply tick_sub. exact I.
Qed.

Lemma find_tick : forall t a, NoDup (addrs t) ->
  find (fdt_tick t) a = match find t a with
                        | Some e => if 1 <? fd_remain e then Some (dec e) else None
                        | None => None
                        end.
Proof.
  induction t as [|e r IH]; intros a N; [reflexivity|]. rewrite tick_unfold.
  cbn [addrs map] in N. inversion N as [|? ? Hn Hd]; subst. cbn [find].
  destruct (addr_eqb a (fd_addr e)) eqn:E.
  - assert ((0 <? N.pred (fd_remain e)) = (1 <? fd_remain e)) as -> by lia.
    destruct (1 <? fd_remain e).
    + cbn [find dec fd_addr]. rewrite E. reflexivity.
    + apply addr_eqb_eq in E. subst a. apply find_not_In. intros I. apply Hn. apply tick_sub. exact I.
  - destruct (0 <? N.pred (fd_remain e)); [cbn [find dec fd_addr]; rewrite E|]; apply IH; assumption.
Qed.

(* ------------------------------------------------------------------ histories *)
(* an event that neither (re-)registers address a nor deletes its entry *)
Definition quiet (a : addr) (e : bev) : Prop :=
  match e with
  | BConf s _ (RegisterFD _) => s <> a
  | BConf _ _ (DeleteFDT x) => x <> a
  | _ => True
  end.
Definition is_tick (e : bev) : bool := match e with BTick => true | _ => false end.
Definition ticks (es : list bev) : N := lenN (filter is_tick es).

Lemma step_nodup : forall b e, NoDup (addrs (b_fdt b)) -> NoDup (addrs (b_fdt (fst (bbmd_step b e)))).
Proof.
  intros b e N. destruct e as [s d m|d p|]; cbn [bbmd_step fst].
  - destruct m; cbn [bbmd_confirmation fst b_fdt]; try exact N.
    + apply register_nodup. exact N.
    + destruct (fdt_delete (b_fdt b) a) eqn:D; cbn [fst b_fdt]; [|exact N].
      apply (delete_sub _ _ _ D). exact N.
  - exact N.
  - cbn [bbmd_tick b_fdt]. apply tick_nodup. exact N.
Qed.

Lemma run_nodup : forall es b, NoDup (addrs (b_fdt b)) -> NoDup (addrs (b_fdt (bbmd_run b es))).
Proof.
  induction es as [|e r IH]; intros b N; [exact N|]. unfold bbmd_run. cbn [fold_left].
  apply IH. apply step_nodup. exact N.
Qed.

Theorem fdt_nodup : forall b es, b_fdt b = [] -> NoDup (map fd_addr (b_fdt (bbmd_run b es))).
Proof. intros b es H. apply run_nodup. rewrite H. constructor. Qed.

(* one quiet event: the entry of a is untouched, except that a tick takes one second off *)
Lemma step_quiet : forall b e a, NoDup (addrs (b_fdt b)) -> quiet a e ->
  find (b_fdt (fst (bbmd_step b e))) a =
  if is_tick e then match find (b_fdt b) a with
                    | Some x => if 1 <? fd_remain x then Some (dec x) else None
                    | None => None end
  else find (b_fdt b) a.
Proof.
  intros b e a N Q. destruct e as [s d m|d p|]; cbn [bbmd_step fst is_tick].
  - destruct m; cbn [bbmd_confirmation fst b_fdt]; try reflexivity.
    + cbn [quiet] in Q. apply find_register_other. congruence.
    + cbn [quiet] in Q. destruct (fdt_delete (b_fdt b) a0) eqn:D; cbn [fst b_fdt]; [|reflexivity].
      apply (find_delete_other _ _ a0); [congruence | exact D].
  - reflexivity.
  - cbn [bbmd_tick b_fdt]. apply find_tick. exact N.
Qed.

Lemma ticks_cons : forall e r, ticks (e :: r) = (if is_tick e then 1 else 0) + ticks r.
Proof. intros. unfold ticks, lenN. cbn [filter]. destruct (is_tick e); cbn [length]; lia. Qed.

Lemma run_quiet_none : forall es b a, NoDup (addrs (b_fdt b)) -> Forall (quiet a) es ->
  find (b_fdt b) a = None -> find (b_fdt (bbmd_run b es)) a = None.
Proof.
  induction es as [|e r IH]; intros b a N Q F; [exact F|]. unfold bbmd_run. cbn [fold_left].
  inversion Q as [|? ? Q1 Q2]; subst. apply IH; [apply step_nodup; exact N | assumption |].
  rewrite (step_quiet b e a N Q1), F. destruct (is_tick e); reflexivity.
Qed.

Lemma run_quiet : forall es b a x, NoDup (addrs (b_fdt b)) -> Forall (quiet a) es ->
  find (b_fdt b) a = Some x -> 0 < fd_remain x ->
  find (b_fdt (bbmd_run b es)) a =
  if ticks es <? fd_remain x then Some (mkFdte (fd_addr x) (fd_ttl x) (fd_remain x - ticks es)) else None.
Proof.
  induction es as [|e r IH]; intros b a x N Q F P.
  - unfold bbmd_run. cbn [fold_left]. unfold ticks, lenN. cbn [filter length]. rewrite F.
    destruct x as [xa xt xr]. cbn [fd_remain fd_addr fd_ttl] in *.
    assert ((N.of_nat 0 <? xr) = true) as -> by lia. f_equal. f_equal. lia.
  - unfold bbmd_run. cbn [fold_left]. fold (bbmd_run (fst (bbmd_step b e)) r).
    inversion Q as [|? ? H1 H2]; subst. rewrite ticks_cons.
    pose proof (step_quiet b e a N H1) as S. rewrite F in S.
    pose proof (step_nodup b e N) as N'.
    destruct (is_tick e).
    + destruct (1 <? fd_remain x) eqn:R.
      * rewrite (IH _ a (dec x) N' H2 S) by (cbn [dec fd_remain]; lia).
        cbn [dec fd_remain fd_addr fd_ttl].
        assert ((ticks r <? N.pred (fd_remain x)) = (1 + ticks r <? fd_remain x)) as -> by lia.
        destruct (1 + ticks r <? fd_remain x); [|reflexivity]. f_equal. f_equal. lia.
      * rewrite (run_quiet_none r _ a N' H2 S).
        assert ((1 + ticks r <? fd_remain x) = false) as -> by lia. reflexivity.
    + rewrite (IH _ a x N' H2 S P). cbn [N.add]. reflexivity.
Qed.

(* the served window, counted in ticks of the BBMD's 1 s task *)
Theorem fdt_served_window : forall b src d T es,
  NoDup (map fd_addr (b_fdt b)) -> Forall (quiet src) es ->
  let b1 := fst (bbmd_step b (BConf src d (RegisterFD T))) in
  (ticks es < T + 5 -> listed (b_fdt (bbmd_run b1 es)) src = true) /\
  (T + 5 <= ticks es -> listed (b_fdt (bbmd_run b1 es)) src = false) /\
  (ticks es < T + 5 -> exists a', a' = src /\
     find (b_fdt (bbmd_run b1 es)) src = Some (mkFdte a' T (T + 5 - ticks es))).
Proof.
  intros b src d T es N Q b1.
  assert (NoDup (addrs (b_fdt b1))) as N1 by (apply step_nodup; exact N).
  destruct (find_register_same (b_fdt b) src T) as [a' [Ea F]].
  assert (find (b_fdt b1) src = Some (mkFdte a' T (T + 5))) as F1 by exact F.
  pose proof (run_quiet es b1 src _ N1 Q F1) as R. cbn [fd_remain fd_addr fd_ttl] in R.
  rewrite find_listed. rewrite R by lia.
  repeat split; intros H.
  - assert ((ticks es <? T + 5) = true) as -> by lia. reflexivity.
  - assert ((ticks es <? T + 5) = false) as -> by lia. reflexivity.
  - exists a'. split; [exact Ea|]. assert ((ticks es <? T + 5) = true) as -> by lia. reflexivity.
Qed.

(* served = the BBMD addresses its forwarded copies to the device: exactly the listed addresses *)
Lemma to_fdt_targets : forall t m a, In (Down (DStation a) m) (to_fdt t m) <-> listed t a = true.
Proof.
  intros t m a. rewrite listed_In. unfold to_fdt, addrs. rewrite !in_map_iff. split.
  - intros [e [E I]]. inversion E; subst. exists e. auto.
  - intros [e [E I]]. exists e. subst. auto.
Qed.

Theorem served_iff_listed : forall b o p a,
  (listed (b_fdt b) a = true ->
     In (Down (DStation a) (Forwarded o p)) (snd (bbmd_confirmation b o DBcast (OrigBroadcast p)))) /\
  (listed (b_fdt b) a = false ->
     ~ In (Down (DStation a) (Forwarded o p)) (to_fdt (b_fdt b) (Forwarded o p))).
Proof.
  intros b o p a. split; intros H.
  - cbn [bbmd_confirmation snd]. apply in_or_app. right. apply in_or_app. right.
    apply to_fdt_targets. exact H.
  - intros I. apply to_fdt_targets in I. congruence.
Qed.

(* deletion takes effect with the frame that asks for it *)
Theorem delete_immediate : forall b s d a,
  NoDup (map fd_addr (b_fdt b)) ->
  let r := bbmd_confirmation b s d (DeleteFDT a) in
  listed (b_fdt (fst r)) a = false /\
  snd r = [Down (DStation s) (Result (if listed (b_fdt b) a then 0 else 80))].
Proof.
  intros b s d a N. cbn [bbmd_confirmation]. destruct (fdt_delete (b_fdt b) a) as [t'|] eqn:D; cbn [fst snd b_fdt].
  - split; [apply (delete_removes _ _ _ N D)|].
    destruct (listed (b_fdt b) a) eqn:L; [reflexivity|]. apply delete_none in L. congruence.
  - apply delete_none in D. rewrite D. auto.
Qed.

(* ------------------------------------------------------------------ the foreign device's side *)
(* the re-registration timer is set ttl seconds ahead; exactly ttl whole-second ticks of the BBMD
   fall in that interval, fewer than the ttl + 5 the entry lasts *)
Theorem renewal_before_expiry : forall now f f' acts t a,
  f_bbmd f = Some a -> f_ttl f = Some t -> (0 < t)%Z ->
  foreign_renew now f = Ok (f', acts) ->
  f_renew f' = Some (now + t * 1000)%Z /\
  acts = [Down (DStation a) (RegisterFD (Z.to_N t mod 65536))] /\
  ((now + t * 1000) / 1000 - now / 1000 = t)%Z /\ (t < t + 5)%Z.
Proof.
  intros now f f' acts t a Hb Ht P H. unfold foreign_renew in H. rewrite Hb, Ht in H.
  inversion H; subst. cbn [f_renew]. repeat split; lia.
Qed.

(* the device's own tracking gives up 30 s after the ttl, i.e. not before the BBMD does *)
Theorem ack_sets_expiry : forall now f src d t a,
  f_status f <> (-2)%Z -> f_bbmd f = Some a -> f_ttl f = Some t -> src = a ->
  exists f', foreign_confirmation now f src d (Result 0) = Ok (f', []) /\
             f_status f' = 0%Z /\ f_expire f' = Some (now + (t + 30) * 1000)%Z /\ (t + 5 <= t + 30)%Z.
Proof.
  intros now f src d t a S Hb Ht E. subst src. unfold foreign_confirmation.
  assert ((f_status f =? -2)%Z = false) as -> by lia. rewrite Hb, addr_eqb_refl, Ht. cbn [negb N.eqb].
  eexists. split; [reflexivity|]. cbn [f_status f_expire]. repeat split. lia.
Qed.

(* unregister: one Register-Foreign-Device with ttl 0, and from that instant the device neither
   hands broadcasts to the BBMD nor accepts forwarded ones *)
Theorem unregister_stops_device : forall f f' acts,
  foreign_unregister f = Ok (f', acts) ->
  (exists a, f_bbmd f = Some a /\ acts = [Down (DStation a) (RegisterFD 0)]) /\
  f_status f' = (-2)%Z /\
  (forall p, foreign_indication f' DBcast p = Ok []) /\
  (forall now src d a p, foreign_confirmation now f' src d (Forwarded a p) = Ok (f', [])).
Proof.
  intros f f' acts H. unfold foreign_unregister in H. destruct (f_bbmd f) as [a|] eqn:B; [|discriminate].
  inversion H; subst. repeat split; try reflexivity. exists a. auto.
Qed.

(* at the BBMD the ttl-0 registration lasts 5 ticks: the grace period *)
Theorem unregister_within_grace : forall b src d es,
  NoDup (map fd_addr (b_fdt b)) -> Forall (quiet src) es -> 5 <= ticks es ->
  listed (b_fdt (bbmd_run (fst (bbmd_step b (BConf src d (RegisterFD 0)))) es)) src = false.
Proof.
  intros b src d es N Q H. destruct (fdt_served_window b src d 0 es N Q) as [_ [G _]]. apply G. lia.
Qed.

(* ------------------------------------------------------------------ forwarding decisions *)
Definition origin_of (a : action) : option (addr * npdu) :=
  match a with
  | Up s _ p => Some (s, p)
  | Down _ (Forwarded s p) => Some (s, p)
  | _ => None
  end.

(* whatever a BBMD does with a broadcast-carrying frame names the true originator *)
Theorem bbmd_source_preserved : forall b s d m o p,
  (m = OrigBroadcast p /\ o = s) \/ (m = Distribute p /\ o = s) \/ (m = Forwarded o p) ->
  Forall (fun a => origin_of a = Some (o, p)) (snd (bbmd_confirmation b s d m)).
Proof.
  intros b s d m o p H. apply Forall_forall. intros a I.
  destruct H as [[-> ->] | [[-> ->] | ->]]; cbn [bbmd_confirmation snd] in I;
    repeat (apply in_app_or in I; destruct I as [I|I]);
    unfold up_if, to_peers, to_fdt in I;
    try (destruct (b_upper b); cbn [In] in I; [destruct I as [<-|[]]; reflexivity | contradiction]);
    try (apply in_map_iff in I; destruct I as [e [<- _]]; try destruct (addr_eqb (bd_addr e) (b_addr b)); reflexivity).
  destruct d; [contradiction|]. destruct (in_bdt (b_addr b) (b_bdt b)); cbn [In] in I; [destruct I as [<-|[]]; reflexivity | contradiction].
Qed.

(* a forwarded frame is never passed on to another BBMD: its copies go to the local wire (only
   when it came by unicast) and to registered foreign devices *)
Theorem bbmd_no_reforward : forall b s d a p x m,
  In (Down x m) (snd (bbmd_confirmation b s d (Forwarded a p))) ->
  (x = DBcast /\ exists u, d = DStation u) \/ (exists y, x = DStation y /\ listed (b_fdt b) y = true).
Proof.
  intros b s d a p x m I. cbn [bbmd_confirmation snd] in I.
  apply in_app_or in I. destruct I as [I|I].
  - unfold up_if in I. destruct (b_upper b); cbn [In] in I; [destruct I as [I|[]]; discriminate | contradiction].
  - apply in_app_or in I. destruct I as [I|I].
    + destruct d as [|u]; [contradiction|]. destruct (in_bdt (b_addr b) (b_bdt b)); [|contradiction].
      destruct I as [I|[]]. inversion I; subst. left. split; [reflexivity | exists u; reflexivity].
    + right. unfold to_fdt in I. apply in_map_iff in I. destruct I as [e [E I]]. inversion E; subst.
      exists (fd_addr e). split; [reflexivity|]. apply listed_In. apply in_map. exact I.
Qed.

(* a device's Distribute-Broadcast is not sent back to it through the table *)
Theorem bbmd_distribute_no_echo : forall b s m,
  ~ In (Down (DStation s) m)
       (to_fdt (filter (fun e => negb (addr_eqb (fd_addr e) s)) (b_fdt b)) m).
Proof.
  intros b s m I. unfold to_fdt in I. apply in_map_iff in I. destruct I as [e [E I]].
  inversion E; subst. apply filter_In in I. destruct I as [_ I]. rewrite addr_eqb_refl in I. discriminate.
Qed.

(* an ordinary node hands a broadcast up exactly once, naming the originator *)
Theorem simple_delivers_once : forall s d p o,
  simple_confirmation s d (OrigBroadcast p) = [Up s DBcast p] /\
  simple_confirmation s d (Forwarded o p) = [Up o DBcast p].
Proof. intros. split; reflexivity. Qed.

(* a foreign device accepts forwarded broadcasts from its BBMD only, and only while registered *)
Theorem foreign_accepts_from_bbmd : forall now f s d o p b,
  f_bbmd f = Some b ->
  foreign_confirmation now f s d (Forwarded o p) =
  Ok (f, if (f_status f =? 0)%Z && addr_eqb s b then [Up o DBcast p] else []).
Proof.
  intros now f s d o p b H. unfold foreign_confirmation. rewrite H.
  destruct (f_status f =? 0)%Z; cbn [negb andb]; [|reflexivity].
  destruct (addr_eqb s b); reflexivity.
Qed.

(* the note reported separately: a BBMD distributes a Distribute-Broadcast-To-Network from a source
   it does not list *)
Theorem distribute_unlisted_witness :
  exists b s p, listed (b_fdt b) s = false /\
    In (Down DBcast (Forwarded s p)) (snd (bbmd_confirmation b s (DStation (b_addr b)) (Distribute p))).
Proof.
  exists (mkBbmd (mkA 167837954 47808) [mkBdte (mkA 167837954 47808) 4294967295] [] true),
         (mkA 180879400 47808), 7.
  split; vm_compute; auto.
Qed.
