(* BvllRt.v — the vocabulary into which translator/gen_bvllfns.py translates the method bodies of
   py34/bacpypes/bvll.py (generated file: gen/BvllFns.v).  Hand-written, no proofs.

   One Python object (a BVLCI / BVLPDU / message-class instance, or the PDU written to / read
   from) is a `pyobj`: the three header attributes, the octet buffer pduData, and the parameter
   attributes of the twelve message classes.  A method `def m(self, other)` becomes a function
   pyobj -> pyobj -> res (pyobj * pyobj) returning both objects as the method leaves them (Python
   mutates them in place); `self.attr = e` is `set_attr e self`.  Each primitive below states the
   meaning of one Python operation the methods use (comm.PDUData get/put family, attribute reads
   that can raise, Address(unpack_ip_addr(..)), FDTEntry(), list.append, for, while).  The
   parameter types are those of the hand model Bac.Bvll (addr / bdte / fdte / option Z). *)
From Bac Require Export Bvll.
Open Scope N_scope.

Record pyobj : Set := mkObj {
  bvlciType : N;                 (* BVLCI header: type, function, length *)
  bvlciFunction : N;
  bvlciLength : N;
  pduData : list N;              (* comm.PDUData.pduData *)
  bvlciResultCode : option Z;    (* Result *)
  bvlciBDT : list bdte;          (* Write-BDT, Read-BDT-Ack *)
  bvlciAddress : addr;           (* Forwarded-NPDU, Delete-FDT-Entry *)
  bvlciTimeToLive : option Z;    (* Register-Foreign-Device *)
  bvlciFDT : list fdte           (* Read-FDT-Ack *)
}.

Definition set_bvlciType (v : N) (o : pyobj) : pyobj :=
  mkObj v (bvlciFunction o) (bvlciLength o) (pduData o) (bvlciResultCode o) (bvlciBDT o)
        (bvlciAddress o) (bvlciTimeToLive o) (bvlciFDT o).
Definition set_bvlciFunction (v : N) (o : pyobj) : pyobj :=
  mkObj (bvlciType o) v (bvlciLength o) (pduData o) (bvlciResultCode o) (bvlciBDT o)
        (bvlciAddress o) (bvlciTimeToLive o) (bvlciFDT o).
Definition set_bvlciLength (v : N) (o : pyobj) : pyobj :=
  mkObj (bvlciType o) (bvlciFunction o) v (pduData o) (bvlciResultCode o) (bvlciBDT o)
        (bvlciAddress o) (bvlciTimeToLive o) (bvlciFDT o).
Definition set_pduData (v : list N) (o : pyobj) : pyobj :=
  mkObj (bvlciType o) (bvlciFunction o) (bvlciLength o) v (bvlciResultCode o) (bvlciBDT o)
        (bvlciAddress o) (bvlciTimeToLive o) (bvlciFDT o).
Definition set_bvlciResultCode (v : option Z) (o : pyobj) : pyobj :=
  mkObj (bvlciType o) (bvlciFunction o) (bvlciLength o) (pduData o) v (bvlciBDT o)
        (bvlciAddress o) (bvlciTimeToLive o) (bvlciFDT o).
Definition set_bvlciBDT (v : list bdte) (o : pyobj) : pyobj :=
  mkObj (bvlciType o) (bvlciFunction o) (bvlciLength o) (pduData o) (bvlciResultCode o) v
        (bvlciAddress o) (bvlciTimeToLive o) (bvlciFDT o).
Definition set_bvlciAddress (v : addr) (o : pyobj) : pyobj :=
  mkObj (bvlciType o) (bvlciFunction o) (bvlciLength o) (pduData o) (bvlciResultCode o) (bvlciBDT o)
        v (bvlciTimeToLive o) (bvlciFDT o).
Definition set_bvlciTimeToLive (v : option Z) (o : pyobj) : pyobj :=
  mkObj (bvlciType o) (bvlciFunction o) (bvlciLength o) (pduData o) (bvlciResultCode o) (bvlciBDT o)
        (bvlciAddress o) v (bvlciFDT o).
Definition set_bvlciFDT (v : list fdte) (o : pyobj) : pyobj :=
  mkObj (bvlciType o) (bvlciFunction o) (bvlciLength o) (pduData o) (bvlciResultCode o) (bvlciBDT o)
        (bvlciAddress o) (bvlciTimeToLive o) v.

(* attribute assignment on the entry records of the hand model *)
Definition set_addrMask (v : option Z) (e : bdte) : bdte := mkBdte (b_addr e) v.
Definition set_fdAddress (v : addr) (e : fdte) : fdte := mkFdte v (f_ttl e) (f_rem e).
Definition set_fdTTL (v : option Z) (e : fdte) : fdte := mkFdte (f_addr e) v (f_rem e).
Definition set_fdRemain (v : option Z) (e : fdte) : fdte := mkFdte (f_addr e) (f_ttl e) v.

(* ---- comm.PDUData: put family (comm.py:142-159) ------------------------------------------ *)
Definition py_append (o : pyobj) (b : list N) : pyobj := set_pduData (pduData o ++ b) o.

(* put(n): `self.pduData += bytes([n])` — ValueError unless n < 256 *)
Definition py_put_N (n : N) (o : pyobj) : res pyobj := do b <- put n; Ok (py_append o b).
(* put_short(n) / put_long(n): struct.pack of n & mask; None & int is TypeError *)
Definition py_put_short_N (n : N) (o : pyobj) : res pyobj := Ok (py_append o (put_short n)).
Definition py_put_short_Z (z : Z) (o : pyobj) : res pyobj :=
  Ok (py_append o (be2 (Z.to_N (z mod 65536)))).
Definition py_put_short_OZ (z : option Z) (o : pyobj) : res pyobj :=
  do b <- put_short_o z; Ok (py_append o b).
Definition py_put_long_N (n : N) (o : pyobj) : res pyobj := Ok (py_append o (put_long n)).
Definition py_put_long_Z (z : Z) (o : pyobj) : res pyobj := Ok (py_append o (put_long_z z)).
Definition py_put_long_OZ (z : option Z) (o : pyobj) : res pyobj :=
  match z with None => Err TypeErr | Some v => Ok (py_append o (put_long_z v)) end.
(* put_data(d): bytes / bytearray appended as they are, None is TypeError *)
Definition py_put_data_bytes (l : list N) (o : pyobj) : res pyobj := Ok (py_append o l).
Definition py_put_data_obytes (l : option (list N)) (o : pyobj) : res pyobj :=
  match l with None => Err TypeErr | Some d => Ok (py_append o d) end.

(* ---- comm.PDUData: get family (comm.py:119-140): DecodingError when too few octets are left -- *)
Definition py_get (o : pyobj) : res (N * pyobj) :=
  do (b, r) <- get (pduData o); Ok (b, set_pduData r o).
Definition py_get_short (o : pyobj) : res (N * pyobj) :=
  do (b, r) <- get_short (pduData o); Ok (b, set_pduData r o).
Definition py_get_long (o : pyobj) : res (N * pyobj) :=
  do (b, r) <- get_long (pduData o); Ok (b, set_pduData r o).
Definition py_get_data (k : N) (o : pyobj) : res (list N * pyobj) :=
  do (d, r) <- get_data k (pduData o); Ok (d, set_pduData r o).

(* ---- attribute reads that can raise ------------------------------------------------------- *)
(* x.addrAddr: AttributeError when x is None; the value may itself be None (broadcast forms) *)
Definition py_addrAddr_addr (a : addr) : res (option (list N)) :=
  match a with ANone => Err AttrErr | ANoBytes => Ok None | ABytes l => Ok (Some l) end.
Definition py_addrAddr_bdte (e : bdte) : res (option (list N)) := py_addrAddr_addr (b_addr e).
(* x.addrMask: AttributeError when x is None or the attribute is absent (b_mask = None) *)
Definition py_addrMask_bdte (e : bdte) : res Z :=
  match b_addr e with
  | ANone => Err AttrErr
  | _ => match b_mask e with None => Err AttrErr | Some z => Ok z end
  end.

(* ---- constructors called by the decoders -------------------------------------------------- *)
(* Address(unpack_ip_addr(d)) (pdu.py:505, tuple form of Address, pdu.py:380-403): an Address
   holding the six octets d; the tuple form sets addrMask = 0xFFFFFFFF *)
Definition py_Address_unpack (d : list N) : bdte := mkBdte (ABytes d) (Some 4294967295%Z).
(* FDTEntry() (bvll.py FDTEntry.__init__): the three attributes are None *)
Definition py_FDTEntry_new : fdte := mkFdte ANone None None.

(* ---- truth values, None tests -------------------------------------------------------------- *)
Definition py_nonempty {A} (l : list A) : bool := match l with [] => false | _ => true end.
Definition py_truth_OZ (o : option Z) : bool :=
  match o with None => false | Some z => negb (z =? 0)%Z end.
Definition py_is_none {A} (o : option A) : bool := match o with None => true | Some _ => false end.
Definition py_addr_is_none (a : addr) : bool := match a with ANone => true | _ => false end.

(* ---- loops ------------------------------------------------------------------------------- *)
(* for x in l: body     (l is read once; the body must not rebind the iterated attribute) *)
Fixpoint py_for {A St : Type} (l : list A) (body : A -> St -> res St) (s : St) : res St :=
  match l with
  | [] => Ok s
  | x :: r => do s' <- body x s; py_for r body s'
  end.
(* while cond: body     — fuel bounds the number of iterations; running out is Err OutOfFuel (the
   translator passes the number of octets left in the buffer the condition tests, which suffices
   whenever every iteration consumes at least one octet; a loop that does not is reported) *)
Fixpoint py_while {St : Type} (fuel : nat) (cond : St -> bool) (body : St -> res St) (s : St) : res St :=
  if cond s then
    match fuel with
    | O => Err OutOfFuel
    | S f => do s' <- body s; py_while f cond body s'
    end
  else Ok s.
