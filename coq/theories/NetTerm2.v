(* NetTerm2.v — forwarding of application traffic terminates on EVERY topology provided every router has some
   path (directly connected network or cached next hop, right or wrong) for each remote destination network in
   flight, so that no path discovery is started.  Lemmas about Net.v (property C06). *)
From Coq Require Import ZifyBool ZifyN ZifyNat.
From Bac Require Import Base Net NetFacts NetTerm.
Ltac Zify.zify_post_hook ::= Z.to_euclidean_division_equations.
Open Scope N_scope.

Definition target (p : npdu) : option N :=
  match n_dadr p with Some (DBcast d) | Some (DStation d _) => Some d | _ => None end.

Definition routable (n : node) (d : N) : Prop :=
  is_router n = false \/ find_net n (Some d) <> None \/ find_path n d <> None.

(* ---- learning never forgets *)
Definition cache_mono (c c' : cache) : Prop := forall s d, cache_get c s d <> None -> cache_get c' s d <> None.

Lemma cache_set_mono : forall c k m, cache_mono c (cache_set c k m).
Proof.
  induction c as [|[k0 m0] r IH]; intros k m s d H; cbn [cache_set cache_get] in *; [congruence|].
  destruct (key_eqb k0 (s, d)) eqn:E.
  - destruct (key_eqb k0 k) eqn:E2; cbn [cache_get].
    + assert (key_eqb k (s, d) = true).
      { unfold key_eqb in *. apply andb_prop in E. apply andb_prop in E2. destruct E as [E1 E3], E2 as [E4 E5].
        apply N.eqb_eq in E3, E5.
        assert (fst k = fst k0) by (destruct (fst k0), (fst k); cbn in E4; try discriminate; try reflexivity;
                                    apply N.eqb_eq in E4; congruence).
        rewrite H0, E1. rewrite <- E5, E3, N.eqb_refl. reflexivity. }
      rewrite H0. discriminate.
    + rewrite E. discriminate.
  - destruct (key_eqb k0 k) eqn:E2; cbn [cache_get].
    + destruct (key_eqb k (s, d)); [discriminate|assumption].
    + rewrite E. apply IH. assumption.
Qed.

Lemma cache_mono_refl : forall c, cache_mono c c.
Proof. intros c s d H. assumption. Qed.

Lemma cache_mono_trans : forall a b c, cache_mono a b -> cache_mono b c -> cache_mono a c.
Proof. intros a b c H1 H2 s d H. apply H2, H1, H. Qed.

Lemma cache_update_mono : forall dnets c s m, cache_mono c (cache_update c s m dnets).
Proof.
  unfold cache_update. induction dnets as [|d r IH]; intros c s m; cbn [fold_left]; [apply cache_mono_refl|].
  eapply cache_mono_trans; [apply cache_set_mono|apply IH].
Qed.

Lemma find_path_from_mono : forall l k c c' d, cache_mono c c' ->
  find_path_from l k c d <> None -> find_path_from l k c' d <> None.
Proof.
  induction l as [|a r IH]; intros k c c' d Hm H; cbn [find_path_from] in *; [assumption|].
  destruct (cache_get c (a_net a) d) eqn:E.
  - assert (cache_get c' (a_net a) d <> None) by (apply Hm; congruence).
    destruct (cache_get c' (a_net a) d); [discriminate|congruence].
  - destruct (cache_get c' (a_net a) d); [discriminate|]. eapply IH; eauto.
Qed.

Lemma routable_mono : forall n n' d, adapters n' = adapters n -> cache_mono (rcache n) (rcache n') ->
  routable n d -> routable n' d.
Proof.
  intros n n' d Ha Hc [H|[H|H]].
  - left. unfold is_router in *. rewrite Ha. assumption.
  - right; left. unfold find_net in *. rewrite Ha. assumption.
  - right; right. unfold find_path in *. rewrite Ha. eapply find_path_from_mono; eauto.
Qed.

(* ---- what a node emits for an application frame when its destination network is routable *)
Definition app_action (p : npdu) (a : action) : Prop :=
  match a with
  | Tx _ _ _ => False
  | Fwd _ _ q => n_dadr p <> None /\ n_msg q = None /\
                 (n_dadr q = None \/ (n_dadr q = n_dadr p /\ n_hop q + 1 = n_hop p))
  | _ => True
  end.

Lemma forward_app : forall n i ai src p dd,
  n_msg p = None -> n_dadr p = Some dd -> (forall d, target p = Some d -> routable n d) ->
  Forall (app_action p) (forward n i ai src p dd).
Proof.
  intros n i ai src p dd Hm Hd Hr. unfold forward.
  destruct (is_router n) eqn:Er; cbn [negb]; [|constructor].
  destruct (n_hop p =? 0) eqn:Eh; [constructor|]. apply N.eqb_neq in Eh.
  destruct (a_net ai) as [inet|]; [|repeat constructor].
  assert (Hne : n_dadr p <> None) by congruence.
  assert (Hrouted : forall dnet final, target p = Some dnet ->
    Forall (app_action p)
      match find_net n (Some dnet) with
      | Some j0 => if Nat.eqb j0 i then [] else
          [Fwd j0 final (mkNpdu None (Some (fwd_sadr inet src p)) (n_hop p - 1) (n_msg p) (n_data p))]
      | None => match find_path n dnet with
                | Some (j0, m) => [Fwd j0 (LStation m)
                      (mkNpdu (n_dadr p) (Some (fwd_sadr inet src p)) (n_hop p - 1) (n_msg p) (n_data p))]
                | None => map (fun j0 => Tx j0 LBcast (who_is dnet None)) (other_ports n i)
                end
      end).
  { intros dnet final Ht. specialize (Hr dnet Ht).
    assert (Hlast : forall j0, Forall (app_action p)
       [Fwd j0 final (mkNpdu None (Some (fwd_sadr inet src p)) (n_hop p - 1) (n_msg p) (n_data p))]).
    { intro j0. constructor; [|constructor]. cbn. split; [assumption|]. split; [assumption|]. left. reflexivity. }
    destruct (find_net n (Some dnet)) as [j1|] eqn:Ef.
    - destruct (Nat.eqb j1 i); [constructor|apply Hlast].
    - destruct Hr as [Hr|[Hr|Hr]]; [congruence|congruence|].
      destruct (find_path n dnet) as [[j0 m]|]; [|congruence].
      constructor; [|constructor]. cbn. split; [assumption|]. split; [assumption|].
      right. split; [reflexivity|lia]. }
  destruct dd as [|dnet|dnet mm].
  - apply Forall_forall. intros a Ha. apply in_map_iff in Ha. destruct Ha as [j [Hj _]]. subst a.
    cbn. repeat split; auto. right. split; [reflexivity|lia].
  - apply Hrouted. unfold target. rewrite Hd. reflexivity.
  - apply Hrouted. unfold target. rewrite Hd. reflexivity.
Qed.

Lemma process_npdu_app : forall n i src dst p n' acts,
  process_npdu n i src dst p = (n', acts) -> n_msg p = None ->
  (forall d, target p = Some d -> routable n d) ->
  Forall (app_action p) acts /\ adapters n' = adapters n /\ cache_mono (rcache n) (rcache n').
Proof.
  intros n i src dst p n' acts H Hm Hr.
  split; [|split; [eapply process_npdu_adapters; eauto|]].
  - unfold process_npdu in H.
    destruct (nth_adapter n i) as [ai|]; [|inversion H; subst; repeat constructor].
    destruct (negb (modelled_config n)); [inversion H; subst; repeat constructor|].
    match type of H with (if ?s then _ else _) = _ => destruct s end; [inversion H; subst; constructor|].
    match type of H with context [forward ?nn _ _ _ _ _] => set (n1 := nn) in * end.
    assert (Hr1 : forall d, target p = Some d -> routable n1 d).
    { intros d Hd. specialize (Hr d Hd). unfold n1. destruct (n_sadr p) as [[sn sm]|]; [|assumption].
      apply (routable_mono n); [reflexivity|apply cache_update_mono|assumption]. }
    assert (Htail : forall fw, Forall (app_action p)
              match n_dadr p with Some dd => if fw : bool then forward n1 i ai src p dd else [] | None => [] end).
    { intro fw. destruct (n_dadr p) as [dd|] eqn:Ed; [|constructor]. destruct fw; [|constructor].
      apply forward_app; auto. }
    match type of H with context [match ?dec with Err _ => _ | Ok _ => _ end] => destruct dec as [[[pl fw]|]|e] end;
      [| inversion H; subst; constructor | inversion H; subst; repeat constructor].
    rewrite Hm in H.
    match type of H with (if ?c then _ else _) = _ => destruct c end.
    + destruct (negb (apdu_ok (n_data p))); inversion H; subst; clear H; [repeat constructor|].
      constructor; [exact I|apply Htail].
    + inversion H; subst; clear H. apply Htail.
  - unfold process_npdu in H.
    destruct (nth_adapter n i) as [ai|]; [|inversion H; subst; apply cache_mono_refl].
    destruct (negb (modelled_config n)); [inversion H; subst; apply cache_mono_refl|].
    match type of H with (if ?s then _ else _) = _ => destruct s end; [inversion H; subst; apply cache_mono_refl|].
    assert (Hn1 : cache_mono (rcache n) (rcache match n_sadr p with
               | Some (snet, _) => set_cache n (cache_update (rcache n) (a_net ai) src [snet])
               | None => n end)).
    { destruct (n_sadr p) as [[sn sm]|]; cbn [rcache set_cache]; [apply cache_update_mono|apply cache_mono_refl]. }
    match type of H with context [match ?dec with Err _ => _ | Ok _ => _ end] => destruct dec as [[[pl fw]|]|e] end;
      [| inversion H; subst; exact Hn1 | inversion H; subst; exact Hn1].
    rewrite Hm in H.
    match type of H with (if ?c then _ else _) = _ => destruct c end.
    + destruct (negb (apdu_ok (n_data p))); inversion H; subst; exact Hn1.
    + inversion H; subst; exact Hn1.
Qed.

(* ---- frames *)
Definition app_frame (f : frame) : Prop := n_msg (f_npdu f) = None.

(* g is a copy made by some router of the application frame f *)
Definition child_of (f g : frame) : Prop :=
  n_dadr (f_npdu f) <> None /\ app_frame g /\
  (n_dadr (f_npdu g) = None \/
   (n_dadr (f_npdu g) = n_dadr (f_npdu f) /\ n_hop (f_npdu g) + 1 = n_hop (f_npdu f))).

Lemma emit_app : forall w who p acts fs os,
  emit w who acts = (fs, os) -> Forall (app_action p) acts ->
  forall f, f_npdu f = p ->
  Forall (child_of f) fs /\ (length fs <= length (filter is_fwd acts))%nat.
Proof.
  intros w who p. induction acts as [|a r IH]; intros fs os H Hall f Hf; cbn [emit] in H.
  - inversion H; subst. split; [constructor|cbn; lia].
  - destruct (emit w who r) as [fs0 os0] eqn:Er. inversion Hall; subst.
    destruct (IH _ _ eq_refl H3 f eq_refl) as [IH1 IH2].
    destruct a; cbn [app_action] in H2; try contradiction.
    + destruct (nth_error (w_ports w) port) as [[lan m]|]; inversion H; subst; clear H.
      * destruct H2 as (Hd & Hm & Hc). split; [|cbn; lia].
        constructor; [|assumption]. unfold child_of, app_frame. cbn. auto.
      * split; [assumption|cbn; lia].
    + inversion H; subst. split; [assumption|cbn; lia].
    + inversion H; subst. split; [assumption|cbn; lia].
    + inversion H; subst. split; [assumption|cbn; lia].
Qed.

Lemma set_nth_In : forall {X} (l : list X) i x y, In y (set_nth l i x) -> y = x \/ In y l.
Proof.
  induction l as [|a l IH]; intros i x y H; cbn in H; [contradiction|].
  destruct i; destruct H as [H|H]; auto.
  - right; right; assumption.
  - right; left; assumption.
  - destruct (IH _ _ _ H); auto. right; right; assumption.
Qed.

Definition all_routable (ns : list wnode) (d : N) : Prop := forall wn, In wn ns -> routable (w_node wn) d.

Lemma deliver_app : forall A members ns f q tr ns' q' tr',
  deliver ns f members q tr = (ns', q', tr') -> app_frame f -> nodes_ok A ns ->
  (forall d, target (f_npdu f) = Some d -> all_routable ns d) ->
  exists new, q' = q ++ new /\ Forall (child_of f) new /\
    (length new <= length members * S A)%nat /\ nodes_ok A ns' /\
    (forall d, all_routable ns d -> all_routable ns' d).
Proof.
  intros A. induction members as [|[who port] r IH]; intros ns f q tr ns' q' tr' H Hg Hok Hr; cbn [deliver] in H.
  - inversion H; subst. exists []. rewrite app_nil_r. repeat split; [constructor|cbn; lia|assumption|auto].
  - destruct (nth_error ns who) as [w|] eqn:En.
    2:{ destruct (IH _ _ _ _ _ _ _ H Hg Hok Hr) as (new & A1 & A2 & A3 & A4 & A5). exists new. repeat split; auto. cbn; lia. }
    destruct (nth_error (w_ports w) port) as [[lan wmac]|].
    2:{ destruct (IH _ _ _ _ _ _ _ H Hg Hok Hr) as (new & A1 & A2 & A3 & A4 & A5). exists new. repeat split; auto. cbn; lia. }
    destruct (accepts wmac f).
    2:{ destruct (IH _ _ _ _ _ _ _ H Hg Hok Hr) as (new & A1 & A2 & A3 & A4 & A5). exists new. repeat split; auto. cbn; lia. }
    destruct (process_npdu (w_node w) port (f_src f) (f_dst f) (f_npdu f)) as [n' acts] eqn:Ep.
    destruct (emit (mkW n' (w_ports w)) who acts) as [fs os] eqn:Ee.
    assert (Hin : In w ns) by (eapply nth_error_In; eauto).
    assert (Hrw : forall d, target (f_npdu f) = Some d -> routable (w_node w) d) by (intros d Hd; apply (Hr d Hd w Hin)).
    destruct (process_npdu_app _ _ _ _ _ _ _ Ep Hg Hrw) as (Hacts & Had & Hmono).
    destruct (emit_app _ _ _ _ _ _ Ee Hacts f eq_refl) as [Hfs Hlen].
    pose proof (thm_fanout _ _ _ _ _ _ _ Ep) as Hfan.
    assert (Hw : (length (adapters (w_node w)) <= A)%nat).
    { unfold nodes_ok in Hok. rewrite Forall_forall in Hok. apply (Hok w Hin). }
    assert (Hok' : nodes_ok A (set_nth ns who (mkW n' (w_ports w)))).
    { apply set_nth_Forall; [assumption|]. cbn. rewrite Had. assumption. }
    assert (Hpres : forall d, all_routable ns d -> all_routable (set_nth ns who (mkW n' (w_ports w))) d).
    { intros d Hd wn Hwn. apply set_nth_In in Hwn. destruct Hwn as [Hwn|Hwn]; [|apply Hd; assumption].
      subst wn. cbn. apply (routable_mono (w_node w)); auto. }
    assert (Hr' : forall d, target (f_npdu f) = Some d -> all_routable (set_nth ns who (mkW n' (w_ports w))) d)
      by (intros d Hd; apply Hpres, Hr, Hd).
    destruct (IH _ _ _ _ _ _ _ H Hg Hok' Hr') as (new & A1 & A2 & A3 & A4 & A5).
    exists (fs ++ new). repeat split.
    + rewrite A1, app_assoc. reflexivity.
    + apply Forall_app. split; assumption.
    + rewrite app_length. cbn [length Nat.mul]. lia.
    + assumption.
    + intros d Hd. apply A5, Hpres, Hd.
Qed.

(* ---- the measure: K^(hop+1) for a frame that can still be forwarded, 1 for a last-leg / local frame *)
Definition wt (K : N) (f : frame) : N :=
  match n_dadr (f_npdu f) with None => 1 | Some _ => K ^ (n_hop (f_npdu f) + 1) end.
Fixpoint mu2 (K : N) (q : list frame) : N := match q with [] => 0 | f :: r => wt K f + mu2 K r end.

Lemma mu2_app : forall K a b, mu2 K (a ++ b) = mu2 K a + mu2 K b.
Proof. intros K. induction a as [|x a IH]; intro b; cbn [app mu2]; [reflexivity|]. rewrite IH. lia. Qed.

Lemma wt_pos : forall K f, K <> 0 -> 1 <= wt K f.
Proof.
  intros K f HK. unfold wt. destruct (n_dadr (f_npdu f)); [|lia].
  assert (K ^ (n_hop (f_npdu f) + 1) <> 0) by (apply N.pow_nonzero; assumption). lia.
Qed.

Lemma child_wt : forall K f g, 1 <= K -> child_of f g -> wt K g <= K ^ n_hop (f_npdu f).
Proof.
  intros K f g HK (Hd & _ & Hc). unfold wt. destruct Hc as [Hc|[Hc Hh]].
  - rewrite Hc. assert (K ^ n_hop (f_npdu f) <> 0) by (apply N.pow_nonzero; lia). lia.
  - rewrite Hc. destruct (n_dadr (f_npdu f)); [|congruence]. rewrite Hh. lia.
Qed.

Lemma children_lt : forall K f (len : nat) new,
  Forall (child_of f) new -> (length new <= len)%nat -> N.of_nat len < K -> mu2 K new < wt K f.
Proof.
  intros K f len new Hn Hl HK.
  destruct new as [|g r].
  - cbn. pose proof (wt_pos K f). lia.
  - pose proof (Forall_inv Hn) as (Hd & _).
    assert (Hsum : forall l, Forall (child_of f) l -> mu2 K l <= N.of_nat (length l) * K ^ n_hop (f_npdu f)).
    { induction l as [|x l IHl]; intro Hx; [cbn; lia|]. inversion Hx; subst. cbn [mu2 length].
      rewrite Nat2N.inj_succ, N.mul_succ_l. pose proof (child_wt K f x ltac:(lia) H1). specialize (IHl H2). lia. }
    specialize (Hsum _ Hn). unfold wt. destruct (n_dadr (f_npdu f)); [|congruence].
    rewrite N.add_1_r, N.pow_succ_r'.
    assert (0 < K ^ n_hop (f_npdu f)) by (apply N.neq_0_lt_0; apply N.pow_nonzero; lia).
    assert (N.of_nat (length (g :: r)) * K ^ n_hop (f_npdu f) < K * K ^ n_hop (f_npdu f))
      by (apply N.mul_lt_mono_pos_r; [assumption|lia]).
    lia.
Qed.

Definition targets_in (D : N -> Prop) (q : list frame) : Prop :=
  forall f d, In f q -> target (f_npdu f) = Some d -> D d.

Lemma child_target : forall f g d, child_of f g -> target (f_npdu g) = Some d -> target (f_npdu f) = Some d.
Proof.
  intros f g d (_ & _ & [Hc|[Hc _]]) H; unfold target in *; rewrite Hc in H; [discriminate|assumption].
Qed.

Lemma step_app : forall A M (D : N -> Prop) w f q,
  queue w = f :: q -> Forall app_frame (queue w) -> nodes_ok A (nodes w) ->
  (forall lan, (length (lan_members (lans w) lan) <= M)%nat) ->
  targets_in D (queue w) -> (forall d, D d -> all_routable (nodes w) d) ->
  exists w', step w = Some w' /\ lans w' = lans w /\ nodes_ok A (nodes w') /\ Forall app_frame (queue w') /\
             targets_in D (queue w') /\ (forall d, D d -> all_routable (nodes w') d) /\
             mu2 (N.of_nat (M * S A) + 1) (queue w') < mu2 (N.of_nat (M * S A) + 1) (queue w).
Proof.
  intros A M D w f q Hq Hall Hok HM HT HD. unfold step, step_core. rewrite Hq in *.
  inversion Hall; subst.
  destruct (deliver (nodes w) f (lan_members (lans w) (f_lan f)) q [OFrame f]) as [[ns q'] os] eqn:Ed.
  assert (Hr : forall d, target (f_npdu f) = Some d -> all_routable (nodes w) d).
  { intros d Hd. apply HD. apply (HT f d); [left; reflexivity|assumption]. }
  destruct (deliver_app A _ _ _ _ _ _ _ _ Ed H1 Hok Hr) as (new & A1 & A2 & A3 & A4 & A5).
  eexists. split; [reflexivity|]. cbn [lans nodes queue]. repeat split; auto.
  - subst q'. apply Forall_app. split; [assumption|].
    eapply Forall_impl; [|exact A2]. intros g (_ & Hg & _). exact Hg.
  - subst q'. intros g d Hg Hd. apply in_app_or in Hg. destruct Hg as [Hg|Hg].
    + apply (HT g d); [right; assumption|assumption].
    + rewrite Forall_forall in A2. apply (HT f d); [left; reflexivity|]. eapply child_target; eauto.
  - subst q'. rewrite mu2_app. cbn [mu2].
    assert (Hlt : mu2 (N.of_nat (M * S A) + 1) new < wt (N.of_nat (M * S A) + 1) f).
    { apply (children_lt _ _ (M * S A)%nat); [assumption| |lia]. specialize (HM (f_lan f)). nia. }
    lia.
Qed.

Lemma app_terminates_bounded : forall A M (D : N -> Prop) m w,
  (N.to_nat (mu2 (N.of_nat (M * S A) + 1) (queue w)) < m)%nat ->
  Forall app_frame (queue w) -> nodes_ok A (nodes w) ->
  (forall lan, (length (lan_members (lans w) lan) <= M)%nat) ->
  targets_in D (queue w) -> (forall d, D d -> all_routable (nodes w) d) ->
  exists k, queue (run k w) = [].
Proof.
  intros A M D. induction m as [|m IH]; intros w Hm Hall Hok HM HT HD; [lia|].
  destruct (queue w) as [|f q] eqn:Hq; [exists 0%nat; cbn; assumption|].
  rewrite <- Hq in Hall, Hm, HT.
  destruct (step_app A M D w f q Hq Hall Hok HM HT HD) as (w' & Hs & Hl & Hok' & Hall' & HT' & HD' & Hlt).
  destruct (IH w') as [k Hk]; auto; [lia|intro lan; rewrite Hl; apply HM|].
  exists (S k). cbn [run]. rewrite Hs. assumption.
Qed.

(* Any internetwork — any topology — whose frames in flight are application-layer messages, and in which every
   router has some path (directly connected or cached next hop) to each remote network those frames are
   addressed to, reaches quiescence. *)
Theorem forwarding_terminates : forall w,
  Forall app_frame (queue w) ->
  (forall f d wn, In f (queue w) -> target (f_npdu f) = Some d -> In wn (nodes w) -> routable (w_node wn) d) ->
  exists k, queue (run k w) = [].
Proof.
  intros w Hall Hr.
  set (A := list_max (map (fun wn => length (adapters (w_node wn))) (nodes w))).
  set (M := list_max (map (fun kv : N * list (nat * nat) => length (snd kv)) (lans w))).
  apply (app_terminates_bounded A M (fun d => exists f, In f (queue w) /\ target (f_npdu f) = Some d)
           (S (N.to_nat (mu2 (N.of_nat (M * S A) + 1) (queue w))))); auto.
  - unfold nodes_ok. assert (H : (list_max (map (fun wn => length (adapters (w_node wn))) (nodes w)) <= A)%nat) by (subst A; lia).
    apply list_max_le in H. rewrite Forall_map in H. exact H.
  - intro lan. apply lan_members_bound.
  - intros f d Hf Hd. exists f. auto.
  - intros d [f [Hf Hd]] wn Hwn. eapply Hr; eauto.
Qed.

(* ---- a decidable form of the hypothesis, for examples *)
Definition routableb (n : node) (d : N) : bool :=
  negb (is_router n)
  || match find_net n (Some d) with Some _ => true | None => false end
  || match find_path n d with Some _ => true | None => false end.

Lemma routableb_sound : forall n d, routableb n d = true -> routable n d.
Proof.
  intros n d H. unfold routableb in H. apply orb_prop in H. destruct H as [H|H].
  - apply orb_prop in H. destruct H as [H|H].
    + left. destruct (is_router n); [discriminate|reflexivity].
    + right; left. destruct (find_net n (Some d)); [discriminate|discriminate H].
  - right; right. destruct (find_path n d); [discriminate|discriminate H].
Qed.

Definition world_routableb (w : world) : bool :=
  forallb (fun f => match n_msg (f_npdu f) with None => true | Some _ => false end
                    && match target (f_npdu f) with
                       | Some d => forallb (fun wn => routableb (w_node wn) d) (nodes w)
                       | None => true end) (queue w).

Lemma world_routableb_sound : forall w, world_routableb w = true ->
  Forall app_frame (queue w) /\
  (forall f d wn, In f (queue w) -> target (f_npdu f) = Some d -> In wn (nodes w) -> routable (w_node wn) d).
Proof.
  intros w H. unfold world_routableb in H. rewrite forallb_forall in H. split.
  - apply Forall_forall. intros f Hf. specialize (H f Hf). apply andb_prop in H. destruct H as [H _].
    unfold app_frame. destruct (n_msg (f_npdu f)); [discriminate|reflexivity].
  - intros f d wn Hf Hd Hwn. specialize (H f Hf). apply andb_prop in H. destruct H as [_ H].
    rewrite Hd in H. rewrite forallb_forall in H. apply routableb_sound. apply H. assumption.
Qed.

Corollary forwarding_terminates_b : forall w, world_routableb w = true -> exists k, queue (run k w) = [].
Proof. intros w H. destruct (world_routableb_sound w H). apply forwarding_terminates; assumption. Qed.
