(* SsmFacts.v — lemmas about the pure parts of Ssm.v: segment slicing and reassembly, in_window,
   invoke-id allocation, transaction lookup. *)
From Coq Require Import ZifyBool ZifyN ZifyNat.
From Bac Require Import Base PyRt Ssm.
From BacGen Require Import ApduFns.
Open Scope Z_scope.
Ltac Zify.zify_post_hook ::= Z.to_euclidean_division_equations.

(* ---------- slicing ---------- *)
Lemma zlen_nonneg : forall {A} (l : list A), 0 <= zlen l.
Proof. intros. unfold zlen. lia. Qed.

Lemma zlen_app : forall {A} (a b : list A), zlen (a ++ b) = zlen a + zlen b.
Proof. intros. unfold zlen. rewrite app_length. lia. Qed.

Lemma slice_length : forall d off sz, 0 <= sz -> zlen (slice d off sz) <= sz.
Proof.
  intros d off sz H. unfold slice, zlen. rewrite firstn_length. lia.
Qed.

Lemma skipn_skipn' : forall {A} (b a : nat) (l : list A), skipn a (skipn b l) = skipn (b + a) l.
Proof.
  induction b as [|b IH]; intros a l; [reflexivity|].
  destruct l; cbn [skipn Nat.add]; [destruct a; reflexivity | apply IH].
Qed.

Lemma chunks_concat : forall (k szn : nat) (p : list Z),
  (szn > 0)%nat -> (length p <= k * szn)%nat ->
  concat (map (fun i => firstn szn (skipn (i * szn) p)) (seq 0 k)) = p.
Proof.
  induction k as [|k IH]; intros szn p Hs Hl.
  - cbn in *. destruct p; [reflexivity | cbn in Hl; lia].
  - cbn [seq map concat]. rewrite <- seq_shift, map_map.
    cbn [Nat.mul Nat.add skipn].
    transitivity (firstn szn p ++ skipn szn p); [|apply firstn_skipn]. f_equal.
    rewrite <- (IH szn (skipn szn p) Hs) at 1.
    + f_equal. apply map_ext. intros i.
      rewrite skipn_skipn'. reflexivity.
    + rewrite skipn_length. lia.
Qed.

Fixpoint zrange (from : Z) (n : nat) : list Z := match n with O => [] | S k => from :: zrange (from + 1) k end.

Lemma zrange_seq : forall n from, zrange from n = map (fun i => from + Z.of_nat i) (seq 0 n).
Proof.
  induction n; intros; cbn [zrange seq map]; [reflexivity|].
  rewrite IHn, <- seq_shift, map_map. f_equal; [lia|]. apply map_ext. intros. lia.
Qed.

(* the list of segment payloads the sender produces for `p` cut into pieces of `sz` *)
Definition slices (p : list Z) (sz : Z) (n : Z) : list (list Z) :=
  map (fun i => slice p (i * sz) sz) (zrange 0 (Z.to_nat n)).

Lemma seg_count_bound : forall len sz n, 0 <= len -> 0 < sz -> seg_count len sz = Ok n ->
  1 <= n /\ len <= n * sz /\ (len = 0 \/ (n - 1) * sz < len).
Proof.
  intros len sz n Hl Hs H. unfold seg_count in H.
  destruct (len =? 0) eqn:E0; [inversion H; lia|].
  destruct (sz =? 0) eqn:E1; [lia|].
  assert (Hd := Z.div_mod len sz ltac:(lia)).
  assert (Hm := Z.mod_pos_bound len sz Hs).
  assert (Hq : 0 <= len / sz) by (apply Z.div_pos; lia).
  destruct (len mod sz =? 0) eqn:E2; inversion H; subst; clear H.
  - assert (len mod sz = 0) by lia. assert (len / sz <> 0) by nia. nia.
  - assert (len mod sz <> 0) by lia. nia.
Qed.

Lemma slices_concat : forall p sz n, 0 < sz -> seg_count (zlen p) sz = Ok n -> concat (slices p sz n) = p.
Proof.
  intros p sz n Hs Hc.
  destruct (seg_count_bound _ _ _ (zlen_nonneg p) Hs Hc) as (Hn & Hb & _).
  unfold slices. rewrite zrange_seq, map_map.
  transitivity (concat (map (fun i => firstn (Z.to_nat sz) (skipn (i * Z.to_nat sz) p)) (seq 0 (Z.to_nat n)))).
  - f_equal. apply map_ext. intros i. unfold slice. f_equal. f_equal. lia.
  - apply chunks_concat; [lia|]. unfold zlen in Hb. nia.
Qed.

(* each piece but the last is full, the last is not empty unless the message is *)
Lemma slice_full : forall p sz i, 0 < sz -> 0 <= i -> (i + 1) * sz <= zlen p -> zlen (slice p (i * sz) sz) = sz.
Proof.
  intros p sz i Hs Hi Hb. unfold slice, zlen in *. rewrite firstn_length, skipn_length. nia.
Qed.

(* ---------- the receiver: in-order acceptance ---------- *)
(* what both receivers do with a segment numbered `s` carrying `d` when `k` segments after the first have been
   accepted (lastSequenceNumber = k mod 256): appservice.py:643-656 and 1005-1021 *)
Definition rx_step (st : Z * list Z) (f : Z * list Z) : Z * list Z :=
  let '(k, acc) := st in let '(s, d) := f in
  if s =? (k mod 256 + 1) mod 256 then (k + 1, acc ++ d) else (k, acc).

Definition prefix_upto (p : list Z) (sz k : Z) : list Z := firstn (Z.to_nat ((k + 1) * sz)) p.

Lemma firstn_add' : forall {A} (a b : nat) (l : list A), firstn (a + b) l = firstn a l ++ firstn b (skipn a l).
Proof.
  induction a as [|a IH]; intros b l; [reflexivity|].
  destruct l; cbn [firstn skipn Nat.add app]; [destruct b; reflexivity | f_equal; apply IH].
Qed.

Lemma firstn_slice_next : forall p sz k, 0 < sz -> 0 <= k ->
  prefix_upto p sz k ++ slice p ((k + 1) * sz) sz = prefix_upto p sz (k + 1).
Proof.
  intros p sz k Hs Hk. unfold prefix_upto, slice.
  replace (Z.to_nat ((k + 1 + 1) * sz)) with (Z.to_nat ((k + 1) * sz) + Z.to_nat sz)%nat by nia.
  rewrite firstn_add'. reflexivity.
Qed.

(* frames: (sequence number, payload).  Hypothesis H: every frame numbered s carries the slice with some index i,
   i = s (mod 256), closer than 128 to the index expected next — the protocol's own limit on reordering. *)
Definition frame_ok (p : list Z) (sz : Z) (k : Z) (f : Z * list Z) : Prop :=
  exists i, 0 <= i /\ fst f = i mod 256 /\ snd f = slice p (i * sz) sz /\ Z.abs (i - (k + 1)) < 128.

Lemma rx_step_exact : forall p sz k f, 0 < sz -> 0 <= k ->
  frame_ok p sz k f ->
  let st' := rx_step (k, prefix_upto p sz k) f in
  0 <= fst st' /\ snd st' = prefix_upto p sz (fst st') /\ (fst st' = k \/ fst st' = k + 1).
Proof.
  intros p sz k [s d] Hs Hk (i & Hi & Hsq & Hd & Hnear). cbn [fst snd] in *. subst s d.
  unfold rx_step. destruct (i mod 256 =? (k mod 256 + 1) mod 256) eqn:E; cbn [fst snd].
  - assert (i = k + 1) by lia. subst i.
    repeat split; try lia. apply firstn_slice_next; lia.
  - repeat split; try lia.
Qed.

(* any sequence of frames, each acceptable at the moment it arrives (duplicates and out-of-order frames included):
   what has been reassembled is always a prefix of the message cut at a segment boundary *)
Fixpoint frames_ok (p : list Z) (sz : Z) (k : Z) (fs : list (Z * list Z)) : Prop :=
  match fs with
  | [] => True
  | f :: r => frame_ok p sz k f /\ frames_ok p sz (fst (rx_step (k, prefix_upto p sz k) f)) r
  end.

Lemma receiver_prefix : forall p sz fs k, 0 < sz -> 0 <= k -> frames_ok p sz k fs ->
  let st := fold_left rx_step fs (k, prefix_upto p sz k) in
  k <= fst st /\ snd st = prefix_upto p sz (fst st).
Proof.
  intros p sz fs. induction fs as [|f r IH]; intros k Hs Hk Hok; cbn [fold_left].
  - cbn. split; [lia | reflexivity].
  - destruct Hok as (Hf & Hr).
    destruct (rx_step_exact p sz k f Hs Hk Hf) as (H0 & H1 & H2).
    destruct (rx_step (k, prefix_upto p sz k) f) as [k' acc'] eqn:E. cbn [fst snd] in *. subst acc'.
    specialize (IH k' Hs H0 Hr). cbn zeta in IH. destruct IH as (IH1 & IH2). split; [lia | exact IH2].
Qed.

Lemma prefix_all : forall p sz k, 0 < sz -> zlen p <= (k + 1) * sz -> prefix_upto p sz k = p.
Proof.
  intros p sz k Hs H. unfold prefix_upto. apply firstn_all2. unfold zlen in H. lia.
Qed.

(* ---------- in_window ---------- *)
Lemma in_window_spec : forall a b w, 0 <= a < 256 -> 0 <= b < 256 ->
  in_window a b w = true <-> (a - b) mod 256 < w.
Proof.
  intros a b w Ha Hb. unfold in_window. rewrite Z.ltb_lt.
  replace ((a - b + 256) mod 256) with ((a - b) mod 256); [tauto|]. lia.
Qed.

(* ---------- invoke ids ---------- *)
Lemma tr_matches_eq : forall i p t, tr_matches i p t = true -> i = s_invoke t /\ p = s_peer t.
Proof. intros i p t H. unfold tr_matches in H. lia. Qed.

Lemma alloc_id_fresh : forall fuel initial next peer live id next',
  alloc_id fuel initial next peer live = (Ok id, next') -> existsb (tr_matches id peer) live = false.
Proof.
  induction fuel as [|f IH]; intros initial next peer live id next' H; cbn [alloc_id] in H; [discriminate|].
  destruct (initial =? (next + 1) mod 256); [discriminate|].
  destruct (existsb (tr_matches next peer) live) eqn:E.
  - eapply IH; eauto.
  - inversion H; subst. exact E.
Qed.

Lemma alloc_id_range : forall fuel initial next peer live id next',
  0 <= next < 256 -> alloc_id fuel initial next peer live = (Ok id, next') -> 0 <= id < 256 /\ 0 <= next' < 256.
Proof.
  induction fuel as [|f IH]; intros initial next peer live id next' Hr H; cbn [alloc_id] in H; [discriminate|].
  destruct (initial =? (next + 1) mod 256); [discriminate|].
  destruct (existsb (tr_matches next peer) live) eqn:E.
  - eapply IH; [|eauto]. lia.
  - inversion H; subst. lia.
Qed.

(* termination: 257 units of fuel are never used up *)
Lemma alloc_id_fuel : forall fuel initial next peer live,
  0 <= initial < 256 -> 0 <= next < 256 ->
  (Z.to_nat ((initial - next - 1) mod 256) < fuel)%nat ->
  fst (alloc_id fuel initial next peer live) <> Err OutOfFuel.
Proof.
  induction fuel as [|f IH]; intros initial next peer live Hi Hn Hf; [lia|].
  cbn [alloc_id].
  destruct (initial =? (next + 1) mod 256) eqn:E0; [cbn; discriminate|].
  destruct (existsb (tr_matches next peer) live) eqn:E; [|cbn; discriminate].
  apply IH; try lia.
Qed.

Lemma get_next_invoke_id_total : forall next peer live, 0 <= next < 256 ->
  fst (get_next_invoke_id next peer live) <> Err OutOfFuel.
Proof.
  intros. unfold get_next_invoke_id. apply alloc_id_fuel; try lia.
Qed.

(* when fewer than 255 ids are live towards the peer... the allocator may still refuse (it gives up after one lap
   that starts one past the cursor); what it never does is hand out a live id *)
Lemma get_next_invoke_id_fresh : forall next peer live id next',
  get_next_invoke_id next peer live = (Ok id, next') ->
  forall t, In t live -> ~ (s_invoke t = id /\ s_peer t = peer).
Proof.
  intros next peer live id next' H t Hin (H1 & H2).
  apply alloc_id_fresh in H.
  assert (existsb (tr_matches id peer) live = true); [|congruence].
  apply existsb_exists. exists t. split; [exact Hin|]. unfold tr_matches. lia.
Qed.

(* ---------- lookup ---------- *)
Lemma find_tr_spec : forall i p l k j t, find_tr i p l k = Some (j, t) ->
  (k <= j)%nat /\ nth_error l (j - k) = Some t /\ tr_matches i p t = true /\
  forall m t', (m < j - k)%nat -> nth_error l m = Some t' -> tr_matches i p t' = false.
Proof.
  induction l as [|x r IH]; intros k j t H; cbn [find_tr] in H; [discriminate|].
  destruct (tr_matches i p x) eqn:E.
  - inversion H; subst. replace (j - j)%nat with O by lia. cbn. repeat split; auto. intros; lia.
  - apply IH in H. destruct H as (H1 & H2 & H3 & H4).
    repeat split; try lia; auto.
    + replace (j - k)%nat with (S (j - S k)) by lia. exact H2.
    + intros m t' Hm Hn. destruct m; cbn in Hn.
      * inversion Hn; subst. exact E.
      * apply (H4 m t'); [lia | exact Hn].
Qed.

Lemma find_tr_none : forall i p l k, find_tr i p l k = None -> forall t, In t l -> tr_matches i p t = false.
Proof.
  induction l as [|x r IH]; intros k H t Hin; cbn [find_tr] in H; [destruct Hin|].
  destruct (tr_matches i p x) eqn:E; [discriminate|].
  destruct Hin as [<-|Hin]; [exact E | eapply IH; eauto].
Qed.
