(* Codec.v — model of the schema-driven generic encoder / decoder of bacpypes:
     constructeddata.py  Sequence.encode/decode (78-312), SequenceOf/ListOf/ArrayOf encode/decode
                         (440-485, 592-637, 850-907), Choice.encode/decode (1052-1191),
                         Any.encode/decode (1254-1275), AnyAtomic(tag) (1409-1422)
     basetypes.py        NameValue.encode/decode (2146-2203)
     apdu.py             APCISequence.encode/decode (687-717)
     primitivedata.py    Tag.app_to_context / context_to_app / app_to_object (180-215) and the
                         acceptance tests at the head of each Atomic.decode
   written clause for clause, with the exception class of every failing path.  The model follows the
   worktree WITH the three `fix:` commits recorded in known_findings/C03.json.  No proofs here. *)
From Bac Require Import Base.
From Bac Require Import Tag.
From Bac Require Import Schema.
Open Scope N_scope.

Definition open_tag (c : N) : tag := mkTag 2 c 0 [].
Definition close_tag (c : N) : tag := mkTag 3 c 0 [].

(* Tag.app_to_context: an application boolean carries its value in the LVT field *)
Definition app_to_context (c : N) (t : tag) : res tag :=
  if negb (cls t =? 0) then Err ValueErr
  else if num t =? 1 then (if lvt t <? 256 then Ok (mkTag 1 c 1 [lvt t]) else Err ValueErr)
  else Ok (mkTag 1 c (lenN (data t)) (data t)).

(* Tag.context_to_app(dataType): struct.unpack('B', data) for booleans *)
Definition context_to_app (k : N) (t : tag) : res tag :=
  if negb (cls t =? 1) then Err ValueErr
  else if k =? 1 then match data t with [b] => Ok (mkTag 0 1 b []) | _ => Err StructErr end
  else Ok (mkTag 0 k (lenN (data t)) (data t)).

(* CPython's strict utf_32_be / utf_16_be decoders *)
Fixpoint utf32_ok (l : list N) : bool :=
  match l with
  | [] => true
  | a :: b :: c :: d :: r =>
      let cp := a * 16777216 + b * 65536 + c * 256 + d in
      (cp <? 1114112) && negb ((55296 <=? cp) && (cp <=? 57343)) && utf32_ok r
  | _ => false
  end.
Fixpoint utf16_ok (fuel : nat) (l : list N) : bool :=
  match fuel with
  | O => match l with [] => true | _ => false end
  | S f =>
    match l with
    | [] => true
    | a :: b :: r =>
        if (216 <=? a) && (a <=? 219) then            (* high surrogate: a low one must follow *)
          match r with
          | c :: d :: r' => (220 <=? c) && (c <=? 223) && utf16_ok f r'
          | _ => false
          end
        else if (220 <=? a) && (a <=? 223) then false  (* lone low surrogate *)
        else utf16_ok f r
    | _ => false
    end
  end.

(* the acceptance test of <Atomic subclass with _app_tag k>(tag), i.e. of its decode(tag) *)
Definition atom_check (k : N) (t : tag) : res unit :=
  if negb ((cls t =? 0) && (num t =? k)) then Err InvalidTag
  else
    let n := lenN (data t) in
    if k =? 0 then (if n =? 0 then Ok tt else Err InvalidTag)
    else if k =? 1 then (if 1 <? lvt t then Err InvalidTag else Ok tt)
    else if (k =? 2) || (k =? 3) || (k =? 8) || (k =? 9) then (if n =? 0 then Err InvalidTag else Ok tt)
    else if (k =? 4) || (k =? 10) || (k =? 11) || (k =? 12) then (if n =? 4 then Ok tt else Err InvalidTag)
    else if k =? 5 then (if n =? 8 then Ok tt else Err InvalidTag)
    else if k =? 6 then Ok tt
    else if k =? 7 then
      match data t with
      | [] => Err InvalidTag
      | e :: s =>
          if e =? 3 then (if utf32_ok s then Ok tt else Err UnicodeErr)
          else if e =? 4 then (if utf16_ok (length s) s then Ok tt else Err UnicodeErr)
          else Ok tt
      end
    else Err OtherErr.

(* AnyAtomic(tag) = tag.app_to_object(): Tag._app_tag_class[tagNumber] (16 entries, 13..15 None) *)
Definition anyatomic_obj (x : tag) : res (option val) :=
  if negb (cls x =? 0) then Err ValueErr
  else if 16 <=? num x then Err IndexErr
  else if 13 <=? num x then Ok None
  else do _ <- atom_check (num x) x; Ok (Some (VAtom x)).

(* ---------------------------------------------------------------------------------------------- *)
(* encoding *)
Definition wrap (ctx : option N) (body : list tag) : list tag :=
  match ctx with None => body | Some c => open_tag c :: body ++ [close_tag c] end.

Definition enc_leaf (ctx : option N) (x : tag) : res (list tag) :=
  match ctx with None => Ok [x] | Some c => do x' <- app_to_context c x; Ok [x'] end.

Definition enc_list (enc : val -> res (list tag)) : list val -> res (list tag) :=
  fix go (vs : list val) : res (list tag) :=
  match vs with
  | [] => Ok []
  | v :: r => do a <- enc v; do b <- go r; Ok (a ++ b)
  end.

(* one element of Sequence.encode *)
Definition enc_wrapped (enc : ty -> val -> res (list tag)) (t : ty) (ctx : option N) (v : val) : res (list tag) :=
  do b <- enc t v; Ok (wrap ctx b).
Definition enc_atomv (ctx : option N) (v : val) : res (list tag) :=
  match v with VAtom x => enc_leaf ctx x | _ => Err TypeErr end.

Definition enc_el (enc : ty -> val -> res (list tag)) (e : elem) (f : option val) : res (list tag) :=
  match e with
  | El t ctx opt =>
    match f with
    | None => if opt then Ok [] else Err MissingRequired
    | Some v =>
      match t with
      | TSeqOf _ => match v with VList _ => enc_wrapped enc t ctx v | _ => Err TypeErr end
      | TAtom _ | TAnyAtomic => enc_atomv ctx v
      | _ => enc_wrapped enc t ctx v
      end
    end
  end.

Definition enc_els (enc : ty -> val -> res (list tag)) : list elem -> list (option val) -> res (list tag) :=
  fix go (els : list elem) (fs : list (option val)) {struct els} : res (list tag) :=
  match els, fs with
  | [], _ => Ok []
  | e :: els', f :: fs' => do a <- enc_el enc e f; do b <- go els' fs'; Ok (a ++ b)
  | _ :: _, [] => Err TypeErr
  end.

(* the chosen alternative of Choice.encode *)
Definition enc_alt (enc : ty -> val -> res (list tag)) (e : elem) (v : val) : res (list tag) :=
  match e with
  | El t ctx _ =>
    match t with
    | TAtom _ | TAnyAtomic => enc_atomv ctx v
    | _ => enc_wrapped enc t ctx v
    end
  end.

Definition enc_nth (enc : ty -> val -> res (list tag)) : list elem -> nat -> val -> res (list tag) :=
  fix go (els : list elem) (i : nat) (w : val) {struct els} : res (list tag) :=
  match els, i with
  | [], _ => Err AttrErr
  | e :: _, O => enc_alt enc e w
  | _ :: r, S j => go r j w
  end.

Definition enc_namevalue (v : val) : res (list tag) :=
  match v with
  | VSeq [Some (VAtom n); o] =>
      do n' <- app_to_context 0 n;
      match o with
      | None => Ok [n']
      | Some (VAtom x) => Ok [n'; x]
      | Some (VSeq [Some (VAtom d); Some (VAtom t)]) => Ok [n'; d; t]        (* DateTime.encode *)
      | _ => Err TypeErr
      end
  | _ => Err TypeErr
  end.

Fixpoint encode (t : ty) (v : val) {struct t} : res (list tag) :=
  match t with
  | TAtom _ | TAnyAtomic => match v with VAtom x => Ok [x] | _ => Err TypeErr end
  | TAny | TSeqOfAny => match v with VTags ts => Ok ts | _ => Err TypeErr end
  | TSeq els => match v with VSeq fs => enc_els encode els fs | _ => Err TypeErr end
  | TChoice els =>
      match v with
      | VChoice i w => enc_nth encode els i w
      | _ => Err TypeErr
      end
  | TSeqOf s => match v with VList vs => enc_list (encode s) vs | _ => Err TypeErr end
  | TArrayOf s fixed =>
      match v with
      | VList vs =>
          match fixed with
          | Some n => if lenN vs =? n then enc_list (encode s) vs else Err ValueErr
          | None => enc_list (encode s) vs
          end
      | _ => Err TypeErr
      end
  | TNameValue => enc_namevalue v
  end.

(* ---------------------------------------------------------------------------------------------- *)
(* decoding *)
Definition dres := res (val * list tag).

(* while len(taglist) != 0: stop at a closing tag, else decode one item *)
Definition dec_loop (dec1 : list tag -> dres) : nat -> list tag -> res (list val * list tag) :=
  fix go (fuel : nat) (ts : list tag) {struct fuel} : res (list val * list tag) :=
  match ts with
  | [] => Ok ([], [])
  | x :: _ =>
    if cls x =? 3 then Ok ([], ts)
    else match fuel with
         | O => Err OutOfFuel
         | S f => do (v, ts1) <- dec1 ts; do (vs, ts2) <- go f ts1; Ok (v :: vs, ts2)
         end
  end.

Definition is_closing (c : N) (y : tag) : bool := (cls y =? 3) && (num y =? c).
Definition catchable (e : err) : bool :=
  match e with DecodingError | InvalidTag => true | _ => false end.

(* one element of Sequence.decode *)
(* no more tags, or a closing tag: omitted optional / empty list (fix) / missing *)
Definition dec_el_end (t : ty) (opt : bool) (ts : list tag) : res (option val * list tag) :=
  if opt then Ok (None, ts)
  else if is_list t then Ok (Some (VList []), ts)
  else Err MissingRequired.

(* element.klass in _sequence_of_classes *)
Definition dec_el_list (dec : ty -> list tag -> dres) (t : ty) (ctx : option N) (opt : bool)
           (x : tag) (rest : list tag) : res (option val * list tag) :=
  match ctx with
  | Some c =>
      if (cls x =? 2) && (num x =? c) then
        do (v, ts1) <- dec t rest;
        match ts1 with
        | [] => Err AttrErr                      (* taglist.Pop() is None *)
        | y :: ts2 => if is_closing c y then Ok (Some v, ts2) else Err InvalidTag
        end
      else if opt then Ok (Some (VList []), x :: rest)
      else Err MissingRequired
  | None => do (v, ts1) <- dec t (x :: rest); Ok (Some v, ts1)
  end.

(* issubclass(element.klass, AnyAtomic) *)
Definition dec_el_anyatomic (ctx : option N) (opt : bool) (x : tag) (rest : list tag)
  : res (option val * list tag) :=
  match ctx with
  | Some _ => Err InvalidTag
  | None =>
      if cls x =? 0 then do o <- anyatomic_obj x; Ok (o, rest)
      else if opt then Ok (None, x :: rest)
      else Err InvalidParameterDatatype
  end.

(* issubclass(element.klass, Atomic) *)
Definition dec_el_atom (k : N) (ctx : option N) (opt : bool) (x : tag) (rest : list tag)
  : res (option val * list tag) :=
  match ctx with
  | Some c =>
      if (cls x =? 1) && (num x =? c) then
        do x' <- context_to_app k x; do _ <- atom_check k x'; Ok (Some (VAtom x'), rest)
      else if opt then Ok (None, x :: rest)
      else Err InvalidTag
  | None =>
      if (cls x =? 0) && (num x =? k) then
        do _ <- atom_check k x; Ok (Some (VAtom x), rest)
      else if opt then Ok (None, x :: rest)
      else Err InvalidParameterDatatype
  end.

(* some kind of structure *)
Definition dec_el_struct (dec : ty -> list tag -> dres) (t : ty) (ctx : option N) (opt : bool)
           (x : tag) (rest : list tag) : res (option val * list tag) :=
  match ctx with
  | Some c =>
      if (cls x =? 2) && (num x =? c) then
        do (v, ts1) <- dec t rest;
        match ts1 with
        | [] => Err InvalidTag
        | y :: ts2 => if is_closing c y then Ok (Some v, ts2) else Err InvalidTag
        end
      else if opt then Ok (None, x :: rest)
      else Err InvalidTag
  | None =>
      match dec t (x :: rest) with
      | Ok (v, ts1) => Ok (Some v, ts1)
      | Err er => if opt && catchable er then Ok (None, x :: rest) else Err er
      end
  end.

Definition dec_el (dec : ty -> list tag -> dres) (e : elem) (ts : list tag) : res (option val * list tag) :=
  match e with
  | El t ctx opt =>
    match ts with
    | [] => dec_el_end t opt ts
    | x :: rest =>
      if cls x =? 3 then dec_el_end t opt ts
      else
      match t with
      | TSeqOf _ => dec_el_list dec t ctx opt x rest
      | TAnyAtomic => dec_el_anyatomic ctx opt x rest
      | TAtom k => dec_el_atom k ctx opt x rest
      | _ => dec_el_struct dec t ctx opt x rest
      end
    end
  end.

Definition dec_els (dec : ty -> list tag -> dres) : list elem -> list tag -> res (list (option val) * list tag) :=
  fix go (els : list elem) (ts : list tag) {struct els} : res (list (option val) * list tag) :=
  match els with
  | [] => Ok ([], ts)
  | e :: r => do (f, ts1) <- dec_el dec e ts; do (fs, ts2) <- go r ts1; Ok (f :: fs, ts2)
  end.

(* the alternatives of Choice.decode, tried in order; x = the tag peeked, rest = what follows it;
   next = what trying the remaining alternatives gives *)
Definition dec_alt_atom (k : N) (ctx : option N) (i : nat) (x : tag) (rest : list tag) (next : dres) : dres :=
  match ctx with
  | Some c =>
      if (cls x =? 1) && (num x =? c) then
        do x' <- context_to_app k x; do _ <- atom_check k x'; Ok (VChoice i (VAtom x'), rest)
      else next
  | None =>
      if (cls x =? 0) && (num x =? k) then
        do _ <- atom_check k x; Ok (VChoice i (VAtom x), rest)
      else next
  end.

(* SequenceOf alternative (after the fix) and constructed alternative: same shape *)
Definition dec_alt_struct (dec : ty -> list tag -> dres) (t : ty) (ctx : option N) (i : nat)
           (x : tag) (rest : list tag) (next : dres) : dres :=
  match ctx with
  | None => Err RuntimeErr                         (* NotImplementedError *)
  | Some c =>
      if (cls x =? 2) && (num x =? c) then
        do (v, ts1) <- dec t rest;
        match ts1 with
        | [] => Err AttrErr
        | y :: ts2 => if is_closing c y then Ok (VChoice i v, ts2) else Err InvalidTag
        end
      else next
  end.

Definition dec_alts (dec : ty -> list tag -> dres) : list elem -> nat -> tag -> list tag -> dres :=
  fix dec_alts_go (alts : list elem) (i : nat) (x : tag) (rest : list tag) {struct alts} : dres :=
  match alts with
  | [] => Err AttrErr
  | El t ctx _ :: more =>
    match t with
    | TAtom k => dec_alt_atom k ctx i x rest (dec_alts_go more (S i) x rest)
    | TAnyAtomic =>         (* the translator refuses AnyAtomic alternatives; _app_tag is None *)
        match ctx with
        | Some _ => Err OtherErr
        | None => dec_alts_go more (S i) x rest
        end
    | _ => dec_alt_struct dec t ctx i x rest (dec_alts_go more (S i) x rest)
    end
  end.

Definition dec_namevalue (ts : list tag) : dres :=
  match ts with
  | [] => Err MissingRequired
  | x :: rest =>
    if (cls x =? 1) && (num x =? 0) then
      do n <- context_to_app 7 x;
      do _ <- atom_check 7 n;
      match rest with
      | [] => Ok (VSeq [Some (VAtom n); None], rest)
      | y :: rest2 =>
        if cls y =? 0 then
          match rest2 with
          | z :: rest3 =>
              if (num y =? 10) && (cls z =? 0) && (num z =? 11) then      (* DateTime().decode *)
                do _ <- atom_check 10 y; do _ <- atom_check 11 z;
                Ok (VSeq [Some (VAtom n); Some (VSeq [Some (VAtom y); Some (VAtom z)])], rest3)
              else do o <- anyatomic_obj y; Ok (VSeq [Some (VAtom n); o], rest2)
          | [] => do o <- anyatomic_obj y; Ok (VSeq [Some (VAtom n); o], rest2)
          end
        else Ok (VSeq [Some (VAtom n); None], rest)
      end
    else Err MissingRequired
  end.

Fixpoint decode (t : ty) (ts : list tag) {struct t} : dres :=
  match t with
  | TAtom k =>               (* list item: taglist.Pop(); subtype(tag) *)
      match ts with
      | [] => Err OtherErr
      | x :: rest => do _ <- atom_check k x; Ok (VAtom x, rest)
      end
  | TAnyAtomic =>
      match ts with
      | [] => Err OtherErr
      | x :: rest => do o <- anyatomic_obj x;
                     match o with Some v => Ok (v, rest) | None => Ok (VTags [], rest) end
      end
  | TAny | TSeqOfAny => do (g, r) <- any_decode ts; Ok (VTags g, r)
  | TSeq els => do (fs, r) <- dec_els decode els ts; Ok (VSeq fs, r)
  | TChoice els =>
      match ts with
      | [] => Err AttrErr
      | x :: rest => if cls x =? 3 then Err AttrErr else dec_alts decode els 0 x rest
      end
  | TSeqOf s => do (vs, r) <- dec_loop (decode s) (S (length ts)) ts; Ok (VList vs, r)
  | TArrayOf s fixed =>
      do (vs, r) <- dec_loop (decode s) (S (length ts)) ts;
      match fixed with
      | Some n => if lenN vs =? n then Ok (VList vs, r) else Err ValueErr
      | None => Ok (VList vs, r)
      end
  | TNameValue => dec_namevalue ts
  end.

(* ---------------------------------------------------------------------------------------------- *)
(* APCISequence: octets <-> elements, trailing tags rejected *)
Definition encode_pdu (t : ty) (v : val) : res (list N) :=
  do ts <- encode t v; enc_tags ts.

Definition decode_pdu (t : ty) (bs : list N) : res val :=
  match t with
  | TSeq els =>
      do ts <- dec_tags bs;
      do (fs, rest) <- dec_els decode els ts;
      match rest with [] => Ok (VSeq fs) | _ => Err TooManyArguments end
  | _ => Err OtherErr
  end.

(* ---------------------------------------------------------------------------------------------- *)
(* Any.cast_out(klass) (constructeddata.py:1299-1372): interpret the tags an Any holds as a value of the
   given type; everything must be consumed ("incomplete cast"), an atomic type wants exactly one tag.
   Like decode it is a pure function here: it returns a value and the tag list is what it was — the
   correspondence compares the implementation's Any.tagList AFTER the call(s) with the model's input. *)
Definition cast_out (t : ty) (ts : list tag) : res val :=
  match t with
  | TAtom k =>
      match ts with
      | [x] => do _ <- atom_check k x; Ok (VAtom x)
      | _ => Err DecodingError
      end
  | TAnyAtomic =>
      match ts with
      | [x] => do o <- anyatomic_obj x; match o with Some v => Ok v | None => Ok (VTags []) end
      | _ => Err DecodingError
      end
  | _ => do (v, rest) <- decode t ts; match rest with [] => Ok v | _ => Err DecodingError end
  end.

(* ---------------------------------------------------------------------------------------------- *)
(* canonical outputs for the correspondence check: the shape of a value (leaves reduced to their
   application tag number; Any keeps its tags) *)
Fixpoint canon_val (v : val) : list Z :=
  match v with
  | VAtom x => [1%Z; zN (num x)]
  | VTags ts => 2%Z :: canon_tags ts
  | VSeq fs =>
      3%Z :: zlen fs ::
      flat_map (fun o => match o with None => [0%Z] | Some w => 1%Z :: canon_val w end) fs
  | VChoice i w => 4%Z :: Z.of_nat i :: canon_val w
  | VList vs => 5%Z :: zlen vs :: flat_map canon_val vs
  end.
Definition canon_dec (p : val * list tag) : list Z := canon_val (fst p) ++ canon_tags (snd p).
(* history "look twice, then look at the Any": both results and the (unchanged) tag list *)
Definition canon_cast (t : ty) (ts : list tag) : list Z :=
  canon_res canon_val (cast_out t ts) ++ canon_res canon_val (cast_out t ts) ++ canon_tags ts.
