(* CodecTotal.v — totality of the generic codec.
   (a) encode never refuses a well-typed value;
   (b) decode on ARBITRARY tag lists: what it returns is a suffix of its input, a non-nullable type
       consumes at least one tag when the input starts with a non-closing tag, hence the list loops never
       run out of fuel, and every failure is one of the listed exception classes. *)
From Bac Require Import Base.
From Bac Require Import BytesFacts.
From Bac Require Import Tag.
From Bac Require Import TagFacts.
From Bac Require Import Schema.
From Bac Require Import Codec.
From Bac Require Import CodecFacts.
From Coq Require Import ZifyBool ZifyN ZifyNat.
Ltac Zify.zify_post_hook ::= Z.to_euclidean_division_equations.
Open Scope N_scope.

(* ====================== (a) encode is total on well-typed values ====================== *)
Definition ENC (t : ty) : Prop := forall v, has_ty t v -> exists ts, encode t v = Ok ts.
Definition ENCe (e : elem) : Prop :=
  (forall f, has_el e f -> exists ts, enc_el encode e f = Ok ts) /\
  (forall w, has_el e (Some w) -> exists ts, enc_alt encode e w = Ok ts).

Lemma enc_leaf_total k c x : leaf_ok k x -> exists ts, enc_leaf c x = Ok ts.
Proof.
  intros Hl. destruct c as [c|]; cbn [enc_leaf]; [|eauto].
  destruct (leaf_ctx_roundtrip k c x Hl) as (x' & Ha & _). rewrite Ha. cbn [bind]. eauto.
Qed.

Lemma enc_wrapped_total t c v : ENC t -> has_ty t v -> exists ts, enc_wrapped encode t c v = Ok ts.
Proof. intros He Hv. destruct (He v Hv) as [b Hb]. unfold enc_wrapped. rewrite Hb. cbn [bind]. eauto. Qed.

Lemma el_enc t c o : ENC t -> ENCe (El t c o).
Proof.
  intros He. split.
  - intros f Hf. destruct f as [v|]; [|cbn [has_el] in Hf; subst o; cbn [enc_el]; eauto].
    cbn [has_el] in Hf.
    destruct t; cbn [enc_el]; try (apply enc_wrapped_total; assumption).
    + cbn [has_ty] in Hf. destruct v as [x| | | |]; try contradiction. cbn [enc_atomv]. eapply enc_leaf_total; eauto.
    + cbn [has_ty] in Hf. destruct v as [x| | | |]; try contradiction. destruct Hf as [_ Hl].
      cbn [enc_atomv]. eapply enc_leaf_total; eauto.
    + destruct v as [| | | |vs]; try (cbn [has_ty] in Hf; contradiction). apply enc_wrapped_total; assumption.
  - intros w Hf. cbn [has_el] in Hf.
    destruct t; cbn [enc_alt]; try (apply enc_wrapped_total; assumption).
    + cbn [has_ty] in Hf. destruct w as [x| | | |]; try contradiction. cbn [enc_atomv]. eapply enc_leaf_total; eauto.
    + cbn [has_ty] in Hf. destruct w as [x| | | |]; try contradiction. destruct Hf as [_ Hl].
      cbn [enc_atomv]. eapply enc_leaf_total; eauto.
Qed.

Lemma enc_list_total s : ENC s -> forall vs, Forall (has_ty s) vs -> exists ts, enc_list (encode s) vs = Ok ts.
Proof.
  intros He. induction 1 as [|v vs Hv _ [b Hb]]; [cbn; eauto|].
  destruct (He v Hv) as [a Ha]. cbn [enc_list]. rewrite Ha. cbn [bind]. rewrite Hb. cbn [bind]. eauto.
Qed.

Theorem encode_total : forall t, ENC t.
Proof.
  apply (ty_ind2 ENC ENCe).
  - intros k v Hv. cbn [has_ty] in Hv. destruct v; try contradiction. cbn [encode]. eauto.
  - intros v Hv. cbn [has_ty] in Hv. destruct v; try contradiction. cbn [encode]. eauto.
  - intros v Hv. cbn [has_ty] in Hv. destruct v; try contradiction. cbn [encode]. eauto.
  - intros v Hv. cbn [has_ty] in Hv. destruct v; try contradiction. cbn [encode]. eauto.
  - intros els Hall v Hv. destruct v as [| |fs| |]; try contradiction. rewrite has_ty_seq in Hv. cbn [encode].
    revert fs Hv. induction Hall as [|e r [He _] _ IH]; intros fs Hv.
    + destruct fs; [|contradiction]. cbn. eauto.
    + destruct fs as [|f fs]; [contradiction|]. destruct Hv as [Hf Hv].
      destruct (He f Hf) as [a Ha]. destruct (IH fs Hv) as [b Hb].
      cbn [enc_els]. rewrite Ha. cbn [bind]. fold (enc_els encode r fs). rewrite Hb. cbn [bind]. eauto.
  - intros els Hall v Hv. destruct v as [| | |i w|]; try contradiction. rewrite has_ty_choice in Hv. cbn [encode].
    revert i Hv. induction Hall as [|e r [_ He] _ IH]; intros i Hv; [destruct i; contradiction|].
    destruct i as [|j]; cbn [has_alt enc_nth] in *; destruct Hv as [_ Hv].
    + apply He. exact Hv.
    + apply IH. exact Hv.
  - intros s He v Hv. destruct v as [| | | |vs]; try contradiction. cbn [has_ty] in Hv. cbn [encode].
    apply enc_list_total; assumption.
  - intros s f He v Hv. destruct v as [| | | |vs]; try contradiction. cbn [has_ty] in Hv. destruct Hv as [Hv Hl].
    cbn [encode]. destruct f as [n|]; [|apply enc_list_total; assumption].
    destruct (lenN vs =? n) eqn:E; [apply enc_list_total; assumption|lia].
  - intros v Hv. destruct (has_ty_namevalue v Hv) as (n & Hn & Hcases).
    destruct (leaf_ctx_roundtrip 7 0 n Hn) as (n' & Ha & _).
    destruct Hcases as [->|[(x & _ & _ & ->)|(d & t & _ & _ & ->)]];
      cbn [encode enc_namevalue]; rewrite Ha; cbn [bind]; eauto.
  - exact el_enc.
Qed.

(* ====================== (b) decode on arbitrary input ====================== *)
(* the exception classes the decoder can raise *)
Definition dec_err (e : err) : bool :=
  match e with
  | DecodingError | InvalidTag | MissingRequired | InvalidParameterDatatype
  | ValueErr | IndexErr | AttrErr | StructErr | UnicodeErr | RuntimeErr | OtherErr => true
  | _ => false
  end.

(* input starts with a tag that is not a closing tag *)
Definition headnc (ts : list tag) : Prop :=
  match ts with x :: _ => (cls x =? 3) = false | [] => False end.

(* specification of one decoding step on input ts: the remainder is a suffix; if [must] then at least
   one tag was consumed; failures are listed classes *)
Definition dspec {A} (must : Prop) (ts : list tag) (r : res (A * list tag)) : Prop :=
  match r with
  | Ok (_, ts') => exists pre, ts = pre ++ ts' /\ (must -> pre <> [])
  | Err e => dec_err e = true
  end.

Definition SUF (t : ty) : Prop := forall ts, dspec (nullable t = false /\ headnc ts) ts (decode t ts).

Lemma dspec_weaken {A} (m1 m2 : Prop) ts (r : res (A * list tag)) :
  (m2 -> m1) -> dspec m1 ts r -> dspec m2 ts r.
Proof. intros H. destruct r as [[a ts']|e]; cbn [dspec]; [|auto]. intros (pre & Hp & Hm). exists pre. auto. Qed.

Lemma atom_check_err k t e : atom_check k t = Err e -> dec_err e = true.
Proof.
  unfold atom_check.
  repeat match goal with
         | |- context [if ?b then _ else _] => destruct b
         | |- context [match data t with _ => _ end] => destruct (data t)
         end; intros H; try discriminate; injection H as <-; reflexivity.
Qed.

Lemma context_to_app_err k t e : context_to_app k t = Err e -> dec_err e = true.
Proof.
  unfold context_to_app.
  repeat match goal with
         | |- context [if ?b then _ else _] => destruct b
         | |- context [match data t with _ => _ end] => destruct (data t) as [|? [|? ?]]
         end; intros H; try discriminate; injection H as <-; reflexivity.
Qed.

Lemma anyatomic_obj_err x e : anyatomic_obj x = Err e -> dec_err e = true.
Proof.
  unfold anyatomic_obj.
  destruct (negb (cls x =? 0)); [intros H; injection H as <-; reflexivity|].
  destruct (16 <=? num x); [intros H; injection H as <-; reflexivity|].
  destruct (13 <=? num x); [discriminate|].
  destruct (atom_check (num x) x) eqn:E; cbn [bind]; [discriminate|].
  intros H; injection H as <-. eapply atom_check_err; eauto.
Qed.

Lemma any_take_spec : forall ts lvl,
  match any_take lvl ts with Ok (g, r) => ts = g ++ r | Err e => e = DecodingError end.
Proof.
  induction ts as [|t ts IH]; intros lvl.
  - cbn [any_take]. destruct lvl; reflexivity.
  - cbn [any_take]. destruct (cls t =? 2).
    + specialize (IH (S lvl)). destruct (any_take (S lvl) ts) as [[g r]|e]; cbn [bind]; [cbn [app]; f_equal|]; assumption.
    + destruct (cls t =? 3).
      * destruct lvl as [|l']; [reflexivity|].
        specialize (IH l'). destruct (any_take l' ts) as [[g r]|e]; cbn [bind]; [cbn [app]; f_equal|]; assumption.
      * specialize (IH lvl). destruct (any_take lvl ts) as [[g r]|e]; cbn [bind]; [cbn [app]; f_equal|]; assumption.
Qed.

(* closing a context-wrapped construct *)
Lemma wrapped_spec {A} (P : Prop) (k : val -> A) (c : N) (x : tag) (rest : list tag) (r : dres) (eempty : err) :
  dspec P rest r -> dec_err eempty = true ->
  dspec True (x :: rest)
    (do (v, ts1) <- r;
     match ts1 with
     | [] => Err eempty
     | y :: ts2 => if is_closing c y then Ok (k v, ts2) else Err InvalidTag
     end).
Proof.
  intros Hr He. destruct r as [[v ts1]|e]; cbn [bind dspec] in *; [|exact Hr].
  destruct Hr as (pre & -> & _). destruct ts1 as [|y ts2]; [exact He|].
  destruct (is_closing c y); [|reflexivity].
  exists (x :: pre ++ [y]). split; [|discriminate]. cbn [app]. rewrite <- app_assoc. reflexivity.
Qed.

(* ---------- one element of a Sequence ---------- *)
Definition SUFe (e : elem) : Prop :=
  forall ts, dspec (nullable_el e = false /\ headnc ts) ts (dec_el decode e ts).

Lemma el_suf t c o : SUF t -> SUFe (El t c o).
Proof.
  intros Ht ts. cbn [dec_el].
  assert (Hend : forall ts, ~ headnc ts ->
            dspec (nullable_el (El t c o) = false /\ headnc ts) ts (dec_el_end t o ts)).
  { intros ts0 Hn. unfold dec_el_end. destruct o; [|destruct (is_list t)]; cbn [dspec]; try reflexivity;
      exists []; split; try reflexivity; intros [_ H]; contradiction. }
  destruct ts as [|x rest]; [apply Hend; cbn; tauto|].
  destruct (cls x =? 3) eqn:E3; [apply Hend; cbn [headnc]; rewrite E3; discriminate|].
  assert (Hskip : forall (f : option val), nullable_el (El t c o) = true ->
            dspec (nullable_el (El t c o) = false /\ headnc (x :: rest)) (x :: rest) (Ok (f, x :: rest))).
  { intros f Hn. exists []. split; [reflexivity|]. intros [H _]. rewrite Hn in H. discriminate. }
  assert (Hwr : forall (r : dres) (ee : err) (P : Prop), dspec P rest r -> dec_err ee = true ->
            dspec (nullable_el (El t c o) = false /\ headnc (x :: rest)) (x :: rest)
              (do (v, ts1) <- r;
               match ts1 with
               | [] => Err ee
               | y :: ts2 => if is_closing (match c with Some c' => c' | None => 0 end) y
                             then Ok (Some v, ts2) else Err InvalidTag
               end)).
  { intros r ee P Hr Hee. eapply dspec_weaken; [|eapply (wrapped_spec P Some); eauto]. auto. }
  destruct t.
  - (* atom *)
    unfold dec_el_atom. destruct c as [c|].
    + destruct ((cls x =? 1) && (num x =? c)).
      * destruct (context_to_app k x) as [x'|e] eqn:Ec; cbn [bind dspec]; [|eapply context_to_app_err; eauto].
        destruct (atom_check k x') as [u|e] eqn:Ea; cbn [bind dspec]; [|eapply atom_check_err; eauto].
        exists [x]. split; [reflexivity|discriminate].
      * destruct o; [apply Hskip; reflexivity|reflexivity].
    + destruct ((cls x =? 0) && (num x =? k)).
      * destruct (atom_check k x) as [u|e] eqn:Ea; cbn [bind dspec]; [|eapply atom_check_err; eauto].
        exists [x]. split; [reflexivity|discriminate].
      * destruct o; [apply Hskip; reflexivity|reflexivity].
  - (* AnyAtomic *)
    unfold dec_el_anyatomic. destruct c as [c|]; [reflexivity|].
    destruct (cls x =? 0).
    + destruct (anyatomic_obj x) as [ov|e] eqn:Eo; cbn [bind dspec]; [|eapply anyatomic_obj_err; eauto].
      exists [x]. split; [reflexivity|discriminate].
    + destruct o; [apply Hskip; reflexivity|reflexivity].
  - (* Any *) unfold dec_el_struct. destruct c as [c|].
    + destruct ((cls x =? 2) && (num x =? c)).
      * apply (Hwr (decode TAny rest) InvalidTag _ (Ht rest) eq_refl).
      * destruct o; [apply Hskip; reflexivity|reflexivity].
    + pose proof (Ht (x :: rest)) as H. destruct (decode TAny (x :: rest)) as [[v ts1]|er]; cbn [dspec] in *.
      * destruct H as (pre & Hp & Hm). exists pre. split; [exact Hp|]. intros [Hn _]. destruct o; discriminate Hn.
      * destruct (o && catchable er) eqn:Eo; [|exact H].
        apply (Hskip None). destruct o; reflexivity.
  - (* SequenceOfAny *) unfold dec_el_struct. destruct c as [c|].
    + destruct ((cls x =? 2) && (num x =? c)).
      * apply (Hwr (decode TSeqOfAny rest) InvalidTag _ (Ht rest) eq_refl).
      * destruct o; [apply Hskip; reflexivity|reflexivity].
    + pose proof (Ht (x :: rest)) as H. destruct (decode TSeqOfAny (x :: rest)) as [[v ts1]|er]; cbn [dspec] in *.
      * destruct H as (pre & Hp & Hm). exists pre. split; [exact Hp|]. intros [Hn _]. destruct o; discriminate Hn.
      * destruct (o && catchable er) eqn:Eo; [|exact H].
        apply (Hskip None). destruct o; reflexivity.
  - (* Sequence *) unfold dec_el_struct. destruct c as [c|].
    + destruct ((cls x =? 2) && (num x =? c)).
      * apply (Hwr (decode (TSeq els) rest) InvalidTag _ (Ht rest) eq_refl).
      * destruct o; [apply Hskip; reflexivity|reflexivity].
    + pose proof (Ht (x :: rest)) as H. destruct (decode (TSeq els) (x :: rest)) as [[v ts1]|er]; cbn [dspec] in *.
      * destruct H as (pre & Hp & Hm). exists pre. split; [exact Hp|]. intros [Hn Hh]. apply Hm.
        cbn [nullable_el] in Hn. apply orb_false_iff in Hn as [_ Hn]. auto.
      * destruct (o && catchable er) eqn:Eo; [|exact H].
        apply andb_true_iff in Eo as [Eo _]. apply (Hskip None). rewrite Eo. reflexivity.
  - (* Choice *) unfold dec_el_struct. destruct c as [c|].
    + destruct ((cls x =? 2) && (num x =? c)).
      * apply (Hwr (decode (TChoice els) rest) InvalidTag _ (Ht rest) eq_refl).
      * destruct o; [apply Hskip; reflexivity|reflexivity].
    + pose proof (Ht (x :: rest)) as H. destruct (decode (TChoice els) (x :: rest)) as [[v ts1]|er]; cbn [dspec] in *.
      * destruct H as (pre & Hp & Hm). exists pre. split; [exact Hp|]. intros [Hn Hh]. apply Hm.
        cbn [nullable_el] in Hn. apply orb_false_iff in Hn as [_ Hn]. auto.
      * destruct (o && catchable er) eqn:Eo; [|exact H].
        apply andb_true_iff in Eo as [Eo _]. apply (Hskip None). rewrite Eo. reflexivity.
  - (* SequenceOf *) unfold dec_el_list. destruct c as [c|].
    + destruct ((cls x =? 2) && (num x =? c)).
      * apply (Hwr (decode (TSeqOf t) rest) AttrErr _ (Ht rest) eq_refl).
      * destruct o; [apply Hskip; reflexivity|reflexivity].
    + pose proof (Ht (x :: rest)) as H. destruct (decode (TSeqOf t) (x :: rest)) as [[v ts1]|er]; cbn [bind dspec] in *; [|exact H].
      destruct H as (pre & Hp & Hm). exists pre. split; [exact Hp|]. intros [Hn _]. destruct o; discriminate Hn.
  - (* ArrayOf (never an element in the tables) *) unfold dec_el_struct. destruct c as [c|].
    + destruct ((cls x =? 2) && (num x =? c)).
      * apply (Hwr (decode (TArrayOf t fixed) rest) InvalidTag _ (Ht rest) eq_refl).
      * destruct o; [apply Hskip; reflexivity|reflexivity].
    + pose proof (Ht (x :: rest)) as H. destruct (decode (TArrayOf t fixed) (x :: rest)) as [[v ts1]|er]; cbn [dspec] in *.
      * destruct H as (pre & Hp & Hm). exists pre. split; [exact Hp|]. intros [Hn _]. destruct o; discriminate Hn.
      * destruct (o && catchable er) eqn:Eo; [|exact H].
        apply (Hskip None). destruct o; reflexivity.
  - (* NameValue *) unfold dec_el_struct. destruct c as [c|].
    + destruct ((cls x =? 2) && (num x =? c)).
      * apply (Hwr (decode TNameValue rest) InvalidTag _ (Ht rest) eq_refl).
      * destruct o; [apply Hskip; reflexivity|reflexivity].
    + pose proof (Ht (x :: rest)) as H. destruct (decode TNameValue (x :: rest)) as [[v ts1]|er]; cbn [dspec] in *.
      * destruct H as (pre & Hp & Hm). exists pre. split; [exact Hp|]. intros [Hn Hh]. apply Hm.
        cbn [nullable_el] in Hn. apply orb_false_iff in Hn as [_ Hn]. auto.
      * destruct (o && catchable er) eqn:Eo; [|exact H].
        apply andb_true_iff in Eo as [Eo _]. apply (Hskip None). rewrite Eo. reflexivity.
Qed.

Lemma dspec_map {A B} (k : A -> B) (P : Prop) ts (r : res (A * list tag)) :
  dspec P ts r -> dspec P ts (do (a, r') <- r; Ok (k a, r')).
Proof. destruct r as [[a r']|e]; cbn [bind dspec]; auto. Qed.

(* ---------- the elements of a Sequence in order ---------- *)
Lemma els_suf els : Forall SUFe els ->
  forall ts, dspec (forallb nullable_el els = false /\ headnc ts) ts (dec_els decode els ts).
Proof.
  induction 1 as [|e r He _ IH]; intros ts.
  - cbn [dec_els dspec]. exists []. split; [reflexivity|]. intros [H _]. discriminate.
  - cbn [dec_els]. pose proof (He ts) as H1.
    destruct (dec_el decode e ts) as [[f ts1]|er]; cbn [bind dspec] in *; [|exact H1].
    destruct H1 as (p1 & -> & Hm1). pose proof (IH ts1) as H2.
    destruct (dec_els decode r ts1) as [[fs ts2]|er]; cbn [bind dspec] in *; [|exact H2].
    destruct H2 as (p2 & -> & Hm2). exists (p1 ++ p2). split; [apply app_assoc|].
    intros [Hn Hh]. cbn [forallb] in Hn. destruct p1 as [|a p1]; [|discriminate].
    cbn [app] in *. apply andb_false_iff in Hn as [Hn|Hn].
    + exfalso. apply Hm1; auto.
    + apply Hm2; auto.
Qed.

(* ---------- the alternatives of a Choice ---------- *)
Lemma alts_suf alts : Forall (fun e => SUF (el_ty e)) alts ->
  forall i x rest, dspec True (x :: rest) (dec_alts decode alts i x rest).
Proof.
  induction 1 as [|e more He _ IH]; intros i x rest; [reflexivity|].
  destruct e as [t c o]. cbn [el_ty] in He. cbn [dec_alts]. specialize (IH (S i) x rest).
  assert (Hst : forall t', SUF t' ->
            dspec True (x :: rest) (dec_alt_struct decode t' c i x rest (dec_alts decode more (S i) x rest))).
  { intros t' Ht'. unfold dec_alt_struct. destruct c as [c|]; [|reflexivity].
    destruct ((cls x =? 2) && (num x =? c)); [|exact IH].
    apply (wrapped_spec _ (VChoice i) c x rest (decode t' rest) AttrErr (Ht' rest) eq_refl). }
  destruct t; try (apply Hst; exact He).
  - unfold dec_alt_atom. destruct c as [c|].
    + destruct ((cls x =? 1) && (num x =? c)); [|exact IH].
      destruct (context_to_app k x) as [x'|e] eqn:Ec; cbn [bind dspec]; [|eapply context_to_app_err; eauto].
      destruct (atom_check k x') as [u|e] eqn:Ea; cbn [bind dspec]; [|eapply atom_check_err; eauto].
      exists [x]. split; [reflexivity|discriminate].
    + destruct ((cls x =? 0) && (num x =? k)); [|exact IH].
      destruct (atom_check k x) as [u|e] eqn:Ea; cbn [bind dspec]; [|eapply atom_check_err; eauto].
      exists [x]. split; [reflexivity|discriminate].
  - destruct c as [c|]; [reflexivity|exact IH].
Qed.

(* ---------- list loops: progress of the item decoder bounds the iterations ---------- *)
Lemma loop_suf s : SUF s -> nullable s = false ->
  forall fuel ts, (length ts <= fuel)%nat -> dspec False ts (dec_loop (decode s) fuel ts).
Proof.
  intros Hs Hn. induction fuel as [|f IH]; intros ts Hlen.
  - destruct ts as [|x r]; [|cbn [length] in Hlen; lia]. cbn [dec_loop dspec]. exists []. split; [reflexivity|tauto].
  - destruct ts as [|x r]; [cbn [dec_loop dspec]; exists []; split; [reflexivity|tauto]|].
    cbn [dec_loop]. destruct (cls x =? 3) eqn:E3; [cbn [dspec]; exists []; split; [reflexivity|tauto]|].
    pose proof (Hs (x :: r)) as H1.
    destruct (decode s (x :: r)) as [[v ts1]|er]; cbn [bind dspec] in *; [|exact H1].
    destruct H1 as (p1 & Hp & Hm1).
    assert (Hp1 : p1 <> []) by (apply Hm1; split; [exact Hn|exact E3]).
    assert (Hl1 : (length ts1 <= f)%nat).
    { assert (Hl : length (x :: r) = length (p1 ++ ts1)) by (rewrite Hp; reflexivity).
      rewrite app_length in Hl. destruct p1; [contradiction|]. cbn [length] in *. lia. }
    pose proof (IH ts1 Hl1) as H2.
    destruct (dec_loop (decode s) f ts1) as [[vs ts2]|er]; cbn [bind dspec] in *; [|exact H2].
    destruct H2 as (p2 & -> & _). exists (p1 ++ p2). split; [|tauto]. rewrite Hp. apply app_assoc.
Qed.

Lemma namevalue_suf : SUF TNameValue.
Proof.
  intros ts. cbn [decode]. unfold dec_namevalue.
  destruct ts as [|x rest]; [reflexivity|].
  destruct ((cls x =? 1) && (num x =? 0)); [|reflexivity].
  destruct (context_to_app 7 x) as [n|e] eqn:Ec; cbn [bind]; [|cbn [dspec]; eapply context_to_app_err; eauto].
  destruct (atom_check 7 n) as [u|e] eqn:Ea; cbn [bind]; [|cbn [dspec]; eapply atom_check_err; eauto].
  destruct rest as [|y rest2]; [exists [x]; split; [reflexivity|discriminate]|].
  destruct (cls y =? 0); [|exists [x]; split; [reflexivity|discriminate]].
  assert (Hobj : dspec (nullable TNameValue = false /\ headnc (x :: y :: rest2)) (x :: y :: rest2)
                   (do o <- anyatomic_obj y; Ok (VSeq [Some (VAtom n); o], rest2))).
  { destruct (anyatomic_obj y) as [o|e] eqn:Eo; cbn [bind dspec]; [|eapply anyatomic_obj_err; eauto].
    exists [x; y]. split; [reflexivity|discriminate]. }
  destruct rest2 as [|z rest3]; [exact Hobj|].
  destruct ((num y =? 10) && (cls z =? 0) && (num z =? 11)); [|exact Hobj].
  destruct (atom_check 10 y) as [u1|e] eqn:E1; cbn [bind]; [|cbn [dspec]; eapply atom_check_err; eauto].
  destruct (atom_check 11 z) as [u2|e] eqn:E2; cbn [bind]; [|cbn [dspec]; eapply atom_check_err; eauto].
  exists [x; y; z]. split; [reflexivity|discriminate].
Qed.

(* ---------- every type ---------- *)
Theorem decode_spec : forall t, wf_ty t = true -> SUF t.
Proof.
  apply (ty_ind2 (fun t => wf_ty t = true -> SUF t) (fun e => wf_el e = true -> SUF (el_ty e))).
  - intros k _ ts. cbn [decode]. destruct ts as [|x rest]; [reflexivity|].
    destruct (atom_check k x) as [u|e] eqn:Ea; cbn [bind dspec]; [|eapply atom_check_err; eauto].
    exists [x]. split; [reflexivity|discriminate].
  - intros _ ts. cbn [decode]. destruct ts as [|x rest]; [reflexivity|].
    destruct (anyatomic_obj x) as [o|e] eqn:Eo; cbn [bind dspec]; [|eapply anyatomic_obj_err; eauto].
    destruct o; exists [x]; (split; [reflexivity|discriminate]).
  - intros _ ts. cbn [decode]. unfold any_decode. pose proof (any_take_spec ts 0) as H.
    destruct (any_take 0 ts) as [[g r]|e]; cbn [bind dspec]; [|subst e; reflexivity].
    exists g. split; [exact H|]. intros [Hn _]. discriminate.
  - intros _ ts. cbn [decode]. unfold any_decode. pose proof (any_take_spec ts 0) as H.
    destruct (any_take 0 ts) as [[g r]|e]; cbn [bind dspec]; [|subst e; reflexivity].
    exists g. split; [exact H|]. intros [Hn _]. discriminate.
  - intros els Hall Hwf ts. rewrite wf_ty_seq in Hwf. cbn [decode].
    apply (dspec_map VSeq). cbn [nullable].
    apply els_suf. clear ts. induction Hall as [|e r He _ IH]; [constructor|].
    cbn [wf_els] in Hwf. apply andb_true_iff in Hwf as [Hwf Hw3]. apply andb_true_iff in Hwf as [Hw1 Hw2].
    constructor; [|apply IH; exact Hw3].
    destruct e as [t c o]. apply el_suf. exact (He Hw1).
  - intros els Hall Hwf ts. cbn [wf_ty] in Hwf.
    apply andb_true_iff in Hwf as [Hwf _]. apply andb_true_iff in Hwf as [Hwf _].
    cbn [decode]. destruct ts as [|x rest]; [reflexivity|].
    destruct (cls x =? 3); [reflexivity|].
    eapply dspec_weaken; [|apply alts_suf]; [auto|].
    clear x rest. induction Hall as [|e r He _ IH]; [constructor|].
    cbn [forallb] in Hwf. apply andb_true_iff in Hwf as [Hw1 Hw2]. constructor; auto.
  - intros s Hs Hwf ts. cbn [wf_ty] in Hwf.
    apply andb_true_iff in Hwf as [Hwf _]. apply andb_true_iff in Hwf as [Hw1 Hw2].
    cbn [decode]. apply (dspec_map VList).
    eapply dspec_weaken; [|apply (loop_suf s (Hs Hw1))]; [intros [H _]; discriminate H| |].
    + apply negb_true_iff. exact Hw2.
    + lia.
  - intros s f Hs Hwf ts. cbn [wf_ty] in Hwf.
    apply andb_true_iff in Hwf as [Hwf _]. apply andb_true_iff in Hwf as [Hw1 Hw2].
    cbn [decode].
    assert (Hl : dspec False ts (dec_loop (decode s) (S (length ts)) ts)).
    { apply (loop_suf s (Hs Hw1)); [apply negb_true_iff; exact Hw2|lia]. }
    destruct (dec_loop (decode s) (S (length ts)) ts) as [[vs r]|e]; cbn [bind dspec] in *; [|exact Hl].
    destruct Hl as (pre & Hp & _).
    destruct f as [n|]; [destruct (lenN vs =? n)|]; cbn [dspec]; try reflexivity;
      (exists pre; split; [exact Hp|intros [H _]; discriminate H]).
  - intros _. exact namevalue_suf.
  - intros t c o Ht Hwf. cbn [wf_el] in Hwf. cbn [el_ty].
    apply andb_true_iff in Hwf as [Hwf _]. apply andb_true_iff in Hwf as [Hwf _]. exact (Ht Hwf).
Qed.

(* decode never runs out of fuel, whatever the input; every failure is a listed exception class *)
Theorem decode_total t : wf_ty t = true -> forall ts,
  (exists v ts', decode t ts = Ok (v, ts') /\ exists pre, ts = pre ++ ts')
  \/ (exists e, decode t ts = Err e /\ dec_err e = true).
Proof.
  intros Hwf ts. pose proof (decode_spec t Hwf ts) as H.
  destruct (decode t ts) as [[v ts']|e]; cbn [dspec] in H.
  - left. destruct H as (pre & Hp & _). eauto.
  - right. eauto.
Qed.

Theorem decode_fuel_enough t : wf_ty t = true -> forall ts, decode t ts <> Err OutOfFuel.
Proof.
  intros Hwf ts. destruct (decode_total t Hwf ts) as [(v & ts' & -> & _)|(e & -> & He)]; [discriminate|].
  intros H. injection H as ->. discriminate.
Qed.

(* the same for a whole PDU, from octets: Ok, or a listed class, or TooManyArguments *)
Theorem decode_pdu_total els : wf_ty (TSeq els) = true -> forall bs,
  (exists v, decode_pdu (TSeq els) bs = Ok v)
  \/ (exists e, decode_pdu (TSeq els) bs = Err e /\ (dec_err e = true \/ e = TooManyArguments)).
Proof.
  intros Hwf bs. unfold decode_pdu.
  destruct (TagFacts.decode_total bs) as [[ts ->]| ->]; cbn [bind]; [|right; eexists; split; [reflexivity|left; reflexivity]].
  pose proof (decode_spec (TSeq els) Hwf ts) as H. cbn [decode] in H.
  destruct (dec_els decode els ts) as [[fs r]|e]; cbn [bind dspec] in *.
  - destruct r; [left; eauto|right; eexists; split; [reflexivity|right; reflexivity]].
  - right. eauto.
Qed.

(* the PDU round trip with no hypothesis on the encoder's outcome *)
From Bac Require Import CodecWf.
Theorem pdu_roundtrip_total els : supported (TSeq els) = true -> wf_ty (TSeq els) = true ->
  forall v, has_ty (TSeq els) v -> val_wf v ->
  exists bs, encode_pdu (TSeq els) v = Ok bs /\ decode_pdu (TSeq els) bs = Ok v /\
             forall v', decode_pdu (TSeq els) bs = Ok v' -> encode_pdu (TSeq els) v' = Ok bs.
Proof.
  intros Hs Hw v Hv Hvw. exact (pdu_roundtrip_wf els Hs Hw v Hv Hvw (encode_total (TSeq els) v Hv)).
Qed.

(* Any.cast_out of what the encoder produced gives the value back (and, being a function of the tag list,
   any number of times) *)
Theorem cast_out_roundtrip t : supported t = true -> wf_ty t = true ->
  forall v ts, has_ty t v -> encode t v = Ok ts -> cast_out t ts = Ok v.
Proof.
  intros Hs Hw v ts Hv He.
  pose proof (roundtrip t Hs Hw v ts [] Hv He I) as Hrt. rewrite app_nil_r in Hrt.
  destruct t; unfold cast_out; try (rewrite Hrt; reflexivity).
  - cbn [has_ty] in Hv. destruct v as [x| | | |]; try contradiction.
    cbn [encode] in He. injection He as <-. rewrite (leaf_check _ _ Hv). reflexivity.
  - cbn [has_ty] in Hv. destruct v as [x| | | |]; try contradiction.
    cbn [encode] in He. injection He as <-. cbn [decode] in Hrt.
    destruct (anyatomic_obj x) as [[w|]|e]; cbn [bind] in *; try discriminate; injection Hrt as <-; reflexivity.
Qed.
