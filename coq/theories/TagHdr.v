(* TagHdr.v — the header lemmas of Tag.v (slow case analyses, kept apart) *)
From Bac Require Import Base BytesFacts Tag.
From Coq Require Import ZifyBool ZifyN ZifyNat.
Ltac Zify.zify_post_hook ::= Z.to_euclidean_division_equations.
Open Scope N_scope.

Ltac list_eq := repeat first [ reflexivity | (apply (f_equal2 (@cons N)); [lia|]) ].

Definition hdr (t : tag) : res (list N) :=
  let d := class_bits (cls t)
           + (if num t <? 15 then num t * 16 else 240)
           + (if lvt t <? 5 then lvt t else 5) in
  do h <- put d;
  do x <- (if num t <? 15 then Ok [] else put (num t));
  do l <- len_escape (lvt t);
  Ok (h ++ x ++ l).

Lemma enc_tag_hdr t : enc_tag t = do h <- hdr t; Ok (h ++ data t).
Proof.
  unfold enc_tag, hdr.
  destruct (put _) as [h|]; cbn [bind]; [|reflexivity].
  destruct (if num t <? 15 then _ else _) as [x|]; cbn [bind]; [|reflexivity].
  destruct (len_escape _) as [l|]; cbn [bind]; [|reflexivity].
  now rewrite <- !app_assoc.
Qed.

(* the emitted header is exactly the standard's (length escapes, extended number) *)
Lemma hdr_spec t : wf_tag t = true -> hdr t = Ok (spec_header t).
Proof.
  destruct t as [c n l d]. unfold wf_tag, hdr, spec_header, class_bits, len_escape, put, put_short, put_long, be2, be4; cbn [cls num lvt data].
  intros H.
  destruct (c =? 1) eqn:C1; destruct (c =? 2) eqn:C2; destruct (c =? 3) eqn:C3; destruct (c =? 0) eqn:C0; try lia;
  destruct (n <? 15) eqn:N15; destruct (l <? 5) eqn:L5; cbn [orb andb] in H;
  try (destruct (l <=? 253) eqn:L253); try (destruct (l <=? 65535) eqn:L64k);
  repeat match goal with |- context [if ?b then _ else _] => let E := fresh "E" in destruct b eqn:E; try lia end;
  cbn [bind app]; f_equal; list_eq.
Qed.

Lemma tag_eq c n l d c' n' l' d' :
  c = c' -> n = n' -> l = l' -> d = d' -> mkTag c n l d = mkTag c' n' l' d'.
Proof. now intros -> -> -> ->. Qed.
Lemma get_data_0 bs : get_data 0 bs = Ok ([], bs).
Proof. unfold get_data. destruct (lenN bs <? 0) eqn:E; [lia|reflexivity]. Qed.

(* decoding a header followed by anything *)
Lemma dec_hdr t rest :
  wf_tag t = true ->
  forall h, hdr t = Ok h ->
  dec_tag_raw (h ++ data t ++ rest) = Ok (t, rest).
Proof.
  intros W h Hh. rewrite (hdr_spec t W) in Hh. injection Hh as <-.
  destruct t as [c n l d]. unfold wf_tag in W. cbn [cls num lvt data] in *.
  unfold spec_header; cbn [cls num lvt data].
  assert (Hd: forall k, lenN d = k -> get_data k (d ++ rest) = Ok (d, rest)).
  { intros k <-. apply get_data_app. }
  assert (Hd0: lenN d = 0 -> d = []).
  { unfold lenN. destruct d; cbn; [reflexivity|lia]. }
  destruct (c =? 2) eqn:C2; destruct (c =? 3) eqn:C3; destruct (c =? 0) eqn:C0; try lia;
  destruct (n <? 15) eqn:N15; destruct (l <? 5) eqn:L5; cbn [orb andb] in W;
  try (destruct (l <=? 253) eqn:L253); try (destruct (l <=? 65535) eqn:L64k);
  try (destruct (n =? 1) eqn:N1); cbn [andb] in W;
  unfold dec_tag_raw; cbn [app get bind];
  repeat match goal with
  | |- context [if ?b then _ else _] => let E := fresh "E" in destruct b eqn:E; try lia; cbn [bind get app]
  end.
  all: try (rewrite Hd0 by lia; cbn [app]).
  all: try (replace d with (@nil N) by (symmetry; apply Hd0; lia); cbn [app]).
  all: cbn [get_short get_long bind].
  all: repeat match goal with
  | |- context [if ?b then _ else _] => let E := fresh "E" in destruct b eqn:E; try lia; cbn [bind get app]
  end.
  all: try (rewrite Hd by lia; cbn [bind]).
  all: try (rewrite get_data_0; cbn [bind]).
  all: f_equal; f_equal; apply tag_eq; try lia; try reflexivity.
Qed.

