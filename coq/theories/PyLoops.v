(* PyLoops.v — run-time support for the statement-level translator translator/gen_tagfns.py
   (coq/gen/TagFns.v): Python `for x in xs:` over a list as a monadic fold, `while c:` as recursion
   on explicit fuel (Err OutOfFuel when the fuel runs out), truthiness of a sequence.
   No proofs here (TagGenFacts.v). *)
From Bac Require Export Base.
Open Scope N_scope.

(* truth value of a bytes / bytearray / list object *)
Definition nonempty {A : Type} (l : list A) : bool :=
  match l with [] => false | _ :: _ => true end.

(* for a in l: s = body a s   (an exception leaves the loop) *)
Fixpoint for_each {A St : Type} (body : A -> St -> res St) (l : list A) (s : St) : res St :=
  match l with
  | [] => Ok s
  | a :: r => do s' <- body a s; for_each body r s'
  end.

(* while cond s: s = body s   — at most `fuel` iterations *)
Fixpoint while_fuel {St : Type} (fuel : nat) (cond : St -> bool) (body : St -> res St) (s : St) : res St :=
  if cond s then
    match fuel with
    | O => Err OutOfFuel
    | S f => do s' <- body s; while_fuel f cond body s'
    end
  else Ok s.
