(* RouterCache.v — model of netservice.RouterInfoCache (py34/bacpypes/netservice.py:38-185,
   with the four `fix:` commits of property C19 applied).  No proofs here (RouterCacheFacts.v).

   Python state                                   model
   self.routers   {snet: {Address: RouterInfo}}   nets    : the keys of self.routers (an inner dict may be empty)
                                                  routers : association list keyed by (snet, address)
   RouterInfo.dnets {dnet: status}, .status       rinfo   : association list dnet -> status, optional status
   self.path_info {(snet, dnet): RouterInfo}      paths   : association list (snet, dnet) -> address

   A source network is a Z (None, the not yet learned network of an adapter, is -1); an
   address is the Z the harness assigns to an Address object.  path_info holds *references*
   to RouterInfo objects; the model holds the address, i.e. the key under which the object is
   filed in routers[snet].  That is the same thing exactly when every path_info value is the
   record currently filed under its own (snet, address) — part of the invariant [Coherent]
   which RouterCacheFacts proves of every reachable state; where a Python `del`/`pop` would
   raise KeyError the model returns [Err KeyErr] (RouterCacheFacts: never from a coherent state).

   Python loops over a dict / list that only delete or only insert are written with the list
   combinators below (afilter = "delete every key for which ...", fold_left aset = "insert
   each"); each use names the source lines. *)
From Bac Require Import Base.
Open Scope Z_scope.

(* ---- association lists (a Python dict: at most one binding per key is ever looked at) *)
Section Assoc.
  Context {K V : Type} (eqb : K -> K -> bool).
  Fixpoint aget (k : K) (l : list (K * V)) : option V :=
    match l with
    | [] => None
    | (k', v) :: r => if eqb k k' then Some v else aget k r
    end.
  Definition amem (k : K) (l : list (K * V)) : bool :=
    match aget k l with Some _ => true | None => false end.
  (* keep the bindings whose key satisfies f *)
  Definition afilter (f : K -> bool) (l : list (K * V)) : list (K * V) :=
    filter (fun kv => f (fst kv)) l.
  Definition adel (k : K) (l : list (K * V)) : list (K * V) :=
    afilter (fun k' => negb (eqb k' k)) l.
  (* d[k] = v *)
  Definition aset (k : K) (v : V) (l : list (K * V)) : list (K * V) := (k, v) :: adel k l.
End Assoc.

Definition keq (a b : Z * Z) : bool := (fst a =? fst b) && (snd a =? snd b).
Definition zmem (x : Z) (l : list Z) : bool := existsb (Z.eqb x) l.
Definition kmem (k : Z * Z) (l : list (Z * Z)) : bool := existsb (keq k) l.

Fixpoint foldM {A B} (f : A -> B -> res A) (l : list B) (a : A) : res A :=
  match l with
  | [] => Ok a
  | b :: r => do a' <- f a b; foldM f r a'
  end.

(* ---- state *)
Record rinfo := mkR { dnets : list (Z * Z); rstatus : option Z }.
Record cache := mkC { nets : list Z; routers : list ((Z * Z) * rinfo); paths : list ((Z * Z) * Z) }.

Definition empty : cache := mkC [] [] [].                       (* __init__, :61-65 *)

Definition rget (s : cache) (sn a : Z) : option rinfo := aget keq (sn, a) (routers s).
Definition pget (s : cache) (sn d : Z) : option Z := aget keq (sn, d) (paths s).
Definition has_dnet (ri : rinfo) (d : Z) : bool := amem Z.eqb d (dnets ri).

(* get_router_info, :67-74: the address of the RouterInfo found (None = no entry) *)
Definition get_router_info (s : cache) (sn d : Z) : option Z := pget s sn d.

(* :81-85 and :148-152: the routers (other than [excl]) holding a path to one of ds *)
Definition others_of (s : cache) (sn : Z) (excl : option Z) (ds : list Z) : list Z :=
  nodup Z.eq_dec
    (flat_map (fun d => match pget s sn d with
                        | Some a' => if match excl with Some a => a' =? a | None => false end
                                     then [] else [a']
                        | None => []
                        end) ds).

(* :89-97 and :155-163, body of `for router_info in other_routers`: take ds away from router
   (sn, a') and from the paths; drop the router when nothing is left *)
Definition displace (sn : Z) (ds : list Z) (s : cache) (a' : Z) : res cache :=
  match rget s sn a' with
  | None => Err KeyErr
  | Some ri =>
      if negb (forallb (fun d => implb (has_dnet ri d) (amem keq (sn, d) (paths s))) ds)
      then Err KeyErr                                            (* del self.path_info[...] *)
      else
        let dn' := afilter (fun d => negb (zmem d ds)) (dnets ri) in
        let p' := afilter (fun k => negb ((fst k =? sn) && zmem (snd k) ds && has_dnet ri (snd k)))
                          (paths s) in
        let r' := match dn' with
                  | [] => adel keq (sn, a') (routers s)          (* del self.routers[snet][address] *)
                  | _ => aset keq (sn, a') (mkR dn' (rstatus ri)) (routers s)
                  end in
        Ok (mkC (nets s) r' p')
  end.

Definition set_all (ds : list Z) (st : Z) (l : list (Z * Z)) : list (Z * Z) :=
  fold_left (fun l d => aset Z.eqb d st l) ds l.

(* update_router_info, :76-116 *)
Definition update_router_info (s : cache) (sn a : Z) (ds : list Z) (st : Z) : res cache :=
  let ex := rget s sn a in
  let others := others_of s sn (match ex with Some _ => Some a | None => None end) ds in
  do s1 <- foldM (displace sn ds) others s;
  match ex with
  | None =>                                                      (* :100-110 *)
      Ok (mkC (if zmem sn (nets s1) then nets s1 else sn :: nets s1)
              (aset keq (sn, a) (mkR (set_all ds st []) None) (routers s1))
              (fold_left (fun l d => aset keq (sn, d) a l) ds (paths s1)))
  | Some e =>                                                    (* :111-116 *)
      Ok (mkC (nets s1)
              (aset keq (sn, a) (mkR (set_all ds st (dnets e)) (rstatus e)) (routers s1))
              (fold_left (fun l d => if has_dnet e d then l else aset keq (sn, d) a l) ds (paths s1)))
  end.

(* update_router_status, :118-127 *)
Definition update_router_status (s : cache) (sn a st : Z) : cache :=
  match rget s sn a with
  | None => s
  | Some ri => mkC (nets s) (aset keq (sn, a) (mkR (dnets ri) (Some st)) (routers s)) (paths s)
  end.

(* delete_router_info, :129-170 (fixed) *)
Definition delete_router_info (s : cache) (sn : Z) (ao : option Z) (dso : option (list Z)) : res cache :=
  match ao, dso with
  | None, None => Err RuntimeErr                                 (* :132-133 *)
  | Some a, _ =>                                                 (* :136-151 *)
      match rget s sn a with
      | None => Ok s
      | Some ri =>
          let ds := match dso with
                    | Some (d :: r) => d :: r
                    | _ => map fst (dnets ri)                    (* dnets or list(router_info.dnets) *)
                    end in
          displace sn ds s a
      end
  | None, Some ds =>                                             (* :153-170 *)
      foldM (displace sn ds) (others_of s sn None ds) s
  end.

(* update_source_network, :172-190 (fixed) *)
Definition update_source_network (s : cache) (old new : Z) : res cache :=
  if negb (zmem old (nets s)) then Ok s else                      (* :175-177 *)
  let moved := afilter (fun k => fst k =? old) (routers s) in     (* self.routers.pop(old_snet) *)
  let rest := afilter (fun k => negb (fst k =? old)) (routers s) in
  let purged := afilter (fun k => fst k =? new) rest in           (* still filed under new_snet *)
  let pkeys := flat_map (fun e => map (fun dv => (new, fst dv)) (dnets (snd e))) purged in
  if negb (forallb (fun k => amem keq k (paths s)) pkeys) then Err KeyErr else
  let p1 := afilter (fun k => negb (kmem k pkeys)) (paths s) in
  let r' := map (fun e => ((new, snd (fst e)), snd e)) moved
            ++ afilter (fun k => negb (fst k =? new)) rest in      (* self.routers[new_snet] = ... *)
  let n' := new :: filter (fun n => negb (n =? new) && negb (n =? old)) (nets s) in
  let mds := flat_map (fun e => map fst (dnets (snd e))) moved in  (* the dnets that move *)
  if negb (forallb (fun d => amem keq (old, d) p1) mds) then Err KeyErr else   (* path_info.pop *)
  if negb (list_eqb Z.eqb (nodup Z.eq_dec mds) mds) then Err KeyErr else       (* second pop of a key *)
  let p2 := if old =? new then p1 else
            map (fun e => if (fst (fst e) =? old) && zmem (snd (fst e)) mds
                          then ((new, snd (fst e)), snd e) else e)
                (afilter (fun k => negb ((fst k =? new) && zmem (snd k) mds)) p1) in
  Ok (mkC n' r' p2).

(* ---- histories *)
Inductive op :=
| Learn (sn a : Z) (ds : list Z) (st : Z)
| Status (sn a st : Z)
| Forget (sn : Z) (a : option Z) (ds : option (list Z))
| Renum (old new : Z).

Definition step (s : cache) (o : op) : res cache :=
  match o with
  | Learn sn a ds st => update_router_info s sn a ds st
  | Status sn a st => Ok (update_router_status s sn a st)
  | Forget sn a ds => delete_router_info s sn a ds
  | Renum old new => update_source_network s old new
  end.

(* a failed operation leaves the state as it was (the only failure reachable from [empty] is
   the RuntimeError of delete_router_info(snet), raised before anything is touched) *)
Definition step_total (s : cache) (o : op) : cache :=
  match step s o with Ok s' => s' | Err _ => s end.
Definition run (s : cache) (h : list op) : cache := fold_left step_total h s.

(* ---- canonical observation over a finite domain of source nets / addresses / dnets *)
Definition oz1 (o : option Z) : Z := match o with Some v => v + 1 | None => 0 end.

Definition dump (SN AD DN : list Z) (s : cache) : list Z :=
  [zlen (nets s); zlen (routers s); zlen (paths s)] ++
  flat_map (fun sn =>
    zb (zmem sn (nets s)) ::
    flat_map (fun a =>
      match rget s sn a with
      | None => 0 :: 0 :: map (fun _ => 0) DN
      | Some ri => 1 :: oz1 (rstatus ri) :: map (fun d => oz1 (aget Z.eqb d (dnets ri))) DN
      end) AD ++
    map (fun d => oz1 (pget s sn d)) DN) SN.

Fixpoint observe (SN AD DN : list Z) (s : cache) (h : list op) : list Z :=
  match h with
  | [] => []
  | o :: r =>
      match step s o with
      | Ok s' => 0 :: dump SN AD DN s' ++ observe SN AD DN s' r
      | Err e => err_code e :: dump SN AD DN s ++ observe SN AD DN s r
      end
  end.

(* compact form used by the correspondence check: the three counts, then the remaining cells
   (all < 8) packed 20 to a number in radix 8 behind a leading 1 *)
Fixpoint pack8 (n : nat) (acc : Z) (l : list Z) : list Z :=
  match l with
  | [] => [acc]
  | x :: r => match n with
              | O => acc :: pack8 19 (8 + x) r
              | S n' => pack8 n' (acc * 8 + x) r
              end
  end.
Definition pack (l : list Z) : list Z :=
  match l with
  | a :: b :: c :: r => a :: b :: c :: pack8 20 1 r
  | _ => l
  end.

Fixpoint observe_packed (SN AD DN : list Z) (s : cache) (h : list op) : list Z :=
  match h with
  | [] => []
  | o :: r =>
      match step s o with
      | Ok s' => 0 :: pack (dump SN AD DN s') ++ observe_packed SN AD DN s' r
      | Err e => err_code e :: pack (dump SN AD DN s) ++ observe_packed SN AD DN s r
      end
  end.

(* one dump per segment of operations (the operations one received frame stands for) *)
Fixpoint observe_segments (SN AD DN : list Z) (s : cache) (segs : list (list op)) : list Z :=
  match segs with
  | [] => []
  | h :: r => let s' := run s h in pack (dump SN AD DN s') ++ observe_segments SN AD DN s' r
  end.

(* ---- the two places where a node learns from what it observes, seen from the cache.
   NetworkServiceElement.IAmRouterToNetwork (netservice.py, handler of an I-Am-Router-To-Network):
   the announcement is recorded FIRST (sap.update_router_references), then relayed to the node's other
   adapters; relaying may leave the handler with the link layer's exception (relay_ok = for each other
   adapter, whether its downstream accepts the frame).  The recorded knowledge does not depend on
   relay_ok; the second component says whether the handler was left by an exception. *)
Definition on_iam (relay_ok : list bool) (s : cache) (sn a : Z) (ds : list Z) : res cache * bool :=
  (update_router_info s sn a ds 0, negb (forallb (fun b => b) relay_ok)).

(* frames of an NPDU-driven history: an announcement with the state of the other adapters' links, or
   any other frame / API call given by the cache operations it stands for *)
Inductive frame :=
| FIAm (relay_ok : list bool) (sn a : Z) (ds : list Z)
| FOps (h : list op).

Definition frame_step (s : cache) (f : frame) : cache * list Z :=
  match f with
  | FIAm up sn a ds =>
      let r := on_iam up s sn a ds in
      (match fst r with Ok s' => s' | Err _ => s end, [zb (snd r)])
  | FOps h => (run s h, [])
  end.

Fixpoint observe_frames (SN AD DN : list Z) (s : cache) (fs : list frame) : list Z :=
  match fs with
  | [] => []
  | f :: r => let (s', flag) := frame_step s f in
              flag ++ pack (dump SN AD DN s') ++ observe_frames SN AD DN s' r
  end.
