(* ObjRw.v — write-then-read and the array index rules (C15_write_then_read, C15_array_index) *)
From Coq Require Import ZifyBool ZifyN ZifyNat.
From Bac Require Import Base PyRt Obj ObjFacts.
Open Scope Z_scope.
Ltac Zify.zify_post_hook ::= Z.to_euclidean_division_equations.

(* the items a value denotes, independently of any datatype descriptor *)
Definition raw_elem (e : elem) : res (list item) :=
  match e with
  | EAtom k c => Ok [IA k c] | EObj k c => Ok [IA k c] | ECons cid c => Ok [IC cid c]
  | EBad _ x => Err x
  end.
Fixpoint raw_elems (l : list elem) : res (list item) :=
  match l with
  | [] => Ok []
  | e :: r => do a <- raw_elem e; do b <- raw_elems r; Ok (a ++ b)
  end.
Definition raw_val (v : val) : res (list item) :=
  match v with
  | VS e => raw_elem e
  | VPyList l => raw_elems l | VLst l => raw_elems l | VArr _ l => raw_elems l
  | VNone => Err TypeErr
  end.

Lemma enc_elem_ok : forall s e, elem_ok s e = true -> enc_elem s e = raw_elem e.
Proof.
  intros s e H. destruct s as [k lo hi | | cid]; destruct e as [k' c | k' c | c' c | c' x]; cbn in H; try discriminate.
  - cbn. destruct (k' =? k) eqn:E; [| discriminate]. assert (k' = k) by lia. subst. reflexivity.
  - reflexivity.
  - cbn. rewrite H. assert (c' = cid) by lia. subst. reflexivity.
  - cbn. rewrite H. reflexivity.
Qed.
Lemma is_valid_elem_ok : forall s e, is_valid s e = true -> elem_ok s e = true.
Proof. intros s e H. destruct s; cbn [elem_ok]; try exact H. destruct e; discriminate. Qed.
Lemma enc_elems_ok : forall s l, forallb (elem_ok s) l = true -> enc_elems s l = raw_elems l.
Proof.
  intros s l. induction l as [| e r IH]; intros H; cbn [enc_elems raw_elems forallb] in *; [reflexivity |].
  apply andb_prop in H. destruct H as [H1 H2]. rewrite (enc_elem_ok _ _ H1), (IH H2). reflexivity.
Qed.

(* ---------- python list assignment then indexing *)
Lemma replace_nth_length : forall l n x, length (replace_nth l n x) = length l.
Proof. induction l as [| a r IH]; intros [| n] x; cbn; auto. Qed.
Lemma replace_nth_same : forall l n x, (n < length l)%nat -> nth_error (replace_nth l n x) n = Some x.
Proof.
  induction l as [| a r IH]; intros [| n] x H; cbn in *; try lia; [reflexivity |]. apply IH. lia.
Qed.
Lemma py_set_index : forall l i x l', py_set l i x = Ok l' -> py_index l' i = Ok x.
Proof.
  intros l i x l' H. unfold py_set in H. unfold py_index.
  set (n := zlength l) in *. set (j := if i <? 0 then i + n else i) in *.
  destruct ((j <? 0) || (n <=? j)) eqn:E; [discriminate |]. inversion H; subst; clear H.
  rewrite replace_nth_length. fold (zlength l). fold n. fold j. rewrite E.
  rewrite replace_nth_same; [reflexivity |]. unfold n, zlength in *. lia.
Qed.

Lemma arr_set_index : forall fixed proto cur i x v',
  arr_set fixed proto cur i x = Ok v' -> (i = 0 -> exists m, x = EAtom 2 m /\ 0 <= m) -> index v' i = Ok x.
Proof.
  intros fixed proto cur i x v' H H0. destruct cur as [| e | l | n l | l]; cbn [arr_set] in H; try discriminate.
  - destruct (py_set l i x) as [l' |] eqn:E; [| discriminate]. inversion H; subst. cbn [index]. apply (py_set_index _ _ _ _ E).
  - destruct ((i <? 0) || (n <? i)) eqn:Eg; [discriminate |].
    destruct (i =? 0) eqn:Ei.
    + assert (i = 0) by lia. subst i. destruct (H0 eq_refl) as [m [-> Hm]].
      destruct fixed as [f |].
      * destruct (negb (m =? n)) eqn:En; [discriminate |]. inversion H; subst. cbn [index].
        assert (m = n) by lia. subst. destruct ((0 <? 0) || (n <? 0)) eqn:E2; [lia | reflexivity].
      * inversion H; subst. cbn [index]. destruct ((0 <? 0) || (m <? 0)) eqn:E2; [lia | reflexivity].
    + destruct (py_set l (i - 1) x) as [l' |] eqn:E; [| discriminate]. inversion H; subst. cbn [index].
      rewrite Eg, Ei. apply (py_set_index _ _ _ _ E).
Qed.

Lemma arr_set_not_none : forall fixed proto cur i x v', arr_set fixed proto cur i x = Ok v' -> v' <> VNone.
Proof.
  intros fixed proto cur i x v' H. destruct cur as [| e | l | n l | l]; cbn [arr_set] in H; try discriminate.
  - destruct (py_set l i x); inversion H; discriminate.
  - destruct ((i <? 0) || (n <? i)); [discriminate |]. destruct (i =? 0).
    + destruct x as [k c | | |]; try discriminate. destruct k as [| q |]; try discriminate.
      destruct q as [q | q |]; try discriminate. destruct q; try discriminate.
      destruct fixed; [destruct (negb (c =? n)) |]; inversion H; discriminate.
    + destruct (py_set l (i - 1) x); inversion H; discriminate.
Qed.

(* ---------- what the cast yields *)
Lemma cast_out_shape : forall dt w cv, cast_out dt w = Ok cv -> (exists e, cv = VS e) \/ (exists l, cv = VPyList l).
Proof.
  intros dt w cv H. destruct dt as [s | s fx pr | s]; cbn [cast_out] in H.
  - destruct (cast_scalar s w); inversion H; eauto.
  - destruct (cast_many s fx w); inversion H; eauto.
  - destruct (cast_many s None w); inversion H; eauto.
Qed.
Lemma cast_for_shape : forall dt idx w cv, cast_for dt idx w = Ok cv -> (exists e, cv = VS e) \/ (exists l, cv = VPyList l).
Proof.
  intros dt idx w cv H. unfold cast_for in H. destruct (wire_is_null w); [apply (cast_out_shape _ _ _ H) |].
  destruct dt as [s | s fx pr | s]; try (apply (cast_out_shape _ _ _ H)).
  destruct idx as [i |]; [| apply (cast_out_shape _ _ _ H)].
  destruct (i =? 0); [destruct (cast_atom 2 w) | destruct (cast_scalar s w)]; inversion H; eauto.
Qed.

Lemma is_valid_unsigned : forall e, is_valid (SAtom 2 0 None) e = true -> exists m, e = EAtom 2 m /\ 0 <= m.
Proof.
  intros e H. destruct e as [k c | | |]; cbn in H; try discriminate.
  exists c. assert (k = 2) by lia. subst. split; [reflexivity | lia].
Qed.

(* inversion of an accepted write of an array part *)
Lemma prop_write_some_inv : forall p cur i cv nv, prop_write p cur (Some i) cv = XOk nv ->
  exists s fixed proto x, p_dt p = DArray s fixed proto /\ cv = VS x /\
    (i = 0 -> exists m, x = EAtom 2 m /\ 0 <= m) /\ (i <> 0 -> elem_ok s x = true) /\
    arr_set fixed proto cur i x = Ok nv.
Proof.
  intros p cur i cv nv H. unfold prop_write in H.
  destruct (validate p (Some i) cv) as [nv' |] eqn:Ev; cbn [xbind] in H; [| discriminate].
  unfold validate in Ev. destruct (negb (p_mut p)); [discriminate |].
  destruct (p_dt p) as [s | s fixed proto | s] eqn:Edt.
  - destruct (i =? 0); discriminate.
  - exists s, fixed, proto.
    assert (Hx : exists x, nv' = VS x /\ cv = VS x /\ (i = 0 -> exists m, x = EAtom 2 m /\ 0 <= m) /\
                        (i <> 0 -> elem_ok s x = true)).
    { destruct (i =? 0) eqn:Ei.
      - destruct cv as [| e | | |]; try discriminate.
        destruct (is_valid (SAtom 2 0 None) e) eqn:Eval; [| discriminate]. inversion Ev; subst.
        exists e. repeat split; [intros _; apply is_valid_unsigned; exact Eval | lia].
      - destruct cv as [| e | | |]; try discriminate.
        destruct (elem_ok s e) eqn:Eok; [| discriminate]. inversion Ev; subst.
        exists e. repeat split; [lia | intros _; exact Eok]. }
    destruct Hx as [x [-> [-> [Hz Hnz]]]]. exists x. repeat split; try assumption.
    destruct cur; try discriminate;
      (match type of H with context [match ?t with Ok _ => _ | Err _ => _ end] => destruct t as [v' | er] eqn:Es end;
       [inversion H; subst; reflexivity | destruct er; discriminate]).
  - discriminate H.
Qed.

(* ---------- Property.WriteProperty followed by Property.ReadProperty + encoding *)
Lemma prop_write_read : forall p cur idx cv nv,
  ((exists e, cv = VS e) \/ (exists l, cv = VPyList l)) ->
  prop_write p cur idx cv = XOk nv ->
  exists r, prop_read p nv idx = XOk r /\ r <> VNone /\ to_any (p_dt p) idx r = raw_val cv.
Proof.
  intros p cur idx cv nv Hshape H.
  destruct idx as [i |].
  - (* an array part *)
    destruct (prop_write_some_inv _ _ _ _ _ H) as [s [fixed [proto [x [Edt [-> [Hz [Hnz Es]]]]]]]].
    exists (VS x). unfold prop_read. rewrite Edt. cbn [is_array negb].
    pose proof (arr_set_not_none _ _ _ _ _ _ Es) as Hnn.
    rewrite (arr_set_index _ _ _ _ _ _ Es Hz).
    split; [destruct nv; try congruence; reflexivity |].
    split; [discriminate |].
    cbn [to_any raw_val]. destruct (i =? 0) eqn:Ei.
    + destruct (Hz ltac:(lia)) as [m [-> _]]. reflexivity.
    + apply enc_elem_ok. apply Hnz. lia.
  - (* the whole value *)
    unfold prop_write in H.
    destruct (validate p None cv) as [nv' |] eqn:Ev; cbn [xbind] in H; [| discriminate].
    unfold validate in Ev. destruct (negb (p_mut p)); [discriminate |].
    inversion H; subst nv'; clear H. cbn [prop_read].
    destruct (p_dt p) as [s | s fixed proto | s] eqn:Edt.
    + assert (Hs : exists e, cv = VS e /\ nv = VS e /\ elem_ok s e = true).
      { destruct s as [k lo hi | | cid];
        (destruct cv as [| e | | |]; try discriminate;
         match type of Ev with context [if ?c then _ else _] => destruct c eqn:Ec; [| discriminate] end;
         inversion Ev; subst; exists e; repeat split; try exact Ec; apply is_valid_elem_ok; exact Ec). }
      destruct Hs as [e [-> [-> Hok]]]. exists (VS e). repeat split; [discriminate |].
      cbn [to_any raw_val]. apply enc_elem_ok; exact Hok.
    + destruct Hshape as [[e ->] | [l ->]]; [discriminate |].
      destruct (forallb (elem_ok s) l) eqn:Ef; [| discriminate].
      destruct (check_fixed fixed l); [| discriminate]. inversion Ev; subst.
      exists (VArr (zlength l) l). repeat split; [discriminate |]. cbn [to_any raw_val]. apply enc_elems_ok; exact Ef.
    + destruct Hshape as [[e ->] | [l ->]]; [discriminate |].
      destruct (forallb (elem_ok s) l) eqn:Ef; [| discriminate]. inversion Ev; subst.
      exists (VLst l). repeat split; [discriminate |]. cbn [to_any raw_val]. apply enc_elems_ok; exact Ef.
Qed.

Lemma write_obj_read : forall o pid idx w o', write_obj o pid idx w = XOk o' ->
  exists p cur cv, find_prop o pid = Some (p, cur) /\ cast_for (p_dt p) idx w = Ok cv /\
                   read_any o' pid idx = lift (raw_val cv).
Proof.
  intros o pid idx w o' H. unfold write_obj, obj_read in H.
  destruct (find_prop o pid) as [[p cur] |] eqn:Ep; [| discriminate].
  destruct (prop_read p cur idx) as [r |] eqn:Er; cbn [xbind fst snd] in H; [| discriminate].
  assert (Hc : exists cv nv, cast_for (p_dt p) idx w = Ok cv /\ prop_write p cur idx cv = XOk nv /\ o' = set_prop o pid nv).
  { destruct r; try discriminate;
    (destruct (cast_for (p_dt p) idx w) as [cv |] eqn:Ec; cbn [lift xbind] in H; [| discriminate];
     destruct (prop_write p cur idx cv) as [nv |] eqn:Ew; cbn [xbind] in H; [| discriminate];
     inversion H; eauto). }
  destruct Hc as [cv [nv [Hc [Hw ->]]]].
  exists p, cur, cv. repeat split; try assumption.
  destruct (prop_write_read _ _ _ _ _ (cast_for_shape _ _ _ _ Hc) Hw) as [r' [Hr [Hn Ht]]].
  unfold read_any, obj_read. rewrite (find_prop_set_same _ _ _ _ nv Ep), Hr. cbn [xbind fst snd].
  destruct r'; try congruence; rewrite Ht; reflexivity.
Qed.

Theorem write_then_read : forall d oid pid idx w d',
  oid <> WILDCARD_DEVICE -> do_write d oid pid idx w = XOk d' ->
  exists o p cur cv,
    find_obj (d_objs d) oid = Some o /\ find_prop o pid = Some (p, cur) /\
    cast_for (p_dt p) idx w = Ok cv /\
    do_read d' oid pid idx = xbind (lift (raw_val cv)) (fun its => XOk (oid, its)).
Proof.
  intros d oid pid idx w d' Hw H. unfold do_write in H.
  destruct (find_obj (d_objs d) oid) as [o |] eqn:Eo; [| discriminate].
  destruct (write_obj o pid idx w) as [o' | x] eqn:Ew; cbn [xbind catch_prop] in H.
  2:{ destruct x; discriminate. }
  inversion H; subst; clear H.
  destruct (write_obj_read _ _ _ _ _ Ew) as [p [cur [cv [Hp [Hc Hr]]]]].
  exists o, p, cur, cv. repeat split; try assumption.
  unfold do_read, map_oid. cbn [d_self d_objs]. destruct (oid =? WILDCARD_DEVICE) eqn:E; [lia |].
  rewrite (find_obj_set_same _ _ _ o' Eo), Hr.
  destruct (raw_val cv) as [its | e]; reflexivity.
Qed.

(* when the written value is a single atom of the property's kind, the read returns exactly that atom *)
Corollary write_then_read_atom : forall d oid pid w d' o p cur k lo hi c,
  oid <> WILDCARD_DEVICE -> do_write d oid pid None w = XOk d' ->
  find_obj (d_objs d) oid = Some o -> find_prop o pid = Some (p, cur) ->
  p_dt p = DS (SAtom k lo hi) -> w_tags w = [WApp k c] -> k <> 0 ->
  step d' (ORead oid pid None) = (RValue oid pid None [IA k c], d').
Proof.
  intros d oid pid w d' o p cur k lo hi c Hw H Ho Hp Hd Ht Hk.
  destruct (write_then_read _ _ _ _ _ _ Hw H) as [o2 [p2 [cur2 [cv [Ho2 [Hp2 [Hc Hr]]]]]]].
  rewrite Ho in Ho2. inversion Ho2; subst o2. rewrite Hp in Hp2. inversion Hp2; subst p2 cur2.
  cbn [step]. rewrite Hr. unfold cast_for, wire_is_null in Hc. rewrite Ht, Hd in Hc.
  assert (Hcv : cv = VS (EAtom k c)).
  { destruct k as [| q | q]; try congruence;
    (cbn [cast_out cast_scalar] in Hc; unfold cast_atom in Hc; rewrite Ht, Z.eqb_refl in Hc; inversion Hc; reflexivity). }
  subst cv. reflexivity.
Qed.

(* ---------- array index rules *)
Theorem array_index : forall o pid p n l s fixed proto,
  find_prop o pid = Some (p, VArr n l) -> p_dt p = DArray s fixed proto -> n = zlength l ->
  read_any o pid (Some 0) = XOk [IA 2 n] /\
  (forall i, 1 <= i <= n -> exists e, nth_error l (Z.to_nat (i - 1)) = Some e /\
                                      read_any o pid (Some i) = lift (enc_elem s e)) /\
  (forall i, i < 0 \/ n < i -> read_any o pid (Some i) = XErr (ExecErr EC_PROPERTY E_INVALID_ARRAY_INDEX)).
Proof.
  intros o pid p n l s fixed proto Hp Hd Hn. unfold read_any, obj_read. rewrite Hp. unfold prop_read. rewrite Hd.
  cbn [is_array negb]. repeat split.
  - cbn [index]. destruct ((0 <? 0) || (n <? 0)) eqn:E; [unfold zlength in Hn; lia |].
    cbn [Z.eqb xbind fst snd]. rewrite Hd. reflexivity.
  - intros i Hi. cbn [index]. destruct ((i <? 0) || (n <? i)) eqn:E; [lia |].
    destruct (i =? 0) eqn:E0; [lia |]. unfold py_index.
    destruct (i - 1 <? 0) eqn:E1; [lia |].
    destruct ((i - 1 <? 0) || (Z.of_nat (length l) <=? i - 1)) eqn:E2; [unfold zlength in Hn; lia |].
    destruct (nth_error l (Z.to_nat (i - 1))) as [e |] eqn:En.
    + exists e. split; [reflexivity |]. cbn [xbind fst snd]. rewrite Hd. cbn [to_any]. rewrite E0. reflexivity.
    + apply nth_error_None in En. unfold zlength in Hn. lia.
  - intros i Hi. rewrite index_out_of_range by exact Hi. reflexivity.
Qed.

(* the invariant n = len(elements) of ArrayOf instances is kept by every write *)
Definition wf_val (v : val) : Prop := match v with VArr n l => n = zlength l | _ => True end.

Lemma repeat_elem_length : forall e n, length (repeat_elem e n) = n.
Proof. induction n; cbn; auto. Qed.
Lemma fix_length_length : forall proto l m, 0 <= m -> zlength (fix_length proto l m) = m.
Proof.
  intros proto l m Hm. unfold fix_length, zlength. destruct (m <? Z.of_nat (length l)) eqn:E.
  - rewrite firstn_length. lia.
  - rewrite app_length, repeat_elem_length. lia.
Qed.

Lemma prop_write_wf : forall p cur idx cv nv,
  ((exists e, cv = VS e) \/ (exists l, cv = VPyList l)) -> wf_val cur ->
  prop_write p cur idx cv = XOk nv -> wf_val nv.
Proof.
  intros p cur idx cv nv Hshape Hwf H.
  destruct idx as [i |].
  - destruct (prop_write_some_inv _ _ _ _ _ H) as [s [fixed [proto [x [Edt [-> [Hz [Hnz Es]]]]]]]].
    destruct cur as [| ce | cl | cn cl | cl]; cbn [arr_set] in Es; try discriminate.
    + destruct (py_set cl i x); inversion Es; exact I.
    + destruct ((i <? 0) || (cn <? i)); [discriminate |]. destruct (i =? 0) eqn:Ei.
      * destruct (Hz ltac:(lia)) as [m [-> Hm]]. destruct fixed.
        -- destruct (negb (m =? cn)); inversion Es; subst; exact Hwf.
        -- inversion Es; subst. cbn [wf_val]. symmetry. apply fix_length_length; exact Hm.
      * unfold py_set in Es. destruct (_ || _); [discriminate |]. inversion Es; subst. cbn [wf_val] in *.
        unfold zlength in *. rewrite replace_nth_length. exact Hwf.
  - unfold prop_write in H.
    destruct (validate p None cv) as [nv' |] eqn:Ev; cbn [xbind] in H; [| discriminate].
    unfold validate in Ev. destruct (negb (p_mut p)); [discriminate |].
    inversion H; subst nv'; clear H.
    destruct (p_dt p) as [s | s fixed proto | s].
    + destruct s; destruct cv as [| e | | |]; try discriminate;
        match type of Ev with context [if ?c then _ else _] => destruct c; [| discriminate] end; inversion Ev; exact I.
    + destruct Hshape as [[e ->] | [l ->]]; [discriminate |].
      destruct (forallb (elem_ok s) l); [| discriminate]. destruct (check_fixed fixed l); [| discriminate].
      inversion Ev; subst. reflexivity.
    + destruct Hshape as [[e ->] | [l ->]]; [discriminate |].
      destruct (forallb (elem_ok s) l); [| discriminate]. inversion Ev; exact I.
Qed.

(* ---------- device life cycle: the objectList updates of add_object / delete_object keep the invariant *)
Definition elems (v : val) : list elem :=
  match v with VArr _ l => l | VPyList l => l | VLst l => l | _ => [] end.

Lemma arr_append_wf : forall v x v', arr_append v x = Ok v' -> wf_val v' /\ elems v' = elems v ++ [x].
Proof.
  intros v x v' H. destruct v as [| e | l | n l | l]; cbn [arr_append] in H; try discriminate; inversion H; subst; cbn.
  - split; [exact I | reflexivity].
  - split; [| reflexivity]. unfold zlength. rewrite app_length. cbn. lia.
Qed.

Lemma find_idx_lt : forall x l f i, find_idx x l f = Ok i -> (i < length l)%nat.
Proof.
  intros x l. induction l as [| y r IH]; intros f i H; destruct f as [| f]; cbn [find_idx] in H; try discriminate.
  destruct (elem_eqb x y).
  - inversion H; cbn; lia.
  - destruct (find_idx x r f) as [j |] eqn:E; cbn [bind] in H; [| discriminate]. inversion H; subst. cbn. apply IH in E. lia.
Qed.
Lemma remove_nth_length : forall l i, (i < length l)%nat -> S (length (remove_nth l i)) = length l.
Proof.
  induction l as [| a r IH]; intros [| i] H; cbn in *; try lia. rewrite IH; lia.
Qed.

Lemma arr_remove_wf : forall v x v', wf_val v -> arr_remove v x = Ok v' ->
  wf_val v' /\ S (length (elems v')) = length (elems v).
Proof.
  intros v x v' Hwf H. destruct v as [| e | l | n l | l]; cbn [arr_remove] in H; try discriminate.
  destruct (find_idx x l (Z.to_nat n)) as [i |] eqn:E; cbn [bind] in H; [| discriminate]. inversion H; subst.
  apply find_idx_lt in E. pose proof (remove_nth_length l i E) as HL. cbn [wf_val elems] in *.
  split; [unfold zlength in *; lia | exact HL].
Qed.

Theorem object_list_invariant :
  (forall v x v', arr_append v x = Ok v' -> wf_val v' /\ elems v' = elems v ++ [x]) /\
  (forall v x v', wf_val v -> arr_remove v x = Ok v' -> wf_val v' /\ S (length (elems v')) = length (elems v)).
Proof. split; [exact arr_append_wf | exact arr_remove_wf]. Qed.
