(* SchedThms.v — the C14 statements about Sched.v, proved over arbitrary histories (run_ops from
   the initial state) or over one loop pass from any state satisfying the queue invariant. *)
From Bac Require Import Base Deferred DeferredFacts Sched SchedFacts.
From Coq Require Import Permutation Sorted ZifyBool ZifyN ZifyNat.
Ltac Zify.zify_post_hook ::= Z.to_euclidean_division_equations.
Open Scope Z_scope.

(* ---------- T1: the invariant holds in every reachable state ---------- *)
Lemma install_inv : forall s i f s', Inv s ->
  (f = ttime s \/ exists t, f = upd (ttime s) i (Some t)) -> tm_install (set_ttime s f) i = Ok s' -> Inv s'.
Proof.
  intros s i f s' Hi Hf T.
  assert (Hb : InvBut i (set_ttime s f)).
  { destruct Hf as [->|[t ->]]; [rewrite set_ttime_id; apply Inv_InvBut, Hi | apply InvBut_set_time, Hi]. }
  destruct (tm_install_facts _ _ _ Hb T) as [t [s1 [_ [_ [H _]]]]]. exact H.
Qed.

Lemma run_ops_inv : forall guard jit c ops s s' ev, Inv s -> run_ops guard jit c s ops = (s', ev) -> Inv s'.
Proof.
  intros guard jit c ops s s' ev Hi H.
  refine (run_ops_I (fun s _ => Inv s) guard jit c _ _ _ _ _ _ ops s [] s' ev Hi H).
  - intros s0 acc e s1 z Hi0 G. eapply get_next_inv; eassumption.
  - intros; apply Inv_set_dq; assumption.
  - intros; assumption.
  - intros; apply tm_suspend_inv; assumption.
  - intros; eapply install_inv; eassumption.
  - intros; apply Inv_set_now; assumption.
Qed.

Lemma reach_inv : forall guard jit c ops s' ev, run_ops guard jit c st0 ops = (s', ev) -> Inv s'.
Proof. intros. eapply run_ops_inv; [apply Inv_st0 | eassumption]. Qed.

Lemma step_inv : forall guard jit c o s s' ev, Inv s -> step guard jit c s o = (s', ev) -> Inv s'.
Proof.
  intros guard jit c o s s' ev Hi H. apply (run_ops_inv guard jit c [o] s s' (ev ++ []) Hi).
  cbn [run_ops]. rewrite H. reflexivity.
Qed.

(* at most one queue entry per task, and installing puts exactly the new one there *)
Lemma reach_one_entry : forall guard jit c ops s' ev, run_ops guard jit c st0 ops = (s', ev) ->
  NoDup (map e_tid (heap s')).
Proof. intros. apply reach_inv in H. destruct H as [[_ _ Hn _] _]. exact Hn. Qed.

Lemma install_moves : forall c s i t s', Inv s -> do_install_when c s i t = Ok s' ->
  In (t, ctr s, i) (heap s') /\
  (forall x, In x (heap s') -> e_tid x = i -> x = (t, ctr s, i)) /\
  (forall x, e_tid x <> i -> (In x (heap s') <-> In x (heap s))) /\
  length (heap s') = (if sched s i then length (heap s) else S (length (heap s))).
Proof.
  intros c s i t s' Hi H. unfold do_install_when in H.
  destruct (t_kind (cfg_get c i)); [|discriminate].
  pose proof (InvBut_set_time s i (Some t) Hi) as Hb.
  destruct (tm_install_facts _ _ _ Hb H) as [t' [s1 [Ht' [Hs1 [_ [Hni [Hp _]]]]]]].
  cbn [ttime set_ttime] in Ht'. rewrite upd_same in Ht'. inversion Ht'; subst t'. clear Ht'.
  cbn [ctr set_ttime sched] in *.
  destruct Hb as [Hw _].
  destruct (tm_suspend_facts _ i Hw) as [_ [_ [Hin [Hin' _]]]]. cbn [heap set_ttime] in Hin, Hin'.
  assert (Hs1h : forall x, e_tid x <> i -> (In x (heap s1) <-> In x (heap s))).
  { intros x Hx. subst s1. destruct (sched s i); [|reflexivity].
    split; [intros Hi'; apply Hin in Hi'; apply Hi' | intros Hi'; apply Hin'; assumption]. }
  split; [apply (Permutation_in _ (Permutation_sym Hp)); left; reflexivity|].
  split; [|split].
  - intros x Hx Hxi. apply (Permutation_in _ Hp) in Hx. destruct Hx as [<-|Hx]; [reflexivity|].
    exfalso. apply Hni. rewrite <- Hxi. apply in_map, Hx.
  - intros x Hx. rewrite <- (Hs1h x Hx). split; intros Hi'.
    + apply (Permutation_in _ Hp) in Hi'. destruct Hi' as [<-|Hi']; [cbn in Hx; contradiction | exact Hi'].
    + apply (Permutation_in _ (Permutation_sym Hp)). right. exact Hi'.
  - rewrite (Permutation_length Hp). cbn [length]. subst s1. destruct (sched s i) eqn:S; [|reflexivity].
    unfold tm_suspend. cbn [heap set_ttime]. destruct (remove_tid i (heap s)) as [h'|] eqn:R.
    + destruct (remove_perm _ _ _ R) as [e [_ Hp']]. rewrite (Permutation_length Hp'). reflexivity.
    + exfalso. apply (remove_none _ _ R). destruct Hi as [[_ _ _ Hc] _]. apply Hc, S.
Qed.

(* suspending removes the entry *)
Lemma suspend_removes : forall s i, Inv s ->
  ~ In i (map e_tid (heap (tm_suspend s i))) /\ sched (tm_suspend s i) i = false.
Proof.
  intros s i Hi. pose proof (tm_suspend_inv s i Hi) as [[_ _ _ Hc] _].
  destruct Hi as [Hw _]. destruct (tm_suspend_facts s i Hw) as [_ [Hni _]].
  split; [exact Hni|]. destruct (sched (tm_suspend s i) i) eqn:S; [|reflexivity].
  exfalso. apply Hni, Hc, S.
Qed.

(* ---------- T2: never early ---------- *)
Definition fire_ok (x : event) : Prop :=
  match x with EvFire _ due _ at_ => due <= at_ | _ => True end.

Lemma noise_Forall : forall (P : event -> Prop) ev, (forall x, is_fire x = false -> P x) -> noise ev -> Forall P ev.
Proof. intros P ev HP Hn. apply Forall_forall. intros x Hx. apply HP, Hn, Hx. Qed.

Lemma fire_ok_noise : forall x, is_fire x = false -> fire_ok x.
Proof. intros []; cbn; intros; try discriminate; exact I. Qed.

Lemma run_ops_never_early : forall guard jit c ops s s' ev,
  run_ops guard jit c s ops = (s', ev) -> Forall fire_ok ev.
Proof.
  intros guard jit c ops s s' ev H.
  refine (run_ops_I (fun _ acc => Forall fire_ok acc) guard jit c _ _ _ _ _ _ ops s [] s' ev
            (Forall_nil _) H); try (intros; assumption).
  - intros s0 acc e s1 z Ha G.
    destruct (get_next_some _ _ _ _ G) as [r0 [_ [Hd [-> _]]]].
    apply Forall_app. split; [exact Ha|]. constructor; [exact I|]. constructor; [|constructor]. cbn. exact Hd.
  - intros s0 acc ev0 Ha Hn. apply Forall_app. split; [exact Ha|].
    apply noise_Forall; [apply fire_ok_noise | exact Hn].
  - intros s0 acc i f s1 auto Ha _ _. apply Forall_app. split; [exact Ha|]. constructor; [exact I | constructor].
Qed.

(* ---------- light facts about the heap under install / suspend (no invariant needed) ---------- *)
Lemma tm_suspend_heap : forall s i,
  (heap (tm_suspend s i) = heap s \/ exists e, e_tid e = i /\ Permutation (heap s) (e :: heap (tm_suspend s i)))
  /\ ctr (tm_suspend s i) = ctr s /\ now (tm_suspend s i) = now s /\ ttime (tm_suspend s i) = ttime s.
Proof.
  intros s i. unfold tm_suspend. destruct (remove_tid i (heap s)) as [h'|] eqn:R.
  - cbn [heap ctr now ttime]. split; [right; apply (remove_perm _ _ _ R) | repeat split].
  - split; [left; reflexivity | repeat split].
Qed.

Lemma tm_install_heap : forall s i s', tm_install s i = Ok s' ->
  exists t h1, ttime s i = Some t
  /\ (h1 = heap s \/ exists e, e_tid e = i /\ Permutation (heap s) (e :: h1))
  /\ Permutation (heap s') ((t, ctr s, i) :: h1) /\ ctr s' = (ctr s + 1)%N /\ now s' = now s.
Proof.
  intros s i s' H. unfold tm_install in H. destruct (ttime s i) as [t|]; [|discriminate].
  destruct (tm_suspend_heap s i) as [Hh [Hc [Hn _]]].
  exists t. destruct (sched s i); inversion H; subst; cbn [heap ctr now].
  - exists (heap (tm_suspend s i)). rewrite Hc, Hn. split; [reflexivity|].
    split; [destruct Hh as [Hh|Hh]; [left; exact Hh | right; exact Hh]|].
    split; [apply insert_perm | split; reflexivity].
  - exists (heap s). split; [reflexivity|]. split; [left; reflexivity|].
    split; [apply insert_perm | split; reflexivity].
Qed.

(* ---------- T3: one firing per installation (counter values of fired entries are distinct) ---------- *)
Definition fired (ev : list event) : list entry :=
  flat_map (fun x => match x with EvFire i due n _ => [(due, n, i)] | _ => [] end) ev.

Lemma fired_app : forall a b, fired (a ++ b) = fired a ++ fired b.
Proof. intros. apply flat_map_app. Qed.

Lemma fired_noise : forall ev, noise ev -> fired ev = [].
Proof.
  induction ev as [|x ev IH]; intros Hn; [reflexivity|].
  cbn [fired flat_map]. pose proof (Hn x (or_introl eq_refl)) as Hx.
  destruct x; try discriminate; cbn [app]; apply IH; intros y Hy; apply Hn; right; exact Hy.
Qed.

Lemma fired_fire : forall s e, fired [fire_of s e] = [e].
Proof. intros s [[w n] i]. reflexivity. Qed.

Definition seqs (l : list entry) : list N := map e_seq l.
Definition Once (s : st) (acc : list event) : Prop :=
  NoDup (seqs (fired acc) ++ seqs (heap s)) /\
  forall n, In n (seqs (fired acc) ++ seqs (heap s)) -> (n < ctr s)%N.

Lemma Once_perm : forall s acc h c', Once s acc ->
  (h = heap s \/ exists e, Permutation (heap s) (e :: h)) -> (ctr s <= c')%N ->
  NoDup (seqs (fired acc) ++ seqs h) /\ forall n, In n (seqs (fired acc) ++ seqs h) -> (n < c')%N.
Proof.
  intros s acc h c' [Hn Hb] Hh Hc. destruct Hh as [->|[e Hp]].
  - split; [exact Hn|]. intros n Hi. apply Hb in Hi. lia.
  - assert (Hp' : Permutation (seqs (fired acc) ++ seqs (heap s)) (e_seq e :: seqs (fired acc) ++ seqs h)).
    { unfold seqs at 2. rewrite (Permutation_map e_seq Hp). cbn [map]. symmetry. apply Permutation_middle. }
    pose proof (Permutation_NoDup Hp' Hn) as Hn'. inversion Hn'; subst.
    split; [assumption|]. intros n Hi. assert (Hi' : In n (seqs (fired acc) ++ seqs (heap s))).
    { apply (Permutation_in _ (Permutation_sym Hp')). right. exact Hi. }
    apply Hb in Hi'. lia.
Qed.

Lemma Once_add : forall acc h t c i h',
  (NoDup (seqs (fired acc) ++ seqs h) /\ forall n, In n (seqs (fired acc) ++ seqs h) -> (n < c)%N) ->
  Permutation h' ((t, c, i) :: h) ->
  NoDup (seqs (fired acc) ++ seqs h') /\ forall n, In n (seqs (fired acc) ++ seqs h') -> (n < c + 1)%N.
Proof.
  intros acc h t c i h' [Hn Hb] Hp.
  assert (Hp' : Permutation (seqs (fired acc) ++ seqs h') (c :: seqs (fired acc) ++ seqs h)).
  { unfold seqs at 2. rewrite (Permutation_map e_seq Hp). cbn [map e_seq fst snd]. symmetry. apply Permutation_middle. }
  split.
  - apply (Permutation_NoDup (Permutation_sym Hp')). constructor; [|exact Hn].
    intros Hi. apply Hb in Hi. lia.
  - intros n Hi. apply (Permutation_in _ Hp') in Hi. destruct Hi as [<-|Hi]; [lia|]. apply Hb in Hi. lia.
Qed.

Lemma fired_ghost1 : forall x, match x with EvFire _ _ _ _ => False | _ => True end -> fired [x] = [].
Proof. intros [] H; try reflexivity. destruct H. Qed.

Lemma run_ops_once : forall guard jit c ops s s' ev, Once s [] ->
  run_ops guard jit c s ops = (s', ev) -> Once s' ev.
Proof.
  intros guard jit c ops s s' ev H0 H.
  refine (run_ops_I Once guard jit c _ _ _ _ _ _ ops s [] s' ev H0 H).
  - intros s0 acc e s1 z [Hn Hb] G.
    destruct (get_next_some _ _ _ _ G) as [rest [Hh [_ [-> _]]]].
    unfold Once. cbn [heap ctr].
    change [EvPop e rest; fire_of {| now := now s0; ctr := ctr s0; heap := rest;
              sched := upd (sched s0) (e_tid e) false; ttime := ttime s0; dq := dq s0 |} e]
      with ([EvPop e rest] ++ [fire_of {| now := now s0; ctr := ctr s0; heap := rest;
              sched := upd (sched s0) (e_tid e) false; ttime := ttime s0; dq := dq s0 |} e]).
    rewrite !fired_app, fired_fire. cbn [fired flat_map app]. try rewrite app_nil_r.
    rewrite Hh in Hn, Hb. unfold seqs in *. rewrite map_app. cbn [map] in *.
    rewrite <- app_assoc. cbn [app]. split; assumption.
  - intros s0 acc q Ho. exact Ho.
  - intros s0 acc ev0 Ho Hn. unfold Once. rewrite fired_app, (fired_noise _ Hn), app_nil_r. exact Ho.
  - intros s0 acc i Ho. destruct (tm_suspend_heap s0 i) as [Hh [Hc _]].
    unfold Once. rewrite Hc. eapply Once_perm; [exact Ho | | lia].
    destruct Hh as [Hh|[e [_ Hp]]]; [left; exact Hh | right; exists e; exact Hp].
  - intros s0 acc i f s1 auto Ho _ T.
    destruct (tm_install_heap _ _ _ T) as [t [h1 [_ [Hh1 [Hp [Hc _]]]]]].
    cbn [heap ctr set_ttime] in *. unfold Once. rewrite fired_app. cbn [fired flat_map app]. rewrite app_nil_r.
    rewrite Hc. eapply Once_add; [|exact Hp].
    eapply (Once_perm s0); [exact Ho | | lia].
    destruct Hh1 as [->|[e [_ Hp']]]; [left; reflexivity | right; exists e; exact Hp'].
  - intros s0 acc t Ho. exact Ho.
Qed.

Lemma NoDup_app_l : forall A (a b : list A), NoDup (a ++ b) -> NoDup a.
Proof.
  induction a as [|x a IH]; intros b H; [constructor|].
  cbn [app] in H. inversion H; subst. constructor; [|eapply IH; eassumption].
  intros Hi. apply H2. apply in_or_app. left. exact Hi.
Qed.

Lemma reach_once : forall guard jit c ops s' ev, run_ops guard jit c st0 ops = (s', ev) ->
  NoDup (seqs (fired ev)).
Proof.
  intros guard jit c ops s' ev H. apply run_ops_once in H.
  - destruct H as [Hn _]. apply NoDup_app_l in Hn. exact Hn.
  - split; [constructor | intros n []].
Qed.

(* ---------- T4: a task that is not queued does not fire unless an installation of it is recorded ---------- *)
Definition fire_tid (x : event) : option nat := match x with EvFire i _ _ _ => Some i | _ => None end.
Definition is_inst (i : nat) (x : event) : bool := match x with EvInst j _ => Nat.eqb j i | _ => false end.
Definition has_inst (i : nat) (acc : list event) : bool := existsb (is_inst i) acc.
Definition Quiet (i : nat) (s : st) (acc : list event) : Prop :=
  has_inst i acc = true \/ (~ In i (map e_tid (heap s)) /\ forall x, In x acc -> fire_tid x <> Some i).

Lemma perm_tids_sub : forall (h h1 : list entry) e i, Permutation h (e :: h1) -> ~ In i (map e_tid h) -> ~ In i (map e_tid h1).
Proof.
  intros h h1 e i Hp Hn Hi. apply Hn. apply (Permutation_in _ (Permutation_sym (Permutation_map e_tid Hp))).
  right. exact Hi.
Qed.

Lemma has_inst_app_l : forall i a b, has_inst i a = true -> has_inst i (a ++ b) = true.
Proof. intros i a b H. unfold has_inst in *. rewrite existsb_app, H. reflexivity. Qed.

Lemma run_ops_quiet : forall guard jit c i ops s s' ev,
  ~ In i (map e_tid (heap s)) -> run_ops guard jit c s ops = (s', ev) ->
  has_inst i ev = false -> forall x, In x ev -> fire_tid x <> Some i.
Proof.
  intros guard jit c i ops s s' ev H0 H Hno.
  assert (HQ : Quiet i s' ([] ++ ev)).
  { refine (run_ops_I (Quiet i) guard jit c _ _ _ _ _ _ ops s [] s' ev _ H).
    - intros s0 acc e s1 z [Hl|[Hq Hf]] G; [left; apply has_inst_app_l, Hl|]. right.
      destruct (get_next_some _ _ _ _ G) as [rest [Hh [_ [-> _]]]]. cbn [heap].
      rewrite Hh in Hq. cbn [map] in Hq. split; [intros Hi; apply Hq; right; exact Hi|].
      intros x Hx. apply in_app_or in Hx. destruct Hx as [Hx|[<-|[<-|[]]]]; [apply Hf, Hx | discriminate|].
      cbn. intros Heq. inversion Heq. apply Hq. left. assumption.
    - intros s0 acc q Hq. exact Hq.
    - intros s0 acc ev0 [Hl|[Hq Hf]] Hn; [left; apply has_inst_app_l, Hl|]. right. split; [exact Hq|].
      intros x Hx. apply in_app_or in Hx.
      destruct Hx as [Hx|Hx]; [apply Hf, Hx|]. apply Hn in Hx. destruct x; try discriminate; cbn; discriminate.
    - intros s0 acc j [Hl|[Hq Hf]]; [left; exact Hl|]. right. split; [|exact Hf].
      destruct (tm_suspend_heap s0 j) as [[Hh|[e [_ Hp]]] _]; [rewrite Hh; exact Hq|].
      exact (perm_tids_sub _ _ _ _ Hp Hq).
    - intros s0 acc j f s1 auto [Hl|[Hq Hf]] _ T; [left; apply has_inst_app_l, Hl|].
      destruct (Nat.eq_dec j i) as [->|Hne].
      + left. unfold has_inst. rewrite existsb_app. cbn [existsb is_inst]. rewrite Nat.eqb_refl.
        rewrite orb_true_r. reflexivity.
      + right. destruct (tm_install_heap _ _ _ T) as [t [h1 [_ [Hh1 [Hp _]]]]]. cbn [heap set_ttime] in *. split.
        * intros Hi. apply (Permutation_in _ (Permutation_map e_tid Hp)) in Hi. cbn [map e_tid snd] in Hi.
          destruct Hi as [Hi|Hi]; [congruence|].
          destruct Hh1 as [->|[e [_ Hp']]]; [contradiction|]. exact (perm_tids_sub _ _ _ _ Hp' Hq Hi).
        * intros x Hx. apply in_app_or in Hx. destruct Hx as [Hx|[<-|[]]]; [apply Hf, Hx | discriminate].
    - intros s0 acc t Hq. exact Hq.
    - right. split; [exact H0 | intros x []]. }
  cbn [app] in HQ. destruct HQ as [Hl|[_ Hf]]; [congruence | exact Hf].
Qed.

(* ---------- T5 (general form): whatever fires is the least entry of the queue at that moment ---------- *)
Definition pop_ok (x : event) : Prop :=
  match x with EvPop e rest => forall y, In y rest -> elt e y | _ => True end.

Lemma run_ops_pop_min : forall guard jit c ops s s' ev, Inv s ->
  run_ops guard jit c s ops = (s', ev) -> Forall pop_ok ev.
Proof.
  intros guard jit c ops s s' ev Hi H.
  refine (proj2 (run_ops_I (fun s acc => Inv s /\ Forall pop_ok acc) guard jit c _ _ _ _ _ _ ops s [] s' ev
            (conj Hi (Forall_nil _)) H)).
  - intros s0 acc e s1 z [Hi0 Ha] G. split; [eapply get_next_inv; eassumption|].
    destruct (get_next_some _ _ _ _ G) as [rest [Hh [_ [-> _]]]]. cbn [heap].
    apply Forall_app. split; [exact Ha|]. constructor; [|constructor; [exact I | constructor]].
    cbn. destruct Hi0 as [[Hso _ _ _] _]. rewrite Hh in Hso. inversion Hso as [|? ? _ Hf]; subst.
    rewrite Forall_forall in Hf. exact Hf.
  - intros s0 acc q [Hi0 Ha]. split; [apply Inv_set_dq, Hi0 | exact Ha].
  - intros s0 acc ev0 [Hi0 Ha] Hn. split; [exact Hi0|]. apply Forall_app. split; [exact Ha|].
    apply noise_Forall; [|exact Hn]. intros []; cbn; intros; try discriminate; exact I.
  - intros s0 acc i [Hi0 Ha]. split; [apply tm_suspend_inv, Hi0 | exact Ha].
  - intros s0 acc i f s1 auto [Hi0 Ha] Hf T. split; [eapply install_inv; eassumption|].
    apply Forall_app. split; [exact Ha|]. constructor; [exact I | constructor].
  - intros s0 acc t [Hi0 Ha]. split; [apply Inv_set_now, Hi0 | exact Ha].
Qed.

(* ---------- T7: next-slot arithmetic (exact) ---------- *)
Lemma next_slot_spec : forall jit iv off t, 0 < iv ->
  let k := (t + jit - off) / iv + 1 in
  next_slot jit iv off t = off + iv * k /\ off + iv * k - iv <= t + jit < off + iv * k.
Proof.
  intros jit iv off t Hiv. unfold next_slot. cbv zeta.
  pose proof (Z.div_mod (t + jit - off) iv ltac:(lia)) as Hd.
  pose proof (Z.mod_pos_bound (t + jit - off) iv Hiv) as Hm.
  set (q := (t + jit - off) / iv) in *. set (m := (t + jit - off) mod iv) in *.
  replace (iv * (q + 1)) with (iv * q + iv) by ring. lia.
Qed.

Lemma next_slot_after : forall jit iv off t, 0 < iv -> 0 <= jit -> t < next_slot jit iv off t <= t + jit + iv.
Proof. intros. destruct (next_slot_spec jit iv off t H) as [-> ?]. lia. Qed.

Lemma next_slot_least : forall jit iv off t m, 0 < iv -> t + jit < off + iv * m ->
  next_slot jit iv off t <= off + iv * m.
Proof.
  intros jit iv off t m Hiv Hm. destruct (next_slot_spec jit iv off t Hiv) as [-> Hb].
  set (k := (t + jit - off) / iv + 1) in *. clearbody k.
  assert (k - 1 < m) by nia. nia.
Qed.

Lemma next_slot_successive : forall jit iv off k, 0 < iv -> 0 <= jit < iv ->
  next_slot jit iv off (off + iv * k) = off + iv * (k + 1).
Proof.
  intros jit iv off k Hiv Hj. destruct (next_slot_spec jit iv off (off + iv * k) Hiv) as [-> Hb].
  set (K := (off + iv * k + jit - off) / iv + 1) in *. clearbody K.
  assert (K - 1 < k + 1) by nia. assert (k < K) by nia. f_equal. f_equal. lia.
Qed.

(* a late firing skips the slots that have passed: the next one is the first after the clock *)
Lemma next_slot_late : forall jit iv off k t, 0 < iv -> 0 <= jit ->
  off + iv * k <= t + jit < off + iv * (k + 1) -> next_slot jit iv off t = off + iv * (k + 1).
Proof.
  intros jit iv off k t Hiv Hj Hb. destruct (next_slot_spec jit iv off t Hiv) as [-> Hc].
  set (K := (t + jit - off) / iv + 1) in *. clearbody K.
  assert (K - 1 < k + 1) by nia. assert (k < K) by nia. f_equal. f_equal. lia.
Qed.
