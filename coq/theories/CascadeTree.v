(* CascadeTree.v — the FIFO cascade of IpNet.v visits exactly the datagrams of the delivery
   forest, whatever the queue order, as long as no node changes state (generic: any world).
   tree / good / tsize are proof devices; the statement proved is cascade_is_forest. *)
From Coq Require Import Permutation Lia.
From Bac Require Import Base Bip IpNet.
Open Scope nat_scope.

(* the observations below one datagram, to depth n *)
Fixpoint tree (n : nat) (w : world) (g : dgram) : list obs :=
  match n with
  | O => []
  | S k => match deliver w g 0 (w_nodes w) with
           | Ok y => OFrame g :: snd y ++ flat_map (tree k w) (routed w g ++ snd (fst y))
           | Err _ => []
           end
  end.

(* the forest below g is complete within depth n and leaves every node as it was *)
Fixpoint good (n : nat) (w : world) (g : dgram) : Prop :=
  match n with
  | O => False
  | S k => exists ds os, deliver w g 0 (w_nodes w) = Ok (w_nodes w, ds, os) /\
                         Forall (good k w) (routed w g ++ ds)
  end.

Fixpoint tsize (n : nat) (w : world) (g : dgram) : nat :=
  match n with
  | O => 0
  | S k => match deliver w g 0 (w_nodes w) with
           | Ok y => S (list_sum (map (tsize k w) (routed w g ++ snd (fst y))))
           | Err _ => 0
           end
  end.

Lemma flat_map_forall_ext {A B} (f h : A -> list B) l : Forall (fun x => f x = h x) l -> flat_map f l = flat_map h l.
Proof. induction 1 as [|x l Hx _ IH]; [reflexivity|]. cbn [flat_map]. rewrite Hx, IH. reflexivity. Qed.
Lemma sum_forall_ext {A} (f h : A -> nat) l : Forall (fun x => f x = h x) l -> list_sum (map f l) = list_sum (map h l).
Proof.
  induction 1 as [|x l Hx _ IH]; [reflexivity|].
  change (f x + list_sum (map f l) = h x + list_sum (map h l)). rewrite Hx, IH. reflexivity.
Qed.

Lemma good_stable : forall n w g, good n w g ->
  good (S n) w g /\ tree (S n) w g = tree n w g /\ tsize (S n) w g = tsize n w g.
Proof.
  induction n as [|k IH]; intros w g H; [destruct H|].
  destruct H as [ds [os [D F]]].
  assert (Forall (fun x => good (S k) w x /\ tree (S k) w x = tree k w x /\ tsize (S k) w x = tsize k w x) (routed w g ++ ds)) as A.
  { apply Forall_forall. intros x Ix. apply IH. apply (proj1 (Forall_forall _ _) F x Ix). }
  split; [|split].
  - exists ds, os. split; [exact D|]. apply Forall_forall. intros x Ix.
    destruct (proj1 (Forall_forall _ _) A x Ix) as [Hg _]. exact Hg.
  - change (tree (S (S k)) w g) with
      (match deliver w g 0 (w_nodes w) with
       | Ok y => OFrame g :: snd y ++ flat_map (tree (S k) w) (routed w g ++ snd (fst y)) | Err _ => [] end).
    change (tree (S k) w g) with
      (match deliver w g 0 (w_nodes w) with
       | Ok y => OFrame g :: snd y ++ flat_map (tree k w) (routed w g ++ snd (fst y)) | Err _ => [] end).
    rewrite D. cbn [fst snd]. f_equal. f_equal.
    apply flat_map_forall_ext. eapply Forall_impl; [|exact A]. intros x [_ [Hx _]]. exact Hx.
  - change (tsize (S (S k)) w g) with
      (match deliver w g 0 (w_nodes w) with
       | Ok y => S (list_sum (map (tsize (S k) w) (routed w g ++ snd (fst y)))) | Err _ => 0 end).
    change (tsize (S k) w g) with
      (match deliver w g 0 (w_nodes w) with
       | Ok y => S (list_sum (map (tsize k w) (routed w g ++ snd (fst y)))) | Err _ => 0 end).
    rewrite D. cbn [fst snd]. f_equal.
    apply sum_forall_ext. eapply Forall_impl; [|exact A]. intros x [_ [_ Hx]]. exact Hx.
Qed.

Lemma good_mono : forall m n w g, good n w g -> good (m + n) w g /\ tree (m + n) w g = tree n w g.
Proof.
  induction m as [|m IH]; intros n w g H; [auto|]. destruct (IH n w g H) as [G T].
  destruct (good_stable (m + n) w g G) as [G' [T' _]]. cbn [plus]. split; [exact G'|]. rewrite T'. exact T.
Qed.
Lemma good_le : forall n k w g, n <= k -> good n w g -> good k w g /\ tree k w g = tree n w g.
Proof. intros n k w g L H. replace k with ((k - n) + n) by lia. apply good_mono. exact H. Qed.

Lemma world_eta : forall w, mkWorld (w_lans w) (w_nodes w) (w_now w) = w.
Proof. intros []. reflexivity. Qed.

(* the queue lemma: the log of the cascade is a permutation of the forest of its initial queue *)
Theorem cascade_is_forest : forall n w fuel q log,
  Forall (good n w) q -> list_sum (map (tsize n w) q) < fuel ->
  exists log', cascade fuel w q log = Ok (w, log') /\ Permutation log' (log ++ flat_map (tree n w) q).
Proof.
  intros n w. induction fuel as [|f IH]; intros q log G L; [lia|].
  destruct q as [|g q]; cbn [cascade].
  - exists log. split; [reflexivity|]. cbn [flat_map]. rewrite app_nil_r. apply Permutation_refl.
  - inversion G as [|? ? Gg Gq]; subst. destruct n as [|k]; [destruct Gg|].
    pose proof Gg as Gg'. destruct Gg' as [ds [os [D F]]].
    rewrite D. cbn [bind fst snd]. rewrite world_eta.
    assert (Forall (fun x => good (S k) w x /\ tree (S k) w x = tree k w x /\ tsize (S k) w x = tsize k w x) (routed w g ++ ds)) as A.
    { apply Forall_forall. intros x Ix. apply good_stable. apply (proj1 (Forall_forall _ _) F x Ix). }
    assert (list_sum (map (tsize (S k) w) (routed w g ++ ds)) = list_sum (map (tsize k w) (routed w g ++ ds))) as ES.
    { apply sum_forall_ext. eapply Forall_impl; [|exact A]. intros x [_ [_ Hx]]. exact Hx. }
    assert (flat_map (tree (S k) w) (routed w g ++ ds) = flat_map (tree k w) (routed w g ++ ds)) as ET.
    { apply flat_map_forall_ext. eapply Forall_impl; [|exact A]. intros x [_ [Hx _]]. exact Hx. }
    destruct (IH (q ++ routed w g ++ ds) (log ++ OFrame g :: os)) as [log' [C P]].
    + apply Forall_app. split; [exact Gq|]. apply Forall_forall. intros x Ix.
      destruct (proj1 (Forall_forall _ _) A x Ix) as [Hg _]. exact Hg.
    + change (list_sum (map (tsize (S k) w) (g :: q))) with (tsize (S k) w g + list_sum (map (tsize (S k) w) q)) in L.
      rewrite map_app, list_sum_app, ES.
      change (tsize (S k) w g) with
        (match deliver w g 0 (w_nodes w) with
         | Ok y => S (list_sum (map (tsize k w) (routed w g ++ snd (fst y)))) | Err _ => 0 end) in L.
      rewrite D in L. cbn [fst snd] in L. lia.
    + exists log'. split; [exact C|]. eapply Permutation_trans; [exact P|].
      rewrite flat_map_app, ET. cbn [flat_map].
      change (tree (S k) w g) with
        (match deliver w g 0 (w_nodes w) with
         | Ok y => OFrame g :: snd y ++ flat_map (tree k w) (routed w g ++ snd (fst y)) | Err _ => [] end).
      rewrite D. cbn [fst snd].
      rewrite <- (app_assoc log). apply Permutation_app_head. cbn [app]. apply perm_skip.
      rewrite <- (app_assoc os). apply Permutation_app_head. apply Permutation_app_comm.
Qed.
