(* PrimInt.v — Unsigned / Integer / Enumerated content octets: the encoder's loops equal the standard's
   shortest forms (independent spec_min_unsigned / spec_min_signed), and the decoders invert them. *)
From Bac Require Import Base BytesFacts Tag Prim.
From Coq Require Import ZifyBool ZifyN ZifyNat.
Ltac Zify.zify_post_hook ::= Z.to_euclidean_division_equations.
Open Scope N_scope.

(* ---------- independent statements of the standard's shortest forms (clause 20.2.4 / 20.2.5) ---------- *)
Definition spec_min_unsigned (n : N) : list N :=
  if n <? 256 then [n]
  else if n <? 65536 then [n / 256; n mod 256]
  else if n <? 16777216 then [n / 65536; (n / 256) mod 256; n mod 256]
  else [n / 16777216; (n / 65536) mod 256; (n / 256) mod 256; n mod 256].

Definition spec_min_signed (z : Z) : list N :=
  let b (k : Z) := Z.to_N ((z / k) mod 256)%Z in
  if ((-128 <=? z) && (z <? 128))%Z then [b 1%Z]
  else if ((-32768 <=? z) && (z <? 32768))%Z then [b 256%Z; b 1%Z]
  else if ((-8388608 <=? z) && (z <? 8388608))%Z then [b 65536%Z; b 256%Z; b 1%Z]
  else [b 16777216%Z; b 65536%Z; b 256%Z; b 1%Z].

Lemma strip0_single x : strip0 [x] = [x].
Proof. destruct x; reflexivity. Qed.
Lemma strip0_zero b r : strip0 (0 :: b :: r) = strip0 (b :: r).
Proof. reflexivity. Qed.
Lemma strip0_nz a r : a <> 0 -> strip0 (a :: r) = a :: r.
Proof. intros H. destruct a; [congruence|]. destruct r; reflexivity. Qed.

Lemma strip0_be4 n : n < 4294967296 -> strip0 (be4 n) = spec_min_unsigned n.
Proof.
  intros H. unfold be4, spec_min_unsigned.
  destruct (n <? 256) eqn:E1; [|destruct (n <? 65536) eqn:E2; [|destruct (n <? 16777216) eqn:E3]].
  - replace ((n / 16777216) mod 256) with 0 by lia. replace ((n / 65536) mod 256) with 0 by lia.
    replace ((n / 256) mod 256) with 0 by lia. rewrite !strip0_zero, strip0_single. f_equal. lia.
  - replace ((n / 16777216) mod 256) with 0 by lia. replace ((n / 65536) mod 256) with 0 by lia.
    rewrite !strip0_zero, strip0_nz by lia. f_equal. lia.
  - replace ((n / 16777216) mod 256) with 0 by lia.
    rewrite !strip0_zero, strip0_nz by lia. f_equal. lia.
  - rewrite strip0_nz by lia. f_equal. lia.
Qed.

Lemma unbe_spec_min_unsigned n : unbe (spec_min_unsigned n) = n.
Proof.
  unfold spec_min_unsigned, unbe.
  destruct (n <? 256) eqn:E1; [|destruct (n <? 65536) eqn:E2; [|destruct (n <? 16777216) eqn:E3]];
  cbn [fold_left]; lia.
Qed.

Lemma enc_unsigned_spec z : (0 <= z < 4294967296)%Z ->
  enc_unsigned z = Ok (spec_min_unsigned (Z.to_N z)).
Proof.
  intros H. unfold enc_unsigned, pack_L.
  destruct ((0 <=? z)%Z && (z <? 4294967296)%Z) eqn:E; [|lia].
  cbn [bind]. rewrite strip0_be4 by lia. reflexivity.
Qed.

Lemma enc_unsigned_refuse z : ~ (0 <= z < 4294967296)%Z -> enc_unsigned z = Err StructErr.
Proof.
  intros H. unfold enc_unsigned, pack_L.
  destruct ((0 <=? z)%Z && (z <? 4294967296)%Z) eqn:E; [lia|reflexivity].
Qed.

Lemma spec_min_unsigned_nonempty n : lenN (spec_min_unsigned n) =? 0 = false.
Proof.
  unfold spec_min_unsigned.
  destruct (n <? 256); [|destruct (n <? 65536); [|destruct (n <? 16777216)]]; reflexivity.
Qed.

Definition sb (z k : Z) : N := Z.to_N ((z / k) mod 256)%Z.

Lemma be4_signed z :
  be4 (Z.to_N (z mod 4294967296)) = [sb z 16777216; sb z 65536; sb z 256; sb z 1].
Proof. unfold be4, sb. repeat (apply (f_equal2 (@cons N)); [lia|]). reflexivity. Qed.

Lemma strip_neg_single x : strip_neg [x] = [x].
Proof. reflexivity. Qed.
Lemma strip_neg_step b r : 128 <= b -> strip_neg (255 :: b :: r) = strip_neg (b :: r).
Proof. intros H. cbn [strip_neg]. destruct (b <? 128) eqn:E; [lia|]. reflexivity. Qed.
Lemma strip_neg_stop a b r : a <> 255 \/ b < 128 -> strip_neg (a :: b :: r) = a :: b :: r.
Proof.
  intros H. cbn [strip_neg]. destruct (a =? 255) eqn:E; cbn [negb]; [|reflexivity].
  destruct (b <? 128) eqn:E2; [reflexivity|lia].
Qed.
Lemma strip_pos_single x : strip_pos [x] = [x].
Proof. reflexivity. Qed.
Lemma strip_pos_step b r : b < 128 -> strip_pos (0 :: b :: r) = strip_pos (b :: r).
Proof. intros H. cbn [strip_pos]. destruct (128 <=? b) eqn:E; [lia|]. reflexivity. Qed.
Lemma strip_pos_stop a b r : a <> 0 \/ 128 <= b -> strip_pos (a :: b :: r) = a :: b :: r.
Proof.
  intros H. cbn [strip_pos]. destruct (a =? 0) eqn:E; cbn [negb]; [|reflexivity].
  destruct (128 <=? b) eqn:E2; [reflexivity|lia].
Qed.

Lemma enc_integer_spec z : (-2147483648 <= z <= 2147483647)%Z ->
  enc_integer z = Ok (spec_min_signed z).
Proof.
  intros H. unfold enc_integer.
  destruct ((z <? -2147483648)%Z || (2147483647 <? z)%Z) eqn:R; [lia|].
  rewrite be4_signed. f_equal. unfold spec_min_signed. fold (sb z 16777216) (sb z 65536) (sb z 256) (sb z 1).
  destruct (z <? 0)%Z eqn:S;
  (destruct ((-128 <=? z) && (z <? 128))%Z eqn:E1;
   [|destruct ((-32768 <=? z) && (z <? 32768))%Z eqn:E2;
     [|destruct ((-8388608 <=? z) && (z <? 8388608))%Z eqn:E3]]).
  - assert (sb z 16777216 = 255) as -> by (unfold sb; lia).
    assert (sb z 65536 = 255) as -> by (unfold sb; lia).
    assert (sb z 256 = 255) as -> by (unfold sb; lia).
    assert (128 <= sb z 1) by (unfold sb; lia).
    rewrite !strip_neg_step by lia. apply strip_neg_single.
  - assert (sb z 16777216 = 255) as -> by (unfold sb; lia).
    assert (sb z 65536 = 255) as -> by (unfold sb; lia).
    assert (128 <= sb z 256) by (unfold sb; lia).
    assert (sb z 256 <> 255 \/ sb z 1 < 128) by (unfold sb; lia).
    rewrite !strip_neg_step by lia. apply strip_neg_stop; assumption.
  - assert (sb z 16777216 = 255) as -> by (unfold sb; lia).
    assert (128 <= sb z 65536) by (unfold sb; lia).
    assert (sb z 65536 <> 255 \/ sb z 256 < 128) by (unfold sb; lia).
    rewrite !strip_neg_step by lia. apply strip_neg_stop; assumption.
  - assert (sb z 16777216 <> 255 \/ sb z 65536 < 128) by (unfold sb; lia).
    apply strip_neg_stop; assumption.
  - assert (sb z 16777216 = 0) as -> by (unfold sb; lia).
    assert (sb z 65536 = 0) as -> by (unfold sb; lia).
    assert (sb z 256 = 0) as -> by (unfold sb; lia).
    assert (sb z 1 < 128) by (unfold sb; lia).
    rewrite !strip_pos_step by lia. apply strip_pos_single.
  - assert (sb z 16777216 = 0) as -> by (unfold sb; lia).
    assert (sb z 65536 = 0) as -> by (unfold sb; lia).
    assert (sb z 256 < 128) by (unfold sb; lia).
    assert (sb z 256 <> 0 \/ 128 <= sb z 1) by (unfold sb; lia).
    rewrite !strip_pos_step by lia. apply strip_pos_stop; assumption.
  - assert (sb z 16777216 = 0) as -> by (unfold sb; lia).
    assert (sb z 65536 < 128) by (unfold sb; lia).
    assert (sb z 65536 <> 0 \/ 128 <= sb z 256) by (unfold sb; lia).
    rewrite !strip_pos_step by lia. apply strip_pos_stop; assumption.
  - assert (sb z 16777216 <> 0 \/ 128 <= sb z 65536) by (unfold sb; lia).
    apply strip_pos_stop; assumption.
Qed.

Lemma enc_integer_refuse z : ~ (-2147483648 <= z <= 2147483647)%Z -> enc_integer z = Err ValueErr.
Proof.
  intros H. unfold enc_integer.
  destruct ((z <? -2147483648)%Z || (2147483647 <? z)%Z) eqn:R; [reflexivity|lia].
Qed.

Lemma dec_integer_spec z : (-2147483648 <= z <= 2147483647)%Z ->
  dec_integer (spec_min_signed z) = Ok z.
Proof.
  intros H. unfold spec_min_signed. fold (sb z 16777216) (sb z 65536) (sb z 256) (sb z 1).
  destruct ((-128 <=? z) && (z <? 128))%Z eqn:E1;
   [|destruct ((-32768 <=? z) && (z <? 32768))%Z eqn:E2;
     [|destruct ((-8388608 <=? z) && (z <? 8388608))%Z eqn:E3]];
  unfold dec_integer; cbn [fold_left];
  match goal with |- context [128 <=? ?b] => destruct (128 <=? b) eqn:S end;
  f_equal; unfold sb in *; lia.
Qed.
