(* SchedC14.v — the C14 statements in the form exported by props/C14.v (reachable states =
   states after any history from the initial state). *)
From Bac Require Import Base Deferred DeferredFacts Sched SchedFacts SchedThms SchedPassive SchedOrder SchedRun.
From Coq Require Import Permutation Sorted ZifyBool ZifyN ZifyNat.
Open Scope Z_scope.

Definition reachable (guard : bool) (jit : Z) (c : cfg) (s : st) : Prop :=
  exists ops ev, run_ops guard jit c st0 ops = (s, ev).

Lemma reachable_inv : forall guard jit c s, reachable guard jit c s -> Inv s.
Proof. intros guard jit c s [ops [ev H]]. eapply reach_inv; exact H. Qed.

(* (due, counter) lexicographic, strict *)
Definition key_lt (a b : entry) : Prop :=
  e_when a < e_when b \/ (e_when a = e_when b /\ (e_seq a < e_seq b)%N).

Lemma sorted_key_lt : forall l, sorted l -> StronglySorted key_lt l.
Proof.
  induction 1; constructor; [assumption|]. rewrite Forall_forall in *. intros x Hx.
  apply e_lt_spec. apply H0, Hx.
Qed.

Lemma c14_fire_order : forall guard jit c s s' ev, passive_cfg c -> passive_dq s -> 0 <= jit -> reachable guard jit c s ->
  (run_once guard jit c s = (s', ev) \/ run guard jit c s = (s', ev)) ->
  StronglySorted key_lt (fired ev) /\ forall k, In k (fired ev) -> e_when k <= now s.
Proof.
  intros guard jit c s s' ev Hc Hp Hj Hr [H|H]; apply reachable_inv in Hr.
  - destruct (run_once_ordered _ _ _ _ _ _ Hc Hp Hj Hr H) as [Hs Hk]. split; [apply sorted_key_lt, Hs | exact Hk].
  - destruct (run_ordered _ _ _ _ _ _ Hc Hp Hj Hr H) as [Hs Hk]. split; [apply sorted_key_lt, Hs | exact Hk].
Qed.

(* any program: at every firing, the entry fired is smaller than everything that stays queued *)
Lemma c14_fire_least_pending : forall guard jit c ops s ev, run_ops guard jit c st0 ops = (s, ev) ->
  forall e rest, In (EvPop e rest) ev -> forall y, In y rest -> key_lt e y.
Proof.
  intros guard jit c ops s ev H e rest Hin y Hy.
  pose proof (run_ops_pop_min _ _ _ _ _ _ _ Inv_st0 H) as Hf. rewrite Forall_forall in Hf.
  apply e_lt_spec. exact (Hf _ Hin y Hy).
Qed.

Lemma c14_fire_is_min : forall guard jit c s e s1 z, reachable guard jit c s ->
  get_next_task s = (Some e, s1, z) -> forall x, In x (heap s1) -> key_lt e x.
Proof.
  intros guard jit c s e s1 z Hr G x Hx. apply reachable_inv in Hr.
  apply e_lt_spec. exact (proj2 (fire_is_min _ _ _ _ Hr G) x Hx).
Qed.

Lemma c14_never_early : forall guard jit c ops s ev, run_ops guard jit c st0 ops = (s, ev) ->
  forall i due n at_, In (EvFire i due n at_) ev -> due <= at_.
Proof.
  intros guard jit c ops s ev H i due n at_ Hin.
  pose proof (run_ops_never_early _ _ _ _ _ _ _ H) as Hf. rewrite Forall_forall in Hf. exact (Hf _ Hin).
Qed.

Lemma c14_once_per_install : forall guard jit c ops s ev, run_ops guard jit c st0 ops = (s, ev) ->
  NoDup (map e_seq (fired ev)).
Proof. intros. eapply reach_once; eassumption. Qed.

Lemma c14_suspend_cancels : forall guard jit c s i ops s' ev, reachable guard jit c s ->
  run_ops guard jit c s (Suspend i :: ops) = (s', ev) ->
  has_inst i ev = false -> forall due n at_, ~ In (EvFire i due n at_) ev.
Proof.
  intros guard jit c s i ops s' ev Hr H Hno due n at_ Hin. apply reachable_inv in Hr.
  cbn [run_ops step do_act lift] in H. destruct (run_ops guard jit c (tm_suspend s i) ops) as [s2 ev2] eqn:R.
  inversion H; subst. cbn [app] in Hin, Hno.
  destruct (suspend_removes s i Hr) as [Hni _].
  apply (run_ops_quiet _ _ _ _ _ _ _ _ Hni R Hno _ Hin). reflexivity.
Qed.

Lemma c14_reinstall_moves : forall guard jit c s, reachable guard jit c s ->
  NoDup (map e_tid (heap s)) /\
  forall i t s', do_install_when c s i t = Ok s' ->
    In (t, ctr s, i) (heap s') /\ (forall x, In x (heap s') -> e_tid x = i -> x = (t, ctr s, i)) /\
    (forall x, e_tid x <> i -> (In x (heap s') <-> In x (heap s))) /\
    length (heap s') = (if sched s i then length (heap s) else S (length (heap s))).
Proof.
  intros guard jit c s Hr. apply reachable_inv in Hr. split.
  - destruct Hr as [[_ _ Hn _] _]. exact Hn.
  - intros i t s' H. exact (install_moves _ _ _ _ _ Hr H).
Qed.

Lemma c14_recurring_slots : forall jit iv off, 0 < iv -> 0 <= jit ->
  (* the time computed at clock t is a slot off + iv*k, the least one strictly after t + jit *)
  (forall t, exists k, next_slot jit iv off t = off + iv * k /\ t + jit < off + iv * k /\
                       (forall m, t + jit < off + iv * m -> k <= m) /\ t < next_slot jit iv off t) /\
  (* fired on time at slot k, the next one is slot k + 1; fired late inside slot k' it is k' + 1 *)
  (jit < iv -> forall k, next_slot jit iv off (off + iv * k) = off + iv * (k + 1)) /\
  (forall k t, off + iv * k <= t + jit < off + iv * (k + 1) -> next_slot jit iv off t = off + iv * (k + 1)) /\
  (* and that is what process_task queues for a task that does not raise *)
  (forall guard c s e s1 z s2 ev r, passive_cfg c -> passive_dq s -> reachable guard jit c s -> get_next_task s = (Some e, s1, z) ->
     process_task jit c s1 e = (s2, ev, r) -> t_kind (cfg_get c (e_tid e)) = Recurring iv off ->
     t_raises (cfg_get c (e_tid e)) = false ->
     In (next_slot jit iv off (now s), ctr s, e_tid e) (heap s2)).
Proof.
  intros jit iv off Hiv Hj. split; [|split; [|split]].
  - intros t. destruct (next_slot_spec jit iv off t Hiv) as [He Hb].
    exists ((t + jit - off) / iv + 1). split; [exact He|]. split; [lia|]. split.
    + intros m Hm. pose proof (next_slot_least jit iv off t m Hiv Hm) as Hl. rewrite He in Hl.
      set (k := (t + jit - off) / iv + 1) in *. clearbody k. nia.
    + apply next_slot_after; assumption.
  - intros Hlt k. apply next_slot_successive; lia.
  - intros k t Hb. apply next_slot_late; assumption.
  - intros guard c s e s1 z s2 ev r Hc Hp Hr G P K Hnr. apply reachable_inv in Hr.
    exact (proj2 (recurring_requeued _ _ _ _ _ _ _ _ _ _ _ Hc Hr Hp G P K Hnr Hiv)).
Qed.

Lemma c14_deferred_once_in_order : forall q,
  exists L, drain_all true q = (L, [], DDone) /\ L = q ++ flat_map d_spawns L /\ Permutation L (f_all q)
            /\ (NoDup (map d_id (f_all q)) -> NoDup (map d_id L)).
Proof.
  intros q. destruct (drain_all_guarded q) as [L [H1 [H2 H3]]]. exists L. repeat split; try assumption.
  intros Hn. eapply drain_all_nodup; eassumption.
Qed.

Lemma c14_deferred_unguarded_partial : forall fuel q,
  forallb (fun d => negb (d_raises d)) (f_all q) = true -> drain false fuel q = drain true fuel q.
Proof. intros. apply drain_noraise. assumption. Qed.

Lemma c14_task_exception_isolated : forall jit c s, passive_cfg c -> passive_dq s -> 0 <= jit -> reachable true jit c s ->
  (forall e s1, t_raises (cfg_get c (e_tid e)) = true ->
     process_task jit c s1 e = (set_dq s1 (dq s1 ++ t_defers (cfg_get c (e_tid e))), [fire_of s1 e], true)) /\
  (forall s' ev, run_once true jit c s = (s', ev) -> forall x, In x (heap s) -> In x (heap s') \/ In x (fired ev)) /\
  (forall s' ev, run_once true jit c s = (s', ev) ->
     ~ In (EvErr OutOfFuel) ev /\
     (due_count s' = 0%nat \/ (In EvRaise ev /\ (due_count s' < due_count s)%nat))) /\
  (forall s' ev, run_ops true jit c s (repeat RunOnce (S (due_count s))) = (s', ev) ->
     forall x, In x (heap s) -> e_when x <= now s -> In x (fired ev)).
Proof.
  intros jit c s Hc Hp Hj Hr. apply reachable_inv in Hr. split; [|split; [|split]].
  - intros e s1 H. apply process_task_raising; assumption.
  - intros s' ev H. exact (run_once_conserves _ _ _ _ _ _ Hc Hp Hr H).
  - intros s' ev H. destruct (run_once_progress _ _ _ _ _ Hc Hp Hj Hr H) as [H1 [_ [_ [_ H2]]]]. split; assumption.
  - intros s' ev H. exact (due_tasks_fire_despite_raises _ _ _ _ _ Hc Hp Hj Hr H).
Qed.

Lemma c14_run_fires_all_due : forall jit c s s' ev, passive_cfg c -> passive_dq s -> 0 <= jit -> reachable true jit c s ->
  run true jit c s = (s', ev) ->
  ~ In (EvErr OutOfFuel) ev /\ dq s' = [] /\ due_count s' = 0%nat /\
  forall x, In x (heap s) -> e_when x <= now s -> In x (fired ev).
Proof. intros jit c s s' ev Hc Hp Hj Hr H. apply reachable_inv in Hr. exact (run_fires_all_due _ _ _ _ _ Hc Hp Hj Hr H). Qed.

(* ---------- the deferred loop of the model (any program) calls what the pure loop calls ---------- *)
Definition calls_of (ev : list event) : list nat :=
  flat_map (fun x => match x with EvCall i => [i] | _ => [] end) ev.

Lemma calls_of_app : forall a b, calls_of (a ++ b) = calls_of a ++ calls_of b.
Proof. intros. apply flat_map_app. Qed.

Lemma tm_suspend_dq : forall s i, dq (tm_suspend s i) = dq s.
Proof. intros s i. unfold tm_suspend. destruct (remove_tid i (heap s)); reflexivity. Qed.

Lemma tm_install_dq : forall s i s', tm_install s i = Ok s' -> dq s' = dq s.
Proof.
  intros s i s' H. unfold tm_install in H. destruct (ttime s i); [|discriminate].
  destruct (sched s i); inversion H; subst; cbn [dq]; [apply tm_suspend_dq | reflexivity].
Qed.

Lemma do_act_dq : forall jit c s a s' ev, do_act jit c s a = Ok (s', ev) -> dq s' = dq s /\ calls_of ev = [].
Proof.
  intros jit c s a s' ev H. destruct (do_act_cases _ _ _ _ _ _ H) as [[i [-> ->]]|[i [f [_ [T ->]]]]].
  - split; [apply tm_suspend_dq | reflexivity].
  - split; [rewrite (tm_install_dq _ _ _ T); reflexivity | reflexivity].
Qed.

Lemma run_acts_dq : forall jit c l s s' ev x, run_acts jit c s l = (s', ev, x) -> dq s' = dq s /\ calls_of ev = [].
Proof.
  induction l as [|a l IH]; intros s s' ev x H; cbn [run_acts] in H.
  - inversion H; subst. split; reflexivity.
  - destruct (do_act jit c s a) as [[s1 ev1]|] eqn:A.
    + destruct (run_acts jit c s1 l) as [[s2 ev2] x2] eqn:R. inversion H; subst.
      destruct (do_act_dq _ _ _ _ _ _ A) as [Hd Hc]. destruct (IH _ _ _ _ R) as [Hd2 Hc2].
      split; [congruence | rewrite calls_of_app, Hc, Hc2; reflexivity].
    + inversion H; subst. split; reflexivity.
Qed.

Lemma call_batch_s_calls : forall jit c b s s' ev x, call_batch_s true jit c s b = (s', ev, x) ->
  x = false /\ dq s' = dq s ++ flat_map d_spawns b /\ calls_of ev = map d_id b.
Proof.
  induction b as [|d b IH]; intros s s' ev x H; cbn [call_batch_s] in H.
  - inversion H; subst. rewrite app_nil_r. repeat split.
  - destruct (run_acts jit c (set_dq s (dq s ++ d_spawns d)) (d_acts d)) as [[s2 ev2] failed] eqn:RA.
    destruct (run_acts_dq _ _ _ _ _ _ _ RA) as [Hd Hc]. cbn [dq set_dq] in Hd.
    rewrite andb_false_r in H.
    destruct (call_batch_s true jit c s2 b) as [[s3 ev3] x3] eqn:R. inversion H; subst.
    destruct (IH _ _ _ _ R) as [-> [Hd3 Hc3]]. split; [reflexivity|]. split.
    + rewrite Hd3, Hd. cbn [flat_map]. rewrite app_assoc. reflexivity.
    + change (calls_of ([EvCall (d_id d)] ++ (ev2 ++ (if failed || d_raises d then [EvRaise] else [])) ++ ev3)
              = map d_id (d :: b)).
      rewrite !calls_of_app, Hc, Hc3. cbn [map calls_of flat_map app].
      destruct (failed || d_raises d); reflexivity.
Qed.

Lemma sdrain_calls : forall jit c fuel s s' ev x, (f_size (dq s) <= fuel)%nat ->
  sdrain true jit c fuel s = (s', ev, x) ->
  exists L, drain true fuel (dq s) = (L, [], DDone) /\ x = false /\ dq s' = [] /\ calls_of ev = map d_id L.
Proof.
  induction fuel as [|f IH]; intros s s' ev x Hf H; cbn [sdrain] in H.
  - destruct (dq s) as [|d0 q0] eqn:Q.
    + inversion H; subst. exists []. repeat split. exact Q.
    + cbn [f_size] in Hf. pose proof (d_size_pos d0). lia.
  - destruct (dq s) as [|d0 q0] eqn:Q.
    + inversion H; subst. exists []. repeat split. exact Q.
    + destruct (call_batch_s true jit c (set_dq s []) (d0 :: q0)) as [[s1 ev1] x1] eqn:B.
      destruct (call_batch_s_calls _ _ _ _ _ _ _ B) as [-> [Hd1 Hc1]]. cbn [dq set_dq app] in Hd1.
      destruct (sdrain true jit c f s1) as [[s2 ev2] x2] eqn:R. inversion H; subst.
      assert (Hsz : (f_size (dq s1) <= f)%nat).
      { rewrite Hd1. pose proof (f_size_spawns (d0 :: q0)) as Hs. cbn [length] in Hs. lia. }
      destruct (IH _ _ _ _ Hsz R) as [L' [HL' [-> [Hd2 Hc2]]]].
      cbn [drain]. rewrite call_batch_guarded. rewrite <- Hd1, HL'.
      exists ((d0 :: q0) ++ L'). split; [reflexivity|]. split; [reflexivity|]. split; [exact Hd2|].
      rewrite calls_of_app, Hc1, Hc2, map_app. reflexivity.
Qed.

(* with the guard, whatever the callbacks do to the schedule: the deferred loop ends with an
   empty queue, and the functions it called are — in order — those the pure loop calls *)
Lemma c14_deferred_loop_calls : forall jit c s s' ev x, do_drain true jit c s = (s', ev, x) ->
  exists L, drain_all true (dq s) = (L, [], DDone) /\ x = false /\ dq s' = [] /\ calls_of ev = map d_id L.
Proof. intros jit c s s' ev x H. unfold do_drain in H. exact (sdrain_calls _ _ _ _ _ _ _ (le_n _) H). Qed.

(* the finding: a recurring task that suspends itself inside its own callback is re-installed by
   process_task and fires again although nobody installed or resumed it *)
Definition self_suspender : cfg := [mkT (Recurring 10 0) false [] [ASuspend 0]].
Lemma c14_self_suspend_refuted :
  exists ops a b d due n at_ due' n' at',
    t_acts (cfg_get self_suspender 0) = [ASuspend 0] /\
    snd (run_ops true 1 self_suspender st0 ops) = a ++ EvFire 0 due n at_ :: b ++ EvFire 0 due' n' at' :: d /\
    forallb (fun x => negb (is_inst 0 x) || match x with EvInst _ auto => auto | _ => false end) b = true.
Proof.
  exists [Reinstall 0; ToDue; Poll; ToDue; Poll], [EvInst 0 false; EvPop (10, 0%N, 0%nat) []],
         [EvInst 0 true; EvPop (20, 1%N, 0%nat) []], [EvInst 0 true], 10, 0%N, 10, 20, 1%N, 20.
  vm_compute. repeat split.
Qed.
