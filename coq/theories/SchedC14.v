(* SchedC14.v — the C14 statements in the form exported by props/C14.v (reachable states =
   states after any history from the initial state). *)
From Bac Require Import Base Deferred DeferredFacts Sched SchedFacts SchedThms SchedOrder SchedRun.
From Coq Require Import Permutation Sorted ZifyBool ZifyN ZifyNat.
Open Scope Z_scope.

Definition reachable (guard : bool) (jit : Z) (c : cfg) (s : st) : Prop :=
  exists ops ev, run_ops guard jit c st0 ops = (s, ev).

Lemma reachable_inv : forall guard jit c s, reachable guard jit c s -> Inv s.
Proof. intros guard jit c s [ops [ev H]]. eapply reach_inv; exact H. Qed.

(* (due, counter) lexicographic, strict *)
Definition key_lt (a b : entry) : Prop :=
  e_when a < e_when b \/ (e_when a = e_when b /\ (e_seq a < e_seq b)%N).

Lemma sorted_key_lt : forall l, sorted l -> StronglySorted key_lt l.
Proof.
  induction 1; constructor; [assumption|]. rewrite Forall_forall in *. intros x Hx.
  apply e_lt_spec. apply H0, Hx.
Qed.

Lemma c14_fire_order : forall guard jit c s s' ev, 0 <= jit -> reachable guard jit c s ->
  (run_once guard jit c s = (s', ev) \/ run guard jit c s = (s', ev)) ->
  StronglySorted key_lt (fired ev) /\ forall k, In k (fired ev) -> e_when k <= now s.
Proof.
  intros guard jit c s s' ev Hj Hr [H|H]; apply reachable_inv in Hr.
  - destruct (run_once_ordered _ _ _ _ _ _ Hj Hr H) as [Hs Hk]. split; [apply sorted_key_lt, Hs | exact Hk].
  - destruct (run_ordered _ _ _ _ _ _ Hj Hr H) as [Hs Hk]. split; [apply sorted_key_lt, Hs | exact Hk].
Qed.

Lemma c14_fire_is_min : forall guard jit c s e s1 z, reachable guard jit c s ->
  get_next_task s = (Some e, s1, z) -> forall x, In x (heap s1) -> key_lt e x.
Proof.
  intros guard jit c s e s1 z Hr G x Hx. apply reachable_inv in Hr.
  apply e_lt_spec. exact (proj2 (fire_is_min _ _ _ _ Hr G) x Hx).
Qed.

Lemma c14_never_early : forall guard jit c ops s ev, run_ops guard jit c st0 ops = (s, ev) ->
  forall i due n at_, In (EvFire i due n at_) ev -> due <= at_.
Proof.
  intros guard jit c ops s ev H i due n at_ Hin.
  pose proof (run_ops_never_early _ _ _ _ _ _ _ H) as Hf. rewrite Forall_forall in Hf. exact (Hf _ Hin).
Qed.

Lemma c14_once_per_install : forall guard jit c ops s ev, run_ops guard jit c st0 ops = (s, ev) ->
  NoDup (map e_seq (fired ev)).
Proof. intros. eapply reach_once; eassumption. Qed.

Definition installs (i : nat) (o : op) : bool :=
  match o with Install j _ | InstallAfter j _ | Reinstall j | Resume j => Nat.eqb j i | _ => false end.

Lemma c14_suspend_cancels : forall guard jit c s i ops s' ev, reachable guard jit c s ->
  forallb (fun o => negb (installs i o)) ops = true ->
  run_ops guard jit c s (Suspend i :: ops) = (s', ev) ->
  forall due n at_, ~ In (EvFire i due n at_) ev.
Proof.
  intros guard jit c s i ops s' ev Hr Ha H due n at_ Hin. apply reachable_inv in Hr.
  cbn [run_ops step] in H. destruct (run_ops guard jit c (tm_suspend s i) ops) as [s2 ev2] eqn:R.
  inversion H; subst. cbn [app] in Hin.
  destruct (suspend_removes s i Hr) as [Hni _].
  assert (Ha' : forallb (op_allowed (fun j => negb (Nat.eqb j i))) ops = true).
  { rewrite forallb_forall in *. intros o Ho. specialize (Ha o Ho). destruct o; cbn in *; try reflexivity; exact Ha. }
  destruct (run_ops_quiet _ _ _ _ _ _ _ _ Hni Ha' R) as [_ Hq].
  apply (Hq _ Hin). reflexivity.
Qed.

Lemma c14_reinstall_moves : forall guard jit c s, reachable guard jit c s ->
  NoDup (map e_tid (heap s)) /\
  forall i t s', do_install_when c s i t = Ok s' ->
    In (t, ctr s, i) (heap s') /\ (forall x, In x (heap s') -> e_tid x = i -> x = (t, ctr s, i)) /\
    (forall x, e_tid x <> i -> (In x (heap s') <-> In x (heap s))) /\
    length (heap s') = (if sched s i then length (heap s) else S (length (heap s))).
Proof.
  intros guard jit c s Hr. apply reachable_inv in Hr. split.
  - destruct Hr as [[_ _ Hn _] _]. exact Hn.
  - intros i t s' H. exact (install_moves _ _ _ _ _ Hr H).
Qed.

Lemma c14_recurring_slots : forall jit iv off, 0 < iv -> 0 <= jit ->
  (* the time computed at clock t is a slot off + iv*k, the least one strictly after t + jit *)
  (forall t, exists k, next_slot jit iv off t = off + iv * k /\ t + jit < off + iv * k /\
                       (forall m, t + jit < off + iv * m -> k <= m) /\ t < next_slot jit iv off t) /\
  (* fired on time at slot k, the next one is slot k + 1; fired late inside slot k' it is k' + 1 *)
  (jit < iv -> forall k, next_slot jit iv off (off + iv * k) = off + iv * (k + 1)) /\
  (forall k t, off + iv * k <= t + jit < off + iv * (k + 1) -> next_slot jit iv off t = off + iv * (k + 1)) /\
  (* and that is what process_task queues for a task that does not raise *)
  (forall guard c s e s1 z s2 ev r, reachable guard jit c s -> get_next_task s = (Some e, s1, z) ->
     process_task jit c s1 e = (s2, ev, r) -> t_kind (cfg_get c (e_tid e)) = Recurring iv off ->
     t_raises (cfg_get c (e_tid e)) = false ->
     In (next_slot jit iv off (now s), ctr s, e_tid e) (heap s2)).
Proof.
  intros jit iv off Hiv Hj. split; [|split; [|split]].
  - intros t. destruct (next_slot_spec jit iv off t Hiv) as [He Hb].
    exists ((t + jit - off) / iv + 1). split; [exact He|]. split; [lia|]. split.
    + intros m Hm. pose proof (next_slot_least jit iv off t m Hiv Hm) as Hl. rewrite He in Hl.
      set (k := (t + jit - off) / iv + 1) in *. clearbody k. nia.
    + apply next_slot_after; assumption.
  - intros Hlt k. apply next_slot_successive; lia.
  - intros k t Hb. apply next_slot_late; assumption.
  - intros guard c s e s1 z s2 ev r Hr G P K Hnr. apply reachable_inv in Hr.
    exact (proj2 (recurring_requeued _ _ _ _ _ _ _ _ _ _ _ Hr G P K Hnr Hiv)).
Qed.

Lemma c14_deferred_once_in_order : forall q,
  exists L, drain_all true q = (L, [], DDone) /\ L = q ++ flat_map d_spawns L /\ Permutation L (f_all q)
            /\ (NoDup (map d_id (f_all q)) -> NoDup (map d_id L)).
Proof.
  intros q. destruct (drain_all_guarded q) as [L [H1 [H2 H3]]]. exists L. repeat split; try assumption.
  intros Hn. eapply drain_all_nodup; eassumption.
Qed.

Lemma c14_deferred_unguarded_partial : forall fuel q,
  forallb (fun d => negb (d_raises d)) (f_all q) = true -> drain false fuel q = drain true fuel q.
Proof. intros. apply drain_noraise. assumption. Qed.

Lemma c14_task_exception_isolated : forall jit c s, 0 <= jit -> reachable true jit c s ->
  (* the raising callback itself: nothing else leaves the queue, its deferred work is queued *)
  (forall e s1, t_raises (cfg_get c (e_tid e)) = true ->
     process_task jit c s1 e = (set_dq s1 (dq s1 ++ t_defers (cfg_get c (e_tid e))), [fire_of s1 e], true)) /\
  (* a pass loses nothing: every entry is still queued or has fired *)
  (forall s' ev, run_once true jit c s = (s', ev) -> forall x, In x (heap s) -> In x (heap s') \/ In x (fired ev)) /\
  (* a pass terminates within its fuel and either clears everything due or, having logged an
     exception, leaves strictly fewer due entries *)
  (forall s' ev, run_once true jit c s = (s', ev) ->
     ~ In (EvErr OutOfFuel) ev /\
     (due_count s' = 0%nat \/ (In EvRaise ev /\ (due_count s' < due_count s)%nat))) /\
  (* so (number due + 1) passes fire every entry that was due, whichever tasks raise *)
  (forall s' ev, run_ops true jit c s (repeat RunOnce (S (due_count s))) = (s', ev) ->
     forall x, In x (heap s) -> e_when x <= now s -> In x (fired ev)).
Proof.
  intros jit c s Hj Hr. apply reachable_inv in Hr. split; [|split; [|split]].
  - intros e s1 H. apply process_task_raising, H.
  - intros s' ev H. exact (run_once_conserves _ _ _ _ _ _ Hr H).
  - intros s' ev H. destruct (run_once_progress _ _ _ _ _ Hj Hr H) as [H1 [_ [_ H2]]]. split; assumption.
  - intros s' ev H. exact (due_tasks_fire_despite_raises _ _ _ _ _ Hj Hr H).
Qed.

Lemma c14_run_fires_all_due : forall jit c s s' ev, 0 <= jit -> reachable true jit c s ->
  run true jit c s = (s', ev) ->
  ~ In (EvErr OutOfFuel) ev /\ dq s' = [] /\ due_count s' = 0%nat /\
  forall x, In x (heap s) -> e_when x <= now s -> In x (fired ev).
Proof. intros jit c s s' ev Hj Hr H. apply reachable_inv in Hr. exact (run_fires_all_due _ _ _ _ _ Hj Hr H). Qed.
