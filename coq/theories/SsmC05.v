(* SsmC05.v — C05: what the sender puts into a window, what the receivers accept, and the witnesses of the
   defects that remain (sequence numbers used as indices beyond 256 segments; single faults that end in abort). *)
From Coq Require Import ZifyBool ZifyN ZifyNat.
From Bac Require Import Base PyRt Ssm SsmFacts SsmC04a SsmWorld.
From BacGen Require Import ApduFns.
Open Scope Z_scope.

(* ---------- the sender ---------- *)
Lemma get_segment_shape : forall s i a c, s_ctx s = Some c -> get_segment s i = Ok a ->
  i < s_segcount s /\
  a_data a = slice (a_data c) (i * s_segsize s) (s_segsize s) /\
  (s_segcount s <> 1 -> a_seg a = true /\ a_seq a = i mod 256 /\ a_mor a = (i <? s_segcount s - 1)) /\
  (s_segcount s = 1 -> a_seg a = false /\ a_mor a = false).
Proof.
  intros s i a c Hc H. unfold get_segment in H. rewrite Hc in H.
  destruct (s_segcount s <=? i) eqn:E1; [discriminate|].
  split; [lia|].
  destruct (a_type c =? 0).
  - destruct (enc_maxsegs (s_maxsegs s)); [|discriminate]. cbn [bind] in H.
    destruct (encode_max_apdu_length_accepted (s_maxapdu s)); [|discriminate]. cbn [bind] in H.
    inversion H; subst; clear H. unfold mk_creq; cbn [a_data a_seg a_seq a_mor].
    destruct (s_segcount s =? 1) eqn:E2; cbn [negb andb]; repeat split; intros; try lia; try reflexivity.
  - destruct (a_type c =? 3); [|discriminate].
    inversion H; subst; clear H. unfold mk_cack; cbn [a_data a_seg a_seq a_mor].
    destruct (s_segcount s =? 1) eqn:E2; cbn [negb andb]; repeat split; intros; try lia; try reflexivity.
Qed.

Lemma get_segment_sentall : forall b s i, get_segment (set_sentall_f b s) i = get_segment s i.
Proof. intros b s i. destruct_ssm s. reflexivity. Qed.

(* fill_window(seqNum): the frames are segments seqNum, seqNum+1, ... in this order, at most `window` of them,
   stopping after the one without more-follows *)
Lemma fill_loop_frames : forall n seqNum ix st st' e,
  fill_loop n seqNum ix st = (st', e) ->
  exists frames, h_outs st' = rev (map Tx frames) ++ h_outs st /\ (length frames <= n)%nat /\
    forall j a, nth_error frames j = Some a -> get_segment (h_s st) (seqNum + ix + Z.of_nat j) = Ok a.
Proof.
  induction n as [|n IH]; intros seqNum ix [s outs ctr now live] st' e H; cbn [fill_loop] in H.
  - inversion H; subst. exists []. cbn. split; [reflexivity | split; [lia|]]. intros j a Hj. destruct j; discriminate.
  - unfold withs in H. cbn [h_s] in H.
    destruct (get_segment s (seqNum + ix)) as [a|err] eqn:Eg.
    + unfold mseq, emit in H. cbn [h_s h_outs h_ctr h_now h_live] in H.
      destruct (a_mor a) eqn:Em.
      * apply IH in H. cbn [h_s h_outs] in H. destruct H as (frames & H1 & H2 & H3).
        exists (a :: frames). cbn [map rev length h_outs h_s]. rewrite H1, <- app_assoc. split; [reflexivity | split; [lia|]].
        intros j b Hj. destruct j as [|j]; cbn [nth_error] in Hj.
        -- inversion Hj; subst. replace (seqNum + ix + Z.of_nat 0) with (seqNum + ix) by lia. exact Eg.
        -- apply H3 in Hj. replace (seqNum + ix + Z.of_nat (S j)) with (seqNum + (ix + 1) + Z.of_nat j) by lia. exact Hj.
      * unfold upd in H. cbn [h_s h_outs h_ctr h_now h_live] in H. inversion H; subst.
        exists [a]. cbn [map rev length h_outs h_s app]. split; [reflexivity | split; [lia|]].
        intros j b Hj. destruct j as [|j]; cbn [nth_error] in Hj; [|destruct j; discriminate].
        inversion Hj; subst. replace (seqNum + ix + Z.of_nat 0) with (seqNum + ix) by lia. exact Eg.
    + unfold raise in H. inversion H; subst. exists []. cbn. split; [reflexivity | split; [lia|]]. intros j a Hj. destruct j; discriminate.
Qed.

Lemma fill_window_frames : forall seqNum st st' e w,
  s_actwin (h_s st) = Some w -> fill_window seqNum st = (st', e) ->
  exists frames, h_outs st' = rev (map Tx frames) ++ h_outs st /\ Z.of_nat (length frames) <= Z.max w 0 /\
    forall j a, nth_error frames j = Some a -> get_segment (h_s st) (seqNum + Z.of_nat j) = Ok a.
Proof.
  intros seqNum st st' e w Hw H. unfold fill_window, withs in H. rewrite Hw in H.
  apply fill_loop_frames in H. destruct H as (frames & H1 & H2 & H3).
  exists frames. split; [exact H1 | split; [lia|]].
  intros j a Hj. apply H3 in Hj. replace (seqNum + 0 + Z.of_nat j) with (seqNum + Z.of_nat j) in Hj by lia. exact Hj.
Qed.

(* ---------- the receivers implement rx_step ---------- *)
Definition ctx_data (s : ssm) : list Z := match s_ctx s with Some c => a_data c | None => [] end.

Lemma server_rx_tie : forall a st c, s_ctx (h_s st) = Some c -> a_type a = 0 -> a_seg a = true ->
  let st' := fst (s_segmented_request a st) in
  (ctx_data (h_s st'), s_lastseq (h_s st')) =
    (if a_seq a =? (s_lastseq (h_s st) + 1) mod 256
     then (a_data c ++ a_data a, (s_lastseq (h_s st) + 1) mod 256) else (a_data c, s_lastseq (h_s st))) /\
  (* the request goes up exactly when the in-order segment has no more-follows, and it carries what was reassembled *)
  (forall x, In (ToApp x) (h_outs st') -> ~ In (ToApp x) (h_outs st) ->
     a_seq a = (s_lastseq (h_s st) + 1) mod 256 /\ a_mor a = false /\ a_data x = a_data c ++ a_data a).
Proof.
  intros a [s outs ctr now live] c Hc Ht Hs. cbn [h_s] in Hc. destruct_ssm s. cbn [s_ctx] in Hc. subst x_ctx.
  destruct (a_seq a =? (x_lsq + 1) mod 256) eqn:Eq; destruct (a_mor a) eqn:Em; destruct x_awin as [w|];
    try (destruct (a_seq a =? (x_isq + w) mod 256) eqn:Ew);
    unfold s_segmented_request, s_abort, append_segment, actwin_z, ctx_data;
    repeat (mcbn; rewrite ?Ht, ?Hs, ?Eq, ?Em, ?Ew; cbn [Z.eqb negb Pos.eqb]);
    path_split; mcbn; cbn [a_data]; (split; [reflexivity|]); intros x Hin Hnin; cbn [In] in Hin;
    repeat (destruct Hin as [Hin|Hin]; [try discriminate; try (inversion Hin; subst; cbn [a_data]; repeat split; auto; lia) |]);
    try contradiction; try lia; try (exfalso; apply Hnin; exact Hin).
Qed.

Lemma client_rx_tie : forall a st c, s_ctx (h_s st) = Some c -> a_type a = 3 -> a_seg a = true ->
  let st' := fst (c_segmented_confirmation a st) in
  (ctx_data (h_s st'), s_lastseq (h_s st')) =
    (if a_seq a =? (s_lastseq (h_s st) + 1) mod 256
     then (a_data c ++ a_data a, (s_lastseq (h_s st) + 1) mod 256) else (a_data c, s_lastseq (h_s st))) /\
  (forall x, In (ToApp x) (h_outs st') -> ~ In (ToApp x) (h_outs st) ->
     a_seq a = (s_lastseq (h_s st) + 1) mod 256 /\ a_mor a = false /\ a_data x = a_data c ++ a_data a).
Proof.
  intros a [s outs ctr now live] c Hc Ht Hs. cbn [h_s] in Hc. destruct_ssm s. cbn [s_ctx] in Hc. subst x_ctx.
  destruct (a_seq a =? (x_lsq + 1) mod 256) eqn:Eq; destruct (a_mor a) eqn:Em; destruct x_awin as [w|];
    try (destruct (a_seq a =? (x_isq + w) mod 256) eqn:Ew);
    unfold c_segmented_confirmation, c_abort, append_segment, actwin_z, ctx_data;
    repeat (mcbn; rewrite ?Ht, ?Hs, ?Eq, ?Em, ?Ew; cbn [Z.eqb negb Pos.eqb]);
    path_split; mcbn; cbn [a_data]; (split; [reflexivity|]); intros x Hin Hnin; cbn [In] in Hin;
    repeat (destruct Hin as [Hin|Hin]; [try discriminate; try (inversion Hin; subst; cbn [a_data]; repeat split; auto; lia) |]);
    try contradiction; try lia; try (exfalso; apply Hnin; exact Hin).
Qed.

(* ---------- a new server transaction starts with segment 0 (after the fix) ---------- *)
Lemma s_idle_first_segment : forall a st, a_type a = 0 -> a_seg a = true -> a_seq a <> 0 -> h_outs st = [] ->
  s_state (h_s st) = IDLE ->
  let r := s_idle a st in
  forall x, ~ In (ToApp x) (h_outs (fst r)).
Proof.
  intros a [s outs ctr now live] Ht Hs Hq Ho Hst. cbn [h_outs h_s] in *. subst outs. destruct_ssm s. cbn [s_state] in Hst. subst x_state.
  unfold s_idle, s_abort. rewrite Ht. cbn [Z.eqb negb].
  destruct (decode_max_apdu_length_accepted (a_maxresp a)) as [[dec|]|e0] eqn:Ed; [ | | destruct e0];
  destruct (dec_maxsegs (a_maxsegs a)) as [ms|e1] eqn:Ems;
  repeat (mcbn; rewrite ?Hs; cbn [negb]);
  path_split; mcbn; intros x Hin; cbn [In] in Hin;
    repeat (destruct Hin as [Hin|Hin]; [try discriminate|]); try contradiction; try lia.
Qed.

(* ---------- witnesses ---------- *)
(* a sender with 300 segments of 50 octets, window 3 starting at 253, receives the ack for 255: the next window
   should start at segment 256 but starts at segment (255+1) mod 256 = 0 *)
Definition long_payload : list Z := map (fun i => i mod 251) (SsmWorld.zrange 0 15000).
Definition wrap_sender : ssm :=
  mkSsm 2 1 SEGMENTED_REQUEST (Some (mk_creq false false false (-1) (-1) (-1) (-1) 1 12 long_payload)) 50 300 0 0 false 0 253 (Some 3)
        3 3000 1500 3 (Some 64) 50 false (Some (1500, 0)) None 3 3000.
Definition wrap_ack : apdu := mk_segack false true 1 255 3.
Definition first_tx (outs : list out) : option apdu :=
  match rev outs with Tx a :: _ => Some a | _ => None end.

Lemma wrap_witness :
  match first_tx (h_outs (fst (c_confirmation wrap_ack (mkH wrap_sender [] 1 0 true)))) with
  | Some a => a_seq a = 0 /\ a_data a = slice long_payload 0 50 /\ a_data a <> slice long_payload (256 * 50) 50
  | None => False
  end.
Proof. vm_compute. repeat split; discriminate. Qed.

(* a segmented request and response of 180 octets at max-APDU 50; frame 2 (segment 1 of the request) is lost *)
Definition base_nodes : list nodecfg :=
  [mkNode 1 50 3 64 3 3000 1500 2 3000 false [(2, mkDinfo (Some 50) 3 (Some 64) None)];
   mkNode 2 50 3 64 3 3000 1500 2 3000 false [(1, mkDinfo (Some 50) 3 (Some 64) None)]].
Definition base_req : reqcfg := mkReq 0 1 2 180 12 (-1) 1 180 0.

Definition is_conf (ty : Z) (ev : list Z) : bool :=
  match ev with 13 :: _ :: _ :: _ :: t :: _ => t =? ty | _ => false end.
Definition n_conf (evs : list (list Z)) : Z :=
  zlen (filter (fun ev => match ev with 13 :: _ => true | _ => false end) evs).

Lemma single_drop_witness :
  let clean := run_chunks base_nodes [base_req] [] (-1) [] in
  let faulty := run_chunks base_nodes [base_req] [(2, [])] (-1) [] in
  existsb (is_conf 3) clean = true /\ n_conf clean = 1 /\
  existsb (is_conf 3) faulty = false /\ existsb (is_conf 7) faulty = true /\ n_conf faulty = 1.
Proof. vm_compute. repeat split. Qed.

(* unsegmented transactions do recover from every single fault: complete sweep of a finite family *)
Definition small_nodes (retries : Z) : list nodecfg :=
  [mkNode 1 50 3 64 retries 1000 500 2 3000 false []; mkNode 2 50 3 64 retries 1000 500 2 3000 false []].
Definition sweep_domain : list (Z * Z * Z * Z * list Z) :=
  flat_map (fun retries => flat_map (fun len => flat_map (fun kind => flat_map (fun idx =>
     map (fun fate => (retries, len, kind, idx, fate)) [[]; [0; 0]; [500]; [0; 4000]; [2000]])
     [0; 1; 2; 3]) [0; 1; 2]) [0; 1; 20; 46]) [1; 2; 3].
(* kind: 0 simple ack, 1 complex ack of 30 octets, 2 error *)
Definition sweep_ok (x : Z * Z * Z * Z * list Z) : bool :=
  let '(retries, len, kind, idx, fate) := x in
  let evs := run_chunks (small_nodes retries) [mkReq 0 1 2 len 12 (-1) kind 30 0] [(idx, fate)] (-1) [] in
  (n_conf evs =? 1) && existsb (is_conf (if kind =? 0 then 2 else if kind =? 1 then 3 else 5)) evs.

Lemma unsegmented_single_fault_sweep : forallb sweep_ok sweep_domain = true.
Proof. vm_compute. reflexivity. Qed.
