(* SsmC12.v — C12: lengths, segmentation decisions and window sizes against what the peer announced. *)
From Coq Require Import ZifyBool ZifyN ZifyNat.
From Bac Require Import Base PyRt Ssm SsmFacts SsmC04a SsmWorld.
From BacGen Require Import ApduFns.
Open Scope Z_scope.

(* path_split that also throws away paths whose test is a closed contradiction *)
Ltac path_split' :=
  repeat (mcbn;
    lazymatch goal with
    | |- context [if ?b then _ else _] => let E := fresh "E" in destruct b eqn:E; try (cbn in E; discriminate E)
    | |- context [match ?x with Some _ => _ | None => _ end] => let E := fresh "E" in destruct x eqn:E
    | |- context [match ?x with Ok _ => _ | Err _ => _ end] => let E := fresh "E" in destruct x eqn:E
    end).

(* ---------- lengths ---------- *)
Lemma get_segment_len : forall s i a, 0 <= s_segsize s -> get_segment s i = Ok a ->
  zlen (a_data a) <= s_segsize s /\ enc_len a <= s_segsize s + 6.
Proof.
  intros s i a Hz H. unfold get_segment in H.
  destruct (s_ctx s) as [c|]; [|discriminate].
  destruct (s_segcount s <=? i); [discriminate|].
  assert (Hl := slice_length (a_data c) (i * s_segsize s) (s_segsize s) Hz).
  destruct (a_type c =? 0).
  - destruct (enc_maxsegs (s_maxsegs s)); [|discriminate]. cbn [bind] in H.
    destruct (encode_max_apdu_length_accepted (s_maxapdu s)); [|discriminate]. cbn [bind] in H.
    inversion H; subst; clear H. unfold enc_len, hdr_len, mk_creq. cbn [a_data a_type a_seg Z.eqb].
    destruct (negb (s_segcount s =? 1)); lia.
  - destruct (a_type c =? 3); [|discriminate].
    inversion H; subst; clear H. unfold enc_len, hdr_len, mk_cack. cbn [a_data a_type a_seg Z.eqb Pos.eqb].
    destruct (negb (s_segcount s =? 1)); lia.
Qed.

(* the segment size a client uses towards a peer whose I-Am is recorded never exceeds what that I-Am said *)
Lemma client_segsize_le_peer : forall s d m, s_dinfo s = Some d -> d_maxapdu d = Some m -> client_segsize s <= m.
Proof.
  intros s d m Hd Hm. unfold client_segsize. rewrite Hd, Hm. destruct (d_maxnpdu d); lia.
Qed.

(* the segment size a server uses never exceeds the limit it holds for the client *)
Lemma server_segsize_le : forall s, server_segsize s <= s_maxapdu s.
Proof. intros s. unfold server_segsize. destruct (s_dinfo s) as [d|]; [destruct (d_maxnpdu d)|]; lia. Qed.

(* ClientSSM.indication fixes the segment size to client_segsize *)
Lemma c_indication_segsize : forall a st, a_type a = 0 -> s_segsize (h_s (fst (c_indication a st))) = client_segsize (h_s st).
Proof.
  intros a [s outs ctr now live] Ht. destruct_ssm s. unfold c_indication, c_abort. rewrite Ht. cbn [Z.eqb negb].
  path_split'; unfold client_segsize; mcbn; reflexivity.
Qed.

(* header on top of a full slice: the APDU is longer than the segment size (= the peer's maximum) *)
Definition over_sender : ssm :=
  mkSsm 2 1 SEGMENTED_REQUEST (Some (mk_creq false false false (-1) (-1) (-1) (-1) 1 12 (SsmWorld.zrange 0 180))) 50 4 0 0 false 0 0 (Some 2)
        3 3000 1500 3 (Some 64) 50 false None (Some (mkDinfo (Some 50) 3 (Some 64) None)) 2 3000.
Lemma over_witness : match get_segment over_sender 1 with Ok a => enc_len a = 56 /\ client_segsize over_sender = 50 | Err _ => False end.
Proof. vm_compute. split; reflexivity. Qed.

(* ---------- segmentation decisions ---------- *)
Lemma c_refuse_none : forall s cnt, c_refuse s cnt = None -> 1 < cnt ->
  can_tx (s_segsupp s) = true /\
  forall d, s_dinfo s = Some d -> can_rx (d_seg d) = true /\ forall m, d_maxsegs d = Some m -> m <> 0 -> cnt <= m.
Proof.
  intros s cnt H Hc. unfold c_refuse in H. replace (1 <? cnt) with true in H by lia.
  destruct (can_tx (s_segsupp s)); cbn [negb] in H; [|discriminate]. split; [reflexivity|].
  intros d Hd. rewrite Hd in H. destruct (can_rx (d_seg d)); cbn [negb] in H; [|discriminate]. split; [reflexivity|].
  intros m Hm Hm0. rewrite Hm in H. replace (m =? 0) with false in H by lia. destruct (m <? cnt) eqn:E; [discriminate | lia].
Qed.

Lemma s_refuse_none : forall s cnt, s_refuse s cnt = None -> 1 < cnt ->
  can_tx (s_segsupp s) = true /\ s_sra s = true /\ forall m, s_maxsegs s = Some m -> cnt <= m.
Proof.
  intros s cnt H Hc. unfold s_refuse in H. replace (1 <? cnt) with true in H by lia.
  destruct (can_tx (s_segsupp s)); cbn [negb] in H; [|discriminate].
  destruct (s_sra s); cbn [negb] in H; [|discriminate]. repeat split.
  intros m Hm. rewrite Hm in H. destruct (m <? cnt) eqn:E; [discriminate | lia].
Qed.

Definition tx_frames (outs : list out) : list apdu :=
  flat_map (fun o => match o with Tx a => [a] | ToApp _ => [] end) outs.

(* a request that is refused is not put on the wire at all; the application gets the abort *)
Lemma c_indication_refused : forall a st cnt r, a_type a = 0 -> h_outs st = [] ->
  seg_count (zlen (a_data a)) (client_segsize (h_s st)) = Ok cnt -> c_refuse (h_s st) cnt = Some r ->
  s_state (h_s st) <> COMPLETED -> s_state (h_s st) <> ABORTED ->
  h_outs (fst (c_indication a st)) = [ToApp (mk_abort false (a_invoke a) r)] /\ h_live (fst (c_indication a st)) = false.
Proof.
  intros a [s outs ctr now live] cnt r Ht Ho Hc Hr Hs1 Hs2. cbn [h_outs h_s] in *. subst outs.
  unfold c_indication, c_abort. rewrite Ht. cbn [Z.eqb negb]. mcbn.
  assert (Hsz : client_segsize (set_ctx_f (Some a) s) = client_segsize s) by (destruct_ssm s; reflexivity).
  destruct_ssm s. unfold set_ctx_f in Hsz. cbn [s_peer s_invoke s_state s_ctx s_segsize s_segcount s_retry s_segretry s_sentall s_lastseq s_initseq s_actwin
      s_retries s_apdu_to s_seg_to s_segsupp s_maxsegs s_maxapdu s_sra s_timer s_dinfo s_propwin s_app_to] in *.
  rewrite Hsz, Hc. mcbn.
  match goal with |- context [c_refuse ?s' cnt] => replace (c_refuse s' cnt) with (Some r) by (rewrite <- Hr; reflexivity) end.
  mcbn. replace ((x_state =? COMPLETED) || (x_state =? ABORTED)) with false by (unfold COMPLETED, ABORTED in *; lia).
  mcbn. split; reflexivity.
Qed.

(* a response that needs segments the request does not allow is answered with an abort, nothing else is sent *)
Lemma s_confirmation_refused : forall a st cnt r, a_type a = 3 -> h_outs st = [] ->
  seg_count (zlen (a_data a)) (server_segsize (h_s st)) = Ok cnt -> s_refuse (h_s st) cnt = Some r ->
  s_state (h_s st) <> COMPLETED -> s_state (h_s st) <> ABORTED ->
  h_outs (fst (s_confirmation a st)) = [Tx (mk_abort true (s_invoke (h_s st)) r)] /\ h_live (fst (s_confirmation a st)) = false.
Proof.
  intros a [s outs ctr now live] cnt r Ht Ho Hc Hr Hs1 Hs2. cbn [h_outs h_s] in *. subst outs.
  unfold s_confirmation, s_abort. rewrite Ht. cbn [Z.eqb Pos.eqb orb]. mcbn.
  assert (Hsz : server_segsize (set_ctx_f (Some a) s) = server_segsize s) by (destruct_ssm s; reflexivity).
  destruct_ssm s. unfold set_ctx_f in Hsz. cbn [s_peer s_invoke s_state s_ctx s_segsize s_segcount s_retry s_segretry s_sentall s_lastseq s_initseq s_actwin
      s_retries s_apdu_to s_seg_to s_segsupp s_maxsegs s_maxapdu s_sra s_timer s_dinfo s_propwin s_app_to] in *.
  rewrite Hsz, Hc. mcbn.
  match goal with |- context [s_refuse ?s' cnt] => replace (s_refuse s' cnt) with (Some r) by (rewrite <- Hr; reflexivity) end.
  mcbn. replace ((x_state =? COMPLETED) || (x_state =? ABORTED)) with false by (unfold COMPLETED, ABORTED in *; lia).
  mcbn. split; reflexivity.
Qed.

(* which reasons: segmentation needed but not possible -> 4, too many segments -> 11 *)
Lemma c_refuse_reason : forall s cnt r, c_refuse s cnt = Some r -> 1 < cnt /\ (r = R_SEG_NOT_SUPPORTED \/ r = R_APDU_TOO_LONG).
Proof.
  intros s cnt r H. unfold c_refuse in H. destruct (1 <? cnt) eqn:E; [|discriminate]. split; [lia|].
  destruct (negb (can_tx (s_segsupp s))); [inversion H; auto|].
  destruct (s_dinfo s) as [d|]; [|discriminate].
  destruct (negb (can_rx (d_seg d))); [inversion H; auto|].
  destruct (d_maxsegs d) as [m|]; [|discriminate]. destruct (m =? 0); [discriminate|]. destruct (m <? cnt); inversion H; auto.
Qed.

Lemma s_refuse_reason : forall s cnt r, s_refuse s cnt = Some r -> 1 < cnt /\ (r = R_SEG_NOT_SUPPORTED \/ r = R_APDU_TOO_LONG).
Proof.
  intros s cnt r H. unfold s_refuse in H. destruct (1 <? cnt) eqn:E; [|discriminate]. split; [lia|].
  destruct (negb (can_tx (s_segsupp s))); [inversion H; auto|].
  destruct (negb (s_sra s)); [inversion H; auto|].
  destruct (s_maxsegs s) as [m|]; [|discriminate]. destruct (m <? cnt); inversion H; auto.
Qed.

(* ---------- windows ---------- *)
(* the window a server grants is min(proposed, own): never above what the client proposed *)
Lemma s_idle_window : forall a st x, a_type a = 0 -> a_seg a = true -> h_outs st = [] ->
  In (Tx x) (h_outs (fst (s_idle a st))) -> a_type x = 4 ->
  a_win x = Z.min (a_win a) (s_propwin (h_s st)) /\ a_win x <= a_win a.
Proof.
  intros a [s outs ctr now live] x Ht Hs Ho. cbn [h_outs h_s] in *. subst outs. destruct_ssm s.
  unfold s_idle, s_abort. rewrite Ht. cbn [Z.eqb negb].
  destruct (decode_max_apdu_length_accepted (a_maxresp a)) as [[dec|]|e0] eqn:Ed; [ | | destruct e0];
  destruct (dec_maxsegs (a_maxsegs a)) as [ms|e1] eqn:Ems;
  repeat (mcbn; rewrite ?Hs; cbn [negb]);
  path_split; mcbn; intros Hin Hx; cbn [In] in Hin;
    repeat (destruct Hin as [Hin|Hin]; [try discriminate; try (inversion Hin; subst; cbn [a_type a_win mk_segack mk_abort] in *; try discriminate; split; lia)|]);
    try contradiction.
Qed.

(* ... but nothing keeps it inside 1..127: a proposed window of 0 is granted as 0, and a client adopts 200 *)
Definition idle_server : ssm := mkSsm 1 (-1) IDLE None 0 0 0 0 false 0 0 None 3 3000 1500 3 (Some 64) 50 false None None 2 3000.
Lemma window_zero_witness :
  h_outs (fst (s_idle (mk_creq true true true 0 0 0 0 5 12 [1; 2; 3]) (mkH idle_server [] 0 0 true)))
  = [Tx (mk_segack false true 5 0 0)].
Proof. vm_compute. reflexivity. Qed.

Lemma window_200_witness :
  let st := fst (c_confirmation (mk_segack false true 1 0 200) (mkH (set_initseq_f 0 over_sender) [] 1 0 true)) in
  s_actwin (h_s st) = Some 200 /\ zlen (tx_frames (h_outs st)) = 3 /\
  forallb (fun x => a_win x =? 200) (tx_frames (h_outs st)) = true.
Proof. vm_compute. repeat split. Qed.

(* the limit a server holds for the client: the larger of the request's own and the recorded I-Am value *)
Lemma iam_preferred_witness :
  let s := mkSsm 1 (-1) IDLE None 0 0 0 0 false 0 0 None 3 3000 1500 3 (Some 64) 1476 false None
                 (Some (mkDinfo (Some 480) 3 None None)) 2 3000 in
  s_maxapdu (h_s (fst (s_idle (mk_creq false false true (-1) (-1) 0 0 5 12 [1]) (mkH s [] 0 0 true)))) = 480.
Proof. vm_compute. reflexivity. Qed.

Lemma s_idle_limit : forall a st dec, a_type a = 0 -> decode_max_apdu_length_accepted (a_maxresp a) = Ok (Some dec) ->
  s_dinfo (h_s st) = None -> s_maxapdu (h_s (fst (s_idle a st))) = dec.
Proof.
  intros a [s outs ctr now live] dec Ht Hd Hn. cbn [h_s] in Hn. destruct_ssm s. cbn [s_dinfo] in Hn. subst x_dinf.
  unfold s_idle, s_abort. rewrite Ht, Hd. cbn [Z.eqb negb].
  destruct (dec_maxsegs (a_maxsegs a)) as [ms|e1] eqn:Ems; mcbn; path_split; mcbn; reflexivity.
Qed.

(* ---------- I-Am data (app.DeviceInfoCache.iam_device_info as modelled by SsmWorld.iam_update) ---------- *)
Lemma assoc_set_assoc : forall {A} k (v : A) l, assoc k (set_assoc k v l) = Some v.
Proof.
  intros A k v l. induction l as [|[k' v'] r IH]; cbn [set_assoc assoc].
  - rewrite Z.eqb_refl. reflexivity.
  - destruct (k =? k') eqn:E; cbn [assoc]; [rewrite Z.eqb_refl; reflexivity | rewrite E; exact IH].
Qed.

Lemma get_put_same' : forall n ns addr m, get_node addr ns = Some m -> c_addr (n_cfg n) = addr -> get_node addr (put_node n ns) = Some n.
Proof.
  intros n ns addr m. induction ns as [|x r IH]; cbn [get_node put_node]; [discriminate|]. intros H Ha.
  destruct (c_addr (n_cfg x) =? addr) eqn:E.
  - replace (c_addr (n_cfg x) =? c_addr (n_cfg n)) with true by lia. cbn [get_node]. replace (c_addr (n_cfg n) =? addr) with true by lia. reflexivity.
  - replace (c_addr (n_cfg x) =? c_addr (n_cfg n)) with false by lia. cbn [get_node]. rewrite E. apply IH; assumption.
Qed.

Lemma get_node_addr' : forall addr ns n, get_node addr ns = Some n -> c_addr (n_cfg n) = addr.
Proof.
  intros addr ns n. induction ns as [|m r IH]; cbn [get_node]; [discriminate|].
  destruct (c_addr (n_cfg m) =? addr) eqn:E; [intros H; inversion H; subst; lia | exact IH].
Qed.

(* the latest I-Am wins, always: afterwards the record of that peer carries exactly the announced maximum APDU length and
   segmentation support (whether or not transactions with that peer are open), every open transaction of the node with that
   peer that holds a record holds this one, and a request submitted from now on is cut to at most the announced length *)
Lemma iam_update_record : forall addr peer ma sg w n, get_node addr (w_nodes w) = Some n -> c_raw (n_cfg n) = false ->
  exists n' d, get_node addr (w_nodes (iam_update addr peer ma sg w)) = Some n' /\
    assoc peer (c_know (n_cfg n')) = Some d /\ d_maxapdu d = Some ma /\ d_seg d = sg /\
    (forall t, In t (n_ctr n' ++ n_str n') -> s_peer t = peer -> s_dinfo t <> None -> s_dinfo t = Some d) /\
    client_segsize (new_ssm (n_cfg n') peer true) <= ma.
Proof.
  intros addr peer ma sg w n Hn Hraw. unfold iam_update. rewrite Hn, Hraw.
  pose proof (get_node_addr' _ _ _ Hn) as Ha.
  set (d := match assoc peer (c_know (n_cfg n)) with
            | Some old => mkDinfo (Some ma) sg (d_maxsegs old) (d_maxnpdu old) | None => mkDinfo (Some ma) sg None None end).
  eexists. exists d. cbn [w_nodes set_nodes]. split; [eapply get_put_same'; [exact Hn | cbn [n_cfg c_addr]; exact Ha]|].
  cbn [n_cfg c_know n_ctr n_str]. split; [apply assoc_set_assoc|].
  split; [unfold d; destruct (assoc peer (c_know (n_cfg n))); reflexivity|].
  split; [unfold d; destruct (assoc peer (c_know (n_cfg n))); reflexivity|].
  split.
  - intros t Hin Hp Hd. rewrite <- map_app in Hin. apply in_map_iff in Hin. destruct Hin as (t0 & Ht0 & _). subst t.
    destruct ((s_peer t0 =? peer) && match s_dinfo t0 with Some _ => true | None => false end) eqn:E.
    + destruct t0; reflexivity.
    + exfalso. destruct (s_dinfo t0) eqn:Ed; [|apply Hd; reflexivity]. rewrite Bool.andb_true_r in E. lia.
  - eapply client_segsize_le_peer; [unfold new_ssm; cbn [s_dinfo c_know]; apply assoc_set_assoc|].
    unfold d; destruct (assoc peer (c_know (n_cfg n))); reflexivity.
Qed.

(* ---------- the segment-count limit of a response comes from the request alone ---------- *)
Lemma s_idle_maxsegs : forall a st dec ms, a_type a = 0 -> decode_max_apdu_length_accepted (a_maxresp a) = Ok (Some dec) ->
  dec_maxsegs (a_maxsegs a) = Ok ms ->
  s_maxsegs (h_s (fst (s_idle a st))) = ms /\ s_sra (h_s (fst (s_idle a st))) = a_sa a.
Proof.
  intros a [s outs ctr now live] dec ms Ht Hd Hm. destruct_ssm s.
  unfold s_idle, s_abort. rewrite Ht, Hd, Hm. cbn [Z.eqb negb].
  mcbn; path_split; mcbn; split; reflexivity.
Qed.

(* ... whatever the record of the client says (max-segments, max-APDU, segmentation): the check never looks at it *)
Lemma s_refuse_ignores_record : forall s d cnt, s_refuse (set_dinfo_f d s) cnt = s_refuse s cnt.
Proof. intros s d cnt. destruct_ssm s. reflexivity. Qed.
