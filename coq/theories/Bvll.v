(* Bvll.v — model of the BACnet/IP virtual link layer codec as seen below AnnexJCodec:
     py34/bacpypes/bvll.py         BVLCI.encode/decode (58-88), BVLPDU.encode/decode (117-123),
                                   the twelve message classes (168-700)
     py34/bacpypes/bvllservice.py  AnnexJCodec.indication / confirmation (286-317)
     py34/bacpypes/pdu.py          Address((ip, port)) six-octet form, unpack_ip_addr
   The registry consulted by the decoder is the *generated* table BacGen.BvllTable.bvl_pdu_types.
   No proofs here (BvllFacts.v). *)
From Bac Require Export Base BvllKind.
From BacGen Require Export BvllTable.
Open Scope N_scope.

(* ---- values held by the message objects ------------------------------------------------ *)

(* what sits where the code expects an Address:
     ANone     Python None (the constructors' default)  -> AttributeError on .addrAddr
     ANoBytes  an Address whose addrAddr is None (broadcast forms) -> TypeError in put_data
     ABytes l  addrAddr = bytes(l); six octets for B/IP, but any length is put as it is *)
Inductive addr : Set := ANone | ANoBytes | ABytes (l : list N).

(* BDT entry: an Address and its addrMask attribute (absent on non-IP addresses) *)
Record bdte : Set := mkBdte { b_addr : addr; b_mask : option Z }.
(* FDTEntry: fdAddress, fdTTL, fdRemain (None by default) *)
Record fdte : Set := mkFdte { f_addr : addr; f_ttl : option Z; f_rem : option Z }.

Inductive msg : Set :=
| Result (code : option Z)
| WriteBDT (bdt : list bdte)
| ReadBDT
| ReadBDTAck (bdt : list bdte)
| Forwarded (a : addr) (npdu : list N)
| RegisterFD (ttl : option Z)
| ReadFDT
| ReadFDTAck (fdt : list fdte)
| DeleteFDT (a : addr)
| Distribute (npdu : list N)
| OrigUnicast (npdu : list N)
| OrigBroadcast (npdu : list N).

Definition kind_of (m : msg) : bvl_class :=
  match m with
  | Result _ => K_Result
  | WriteBDT _ => K_WriteBroadcastDistributionTable
  | ReadBDT => K_ReadBroadcastDistributionTable
  | ReadBDTAck _ => K_ReadBroadcastDistributionTableAck
  | Forwarded _ _ => K_ForwardedNPDU
  | RegisterFD _ => K_RegisterForeignDevice
  | ReadFDT => K_ReadForeignDeviceTable
  | ReadFDTAck _ => K_ReadForeignDeviceTableAck
  | DeleteFDT _ => K_DeleteForeignDeviceTableEntry
  | Distribute _ => K_DistributeBroadcastToNetwork
  | OrigUnicast _ => K_OriginalUnicastNPDU
  | OrigBroadcast _ => K_OriginalBroadcastNPDU
  end.
Definition fn_of (m : msg) : N := fn_of_kind (kind_of m).

(* pdu.Address((ip, port)) and Address("a.b.c.d[/n]:port"): the constructor refuses a port outside
   0..65535 with ValueError (merged tree: "fix: refuse IP ports outside 0..65535 ..."); otherwise
   addrAddr = inet_aton(ip) + struct.pack('!H', port & 0xFFFF).
   ip_addr is the octet layout (what the object holds once constructed), mk_ip the constructor. *)
Definition ip_addr (a b c d : N) (port : Z) : addr :=
  ABytes ([a; b; c; d] ++ be2 (Z.to_N (port mod 65536))).
Definition port_ok (port : Z) : bool := (0 <=? port)%Z && (port <=? 65535)%Z.
Definition mk_ip (a b c d : N) (port : Z) : res addr :=
  if port_ok port then Ok (ip_addr a b c d port) else Err ValueErr.
(* a message is built from already constructed Address objects: the constructions run first, in
   order, and the first failure is what the caller sees *)
Fixpoint all_ok (rs : list (res addr)) : res unit :=
  match rs with [] => Ok tt | r :: t => do _ <- r; all_ok t end.
Definition addr_val (r : res addr) : addr := match r with Ok a => a | Err _ => ANone end.
(* Address("a.b.c.d/n"): addrMask = (0xFFFFFFFF << (32 - n)) & 0xFFFFFFFF, 0 <= n <= 32 *)
Definition prefix_mask (n : N) : Z := Z.of_N ((4294967295 * 2 ^ (32 - n)) mod 4294967296).

(* ---- encoding -------------------------------------------------------------------------- *)

(* put_short / put_long applied to a Python int (any sign) or None *)
Definition put_short_o (o : option Z) : res (list N) :=
  match o with None => Err TypeErr | Some z => Ok (be2 (Z.to_N (z mod 65536))) end.
Definition put_long_z (z : Z) : list N := be4 (Z.to_N (z mod 4294967296)).

Definition addr_bytes (a : addr) : res (list N) :=
  match a with ANone => Err AttrErr | ANoBytes => Err TypeErr | ABytes l => Ok l end.

Definition enc_bdte (e : bdte) : res (list N) :=
  do a <- addr_bytes (b_addr e);
  do m <- match b_mask e with None => Err AttrErr | Some z => Ok (put_long_z z) end;
  Ok (a ++ m).
Fixpoint enc_bdt (t : list bdte) : res (list N) :=
  match t with
  | [] => Ok []
  | e :: r => do x <- enc_bdte e; do y <- enc_bdt r; Ok (x ++ y)
  end.

Definition enc_fdte (e : fdte) : res (list N) :=
  do a <- addr_bytes (f_addr e);
  do t <- put_short_o (f_ttl e);
  do r <- put_short_o (f_rem e);
  Ok (a ++ t ++ r).
Fixpoint enc_fdt (t : list fdte) : res (list N) :=
  match t with
  | [] => Ok []
  | e :: r => do x <- enc_fdte e; do y <- enc_fdt r; Ok (x ++ y)
  end.

(* the per-class encode(): what is appended after the (copied) header *)
Definition enc_body (m : msg) : res (list N) :=
  match m with
  | Result c => put_short_o c
  | WriteBDT t => enc_bdt t
  | ReadBDT => Ok []
  | ReadBDTAck t => enc_bdt t
  | Forwarded a d => do x <- addr_bytes a; Ok (x ++ d)
  | RegisterFD t => put_short_o t
  | ReadFDT => Ok []
  | ReadFDTAck t => enc_fdt t
  | DeleteFDT a => addr_bytes a
  | Distribute d => Ok d
  | OrigUnicast d => Ok d
  | OrigBroadcast d => Ok d
  end.

(* bvlciLength as the constructor leaves it *)
Definition ctor_len (m : msg) : N :=
  match m with
  | Result _ => 6
  | WriteBDT t => 4 + 10 * lenN t
  | ReadBDT => 4
  | ReadBDTAck t => 4 + 10 * lenN t
  | Forwarded _ d => 10 + lenN d
  | RegisterFD _ => 6
  | ReadFDT => 4
  | ReadFDTAck t => 4 + 10 * lenN t
  | DeleteFDT _ => 10
  | Distribute d => 4 + lenN d
  | OrigUnicast d => 4 + lenN d
  | OrigBroadcast d => 4 + lenN d
  end.

(* bvlciLength after the class encode(): four classes recompute it, the others keep what the
   object holds (`stored`: the constructor's value unless the table was changed afterwards) *)
Definition enc_len (stored : N) (m : msg) : N :=
  match m with
  | ReadBDTAck t => 4 + 10 * lenN t
  | Forwarded _ d => 10 + lenN d
  | Distribute d => 4 + lenN d
  | OrigUnicast d => 4 + lenN d
  | OrigBroadcast d => 4 + lenN d
  | _ => stored
  end.

(* AnnexJCodec.indication: rpdu.encode(bvlpdu); bvlpdu.encode(pdu) *)
Definition enc_frame_with (stored : N) (m : msg) : res (list N) :=
  do body <- enc_body m;
  do t <- put bvlci_type;
  do f <- put (fn_of m);
  if negb (enc_len stored m =? lenN body + 4) then Err EncodingError
  else Ok (t ++ f ++ put_short (enc_len stored m) ++ body).

Definition enc_frame (m : msg) : res (list N) := enc_frame_with (ctor_len m) m.

(* ---- decoding -------------------------------------------------------------------------- *)

(* BVLCI.decode + BVLPDU.decode: (function, declared length, body) *)
Definition dec_bvlci (bs : list N) : res (N * N * list N) :=
  do (t, r) <- get bs;
  if negb (t =? 129) then Err DecodingError
  else
    do (f, r1) <- get r;
    do (l, r2) <- get_short r1;
    if negb (l =? lenN r2 + 4) then Err DecodingError
    else Ok (f, l, r2).

(* Address(unpack_ip_addr(get_data(6))) *)
Definition dec_addr (bs : list N) : res (addr * list N) :=
  do (d, r) <- get_data 6 bs; Ok (ABytes d, r).

(* while bvlpdu.pduData: ...   — fuel = number of octets left *)
Fixpoint dec_bdt_fuel (fuel : nat) (bs : list N) : res (list bdte) :=
  match bs with
  | [] => Ok []
  | _ =>
    match fuel with
    | O => Err OutOfFuel
    | S f =>
      do (a, r) <- dec_addr bs;
      do (m, r2) <- get_long r;
      do t <- dec_bdt_fuel f r2;
      Ok (mkBdte a (Some (Z.of_N m)) :: t)
    end
  end.
Definition dec_bdt (bs : list N) : res (list bdte) := dec_bdt_fuel (length bs) bs.

Fixpoint dec_fdt_fuel (fuel : nat) (bs : list N) : res (list fdte) :=
  match bs with
  | [] => Ok []
  | _ =>
    match fuel with
    | O => Err OutOfFuel
    | S f =>
      do (a, r) <- dec_addr bs;
      do (ttl, r2) <- get_short r;
      do (rem, r3) <- get_short r2;
      do t <- dec_fdt_fuel f r3;
      Ok (mkFdte a (Some (Z.of_N ttl)) (Some (Z.of_N rem)) :: t)
    end
  end.
Definition dec_fdt (bs : list N) : res (list fdte) := dec_fdt_fuel (length bs) bs.

(* the per-class decode(); octets a class does not read are left in the buffer unnoticed *)
Definition dec_body (k : bvl_class) (body : list N) : res msg :=
  match k with
  | K_Result => do (c, _) <- get_short body; Ok (Result (Some (Z.of_N c)))
  | K_WriteBroadcastDistributionTable => do t <- dec_bdt body; Ok (WriteBDT t)
  | K_ReadBroadcastDistributionTable => Ok ReadBDT
  | K_ReadBroadcastDistributionTableAck => do t <- dec_bdt body; Ok (ReadBDTAck t)
  | K_ForwardedNPDU => do (a, r) <- dec_addr body; Ok (Forwarded a r)
  | K_RegisterForeignDevice => do (c, _) <- get_short body; Ok (RegisterFD (Some (Z.of_N c)))
  | K_ReadForeignDeviceTable => Ok ReadFDT
  | K_ReadForeignDeviceTableAck => do t <- dec_fdt body; Ok (ReadFDTAck t)
  | K_DeleteForeignDeviceTableEntry => do (a, _) <- dec_addr body; Ok (DeleteFDT a)
  | K_DistributeBroadcastToNetwork => Ok (Distribute body)
  | K_OriginalUnicastNPDU => Ok (OrigUnicast body)
  | K_OriginalBroadcastNPDU => Ok (OrigBroadcast body)
  end.

(* AnnexJCodec.confirmation after the header: registry lookup (unknown function refused with
   DecodingError — the `fix:` commit; the pinned tree raised KeyError here), then class decode *)
Definition dec_msg (f : N) (body : list N) : res msg :=
  match lookup_fn f bvl_pdu_types with
  | None => Err DecodingError
  | Some k => dec_body k body
  end.

Definition dec_frame (bs : list N) : res msg :=
  do (fl, body) <- dec_bvlci bs;
  dec_msg (fst fl) body.

(* ---- well-formedness (hypotheses of the round-trip theorems) ---------------------------- *)
Definition wf_addr (a : addr) : bool :=
  match a with ABytes l => (lenN l =? 6) && bytes_ok l | _ => false end.
Definition wf_short (o : option Z) : bool :=
  match o with Some z => (0 <=? z)%Z && (z <? 65536)%Z | None => false end.
Definition wf_bdte (e : bdte) : bool :=
  wf_addr (b_addr e) &&
  match b_mask e with Some z => (0 <=? z)%Z && (z <? 4294967296)%Z | None => false end.
Definition wf_fdte (e : fdte) : bool :=
  wf_addr (f_addr e) && wf_short (f_ttl e) && wf_short (f_rem e).
Definition wf_msg (m : msg) : bool :=
  match m with
  | Result c => wf_short c
  | WriteBDT t => forallb wf_bdte t
  | ReadBDT => true
  | ReadBDTAck t => forallb wf_bdte t
  | Forwarded a d => wf_addr a && bytes_ok d
  | RegisterFD t => wf_short t
  | ReadFDT => true
  | ReadFDTAck t => forallb wf_fdte t
  | DeleteFDT a => wf_addr a
  | Distribute d => bytes_ok d
  | OrigUnicast d => bytes_ok d
  | OrigBroadcast d => bytes_ok d
  end.

(* Annex J.2 layout, written independently of enc_body: total octet count of a frame *)
Definition frame_len (m : msg) : N :=
  match m with
  | Result _ => 6
  | WriteBDT t => 4 + 10 * lenN t
  | ReadBDT => 4
  | ReadBDTAck t => 4 + 10 * lenN t
  | Forwarded _ d => 10 + lenN d
  | RegisterFD _ => 6
  | ReadFDT => 4
  | ReadFDTAck t => 4 + 10 * lenN t
  | DeleteFDT _ => 10
  | Distribute d => 4 + lenN d
  | OrigUnicast d => 4 + lenN d
  | OrigBroadcast d => 4 + lenN d
  end.

(* ---- canonical forms for the correspondence check -------------------------------------- *)
Definition bres {A} (f : A -> list Z) (r : res A) : list Z :=
  match r with Ok a => 0%Z :: f a | Err e => [1%Z; err_code e] end.

Definition port_of (l : list N) : N :=
  match skipn 4 l with hi :: lo :: _ => hi * 256 + lo | _ => 0 end.
(* a decoded Address: addrAddr octets, addrTuple (ip octets, port), addrType *)
Definition canon_addr (a : addr) : list Z :=
  match a with
  | ABytes l => zlen l :: zs l ++ zs (firstn 4 l) ++ [zN (port_of l)]
  | ANone => [(-1)%Z]
  | ANoBytes => [(-2)%Z]
  end.
Definition canon_oz (o : option Z) : list Z :=
  match o with None => [0%Z] | Some z => [1%Z; z] end.
Definition canon_bdte (e : bdte) : list Z := canon_addr (b_addr e) ++ canon_oz (b_mask e).
Definition canon_fdte (e : fdte) : list Z :=
  canon_addr (f_addr e) ++ canon_oz (f_ttl e) ++ canon_oz (f_rem e).
Definition canon_msg (m : msg) : list Z :=
  zN (fn_of m) ::
  match m with
  | Result c => canon_oz c
  | WriteBDT t | ReadBDTAck t => zlen t :: flat_map canon_bdte t
  | ReadBDT | ReadFDT => []
  | Forwarded a d => canon_addr a ++ zlen d :: zs d
  | RegisterFD t => canon_oz t
  | ReadFDTAck t => zlen t :: flat_map canon_fdte t
  | DeleteFDT a => canon_addr a
  | Distribute d | OrigUnicast d | OrigBroadcast d => zlen d :: zs d
  end.

(* what the harness observes of AnnexJCodec.confirmation: bvlciFunction, bvlciLength, class, parameters *)
Definition canon_decode (bs : list N) : list Z :=
  match dec_bvlci bs with
  | Err e => [1%Z; err_code e]
  | Ok (f, l, body) =>
    match dec_msg f body with
    | Err e => [1%Z; err_code e]
    | Ok m => 0%Z :: zN f :: zN l :: canon_msg m
    end
  end.
Definition canon_encode (m : msg) : list Z := bres zs (enc_frame m).
(* with the Address constructions that precede the message's own construction *)
Definition canon_build_encode (rs : list (res addr)) (m : msg) : list Z :=
  bres zs (do _ <- all_ok rs; enc_frame m).
Definition canon_build_encode_with (rs : list (res addr)) (stored : N) (m : msg) : list Z :=
  bres zs (do _ <- all_ok rs; enc_frame_with stored m).
Definition canon_build_ctor_len (rs : list (res addr)) (m : msg) : list Z :=
  bres (fun n => [zN n]) (do _ <- all_ok rs; Ok (ctor_len m)).
Definition canon_encode_with (stored : N) (m : msg) : list Z := bres zs (enc_frame_with stored m).

(* histories: several frames decoded / messages encoded one after the other in one process.  The
   model is a pure function of each input, so the canonical result of a history is the results of
   its steps, each as inspected *after the whole history ran* on the implementation side: the tie
   says a decoded message does not change afterwards and no step depends on an earlier one. *)
Inductive hop : Set :=
| HDec (bs : list N)
| HEnc (rs : list (res addr)) (m : msg)
| HInspect (m : msg).      (* the parameters of a message object read back, e.g. between two encodes of it *)
Definition canon_hop (h : hop) : list Z :=
  match h with
  | HDec bs => canon_decode bs
  | HEnc rs m => canon_build_encode rs m
  | HInspect m => canon_msg m
  end.
Definition canon_history (hs : list hop) : list Z :=
  flat_map (fun h => zlen (canon_hop h) :: canon_hop h) hs.
