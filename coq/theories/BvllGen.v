(* BvllGen.v — the translated methods of bvll.py (BacGen.BvllFns, regenerated from the source on
   every run) put together the way bvllservice.AnnexJCodec does.  Hand-written, no proofs
   (BvllGenFacts.v).  What is hand-written here:
     obj_of_msg / msg_of_obj   which attributes of a message object carry which parameter
                               (the attributes the harness reads: bvlciResultCode, bvlciBDT,
                               bvlciAddress, bvlciTimeToLive, bvlciFDT, pduData)
     gen_enc_frame_with        AnnexJCodec.indication   (bvllservice.py:287-299)
     gen_dec_frame             AnnexJCodec.confirmation (bvllservice.py:301-318)
   Everything inside the method calls is translated text. *)
From Bac Require Export Bvll BvllRt.
From BacGen Require Export BvllFns.
Open Scope N_scope.

(* BVLPDU() / PDU(): nothing in the buffer.  The header attributes of a fresh BVLPDU are None in
   Python; every translated method overwrites them before reading them (BvllGenFacts:
   class_encode_is_model / BVLPDU_decode_is_model hold for ANY initial object), so their value
   here is immaterial. *)
Definition empty_obj : pyobj := mkObj bvlci_type 0 0 [] None [] ANone None [].

(* the message object as the application holds it: class function code (table obligation
   ctor_function_table), bvlciLength = `stored`, parameters in their attributes *)
Definition obj_of_msg (stored : N) (m : msg) : pyobj :=
  let o := mkObj bvlci_type (fn_of m) stored [] None [] ANone None [] in
  match m with
  | Result c => set_bvlciResultCode c o
  | WriteBDT t => set_bvlciBDT t o
  | ReadBDT => o
  | ReadBDTAck t => set_bvlciBDT t o
  | Forwarded a d => set_bvlciAddress a (set_pduData d o)
  | RegisterFD t => set_bvlciTimeToLive t o
  | ReadFDT => o
  | ReadFDTAck t => set_bvlciFDT t o
  | DeleteFDT a => set_bvlciAddress a o
  | Distribute d => set_pduData d o
  | OrigUnicast d => set_pduData d o
  | OrigBroadcast d => set_pduData d o
  end.

(* the parameters read back from an object of class k *)
Definition msg_of_obj (k : bvl_class) (o : pyobj) : msg :=
  match k with
  | K_Result => Result (bvlciResultCode o)
  | K_WriteBroadcastDistributionTable => WriteBDT (bvlciBDT o)
  | K_ReadBroadcastDistributionTable => ReadBDT
  | K_ReadBroadcastDistributionTableAck => ReadBDTAck (bvlciBDT o)
  | K_ForwardedNPDU => Forwarded (bvlciAddress o) (pduData o)
  | K_RegisterForeignDevice => RegisterFD (bvlciTimeToLive o)
  | K_ReadForeignDeviceTable => ReadFDT
  | K_ReadForeignDeviceTableAck => ReadFDTAck (bvlciFDT o)
  | K_DeleteForeignDeviceTableEntry => DeleteFDT (bvlciAddress o)
  | K_DistributeBroadcastToNetwork => Distribute (pduData o)
  | K_OriginalUnicastNPDU => OrigUnicast (pduData o)
  | K_OriginalBroadcastNPDU => OrigBroadcast (pduData o)
  end.

(* BVLCI.update(dst, src) as a function: the three header attributes copied *)
Definition hdr_copy (dst src : pyobj) : pyobj :=
  set_bvlciLength (bvlciLength src) (set_bvlciFunction (bvlciFunction src) (set_bvlciType (bvlciType src) dst)).

(* AnnexJCodec.indication: bvlpdu = BVLPDU(); rpdu.encode(bvlpdu); pdu = PDU(); bvlpdu.encode(pdu);
   the octets sent downstream are pdu.pduData.  `rpdu_of` is the message object, `k` its class. *)
Definition gen_indication (k : bvl_class) (rpdu : pyobj) : res (list N) :=
  do (_, bvlpdu) <- class_encode k rpdu empty_obj;
  do (_, pdu) <- BVLPDU_encode bvlpdu empty_obj;
  Ok (pduData pdu).
Definition gen_enc_frame_with (stored : N) (m : msg) : res (list N) :=
  gen_indication (kind_of m) (obj_of_msg stored m).
Definition gen_enc_frame (m : msg) : res (list N) := gen_enc_frame_with (ctor_len m) m.

(* AnnexJCodec.confirmation: bvlpdu = BVLPDU(); bvlpdu.decode(pdu); class looked up in
   bvl_pdu_types (generated table; unknown -> DecodingError); rpdu = klass(); rpdu.decode(bvlpdu).
   `fresh k` is what klass() returns; gen_dec_frame takes the argument-less constructor's
   attribute values, and class_decode_is_model shows the result does not depend on it. *)
Definition gen_confirmation (fresh : bvl_class -> pyobj) (bs : list N) : res (bvl_class * pyobj) :=
  do (bvlpdu, _) <- BVLPDU_decode empty_obj (set_pduData bs empty_obj);
  match lookup_fn (bvlciFunction bvlpdu) bvl_pdu_types with
  | None => Err DecodingError
  | Some k => do (rpdu, _) <- class_decode k (fresh k) bvlpdu; Ok (k, rpdu)
  end.
Definition gen_dec_frame_from (fresh : bvl_class -> pyobj) (bs : list N) : res msg :=
  do (k, rpdu) <- gen_confirmation fresh bs; Ok (msg_of_obj k rpdu).
Definition gen_dec_frame (bs : list N) : res msg := gen_dec_frame_from (fun _ => empty_obj) bs.
