(* NetFacts.v — lemmas about the network-layer model Net.v (property C06). *)
From Bac Require Import Base Net.
