(* NetFacts.v — lemmas about the network-layer model Net.v (property C06). *)
From Coq Require Import ZifyBool ZifyN ZifyNat.
From Bac Require Import Base Net.
Ltac Zify.zify_post_hook ::= Z.to_euclidean_division_equations.
Open Scope N_scope.

Definition is_fwd (a : action) : bool := match a with Fwd _ _ _ => true | _ => false end.
Definition is_up (a : action) : bool := match a with Up _ _ _ => true | _ => false end.

Lemma other_ports_neq : forall n i j, In j (other_ports n i) -> j <> i.
Proof.
  unfold other_ports; intros n i j H. apply filter_In in H. destruct H as [_ H].
  destruct (Nat.eqb_spec j i); [discriminate | assumption].
Qed.

Lemma other_ports_lt : forall n i j, In j (other_ports n i) -> (j < length (adapters n))%nat.
Proof.
  unfold other_ports; intros n i j H. apply filter_In in H. destruct H as [H _].
  apply in_seq in H. lia.
Qed.

(* the sender's identity attached by a forwarding router *)
Definition fwd_sadr (inet : N) (src : mac) (p : npdu) : N * mac :=
  match n_sadr p with Some s => s | None => (inet, src) end.

Definition targets (dd : dadr) (dnet : N) : Prop :=
  dd = DBcast dnet \/ exists mm, dd = DStation dnet mm.

Lemma forward_fwd : forall n i ai src p dd j d q,
  In (Fwd j d q) (forward n i ai src p dd) ->
  n_hop p <> 0 /\ n_hop q = n_hop p - 1 /\ n_data q = n_data p /\ n_msg q = n_msg p /\
  (exists inet, a_net ai = Some inet /\ n_sadr q = Some (fwd_sadr inet src p)) /\
  (n_dadr q = n_dadr p \/ n_dadr q = None) /\
  (j <> i \/ exists dnet m, targets dd dnet /\ find_net n (Some dnet) = None /\
                            find_path n dnet = Some (i, m) /\ d = LStation m /\ n_dadr q = n_dadr p).
Proof.
  intros n i ai src p dd j d q H. unfold forward in H.
  destruct (negb (is_router n)); [inversion H|].
  destruct (n_hop p =? 0) eqn:Eh; [inversion H|]. apply N.eqb_neq in Eh.
  destruct (a_net ai) as [inet|] eqn:Ei; [|destruct H as [H|[]]; discriminate].
  assert (Hrouted : forall dnet final,
    In (Fwd j d q)
      match find_net n (Some dnet) with
      | Some j0 => if Nat.eqb j0 i then [] else
          [Fwd j0 final (mkNpdu None (Some (fwd_sadr inet src p)) (n_hop p - 1) (n_msg p) (n_data p))]
      | None => match find_path n dnet with
                | Some (j0, m) => [Fwd j0 (LStation m)
                      (mkNpdu (n_dadr p) (Some (fwd_sadr inet src p)) (n_hop p - 1) (n_msg p) (n_data p))]
                | None => map (fun j0 => Tx j0 LBcast (who_is dnet None)) (other_ports n i)
                end
      end ->
    n_hop q = n_hop p - 1 /\ n_data q = n_data p /\ n_msg q = n_msg p /\
    n_sadr q = Some (fwd_sadr inet src p) /\ (n_dadr q = n_dadr p \/ n_dadr q = None) /\
    (j <> i \/ exists m, find_net n (Some dnet) = None /\ find_path n dnet = Some (i, m) /\
                         d = LStation m /\ n_dadr q = n_dadr p)).
  { intros dnet final H0.
    destruct (find_net n (Some dnet)) as [j0|] eqn:Ef.
    - destruct (Nat.eqb_spec j0 i); [inversion H0|].
      destruct H0 as [H0|[]]. inversion H0; subst. cbn. repeat split; auto.
    - destruct (find_path n dnet) as [[j0 m]|] eqn:Ep.
      + destruct H0 as [H0|[]]. inversion H0; subst. cbn. repeat split; auto.
        destruct (Nat.eq_dec j i); [right; exists m; subst; auto | left; auto].
      + apply in_map_iff in H0. destruct H0 as [x [Hx _]]. discriminate. }
  split; [assumption|].
  destruct dd as [|dnet|dnet mm].
  - apply in_map_iff in H. destruct H as [x [Hx Hin]]. inversion Hx; subst. cbn.
    repeat split; auto. exists inet; auto. left. eapply other_ports_neq; eauto.
  - apply Hrouted in H. destruct H as (A & B & C & D & E & F).
    repeat split; auto. exists inet; auto.
    destruct F as [F|[m F]]; [left; auto|right; exists dnet, m].
    destruct F as (F1 & F2 & F3 & F4). repeat split; auto. left; reflexivity.
  - apply Hrouted in H. destruct H as (A & B & C & D & E & F).
    repeat split; auto. exists inet; auto.
    destruct F as [F|[m F]]; [left; auto|right; exists dnet, m].
    destruct F as (F1 & F2 & F3 & F4). repeat split; auto. right; exists mm; reflexivity.
Qed.

Definition no_fwd (l : list action) : Prop := forall j d q, ~ In (Fwd j d q) l.

Lemma no_fwd_map_tx : forall (f : nat -> action) l, (forall x, is_fwd (f x) = false) -> no_fwd (map f l).
Proof.
  intros f l Hf j d q H. apply in_map_iff in H. destruct H as [x [Hx _]].
  specialize (Hf x). rewrite Hx in Hf. discriminate.
Qed.

Lemma no_fwd_app : forall a b, no_fwd a -> no_fwd b -> no_fwd (a ++ b).
Proof. intros a b Ha Hb j d q H. apply in_app_or in H. destruct H; [eapply Ha|eapply Hb]; eauto. Qed.

Lemma no_fwd_nil : no_fwd [].
Proof. intros j d q H. inversion H. Qed.

Lemma no_fwd_one : forall a, is_fwd a = false -> no_fwd [a].
Proof. intros a Ha j d q [H|[]]. subst. discriminate. Qed.

Lemma nse_who_is_spec : forall n i ai src p w n' acts,
  nse_who_is n i ai src p w = (n', acts) -> n' = n /\ no_fwd acts /\ (forall s d x, ~ In (Up s d x) acts).
Proof.
  intros n i ai src p w n' acts H. unfold nse_who_is in H.
  repeat match type of H with
  | context [match ?x with _ => _ end] => destruct x eqn:?
  | context [if ?x then _ else _] => destruct x eqn:?
  end; inversion H; subst; clear H; (split; [reflexivity|]); split;
  try apply no_fwd_nil; try (apply no_fwd_one; reflexivity);
  try (apply no_fwd_map_tx; intro; reflexivity);
  intros s d x Hin; try (apply in_map_iff in Hin; destruct Hin as [? [? _]]; discriminate);
  try (destruct Hin as [Hin|[]]; discriminate); try inversion Hin.
Qed.

Lemma pending_get_in : forall p d l, pending_get p d = Some l -> In (d, l) p.
Proof.
  induction p as [|[k kl] r IH]; cbn; intros d l H; [discriminate|].
  destruct (N.eqb_spec k d).
  - inversion H; subst. left; reflexivity.
  - right. apply IH; assumption.
Qed.

Lemma pending_del_in : forall p d x, In x (pending_del p d) -> In x p.
Proof.
  induction p as [|[k kl] r IH]; cbn; intros d x H; [assumption|].
  destruct (k =? d); [right; assumption|].
  destruct H as [H|H]; [left; assumption|right; eapply IH; eauto].
Qed.

(* everything release emits is a parked packet, sent to the announcing router on the arrival adapter *)
Lemma release_spec : forall nets pend i src pend' acts,
  release pend i src nets = (pend', acts) ->
  forall a, In a acts -> exists q, a = Tx i (LStation src) q /\ exists d l, In (d, l) pend /\ In q l.
Proof.
  induction nets as [|d r IH]; intros pend i src pend' acts H a Ha.
  - inversion H; subst. inversion Ha.
  - cbn [release] in H. destruct (pending_get pend d) as [l|] eqn:Eg.
    + destruct (release (pending_del pend d) i src r) as [pe ac] eqn:Er. inversion H; subst; clear H.
      apply in_app_or in Ha. destruct Ha as [Ha|Ha].
      * apply in_map_iff in Ha. destruct Ha as [q [Hq Hin]]. exists q. split; [auto|]. exists d, l.
        split; [apply pending_get_in; assumption|assumption].
      * destruct (IH _ _ _ _ _ Er a Ha) as [q [Hq [d' [l' [Hg Hin]]]]].
        exists q. split; [auto|]. exists d', l'. split; [eapply pending_del_in; eauto|assumption].
    + eapply IH; eauto.
Qed.

Lemma release_no_fwd : forall nets pend i src pend' acts,
  release pend i src nets = (pend', acts) -> no_fwd acts /\ (forall s d x, ~ In (Up s d x) acts).
Proof.
  intros nets pend i src pend' acts H. split.
  - intros j d q Hin. destruct (release_spec _ _ _ _ _ _ H _ Hin) as [q' [Hq _]]. discriminate.
  - intros s d x Hin. destruct (release_spec _ _ _ _ _ _ H _ Hin) as [q' [Hq _]]. discriminate.
Qed.

Lemma nse_i_am_spec : forall n i ai src nets n' acts,
  nse_i_am n i ai src nets = (n', acts) ->
  adapters n' = adapters n /\ has_app n' = has_app n /\
  rcache n' = cache_update (rcache n) (a_net ai) src nets /\
  no_fwd acts /\ (forall s d x, ~ In (Up s d x) acts).
Proof.
  intros n i ai src nets n' acts H. unfold nse_i_am in H.
  destruct (release (pending (set_cache n (cache_update (rcache n) (a_net ai) src nets))) i src nets)
    as [pe ac] eqn:Er.
  inversion H; subst; clear H. cbn. repeat split.
  - apply no_fwd_app; [|apply (release_no_fwd _ _ _ _ _ _ Er)].
    destruct (is_router n); [apply no_fwd_map_tx; intro; reflexivity|apply no_fwd_nil].
  - intros s d x Hin. apply in_app_or in Hin. destruct Hin as [Hin|Hin].
    + destruct (is_router n); [|inversion Hin].
      apply in_map_iff in Hin. destruct Hin as [? [? _]]. discriminate.
    + eapply (proj2 (release_no_fwd _ _ _ _ _ _ Er)); eauto.
Qed.

Ltac dmatch H :=
  repeat match type of H with
  | context [match ?x with _ => _ end] => destruct x eqn:?
  | context [if ?x then _ else _] => destruct x eqn:?
  end.

Ltac split_in Hin :=
  repeat match type of Hin with
  | In _ (_ ++ _) => apply in_app_or in Hin; destruct Hin as [Hin|Hin]
  | In _ (_ :: _) => destruct Hin as [Hin|Hin]; [try discriminate|]
  | In _ [] => inversion Hin
  end.

Lemma process_npdu_fwd_origin : forall n i src dst p n' acts j d q,
  process_npdu n i src dst p = (n', acts) -> In (Fwd j d q) acts ->
  exists ai dd, nth_adapter n i = Some ai /\ n_dadr p = Some dd /\
                In (Fwd j d q) (forward n' i ai src p dd).
Proof.
  intros n i src dst p n' acts j d q H Hin. unfold process_npdu in H.
  destruct (nth_adapter n i) as [ai|] eqn:Ea; [|inversion H; subst; split_in Hin].
  destruct (negb (modelled_config n)); [inversion H; subst; split_in Hin|].
  match type of H with (if ?s then _ else _) = _ => destruct s end; [inversion H; subst; split_in Hin|].
  match type of H with context [match ?dec with Err _ => _ | Ok _ => _ end] => destruct dec as [[[pl fw]|]|e] end;
    [| inversion H; subst; split_in Hin | inversion H; subst; split_in Hin].
  destruct (n_msg p) as [t|] eqn:Em.
  - destruct pl.
    + destruct (negb (known_msg t)); [inversion H; subst; split_in Hin|].
      destruct (t =? 0).
      * destruct (dec_who_is (n_data p)) as [w|e]; [|inversion H; subst; split_in Hin].
        match type of H with context [nse_who_is ?a ?b ?c ?dd ?e ?f] => destruct (nse_who_is a b c dd e f) as [n2 ac] eqn:Ew end.
        destruct (nse_who_is_spec _ _ _ _ _ _ _ _ Ew) as (Hn & Hnf & _). inversion H; subst; clear H.
        apply in_app_or in Hin. destruct Hin as [Hin|Hin]; [exfalso; eapply Hnf; eauto|].
        destruct (n_dadr p) as [dd|]; [|inversion Hin]. destruct fw; [|inversion Hin].
        exists ai, dd. auto.
      * destruct (t =? 1); [|inversion H; subst; split_in Hin].
        destruct (dec_i_am (n_data p)) as [nets|e]; [|inversion H; subst; split_in Hin].
        match type of H with context [nse_i_am ?a ?b ?c ?dd ?e] => destruct (nse_i_am a b c dd e) as [n2 ac] eqn:Ew end.
        destruct (nse_i_am_spec _ _ _ _ _ _ _ Ew) as (_ & _ & _ & Hnf & _). inversion H; subst; clear H.
        apply in_app_or in Hin. destruct Hin as [Hin|Hin]; [exfalso; eapply Hnf; eauto|].
        destruct (n_dadr p) as [dd|]; [|inversion Hin]. destruct fw; [|inversion Hin].
        exists ai, dd. auto.
    + inversion H; subst; clear H.
      destruct (n_dadr p) as [dd|]; [|inversion Hin]. destruct fw; [|inversion Hin]. exists ai, dd. auto.
  - match type of H with (if ?c then _ else _) = _ => destruct c end.
    + destruct (negb (apdu_ok (n_data p))); [inversion H; subst; split_in Hin|].
      inversion H; subst; clear H. destruct Hin as [Hin|Hin]; [discriminate|].
      destruct (n_dadr p) as [dd|]; [|inversion Hin]. destruct fw; [|inversion Hin]. exists ai, dd. auto.
    + inversion H; subst; clear H.
      destruct (n_dadr p) as [dd|]; [|inversion Hin]. destruct fw; [|inversion Hin]. exists ai, dd. auto.
Qed.

(* ---- the local adapter exists *)
Lemma last_with_addr_range : forall l i acc k,
  last_with_addr l i acc = Some k -> acc = Some k \/ (i <= k < i + length l)%nat.
Proof.
  induction l as [|a r IH]; cbn [last_with_addr length]; intros i acc k H; [left; assumption|].
  apply IH in H. destruct H as [H|H]; [|right; lia].
  destruct (a_mac a); [inversion H; subst; right; lia|left; assumption].
Qed.

Lemma local_idx_lt : forall n, adapters n <> [] -> (local_idx n < length (adapters n))%nat.
Proof.
  intros n Hne. unfold local_idx.
  destruct (last_with_addr (adapters n) 0 None) as [k|] eqn:E.
  - apply last_with_addr_range in E. destruct E as [E|E]; [discriminate|lia].
  - destruct (adapters n); [congruence|cbn; lia].
Qed.

Lemma local_adapter_exists : forall n i ai, nth_adapter n i = Some ai ->
  exists la, nth_adapter n (local_idx n) = Some la.
Proof.
  intros n i ai H. unfold nth_adapter in *.
  assert (adapters n <> []) by (intro E; rewrite E in H; destruct i; discriminate).
  destruct (nth_error (adapters n) (local_idx n)) eqn:E; [eauto|].
  apply nth_error_None in E. pose proof (local_idx_lt n H0). lia.
Qed.

Lemma list_eqb_N_eq : forall a b : list N, list_eqb N.eqb a b = true -> a = b.
Proof.
  induction a as [|x a IH]; destruct b as [|y b]; cbn; intro H; try discriminate; [reflexivity|].
  apply andb_prop in H. destruct H as [H1 H2]. apply N.eqb_eq in H1. f_equal; auto.
Qed.

Lemma mac_eqb_eq : forall a b, mac_eqb a b = true -> a = b.
Proof. exact list_eqb_N_eq. Qed.

Lemma optN_eqb_some : forall x o, optN_eqb (Some x) o = true -> o = Some x.
Proof. intros x [y|]; cbn; intro H; [apply N.eqb_eq in H; subst; reflexivity|discriminate]. Qed.

Lemma forward_no_up : forall n i ai src p dd s d x, ~ In (Up s d x) (forward n i ai src p dd).
Proof.
  intros n i ai src p dd s d x H. unfold forward in H.
  dmatch H; split_in H;
  try (apply in_map_iff in H; destruct H as [? [? _]]; discriminate).
Qed.

(* what is handed to the application, and when *)
Definition shown_source (n : node) (i : nat) (ai : adapter) (src : mac) (p : npdu) : addr :=
  match n_sadr p with
  | Some (sn, sm) => ARS sn sm
  | None => if is_router n && negb (Nat.eqb i (local_idx n))
            then match a_net ai with Some inet => ARS inet src | None => ANone end
            else ALS src
  end.

Ltac no_up_tail Hin :=
  match type of Hin with
  | In _ match ?dd with Some _ => _ | None => _ end =>
      destruct dd; [|inversion Hin];
      match type of Hin with In _ (if ?fw then _ else _) => destruct fw; [|inversion Hin] end;
      exfalso; eapply forward_no_up; eauto
  end.

Lemma process_npdu_up : forall n i src dst p n' acts s d x,
  process_npdu n i src dst p = (n', acts) -> In (Up s d x) acts ->
  exists ai la, nth_adapter n i = Some ai /\ nth_adapter n (local_idx n) = Some la /\
    x = n_data p /\ n_msg p = None /\ has_app n = true /\ s = shown_source n i ai src p /\
    match n_dadr p with
    | None => i = local_idx n
    | Some (DStation dnet m) => a_net la = Some dnet /\ a_mac la = Some m
    | Some (DBcast dnet) => a_net la = Some dnet
    | Some DGlobal => True
    end.
Proof.
  intros n i src dst p n' acts s d x H Hin. unfold process_npdu in H.
  destruct (nth_adapter n i) as [ai|] eqn:Ea; [|inversion H; subst; split_in Hin].
  destruct (local_adapter_exists _ _ _ Ea) as [la Hla]. rewrite Hla in H.
  destruct (negb (modelled_config n)); [inversion H; subst; split_in Hin|].
  match type of H with (if ?s then _ else _) = _ => destruct s end; [inversion H; subst; split_in Hin|].
  exists ai, la.
  destruct (n_msg p) as [t|] eqn:Em.
  - exfalso.
    match type of H with context [match ?dec with Err _ => _ | Ok _ => _ end] => destruct dec as [[[pl fw]|]|e] end;
      [| inversion H; subst; split_in Hin | inversion H; subst; split_in Hin].
    destruct pl; [|inversion H; subst; clear H; no_up_tail Hin].
    destruct (negb (known_msg t)); [inversion H; subst; split_in Hin|].
    destruct (t =? 0).
    + destruct (dec_who_is (n_data p)) as [w|e]; [|inversion H; subst; split_in Hin].
      match type of H with context [nse_who_is ?a ?b ?c ?dd ?e ?f] => destruct (nse_who_is a b c dd e f) as [n2 ac] eqn:Ew end.
      destruct (nse_who_is_spec _ _ _ _ _ _ _ _ Ew) as (_ & _ & Hnu). inversion H; subst; clear H.
      apply in_app_or in Hin. destruct Hin as [Hin|Hin]; [eapply Hnu; eauto|]. no_up_tail Hin.
    + destruct (t =? 1); [|inversion H; subst; split_in Hin].
      destruct (dec_i_am (n_data p)) as [nets|e]; [|inversion H; subst; split_in Hin].
      match type of H with context [nse_i_am ?a ?b ?c ?dd ?e] => destruct (nse_i_am a b c dd e) as [n2 ac] eqn:Ew end.
      destruct (nse_i_am_spec _ _ _ _ _ _ _ Ew) as (_ & _ & _ & _ & Hnu). inversion H; subst; clear H.
      apply in_app_or in Hin. destruct Hin as [Hin|Hin]; [eapply Hnu; eauto|]. no_up_tail Hin.
  - assert (Hs : forall n1, is_router n1 = is_router n -> local_idx n1 = local_idx n ->
                 shown_source n i ai src p =
                 match n_sadr p with
                 | Some (sn, sm) => ARS sn sm
                 | None => if is_router n1 && negb (Nat.eqb i (local_idx n1))
                           then match a_net ai with Some inet => ARS inet src | None => ANone end
                           else ALS src end).
    { intros n1 E1 E2. unfold shown_source. rewrite E1, E2. reflexivity. }
    destruct (n_sadr p) as [[sn sm]|] eqn:Es;
    destruct (n_dadr p) as [[|dn|dn m]|] eqn:Ed; cbn [fst snd] in H;
    dmatch H; inversion H; subst; clear H;
    try solve [split_in Hin];
    try solve [exfalso; destruct Hin as [Hin|Hin]; [discriminate|]; eapply forward_no_up; eauto];
    try solve [exfalso; eapply forward_no_up; eauto].
    all: destruct Hin as [Hin|Hin]; [|try solve [inversion Hin]; try solve [exfalso; eapply forward_no_up; eauto]].
    all: inversion Hin; subst; clear Hin.
    all: repeat match goal with
         | H : (if ?c then _ else _) = _ |- _ => destruct c eqn:?; try discriminate
         | H : match ?c with Some _ => _ | None => _ end = _ |- _ => destruct c eqn:?; try discriminate
         | H : Ok _ = Ok _ |- _ => inversion H; subst; clear H
         end.
    all: cbn [has_app set_cache adapters is_router local_idx] in *.
    all: repeat split; auto; try congruence.
    all: try (unfold shown_source; rewrite Es;
              try match goal with H : ?c = _ |- context [if ?c then _ else _] => rewrite H end;
              try match goal with H : a_net _ = _ |- _ => rewrite H end; reflexivity).
    all: repeat match goal with
         | H : _ && _ = true |- _ => apply andb_prop in H; destruct H
         | H : _ || false = true |- _ => rewrite orb_false_r in H
         | H : optN_eqb (Some _) _ = true |- _ => apply optN_eqb_some in H
         | H : mac_eqb _ _ = true |- _ => apply mac_eqb_eq in H
         | H : Nat.eqb _ _ = true |- _ => apply Nat.eqb_eq in H
         end; try congruence; auto.
    all: repeat match goal with
         | H : match a_net ?l with Some _ => _ | None => _ end = true |- _ =>
             destruct (a_net l) eqn:?; [apply N.eqb_eq in H; subst|discriminate]
         end; auto.
Qed.

(* =================================================================== the internetwork *)
Lemma run_core : forall k w,
  (nodes (run k w), queue (run k w)) = erun (lans w) k (nodes w, queue w) /\ lans (run k w) = lans w.
Proof.
  induction k as [|k IH]; intro w; cbn [run erun]; [split; reflexivity|].
  unfold step. cbn [fst snd]. destruct (step_core (lans w) (nodes w) (queue w)) as [[[ns q'] os]|] eqn:E.
  - specialize (IH (mkWorld ns (lans w) q' (os ++ trace w))). cbn in IH. exact IH.
  - split; reflexivity.
Qed.

Lemma erun_stuck : forall lns k c, step_core lns (fst c) (snd c) = None -> erun lns k c = c.
Proof. intros lns [|k] c H; cbn [erun]; [reflexivity|rewrite H; reflexivity]. Qed.

Lemma erun_add : forall lns a b c, erun lns (a + b) c = erun lns b (erun lns a c).
Proof.
  induction a as [|a IH]; intros b c; cbn [erun Nat.add]; [reflexivity|].
  destruct (step_core lns (fst c) (snd c)) as [[[ns q'] os]|] eqn:E.
  - apply IH.
  - symmetry. apply erun_stuck. assumption.
Qed.

Lemma erun_period : forall lns m c, erun lns m c = c -> forall k, erun lns (k * m) c = c.
Proof.
  intros lns m c H. induction k as [|k IH]; [reflexivity|].
  cbn [Nat.mul]. rewrite erun_add, H. exact IH.
Qed.

(* a state that recurs after m > 0 steps with a non-empty queue all along never quiesces *)
Lemma lasso_never_quiet : forall lns m c,
  (0 < m)%nat -> erun lns m c = c ->
  (forall b, (b < m)%nat -> snd (erun lns b c) <> []) ->
  forall k, snd (erun lns k c) <> [].
Proof.
  intros lns m c Hm Hp Hq k.
  rewrite (Nat.div_mod k m) by lia. rewrite (Nat.mul_comm m (k / m)).
  rewrite erun_add, erun_period by assumption.
  apply Hq. apply Nat.mod_upper_bound. lia.
Qed.

Lemma forall_lt_forallb : forall (P : nat -> bool) m,
  forallb P (seq 0 m) = true -> forall b, (b < m)%nat -> P b = true.
Proof.
  intros P m H b Hb. rewrite forallb_forall in H. apply H. apply in_seq. lia.
Qed.

(* three routers in a ring (networks 1,2,3; one station each); station 3 = the one on network 1 *)
Definition ring3 : world :=
  mkWorld
    [mkW (mkNode [mkAd (Some 1) (Some [101]); mkAd (Some 2) (Some [101])] false [] []) [(1, [101]); (2, [101])];
     mkW (mkNode [mkAd (Some 2) (Some [102]); mkAd (Some 3) (Some [102])] false [] []) [(2, [102]); (3, [102])];
     mkW (mkNode [mkAd (Some 3) (Some [103]); mkAd (Some 1) (Some [103])] false [] []) [(3, [103]); (1, [103])];
     mkW (mkNode [mkAd (Some 1) (Some [1])] true [] []) [(1, [1])];
     mkW (mkNode [mkAd (Some 2) (Some [1])] true [] []) [(2, [1])];
     mkW (mkNode [mkAd (Some 3) (Some [1])] true [] []) [(3, [1])]]
    [(1, [(0, 0); (2, 1); (3, 0)]%nat); (2, [(0, 1); (1, 0); (4, 0)]%nat); (3, [(1, 1); (2, 0); (5, 0)]%nat)]
    [] [].

Definition ring3_send : world := submit ring3 3 (ARS 3 [1]) [16; 99; 7].

Lemma ring3_lasso :
  let c9 := erun (lans ring3) 9 (nodes ring3_send, queue ring3_send) in
  erun (lans ring3) 3 c9 = c9 /\
  forallb (fun b => negb (Nat.eqb (length (snd (erun (lans ring3) b c9))) 0)) (seq 0 3) = true /\
  forallb (fun b => negb (Nat.eqb (length (snd (erun (lans ring3) b (nodes ring3_send, queue ring3_send)))) 0)) (seq 0 9) = true.
Proof. vm_compute. repeat split; reflexivity. Qed.

Lemma ring3_never_quiet : forall k, queue (run k ring3_send) <> [].
Proof.
  intro k. destruct (run_core k ring3_send) as [Hc _].
  assert (Hq : queue (run k ring3_send) = snd (erun (lans ring3_send) k (nodes ring3_send, queue ring3_send)))
    by (rewrite <- Hc; reflexivity).
  rewrite Hq. change (lans ring3_send) with (lans ring3).
  destruct ring3_lasso as (Hp & Hb & Ha).
  destruct (Nat.lt_ge_cases k 9) as [Hk|Hk].
  - pose proof (forall_lt_forallb _ _ Ha k Hk) as H. cbn beta in H.
    intro E. rewrite E in H. discriminate.
  - replace k with (9 + (k - 9))%nat by lia. rewrite erun_add.
    apply (lasso_never_quiet (lans ring3) 3); [lia|exact Hp|].
    intros b Hb'. pose proof (forall_lt_forallb _ _ Hb b Hb') as H. cbn beta in H.
    intro E. rewrite E in H. discriminate.
Qed.

(* the payload itself is delivered exactly once, to the addressee, during the first steps *)
Lemma ring3_payload_delivered :
  filter (fun o => match o with OUp _ _ _ _ => true | _ => false end) (trace (run 12 ring3_send))
  = [OUp 5 (ARS 1 [1]) (ALS [1]) [16; 99; 7]].
Proof. vm_compute. reflexivity. Qed.

(* ---- what leaves a node other than forwarded copies: network-layer messages and released parked packets *)
Definition parked (n : node) (q : npdu) : Prop := exists d l, In (d, l) (pending n) /\ In q l.

Lemma forward_tx : forall n i ai src p dd j d q,
  In (Tx j d q) (forward n i ai src p dd) -> n_msg q = Some 0 /\ j <> i /\ d = LBcast.
Proof.
  intros n i ai src p dd j d q H. unfold forward in H.
  dmatch H; split_in H;
  try (apply in_map_iff in H; destruct H as [x [Hx Hin]]; inversion Hx; subst;
       repeat split; auto; eapply other_ports_neq; eauto).
Qed.

Lemma nse_who_is_tx : forall n i ai src p w n' acts j d q,
  nse_who_is n i ai src p w = (n', acts) -> In (Tx j d q) acts -> n_msg q <> None.
Proof.
  intros n i ai src p w n' acts j d q H Hin. unfold nse_who_is in H.
  dmatch H; inversion H; subst; clear H; split_in Hin;
  try (inversion Hin; subst; cbn; discriminate);
  try (apply in_map_iff in Hin; destruct Hin as [x [Hx _]]; inversion Hx; subst; cbn; discriminate).
Qed.

Lemma nse_i_am_tx : forall n i ai src nets n' acts j d q,
  nse_i_am n i ai src nets = (n', acts) -> In (Tx j d q) acts -> n_msg q <> None \/ parked n q.
Proof.
  intros n i ai src nets n' acts j d q H Hin. unfold nse_i_am in H.
  destruct (release (pending (set_cache n (cache_update (rcache n) (a_net ai) src nets))) i src nets)
    as [pe ac] eqn:Er.
  inversion H; subst; clear H. apply in_app_or in Hin. destruct Hin as [Hin|Hin].
  - left. destruct (is_router n); [|inversion Hin].
    apply in_map_iff in Hin. destruct Hin as [x [Hx _]]. inversion Hx; subst. cbn. discriminate.
  - right. destruct (release_spec _ _ _ _ _ _ Er _ Hin) as [q' [Hq [d' [l [Hl Hql]]]]].
    inversion Hq; subst. exists d', l. split; assumption.
Qed.

Lemma process_npdu_tx : forall n i src dst p n' acts j d q,
  process_npdu n i src dst p = (n', acts) -> In (Tx j d q) acts -> n_msg q <> None \/ parked n q.
Proof.
  intros n i src dst p n' acts j d q H Hin. unfold process_npdu in H.
  assert (Hf : forall nx ai dd, In (Tx j d q) (forward nx i ai src p dd) -> n_msg q <> None \/ parked n q).
  { intros nx ai dd Hx. left. apply forward_tx in Hx. destruct Hx as [Hx _]. rewrite Hx. discriminate. }
  assert (Hft : forall nx ai fw,
     In (Tx j d q) match n_dadr p with Some dd => if fw : bool then forward nx i ai src p dd else [] | None => [] end ->
     n_msg q <> None \/ parked n q).
  { intros nx ai fw Hx. destruct (n_dadr p); [|inversion Hx]. destruct fw; [|inversion Hx]. eapply Hf; eauto. }
  destruct (nth_adapter n i) as [ai|] eqn:Ea; [|inversion H; subst; split_in Hin].
  destruct (negb (modelled_config n)); [inversion H; subst; split_in Hin|].
  match type of H with (if ?s then _ else _) = _ => destruct s end; [inversion H; subst; split_in Hin|].
  match type of H with context [match ?dec with Err _ => _ | Ok _ => _ end] => destruct dec as [[[pl fw]|]|e] end;
    [| inversion H; subst; split_in Hin | inversion H; subst; split_in Hin].
  destruct (n_msg p) as [t|] eqn:Em.
  - destruct pl; [|inversion H; subst; clear H; eapply Hft; eauto].
    destruct (negb (known_msg t)); [inversion H; subst; split_in Hin|].
    destruct (t =? 0).
    + destruct (dec_who_is (n_data p)) as [w|e]; [|inversion H; subst; split_in Hin].
      match type of H with context [nse_who_is ?a ?b ?c ?dd ?e ?f] => destruct (nse_who_is a b c dd e f) as [n2 ac] eqn:Ew end.
      inversion H; subst; clear H. apply in_app_or in Hin. destruct Hin as [Hin|Hin]; [|eapply Hft; eauto].
      left. eapply nse_who_is_tx; eauto.
    + destruct (t =? 1); [|inversion H; subst; split_in Hin].
      destruct (dec_i_am (n_data p)) as [nets|e]; [|inversion H; subst; split_in Hin].
      match type of H with context [nse_i_am ?a ?b ?c ?dd ?e] => destruct (nse_i_am a b c dd e) as [n2 ac] eqn:Ew end.
      inversion H; subst; clear H. apply in_app_or in Hin. destruct Hin as [Hin|Hin]; [|eapply Hft; eauto].
      destruct (nse_i_am_tx _ _ _ _ _ _ _ _ _ _ Ew Hin) as [Hx|Hx]; [left; assumption|right].
      destruct Hx as [d' [l [Hl Hq]]]. exists d', l. split; [|assumption].
      destruct (n_sadr p) as [[sn sm]|]; exact Hl.
  - match type of H with (if ?c then _ else _) = _ => destruct c end.
    + destruct (negb (apdu_ok (n_data p))); [inversion H; subst; split_in Hin|].
      inversion H; subst; clear H. destruct Hin as [Hin|Hin]; [discriminate|]. eapply Hft; eauto.
    + inversion H; subst; clear H. eapply Hft; eauto.
Qed.

(* ---- at most one delivery per arriving frame *)
Definition count_up (l : list action) : nat := length (filter is_up l).

Lemma count_up_app : forall a b, count_up (a ++ b) = (count_up a + count_up b)%nat.
Proof. intros. unfold count_up. rewrite filter_app, app_length. reflexivity. Qed.

Lemma count_up_none : forall l, (forall s d x, ~ In (Up s d x) l) -> count_up l = 0%nat.
Proof.
  induction l as [|a l IH]; intro H; [reflexivity|].
  assert (Hl : forall s d x, ~ In (Up s d x) l) by (intros s d x Hin; eapply H; right; eauto).
  unfold count_up in *. cbn [filter]. destruct a; cbn [is_up]; try (apply IH; exact Hl).
  exfalso. eapply H. left. reflexivity.
Qed.

Lemma count_up_tail : forall nx i ai src p fw,
  count_up match n_dadr p with Some dd => if fw : bool then forward nx i ai src p dd else [] | None => [] end = 0%nat.
Proof.
  intros. apply count_up_none. intros s d x H.
  destruct (n_dadr p); [|inversion H]. destruct fw; [|inversion H]. eapply forward_no_up; eauto.
Qed.

Lemma process_npdu_up_once : forall n i src dst p n' acts,
  process_npdu n i src dst p = (n', acts) -> (count_up acts <= 1)%nat.
Proof.
  intros n i src dst p n' acts H. unfold process_npdu in H.
  destruct (nth_adapter n i) as [ai|] eqn:Ea; [|inversion H; subst; cbn; lia].
  destruct (negb (modelled_config n)); [inversion H; subst; cbn; lia|].
  match type of H with (if ?s then _ else _) = _ => destruct s end; [inversion H; subst; cbn; lia|].
  match type of H with context [match ?dec with Err _ => _ | Ok _ => _ end] => destruct dec as [[[pl fw]|]|e] end;
    [| inversion H; subst; cbn; lia | inversion H; subst; cbn; lia].
  destruct (n_msg p) as [t|] eqn:Em.
  - destruct pl; [|inversion H; subst; clear H; rewrite count_up_tail; lia].
    destruct (negb (known_msg t)); [inversion H; subst; cbn; lia|].
    destruct (t =? 0).
    + destruct (dec_who_is (n_data p)) as [w|e]; [|inversion H; subst; cbn; lia].
      match type of H with context [nse_who_is ?a ?b ?c ?dd ?e ?f] => destruct (nse_who_is a b c dd e f) as [n2 ac] eqn:Ew end.
      destruct (nse_who_is_spec _ _ _ _ _ _ _ _ Ew) as (_ & _ & Hnu). inversion H; subst; clear H.
      rewrite count_up_app, count_up_tail, (count_up_none _ Hnu). lia.
    + destruct (t =? 1); [|inversion H; subst; cbn; lia].
      destruct (dec_i_am (n_data p)) as [nets|e]; [|inversion H; subst; cbn; lia].
      match type of H with context [nse_i_am ?a ?b ?c ?dd ?e] => destruct (nse_i_am a b c dd e) as [n2 ac] eqn:Ew end.
      destruct (nse_i_am_spec _ _ _ _ _ _ _ Ew) as (_ & _ & _ & _ & Hnu). inversion H; subst; clear H.
      rewrite count_up_app, count_up_tail, (count_up_none _ Hnu). lia.
  - match type of H with (if ?c then _ else _) = _ => destruct c end.
    + destruct (negb (apdu_ok (n_data p))); [inversion H; subst; cbn; lia|].
      inversion H; subst; clear H.
      change (count_up (Up ?a ?b ?c :: ?r)) with (S (count_up r)).
      rewrite count_up_tail. lia.
    + inversion H; subst; clear H. rewrite count_up_tail; lia.
Qed.

(* ---- parked packets *)
Definition pending_wf (p : list (N * list npdu)) : Prop := NoDup (map fst p).

Lemma pending_add_keys : forall p d x k, In k (map fst (pending_add p d x)) <-> k = d \/ In k (map fst p).
Proof.
  induction p as [|[k0 l0] r IH]; cbn; intros d x k.
  - split; [intros [H|[]]; auto|intros [H|[]]; auto].
  - destruct (N.eqb_spec k0 d); cbn.
    + subst. split; [intros [H|H]; auto|intros [H|[H|H]]; auto].
    + rewrite IH. split; [intros [H|[H|H]]; auto|intros [H|[H|H]]; auto].
Qed.

Lemma pending_add_wf : forall p d x, pending_wf p -> pending_wf (pending_add p d x).
Proof.
  unfold pending_wf. induction p as [|[k0 l0] r IH]; cbn; intros d x H.
  - constructor; [intros []|constructor].
  - inversion H; subst. destruct (N.eqb_spec k0 d); cbn.
    + constructor; assumption.
    + constructor; [|apply IH; assumption].
      intro Hin. apply pending_add_keys in Hin. destruct Hin as [Hin|Hin]; [congruence|contradiction].
Qed.

Lemma pending_del_keys : forall p d k, In k (map fst (pending_del p d)) -> In k (map fst p).
Proof.
  induction p as [|[k0 l0] r IH]; cbn; intros d k H; [assumption|].
  destruct (k0 =? d); cbn in *; [right; assumption|].
  destruct H as [H|H]; [left; assumption|right; eapply IH; eauto].
Qed.

Lemma pending_del_wf : forall p d, pending_wf p -> pending_wf (pending_del p d).
Proof.
  unfold pending_wf. induction p as [|[k0 l0] r IH]; cbn; intros d H; [constructor|].
  inversion H; subst. destruct (k0 =? d); cbn; [assumption|].
  constructor; [|apply IH; assumption]. intro Hin. apply pending_del_keys in Hin. contradiction.
Qed.

Lemma pending_get_none : forall p d, ~ In d (map fst p) -> pending_get p d = None.
Proof.
  induction p as [|[k0 l0] r IH]; cbn; intros d H; [reflexivity|].
  destruct (N.eqb_spec k0 d); [exfalso; apply H; left; assumption|].
  apply IH. intro Hin. apply H. right. assumption.
Qed.

Lemma pending_get_del_same : forall p d, pending_wf p -> pending_get (pending_del p d) d = None.
Proof.
  unfold pending_wf. induction p as [|[k0 l0] r IH]; cbn; intros d H; [reflexivity|].
  inversion H; subst. destruct (N.eqb_spec k0 d); cbn.
  - subst. apply pending_get_none. assumption.
  - destruct (N.eqb_spec k0 d); [contradiction|]. apply IH. assumption.
Qed.

Lemma release_wf : forall nets pend i src pend' acts,
  release pend i src nets = (pend', acts) -> pending_wf pend -> pending_wf pend'.
Proof.
  induction nets as [|d r IH]; intros pend i src pend' acts H Hwf; cbn [release] in H.
  - inversion H; subst. assumption.
  - destruct (pending_get pend d) as [l|].
    + destruct (release (pending_del pend d) i src r) as [pe ac] eqn:Er. inversion H; subst.
      eapply IH; eauto. apply pending_del_wf. assumption.
    + eapply IH; eauto.
Qed.

Lemma dec_i_am_one : forall d, d < 65536 -> dec_i_am (put_short d) = Ok [d].
Proof.
  intros d Hd. unfold put_short, be2. cbn [dec_i_am bind]. f_equal. f_equal. lia.
Qed.

(* an I-Am-Router-To-Network for network d releases the packets parked for d: each exactly once, in order, to
   the announcing router on the adapter the announcement came in on; nothing stays parked for d *)
Lemma i_am_releases_parked : forall n i ai src dst d l n' acts,
  nth_adapter n i = Some ai -> modelled_config n = true -> d < 65536 ->
  pending_wf (pending n) -> pending_get (pending n) d = Some l ->
  process_npdu n i src dst (i_am [d]) = (n', acts) ->
  acts = (if is_router n then map (fun j => Tx j LBcast (i_am [d])) (other_ports n i) else [])
         ++ map (fun q => Tx i (LStation src) q) l
  /\ pending_get (pending n') d = None /\ pending_wf (pending n').
Proof.
  intros n i ai src dst d l n' acts Ha Hm Hd Hwf Hg H.
  unfold process_npdu in H. rewrite Ha, Hm in H. cbn [negb i_am n_sadr n_dadr n_msg n_data] in H.
  rewrite orb_true_r in H. cbn [known_msg N.leb N.compare negb orb] in H.
  change (1 =? 0) with false in H. change (1 =? 1) with true in H. cbv iota in H.
  change (flat_map put_short [d]) with (put_short d ++ []) in H. rewrite app_nil_r in H.
  rewrite (dec_i_am_one d Hd) in H.
  unfold nse_i_am in H. cbn [release pending set_cache] in H. rewrite Hg in H.
  cbn [release] in H. inversion H; subst; clear H. cbn [pending set_pending].
  rewrite !app_nil_r. repeat split.
  - apply pending_get_del_same. assumption.
  - apply pending_del_wf. assumption.
Qed.

(* ---- fan-out of forwarding *)
Lemma filter_len_le : forall {A} (f : A -> bool) l, (length (filter f l) <= length l)%nat.
Proof. induction l as [|a l IH]; cbn; [lia|]. destruct (f a); cbn; lia. Qed.

Lemma other_ports_length : forall n i, (length (other_ports n i) <= length (adapters n))%nat.
Proof.
  intros. unfold other_ports.
  etransitivity; [apply filter_len_le|]. rewrite seq_length. lia.
Qed.

Lemma forward_fanout : forall n i ai src p dd, (length (forward n i ai src p dd) <= S (length (adapters n)))%nat.
Proof.
  intros. unfold forward.
  pose proof (other_ports_length n i) as Ho.
  repeat match goal with
  | |- context [match ?x with _ => _ end] => destruct x eqn:?
  | |- context [if ?x then _ else _] => destruct x eqn:?
  end; cbn [length]; rewrite ?map_length; lia.
Qed.

(* ---- the set of adapters never changes *)
Lemma process_npdu_adapters : forall n i src dst p n' acts,
  process_npdu n i src dst p = (n', acts) -> adapters n' = adapters n.
Proof.
  intros n i src dst p n' acts H. unfold process_npdu in H.
  destruct (nth_adapter n i) as [ai|] eqn:Ea; [|inversion H; subst; reflexivity].
  destruct (negb (modelled_config n)); [inversion H; subst; reflexivity|].
  match type of H with (if ?s then _ else _) = _ => destruct s end; [inversion H; subst; reflexivity|].
  assert (Hn1 : adapters match n_sadr p with
                         | Some (snet, _) => set_cache n (cache_update (rcache n) (a_net ai) src [snet])
                         | None => n end = adapters n) by (destruct (n_sadr p) as [[? ?]|]; reflexivity).
  match type of H with context [match ?dec with Err _ => _ | Ok _ => _ end] => destruct dec as [[[pl fw]|]|e] end;
    [| inversion H; subst; exact Hn1 | inversion H; subst; exact Hn1].
  destruct (n_msg p) as [t|] eqn:Em.
  - destruct pl; [|inversion H; subst; exact Hn1].
    destruct (negb (known_msg t)); [inversion H; subst; exact Hn1|].
    destruct (t =? 0).
    + destruct (dec_who_is (n_data p)) as [w|e]; [|inversion H; subst; exact Hn1].
      match type of H with context [nse_who_is ?a ?b ?c ?dd ?e ?f] => destruct (nse_who_is a b c dd e f) as [n2 ac] eqn:Ew end.
      destruct (nse_who_is_spec _ _ _ _ _ _ _ _ Ew) as (Hn & _). inversion H; subst. exact Hn1.
    + destruct (t =? 1); [|inversion H; subst; exact Hn1].
      destruct (dec_i_am (n_data p)) as [nets|e]; [|inversion H; subst; exact Hn1].
      match type of H with context [nse_i_am ?a ?b ?c ?dd ?e] => destruct (nse_i_am a b c dd e) as [n2 ac] eqn:Ew end.
      destruct (nse_i_am_spec _ _ _ _ _ _ _ Ew) as (Hn & _). inversion H; subst. rewrite Hn. exact Hn1.
  - match type of H with (if ?c then _ else _) = _ => destruct c end.
    + destruct (negb (apdu_ok (n_data p))); inversion H; subst; exact Hn1.
    + inversion H; subst; exact Hn1.
Qed.

Lemma find_path_from_sound : forall l k c dnet j m,
  find_path_from l k c dnet = Some (j, m) ->
  exists a, nth_error l (j - k) = Some a /\ (k <= j)%nat /\ cache_get c (a_net a) dnet = Some m.
Proof.
  induction l as [|a r IH]; cbn; intros k c dnet j m H; [discriminate|].
  destruct (cache_get c (a_net a) dnet) as [m'|] eqn:E.
  - inversion H; subst. exists a. rewrite Nat.sub_diag. cbn. auto.
  - apply IH in H. destruct H as [a' [H1 [H2 H3]]]. exists a'.
    replace (j - k)%nat with (S (j - S k)) by lia. cbn. split; [assumption|split; [lia|assumption]].
Qed.

Lemma find_path_sound : forall n dnet j m, find_path n dnet = Some (j, m) ->
  exists a, nth_adapter n j = Some a /\ cache_get (rcache n) (a_net a) dnet = Some m.
Proof.
  intros n dnet j m H. apply find_path_from_sound in H. destruct H as [a [H1 [_ H3]]].
  rewrite Nat.sub_0_r in H1. exists a. split; assumption.
Qed.

(* =================================================================== statements used by props/C06.v *)
Lemma thm_hop_decrement : forall n i src dst p n' acts j d q,
  process_npdu n i src dst p = (n', acts) -> In (Fwd j d q) acts ->
  n_hop p <> 0 /\ n_hop q + 1 = n_hop p /\ n_data q = n_data p /\ n_msg q = n_msg p.
Proof.
  intros. destruct (process_npdu_fwd_origin _ _ _ _ _ _ _ _ _ _ H H0) as (ai & dd & _ & _ & Hf).
  apply forward_fwd in Hf. destruct Hf as (A & B & C & D & _). repeat split; auto. lia.
Qed.

Lemma thm_no_forward_at_zero : forall n i src dst p n' acts,
  process_npdu n i src dst p = (n', acts) -> n_hop p = 0 -> forall j d q, ~ In (Fwd j d q) acts.
Proof.
  intros n i src dst p n' acts H H0 j d q Hin.
  destruct (thm_hop_decrement _ _ _ _ _ _ _ _ _ _ H Hin) as [A _]. contradiction.
Qed.

Lemma thm_local_stays : forall n i src dst p n' acts,
  process_npdu n i src dst p = (n', acts) -> n_dadr p = None -> forall j d q, ~ In (Fwd j d q) acts.
Proof.
  intros n i src dst p n' acts H H0 j d q Hin.
  destruct (process_npdu_fwd_origin _ _ _ _ _ _ _ _ _ _ H Hin) as (ai & dd & _ & Hd & _). congruence.
Qed.

Lemma thm_not_back : forall n i src dst p n' acts j d q,
  process_npdu n i src dst p = (n', acts) -> In (Fwd j d q) acts ->
  j <> i \/
  exists ai dnet m, nth_adapter n' i = Some ai /\
    (n_dadr p = Some (DBcast dnet) \/ exists mm, n_dadr p = Some (DStation dnet mm)) /\
    find_net n' (Some dnet) = None /\ cache_get (rcache n') (a_net ai) dnet = Some m /\
    d = LStation m /\ n_dadr q = n_dadr p.
Proof.
  intros. destruct (process_npdu_fwd_origin _ _ _ _ _ _ _ _ _ _ H H0) as (ai & dd & Ha & Hd & Hf).
  apply forward_fwd in Hf. destruct Hf as (_ & _ & _ & _ & _ & _ & [Hj|Hj]); [left; assumption|right].
  destruct Hj as (dnet & m & Ht & Hn & Hp & Hdd & Hq).
  apply find_path_sound in Hp. destruct Hp as [a [Hna Hc]].
  exists a, dnet, m. repeat split; auto.
  destruct Ht as [Ht|[mm Ht]]; subst; [left; assumption|right; exists mm; assumption].
Qed.

Lemma thm_not_back_global : forall n i src dst p n' acts j d q,
  process_npdu n i src dst p = (n', acts) -> In (Fwd j d q) acts -> n_dadr p = Some DGlobal -> j <> i.
Proof.
  intros. destruct (thm_not_back _ _ _ _ _ _ _ _ _ _ H H0) as [Hj|Hj]; [assumption|].
  destruct Hj as (ai & dnet & m & _ & [Hd|[mm Hd]] & _); congruence.
Qed.

Lemma thm_not_back_last_leg : forall n i src dst p n' acts j d q,
  process_npdu n i src dst p = (n', acts) -> In (Fwd j d q) acts -> n_dadr q = None -> j <> i.
Proof.
  intros. destruct (thm_not_back _ _ _ _ _ _ _ _ _ _ H H0) as [Hj|Hj]; [assumption|].
  destruct Hj as (ai & dnet & m & _ & [Hd|[mm Hd]] & _ & _ & _ & Hq); congruence.
Qed.

Lemma thm_not_back_unless_cached : forall n i src dst p n' acts j d q,
  process_npdu n i src dst p = (n', acts) -> In (Fwd j d q) acts ->
  (forall ai dnet, nth_adapter n' i = Some ai -> cache_get (rcache n') (a_net ai) dnet = None) -> j <> i.
Proof.
  intros. destruct (thm_not_back _ _ _ _ _ _ _ _ _ _ H H0) as [Hj|Hj]; [assumption|].
  destruct Hj as (ai & dnet & m & Ha & _ & _ & Hc & _). rewrite (H1 _ _ Ha) in Hc. discriminate.
Qed.

Lemma thm_sadr : forall n i src dst p n' acts j d q,
  process_npdu n i src dst p = (n', acts) -> In (Fwd j d q) acts ->
  exists ai inet, nth_adapter n i = Some ai /\ a_net ai = Some inet /\
                  n_sadr q = Some (match n_sadr p with Some s => s | None => (inet, src) end).
Proof.
  intros. destruct (process_npdu_fwd_origin _ _ _ _ _ _ _ _ _ _ H H0) as (ai & dd & Ha & _ & Hf).
  apply forward_fwd in Hf. destruct Hf as (_ & _ & _ & _ & (inet & Hi & Hs) & _).
  exists ai, inet. auto.
Qed.

Lemma thm_fanout : forall n i src dst p n' acts,
  process_npdu n i src dst p = (n', acts) -> (length (filter is_fwd acts) <= S (length (adapters n)))%nat.
Proof.
  intros n i src dst p n' acts H.
  assert (Hno : forall l, no_fwd l -> filter is_fwd l = []).
  { induction l as [|a l IH]; intro Hn; [reflexivity|].
    assert (Hl : no_fwd l) by (intros j d q Hin; eapply Hn; right; eauto).
    cbn. destruct a; cbn; try (apply IH; exact Hl).
    exfalso. eapply Hn. left. reflexivity. }
  assert (Htail : forall nx ai fw, adapters nx = adapters n ->
     (length (filter is_fwd match n_dadr p with Some dd => if fw : bool then forward nx i ai src p dd else [] | None => [] end)
      <= S (length (adapters n)))%nat).
  { intros nx ai fw Hx. destruct (n_dadr p); [|cbn; lia]. destruct fw; [|cbn; lia].
    etransitivity; [apply filter_len_le|]. rewrite <- Hx. apply forward_fanout. }
  pose proof (process_npdu_adapters _ _ _ _ _ _ _ H) as Had.
  unfold process_npdu in H.
  destruct (nth_adapter n i) as [ai|] eqn:Ea; [|inversion H; subst; cbn; lia].
  destruct (negb (modelled_config n)); [inversion H; subst; cbn; lia|].
  match type of H with (if ?s then _ else _) = _ => destruct s end; [inversion H; subst; cbn; lia|].
  match type of H with context [match ?dec with Err _ => _ | Ok _ => _ end] => destruct dec as [[[pl fw]|]|e] end;
    [| inversion H; subst; cbn; lia | inversion H; subst; cbn; lia].
  destruct (n_msg p) as [t|] eqn:Em.
  - destruct pl; [|inversion H; subst; clear H; apply Htail; assumption].
    destruct (negb (known_msg t)); [inversion H; subst; cbn; lia|].
    destruct (t =? 0).
    + destruct (dec_who_is (n_data p)) as [w|e]; [|inversion H; subst; cbn; lia].
      match type of H with context [nse_who_is ?a ?b ?c ?dd ?e ?f] => destruct (nse_who_is a b c dd e f) as [n2 ac] eqn:Ew end.
      destruct (nse_who_is_spec _ _ _ _ _ _ _ _ Ew) as (_ & Hnf & _). inversion H; subst; clear H.
      rewrite filter_app, (Hno _ Hnf). apply Htail; assumption.
    + destruct (t =? 1); [|inversion H; subst; cbn; lia].
      destruct (dec_i_am (n_data p)) as [nets|e]; [|inversion H; subst; cbn; lia].
      match type of H with context [nse_i_am ?a ?b ?c ?dd ?e] => destruct (nse_i_am a b c dd e) as [n2 ac] eqn:Ew end.
      destruct (nse_i_am_spec _ _ _ _ _ _ _ Ew) as (_ & _ & _ & Hnf & _). inversion H; subst; clear H.
      rewrite filter_app, (Hno _ Hnf). apply Htail; assumption.
  - match type of H with (if ?c then _ else _) = _ => destruct c end.
    + destruct (negb (apdu_ok (n_data p))); [inversion H; subst; cbn; lia|].
      inversion H; subst; clear H. cbn [filter is_fwd]. apply Htail; assumption.
    + inversion H; subst; clear H. apply Htail; assumption.
Qed.

(* the LAN hands a unicast frame only to the port whose link address it names *)
Lemma thm_lan_unicast : forall wmac f m, f_dst f = LStation m -> accepts wmac f = true -> wmac = m.
Proof. intros wmac f m Hd H. unfold accepts in H. rewrite Hd in H. apply mac_eqb_eq in H. congruence. Qed.

Lemma thm_lan_no_echo : forall wmac f, f_dst f = LBcast -> f_src f = wmac -> accepts wmac f = false.
Proof.
  intros wmac f Hd Hs. unfold accepts. rewrite Hd, Hs.
  assert (forall a, mac_eqb a a = true).
  { induction a as [|x a IH]; cbn; [reflexivity|]. rewrite N.eqb_refl. exact IH. }
  rewrite H. reflexivity.
Qed.
