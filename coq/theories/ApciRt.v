(* ApciRt.v — run-time vocabulary of the AST translation of apdu.py's header methods
   (translator/gen_apci.py -> coq/gen/ApciFns.v).  Definitions only, no proofs (ApciGenFacts.v).

   An object (APCI / APDU / PDU instance) is a pair: its thirteen header attributes (record
   `apci` of Apci.v) and its pduData (octets).  A translated method takes the attributes and
   pduData of `self` and of its other parameter and returns both objects:
       py_C_m : apci -> list N -> apci -> list N -> res (pyobj * pyobj).
   Python ints are Z; an octet that came out of pdu.get() is N until it meets a Z. *)
From Bac Require Export Base Apci.
Open Scope Z_scope.

Definition pyobj : Set := (apci * list N)%type.

(* self.apduX = v — one setter per attribute of APCI.__init__ *)
Definition set_aType (a : apci) (v : option Z) : apci :=
  mkApci v (aSeg a) (aMor a) (aSA a) (aSrv a) (aNak a) (aSeq a) (aWin a) (aMaxSegs a) (aMaxResp a) (aService a) (aInvokeID a) (aReason a).
Definition set_aSeg (a : apci) (v : option bool) : apci :=
  mkApci (aType a) v (aMor a) (aSA a) (aSrv a) (aNak a) (aSeq a) (aWin a) (aMaxSegs a) (aMaxResp a) (aService a) (aInvokeID a) (aReason a).
Definition set_aMor (a : apci) (v : option bool) : apci :=
  mkApci (aType a) (aSeg a) v (aSA a) (aSrv a) (aNak a) (aSeq a) (aWin a) (aMaxSegs a) (aMaxResp a) (aService a) (aInvokeID a) (aReason a).
Definition set_aSA (a : apci) (v : option bool) : apci :=
  mkApci (aType a) (aSeg a) (aMor a) v (aSrv a) (aNak a) (aSeq a) (aWin a) (aMaxSegs a) (aMaxResp a) (aService a) (aInvokeID a) (aReason a).
Definition set_aSrv (a : apci) (v : option bool) : apci :=
  mkApci (aType a) (aSeg a) (aMor a) (aSA a) v (aNak a) (aSeq a) (aWin a) (aMaxSegs a) (aMaxResp a) (aService a) (aInvokeID a) (aReason a).
Definition set_aNak (a : apci) (v : option bool) : apci :=
  mkApci (aType a) (aSeg a) (aMor a) (aSA a) (aSrv a) v (aSeq a) (aWin a) (aMaxSegs a) (aMaxResp a) (aService a) (aInvokeID a) (aReason a).
Definition set_aSeq (a : apci) (v : option Z) : apci :=
  mkApci (aType a) (aSeg a) (aMor a) (aSA a) (aSrv a) (aNak a) v (aWin a) (aMaxSegs a) (aMaxResp a) (aService a) (aInvokeID a) (aReason a).
Definition set_aWin (a : apci) (v : option Z) : apci :=
  mkApci (aType a) (aSeg a) (aMor a) (aSA a) (aSrv a) (aNak a) (aSeq a) v (aMaxSegs a) (aMaxResp a) (aService a) (aInvokeID a) (aReason a).
Definition set_aMaxSegs (a : apci) (v : option Z) : apci :=
  mkApci (aType a) (aSeg a) (aMor a) (aSA a) (aSrv a) (aNak a) (aSeq a) (aWin a) v (aMaxResp a) (aService a) (aInvokeID a) (aReason a).
Definition set_aMaxResp (a : apci) (v : option Z) : apci :=
  mkApci (aType a) (aSeg a) (aMor a) (aSA a) (aSrv a) (aNak a) (aSeq a) (aWin a) (aMaxSegs a) v (aService a) (aInvokeID a) (aReason a).
Definition set_aService (a : apci) (v : option Z) : apci :=
  mkApci (aType a) (aSeg a) (aMor a) (aSA a) (aSrv a) (aNak a) (aSeq a) (aWin a) (aMaxSegs a) (aMaxResp a) v (aInvokeID a) (aReason a).
Definition set_aInvokeID (a : apci) (v : option Z) : apci :=
  mkApci (aType a) (aSeg a) (aMor a) (aSA a) (aSrv a) (aNak a) (aSeq a) (aWin a) (aMaxSegs a) (aMaxResp a) (aService a) v (aReason a).
Definition set_aReason (a : apci) (v : option Z) : apci :=
  mkApci (aType a) (aSeg a) (aMor a) (aSA a) (aSrv a) (aNak a) (aSeq a) (aWin a) (aMaxSegs a) (aMaxResp a) (aService a) (aInvokeID a) v.

(* an attribute used as a number: None -> TypeError (`None << 4`, `None + 1`, `None < 3`) *)
Definition a_need (o : option Z) : res Z := match o with Some z => Ok z | None => Err TypeErr end.
(* `self.apduType == 3`: None == 3 is False *)
Definition a_oz_eqb (o : option Z) (z : Z) : bool := match o with Some x => x =? z | None => false end.
Definition a_oz_eq (o1 o2 : option Z) : bool :=
  match o1, o2 with Some x, Some y => x =? y | None, None => true | _, _ => false end.
(* `if self.apduSeq:` on a numeric attribute *)
Definition a_oz_truth (o : option Z) : bool := match o with Some x => negb (x =? 0) | None => false end.
Definition a_is_none {A} (o : option A) : bool := match o with None => true | Some _ => false end.
Definition a_nonempty (l : list N) : bool := match l with [] => false | _ => true end.

(* pdu.put(n): comm.PDUData.put, `self.pduData += bytes([n])` *)
Definition a_put (d : list N) (z : Z) : res (list N) := do b <- putz z; Ok (d ++ b).
Definition a_put_field (d : list N) (o : option Z) : res (list N) := do b <- put_field o; Ok (d ++ b).
(* pdu.put_short(n) / put_long(n): struct.pack of n & mask — never refuses *)
Definition a_put_short (z : Z) : list N := put_short (Z.to_N (z mod 65536)).
Definition a_put_long (z : Z) : list N := put_long (Z.to_N (z mod 4294967296)).

(* pdu.get_data(k): comm.PDUData.get_data — `if len(d) < k: raise DecodingError`; d[:k], del d[:k]
   (a negative k slices from the end and never refuses, as Python does) *)
Definition a_get_data (k : Z) (bs : list N) : res (list N * list N) :=
  if k <? 0 then let n := Z.to_nat (Z.max 0 (zlen bs + k)) in Ok (firstn n bs, skipn n bs)
  else get_data (Z.to_N k) bs.

(* shifts by a computed amount: negative shift count -> ValueError *)
Definition a_shiftl (a n : Z) : res Z := if n <? 0 then Err ValueErr else Ok (Z.shiftl a n).
Definition a_shiftr (a n : Z) : res Z := if n <? 0 then Err ValueErr else Ok (Z.shiftr a n).

(* which branches of APCI.decode also do `self.pduData = pdu.pduData` (apdu.py:279,283,297,309,319):
   the PDU types that carry a service payload *)
Definition data_taken (a : apci) : bool :=
  match aType a with
  | Some 0 | Some 1 | Some 3 | Some 5 | Some 7 => true
  | _ => false
  end.
