(* BipLifeFacts.v — lemmas about BipLife.v (one registration, device and BBMD together) and
   three position / history facts about Bip.v that the round-6 seeded changes touch:
   * a renewing device never lets its own expiry timer fire and stays listed, for ANY number of
     renewal rounds (pair_alive, no_expiry_while_renewing);
   * once the renewals stop the device itself gives up at last-ack + (T+30) s (expiry_fires) and
     the BBMD after T+5 ticks (BipFacts.fdt_served_window);
   * one 1 s tick ages EVERY entry exactly once, whatever its position and whatever happens to
     its neighbours (tick_ages_every_entry, tick_listed, same_tick_expiry);
   * a foreign device hands no Original-Broadcast-NPDU to its network layer
     (foreign_drops_original_broadcast). *)
From Coq Require Import ZifyBool ZifyN ZifyNat.
From Bac Require Import Base Bip BipFacts BipLife.
Ltac Zify.zify_post_hook ::= Z.to_euclidean_division_equations.
Open Scope Z_scope.

(* ------------------------------------------------------------------ small facts *)
Lemma step_addr : forall b e, b_addr (fst (bbmd_step b e)) = b_addr b.
Proof.
  intros b e. destruct e as [s d m|d p|]; cbn [bbmd_step fst]; try reflexivity.
  destruct m; cbn [bbmd_confirmation fst b_addr]; try reflexivity.
  destruct (fdt_delete (b_fdt b) a); reflexivity.
Qed.

Lemma run_addr : forall es b, b_addr (bbmd_run b es) = b_addr b.
Proof.
  induction es as [|e r IH]; intros b; [reflexivity|]. unfold bbmd_run. cbn [fold_left].
  fold (bbmd_run (fst (bbmd_step b e)) r). rewrite IH. apply step_addr.
Qed.

Lemma fire_expiry_none : forall t f, f_expire f = None -> fire_expiry t f = f.
Proof. intros t f H. unfold fire_expiry. rewrite H. reflexivity. Qed.

Lemma fire_expiry_ahead : forall t f e, f_expire f = Some e -> t < e -> fire_expiry t f = f.
Proof. intros t f e H L. unfold fire_expiry. rewrite H. assert ((e <=? t) = false) as -> by lia. reflexivity. Qed.

(* the device gives up by itself when the time armed by the last acknowledgement has come *)
Theorem expiry_fires : forall t f e, f_expire f = Some e -> e <= t ->
  f_status (fire_expiry t f) = -1 /\ f_expire (fire_expiry t f) = None /\
  (forall now s d a p, f_bbmd f <> None -> exists b, f_bbmd f = Some b /\
      foreign_confirmation now (fire_expiry t f) s d (Forwarded a p) = Ok (fire_expiry t f, [])) /\
  (forall p, foreign_indication (fire_expiry t f) DBcast p = Ok []).
Proof.
  intros t f e H L. unfold fire_expiry. rewrite H. assert ((e <=? t) = true) as -> by lia.
  unfold foreign_expired. cbn [f_status f_expire]. split; [reflexivity|]. split; [reflexivity|]. split.
  - intros now s d a p Hb. destruct (f_bbmd f) as [b|] eqn:E; [|congruence]. exists b. split; [reflexivity|].
    reflexivity.
  - intros p. reflexivity.
Qed.

(* ------------------------------------------------------------------ one renewal round *)
(* what a round needs and re-establishes.  `ahead`: the device's own expiry, if armed, lies at
   least 30 s beyond the next renewal instant. *)
Definition ahead (f : foreign) : Prop :=
  exists r, f_renew f = Some r /\
            (f_expire f = None \/ exists e, f_expire f = Some e /\ r + 30000 <= e).

Record inv (me : addr) (T : Z) (s : pair) : Prop := mkInv {
  i_bbmd : f_bbmd (p_dev s) = Some (b_addr (p_bbmd s));
  i_ttl : f_ttl (p_dev s) = Some T;
  i_status : f_status (p_dev s) <> -2;
  i_nodup : NoDup (addrs (b_fdt (p_bbmd s)));
  i_ahead : ahead (p_dev s) }.

(* registered and acknowledged: the state after at least one round *)
Record alive (me : addr) (T : Z) (last : list bev) (s : pair) : Prop := mkAlive {
  a_inv : inv me T s;
  a_status : f_status (p_dev s) = 0;
  a_armed : exists r e, f_renew (p_dev s) = Some r /\ f_expire (p_dev s) = Some e /\ r + 30000 <= e;
  a_entry : find (b_fdt (p_bbmd s)) me = Some (mkFdte me (Z.to_N T) (Z.to_N T + 5 - ticks last)) }.

Lemma find_addr : forall t a x, find t a = Some x -> fd_addr x = a.
Proof.
  induction t as [|e r IH]; intros a x H; cbn [find] in H; [discriminate|].
  destruct (addr_eqb a (fd_addr e)) eqn:E.
  - inversion H; subst. apply addr_eqb_eq in E. congruence.
  - apply IH. exact H.
Qed.

Lemma round_ok : forall me T d es s,
  0 < T < 65536 -> 0 <= d < 30000 -> Forall (quiet me) es -> (ticks es < Z.to_N T + 5)%N ->
  inv me T s ->
  exists s', pair_round me d es s = Ok s' /\ alive me T es s' /\
    (* no expiry fired in this round: the device is the one the round started with, apart from
       the two timers and the status set by the acknowledgement *)
    (exists r, f_renew (p_dev s) = Some r /\ fire_expiry r (p_dev s) = p_dev s /\
               f_renew (p_dev s') = Some (r + T * 1000) /\
               f_expire (p_dev s') = Some (r + d + (T + 30) * 1000)).
Proof.
  intros me T d es [f b] HT Hd Q K [Hb Ht Hs Hn [r [Hr He]]]. cbn [p_dev p_bbmd] in *.
  unfold pair_round. cbn [p_dev p_bbmd]. rewrite Hr.
  assert (fire_expiry r f = f) as F1.
  { destruct He as [He|[e [He L]]]; [apply fire_expiry_none; exact He | apply (fire_expiry_ahead _ _ e He); lia]. }
  rewrite F1. unfold foreign_renew. rewrite Hb, Ht. cbn [bind fst snd].
  assert ((Z.to_N T mod 65536)%N = Z.to_N T) as -> by lia.
  cbn [to_station flat_map app]. rewrite addr_eqb_refl. cbn [app feed_bbmd bbmd_confirmation].
  cbn [to_station flat_map app]. rewrite addr_eqb_refl. cbn [app feed_dev].
  set (f1 := mkForeign (f_status f) (Some (b_addr b)) (Some T) (Some (r + T * 1000)) (f_expire f)).
  assert (fire_expiry (r + d) f1 = f1) as F2.
  { destruct He as [He|[e [He L]]]; [apply (fire_expiry_none (r + d) f1 He) | apply (fire_expiry_ahead (r + d) f1 e He); lia]. }
  rewrite F2. unfold foreign_confirmation, f1. cbn [f_status f_bbmd f_ttl f_renew f_expire].
  assert ((f_status f =? -2) = false) as -> by lia. rewrite addr_eqb_refl. cbn [negb N.eqb bind fst snd].
  eexists. split; [reflexivity|].
  set (b1 := mkBbmd (b_addr b) (b_bdt b) (fdt_register (b_fdt b) me (Z.to_N T)) (b_upper b)).
  assert (NoDup (addrs (b_fdt b1))) as N1 by (apply register_nodup; exact Hn).
  pose proof (fdt_served_window b me (DStation (b_addr b)) (Z.to_N T) es Hn Q) as W.
  cbv zeta in W. cbn [bbmd_step bbmd_confirmation fst] in W. fold b1 in W.
  destruct W as [_ [_ W]]. destruct (W K) as [a' [Ea Fd]]. subst a'.
  split; [|exists r; cbn [p_dev f_renew f_expire]; split; [reflexivity|]; split; [exact F1|]; split; [reflexivity|]; f_equal; lia].
  constructor; cbn [p_dev p_bbmd f_status f_renew f_expire f_bbmd f_ttl].
  - constructor; cbn [p_dev p_bbmd f_status f_renew f_expire f_bbmd f_ttl].
    + rewrite run_addr. reflexivity.
    + reflexivity.
    + lia.
    + apply run_nodup. exact N1.
    + exists (r + T * 1000). split; [reflexivity|]. right. eexists. split; [reflexivity|]. lia.
  - reflexivity.
  - do 2 eexists. split; [reflexivity|]. split; [reflexivity|]. lia.
  - exact Fd.
Qed.

(* ------------------------------------------------------------------ any number of rounds *)
Definition round_fine (me : addr) (T : Z) (x : Z * list bev) : Prop :=
  0 <= fst x < 30000 /\ Forall (quiet me) (snd x) /\ (ticks (snd x) < Z.to_N T + 5)%N.

Theorem pair_alive : forall me T rounds s d es,
  0 < T < 65536 -> inv me T s -> Forall (round_fine me T) (rounds ++ [(d, es)]) ->
  exists s', pair_run me (rounds ++ [(d, es)]) s = Ok s' /\ alive me T es s'.
Proof.
  intros me T rounds. induction rounds as [|[d0 es0] r IH]; intros s d es HT I F.
  - cbn [app] in *. inversion F as [|? ? [Hd [Q K]] _]; subst. cbn [fst snd] in *.
    destruct (round_ok me T d es s HT Hd Q K I) as [s' [E [A _]]].
    exists s'. cbn [pair_run]. rewrite E. cbn [bind]. split; [reflexivity|exact A].
  - cbn [app] in F. inversion F as [|? ? [Hd [Q K]] F']; subst. cbn [fst snd] in *.
    destruct (round_ok me T d0 es0 s HT Hd Q K I) as [s1 [E [A _]]].
    destruct (IH s1 d es HT (a_inv _ _ _ _ A) F') as [s' [E' A']].
    exists s'. cbn [app pair_run]. rewrite E. cbn [bind]. split; [exact E'|exact A'].
Qed.

(* while the renewals go on, the device's own expiry never fires: not at the next renewal
   instant, not while waiting (< 30 s) for the answer *)
Theorem no_expiry_while_renewing : forall me T last s, alive me T last s ->
  exists r, f_renew (p_dev s) = Some r /\
    forall t, t < r + 30000 -> fire_expiry t (p_dev s) = p_dev s /\ f_status (fire_expiry t (p_dev s)) = 0.
Proof.
  intros me T last s A. destruct (a_armed _ _ _ _ A) as [r [e [Hr [He L]]]]. exists r. split; [exact Hr|].
  intros t Lt. rewrite (fire_expiry_ahead t _ e He) by lia. split; [reflexivity|apply (a_status _ _ _ _ A)].
Qed.

(* an alive device is served: the BBMD addresses its forwarded copies to it, the device hands them
   up, and its own broadcasts go to the BBMD as Distribute-Broadcast-To-Network *)
Theorem alive_is_served : forall me T last s o p now d, alive me T last s ->
  In (Down (DStation me) (Forwarded o p)) (snd (bbmd_confirmation (p_bbmd s) o DBcast (OrigBroadcast p))) /\
  foreign_confirmation now (p_dev s) (b_addr (p_bbmd s)) d (Forwarded o p) = Ok (p_dev s, [Up o DBcast p]) /\
  foreign_indication (p_dev s) DBcast p = Ok [Down (DStation (b_addr (p_bbmd s))) (Distribute p)].
Proof.
  intros me T last s o p now d A. pose proof (a_inv _ _ _ _ A) as I.
  split; [|split].
  - apply served_iff_listed. rewrite find_listed, (a_entry _ _ _ _ A). reflexivity.
  - rewrite (foreign_accepts_from_bbmd now _ _ d o p _ (i_bbmd _ _ _ I)).
    rewrite (a_status _ _ _ _ A), addr_eqb_refl. reflexivity.
  - unfold foreign_indication. rewrite (a_status _ _ _ _ A), (i_bbmd _ _ _ I). reflexivity.
Qed.

(* the start: register() on any device that is not mid-way (status whatever, also -2 = after
   unregister()), any table without duplicates *)
Theorem register_gives_inv : forall me T f f' b,
  foreign_register f (b_addr b) T = Ok f' -> NoDup (addrs (b_fdt b)) -> inv me T (mkPair f' b) /\ 0 < T.
Proof.
  intros me T f f' b H N. unfold foreign_register in H. destruct (T <=? 0) eqn:E; [discriminate|].
  inversion H; subst. split; [|lia]. constructor; cbn [p_dev p_bbmd f_bbmd f_ttl f_status f_renew f_expire].
  - reflexivity.
  - reflexivity.
  - destruct (f_status f =? -2) eqn:S; lia.
  - exact N.
  - exists 0. split; [reflexivity|]. left. reflexivity.
Qed.

(* ------------------------------------------------------------------ the 1 s tick, entry by entry *)
Open Scope N_scope.

(* the table after a tick = the entries with more than one second left, in the same order, each one
   second older: nothing is skipped, nothing is aged twice, whatever is removed next to it *)
Theorem tick_ages_every_entry : forall t,
  fdt_tick t = map dec (filter (fun e => 1 <? fd_remain e) t).
Proof.
  induction t as [|e r IH]; [reflexivity|]. rewrite tick_unfold, IH. cbn [filter].
  assert ((0 <? N.pred (fd_remain e)) = (1 <? fd_remain e)) as -> by lia.
  destruct (1 <? fd_remain e); reflexivity.
Qed.

Theorem tick_listed : forall t a,
  listed (fdt_tick t) a = true <-> exists e, In e t /\ fd_addr e = a /\ 1 < fd_remain e.
Proof.
  intros t a. rewrite tick_ages_every_entry, listed_In. unfold addrs. rewrite map_map. cbn [dec fd_addr].
  rewrite in_map_iff. split.
  - intros [e [E I]]. apply filter_In in I. destruct I as [I R]. exists e. repeat split; [exact I|exact E|lia].
  - intros [e [I [E R]]]. exists e. split; [exact E|]. apply filter_In. split; [exact I|lia].
Qed.

(* entries whose time runs out in the same tick all go in that tick *)
Theorem same_tick_expiry : forall t a,
  (forall e, In e t -> fd_addr e = a -> fd_remain e <= 1) -> listed (fdt_tick t) a = false.
Proof.
  intros t a H. destruct (listed (fdt_tick t) a) eqn:L; [|reflexivity].
  apply tick_listed in L. destruct L as [e [I [E R]]]. specialize (H e I E). lia.
Qed.

(* a group of devices registered with the same time-to-live between two ticks: all listed until, and
   all gone from, the same tick T+5 — whatever else happens in between that is quiet for all of them *)
Fixpoint register_all (b : bbmd) (d : dest) (T : N) (srcs : list addr) : bbmd :=
  match srcs with
  | [] => b
  | s :: r => register_all (fst (bbmd_step b (BConf s d (RegisterFD T)))) d T r
  end.

Lemma register_all_spec : forall srcs b d T,
  register_all b d T srcs = bbmd_run b (map (fun s => BConf s d (RegisterFD T)) srcs).
Proof. induction srcs as [|s r IH]; intros; [reflexivity|]. cbn [register_all map]. rewrite IH. reflexivity. Qed.

Lemma run_app : forall es1 es2 b, bbmd_run b (es1 ++ es2) = bbmd_run (bbmd_run b es1) es2.
Proof. intros. unfold bbmd_run. apply fold_left_app. Qed.

Lemma registers_no_tick : forall (d : dest) (T : N) l,
  filter is_tick (map (fun s0 => BConf s0 d (RegisterFD T)) l) = [].
Proof. induction l as [|x l IH]; [reflexivity|]. cbn [map filter is_tick]. exact IH. Qed.

Theorem group_expiry : forall srcs b d T es,
  NoDup (addrs (b_fdt b)) -> NoDup srcs ->
  (forall s, In s srcs -> Forall (quiet s) es) ->
  forall s, In s srcs ->
  listed (b_fdt (bbmd_run (register_all b d T srcs) es)) s = (ticks es <? T + 5).
Proof.
  intros srcs b d T es N ND Q s I.
  apply in_split in I. destruct I as [l1 [l2 ->]].
  rewrite register_all_spec, map_app. cbn [map]. rewrite run_app.
  change (BConf s d (RegisterFD T) :: map (fun s0 => BConf s0 d (RegisterFD T)) l2)
    with ([BConf s d (RegisterFD T)] ++ map (fun s0 => BConf s0 d (RegisterFD T)) l2).
  rewrite run_app. rewrite <- run_app.
  set (b0 := bbmd_run b (map (fun s0 => BConf s0 d (RegisterFD T)) l1)).
  assert (NoDup (addrs (b_fdt b0))) as N0 by (apply run_nodup; exact N).
  assert (Forall (quiet s) (map (fun s0 => BConf s0 d (RegisterFD T)) l2 ++ es)) as Q2.
  { apply Forall_app. split; [|apply Q; apply in_or_app; right; left; reflexivity].
    apply Forall_forall. intros e Ie. apply in_map_iff in Ie. destruct Ie as [x [<- Ix]]. cbn [quiet].
    apply NoDup_remove_2 in ND. intros ->. apply ND. apply in_or_app. right. exact Ix. }
  pose proof (fdt_served_window b0 s d T _ N0 Q2) as W. cbv zeta in W.
  assert (ticks (map (fun s0 => BConf s0 d (RegisterFD T)) l2 ++ es) = ticks es) as Tk.
  { unfold ticks. rewrite filter_app, registers_no_tick. reflexivity. }
  rewrite Tk in W. unfold bbmd_run at 2. cbn [fold_left]. fold (bbmd_run (fst (bbmd_step b0 (BConf s d (RegisterFD T)))) (map (fun s0 => BConf s0 d (RegisterFD T)) l2 ++ es)).
  destruct W as [W1 [W2 _]].
  destruct (ticks es <? T + 5) eqn:E; [apply W1; lia | apply W2; lia].
Qed.

(* ------------------------------------------------------------------ the 16-bit TTL field is a real hypothesis *)
(* TTL 65537: the frame carries 65537 mod 65536 = 1, the BBMD keeps the entry for 1+5 ticks while the
   device, acknowledged, believes in 65537 s *)
Lemma ttl_over_16_bits_witness :
  exists me T f' b d es s',
    foreign_register (mkForeign (-1) None None None None) (b_addr b) T = Ok f' /\
    inv me T (mkPair f' b) /\ round_fine me T (d, es) /\ (65536 <= T)%Z /\
    pair_run me [(d, es)] (mkPair f' b) = Ok s' /\
    f_status (p_dev s') = 0%Z /\ listed (b_fdt (p_bbmd s')) me = false.
Proof.
  exists (mkA 180879400 47808), 65537%Z. eexists.
  exists (mkBbmd (mkA 167837954 47808) [] [] true), 0%Z, [BTick; BTick; BTick; BTick; BTick; BTick]. eexists.
  split; [reflexivity|]. split.
  - apply (register_gives_inv _ 65537%Z (mkForeign (-1) None None None None)); [reflexivity|constructor].
  - split; [split; [cbn; lia|split; [repeat constructor|vm_compute; reflexivity]]|].
    split; [lia|]. split; [vm_compute; reflexivity|]. split; vm_compute; reflexivity.
Qed.

(* ------------------------------------------------------------------ Original-Broadcast at a foreign device *)
(* whatever its state: nothing is handed up, nothing is sent, nothing changes (the copy that counts
   is the Forwarded-NPDU from its BBMD) — and nothing else the device hears on its own wire from a
   station other than its BBMD is handed up as a broadcast *)
Theorem foreign_drops_original_broadcast : forall now f s d p,
  foreign_confirmation now f s d (OrigBroadcast p) = Ok (f, []).
Proof. reflexivity. Qed.

Theorem foreign_up_only_from_bbmd : forall now f s d m f' acts src p,
  foreign_confirmation now f s d m = Ok (f', acts) -> In (Up src DBcast p) acts ->
  (exists a, m = Forwarded a p /\ src = a /\ f_bbmd f = Some s /\ f_status f = 0%Z) \/
  (m = OrigUnicast p /\ d = DBcast /\ src = s).
Proof.
  intros now f s d m f' acts src p H I. destruct m; cbn [foreign_confirmation] in H.
  - destruct (f_status f =? -2)%Z; [inversion H; subst; destruct I|].
    destruct (f_bbmd f); [|discriminate]. destruct (negb (addr_eqb s a)); [inversion H; subst; destruct I|].
    destruct (code =? 0); [destruct (f_ttl f); [|discriminate]|]; inversion H; subst; destruct I.
  - inversion H; subst. cbn [nak In] in I. destruct I as [I|[]]; discriminate.
  - inversion H; subst. cbn [nak In] in I. destruct I as [I|[]]; discriminate.
  - inversion H; subst. cbn [In] in I. destruct I as [I|[]]; discriminate.
  - destruct (negb (f_status f =? 0)%Z) eqn:S; [inversion H; subst; destruct I|].
    destruct (f_bbmd f) as [b|] eqn:B; [|discriminate].
    destruct (negb (addr_eqb s b)) eqn:E; inversion H; subst; [destruct I|].
    cbn [In] in I. destruct I as [I|[]]. inversion I; subst. left. exists src. repeat split.
    + apply negb_false_iff in E. apply addr_eqb_eq in E. congruence.
    + lia.
  - inversion H; subst. cbn [nak In] in I. destruct I as [I|[]]; discriminate.
  - inversion H; subst. cbn [nak In] in I. destruct I as [I|[]]; discriminate.
  - inversion H; subst. cbn [In] in I. destruct I as [I|[]]; discriminate.
  - inversion H; subst. cbn [nak In] in I. destruct I as [I|[]]; discriminate.
  - inversion H; subst. cbn [nak In] in I. destruct I as [I|[]]; discriminate.
  - inversion H; subst. cbn [In] in I. destruct I as [I|[]]. inversion I; subst. right. auto.
  - inversion H; subst. destruct I.
Qed.
