(* Addr.v — executable model of pdu.Address (py34/bacpypes/pdu.py:32-600, with the three
   `fix:` commits of the C18 worktree applied): the regular-expression cascade of
   decode_address as a splitting parser over character codes, __str__, __eq__, _tuple,
   the typed constructors and pack_ip_addr/unpack_ip_addr.  No proofs here.

   Strings are lists of character codes (N).  Domain of the model: ASCII text (for code
   points >= 128 Python's \d / int() also accept non-ASCII decimal digits — not modelled),
   netifaces absent (pdu.netifaces is None in this environment: the interface-name branch
   is dead), digit runs shorter than CPython's 4300-digit int() limit.

   CPython pieces modelled here and pinned by the correspondence only: `re` (the patterns
   below), int(), socket.inet_aton/inet_ntoa (glibc: a leading 0 means octal), struct,
   binascii.hexlify/unhexlify. *)
From Bac Require Import Base.
Open Scope N_scope.

Definition str := list N.

(* ---------------------------------------------------------------- characters, numbers *)
Definition is_digit (c : N) : bool := (48 <=? c) && (c <=? 57).
Definition is_octal (c : N) : bool := (48 <=? c) && (c <=? 55).
Definition is_hex (c : N) : bool :=
  is_digit c || ((65 <=? c) && (c <=? 70)) || ((97 <=? c) && (c <=? 102)).

(* \d+  /  [0-9]+ *)
Definition digits (s : str) : bool :=
  match s with [] => false | _ => forallb is_digit s end.

(* int(s) for a digit string *)
Fixpoint dec_acc (acc : N) (s : str) : N :=
  match s with [] => acc | c :: r => dec_acc (acc * 10 + (c - 48)) r end.
Definition dec_val (s : str) : N := dec_acc 0 s.
Fixpoint oct_acc (acc : N) (s : str) : N :=
  match s with [] => acc | c :: r => oct_acc (acc * 8 + (c - 48)) r end.

(* str(n) *)
Fixpoint dec_aux (fuel : nat) (n : N) (acc : str) : str :=
  let acc' := (48 + n mod 10) :: acc in
  match fuel with
  | O => acc'
  | S f => if n / 10 =? 0 then acc' else dec_aux f (n / 10) acc'
  end.
Definition dec_str (n : N) : str := dec_aux (N.to_nat (N.size n)) n [].
Definition dec_strZ (z : Z) : str :=
  match z with Zneg p => 45 :: dec_str (Npos p) | _ => dec_str (Z.to_N z) end.

(* binascii *)
Definition hexval (c : N) : N :=
  if is_digit c then c - 48 else if 97 <=? c then c - 87 else c - 55.
Fixpoint unhex (s : str) : res (list N) :=
  match s with
  | [] => Ok []
  | a :: r => match r with
              | [] => Err ValueErr                       (* binascii.Error: odd length *)
              | b :: r' => do t <- unhex r'; Ok (hexval a * 16 + hexval b :: t)
              end
  end.
(* debugging.xtob: drop every non-hex character, then unhexlify *)
Definition xtob (s : str) : res (list N) := unhex (filter is_hex s).
Definition hexdigit (d : N) : N := if d <? 10 then 48 + d else 87 + d.
(* debugging.btox *)
Fixpoint btox (l : list N) : str :=
  match l with [] => [] | b :: r => hexdigit (b / 16) :: hexdigit (b mod 16) :: btox r end.

(* (?:[0-9A-Fa-f][0-9A-Fa-f])+ *)
Definition hex_pairs (s : str) : bool :=
  match s with [] => false | _ => N.even (lenN s) && forallb is_hex s end.

Definition str_eqb (a b : str) : bool := list_eqb N.eqb a b.

(* split at the first occurrence of c *)
Fixpoint split_at (c : N) (s : str) : option (str * str) :=
  match s with
  | [] => None
  | x :: r => if x =? c then Some ([], r)
              else match split_at c r with Some (a, b) => Some (x :: a, b) | None => None end
  end.

(* ------------------------------------------------------------------ the patterns *)
Definition starts_0x (s : str) : bool :=
  match s with a :: b :: _ => (a =? 48) && (b =? 120) | _ => false end.
(* _field_address = (\d+)|(0x(HH)+) *)
Definition is_field (s : str) : bool :=
  digits s || (starts_0x s && hex_pairs (skipn 2 s)).

(* \d+\.\d+\.\d+\.\d+ *)
Definition dotted (s : str) : option (str * str * str * str) :=
  match split_at 46 s with
  | None => None
  | Some (a, r1) =>
    match split_at 46 r1 with
    | None => None
    | Some (b, r2) =>
      match split_at 46 r2 with
      | None => None
      | Some (c, d) =>
          if digits a && digits b && digits c && digits d then Some (a, b, c, d) else None
      end
    end
  end.
Definition is_dotted (s : str) : bool := match dotted s with Some _ => true | None => false end.
Definition opt_digits (o : option str) : bool :=
  match o with None => true | Some s => digits s end.

(* _ip_address_port = (\d+\.\d+\.\d+\.\d+)(?::(\d+))? *)
Definition ip_port (s : str) : option (str * option str) :=
  let '(h, p) := match split_at 58 s with None => (s, None) | Some (h, p) => (h, Some p) end in
  if is_dotted h && opt_digits p then Some (h, p) else None.
(* _ip_address_mask_port = (\d+\.\d+\.\d+\.\d+)(?:/(\d+))?(?::(\d+))? *)
Definition ip_mask_port (s : str) : option (str * option str * option str) :=
  let '(hm, p) := match split_at 58 s with None => (s, None) | Some (hm, p) => (hm, Some p) end in
  let '(h, m) := match split_at 47 hm with None => (hm, None) | Some (h, m) => (h, Some m) end in
  if is_dotted h && opt_digits m && opt_digits p then Some (h, m, p) else None.

Inductive pfx := PNone | PNet (n : str) | PStar.
Inductive core := CBcast | CField (f : str) | CIp (h : str) (m p : option str).
Inductive rt := RNone | RField (f : str) | RIp (h : str) (p : option str).

Definition match_core (s : str) : option core :=
  if str_eqb s [42] then Some CBcast
  else if is_field s then Some (CField s)
  else match ip_mask_port s with Some (h, m, p) => Some (CIp h m p) | None => None end.
Definition match_route (s : str) : option rt :=
  if is_field s then Some (RField s)
  else match ip_port s with Some (h, p) => Some (RIp h p) | None => None end.

(* combined_pattern =
   ^(?:(?:([0-9]+)|([*])):)?(?:([*])|FIELD|IP_MASK_PORT)(?:[@](?:FIELD|IP_PORT))?$
   No sub-pattern contains '@'; a prefix is a digit run or "*" (no '.'), whereas a body that
   itself contains ':' must be a dotted quad with port: so splitting at the first '@' and the
   first ':' decides the match exactly as the backtracking engine does. *)
Definition match_combined (s : str) : option (pfx * core * rt) :=
  let '(body, r) := match split_at 64 s with
                    | None => (s, Some RNone)
                    | Some (b, rs) => (b, match_route rs) end in
  match r with
  | None => None
  | Some r =>
    let '(p, cs) := match split_at 58 body with
                    | Some (a, rest) => if digits a then (PNet a, rest)
                                        else if str_eqb a [42] then (PStar, rest)
                                        else (PNone, body)
                    | None => (PNone, body) end in
    match match_core cs with Some c => Some (p, c, r) | None => None end
  end.

(* `$` also matches just before one trailing newline *)
Definition strip_nl (s : str) : str :=
  match s with [] => [] | _ => if last s 0 =? 10 then removelast s else s end.

(* ethernet_re = ^([0-9A-Fa-f][0-9A-Fa-f][:]){5}([0-9A-Fa-f][0-9A-Fa-f])$ *)
Fixpoint eth_groups (n : nat) (s : str) : bool :=
  match n, s with
  | O, [a; b] => is_hex a && is_hex b
  | S k, a :: b :: c :: r => (c =? 58) && is_hex a && is_hex b && eth_groups k r
  | _, _ => false
  end.
Definition is_ethernet (s : str) : bool := eth_groups 5 s.
(* X'(HH)+' *)
Definition is_oldhex (s : str) : bool :=
  match s with
  | a :: b :: r => (a =? 88) && (b =? 39) && (last r 0 =? 39) && hex_pairs (removelast r)
  | _ => false
  end.

(* ------------------------------------------------------------------ addresses *)
Inductive aty := ANull | ALocalBroadcast | ALocalStation | ARemoteBroadcast | ARemoteStation
               | AGlobalBroadcast.
Definition aty_code (t : aty) : Z :=
  match t with ANull => 0 | ALocalBroadcast => 1 | ALocalStation => 2 | ARemoteBroadcast => 3
             | ARemoteStation => 4 | AGlobalBroadcast => 5 end%Z.

(* the IP helper attributes (addrIP, addrMask, addrHost, addrSubnet, addrPort, the host text
   of addrTuple and of addrBroadcastTuple; both tuples carry addrPort) *)
Record ipinfo := mkIp { ipAddr : Z; ipMask : Z; ipHost : option Z; ipSubnet : option Z;
                        ipPort : Z; ipTuple : str; ipBcast : str }.
(* route: the addrAddr of the (always local-station) addrRoute built from "...@route" *)
Record addr := mkAddr { ty : aty; net : option Z; mac : option (list N);
                        route : option (list N); ip : option ipinfo }.

Definition M32 : Z := 4294967295.
Definition be_val (l : list N) : N := fold_left (fun acc b => acc * 256 + b) l 0.

(* glibc inet_aton on one of four parts: leading 0 => octal; value <= 255 *)
Definition aton_part (s : str) : option N :=
  match s with
  | z :: (_ :: _) as r =>
      if z =? 48 then
        if forallb is_octal r then (let v := oct_acc 0 r in if v <=? 255 then Some v else None)
        else None
      else let v := dec_val s in if v <=? 255 then Some v else None
  | _ => let v := dec_val s in if v <=? 255 then Some v else None
  end.
(* socket.inet_aton restricted to \d+.\d+.\d+.\d+ texts (OSError otherwise; the short and
   hexadecimal spellings glibc also accepts are outside the model) *)
Definition inet_aton (s : str) : res (list N) :=
  match dotted s with
  | None => Err OtherErr
  | Some (a, b, c, d) =>
      match aton_part a, aton_part b, aton_part c, aton_part d with
      | Some a', Some b', Some c', Some d' => Ok [a'; b'; c'; d']
      | _, _, _, _ => Err OtherErr
      end
  end.
(* socket.inet_ntoa of four octets *)
Definition inet_ntoa (l : list N) : str :=
  match l with
  | [a; b; c; d] => dec_str a ++ 46 :: dec_str b ++ 46 :: dec_str c ++ 46 :: dec_str d
  | _ => []
  end.

Definition s47808 : str := [52; 55; 56; 48; 56].
Definition s32 : str := [51; 50].
Definition odefault (d : str) (o : option str) : str := match o with Some s => s | None => d end.

(* pdu.py:182-207 (string with dotted quad) *)
Definition ip_from_text (h : str) (m p : option str) : res (list N * ipinfo) :=
  let port := Z.of_N (dec_val (odefault s47808 p)) in
  let len := Z.of_N (dec_val (odefault s32 m)) in
  if (65535 <? port)%Z then Err ValueErr                      (* fix: port out of range *)
  else
    do a4 <- inet_aton h;
    let ipz := Z.of_N (be_val a4) in
    if (32 <? len)%Z then Err ValueErr                        (* negative shift count *)
    else
      let mask := Z.land (Z.shiftl M32 (32 - len)) M32 in
      let host := Z.land ipz (Z.lnot mask) in
      let subnet := Z.land ipz mask in
      let bcast := Z.land (Z.lor subnet (Z.lnot mask)) M32 in
      Ok (a4 ++ be2 (Z.to_N (Z.land port 65535)),
          mkIp ipz mask (Some host) (Some subnet) port h (inet_ntoa (be4 (Z.to_N bcast)))).

(* ------------------------------------------------------------------ __eq__ (pdu.py:483-497) *)
Definition aty_eqb (a b : aty) : bool := (aty_code a =? aty_code b)%Z.
Definition opt_eqb {A} (e : A -> A -> bool) (a b : option A) : bool :=
  match a, b with
  | None, None => true
  | Some x, Some y => e x y
  | _, _ => false
  end.
Definition mac_eqb := opt_eqb (list_eqb N.eqb).

Definition eqb (a b : addr) : bool :=
  aty_eqb (ty a) (ty b) && opt_eqb Z.eqb (net a) (net b) && mac_eqb (mac a) (mac b)
  && match route a, route b with
     | Some r1, Some r2 => list_eqb N.eqb r1 r2
     | _, _ => true
     end.

Inductive host := HStr (s : str) | HInt (z : Z).
(* constructor arguments: int, bytes/bytearray, str, (host, port) tuple, another Address object,
   anything else *)
Inductive arg := AInt (z : Z) | ABytes (l : list N) | AStr (s : str) | ATuple (h : host) (port : Z)
               | AAddr (a : addr) | AOther.

(* pdu.py:366-395 (tuple) *)
Definition ip_from_tuple (h : host) (port : Z) : res (list N * ipinfo) :=
  if (port <? 0)%Z || (65535 <? port)%Z then Err ValueErr     (* fix: port out of range *)
  else
    do at_ <- match h with
              | HStr [] => Ok ([0; 0; 0; 0], [])
              | HStr s => do a4 <- inet_aton s; Ok (a4, s)
              | HInt z => let a4 := be4 (Z.to_N (Z.land z M32)) in Ok (a4, inet_ntoa a4)
              end;
    let '(a4, text) := at_ in
    Ok (a4 ++ be2 (Z.to_N (Z.land port 65535)),
        mkIp (Z.of_N (be_val a4)) M32 None None port text text).

Definition station (m : list N) : addr := mkAddr ALocalStation None (Some m) None None.

Definition net_check (n : str) : res Z :=
  let v := Z.of_N (dec_val n) in if (65535 <=? v)%Z then Err ValueErr else Ok v.

Definition field_mac (f : str) : res (list N) :=
  if starts_0x f then xtob (skipn 2 f)
  else let v := dec_val f in if 256 <=? v then Err ValueErr else Ok [v].

(* "...@route": Address(bytes) / Address(int) / Address((ip, port)) — only its octets matter *)
Definition route_of (r : rt) : res (option (list N)) :=
  match r with
  | RNone => Ok None
  | RField f => do m <- field_mac f; Ok (Some m)
  | RIp h p => do x <- ip_from_tuple (HStr h) (Z.of_N (dec_val (odefault s47808 p)));
               Ok (Some (fst x))
  end.

(* decode_address on a str: pdu.py:94-103 and 128-361 *)
Definition decode_str (s : str) : res addr :=
  if str_eqb s [42] then Ok (mkAddr ALocalBroadcast None None None None)
  else if str_eqb s [42; 58; 42] then Ok (mkAddr AGlobalBroadcast None None None None)
  else
    let t := strip_nl s in
    match match_combined t with
    | Some (p, c, r) =>
        do tn <- match p, c with
                 | PStar, CBcast => Ok (AGlobalBroadcast, None)
                 | PNet n, CBcast => do v <- net_check n; Ok (ARemoteBroadcast, Some v)
                 | PNone, CBcast => Ok (ALocalBroadcast, None)
                 | PNet n, _ => do v <- net_check n; Ok (ARemoteStation, Some v)
                 | PStar, _ => Err ValueErr               (* fix: "*:<station>" refused *)
                 | PNone, _ => Ok (ALocalStation, None)
                 end;
        do mi <- match c with
                 | CBcast => Ok (None, None)
                 | CField f => do m <- field_mac f; Ok (Some m, None)
                 | CIp h m p => do x <- ip_from_text h m p; Ok (Some (fst x), Some (snd x))
                 end;
        do ro <- route_of r;
        Ok (mkAddr (fst tn) (snd tn) (fst mi) ro (snd mi))
    | None =>
        (* legacy patterns; ^\d+$, ^\d+:[*]$, ^\d+:\d+$, ^0x(HH)+$, ^\d+:0x(HH)+$ are
           subsumed by the combined pattern on ASCII text and therefore unreachable *)
        if is_ethernet t then do b <- xtob s; Ok (station b)
        else if is_oldhex t then do b <- xtob (removelast (skipn 2 s)); Ok (station b)
        else match split_at 58 t, split_at 58 s with
             | Some (n, x), Some (_, xs) =>
                 if digits n && is_oldhex x then
                   do v <- net_check n;
                   do b <- xtob (removelast (skipn 2 xs));
                   Ok (mkAddr ARemoteStation (Some v) (Some b) None None)
                 else Err ValueErr
             | _, _ => Err ValueErr
             end
    end.

(* decode_address: pdu.py:88-398.
   The two wildcard tests `addr == "*"` / `addr == "*:*"` (pdu.py:99-107) come BEFORE the dispatch on
   the argument's type and use Python's ==, so every argument type reaches them:
   - str: equal only to the very same text (the tests are at the head of decode_str);
   - int, bytes, bytearray, tuple, float, None, list: never equal to a str (b"*" == "*" is False in
     Python 3), so e.g. the octets 0x2A and 0x2A 0x3A 0x2A are stations, not broadcasts;
   - an Address object: Address.__eq__ coerces the text ("*" -> local broadcast, "*:*" -> global
     broadcast) and compares type, network and octets (a route on one side only is ignored) — a
     broadcast OBJECT is therefore accepted and copied WITHOUT its route; every other Address object
     falls through the isinstance chain to TypeError. *)
Definition bcast_local : addr := mkAddr ALocalBroadcast None None None None.
Definition bcast_global : addr := mkAddr AGlobalBroadcast None None None None.
Definition decode_address (a : arg) : res addr :=
  match a with
  | AStr s => decode_str s
  | AAddr x => if eqb x bcast_local then Ok bcast_local
               else if eqb x bcast_global then Ok bcast_global
               else Err TypeErr
  | AInt z => if (z <? 0)%Z || (256 <=? z)%Z then Err ValueErr else Ok (station [Z.to_N z])
  | ABytes l =>
      Ok (mkAddr ALocalStation None (Some l) None
            (if lenN l =? 6 then
               let ipz := Z.of_N (be_val (firstn 4 l)) in
               Some (mkIp ipz M32 (Some (Z.land ipz (Z.lnot M32))) (Some (Z.land ipz M32))
                          (Z.of_N (be_val (skipn 4 l))) (inet_ntoa (firstn 4 l))
                          (inet_ntoa [255; 255; 255; 255]))
             else None))
  | ATuple h port =>
      do x <- ip_from_tuple h port;
      Ok (mkAddr ALocalStation None (Some (fst x)) None (Some (snd x)))
  | AOther => Err TypeErr
  end.

Definition null_addr : addr := mkAddr ANull None None None None.     (* Address() *)
Definition address1 (a : arg) : res addr := decode_address a.        (* Address(x) *)
(* Address(net, x), pdu.py:72-86 with the range check of the fix *)
Definition address2 (n : Z) (a : arg) : res addr :=
  if (n <? 0)%Z || (65535 <=? n)%Z then Err ValueErr
  else
    do x <- decode_address a;
    match ty x with
    | ALocalStation => Ok (mkAddr ARemoteStation (Some n) (mac x) (route x) (ip x))
    | ALocalBroadcast => Ok (mkAddr ARemoteBroadcast (Some n) (mac x) (route x) (ip x))
    | _ => Err ValueErr
    end.

(* typed constructors, pdu.py:509-607 (route=None) *)
Definition station_mac (a : arg) : res (list N) :=
  match a with
  | AInt z => if (z <? 0)%Z || (256 <=? z)%Z then Err ValueErr else Ok [Z.to_N z]
  | ABytes l => Ok l
  | _ => Err TypeErr
  end.
Definition local_station (a : arg) : res addr :=
  do m <- station_mac a; Ok (station m).
Definition remote_station (n : Z) (a : arg) : res addr :=
  if (n <? 0)%Z || (65535 <=? n)%Z then Err ValueErr
  else do m <- station_mac a; Ok (mkAddr ARemoteStation (Some n) (Some m) None None).
Definition local_broadcast : addr := mkAddr ALocalBroadcast None None None None.
Definition remote_broadcast (n : Z) : res addr :=
  if (n <? 0)%Z || (65535 <=? n)%Z then Err ValueErr
  else Ok (mkAddr ARemoteBroadcast (Some n) None None None).
Definition global_broadcast : addr := mkAddr AGlobalBroadcast None None None None.

(* pack_ip_addr / unpack_ip_addr, pdu.py:493-503 (the & 0xFFFF is in the code) *)
Definition pack_ip_addr (h : str) (port : Z) : res (list N) :=
  do a4 <- inet_aton h; Ok (a4 ++ be2 (Z.to_N (Z.land port 65535))).
Definition unpack_ip_addr (l : list N) : str * N :=
  (inet_ntoa (firstn 4 l), be_val (firstn 2 (skipn 4 l))).

(* ------------------------------------------------------------------ __str__ *)
Definition print_mac (m : option (list N)) : res str :=
  match m with
  | None => Err TypeErr                                   (* None[-2:] *)
  | Some [b] => Ok (dec_str b)
  | Some l =>
      if lenN l <? 2 then Err StructErr                   (* unpack('!H', b'') *)
      else
        let port := be_val (skipn (length l - 2) l) in
        if (lenN l =? 6) && (47808 <=? port) && (port <=? 47823) then
          Ok (inet_ntoa (firstn 4 l) ++ (if port =? 47808 then [] else 58 :: dec_str port))
        else Ok (48 :: 120 :: btox l)
  end.
Definition print_net (n : option Z) : res str :=
  match n with None => Err TypeErr | Some z => Ok (dec_strZ z) end.   (* '%d' % None *)

Definition print (a : addr) : res str :=
  do body <- match ty a with
             | ANull => Ok [78; 117; 108; 108]
             | ALocalBroadcast => Ok [42]
             | ALocalStation => print_mac (mac a)
             | ARemoteBroadcast => do n <- print_net (net a); Ok (n ++ [58; 42])
             | ARemoteStation => do n <- print_net (net a); do m <- print_mac (mac a); Ok (n ++ 58 :: m)
             | AGlobalBroadcast => Ok [42; 58; 42]
             end;
  match route a with
  | None => Ok body
  | Some r => do rs <- print_mac (Some r); Ok (body ++ 64 :: rs)
  end.

(* ------------------------------------------------------------------ _tuple (for __eq__ see above decode_address) *)
(* _tuple(): (addrType, addrNet, addrAddr, route tuple or None); hash(a) = hash(_tuple()) *)
Definition tuple (route_aware : bool) (a : addr) : aty * option Z * option (list N) * option (list N) :=
  (ty a, net a, mac a, if route_aware then route a else None).
Definition tuple_eqb (x y : aty * option Z * option (list N) * option (list N)) : bool :=
  let '(t1, n1, m1, r1) := x in let '(t2, n2, m2, r2) := y in
  aty_eqb t1 t2 && opt_eqb Z.eqb n1 n2 && mac_eqb m1 m2 && mac_eqb r1 r2.

(* ------------------------------------------------------------------ canonical outputs *)
Definition canon_r {A} (f : A -> list Z) (r : res A) : list Z :=
  match r with Ok a => 0%Z :: f a | Err e => [1%Z; err_code e] end.
Definition canon_oz (o : option Z) : list Z := match o with None => [0%Z] | Some z => [1%Z; z] end.
Definition canon_str (s : str) : list Z := zlen s :: zs s.
Definition canon_ol (o : option (list N)) : list Z :=
  match o with None => [(-1)%Z] | Some l => canon_str l end.
Definition canon_ip (o : option ipinfo) : list Z :=
  match o with
  | None => [0%Z]
  | Some i => 1%Z :: ipAddr i :: ipMask i :: canon_oz (ipHost i) ++ canon_oz (ipSubnet i)
              ++ ipPort i :: canon_str (ipTuple i) ++ canon_str (ipBcast i)
  end.
Definition canon_tuple (t : aty * option Z * option (list N) * option (list N)) : list Z :=
  let '(t1, n1, m1, r1) := t in aty_code t1 :: canon_oz n1 ++ canon_ol m1 ++ canon_ol r1.
(* everything observable of one address: fields, addrLen (= length of the octets), route,
   IP attributes, str(), _tuple() under route_aware = false and true *)
Definition canon_addr (a : addr) : list Z :=
  aty_code (ty a) :: canon_oz (net a) ++ canon_ol (mac a) ++ canon_ol (route a) ++ canon_ip (ip a)
  ++ canon_r canon_str (print a) ++ canon_tuple (tuple false a) ++ canon_tuple (tuple true a).
Definition canon_addr_r (r : res addr) : list Z := canon_r canon_addr r.

(* a == b, b == a, _tuple equality (route_aware false / true) of two constructed addresses *)
Definition canon_cmp (ra rb : res addr) : list Z :=
  match ra, rb with
  | Ok a, Ok b => [zb (eqb a b); zb (eqb b a); zb (tuple_eqb (tuple false a) (tuple false b));
                   zb (tuple_eqb (tuple true a) (tuple true b))]
  | _, _ => [(-1)%Z]
  end.
(* parse (str a) *)
Definition reparse (r : res addr) : res addr :=
  do a <- r; do s <- print a; decode_str s.
(* a == x for a non-Address x: x is first coerced by Address(x) (pdu.py:462-464) *)
Definition eq_coerce (ra : res addr) (x : arg) : res bool :=
  do a <- ra; do b <- match x with AAddr b => Ok b | _ => address1 x end; Ok (eqb a b).
(* an Address object as constructor argument (the harness only passes objects that were built) *)
Definition arg_of (r : res addr) : arg := match r with Ok a => AAddr a | Err _ => AOther end.
Definition canon_bool_r (r : res bool) : list Z := canon_r (fun b => [zb b]) r.
Definition canon_pack (r : res (list N)) : list Z := canon_r canon_str r.
Definition canon_unpack (p : str * N) : list Z := canon_str (fst p) ++ [zN (snd p)].

(* decode_address called on an object that already holds state — left by an earlier accepted
   notation, by a REFUSED one (e.g. "5:256" stores network 5 before the station check raises)
   or by a typed constructor: type, network, octets, length and route are reset first
   (pdu.py:91-97), so the result is a function of the argument alone.  (The IP helper attributes
   are not reset by the code: they stay from an earlier IP notation when the new one is not an
   IP form; they take no part in str(), ==, _tuple() and are not compared in that case.) *)
Definition decode_on (history : list arg) (a : arg) : res addr := decode_address a.

(* constructing an address after other addresses were constructed (and possibly modified) in the
   same process: constructors are functions of their arguments alone — there is no module-level
   state (no cache of parsed texts, no shared field objects) that earlier constructions could leave
   behind.  `earlier` is what was built before; the result does not look at it. *)
Definition built_after (earlier : list (res addr)) (r : res addr) : res addr := r.
(* the observations of a sequence of constructions in one process, each made when the object is built *)
Fixpoint canon_seq_from (earlier l : list (res addr)) : list Z :=
  match l with
  | [] => []
  | r :: rest => canon_addr_r (built_after earlier r) ++ canon_seq_from (earlier ++ [r]) rest
  end.
Definition canon_seq (l : list (res addr)) : list Z := canon_seq_from [] l.
