(* BvllFacts.v — lemmas about the BVLL model (Bvll.v). *)
From Bac Require Import Base BytesFacts Bvll.
From Coq Require Import ZifyBool ZifyN ZifyNat.
Ltac Zify.zify_post_hook ::= Z.to_euclidean_division_equations.
Open Scope N_scope.

(* ---- table obligations: re-checked by `make` against what the source says now ---------- *)

(* bvl_pdu_types is exactly { fn_of_kind k |-> k } for the twelve classes *)
Lemma registry_table_exact :
  forallb (fun f => match lookup_fn f bvl_pdu_types with
                    | Some k => (fn_of_kind k =? f) && (f <? 12)
                    | None => 12 <=? f end)
          (map N.of_nat (seq 0 256)) = true
  /\ forallb (fun k => match lookup_fn (fn_of_kind k) bvl_pdu_types with
                       | Some k' => kind_eqb k k' | None => false end) all_kinds = true
  /\ forallb (fun p => fst p <? 12) bvl_pdu_types = true.
Proof. repeat split; vm_compute; reflexivity. Qed.

Definition table_is (t : list (bvl_class * N)) (f : bvl_class -> N) : bool :=
  forallb (fun k => match lookup_kind k t with Some v => v =? f k | None => false end) all_kinds
  && (length t =? 12)%nat.

Lemma ctor_function_table : table_is bvl_ctor_function fn_of_kind = true.
Proof. vm_compute; reflexivity. Qed.
Lemma message_type_table : table_is bvl_message_type fn_of_kind = true.
Proof. vm_compute; reflexivity. Qed.
Lemma ctor_type_table : table_is bvl_ctor_type (fun _ => 129) = true /\ bvlci_type = 129.
Proof. split; vm_compute; reflexivity. Qed.
Lemma ctor_length_table :
  table_is bvl_ctor_length
    (fun k => ctor_len match k with
       | K_Result => Result None
       | K_WriteBroadcastDistributionTable => WriteBDT []
       | K_ReadBroadcastDistributionTable => ReadBDT
       | K_ReadBroadcastDistributionTableAck => ReadBDTAck []
       | K_ForwardedNPDU => Forwarded ANone []
       | K_RegisterForeignDevice => RegisterFD None
       | K_ReadForeignDeviceTable => ReadFDT
       | K_ReadForeignDeviceTableAck => ReadFDTAck []
       | K_DeleteForeignDeviceTableEntry => DeleteFDT ANone
       | K_DistributeBroadcastToNetwork => Distribute []
       | K_OriginalUnicastNPDU => OrigUnicast []
       | K_OriginalBroadcastNPDU => OrigBroadcast []
       end) = true.
Proof. vm_compute; reflexivity. Qed.

(* ---- small facts ----------------------------------------------------------------------- *)
Lemma put_byte n : n < 256 -> put n = Ok [n].
Proof. intros H. unfold put. destruct (n <? 256) eqn:E; [reflexivity|lia]. Qed.

Lemma fn_of_lt m : fn_of m < 12.
Proof. destruct m; cbv; reflexivity. Qed.

Lemma lenN_cons {A} (x : A) l : lenN (x :: l) = 1 + lenN l.
Proof. unfold lenN; cbn [length]; lia. Qed.
Lemma lenN_nil {A} : lenN (@nil A) = 0.
Proof. reflexivity. Qed.
Lemma lenN_be2 n : lenN (be2 n) = 2.
Proof. reflexivity. Qed.
Lemma lenN_be4 n : lenN (be4 n) = 4.
Proof. reflexivity. Qed.

Lemma ctor_len_frame_len m : ctor_len m = frame_len m.
Proof. destruct m; reflexivity. Qed.
Lemma enc_len_ctor m : enc_len (ctor_len m) m = frame_len m.
Proof. destruct m; reflexivity. Qed.

(* ---- the header written by BVLCI.encode ------------------------------------------------- *)
Lemma enc_frame_with_inv stored m bs :
  enc_frame_with stored m = Ok bs ->
  exists body, enc_body m = Ok body /\ enc_len stored m = lenN body + 4 /\
               bs = 129 :: fn_of m :: be2 ((lenN body + 4) mod 65536) ++ body.
Proof.
  unfold enc_frame_with. destruct (enc_body m) as [body|e]; cbn [bind]; [|discriminate].
  change bvlci_type with 129. change (put 129) with (@Ok (list N) [129]). cbn [bind].
  rewrite put_byte by (pose proof (fn_of_lt m); lia). cbn [bind].
  destruct (enc_len stored m =? lenN body + 4) eqn:E; cbn [negb]; [|discriminate].
  intros H; injection H as <-. exists body. repeat split; [lia|].
  cbn [app]. unfold put_short. replace (enc_len stored m) with (lenN body + 4) by lia. reflexivity.
Qed.

Lemma enc_frame_with_ok stored m body :
  enc_body m = Ok body -> enc_len stored m = lenN body + 4 ->
  enc_frame_with stored m = Ok (129 :: fn_of m :: be2 ((lenN body + 4) mod 65536) ++ body).
Proof.
  intros Hb Hl. unfold enc_frame_with. rewrite Hb; cbn [bind].
  change bvlci_type with 129. change (put 129) with (@Ok (list N) [129]). cbn [bind].
  rewrite put_byte by (pose proof (fn_of_lt m); lia). cbn [bind].
  destruct (enc_len stored m =? lenN body + 4) eqn:E; cbn [negb]; [|lia].
  cbn [app]. unfold put_short. rewrite Hl. reflexivity.
Qed.

Lemma enc_frame_with_stale stored m body :
  enc_body m = Ok body -> enc_len stored m <> lenN body + 4 ->
  enc_frame_with stored m = Err EncodingError.
Proof.
  intros Hb Hl. unfold enc_frame_with. rewrite Hb; cbn [bind].
  change bvlci_type with 129. change (put 129) with (@Ok (list N) [129]). cbn [bind].
  rewrite put_byte by (pose proof (fn_of_lt m); lia). cbn [bind].
  destruct (enc_len stored m =? lenN body + 4) eqn:E; cbn [negb]; [lia|reflexivity].
Qed.

(* C09_length_field *)
Lemma length_field stored m bs :
  enc_frame_with stored m = Ok bs -> lenN bs < 65536 ->
  nth 0 bs 0 = 129 /\ nth 1 bs 0 = fn_of m /\ nth 2 bs 0 * 256 + nth 3 bs 0 = lenN bs.
Proof.
  intros H Hlt. apply enc_frame_with_inv in H as (body & _ & _ & ->).
  cbn [nth be2 app]. repeat split.
  rewrite !lenN_cons in *. cbn [be2 app] in Hlt. rewrite !lenN_cons in Hlt. lia.
Qed.

(* frames of 2^16 octets or more: the field holds the length modulo 2^16 *)
Lemma length_field_mod stored m bs :
  enc_frame_with stored m = Ok bs ->
  nth 2 bs 0 * 256 + nth 3 bs 0 = lenN bs mod 65536.
Proof.
  intros H. apply enc_frame_with_inv in H as (body & _ & _ & ->).
  cbn [nth be2 app]. rewrite !lenN_cons. lia.
Qed.

(* ---- BVLCI.decode ----------------------------------------------------------------------- *)
Lemma dec_bvlci_ok f L body :
  L < 65536 -> L = lenN body + 4 ->
  dec_bvlci (129 :: f :: be2 L ++ body) = Ok (f, L, body).
Proof.
  intros HL HE. unfold dec_bvlci. cbn [get bind]. change (129 =? 129) with true. cbn [negb get bind].
  rewrite get_short_be2 by lia. cbn [bind].
  destruct (L =? lenN body + 4) eqn:E; cbn [negb]; [reflexivity|lia].
Qed.

Lemma dec_bvlci_inv bs f l body :
  dec_bvlci bs = Ok (f, l, body) ->
  exists hi lo, bs = 129 :: f :: hi :: lo :: body /\ l = hi * 256 + lo /\ l = lenN bs.
Proof.
  unfold dec_bvlci. destruct bs as [|t r]; cbn [get bind]; [discriminate|].
  destruct (t =? 129) eqn:T; cbn [negb]; [|discriminate].
  destruct r as [|f' r1]; cbn [get bind]; [discriminate|].
  destruct r1 as [|hi [|lo r2]]; cbn [get_short bind]; try discriminate.
  destruct (hi * 256 + lo =? lenN r2 + 4) eqn:E; cbn [negb]; [|discriminate].
  intros H; injection H as <- <- <-. exists hi, lo. repeat split.
  - f_equal. lia.
  - rewrite !lenN_cons. lia.
Qed.

Lemma dec_bvlci_err bs e : dec_bvlci bs = Err e -> e = DecodingError.
Proof.
  unfold dec_bvlci. destruct bs as [|t r]; cbn [get bind]; [congruence|].
  destruct (t =? 129); cbn [negb]; [|congruence].
  destruct r as [|f' r1]; cbn [get bind]; [congruence|].
  destruct r1 as [|hi [|lo r2]]; cbn [get_short bind]; try congruence.
  destruct (hi * 256 + lo =? lenN r2 + 4); cbn [negb]; congruence.
Qed.

Lemma dec_bvlci_type bs : hd_error bs <> Some 129 -> dec_bvlci bs = Err DecodingError.
Proof.
  unfold dec_bvlci. destruct bs as [|t r]; cbn [get bind hd_error]; [reflexivity|].
  intros H. destruct (t =? 129) eqn:T; cbn [negb]; [|reflexivity].
  exfalso; apply H; f_equal; lia.
Qed.

Lemma dec_bvlci_length f hi lo body :
  hi * 256 + lo <> lenN body + 4 -> dec_bvlci (129 :: f :: hi :: lo :: body) = Err DecodingError.
Proof.
  intros H. unfold dec_bvlci. cbn [get bind get_short]. change (129 =? 129) with true. cbn [negb bind].
  destruct (hi * 256 + lo =? lenN body + 4) eqn:E; cbn [negb]; [lia|reflexivity].
Qed.

Lemma dec_bvlci_short bs : (length bs < 4)%nat -> dec_bvlci bs = Err DecodingError.
Proof.
  intros H. unfold dec_bvlci.
  destruct bs as [|t [|f [|hi [|lo r]]]]; cbn [length] in H; try lia; cbn [get bind get_short];
    try reflexivity; destruct (t =? 129); cbn [negb]; reflexivity.
Qed.
