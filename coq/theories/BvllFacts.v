(* BvllFacts.v — lemmas about the BVLL model (Bvll.v). *)
From Bac Require Import Base BytesFacts Bvll.
From Coq Require Import ZifyBool ZifyN ZifyNat.
Ltac Zify.zify_post_hook ::= Z.to_euclidean_division_equations.
Open Scope N_scope.

(* ---- table obligations: re-checked by `make` against what the source says now ---------- *)

(* bvl_pdu_types is exactly { fn_of_kind k |-> k } for the twelve classes *)
Lemma registry_table_exact :
  forallb (fun f => match lookup_fn f bvl_pdu_types with
                    | Some k => (fn_of_kind k =? f) && (f <? 12)
                    | None => 12 <=? f end)
          (map N.of_nat (seq 0 256)) = true
  /\ forallb (fun k => match lookup_fn (fn_of_kind k) bvl_pdu_types with
                       | Some k' => kind_eqb k k' | None => false end) all_kinds = true
  /\ forallb (fun p => fst p <? 12) bvl_pdu_types = true.
Proof. repeat split; vm_compute; reflexivity. Qed.

Definition table_is (t : list (bvl_class * N)) (f : bvl_class -> N) : bool :=
  forallb (fun k => match lookup_kind k t with Some v => v =? f k | None => false end) all_kinds
  && (length t =? 12)%nat.

Lemma ctor_function_table : table_is bvl_ctor_function fn_of_kind = true.
Proof. vm_compute; reflexivity. Qed.
Lemma message_type_table : table_is bvl_message_type fn_of_kind = true.
Proof. vm_compute; reflexivity. Qed.
Lemma ctor_type_table : table_is bvl_ctor_type (fun _ => 129) = true /\ bvlci_type = 129.
Proof. split; vm_compute; reflexivity. Qed.
Lemma ctor_length_table :
  table_is bvl_ctor_length
    (fun k => ctor_len match k with
       | K_Result => Result None
       | K_WriteBroadcastDistributionTable => WriteBDT []
       | K_ReadBroadcastDistributionTable => ReadBDT
       | K_ReadBroadcastDistributionTableAck => ReadBDTAck []
       | K_ForwardedNPDU => Forwarded ANone []
       | K_RegisterForeignDevice => RegisterFD None
       | K_ReadForeignDeviceTable => ReadFDT
       | K_ReadForeignDeviceTableAck => ReadFDTAck []
       | K_DeleteForeignDeviceTableEntry => DeleteFDT ANone
       | K_DistributeBroadcastToNetwork => Distribute []
       | K_OriginalUnicastNPDU => OrigUnicast []
       | K_OriginalBroadcastNPDU => OrigBroadcast []
       end) = true.
Proof. vm_compute; reflexivity. Qed.
