(* Net.v — model of the BACnet network layer of bacpypes (py34/bacpypes/netservice.py):
   NetworkServiceAccessPoint.indication (329-458), .process_npdu (460-695), sap_indication (697-706),
   NetworkServiceElement.WhoIsRouterToNetwork (878-980) and .IAmRouterToNetwork (982-1026), and of the
   virtual LAN that joins the nodes (vlan.py Network.process_pdu 55-77, Node.indication 115-131) as a FIFO
   of frames in flight.  NPDUs are modelled in decoded form (the NPCI codec is property C08).
   No proofs in this file. *)
From Bac Require Import Base.
Open Scope N_scope.

Definition mac := list N.
Definition mac_eqb (a b : mac) : bool := list_eqb N.eqb a b.

(* destination specifier of the NPCI as NPCI.decode builds it (npdu.py:183-196) *)
Inductive dadr := DGlobal | DBcast (net : N) | DStation (net : N) (m : mac).
(* link-level destination of a frame on a LAN *)
Inductive ldest := LBcast | LStation (m : mac).
(* addresses shown to / given by the application layer *)
Inductive addr := ANone | ALB | ALS (m : mac) | ARB (net : N) | ARS (net : N) (m : mac) | AGB.

Record npdu := mkNpdu {
  n_dadr : option dadr;
  n_sadr : option (N * mac);
  n_hop  : N;                   (* meaningful (and on the wire) only when n_dadr is present *)
  n_msg  : option N;            (* None = application-layer message *)
  n_data : list N }.

Record adapter := mkAd { a_net : option N; a_mac : option mac }.

Definition cache := list ((option N * N) * mac).      (* (snet, dnet) -> router MAC; own minimal abstraction *)

Record node := mkNode {
  adapters : list adapter;          (* NetworkServiceAccessPoint.adapters, in bind order *)
  has_app  : bool;                  (* serverPeer bound *)
  rcache   : cache;                 (* router_info_cache.path_info *)
  pending  : list (N * list npdu)   (* pending_nets, in dict insertion order *) }.

Inductive action :=
| Tx (port : nat) (d : ldest) (p : npdu)      (* adapter.process_npdu of a message built here *)
| Fwd (port : nat) (d : ldest) (p : npdu)     (* adapter.process_npdu of a forwarded copy (netservice.py:607-676) *)
| Up (src dst : addr) (data : list N)         (* self.response(apdu) *)
| Raise (e : err)                             (* exception leaves process_npdu / indication *)
| Unmodelled.                                 (* configuration or message type outside the model *)

(* ---- small helpers *)
Definition optN_eqb (a b : option N) : bool :=
  match a, b with Some x, Some y => x =? y | None, None => true | _, _ => false end.

Definition key_eqb (a b : option N * N) : bool := optN_eqb (fst a) (fst b) && (snd a =? snd b).

Fixpoint cache_get (c : cache) (snet : option N) (dnet : N) : option mac :=
  match c with
  | [] => None
  | (k, m) :: r => if key_eqb k (snet, dnet) then Some m else cache_get r snet dnet
  end.

Fixpoint cache_set (c : cache) (k : option N * N) (m : mac) : cache :=
  match c with
  | [] => [(k, m)]
  | (k', m') :: r => if key_eqb k' k then (k, m) :: r else (k', m') :: cache_set r k m
  end.

(* RouterInfoCache.update_router_info as seen through get_router_info (netservice.py:76-116) *)
Definition cache_update (c : cache) (snet : option N) (m : mac) (dnets : list N) : cache :=
  fold_left (fun c d => cache_set c (snet, d) m) dnets c.

(* bind(): the last adapter bound with an address, else the first (netservice.py:286-295) *)
Fixpoint last_with_addr (l : list adapter) (i : nat) (acc : option nat) : option nat :=
  match l with
  | [] => acc
  | a :: r => last_with_addr r (S i) (match a_mac a with Some _ => Some i | None => acc end)
  end.
Definition local_idx (n : node) : nat :=
  match last_with_addr (adapters n) 0 None with Some i => i | None => 0%nat end.

Definition nth_adapter (n : node) (i : nat) : option adapter := nth_error (adapters n) i.

Fixpoint find_net_from (l : list adapter) (i : nat) (net : option N) : option nat :=
  match l with
  | [] => None
  | a :: r => if optN_eqb (a_net a) net then Some i else find_net_from r (S i) net
  end.
(* `net in self.adapters` / `self.adapters[net]` *)
Definition find_net (n : node) (net : option N) : option nat := find_net_from (adapters n) 0 net.

(* for snet, snet_adapter in self.adapters.items(): router_info = get_router_info(snet, dnet); if router_info: break *)
Fixpoint find_path_from (l : list adapter) (i : nat) (c : cache) (dnet : N) : option (nat * mac) :=
  match l with
  | [] => None
  | a :: r => match cache_get c (a_net a) dnet with
              | Some m => Some (i, m)
              | None => find_path_from r (S i) c dnet
              end
  end.
Definition find_path (n : node) (dnet : N) : option (nat * mac) :=
  find_path_from (adapters n) 0 (rcache n) dnet.

Definition is_router (n : node) : bool := negb (Nat.eqb (length (adapters n)) 1).

(* every adapter index except i, in order *)
Definition other_ports (n : node) (i : nat) : list nat :=
  filter (fun j => negb (Nat.eqb j i)) (seq 0 (length (adapters n))).
Definition all_ports (n : node) : list nat := seq 0 (length (adapters n)).

(* a node with more than one adapter must know all its network numbers (else TypeError paths that are
   not modelled) *)
Definition modelled_config (n : node) : bool :=
  match adapters n with
  | [] => false
  | [_] => true
  | l => forallb (fun a => match a_net a with Some _ => true | None => false end) l
  end.

(* ---- messages *)
Definition who_is (dnet : N) (sadr : option (N * mac)) : npdu :=
  mkNpdu None sadr 0 (Some 0) (put_short dnet).
Definition i_am (nets : list N) : npdu :=
  mkNpdu None None 0 (Some 1) (flat_map put_short nets).

(* WhoIsRouterToNetwork.decode (npdu.py:335-340) *)
Definition dec_who_is (data : list N) : res (option N) :=
  match data with
  | [] => Ok None
  | _ => do x <- get_short data; Ok (Some (fst x))
  end.
(* IAmRouterToNetwork.decode (npdu.py:372-376) *)
Fixpoint dec_i_am (data : list N) : res (list N) :=
  match data with
  | [] => Ok []
  | a :: b :: r => do l <- dec_i_am r; Ok ((a * 256 + b) :: l)
  | _ => Err DecodingError
  end.

(* APCI.decode (apdu.py:255-318): does the fixed header fit?  (the body is carried opaquely) *)
Definition need (k : nat) (l : list N) : bool := Nat.leb k (length l).
Definition apdu_ok (data : list N) : bool :=
  match data with
  | [] => false
  | b :: r =>
      let t := b / 16 in
      if t =? 0 then (if N.testbit b 3 then need 5 r else need 3 r)
      else if t =? 1 then need 1 r
      else if t =? 2 then need 2 r
      else if t =? 3 then (if N.testbit b 3 then need 4 r else need 2 r)
      else if t =? 4 then need 3 r
      else if t =? 5 then need 2 r
      else if t =? 6 then need 2 r
      else if t =? 7 then need 2 r
      else false
  end.

Definition dadr_to_addr_dest (d : dadr) : addr :=
  match d with DGlobal => AGB | DBcast n => ARB n | DStation n m => ARS n m end.
Definition ldest_to_addr (d : ldest) : addr := match d with LBcast => ALB | LStation m => ALS m end.
Definition opt_mac_addr (m : option mac) : addr := match m with Some x => ALS x | None => ANone end.

(* ---- pending_nets *)
Fixpoint pending_get (p : list (N * list npdu)) (d : N) : option (list npdu) :=
  match p with [] => None | (k, l) :: r => if k =? d then Some l else pending_get r d end.
Fixpoint pending_del (p : list (N * list npdu)) (d : N) : list (N * list npdu) :=
  match p with [] => [] | (k, l) :: r => if k =? d then r else (k, l) :: pending_del r d end.
Fixpoint pending_add (p : list (N * list npdu)) (d : N) (x : npdu) : list (N * list npdu) :=
  match p with
  | [] => [(d, [x])]
  | (k, l) :: r => if k =? d then (k, l ++ [x]) :: r else (k, l) :: pending_add r d x
  end.

Definition set_cache (n : node) (c : cache) : node := mkNode (adapters n) (has_app n) c (pending n).
Definition set_pending (n : node) (p : list (N * list npdu)) : node :=
  mkNode (adapters n) (has_app n) (rcache n) p.

(* ---- NetworkServiceAccessPoint.indication (netservice.py:329-458); settings.route_aware = False *)
Definition indication (n : node) (dest : addr) (data : list N) : node * list action :=
  let li := local_idx n in
  match nth_adapter n li with
  | None => (n, [Raise OtherErr])                     (* ConfigurationError("no adapters") *)
  | Some la =>
    if negb (modelled_config n) then (n, [Unmodelled]) else
    let plain := mkNpdu None None 255 None data in
    let remote (dnet : N) (dd : dadr) (mapped : ldest) :=
      if optN_eqb (Some dnet) (a_net la) then (n, [Tx li mapped plain])
      else
        let p := mkNpdu (Some dd) None 255 None data in
        match pending_get (pending n) dnet with
        | Some _ => (set_pending n (pending_add (pending n) dnet p), [])
        | None =>
          match find_path n dnet with
          | Some (j, m) => (n, [Tx j (LStation m) p])
          | None => (set_pending n (pending_add (pending n) dnet p),
                     map (fun j => Tx j LBcast (who_is dnet None)) (all_ports n))
          end
        end in
    match dest with
    | ALS m => (n, [Tx li (LStation m) plain])
    | ALB => (n, [Tx li LBcast plain])
    | AGB => (n, map (fun j => Tx j LBcast (mkNpdu (Some DGlobal) None 255 None data)) (all_ports n))
    | ARS dnet m => remote dnet (DStation dnet m) (LStation m)
    | ARB dnet => remote dnet (DBcast dnet) LBcast
    | ANone => (n, [Raise AttrErr])
    end
  end.

(* ---- the route-aware branch of indication (netservice.py:353-367): settings.route_aware is on and the
   destination carries a route (the link address of a router on the local network, as shown in the source of a
   routed packet).  The requested address continues as DADR when it is remote or global, the packet is handed to
   that router on the local adapter, hop count 255; no cache lookup, no parking. *)
Definition indication_routed (n : node) (dest : addr) (route : mac) (data : list N) : node * list action :=
  let li := local_idx n in
  match nth_adapter n li with
  | None => (n, [Raise OtherErr])
  | Some _ =>
      match dest with
      | ANone => (n, [Raise AttrErr])
      | ARS d m => (n, [Tx li (LStation route) (mkNpdu (Some (DStation d m)) None 255 None data)])
      | ARB d => (n, [Tx li (LStation route) (mkNpdu (Some (DBcast d)) None 255 None data)])
      | AGB => (n, [Tx li (LStation route) (mkNpdu (Some DGlobal) None 255 None data)])
      | ALS _ | ALB => (n, [Tx li (LStation route) (mkNpdu None None 255 None data)])
      end
  end.

(* the route attached to the source shown when settings.route_aware is on (netservice.py:541-542, 557-559):
   the link source of the delivering frame, whenever the source shown is in remote form *)
Definition up_route (n : node) (i : nat) (src : mac) (p : npdu) : option mac :=
  if is_router n && negb (Nat.eqb i (local_idx n)) then Some src
  else match n_sadr p with Some _ => Some src | None => None end.

(* ---- NetworkServiceElement.WhoIsRouterToNetwork (netservice.py:878-980) *)
Definition nse_who_is (n : node) (i : nat) (ai : adapter) (src : mac) (p : npdu) (w : option N)
  : node * list action :=
  if negb (is_router n) then (n, []) else
  match w with
  | None =>
      let nets := flat_map (fun j => match nth_adapter n j with
                                     | Some a => match a_net a with Some x => [x] | None => [] end
                                     | None => [] end) (other_ports n i) in
      match nets with
      | [] => (n, [])
      | _ => (n, [Tx i (LStation src) (i_am nets)])
      end
  | Some dnet =>
      match find_net n (Some dnet) with
      | Some j => if Nat.eqb j i then (n, []) else (n, [Tx i (LStation src) (i_am [dnet])])
      | None =>
          match find_path n dnet with
          | Some (j, _) => if Nat.eqb j i then (n, []) else (n, [Tx i (LStation src) (i_am [dnet])])
          | None =>
              match a_net ai with
              | None => (n, [Unmodelled])
              | Some inet =>
                let s := match n_sadr p with Some s => s | None => (inet, src) end in
                (n, map (fun j => Tx j LBcast (who_is dnet (Some s))) (other_ports n i))
              end
          end
      end
  end.

(* release of parked packets, netservice.py:1009-1026 *)
Fixpoint release (pend : list (N * list npdu)) (i : nat) (src : mac) (nets : list N)
  : list (N * list npdu) * list action :=
  match nets with
  | [] => (pend, [])
  | d :: r =>
      match pending_get pend d with
      | Some l => let '(pend', acts) := release (pending_del pend d) i src r in
                  (pend', map (fun q => Tx i (LStation src) q) l ++ acts)
      | None => release pend i src r
      end
  end.

(* ---- NetworkServiceElement.IAmRouterToNetwork (netservice.py:982-1026) *)
Definition nse_i_am (n : node) (i : nat) (ai : adapter) (src : mac) (nets : list N) : node * list action :=
  let n1 := set_cache n (cache_update (rcache n) (a_net ai) src nets) in
  let relay := if is_router n then map (fun j => Tx j LBcast (i_am nets)) (other_ports n i) else [] in
  let '(pend', acts) := release (pending n1) i src nets in
  (set_pending n1 pend', relay ++ acts).

(* npdu_types (npdu.py): 0..9, 0x12, 0x13 *)
Definition known_msg (t : N) : bool := (t <=? 9) || (t =? 18) || (t =? 19).

(* ---- forwarding section of process_npdu (netservice.py:592-695) *)
Definition forward (n : node) (i : nat) (ai : adapter) (src : mac) (p : npdu) (dd : dadr) : list action :=
  if negb (is_router n) then [] else
  if n_hop p =? 0 then [] else
  match a_net ai with
  | None => [Unmodelled]
  | Some inet =>
    let sadr := match n_sadr p with Some s => s | None => (inet, src) end in
    let q := mkNpdu (n_dadr p) (Some sadr) (n_hop p - 1) (n_msg p) (n_data p) in
    let lastleg := mkNpdu None (Some sadr) (n_hop p - 1) (n_msg p) (n_data p) in
    let routed (dnet : N) (final : ldest) :=
      match find_net n (Some dnet) with
      | Some j => if Nat.eqb j i then [] else [Fwd j final lastleg]
      | None =>
          match find_path n dnet with
          | Some (j, m) => [Fwd j (LStation m) q]
          | None => map (fun j => Tx j LBcast (who_is dnet None)) (other_ports n i)
          end
      end in
    match dd with
    | DGlobal => map (fun j => Fwd j LBcast q) (other_ports n i)
    | DBcast dnet => routed dnet LBcast
    | DStation dnet m => routed dnet (LStation m)
    end
  end.

(* ---- NetworkServiceAccessPoint.process_npdu (netservice.py:460-695): a frame from station `src`,
   addressed `dst` on the LAN, arrives at adapter i *)
Definition process_npdu (n : node) (i : nat) (src : mac) (dst : ldest) (p : npdu) : node * list action :=
  match nth_adapter n i with
  | None => (n, [Raise OtherErr])
  | Some ai =>
    if negb (modelled_config n) then (n, [Unmodelled]) else
    let li := local_idx n in
    let la := match nth_adapter n li with Some a => a | None => ai end in
    (* source routing check / learning (468-478) *)
    let spoof := match n_sadr p with
                 | Some (snet, _) => match find_net n (Some snet) with Some _ => true | None => false end
                 | None => false end in
    if spoof then (n, []) else
    let n1 := match n_sadr p with
              | Some (snet, _) => set_cache n (cache_update (rcache n) (a_net ai) src [snet])
              | None => n end in
    (* destination routing (480-516): Some (processLocally, forwardMessage) | path error | exception *)
    let decision : res (option (bool * bool)) :=
      match n_dadr p with
      | None => Ok (Some (Nat.eqb i li || match n_msg p with Some _ => true | None => false end, false))
      | Some (DBcast dnet) =>
          if optN_eqb (Some dnet) (a_net ai) then Ok None
          else Ok (Some (optN_eqb (Some dnet) (a_net la), true))
      | Some (DStation dnet m) =>
          if optN_eqb (Some dnet) (a_net ai) then Ok None
          else if optN_eqb (Some dnet) (a_net la) then
                 match a_mac la with
                 | None => Err AttrErr
                 | Some lm => let pl := mac_eqb m lm in Ok (Some (pl, negb pl))
                 end
               else Ok (Some (false, true))
      | Some DGlobal => Ok (Some (true, true))
      end in
    match decision with
    | Err e => (n1, [Raise e])
    | Ok None => (n1, [])
    | Ok (Some (pl, fw)) =>
      let fwd := match n_dadr p with
                 | Some dd => if fw then forward n1 i ai src p dd else []
                 | None => [] end in
      match n_msg p with
      | None =>
          if pl && has_app n1 then
            if negb (apdu_ok (n_data p)) then (n1, [Raise DecodingError]) else
            let routed_look := is_router n1 && negb (Nat.eqb i li) in
            let s := match n_sadr p with
                     | Some (sn, sm) => ARS sn sm
                     | None => if routed_look
                               then match a_net ai with Some inet => ARS inet src | None => ANone end
                               else ALS src
                     end in
            let d := if routed_look then
                       match n_dadr p with
                       | Some DGlobal => AGB
                       | Some (DBcast _) => ALB
                       | _ => opt_mac_addr (a_mac la)
                       end
                     else match n_dadr p with
                          | Some DGlobal => AGB
                          | _ => ldest_to_addr dst
                          end in
            (n1, Up s d (n_data p) :: fwd)
          else (n1, fwd)
      | Some t =>
          if pl then
            if negb (known_msg t) then (n1, [])
            else if t =? 0 then
              match dec_who_is (n_data p) with
              | Err e => (n1, [Raise e])
              | Ok w => let '(n2, acts) := nse_who_is n1 i ai src p w in
                        (n2, acts ++ match n_dadr p with
                                     | Some dd => if fw then forward n2 i ai src p dd else []
                                     | None => [] end)
              end
            else if t =? 1 then
              match dec_i_am (n_data p) with
              | Err e => (n1, [Raise e])
              | Ok nets => let '(n2, acts) := nse_i_am n1 i ai src nets in
                           (n2, acts ++ match n_dadr p with
                                        | Some dd => if fw then forward n2 i ai src p dd else []
                                        | None => [] end)
              end
            else (n1, [Unmodelled])
          else (n1, fwd)
      end
    end
  end.

(* =================================================================== single-node scripts *)
Inductive event :=
| ELearn (port : nat) (m : mac) (dnets : list N)        (* router_info_cache.update_router_info *)
| ESend (dest : addr) (data : list N)                   (* the application hands down a PDU *)
| EArrive (port : nat) (src : mac) (dst : ldest) (p : npdu)
| ESendR (dest : addr) (route : mac) (data : list N).   (* route-aware: the destination carries a route *)

Definition do_event (n : node) (e : event) : node * list action :=
  match e with
  | ELearn i m dnets =>
      match nth_adapter n i with
      | Some a => (set_cache n (cache_update (rcache n) (a_net a) m dnets), [])
      | None => (n, [Raise OtherErr])
      end
  | ESend d data => indication n d data
  | EArrive i s d p => process_npdu n i s d p
  | ESendR d r data => indication_routed n d r data
  end.

Fixpoint run_script (n : node) (es : list event) : node * list (list action) :=
  match es with
  | [] => (n, [])
  | e :: r => let '(n1, a) := do_event n e in
              let '(n2, l) := run_script n1 r in (n2, a :: l)
  end.

(* =================================================================== the internetwork *)
Record frame := mkFrame { f_lan : N; f_src : mac; f_dst : ldest; f_npdu : npdu }.

Record wnode := mkW { w_node : node; w_ports : list (N * mac) (* LAN and link address of each port *) }.

Inductive obs :=
| OFrame (f : frame)                       (* Network.process_pdu is run for this frame *)
| OUp (who : nat) (src dst : addr) (data : list N)
| ORaise (who : nat) (e : err)
| OUnmodelled (who : nat)
| OMark.

Record world := mkWorld {
  nodes : list wnode;
  lans  : list (N * list (nat * nat));     (* LAN -> its members (node, port), in Network.nodes order *)
  queue : list frame;                      (* zero-delay tasks of the task manager, FIFO *)
  trace : list obs                         (* reversed *) }.

Fixpoint lan_members (l : list (N * list (nat * nat))) (lan : N) : list (nat * nat) :=
  match l with [] => [] | (k, m) :: r => if k =? lan then m else lan_members r lan end.

Fixpoint set_nth {A} (l : list A) (i : nat) (x : A) : list A :=
  match l, i with
  | [], _ => []
  | _ :: r, O => x :: r
  | a :: r, S k => a :: set_nth r k x
  end.

(* turn the actions of node `who` into queued frames and observations *)
Fixpoint emit (w : wnode) (who : nat) (acts : list action) : list frame * list obs :=
  match acts with
  | [] => ([], [])
  | a :: r =>
      let '(fs, os) := emit w who r in
      match a with
      | Tx j d p | Fwd j d p =>
          match nth_error (w_ports w) j with
          | Some (lan, m) => (mkFrame lan m d p :: fs, os)
          | None => (fs, os)
          end
      | Up s d data => (fs, OUp who s d data :: os)
      | Raise e => (fs, ORaise who e :: os)
      | Unmodelled => (fs, OUnmodelled who :: os)
      end
  end.

(* Network.process_pdu: broadcast to every node but the sender, else to the node with that address *)
Definition accepts (wmac : mac) (f : frame) : bool :=
  match f_dst f with
  | LBcast => negb (mac_eqb (f_src f) wmac)
  | LStation m => mac_eqb m wmac
  end.

Fixpoint deliver (ns : list wnode) (f : frame) (members : list (nat * nat)) (q : list frame) (tr : list obs)
  : list wnode * list frame * list obs :=
  match members with
  | [] => (ns, q, tr)
  | (who, port) :: r =>
      match nth_error ns who with
      | None => deliver ns f r q tr
      | Some w =>
          match nth_error (w_ports w) port with
          | None => deliver ns f r q tr
          | Some (_, wmac) =>
              if accepts wmac f then
                let '(n', acts) := process_npdu (w_node w) port (f_src f) (f_dst f) (f_npdu f) in
                let w' := mkW n' (w_ports w) in
                let '(fs, os) := emit w' who acts in
                deliver (set_nth ns who w') f r (q ++ fs) (rev_append os tr)
              else deliver ns f r q tr
          end
      end
  end.

(* one frame leaves the queue: state without the trace *)
Definition step_core (lns : list (N * list (nat * nat))) (ns : list wnode) (qu : list frame)
  : option (list wnode * list frame * list obs) :=
  match qu with
  | [] => None
  | f :: q => Some (deliver ns f (lan_members lns (f_lan f)) q [OFrame f])
  end.

Definition step (w : world) : option world :=
  match step_core (lans w) (nodes w) (queue w) with
  | None => None
  | Some (ns, q', os) => Some (mkWorld ns (lans w) q' (os ++ trace w))
  end.

Fixpoint run (fuel : nat) (w : world) : world :=
  match fuel with
  | O => w
  | S k => match step w with None => w | Some w' => run k w' end
  end.

(* the same run on (nodes, queue) only *)
Fixpoint erun (lns : list (N * list (nat * nat))) (fuel : nat) (c : list wnode * list frame)
  : list wnode * list frame :=
  match fuel with
  | O => c
  | S k => match step_core lns (fst c) (snd c) with
           | None => c
           | Some (ns, q', _) => erun lns k (ns, q')
           end
  end.

(* the application of node `who` submits a PDU *)
Definition submit (w : world) (who : nat) (dest : addr) (data : list N) : world :=
  match nth_error (nodes w) who with
  | None => w
  | Some wn =>
      let '(n', acts) := indication (w_node wn) dest data in
      let wn' := mkW n' (w_ports wn) in
      let '(fs, os) := emit wn' who acts in
      mkWorld (set_nth (nodes w) who wn') (lans w) (queue w ++ fs) (rev_append os (trace w))
  end.

(* the application of node `who` submits a PDU to a destination that carries a route (settings.route_aware) *)
Definition submit_routed (w : world) (who : nat) (dest : addr) (route : mac) (data : list N) : world :=
  match nth_error (nodes w) who with
  | None => w
  | Some wn =>
      let '(n', acts) := indication_routed (w_node wn) dest route data in
      let wn' := mkW n' (w_ports wn) in
      let '(fs, os) := emit wn' who acts in
      mkWorld (set_nth (nodes w) who wn') (lans w) (queue w ++ fs) (rev_append os (trace w))
  end.

Inductive wevent :=
| WSend (who : nat) (dest : addr) (data : list N)
| WLearn (who : nat) (port : nat) (m : mac) (dnets : list N)
| WRun (fuel : nat)
| WMark.                                    (* separator in the trace; clears nothing *)

Definition do_wevent (w : world) (e : wevent) : world :=
  match e with
  | WSend who d data => submit w who d data
  | WLearn who port m dnets =>
      match nth_error (nodes w) who with
      | None => w
      | Some wn => let '(n', _) := do_event (w_node wn) (ELearn port m dnets) in
                   mkWorld (set_nth (nodes w) who (mkW n' (w_ports wn))) (lans w) (queue w) (trace w)
      end
  | WRun fuel => run fuel w
  | WMark => mkWorld (nodes w) (lans w) (queue w) (OMark :: trace w)
  end.

Definition run_world (w : world) (es : list wevent) : world := fold_left do_wevent es w.

(* =================================================================== canonical output (list Z) *)
Definition c_mac (m : mac) : list Z := zlen m :: zs m.
Definition c_ldest (d : ldest) : list Z := match d with LBcast => [0%Z] | LStation m => 1%Z :: c_mac m end.
Definition c_dadr (d : option dadr) : list Z :=
  match d with
  | None => [0%Z] | Some DGlobal => [1%Z] | Some (DBcast n) => [2%Z; zN n]
  | Some (DStation n m) => 3%Z :: zN n :: c_mac m
  end.
Definition c_sadr (s : option (N * mac)) : list Z :=
  match s with None => [0%Z] | Some (n, m) => 1%Z :: zN n :: c_mac m end.
Definition c_npdu (p : npdu) : list Z :=
  c_dadr (n_dadr p) ++ c_sadr (n_sadr p)
  ++ [match n_dadr p with Some _ => zN (n_hop p) | None => 0%Z end]
  ++ [match n_msg p with Some t => (zN t + 1)%Z | None => 0%Z end]
  ++ zlen (n_data p) :: zs (n_data p).
Definition c_addr (a : addr) : list Z :=
  match a with
  | ANone => [0%Z] | ALB => [1%Z] | ALS m => 2%Z :: c_mac m | ARB n => [3%Z; zN n]
  | ARS n m => 4%Z :: zN n :: c_mac m | AGB => [5%Z]
  end.
Definition c_action (a : action) : list Z :=
  match a with
  | Tx j d p | Fwd j d p => 1%Z :: Z.of_nat j :: c_ldest d ++ c_npdu p
  | Up s d data => 2%Z :: c_addr s ++ c_addr d ++ zlen data :: zs data
  | Raise e => [3%Z; err_code e]
  | Unmodelled => [4%Z]
  end.
Definition c_actions (l : list action) : list Z := zlen l :: flat_map c_action l.

(* state view: next hop for every (port, dnet of the grid); the parked packets *)
Definition c_cache_view (n : node) (grid : list N) : list Z :=
  flat_map (fun a => flat_map (fun d => match cache_get (rcache n) (a_net a) d with
                                         | None => [0%Z] | Some m => 1%Z :: c_mac m end) grid) (adapters n).
Definition c_pending (n : node) : list Z :=
  zlen (pending n) :: flat_map (fun kv => zN (fst kv) :: zlen (snd kv) :: flat_map c_npdu (snd kv)) (pending n).

Definition c_script (r : node * list (list action)) (grid : list N) : list Z :=
  flat_map c_actions (snd r) ++ c_cache_view (fst r) grid ++ c_pending (fst r).

(* scripts run with settings.route_aware on: after the actions of an arrival, the route of the source shown *)
Definition c_optmac (m : option mac) : list Z := match m with None => [0%Z] | Some x => 1%Z :: c_mac x end.
Definition has_up (l : list action) : bool := existsb (fun a => match a with Up _ _ _ => true | _ => false end) l.
Fixpoint run_script_ra (n : node) (es : list event) : node * list Z :=
  match es with
  | [] => (n, [])
  | e :: r =>
      let '(n1, a) := do_event n e in
      let extra := match e with
                   | EArrive i s _ p => if has_up a then c_optmac (up_route n i s p) else []
                   | _ => [] end in
      let '(n2, l) := run_script_ra n1 r in (n2, c_actions a ++ extra ++ l)
  end.
Definition c_script_ra (r : node * list Z) (grid : list N) : list Z :=
  snd r ++ c_cache_view (fst r) grid ++ c_pending (fst r).

Definition c_obs (o : obs) : list Z :=
  match o with
  | OFrame f => 1%Z :: zN (f_lan f) :: c_mac (f_src f) ++ c_ldest (f_dst f) ++ c_npdu (f_npdu f)
  | OUp who s d data => 2%Z :: Z.of_nat who :: c_addr s ++ c_addr d ++ zlen data :: zs data
  | ORaise who e => [3%Z; Z.of_nat who; err_code e]
  | OUnmodelled who => [4%Z; Z.of_nat who]
  | OMark => [5%Z]
  end.
Definition c_world (w : world) : list Z :=
  zlen (queue w) :: flat_map c_obs (rev (trace w)).
