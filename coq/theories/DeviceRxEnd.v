(* DeviceRxEnd.v — C10 end to end: from the octets of a frame on the LAN to the frames the device answers with. *)
From Coq Require Import ZifyBool ZifyN ZifyNat.
From Bac Require Import Base PyRt Ssm SsmFacts SsmC04a SsmC04s SsmC04h SsmC11s.
From Bac Require Npci Apci RouterCache SsmWorld.
From Bac Require Import Asap AsapFacts AsapCodec AsapCodecFacts DeviceRx DeviceRxFacts DeviceRxReply.
From BacGen Require Import ApduFns.
Open Scope Z_scope.

(* a well-framed confirmed request from a station on the local network reaches the transaction layer as it is *)
Lemma device_rx_local_request st now f x m a : request_of f = Some (None, m, a) ->
  device_rx st now f x = smap_rx st now None m a x /\ m = f_src f /\ wf_request a.
Proof.
  unfold request_of, device_rx.
  destruct (Npci.dec_npci (f_data f)) as [[[c h] rest]|e]; [|discriminate].
  destruct (Npci.dadr h) as [[?|?|]|] eqn:Ed; destruct (Npci.nmsg h) eqn:En; try discriminate;
  (destruct (Apci.dec_apci rest) as [[ah payload]|e] eqn:Eda; [|discriminate];
   destruct (a_type (to_apdu ah payload) =? 0) eqn:Et; [|discriminate];
   assert (Hwf : wf_request (to_apdu ah payload)) by (eapply dec_apci_request_wf; [eassumption | lia]);
   destruct (Npci.sadr h) as [[snet smac|?|]|]; intros H; inversion H; subst; cbn [negb]; cbv beta iota; auto).
Qed.

Lemma reply_apdu_type req x r :
  let t := a_type (reply_apdu req x r) in t = 2 \/ t = 3 \/ t = 5 \/ t = 6 \/ t = 7.
Proof.
  unfold reply_apdu. cbv zeta.
  destruct (Z.of_N (ptype r) =? 6); [cbn; auto|].
  destruct (Z.of_N (ptype r) =? 7); [cbn; auto|].
  destruct (Z.of_N (ptype r) =? 5); [cbn; auto|].
  destruct (Z.of_N (ptype r) =? 2); cbn; auto.
Qed.

Lemma dec_maxresp_pos x v : 0 <= x < 16 -> decode_max_apdu_length_accepted x = Ok (Some v) -> 0 < v.
Proof.
  intros H.
  assert (x = 0 \/ x = 1 \/ x = 2 \/ x = 3 \/ x = 4 \/ x = 5 \/ x = 6 \/ x = 7 \/ x = 8 \/ x = 9 \/ x = 10 \/ x = 11 \/
          x = 12 \/ x = 13 \/ x = 14 \/ x = 15) as Hx by lia.
  repeat (destruct Hx as [->|Hx]; [vm_compute; intros E; inversion E; reflexivity|]).
  subst. vm_compute; intros E; inversion E; reflexivity.
Qed.

(* ServerSSM.idle on a fresh transaction, unsegmented request, no device-information record for the peer *)
Lemma s_idle_unseg a t0 c now : wf_request a -> a_seg a = false -> s_dinfo t0 = None -> s_state t0 = IDLE ->
  let r := fst (s_idle a (mkH t0 [] c now true)) in
  (exists fr, h_outs r = [Tx fr] /\ a_invoke fr = a_invoke a /\ a_type fr = 7 /\
              decode_max_apdu_length_accepted (a_maxresp a) = Err ValueErr) \/
  (exists dec, decode_max_apdu_length_accepted (a_maxresp a) = Ok (Some dec) /\ 0 < dec /\
     h_outs r = [ToApp a] /\ h_live r = true /\ terminal (h_s r) = false /\ s_invoke (h_s r) = a_invoke a /\
     server_segsize (h_s r) = dec).
Proof.
  intros (Ht & Hms & Hmr) Hseg Hd Hst. destruct_ssm t0. cbn [s_dinfo s_state] in Hd, Hst. subst x_dinf x_state.
  destruct (dec_maxsegs_total _ Hms) as (ms & Ems).
  unfold s_idle, s_abort. rewrite Ht. cbn [Z.eqb negb]. mcbn.
  destruct (dec_maxresp_total _ Hmr) as [(v & Ev) | Ev]; rewrite Ev; mcbn.
  - rewrite Ems. mcbn. rewrite Hseg. cbn [negb].
    path_split_c; mcbn; right; exists v;
    (split; [reflexivity|]; split; [eapply dec_maxresp_pos; eassumption|]; cbn; repeat split; reflexivity).
  - path_split_c; mcbn; cbn; left; eexists; repeat split; reflexivity.
Qed.

(* C10_one_reply_end_to_end over the reply function *)
Lemma reply_frames_one cfg dcc now m a x ra :
  dcc_passes dcc a = true -> wf_request a -> a_seg a = false ->
  SsmWorld.assoc (peer_code None m) (SsmWorld.c_know cfg) = None ->
  app_replies x a = [ra] ->
  exists fr, reply_frames cfg dcc now m a x = [DFrame (mac_code m) None fr] /\ a_invoke fr = a_invoke a /\
    (forall dec, decode_max_apdu_length_accepted (a_maxresp a) = Ok (Some dec) -> a_type ra <> 3 -> fr = ra).
Proof.
  intros Hd Hwf Hseg Hk Hr. unfold reply_frames. rewrite Hd. cbn [negb].
  set (t0 := SsmWorld.new_ssm cfg (peer_code None m) false).
  assert (Hd0 : s_dinfo t0 = None) by exact Hk.
  destruct (s_idle_unseg a t0 0 now Hwf Hseg Hd0 eq_refl) as [(fr & Ho & Hi & Hty & He) | (dec & He & Hpos & Ho & Hl & Hterm & Hinv & Hsz)].
  - rewrite Ho. cbn [rev app flat_map]. exists fr. split; [reflexivity|]. split; [exact Hi|].
    intros dec Hdec. congruence.
  - rewrite Ho. cbn [rev app flat_map]. rewrite (proj1 Hwf). cbn [Z.eqb]. rewrite Hr. cbn [flat_map]. rewrite !app_nil_r.
    assert (Hra : a_invoke ra = a_invoke a).
    { assert (In ra (app_replies x a)) by (rewrite Hr; left; reflexivity).
      unfold app_replies in H. apply in_map_iff in H. destruct H as (q & <- & _). apply reply_apdu_invoke. }
    assert (Hrt : a_type ra = 2 \/ a_type ra = 3 \/ a_type ra = 5 \/ a_type ra = 6 \/ a_type ra = 7).
    { assert (In ra (app_replies x a)) by (rewrite Hr; left; reflexivity).
      unfold app_replies in H. apply in_map_iff in H. destruct H as (q & <- & _). apply reply_apdu_type. }
    set (t1 := h_s (fst (s_idle a (mkH t0 [] 0 now true)))) in *.
    destruct (s_confirmation_one_frame ra t1 0 now Hrt Hterm ltac:(lia) ltac:(congruence)) as (fr & Hf & Hfi & Hfe).
    rewrite Hf. cbn [rev app frames_of flat_map]. exists fr. split; [reflexivity|]. split; [congruence|].
    intros _ _ Hn3. apply Hfe. exact Hn3.
Qed.

(* x_exec <> XSilent: the service answers or raises; then the ASAP hands exactly one reply down *)
Lemma app_replies_one x a : x_exec x <> XSilent -> exists r, app_replies x a = [reply_apdu a x r] /\
  asap_octets (Z.to_N (a_service a)) (map Z.to_N (a_data a)) (x_helper x) (x_exec x) = [r].
Proof.
  intros H. destruct (octets_one_reply (Z.to_N (a_service a)) (map Z.to_N (a_data a)) (x_helper x) (x_exec x) H) as (r & Hr).
  exists r. unfold app_replies. rewrite Hr. split; reflexivity.
Qed.

Theorem one_reply_end_to_end st now f x m a :
  request_of f = Some (None, m, a) -> a_seg a = false ->
  dcc_passes (d_dcc st) a = true ->
  find_tr (a_invoke a) (peer_code None m) (d_str st) O = None ->
  SsmWorld.assoc (peer_code None m) (SsmWorld.c_know (d_cfg st)) = None ->
  x_exec x <> XSilent ->
  exists fr, snd (device_rx st now f x) = [DFrame (mac_code (f_src f)) None fr] /\ a_invoke fr = a_invoke a.
Proof.
  intros Hreq Hseg Hd Hf Hk Hx.
  destruct (device_rx_local_request st now f x m a Hreq) as (-> & Hm & Hwf). subst m.
  rewrite (fresh_request_outs st now (f_src f) a x (proj1 Hwf) Hf).
  destruct (app_replies_one x a Hx) as (r & Hr & _).
  destruct (reply_frames_one (d_cfg st) (d_dcc st) now (f_src f) a x _ Hd Hwf Hseg Hk Hr) as (fr & H1 & H2 & _).
  exists fr. split; assumption.
Qed.

(* C10_valid_after_garbage: after ANY history (frames of any content from anybody, timers), a well-framed confirmed
   request from a local station that has no live transaction under that invoke ID is answered by the history-free
   reply function ... *)
Theorem valid_after_garbage cfg evs now f x m a :
  let st := fst (device_run (dev_init cfg) evs) in
  request_of f = Some (None, m, a) ->
  find_tr (a_invoke a) (peer_code None m) (d_str st) O = None ->
  snd (device_rx st now f x) = reply_frames (d_cfg st) (d_dcc st) now (f_src f) a x.
Proof.
  intros st Hreq Hf.
  destruct (device_rx_local_request st now f x m a Hreq) as (-> & Hm & Hwf). subst m.
  apply fresh_request_outs; [exact (proj1 Hwf) | exact Hf].
Qed.

(* ... which is what a device that has seen nothing gives, and, when the answer is not a ComplexAck (those may need
   segmentation), exactly the reply the ASAP model prescribes for the octets of the request *)
Theorem valid_after_garbage_fresh cfg evs now f x m a :
  let st := fst (device_run (dev_init cfg) evs) in
  request_of f = Some (None, m, a) ->
  find_tr (a_invoke a) (peer_code None m) (d_str st) O = None ->
  snd (device_rx st now f x) = snd (device_rx (mkDev (d_cfg st) [] [] 0 (d_dcc st) RouterCache.empty [] false) now f x).
Proof.
  intros st Hreq Hf.
  destruct (device_rx_local_request st now f x m a Hreq) as (-> & Hm & Hwf).
  destruct (device_rx_local_request (mkDev (d_cfg st) [] [] 0 (d_dcc st) RouterCache.empty [] false) now f x m a Hreq) as (-> & _ & _).
  apply local_request_history_independent; auto. exact (proj1 Hwf).
Qed.

Theorem valid_after_garbage_reply cfg evs now f x m a r dec :
  let st := fst (device_run (dev_init cfg) evs) in
  request_of f = Some (None, m, a) -> a_seg a = false ->
  decode_max_apdu_length_accepted (a_maxresp a) = Ok (Some dec) ->
  dcc_passes (d_dcc st) a = true ->
  find_tr (a_invoke a) (peer_code None m) (d_str st) O = None ->
  SsmWorld.assoc (peer_code None m) (SsmWorld.c_know (d_cfg st)) = None ->
  asap_octets (Z.to_N (a_service a)) (map Z.to_N (a_data a)) (x_helper x) (x_exec x) = [r] ->
  (ptype r = 2 \/ ptype r = 5 \/ ptype r = 6 \/ ptype r = 7)%N ->
  snd (device_rx st now f x) = [DFrame (mac_code (f_src f)) None (reply_apdu a x r)].
Proof.
  intros st Hreq Hseg Hdec Hd Hf Hk Hr Hn3.
  destruct (device_rx_local_request st now f x m a Hreq) as (-> & Hm & Hwf). subst m.
  rewrite (fresh_request_outs st now (f_src f) a x (proj1 Hwf) Hf).
  assert (Har : app_replies x a = [reply_apdu a x r]) by (unfold app_replies; rewrite Hr; reflexivity).
  destruct (reply_frames_one (d_cfg st) (d_dcc st) now (f_src f) a x _ Hd Hwf Hseg Hk Har) as (fr & H1 & _ & H3).
  rewrite H1. f_equal. f_equal. apply (H3 dec Hdec).
  unfold reply_apdu. cbv zeta.
  destruct (Z.of_N (ptype r) =? 6) eqn:E6; [cbn; lia|].
  destruct (Z.of_N (ptype r) =? 7) eqn:E7; [cbn; lia|].
  destruct (Z.of_N (ptype r) =? 5) eqn:E5; [cbn; lia|].
  destruct (Z.of_N (ptype r) =? 2) eqn:E2; [cbn; lia|].
  exfalso. lia.
Qed.
