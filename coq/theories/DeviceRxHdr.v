(* DeviceRxHdr.v — C10 at the level of the OCTETS of the fixed header: every value of the invoke ID octet (0 and 255
   included), of the second header octet (reserved bit, max-segments code, max-APDU code), of the low bits of the first
   octet (reserved bit, segmented-response-accepted) and of the NPCI priority / expecting-reply bits gives a frame that
   `request_of` accepts, so that DeviceRxEnd.one_reply_end_to_end applies to it with nothing left to assume about
   the header. *)
From Coq Require Import ZifyBool ZifyN ZifyNat.
From Bac Require Import Base PyRt Ssm.
From Bac Require Npci Apci RouterCache SsmWorld.
From Bac Require Import Asap AsapCodec DeviceRx DeviceRxFacts DeviceRxReply DeviceRxEnd.
From BacGen Require Import ApduFns.
Open Scope Z_scope.

(* the octets of an unsegmented confirmed request as they travel on the LAN: version 1, NPCI control `ctl` without
   DNET / SNET / network-message bits, first APDU octet b0 (PDU type 0, SEG = MOR = 0; SA and the reserved bit free),
   b1, invoke ID, service choice, parameters *)
Definition plain_ctl (ctl : N) : Prop := (ctl < 8)%N.
Definition plain_b0 (b0 : N) : Prop := (b0 < 4)%N.
Definition request_octets (ctl b0 b1 inv sc : N) (params : list N) : list N :=
  1%N :: ctl :: b0 :: b1 :: inv :: sc :: params.

(* the APDU the transaction layer sees for those octets *)
Definition request_apdu (b0 b1 inv sc : N) (params : list N) : apdu :=
  mkApdu 0 false false (negb (N.land b0 2 =? 0)%N) false false (-1) (-1)
         (Z.of_N (N.land (N.shiftr b1 4) 7)) (Z.of_N (N.land b1 15)) (Z.of_N sc) (Z.of_N inv) (-1) (map Z.of_N params).

Lemma request_octets_parse m bc ctl b0 b1 inv sc params : plain_ctl ctl -> plain_b0 b0 ->
  request_of (mkFrame m bc (request_octets ctl b0 b1 inv sc params)) = Some (None, m, request_apdu b0 b1 inv sc params).
Proof.
  unfold plain_ctl, plain_b0. intros Hc Hb.
  assert (Hc' : (ctl = 0 \/ ctl = 1 \/ ctl = 2 \/ ctl = 3 \/ ctl = 4 \/ ctl = 5 \/ ctl = 6 \/ ctl = 7)%N) by lia.
  assert (Hb' : (b0 = 0 \/ b0 = 1 \/ b0 = 2 \/ b0 = 3)%N) by lia.
  assert (Hlen : forall (a b : N) r, (lenN (a :: b :: r) <? 2)%N = false) by (intros; unfold lenN; cbn [length]; lia).
  unfold request_of, request_octets, Npci.dec_npci. cbn [f_data f_src]. rewrite Hlen.
  destruct Hc' as [->|[->|[->|[->|[->|[->|[->| ->]]]]]]]; destruct Hb' as [->|[->|[->| ->]]]; reflexivity.
Qed.

Lemma request_apdu_fields b0 b1 inv sc params :
  a_seg (request_apdu b0 b1 inv sc params) = false /\ a_invoke (request_apdu b0 b1 inv sc params) = Z.of_N inv /\
  a_service (request_apdu b0 b1 inv sc params) = Z.of_N sc /\ a_type (request_apdu b0 b1 inv sc params) = 0.
Proof. repeat split. Qed.

(* a device that listens: communication enabled / initiation disabled, or the two services a disabled device still serves *)
Definition listens (dcc : Z) (sc : N) : Prop := dcc <> 1 \/ sc = 17%N \/ sc = 20%N.
Lemma listens_passes dcc b0 b1 inv sc params : listens dcc sc -> dcc_passes dcc (request_apdu b0 b1 inv sc params) = true.
Proof.
  unfold listens, dcc_passes. intros H. destruct (dcc =? 1) eqn:E; [|reflexivity].
  cbn [request_apdu a_type a_service]. destruct H as [H|[->| ->]]; [lia|reflexivity|reflexivity].
Qed.

(* every invoke ID, every second octet: one frame back, to the sender, under that ID *)
Theorem header_octets_one_reply st now m bc ctl b0 b1 inv sc params x :
  plain_ctl ctl -> plain_b0 b0 -> listens (d_dcc st) sc ->
  find_tr (Z.of_N inv) (peer_code None m) (d_str st) O = None ->
  SsmWorld.assoc (peer_code None m) (SsmWorld.c_know (d_cfg st)) = None ->
  x_exec x <> XSilent ->
  exists fr, snd (device_rx st now (mkFrame m bc (request_octets ctl b0 b1 inv sc params)) x) = [DFrame (mac_code m) None fr] /\
             a_invoke fr = Z.of_N inv.
Proof.
  intros Hc Hb Hl Hf Hk Hx.
  pose proof (request_octets_parse m bc ctl b0 b1 inv sc params Hc Hb) as Hreq.
  destruct (one_reply_end_to_end st now _ x m _ Hreq (proj1 (request_apdu_fields b0 b1 inv sc params))
              (listens_passes _ b0 b1 inv sc params Hl) Hf Hk Hx) as (fr & H1 & H2).
  exists fr. split; [exact H1 | exact H2].
Qed.

(* the same for a device at power-up, any configuration whose device-information cache is empty: nothing to assume *)
Theorem header_octets_one_reply_fresh cfg now m bc ctl b0 b1 inv sc params x :
  SsmWorld.c_know cfg = [] -> plain_ctl ctl -> plain_b0 b0 -> x_exec x <> XSilent ->
  exists fr, snd (device_rx (dev_init cfg) now (mkFrame m bc (request_octets ctl b0 b1 inv sc params)) x)
             = [DFrame (mac_code m) None fr] /\ a_invoke fr = Z.of_N inv.
Proof.
  intros Hk Hc Hb Hx. apply header_octets_one_reply; auto.
  - left. cbn. lia.
  - cbn [dev_init d_cfg]. rewrite Hk. reflexivity.
Qed.

(* ... and when the answer is not a ComplexAck and the max-APDU code is a defined one, it is the very reply the ASAP
   model prescribes for the parameter octets, after any history *)
Theorem header_octets_reply cfg evs now m bc ctl b0 b1 inv sc params x r dec :
  let st := fst (device_run (dev_init cfg) evs) in
  let a := request_apdu b0 b1 inv sc params in
  plain_ctl ctl -> plain_b0 b0 -> listens (d_dcc st) sc ->
  decode_max_apdu_length_accepted (Z.of_N (N.land b1 15)) = Ok (Some dec) ->
  find_tr (Z.of_N inv) (peer_code None m) (d_str st) O = None ->
  SsmWorld.assoc (peer_code None m) (SsmWorld.c_know (d_cfg st)) = None ->
  asap_octets (Z.to_N (Z.of_N sc)) (map Z.to_N (map Z.of_N params)) (x_helper x) (x_exec x) = [r] ->
  (ptype r = 2 \/ ptype r = 5 \/ ptype r = 6 \/ ptype r = 7)%N ->
  snd (device_rx st now (mkFrame m bc (request_octets ctl b0 b1 inv sc params)) x) = [DFrame (mac_code m) None (reply_apdu a x r)].
Proof.
  intros st a Hc Hb Hl Hdec Hf Hk Hr Ht.
  pose proof (request_octets_parse m bc ctl b0 b1 inv sc params Hc Hb) as Hreq.
  exact (valid_after_garbage_reply cfg evs now _ x m a r dec Hreq eq_refl Hdec (listens_passes _ b0 b1 inv sc params Hl) Hf Hk Hr Ht).
Qed.
