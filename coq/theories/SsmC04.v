(* SsmC04.v — C04 on the client transaction over whole event sequences (uses the per-handler facts of SsmC04a.v). *)
From Coq Require Import ZifyBool ZifyN ZifyNat.
From Bac Require Import Base PyRt Ssm SsmFacts SsmC04a.
Open Scope Z_scope.

(* ---------- the two entry points the SMAP and the TaskManager use ---------- *)
Lemma c_confirmation_post : forall a st, pre st -> post st (c_confirmation a st).
Proof.
  intros a st Hpre. unfold c_confirmation, withs.
  destruct (s_state (h_s st) =? SEGMENTED_REQUEST); [apply c_segmented_request_post; assumption|].
  destruct (s_state (h_s st) =? AWAIT_CONFIRMATION); [apply c_await_confirmation_post; assumption|].
  destruct (s_state (h_s st) =? SEGMENTED_CONFIRMATION); [apply c_segmented_confirmation_post; assumption|].
  revert Hpre. destruct st as [s outs ctr now live]. intros (Hl & Ho & Ht & Ha & Hs).
  cbn [h_s h_outs h_live] in *. subst live outs. destruct_ssm s. unfold terminal in Ht. cbn [s_state s_timer] in *.
  finish_post.
Qed.

(* ClientSSM only ever is in one of these while listed *)
Definition c_state_ok (s : ssm) : bool :=
  (s_state s =? SEGMENTED_REQUEST) || (s_state s =? AWAIT_CONFIRMATION) || (s_state s =? SEGMENTED_CONFIRMATION).

Lemma c_process_task_post : forall st, pre st -> c_state_ok (h_s st) = true -> post st (c_process_task st).
Proof.
  intros st Hpre Hok. unfold c_process_task, withs. unfold c_state_ok in Hok.
  destruct (s_state (h_s st) =? SEGMENTED_REQUEST); [apply c_segmented_request_timeout_post; assumption|].
  destruct (s_state (h_s st) =? AWAIT_CONFIRMATION); [apply c_await_confirmation_timeout_post; assumption|].
  destruct (s_state (h_s st) =? SEGMENTED_CONFIRMATION); [apply c_segmented_confirmation_timeout_post; assumption|].
  discriminate.
Qed.

(* in any other non-terminal state process_task raises RuntimeError("invalid state") and changes nothing *)
Lemma c_process_task_other : forall st, terminal (h_s st) = false -> c_state_ok (h_s st) = false ->
  c_process_task st = (st, Some RuntimeErr).
Proof.
  intros st Ht Hok. unfold c_process_task, withs, c_state_ok, terminal in *.
  destruct (s_state (h_s st) =? SEGMENTED_REQUEST); [discriminate|].
  destruct (s_state (h_s st) =? AWAIT_CONFIRMATION); [discriminate|].
  destruct (s_state (h_s st) =? SEGMENTED_CONFIRMATION); [discriminate|].
  rewrite Ht. reflexivity.
Qed.

(* ---------- a client transaction over an arbitrary sequence of events ---------- *)
Inductive cevent := Rx (a : apdu) | Timeout.

(* what the SMAP (for a frame that matches) and the TaskManager (for the timer: popped first) do *)
Definition c_handle (ev : cevent) (s : ssm) (ctr now : Z) : hst * option err :=
  match ev with
  | Rx a => c_confirmation a (mkH s [] ctr now true)
  | Timeout => c_process_task (mkH (set_timer_f None s) [] ctr now true)
  end.

(* everything the transaction emits, oldest first; it is handed no further event once it has left the table *)
Fixpoint c_run (evs : list (Z * cevent)) (s : ssm) (ctr : Z) : list out :=
  match evs with
  | [] => []
  | (now, ev) :: r =>
    let st' := fst (c_handle ev s ctr now) in
    rev (h_outs st') ++ (if h_live st' then c_run r (h_s st') (h_ctr st') else [])
  end.

Lemma ntoapp_app : forall a b, ntoapp (a ++ b) = ntoapp a + ntoapp b.
Proof. intros. unfold ntoapp, zlen. rewrite filter_app, app_length. lia. Qed.

Lemma ntoapp_rev : forall a, ntoapp (rev a) = ntoapp a.
Proof.
  induction a as [|o r IH]; [reflexivity|]. cbn [rev]. rewrite ntoapp_app, IH.
  unfold ntoapp, zlen. cbn [filter]. destruct (is_toapp o); cbn [length filter app]; lia.
Qed.

Lemma ntoapp_nonneg : forall a, 0 <= ntoapp a.
Proof. intros. unfold ntoapp, zlen. lia. Qed.

Definition c_ready (s : ssm) : Prop := terminal s = false /\ 0 < s_apdu_to s /\ 0 < s_seg_to s.

Lemma set_timer_ready : forall s, c_ready s -> c_ready (set_timer_f None s).
Proof. intros s H. destruct_ssm s. exact H. Qed.

(* one event: at most one outcome; an outcome iff the transaction leaves the table; still ready otherwise *)
Lemma c_handle_step : forall ev s ctr now, c_ready s ->
  let st' := fst (c_handle ev s ctr now) in
  ntoapp (h_outs st') <= 1 /\
  (ntoapp (h_outs st') = 1 <-> h_live st' = false) /\
  (h_live st' = true -> c_ready (h_s st')) /\
  (h_live st' = false -> s_timer (h_s st') = None /\ terminal (h_s st') = true /\
                         match h_outs st' with ToApp _ :: _ => True | _ => False end).
Proof.
  intros ev s ctr now (Ht & Ha & Hs).
  assert (Hgen : forall st r, pre st -> post st r -> h_s st = s \/ h_s st = set_timer_f None s ->
            ntoapp (h_outs (fst r)) <= 1 /\ (ntoapp (h_outs (fst r)) = 1 <-> h_live (fst r) = false) /\
            (h_live (fst r) = true -> c_ready (h_s (fst r))) /\
            (h_live (fst r) = false -> s_timer (h_s (fst r)) = None /\ terminal (h_s (fst r)) = true /\
                                       match h_outs (fst r) with ToApp _ :: _ => True | _ => False end)).
  { intros st r Hpre Hpost Hst.
    destruct Hpost as (_ & _ & Hcfg & H1 & H2 & H3 & H4 & _ & _ & H7).
    destruct Hcfg as (_ & _ & Hc1 & Hc2 & _).
    repeat split; auto; try tauto.
    - destruct (terminal (h_s (fst r))) eqn:E; [|reflexivity].
      assert (h_live (fst r) = false) by (apply H3; reflexivity). congruence.
    - rewrite Hc1. destruct Hst as [->| ->]; [exact Ha|]. destruct_ssm s. exact Ha.
    - rewrite Hc2. destruct Hst as [->| ->]; [exact Hs|]. destruct_ssm s. exact Hs. }
  destruct ev as [a|]; unfold c_handle.
  - assert (Hpre : pre (mkH s [] ctr now true)) by (repeat split; auto).
    apply (Hgen (mkH s [] ctr now true)); [exact Hpre | apply c_confirmation_post; exact Hpre | left; reflexivity].
  - assert (Hpre : pre (mkH (set_timer_f None s) [] ctr now true)).
    { repeat split; auto; destruct_ssm s; assumption. }
    destruct (c_state_ok (set_timer_f None s)) eqn:Eok.
    + apply (Hgen (mkH (set_timer_f None s) [] ctr now true)); [exact Hpre | apply c_process_task_post; assumption | right; reflexivity].
    + rewrite c_process_task_other; [| destruct_ssm s; exact Ht | exact Eok].
      cbn [fst h_outs h_live h_s]. repeat split; try discriminate; try (intros; discriminate).
      all: destruct_ssm s; assumption.
Qed.

(* C04: over any sequence of frames and time-outs a client transaction reports at most one outcome *)
Lemma c_run_at_most_one : forall evs s ctr, c_ready s -> ntoapp (c_run evs s ctr) <= 1.
Proof.
  induction evs as [|[now ev] r IH]; intros s ctr Hr; cbn [c_run].
  - unfold ntoapp, zlen; cbn; lia.
  - destruct (c_handle_step ev s ctr now Hr) as (H1 & H2 & H3 & H4).
    rewrite ntoapp_app, ntoapp_rev.
    destruct (h_live (fst (c_handle ev s ctr now))) eqn:El.
    + specialize (IH _ (h_ctr (fst (c_handle ev s ctr now))) (H3 eq_refl)).
      assert (ntoapp (h_outs (fst (c_handle ev s ctr now))) <> 1) by (intro X; apply H2 in X; congruence).
      pose proof (ntoapp_nonneg (h_outs (fst (c_handle ev s ctr now)))). lia.
    + unfold ntoapp at 2. unfold zlen. cbn. lia.
Qed.

(* ... and the outcome, if any, is the very last thing it emits: nothing is sent for it afterwards *)
Lemma c_run_outcome_last : forall evs s ctr, c_ready s -> ntoapp (c_run evs s ctr) = 1 ->
  exists pre_outs a, c_run evs s ctr = pre_outs ++ [ToApp a] /\ ntoapp pre_outs = 0.
Proof.
  induction evs as [|[now ev] r IH]; intros s ctr Hr Hn; cbn [c_run] in *.
  - unfold ntoapp, zlen in Hn; cbn in Hn; lia.
  - destruct (c_handle_step ev s ctr now Hr) as (H1 & H2 & H3 & H4).
    rewrite ntoapp_app, ntoapp_rev in Hn.
    destruct (h_live (fst (c_handle ev s ctr now))) eqn:El.
    + assert (ntoapp (h_outs (fst (c_handle ev s ctr now))) <> 1) by (intro X; apply H2 in X; congruence).
      pose proof (ntoapp_nonneg (h_outs (fst (c_handle ev s ctr now)))).
      pose proof (c_run_at_most_one r _ (h_ctr (fst (c_handle ev s ctr now))) (H3 eq_refl)).
      destruct (IH _ (h_ctr (fst (c_handle ev s ctr now))) (H3 eq_refl)) as (p & a & Hp & Hp0); [lia|].
      exists (rev (h_outs (fst (c_handle ev s ctr now))) ++ p), a. rewrite Hp, app_assoc. split; [reflexivity|].
      rewrite ntoapp_app, ntoapp_rev. lia.
    + destruct (H4 eq_refl) as (_ & _ & Hlast).
      destruct (h_outs (fst (c_handle ev s ctr now))) as [|[x|x] rest] eqn:Eo; try contradiction.
      exists (rev rest), x. cbn [rev]. rewrite app_nil_r. split; [reflexivity|].
      assert (ntoapp (ToApp x :: rest) = 1) by (apply H2; reflexivity).
      rewrite ntoapp_rev. unfold ntoapp, zlen in *. cbn [filter is_toapp length] in *. lia.
Qed.

(* the whole life of a request: ClientSSM.indication on a fresh transaction, then any events *)
Definition c_life (a : apdu) (s0 : ssm) (ctr now : Z) (evs : list (Z * cevent)) : list out :=
  let st := fst (c_indication a (mkH s0 [] ctr now true)) in
  rev (h_outs st) ++ (if h_live st then c_run evs (h_s st) (h_ctr st) else []).

Lemma c_life_at_most_one : forall a s0 ctr now evs, c_ready s0 -> ntoapp (c_life a s0 ctr now evs) <= 1.
Proof.
  intros a s0 ctr now evs (Ht & Ha & Hs). unfold c_life.
  assert (Hpre : pre (mkH s0 [] ctr now true)) by (repeat split; auto).
  destruct (c_indication_post a _ Hpre) as (_ & _ & Hcfg & H1 & H2 & H3 & _).
  destruct Hcfg as (_ & _ & Hc1 & Hc2 & _). cbn [h_s] in Hc1, Hc2.
  set (st0 := fst (c_indication a (mkH s0 [] ctr now true))) in *.
  rewrite ntoapp_app, ntoapp_rev.
  pose proof (ntoapp_nonneg (h_outs st0)).
  destruct (h_live st0) eqn:El.
  - assert (Hr : c_ready (h_s st0)).
    { repeat split; try lia. destruct (terminal (h_s st0)) eqn:E; [|reflexivity].
      exfalso. assert (true = false) by (apply H3; reflexivity). discriminate. }
    pose proof (c_run_at_most_one evs _ (h_ctr st0) Hr).
    assert (ntoapp (h_outs st0) <> 1) by (intro X; apply H2 in X; discriminate). lia.
  - unfold ntoapp at 2. unfold zlen. cbn. lia.
Qed.

(* live <-> armed after any handler that did not raise *)
Lemma c_live_iff_armed : forall ev s ctr now, c_ready s ->
  (match ev with Timeout => c_state_ok s = true | Rx _ => True end) ->
  snd (c_handle ev s ctr now) = None ->
  (h_live (fst (c_handle ev s ctr now)) = true <-> s_timer (h_s (fst (c_handle ev s ctr now))) <> None).
Proof.
  intros ev s ctr now (Ht & Ha & Hs) Hok He.
  assert (Hp : post (match ev with Rx _ => mkH s [] ctr now true | Timeout => mkH (set_timer_f None s) [] ctr now true end)
                    (c_handle ev s ctr now)).
  { destruct ev; unfold c_handle.
    - apply c_confirmation_post. repeat split; auto.
    - apply c_process_task_post; [repeat split; auto; destruct_ssm s; assumption | destruct_ssm s; exact Hok]. }
  destruct Hp as (_ & _ & _ & _ & _ & _ & H4 & H5 & _).
  split.
  - intros Hl. apply H5; assumption.
  - intros Hn. destruct (h_live (fst (c_handle ev s ctr now))) eqn:El; [reflexivity|]. exfalso. apply Hn. apply H4. reflexivity.
Qed.

(* ---------- witnesses used by props/C04.v ---------- *)
(* a server transaction in the middle of a segmented response *)
Definition busy_server : ssm :=
  mkSsm 1 5 SEGMENTED_RESPONSE (Some (mk_cack false false (-1) (-1) 5 12 [1; 2; 3; 4; 5; 6; 7; 8; 9; 10; 11; 12])) 5 3 0 0 false 0 0 None
        3 3000 1500 3 (Some 64) 50 true (Some (1500, 0)) None 2 3000.
(* a server transaction as StateMachineAccessPoint.confirmation creates it *)
Definition fresh_server : ssm := mkSsm 1 (-1) IDLE None 0 0 0 0 false 0 0 None 3 3000 1500 3 (Some 64) 50 false None None 2 3000.
Definition fresh_client : ssm := mkSsm 2 (-1) IDLE None 0 0 0 0 false 0 0 None 3 3000 1500 3 (Some 64) 50 false None None 2 3000.
