(* PrimFacts.v — lemmas about Prim.v: round trips, canonical forms, refusal conditions, and the
   table obligations over gen/Enums.v. *)
From Bac Require Import Base BytesFacts Tag TagHdr TagFacts Prim PrimTables.
From Coq Require Import ZifyBool ZifyN ZifyNat.
Ltac Zify.zify_post_hook ::= Z.to_euclidean_division_equations.
Open Scope N_scope.

(* ---------- table obligations (re-checked by make against the current source) ---------- *)
Lemma enums_bijective : forallb (fun p => enum_bijective (snd p)) all_enums = true.
Proof. vm_compute. reflexivity. Qed.
Lemma enums_in_range : forallb (fun p => enum_in_range (snd p)) all_enums = true.
Proof. vm_compute. reflexivity. Qed.
Lemma bitstrings_wf : forallb (fun p => bits_wf (snd p)) all_bitstrings = true.
Proof. vm_compute. reflexivity. Qed.
Lemma unsigned_limits_std :
  unsigned_limits = [("bacpypes.basetypes.AccessThreatLevel"%string, (0%Z, Some 100%Z));
                     ("bacpypes.primitivedata.Unsigned16"%string, (0%Z, Some 65535%Z));
                     ("bacpypes.primitivedata.Unsigned8"%string, (0%Z, Some 255%Z))]
  /\ objid_max_instance = 4194303%Z.
Proof. split; reflexivity. Qed.
