(* PrimFacts.v — lemmas about Prim.v: table lookups, round trips (tag level, context tagging, down to the
   octets through C02's tag_roundtrip), refusal conditions, canonical forms, and the table obligations over
   gen/Enums.v. *)
From Bac Require Import Base BytesFacts Tag TagHdr TagFacts Prim PrimTables PrimInt PrimBits.
From Coq Require Import ZifyBool ZifyN ZifyNat.
Ltac Zify.zify_post_hook ::= Z.to_euclidean_division_equations.
Open Scope N_scope.

(* ---------- table obligations (re-checked by make against the current source) ---------- *)
Lemma enums_bijective : forallb (fun p => enum_bijective (snd p)) all_enums = true.
Proof. vm_compute. reflexivity. Qed.
Lemma enums_in_range : forallb (fun p => enum_in_range (snd p)) all_enums = true.
Proof. vm_compute. reflexivity. Qed.
Lemma bitstrings_wf : forallb (fun p => bits_wf (snd p)) all_bitstrings = true.
Proof. vm_compute. reflexivity. Qed.
Lemma unsigned_limits_std :
  unsigned_limits = [("bacpypes.basetypes.AccessThreatLevel"%string, (0%Z, Some 100%Z));
                     ("bacpypes.primitivedata.Unsigned16"%string, (0%Z, Some 65535%Z));
                     ("bacpypes.primitivedata.Unsigned8"%string, (0%Z, Some 255%Z))]
  /\ objid_max_instance = 4194303%Z.
Proof. split; reflexivity. Qed.

(* ---------- lookups in a table, "later entry wins" ---------- *)
Lemma tbl_num_in tb s n : tbl_num tb s = Some n -> In (s, n) tb.
Proof.
  induction tb as [|[k v] r IH]; cbn [tbl_num]; [discriminate|].
  destruct (tbl_num r s) as [x|] eqn:E.
  - intros H; injection H as <-. right. apply IH. reflexivity.
  - destruct (String.eqb k s) eqn:K; [|discriminate].
    intros H; injection H as <-. apply String.eqb_eq in K. subst. left. reflexivity.
Qed.
Lemma tbl_name_in tb n s : tbl_name tb n = Some s -> In (s, n) tb.
Proof.
  induction tb as [|[k v] r IH]; cbn [tbl_name]; [discriminate|].
  destruct (tbl_name r n) as [x|] eqn:E.
  - intros H; injection H as <-. right. apply IH. reflexivity.
  - destruct (v =? n) eqn:K; [|discriminate].
    intros H; injection H as <-. apply N.eqb_eq in K. subst. left. reflexivity.
Qed.
Lemma tbl_num_none tb s : existsb (String.eqb s) (map fst tb) = false -> tbl_num tb s = None.
Proof.
  induction tb as [|[k v] r IH]; cbn [tbl_num map existsb fst]; [reflexivity|].
  intros H. apply orb_false_iff in H as [H1 H2]. rewrite (IH H2).
  rewrite String.eqb_sym, H1. reflexivity.
Qed.
Lemma tbl_name_none tb n : existsb (N.eqb n) (map snd tb) = false -> tbl_name tb n = None.
Proof.
  induction tb as [|[k v] r IH]; cbn [tbl_name map existsb snd]; [reflexivity|].
  intros H. apply orb_false_iff in H as [H1 H2]. rewrite (IH H2).
  rewrite N.eqb_sym, H1. reflexivity.
Qed.
Lemma in_tbl_num tb s n :
  nodupb String.eqb (map fst tb) = true -> In (s, n) tb -> tbl_num tb s = Some n.
Proof.
  induction tb as [|[k v] r IH]; cbn [nodupb map fst In tbl_num]; [intros _ []|].
  intros H. apply andb_true_iff in H as [H1 H2]. apply negb_true_iff in H1.
  intros [E|I].
  - injection E as -> ->. rewrite (tbl_num_none r s H1), String.eqb_refl. reflexivity.
  - rewrite (IH H2 I). reflexivity.
Qed.
Lemma in_tbl_name tb s n :
  nodupb N.eqb (map snd tb) = true -> In (s, n) tb -> tbl_name tb n = Some s.
Proof.
  induction tb as [|[k v] r IH]; cbn [nodupb map snd In tbl_name]; [intros _ []|].
  intros H. apply andb_true_iff in H as [H1 H2]. apply negb_true_iff in H1.
  intros [E|I].
  - injection E as -> ->. rewrite (tbl_name_none r n H1), N.eqb_refl. reflexivity.
  - rewrite (IH H2 I). reflexivity.
Qed.

(* in a bijective table number -> name undoes name -> number, and conversely *)
Lemma tbl_name_num tb s n : enum_bijective tb = true ->
  tbl_num tb s = Some n -> tbl_name tb n = Some s.
Proof.
  unfold enum_bijective. intros H E. apply andb_true_iff in H as [_ H].
  apply in_tbl_name; [assumption|]. apply tbl_num_in. assumption.
Qed.
Lemma tbl_num_name tb s n : enum_bijective tb = true ->
  tbl_name tb n = Some s -> tbl_num tb s = Some n.
Proof.
  unfold enum_bijective. intros H E. apply andb_true_iff in H as [H _].
  apply in_tbl_num; [assumption|]. apply tbl_name_in. assumption.
Qed.
Lemma tbl_num_range tb s n : enum_in_range tb = true -> tbl_num tb s = Some n -> n < 4294967296.
Proof.
  unfold enum_in_range. intros H E. apply tbl_num_in in E.
  rewrite forallb_forall in H. specialize (H _ E). cbn [snd] in H. lia.
Qed.

Lemma unbe_be4 n : n < 4294967296 -> unbe (be4 n) = n.
Proof. intros H. unfold unbe, be4. cbn [fold_left]. lia. Qed.
Lemma unbe_app4 l a b c d :
  unbe (l ++ [a; b; c; d]) = unbe l * 4294967296 + unbe [a; b; c; d].
Proof. unfold unbe. rewrite fold_left_app. cbn [fold_left]. lia. Qed.
(* in two 4-octet halves: one lia goal over all eight octets is slow to build and slower to re-check *)
Lemma unbe_be8 n : n < 18446744073709551616 -> unbe (be8 n) = n.
Proof.
  intros H. unfold be8.
  assert (H1 : n / 4294967296 < 4294967296) by (apply N.div_lt_upper_bound; [discriminate|exact H]).
  assert (H2 : n mod 4294967296 < 4294967296) by (apply N.mod_upper_bound; discriminate).
  pose proof (unbe_be4 _ H1) as E1. pose proof (unbe_be4 _ H2) as E2.
  unfold be4 at 2. rewrite unbe_app4. fold (be4 (n mod 4294967296)). rewrite E1, E2.
  rewrite N.mul_comm. symmetry. apply N.div_mod. discriminate.
Qed.

(* the states an Enumerated can be constructed in: a known name, or a number that has no name *)
Definition valid_eval (tb : table) (v : eval) : Prop :=
  match v with
  | EName s => tbl_num tb s <> None
  | ENum z => (0 <= z)%Z /\ tbl_name_z tb z = None
  end.

Lemma eval_of_num_name tb s n : enum_bijective tb = true -> tbl_num tb s = Some n ->
  eval_of_num tb n = EName s.
Proof. intros B E. unfold eval_of_num. rewrite (tbl_name_num tb s n B E). reflexivity. Qed.
Lemma eval_of_num_num tb z : (0 <= z)%Z -> tbl_name_z tb z = None ->
  eval_of_num tb (Z.to_N z) = ENum z.
Proof.
  intros H E. unfold tbl_name_z in E. destruct (z <? 0)%Z eqn:S; [lia|].
  unfold eval_of_num. rewrite E. f_equal. lia.
Qed.

Lemma enum_roundtrip tb v d :
  enum_bijective tb = true -> valid_eval tb v ->
  enc_enum tb v = Ok d ->
  (lenN d =? 0) = false /\ eval_of_num tb (unbe d) = v /\ exists n, n < 4294967296 /\ eval_num tb v = Ok (Z.of_N n) /\ d = spec_min_unsigned n.
Proof.
  intros B V. unfold enc_enum. destruct v as [s|z]; cbn [eval_num valid_eval] in *.
  - destruct (tbl_num tb s) as [n|] eqn:E; [|congruence]. cbn [bind].
    unfold pack_L. destruct ((0 <=? Z.of_N n)%Z && (Z.of_N n <? 4294967296)%Z) eqn:R; [|discriminate].
    cbn [bind]. rewrite N2Z.id, strip0_be4 by lia. intros H; injection H as <-.
    rewrite spec_min_unsigned_nonempty, unbe_spec_min_unsigned. split; [reflexivity|]. split.
    + apply eval_of_num_name; assumption.
    + exists n. split; [lia|]. split; reflexivity.
  - destruct V as [V1 V2]. cbn [bind]. unfold pack_L.
    destruct ((0 <=? z)%Z && (z <? 4294967296)%Z) eqn:R; [|discriminate].
    cbn [bind]. rewrite strip0_be4 by lia. intros H; injection H as <-.
    rewrite spec_min_unsigned_nonempty, unbe_spec_min_unsigned. split; [reflexivity|]. split.
    + apply eval_of_num_num; assumption.
    + exists (Z.to_N z). split; [lia|]. split; [f_equal; lia|reflexivity].
Qed.

(* object identifiers *)
Lemma objid_roundtrip tb t i d :
  enum_bijective tb = true -> valid_eval tb t -> (0 <= i <= 4194303)%Z ->
  enc_objid tb t i = Ok d ->
  lenN d = 4 /\ objid_of_word tb (unbe d) = PObjId t i /\
  exists tn, (0 <= tn < 1024)%Z /\ objid_word tb t i = Ok (tn * 4194304 + i)%Z /\ d = be4 (Z.to_N (tn * 4194304 + i)).
Proof.
  intros B V I. unfold enc_objid, objid_word. destruct t as [s|z]; cbn [valid_eval] in V.
  - destruct (tbl_num tb s) as [n|] eqn:E; [|congruence]. cbn [bind]. unfold pack_L.
    destruct ((0 <=? Z.of_N n * 4194304 + i)%Z && (Z.of_N n * 4194304 + i <? 4294967296)%Z) eqn:R; [|discriminate].
    intros H; injection H as <-. split; [reflexivity|]. rewrite unbe_be4 by lia. split.
    + unfold objid_of_word. f_equal.
      * replace ((Z.to_N (Z.of_N n * 4194304 + i) / 4194304) mod 1024) with n by lia.
        apply eval_of_num_name; assumption.
      * lia.
    + exists (Z.of_N n). split; [lia|]. split; reflexivity.
  - destruct V as [V1 V2]. cbn [bind]. unfold pack_L.
    destruct ((0 <=? z * 4194304 + i)%Z && (z * 4194304 + i <? 4294967296)%Z) eqn:R; [|discriminate].
    intros H; injection H as <-. split; [reflexivity|]. rewrite unbe_be4 by lia. split.
    + unfold objid_of_word. f_equal.
      * replace ((Z.to_N (z * 4194304 + i) / 4194304) mod 1024) with (Z.to_N z) by lia.
        apply eval_of_num_num; assumption.
      * lia.
    + exists z. split; [lia|]. split; reflexivity.
Qed.


(* a double is a binary32 value when narrowing and widening give it back *)
Definition real_exact (d : N) : Prop := exists p, round32 d = Ok p /\ widen32 p = d.
Definition chars_decodable (e : N) (l : list N) : bool :=
  negb ((e =? 3) && negb (utf32be_ok l)) && negb ((e =? 4) && negb (utf16be_ok false l)).

(* the domain of the round-trip theorems: what the public constructors can produce *)
Definition prim_ok (tb : table) (v : prim) : Prop :=
  match v with
  | PReal d => d < 18446744073709551616 /\ real_exact d
  | PDouble d => d < 18446744073709551616
  | PChars e l => chars_decodable e l = true
  | PEnum x => valid_eval tb x
  | PObjId t i => valid_eval tb t /\ (0 <= i <= 4194303)%Z
  | _ => True
  end.

Lemma round32_lt d p : d < 18446744073709551616 -> round32 d = Ok p -> p < 4294967296.
Proof.
  intros D. unfold round32.
  change (2^63) with 9223372036854775808. change (2^31) with 2147483648.
  assert (Hs : d / 9223372036854775808 < 2) by (apply N.div_lt_upper_bound; [discriminate|exact D]).
  set (s := d / 9223372036854775808) in *. clearbody s.
  set (e := (d / 2^52) mod 2048). clearbody e.
  set (m := d mod 2^52). clearbody m.
  destruct (e =? 2047) eqn:E1.
  - destruct (m =? 0) eqn:E2; intros H; injection H as <-.
    + lia.
    + assert (X : (m / 2^29) mod 4194304 < 4194304) by (apply N.mod_upper_bound; discriminate).
      set (x := (m / 2^29) mod 4194304) in *. clearbody x. lia.
  - destruct (e =? 0) eqn:E3; [intros H; injection H as <-; lia|].
    match goal with |- context [2139095040 <=? ?x] => set (X := x); clearbody X end.
    destruct (2139095040 <=? X) eqn:E4; [discriminate|].
    intros H; injection H as <-. lia.
Qed.

Ltac dec_head := unfold dec_app, app_tag; cbn [cls num lvt data]; rewrite ?N.eqb_refl; cbn [negb orb].

Theorem roundtrip_app tb v t :
  enum_bijective tb = true -> prim_ok tb v ->
  enc_app tb v = Ok t -> dec_app tb (kind v) t = Ok v.
Proof.
  intros B V. destruct v; cbn [enc_app kind prim_ok] in *.
  - intros H; injection H as <-. reflexivity.
  - intros H; injection H as <-. destruct b; reflexivity.
  - assert (R: (0 <= z < 4294967296)%Z \/ ~ (0 <= z < 4294967296)%Z) by lia. destruct R as [R|R].
    + rewrite enc_unsigned_spec by assumption. cbn [bind]. intros H; injection H as <-.
      dec_head. rewrite spec_min_unsigned_nonempty, unbe_spec_min_unsigned. f_equal. f_equal. lia.
    + rewrite enc_unsigned_refuse by assumption. discriminate.
  - assert (R: (-2147483648 <= z <= 2147483647)%Z \/ ~ (-2147483648 <= z <= 2147483647)%Z) by lia.
    destruct R as [R|R].
    + rewrite enc_integer_spec by assumption. cbn [bind]. intros H; injection H as <-.
      dec_head. rewrite dec_integer_spec by assumption. reflexivity.
    + rewrite enc_integer_refuse by assumption. discriminate.
  - destruct V as [D [p [R W]]]. unfold enc_real. rewrite R. cbn [bind]. intros H; injection H as <-.
    dec_head. change (lenN (be4 p) =? 4) with true. cbv iota.
    rewrite unbe_be4 by (eapply round32_lt; eassumption). rewrite W. reflexivity.
  - unfold enc_double. cbn [bind]. intros H; injection H as <-.
    dec_head. change (lenN (be8 d) =? 8) with true. cbv iota. rewrite unbe_be8 by assumption. reflexivity.
  - intros H; injection H as <-. reflexivity.
  - unfold put. destruct (enc <? 256) eqn:E; [|discriminate]. cbn [bind app]. intros H; injection H as <-.
    dec_head. unfold chars_decodable in V. apply andb_true_iff in V as [V1 V2].
    apply negb_true_iff in V1, V2. rewrite V1, V2. reflexivity.
  - intros H; injection H as <-. dec_head. rewrite bits_roundtrip. reflexivity.
  - destruct (enc_enum tb v) as [d|] eqn:E; [|discriminate]. cbn [bind]. intros H; injection H as <-.
    destruct (enum_roundtrip tb v d B V E) as [L [R _]]. dec_head. rewrite L, R. reflexivity.
  - unfold enc_tuple4, octet_of.
    destruct ((0 <=? y)%Z && (y <? 256)%Z) eqn:E1; [|discriminate]. cbn [bind].
    destruct ((0 <=? m)%Z && (m <? 256)%Z) eqn:E2; [|discriminate]. cbn [bind].
    destruct ((0 <=? d)%Z && (d <? 256)%Z) eqn:E3; [|discriminate]. cbn [bind].
    destruct ((0 <=? w)%Z && (w <? 256)%Z) eqn:E4; [|discriminate]. cbn [bind].
    intros H; injection H as <-. dec_head. f_equal. f_equal; lia.
  - unfold enc_tuple4, octet_of.
    destruct ((0 <=? h)%Z && (h <? 256)%Z) eqn:E1; [|discriminate]. cbn [bind].
    destruct ((0 <=? m)%Z && (m <? 256)%Z) eqn:E2; [|discriminate]. cbn [bind].
    destruct ((0 <=? s)%Z && (s <? 256)%Z) eqn:E3; [|discriminate]. cbn [bind].
    destruct ((0 <=? c)%Z && (c <? 256)%Z) eqn:E4; [|discriminate]. cbn [bind].
    intros H; injection H as <-. dec_head. f_equal. f_equal; lia.
  - destruct V as [V I]. destruct (enc_objid tb t0 i) as [d|] eqn:E; [|discriminate]. cbn [bind].
    intros H; injection H as <-.
    destruct (objid_roundtrip tb t0 i d B V I E) as [L [R _]]. dec_head. rewrite L. cbv iota.
    change (4 =? 4) with true. cbv iota. exact (f_equal Ok R).
Qed.

(* what encode(tag) leaves in the tag: application class, the class's tag number, LVT = length of
   the content — except Boolean, whose value sits in the LVT and whose content is empty *)
Definition app_shape (k : N) (t : tag) : Prop :=
  cls t = 0 /\ num t = k /\
  (if k =? 1 then data t = [] /\ lvt t <= 1 else lvt t = lenN (data t)).

Lemma enc_app_shape tb v t : enc_app tb v = Ok t -> app_shape (kind v) t.
Proof.
  destruct v; cbn [enc_app kind];
  try (intros H; injection H as <-; repeat split; fail).
  - intros H; injection H as <-. repeat split. destruct b; cbn; lia.
  - destruct (enc_unsigned z); [|discriminate]. intros H; injection H as <-. repeat split.
  - destruct (enc_integer z); [|discriminate]. intros H; injection H as <-. repeat split.
  - destruct (enc_real d); [|discriminate]. intros H; injection H as <-. repeat split.
  - destruct (put enc); [|discriminate]. intros H; injection H as <-. repeat split.
  - destruct (enc_enum tb v); [|discriminate]. intros H; injection H as <-. repeat split.
  - destruct (enc_tuple4 y m d w); [|discriminate]. intros H; injection H as <-. repeat split.
  - destruct (enc_tuple4 h m s c); [|discriminate]. intros H; injection H as <-. repeat split.
  - destruct (enc_objid tb t0 i); [|discriminate]. intros H; injection H as <-. repeat split.
Qed.

Lemma kind_le v : kind v <= 12.
Proof. destruct v; cbn; lia. Qed.

(* Tag.app_to_context followed by Tag.context_to_app gives the application tag back *)
Lemma ctx_roundtrip c k t : app_shape k t ->
  exists x, app_to_ctx c t = Ok x /\ ctx_to_app k x = Ok t /\
            cls x = 1 /\ num x = c /\ lvt x = lenN (data x) /\
            (bytes_ok (data t) = true -> bytes_ok (data x) = true) /\
            (lvt t < 4294967296 -> lvt x < 4294967296).
Proof.
  destruct t as [tc tn tl td]. unfold app_shape; cbn [cls num lvt data].
  intros [-> [-> S]]. unfold app_to_ctx, ctx_to_app; cbn [cls num lvt data negb N.eqb].
  destruct (k =? 1) eqn:K.
  - destruct S as [-> L]. unfold put. destruct (tl <? 256) eqn:E; [|lia]. cbn [bind].
    eexists. split; [reflexivity|]. cbn [cls num lvt data negb N.eqb]. apply N.eqb_eq in K. subst k.
    repeat split; try reflexivity.
    all: intros _; cbn [lvt data lenN length N.of_nat]; try lia.
    all: unfold bytes_ok, byte_ok; cbn [forallb]; rewrite E; reflexivity.
  - eexists. split; [reflexivity|]. cbn [cls num lvt data negb N.eqb]. subst tl.
    repeat split; try reflexivity; auto.
Qed.

Theorem roundtrip_ctx tb v c t :
  enum_bijective tb = true -> prim_ok tb v -> enc_app tb v = Ok t ->
  exists x, app_to_ctx c t = Ok x /\
            (do a <- ctx_to_app (kind v) x; dec_app tb (kind v) a) = Ok v.
Proof.
  intros B V E. destruct (ctx_roundtrip c (kind v) t (enc_app_shape tb v t E)) as [x [A [C _]]].
  exists x. split; [assumption|]. rewrite C. cbn [bind]. apply roundtrip_app; assumption.
Qed.

Lemma shape_wf k t : k <= 12 -> app_shape k t -> bytes_ok (data t) = true -> lvt t < 4294967296 ->
  wf_tag t = true.
Proof.
  destruct t as [tc tn tl td]. unfold app_shape, wf_tag; cbn [cls num lvt data].
  intros K [-> [-> S]] Bs L. rewrite Bs.
  destruct (k =? 1) eqn:K1.
  - destruct S as [-> S]. apply N.eqb_eq in K1. subst k. cbn. lia.
  - subst tl. change (0 =? 2) with false. change (0 =? 3) with false. change (0 =? 0) with true.
    cbn [orb andb]. rewrite N.eqb_refl. lia.
Qed.

(* down to the wire and back, application tagging: the octets of Tag.encode, followed by anything,
   decode to exactly the value and leave the rest untouched (composition with C02) *)
Theorem wire_roundtrip_app tb v t bs rest :
  enum_bijective tb = true -> prim_ok tb v ->
  enc_app tb v = Ok t -> bytes_ok (data t) = true -> lvt t < 4294967296 ->
  enc_tag t = Ok bs ->
  dec_octets_app tb (kind v) (bs ++ rest) = Ok (v, rest).
Proof.
  intros B V E Bs L T.
  pose proof (shape_wf (kind v) t (kind_le v) (enc_app_shape tb v t E) Bs L) as W.
  destruct (tag_roundtrip t W) as [bs' [T' D]]. rewrite T in T'. injection T' as <-.
  unfold dec_octets_app. rewrite D. cbn [bind]. rewrite (roundtrip_app tb v t B V E). reflexivity.
Qed.

Theorem wire_roundtrip_ctx tb v c t rest :
  enum_bijective tb = true -> prim_ok tb v -> c <= 254 ->
  enc_app tb v = Ok t -> bytes_ok (data t) = true -> lvt t < 4294967296 ->
  exists bs, enc_octets_ctx tb c v = Ok bs /\
             dec_octets_ctx tb (kind v) (bs ++ rest) = Ok (v, rest).
Proof.
  intros B V C E Bs L.
  destruct (ctx_roundtrip c (kind v) t (enc_app_shape tb v t E)) as [x [A [R [X1 [X2 [X3 [X4 X5]]]]]]].
  assert (W : wf_tag x = true).
  { destruct x as [xc xn xl xd]. cbn [cls num lvt data] in *. subst xc xn xl.
    unfold wf_tag; cbn [cls num lvt data]. rewrite (X4 Bs). specialize (X5 L). cbn. lia. }
  destruct (tag_roundtrip x W) as [bs [T D]]. exists bs. split.
  - unfold enc_octets_ctx. rewrite E. cbn [bind]. rewrite A. cbn [bind]. exact T.
  - unfold dec_octets_ctx. rewrite D. cbn [bind]. rewrite R. cbn [bind].
    rewrite (roundtrip_app tb v t B V E). reflexivity.
Qed.

(* ---------- never silently altered ---------- *)
Theorem refuse_or_faithful tb v :
  enum_bijective tb = true -> prim_ok tb v ->
  (exists e, enc_app tb v = Err e) \/
  (exists t, enc_app tb v = Ok t /\ dec_app tb (kind v) t = Ok v).
Proof.
  intros B V. destruct (enc_app tb v) as [t|e] eqn:E.
  - right. exists t. split; [reflexivity|]. apply roundtrip_app; assumption.
  - left. exists e. reflexivity.
Qed.

Theorem unsigned_refuse_iff tb z :
  (exists e, enc_app tb (PUnsigned z) = Err e) <-> ~ (0 <= z < 4294967296)%Z.
Proof.
  cbn [enc_app]. split.
  - intros [e H] R. rewrite enc_unsigned_spec in H by assumption. discriminate.
  - intros R. rewrite enc_unsigned_refuse by assumption. eexists. reflexivity.
Qed.
Theorem integer_refuse_iff tb z :
  (exists e, enc_app tb (PInteger z) = Err e) <-> ~ (-2147483648 <= z <= 2147483647)%Z.
Proof.
  cbn [enc_app]. split.
  - intros [e H] R. rewrite enc_integer_spec in H by assumption. discriminate.
  - intros R. rewrite enc_integer_refuse by assumption. eexists. reflexivity.
Qed.
Lemma octet_of_ok z : (0 <= z < 256)%Z -> octet_of z = Ok (Z.to_N z).
Proof. intros H. unfold octet_of. destruct ((0 <=? z)%Z && (z <? 256)%Z) eqn:E; [reflexivity|lia]. Qed.
Lemma octet_of_err z : ~ (0 <= z < 256)%Z -> octet_of z = Err ValueErr.
Proof. intros H. unfold octet_of. destruct ((0 <=? z)%Z && (z <? 256)%Z) eqn:E; [lia|reflexivity]. Qed.
Lemma tuple4_refuse_iff a b c d :
  (exists e, enc_tuple4 a b c d = Err e) <->
  ~ ((0 <= a < 256) /\ (0 <= b < 256) /\ (0 <= c < 256) /\ (0 <= d < 256))%Z.
Proof.
  unfold enc_tuple4. split.
  - intros [e H] [Ha [Hb [Hc Hd]]]. rewrite !octet_of_ok in H by assumption. discriminate.
  - intros R.
    assert (Ca : (0 <= a < 256)%Z \/ ~ (0 <= a < 256)%Z) by lia. destruct Ca as [Ca|Ca];
      [rewrite (octet_of_ok a Ca)|rewrite (octet_of_err a Ca); eexists; reflexivity]. cbn [bind].
    assert (Cb : (0 <= b < 256)%Z \/ ~ (0 <= b < 256)%Z) by lia. destruct Cb as [Cb|Cb];
      [rewrite (octet_of_ok b Cb)|rewrite (octet_of_err b Cb); eexists; reflexivity]. cbn [bind].
    assert (Cc : (0 <= c < 256)%Z \/ ~ (0 <= c < 256)%Z) by lia. destruct Cc as [Cc|Cc];
      [rewrite (octet_of_ok c Cc)|rewrite (octet_of_err c Cc); eexists; reflexivity]. cbn [bind].
    assert (Cd : (0 <= d < 256)%Z \/ ~ (0 <= d < 256)%Z) by lia. destruct Cd as [Cd|Cd];
      [lia|rewrite (octet_of_err d Cd); eexists; reflexivity].
Qed.
Theorem date_refuse_iff tb y m d w :
  (exists e, enc_app tb (PDate y m d w) = Err e) <->
  ~ ((0 <= y < 256) /\ (0 <= m < 256) /\ (0 <= d < 256) /\ (0 <= w < 256))%Z.
Proof.
  rewrite <- tuple4_refuse_iff. cbn [enc_app]. destruct (enc_tuple4 y m d w); cbn [bind]; split; intros [e' H]; try discriminate; eexists; reflexivity.
Qed.
Theorem time_refuse_iff tb h m s c :
  (exists e, enc_app tb (PTime h m s c) = Err e) <->
  ~ ((0 <= h < 256) /\ (0 <= m < 256) /\ (0 <= s < 256) /\ (0 <= c < 256))%Z.
Proof.
  rewrite <- tuple4_refuse_iff. cbn [enc_app]. destruct (enc_tuple4 h m s c); cbn [bind]; split; intros [e' H]; try discriminate; eexists; reflexivity.
Qed.
(* with the instance in the range set_tuple enforces, the encoder refuses exactly the types >= 1024 *)
Theorem objid_refuse_iff tb z i : (0 <= i <= 4194303)%Z ->
  (exists e, enc_app tb (PObjId (ENum z) i) = Err e) <-> ~ (0 <= z < 1024)%Z.
Proof.
  intros I. cbn [enc_app]. unfold enc_objid, objid_word. cbn [bind]. unfold pack_L.
  destruct ((0 <=? z * 4194304 + i)%Z && (z * 4194304 + i <? 4294967296)%Z) eqn:R; cbn [bind]; split.
  - intros [e H]. discriminate.
  - intros H. lia.
  - intros _. lia.
  - intros _. eexists. reflexivity.
Qed.

(* ---------- canonical forms ---------- *)
Theorem unsigned_shortest tb z t : enc_app tb (PUnsigned z) = Ok t ->
  (0 <= z < 4294967296)%Z /\ data t = spec_min_unsigned (Z.to_N z) /\ unbe (data t) = Z.to_N z.
Proof.
  cbn [enc_app]. intros H.
  assert (R: (0 <= z < 4294967296)%Z \/ ~ (0 <= z < 4294967296)%Z) by lia. destruct R as [R|R].
  - rewrite enc_unsigned_spec in H by assumption. injection H as <-. cbn [data app_tag].
    split; [assumption|]. split; [reflexivity|apply unbe_spec_min_unsigned].
  - rewrite enc_unsigned_refuse in H by assumption. discriminate.
Qed.
Theorem integer_shortest tb z t : enc_app tb (PInteger z) = Ok t ->
  (-2147483648 <= z <= 2147483647)%Z /\ data t = spec_min_signed z.
Proof.
  cbn [enc_app]. intros H.
  assert (R: (-2147483648 <= z <= 2147483647)%Z \/ ~ (-2147483648 <= z <= 2147483647)%Z) by lia.
  destruct R as [R|R].
  - rewrite enc_integer_spec in H by assumption. injection H as <-. split; [assumption|reflexivity].
  - rewrite enc_integer_refuse in H by assumption. discriminate.
Qed.
Theorem enum_shortest tb v t : enum_bijective tb = true -> valid_eval tb v ->
  enc_app tb (PEnum v) = Ok t ->
  exists n, n < 4294967296 /\ eval_num tb v = Ok (Z.of_N n) /\ data t = spec_min_unsigned n.
Proof.
  intros B V. cbn [enc_app]. destruct (enc_enum tb v) as [d|] eqn:E; [|discriminate].
  intros H; injection H as <-. destruct (enum_roundtrip tb v d B V E) as [_ [_ X]]. exact X.
Qed.
Theorem bitstring_layout tb l t : enc_app tb (PBits l) = Ok t ->
  data t = ((8 - lenN l mod 8) mod 8) :: pack_bits l /\
  lenN (pack_bits l) = (lenN l + 7) / 8 /\
  flat_map byte_bits (pack_bits l) = (l ++ repeat false (N.to_nat ((8 - lenN l mod 8) mod 8)))%list.
Proof.
  cbn [enc_app]. intros H; injection H as <-. cbn [data app_tag]. unfold enc_bits.
  rewrite <- unused_bits_spec. split; [reflexivity|]. split; [apply pack_bits_length|apply unpack_pack].
Qed.
Theorem real_ieee tb d t : enc_app tb (PReal d) = Ok t ->
  exists p, round32 d = Ok p /\ data t = be4 p /\ lvt t = 4.
Proof.
  cbn [enc_app]. unfold enc_real. destruct (round32 d) as [p|]; [|discriminate]. cbn [bind].
  intros H; injection H as <-. exists p. repeat split.
Qed.
Theorem double_ieee tb d t : enc_app tb (PDouble d) = Ok t -> data t = be8 d /\ lvt t = 8.
Proof. cbn [enc_app]. unfold enc_double. cbn [bind]. intros H; injection H as <-. split; reflexivity. Qed.
Theorem objid_layout tb t0 i t : enum_bijective tb = true -> valid_eval tb t0 -> (0 <= i <= 4194303)%Z ->
  enc_app tb (PObjId t0 i) = Ok t ->
  exists tn, (0 <= tn < 1024)%Z /\ objid_word tb t0 i = Ok (tn * 4194304 + i)%Z /\
             data t = be4 (Z.to_N (tn * 4194304 + i)) /\ lvt t = 4.
Proof.
  intros B V I. cbn [enc_app]. destruct (enc_objid tb t0 i) as [d|] eqn:E; [|discriminate].
  intros H; injection H as <-. destruct (objid_roundtrip tb t0 i d B V I E) as [L [_ [tn [T [W D]]]]].
  exists tn. repeat split; try assumption; try lia.
Qed.
Theorem date_time_layout tb a b c d t :
  enc_app tb (PDate a b c d) = Ok t \/ enc_app tb (PTime a b c d) = Ok t ->
  data t = [Z.to_N a; Z.to_N b; Z.to_N c; Z.to_N d] /\ lvt t = 4.
Proof.
  cbn [enc_app]. intros H.
  assert (X : exists l, enc_tuple4 a b c d = Ok l /\ data t = l /\ lvt t = lenN l).
  { destruct H as [H|H]; destruct (enc_tuple4 a b c d) as [l|]; try discriminate;
    injection H as <-; exists l; repeat split. }
  destruct X as [l [E [-> ->]]]. unfold enc_tuple4, octet_of in E.
  destruct ((0 <=? a)%Z && (a <? 256)%Z); [|discriminate].
  destruct ((0 <=? b)%Z && (b <? 256)%Z); [|discriminate].
  destruct ((0 <=? c)%Z && (c <? 256)%Z); [|discriminate].
  destruct ((0 <=? d)%Z && (d <? 256)%Z); [|discriminate].
  injection E as <-. split; reflexivity.
Qed.

(* every table of the library (gen/Enums.v): names and numbers survive *)
Theorem enum_roundtrip_all name tb v t :
  In (name, tb) all_enums -> valid_eval tb v ->
  enc_app tb (PEnum v) = Ok t -> dec_app tb 9 t = Ok (PEnum v).
Proof.
  intros I V E. pose proof enums_bijective as B. rewrite forallb_forall in B.
  specialize (B _ I). cbn [snd] in B. exact (roundtrip_app tb (PEnum v) t B V E).
Qed.

(* what comes back from a bit string is exactly the bits that went in: same length for every length — the decoder
   has no notion of a class width (bitLen) to pad or cut to *)
Theorem bitstring_exact tb l t : enc_app tb (PBits l) = Ok t ->
  dec_app tb 8 t = Ok (PBits l) /\
  (forall l', dec_app tb 8 t = Ok (PBits l') -> length l' = length l).
Proof.
  cbn [enc_app]. intros H; injection H as <-.
  assert (D : dec_app tb 8 (app_tag 8 (enc_bits l)) = Ok (PBits l)).
  { dec_head. rewrite bits_roundtrip. reflexivity. }
  split; [exact D|]. intros l' E. rewrite D in E. injection E as <-. reflexivity.
Qed.
