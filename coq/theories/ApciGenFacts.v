(* ApciGenFacts.v — the AST translation of apdu.py's header methods (BacGen.ApciFns, regenerated from
   the source on every run) EQUALS the hand model (Apci.v / ApciSession.v), for all inputs.
   The scripts destruct on the type code, the option fields and the shape of the input list only;
   they do not mention generated variable names.  A source edit that changes behaviour changes
   ApciFns.v and one of these lemmas stops checking. *)
From Bac Require Import Base BytesFacts Apci ApciRt ApciHdr ApciDec ApciSession ApciSessionFacts.
From BacGen Require Import ApciFns.
From Coq Require Import ZifyBool ZifyN ZifyNat.
Open Scope Z_scope.

(* the eight pduType class constants are the type codes of clause 20.1, in class order *)
Lemma pdu_type_constants_std : pdu_type_constants = [0; 1; 2; 3; 4; 5; 6; 7].
Proof. reflexivity. Qed.

(* closed arithmetic under putz is evaluated; arithmetic over variables is left as written *)
Ltac norm_putz :=
  repeat match goal with
  | |- context [putz ?z] =>
      lazymatch z with
      | Z0 => fail
      | Zpos _ => fail
      | Zneg _ => fail
      | _ => let v := eval vm_compute in z in
             lazymatch v with
             | Z0 => change z with v
             | Zpos _ => change z with v
             | Zneg _ => change z with v
             end
      end
  end.

Ltac red_enc :=
  cbn [bind fst snd a_put a_put_field a_need a_oz_eqb truthy flag put_field
       aType aSeg aMor aSA aSrv aNak aSeq aWin aMaxSegs aMaxResp aService aInvokeID aReason
       Z.eqb Pos.eqb].

Ltac crunch_enc :=
  repeat (red_enc; norm_putz;
          match goal with
          | |- ?x = ?x => reflexivity
          | |- context [truthy ?o] => is_var o; destruct o as [[|]|]
          | |- context [put_field ?o] => is_var o; destruct o
          | |- context [a_need ?o] => is_var o; destruct o
          | |- context [match ?o with Some _ => _ | None => _ end] => is_var o; destruct o
          | |- context [bind (putz ?z) _] => destruct (putz z)
          end);
  red_enc; try reflexivity; rewrite <- ?app_assoc; try reflexivity.

(* ---- APCI.update: copies all thirteen attributes, touches no pduData *)
Lemma py_APCI_update_eq a sd b bd : py_APCI_update a sd b bd = Ok ((b, sd), (b, bd)).
Proof. destruct a, b. reflexivity. Qed.

(* ---- APCI.encode: appends exactly enc_apci's octets to the target's pduData, changes nothing else *)
Lemma py_APCI_encode_eq a sd pa pd :
  py_APCI_encode a sd pa pd = do h <- enc_apci a; Ok ((a, sd), (pa, pd ++ h)).
Proof.
  destruct a as [ty seg mor sa srv nak sq wn ms mr svc inv rsn].
  unfold py_APCI_encode, enc_apci; autounfold with apci_consts; unfold a_put, a_put_field.
  destruct ty as [[|[[[p|p|]|[p|p|]|]|[[p|p|]|[p|p|]|]|]|p]|]; crunch_enc.
Qed.

(* ---- APCI.decode into an object whose attributes are `old`: dec_apci's attributes overlaid,
   the rest of the buffer left in the source; the types that carry a service payload also get
   self.pduData = pdu.pduData (data_taken) *)
Ltac red_dec :=
  cbn [bind get getz fst snd a_oz_eqb truthy bit
       set_aType set_aSeg set_aMor set_aSA set_aSrv set_aNak set_aSeq set_aWin set_aMaxSegs
       set_aMaxResp set_aService set_aInvokeID set_aReason
       aType aSeg aMor aSA aSrv aNak aSeq aWin aMaxSegs aMaxResp aService aInvokeID aReason
       overlay pick data_taken negb Z.of_N Z.eqb Pos.eqb N.eqb].

Lemma py_APCI_decode_eq old sd pa bs :
  py_APCI_decode old sd pa bs
  = do (a, r) <- dec_apci bs; Ok ((overlay old a, if data_taken a then r else sd), (pa, r)).
Proof.
  destruct old as [o1 o2 o3 o4 o5 o6 o7 o8 o9 o10 o11 o12 o13].
  destruct bs as [|b r]; [reflexivity|].
  unfold py_APCI_decode, dec_apci, bit; autounfold with apci_consts.
  cbn [get bind].
  pose proof (type_range b) as R.
  remember (N.land (N.shiftr b 4) 15)%N as ty eqn:Ety.
  destruct ty as [|p]; [|do 4 (try (destruct p as [p|p|]); try (exfalso; lia))];
    red_dec;
    repeat (match goal with
            | |- ?x = ?x => reflexivity
            | |- context [get ?l] => is_var l; destruct l
            | |- context [(N.land ?x ?m =? 0)%N] => destruct (N.land x m =? 0)%N
            end; red_dec);
    reflexivity.
Qed.

(* ---- APDU.encode: header then payload, appended to the target; the encoded object is unchanged *)
Lemma py_APDU_encode_eq a sd pa pd :
  py_APDU_encode a sd pa pd = do bs <- enc_apdu a sd; Ok ((a, sd), (pa, pd ++ bs)).
Proof.
  unfold py_APDU_encode, enc_apdu. rewrite py_APCI_encode_eq.
  destruct (enc_apci a) as [h|e]; cbn [bind]; [|reflexivity].
  rewrite <- app_assoc. reflexivity.
Qed.

Lemma a_get_data_all r : a_get_data (zlen r) r = Ok (r, []).
Proof.
  unfold a_get_data, zlen, get_data, lenN.
  destruct (Z.of_nat (length r) <? 0) eqn:E; [lia|].
  replace (N.of_nat (length r) <? Z.to_N (Z.of_nat (length r)))%N with false by lia.
  replace (N.to_nat (Z.to_N (Z.of_nat (length r)))) with (length r) by lia.
  rewrite firstn_all, skipn_all. reflexivity.
Qed.

(* ---- APDU.decode into an object (old attributes, old pduData `sd`): the session model's dec_into;
   the old pduData is REPLACED by everything after the header and the source is drained *)
Lemma py_APDU_decode_eq old sd pa bs :
  py_APDU_decode old sd pa bs = do (a, r) <- dec_into old bs; Ok ((a, r), (pa, [])).
Proof.
  unfold py_APDU_decode, dec_into. rewrite py_APCI_decode_eq.
  destruct (dec_apci bs) as [[a r]|e]; cbn [bind]; [|reflexivity].
  rewrite a_get_data_all. reflexivity.
Qed.

(* ---- _APDU.encode (the typed PDU classes): the target receives all thirteen attributes and the
   payload appended; _APDU.decode: the typed object receives all thirteen attributes and its old
   pduData is REPLACED by the source's, which is drained *)
Lemma py__APDU_encode_eq a sd pa pd : py__APDU_encode a sd pa pd = Ok ((a, sd), (a, pd ++ sd)).
Proof. unfold py__APDU_encode. rewrite py_APCI_update_eq. reflexivity. Qed.

Lemma py__APDU_decode_eq old sd a pd : py__APDU_decode old sd a pd = Ok ((a, pd), (a, [])).
Proof.
  unfold py__APDU_decode. rewrite py_APCI_update_eq. cbn [bind].
  rewrite a_get_data_all. reflexivity.
Qed.

(* ================= the main theorems restated directly on the translated functions *)

(* layout + round trip, for every payload of every length: the translated APDU.encode of a
   well-formed header produces spec20_1 h ++ payload in an empty target, and the translated
   APDU.decode of those octets into a fresh object restores the attributes and the payload *)
Lemma gen_roundtrip h payload pa : wf_hdr h = true ->
  py_APDU_encode (to_apci h) payload pa [] = Ok ((to_apci h, payload), (pa, spec20_1 h ++ payload)) /\
  py_APDU_decode apci_none [] pa (spec20_1 h ++ payload) = Ok ((to_apci h, payload), (pa, [])).
Proof.
  intros W. rewrite py_APDU_encode_eq, py_APDU_decode_eq, dec_into_fresh.
  destruct (hdr_roundtrip h payload W) as (bs & E & -> & D).
  rewrite E, D. split; reflexivity.
Qed.

Lemma gen_layout h sd pa pd : wf_hdr h = true ->
  py_APCI_encode (to_apci h) sd pa pd = Ok ((to_apci h, sd), (pa, pd ++ spec20_1 h)).
Proof. intros W. rewrite py_APCI_encode_eq, (hdr_layout h W). reflexivity. Qed.

(* arbitrary octets: a header or DecodingError — no other exception, whatever the length *)
Lemma gen_decode_total old sd pa bs :
  (exists a r, py_APDU_decode old sd pa bs = Ok ((a, r), (pa, []))) \/
  py_APDU_decode old sd pa bs = Err DecodingError.
Proof.
  rewrite py_APDU_decode_eq. unfold dec_into.
  destruct (decode_total bs) as [(a & r & D)|D]; rewrite D; cbn [bind]; [left|right; reflexivity].
  eexists. eexists. reflexivity.
Qed.

(* refusal: a PDU type outside 0..7 *)
Lemma gen_invalid_type a sd pa pd :
  (forall k, 0 <= k <= 7 -> aType a <> Some k) -> py_APDU_encode a sd pa pd = Err ValueErr.
Proof.
  intros H. rewrite py_APDU_encode_eq. unfold enc_apdu. rewrite (enc_invalid_type a H). reflexivity.
Qed.

(* decoding into a used object of the generic class: payload replaced, header re-encodable *)
Lemma gen_reused_object old sd pa h p : wf_hdr h = true ->
  py_APDU_decode old sd pa (spec20_1 h ++ p) = Ok ((overlay old (to_apci h), p), (pa, [])) /\
  py_APDU_encode (overlay old (to_apci h)) p pa [] = Ok ((overlay old (to_apci h), p), (pa, spec20_1 h ++ p)).
Proof.
  intros W. destruct (reused_object_roundtrip old h p W) as [D E].
  rewrite py_APDU_decode_eq, py_APDU_encode_eq, D, E. split; reflexivity.
Qed.

(* the whole path through a typed class and back, into USED objects: X.decode(apdu) after
   apdu.decode(pdu) yields the payload fed, whatever both objects held before; and
   X.encode(apdu'); apdu'.encode(pdu') puts exactly the octets fed into an empty PDU *)
Lemma gen_typed_roundtrip old sd told tsd pa h p : wf_hdr h = true ->
  exists a, a = overlay old (to_apci h) /\
  py_APDU_decode old sd pa (spec20_1 h ++ p) = Ok ((a, p), (pa, [])) /\
  py__APDU_decode told tsd a p = Ok ((a, p), (a, [])) /\
  py__APDU_encode a p apci_none [] = Ok ((a, p), (a, p)) /\
  py_APDU_encode a p pa [] = Ok ((a, p), (pa, spec20_1 h ++ p)).
Proof.
  intros W. destruct (gen_reused_object old sd pa h p W) as [D E].
  eexists. split; [reflexivity|]. rewrite D, E, !py__APDU_decode_eq, py__APDU_encode_eq.
  repeat split; reflexivity.
Qed.

(* ================= the object-history model's steps ARE the translated methods *)

(* OpDecodeFrom o src = objs[o].decode(objs[src]) through the translated APDU.decode *)
Lemma step_decode_from_is_translated st o src so ss : o <> src ->
  py_APDU_decode (fst (lookup st o)) (snd (lookup st o)) (fst (lookup st src)) (snd (lookup st src)) = Ok (so, ss) ->
  lookup (fst (step st (OpDecodeFrom o src))) o = so /\
  lookup (fst (step st (OpDecodeFrom o src))) src = ss.
Proof.
  intros H. rewrite py_APDU_decode_eq.
  destruct (dec_into (fst (lookup st o)) (snd (lookup st src))) as [[a r]|e] eqn:D; cbn [bind]; [|discriminate].
  intros E; injection E as <- <-. exact (decode_from_drains st o src a r H D).
Qed.

(* OpTyped dst src = objs[dst].decode(objs[src]) through the translated _APDU.decode, objs[dst] holding anything *)
Lemma step_typed_is_translated st dst src so ss : dst <> src ->
  py__APDU_decode (fst (lookup st dst)) (snd (lookup st dst)) (fst (lookup st src)) (snd (lookup st src)) = Ok (so, ss) ->
  lookup (fst (step st (OpTyped dst src))) dst = so /\
  lookup (fst (step st (OpTyped dst src))) src = ss.
Proof.
  intros H. rewrite py__APDU_decode_eq. intros E; injection E as <- <-.
  destruct (typed_decode_replaces st dst src H) as [A B]. rewrite A, B.
  destruct (lookup st src); split; reflexivity.
Qed.

(* OpEncodeTo o dst = objs[o].encode(objs[dst]) through the translated APDU.encode *)
Lemma step_encode_to_is_translated st o dst so sd' : o <> dst ->
  py_APDU_encode (fst (lookup st o)) (snd (lookup st o)) (fst (lookup st dst)) (snd (lookup st dst)) = Ok (so, sd') ->
  lookup (fst (step st (OpEncodeTo o dst))) o = so /\
  lookup (fst (step st (OpEncodeTo o dst))) dst = sd'.
Proof.
  intros H. rewrite py_APDU_encode_eq. cbn [step].
  destruct (lookup st o) as [a p] eqn:Lo. cbn [fst snd].
  destruct (enc_apdu a p) as [bs|e]; cbn [bind]; [|discriminate].
  intros E; injection E as <- <-.
  destruct (lookup st dst) as [da dd] eqn:Ld. cbn [fst snd].
  rewrite lookup_update_same, lookup_update_other by congruence. split; [exact Lo|reflexivity].
Qed.
