(* CovFacts.v — lemmas about the COV model (Cov.v) behind the C16 theorems. *)
From Coq Require Import ZifyBool ZifyN ZifyNat.
From Bac Require Import Base Cov.
Ltac Zify.zify_post_hook ::= Z.to_euclidean_division_equations.
Open Scope Z_scope.

(* ------------------------------------------------------------------ vocabulary *)
Definition key (x : sub) : Z * Z * Z := (s_cli x, s_proc x, s_oid x).
Definition keys (sb : list sub) : list (Z * Z * Z) := map key sb.
Definition nkey (n : ntf) : Z * Z * Z := (n_cli n, n_proc n, n_oid n).
Definition akey (a : act) : Z * Z * Z := (a_cli a, a_proc a, a_oid a).
Definition oids (os : list obj) : list Z := map oid os.

(* requests as they arrive on the wire: lifetimes are Unsigned, time does not run backwards *)
Definition wf_ev (e : ev) : Prop :=
  match e with
  | Subscribe _ _ _ _ (Some l) => 0 <= l
  | SubscribeNow _ _ _ _ (Some l) => 0 <= l
  | Advance t => 0 <= t
  | _ => True
  end.

(* every notification of a list of outputs *)
Definition all_ntfs (os : list out) : list ntf := flat_map o_ntfs os.

(* the time a subscription made now with lifetime l reports / the general formula *)
Definition remaining (life : Z) (expiry nw : Z) : Z :=
  if life =? 0 then 0 else Z.max 1 (Z.quot (expiry - nw) TICKS).

(* ------------------------------------------------------------------ increment criterion *)
Lemma inc_filter_abs : forall pr v i, inc_filter pr v i = (i <=? Z.abs (v - pr)).
Proof. intros. unfold inc_filter. lia. Qed.

Lemma write_pv_trig : forall o v pr,
  bound o = true -> trig o = false -> reports_prev (okind o) = true -> prev o = Some pr ->
  trig (write_obj o PPv v) = (inc o <=? Z.abs (v - pr)) /\ pv (write_obj o PPv v) = v
  /\ prev (write_obj o PPv v) = Some pr.
Proof.
  intros o v pr Hb Ht Hk Hp. unfold write_obj.
  assert (Htr : tracked (okind o) PPv = true) by (destruct (okind o); try discriminate; reflexivity).
  rewrite Hb, Htr, Ht, Hk, Hp. cbn. rewrite inc_filter_abs. auto.
Qed.

(* objects without an increment: any change of value or flags triggers, an equal value does not *)
Lemma write_generic_trig : forall o p v,
  bound o = true -> trig o = false -> tracked (okind o) p = true ->
  (p = PPv -> reports_prev (okind o) = false) ->
  trig (write_obj o p v) = negb (get_val o p =? v).
Proof.
  intros o p v Hb Ht Htr Hk. unfold write_obj. rewrite Hb, Htr, Ht. cbn.
  destruct p; cbn; try reflexivity. rewrite (Hk eq_refl). reflexivity.
Qed.

(* coalescing: once triggered, further writes of the round only update the values *)
Lemma write_triggered : forall o p v, trig o = true ->
  trig (write_obj o p v) = true /\ prev (write_obj o p v) = prev o /\ get_val (write_obj o p v) p = v.
Proof.
  intros o p v Ht. unfold write_obj.
  destruct (negb (bound o && tracked (okind o) p)); [|rewrite Ht]; destruct p; cbn; auto.
Qed.

Lemma write_unbound : forall o p v, bound o = false -> trig (write_obj o p v) = trig o.
Proof. intros o p v Hb. unfold write_obj. rewrite Hb. destruct p; reflexivity. Qed.

(* ------------------------------------------------------------------ small list facts *)
Lemma key_eqb_iff : forall c p o x, key_eqb c p o x = true <-> key x = (c, p, o).
Proof.
  intros. unfold key_eqb, key. split.
  - intro H. apply andb_prop in H as [H H3]. apply andb_prop in H as [H1 H2].
    apply Z.eqb_eq in H1, H2, H3. congruence.
  - intro H. inversion H. rewrite !Z.eqb_refl. reflexivity.
Qed.

Lemma key_eqb_false : forall c p o x, key_eqb c p o x = false <-> key x <> (c, p, o).
Proof.
  intros. split; intro H.
  - intro E. apply key_eqb_iff in E. congruence.
  - destruct (key_eqb c p o x) eqn:E; [|reflexivity]. apply key_eqb_iff in E. contradiction.
Qed.

Lemma find_sub_some : forall c p o sb x, find_sub c p o sb = Some x -> In x sb /\ key x = (c, p, o).
Proof.
  intros c p o sb x H. unfold find_sub in H. apply find_some in H as [H1 H2].
  split; [assumption|]. apply key_eqb_iff. assumption.
Qed.

Lemma find_sub_none : forall c p o sb, find_sub c p o sb = None -> ~ In (c, p, o) (keys sb).
Proof.
  intros c p o sb H Hin. unfold keys in Hin. apply in_map_iff in Hin as [x [Hk Hx]].
  unfold find_sub in H. eapply find_none in H; [|exact Hx]. apply key_eqb_iff in Hk. congruence.
Qed.

Lemma find_sub_in : forall sb x, NoDup (keys sb) -> In x sb ->
  find_sub (s_cli x) (s_proc x) (s_oid x) sb = Some x.
Proof.
  induction sb as [|y r IH]; intros x Hnd Hin; [destruct Hin|].
  cbn in Hnd. inversion Hnd as [|? ? Hnotin Hnd']; subst.
  unfold find_sub. cbn. destruct (key_eqb (s_cli x) (s_proc x) (s_oid x) y) eqn:E.
  - apply key_eqb_iff in E. destruct Hin as [->|Hin]; [reflexivity|].
    exfalso. apply Hnotin. rewrite E. change (In (key x) (keys r)). apply in_map. assumption.
  - destruct Hin as [->|Hin].
    + apply key_eqb_false in E. exfalso. apply E. reflexivity.
    + apply IH; assumption.
Qed.

Lemma keys_remove : forall c p o sb k, In k (keys (remove_sub c p o sb)) <-> In k (keys sb) /\ k <> (c, p, o).
Proof.
  intros c p o sb k. unfold keys, remove_sub. rewrite !in_map_iff. split.
  - intros [x [Hk Hx]]. apply filter_In in Hx as [Hx Hf]. apply negb_true_iff in Hf.
    apply key_eqb_false in Hf. split; [exists x; auto|congruence].
  - intros [[x [Hk Hx]] Hne]. exists x. split; [assumption|]. apply filter_In. split; [assumption|].
    apply negb_true_iff. apply key_eqb_false. congruence.
Qed.

Lemma NoDup_map_filter : forall {A B} (f : A -> B) (g : A -> bool) l, NoDup (map f l) -> NoDup (map f (filter g l)).
Proof.
  intros A B f g l. induction l as [|x r IH]; cbn; intro H; [constructor|].
  inversion H as [|? ? Hn Hr]; subst. destruct (g x); cbn; [constructor|]; auto.
  intro Hin. apply Hn. apply in_map_iff in Hin as [y [Hy Hin]]. apply filter_In in Hin as [Hin _].
  apply in_map_iff. exists y. auto.
Qed.

Lemma keys_replace : forall c p o nsub sb, key nsub = (c, p, o) ->
  keys (map (fun x => if key_eqb c p o x then nsub else x) sb) = keys sb.
Proof.
  intros c p o nsub sb Hk. unfold keys. rewrite map_map. apply map_ext_in. intros x _.
  destruct (key_eqb c p o x) eqn:E; [|reflexivity]. apply key_eqb_iff in E. congruence.
Qed.

(* ------------------------------------------------------------------ objects keep their identifiers *)
Lemma oid_write_obj : forall o p v, oid (write_obj o p v) = oid o.
Proof.
  intros. unfold write_obj.
  repeat match goal with |- context [if ?b then _ else _] => destruct b end; destruct p; reflexivity.
Qed.

Lemma oid_report : forall o, oid (report o) = oid o.
Proof. intro o. unfold report. destruct (reports_prev (okind o)); reflexivity. Qed.

Lemma oid_bind : forall o, oid (bind_obj o) = oid o.
Proof. intro o. unfold bind_obj. destruct (bound o); reflexivity. Qed.

Lemma oids_upd_obj : forall i f os, (forall ob, oid ob = i -> oid (f ob) = i) -> oids (upd_obj i f os) = oids os.
Proof.
  intros i f os H. unfold oids, upd_obj. rewrite map_map. apply map_ext. intro ob.
  destruct (oid ob =? i) eqn:E; [|reflexivity]. apply Z.eqb_eq in E. rewrite (H ob E). congruence.
Qed.

Lemma oids_upd_nth : forall n f os, (forall ob, oid (f ob) = oid ob) -> oids (upd_nth n f os) = oids os.
Proof.
  intros n f os H. revert n. induction os as [|o r IH]; intro n; destruct n; cbn; try reflexivity.
  - rewrite H. reflexivity.
  - unfold oids in IH. rewrite IH. reflexivity.
Qed.

Lemma find_obj_some : forall i os ob, find_obj i os = Some ob -> In ob os /\ oid ob = i.
Proof.
  intros i os ob H. unfold find_obj in H. apply find_some in H as [H1 H2]. apply Z.eqb_eq in H2. auto.
Qed.

Lemma find_obj_in : forall os ob, NoDup (oids os) -> In ob os -> find_obj (oid ob) os = Some ob.
Proof.
  induction os as [|y r IH]; intros ob Hnd Hin; [destruct Hin|].
  cbn in Hnd. inversion Hnd as [|? ? Hnotin Hnd']; subst.
  unfold find_obj. cbn. destruct (oid y =? oid ob) eqn:E.
  - apply Z.eqb_eq in E. destruct Hin as [->|Hin]; [reflexivity|].
    exfalso. apply Hnotin. rewrite E. apply in_map. assumption.
  - destruct Hin as [->|Hin]; [rewrite Z.eqb_refl in E; discriminate|]. apply IH; assumption.
Qed.

(* ------------------------------------------------------------------ the deferred functions *)
Lemma run_dfn_facts : forall s d s1 ns, run_dfn s d = (s1, ns) ->
  now s1 = now s /\ subs s1 = subs s /\ ctr s1 = ctr s /\ queue s1 = queue s /\ oids (objs s1) = oids (objs s) /\
  forall n, In n ns -> exists ob x, In ob (objs s) /\ In x (subs s) /\ s_oid x = oid ob /\ n = mk_ntf (now s) ob x.
Proof.
  intros s d s1 ns H. destruct d as [o g|i]; cbn in H.
  - destruct (find_obj o (objs s)) as [ob|] eqn:F.
    + apply find_obj_some in F as [Fin Foid]. destruct (bound ob && (gen ob =? g)); inversion H; subst s1 ns; cbn.
      * repeat split; auto. { apply oids_upd_obj. intros _ _. cbn. rewrite oid_report. exact Foid. }
        intros n Hn. apply in_map_iff in Hn as [x [<- Hx]]. unfold subs_of in Hx. apply filter_In in Hx as [Hx Ho].
        apply Z.eqb_eq in Ho. exists ob, x. repeat split; auto. congruence.
      * repeat split; auto. intros n [].
    + inversion H; subst. repeat split; auto. intros n [].
  - destruct (find_id i (subs s)) as [x|] eqn:FI.
    + unfold find_id in FI. apply find_some in FI as [Hx _].
      destruct (find_obj (s_oid x) (objs s)) as [ob|] eqn:F; inversion H; subst s1 ns; cbn.
      * apply find_obj_some in F as [Fin Foid]. repeat split; auto.
        { apply oids_upd_obj. intros _ _. rewrite oid_report. exact Foid. }
        intros n [<-|[]]. exists ob, x. auto.
      * repeat split; auto. intros n [].
    + inversion H; subst. repeat split; auto. intros n [].
Qed.

Lemma run_queue_facts : forall q s s1 ns, run_queue q s = (s1, ns) ->
  now s1 = now s /\ subs s1 = subs s /\ ctr s1 = ctr s /\ queue s1 = queue s /\ oids (objs s1) = oids (objs s) /\
  forall n, In n ns -> exists x, In x (subs s) /\ exists ob, n = mk_ntf (now s) ob x.
Proof.
  induction q as [|d r IH]; intros s s1 ns H; cbn in H.
  - inversion H; subst. repeat split; auto. intros n [].
  - destruct (run_dfn s d) as [sa na] eqn:E1. destruct (run_queue r sa) as [sb nb] eqn:E2. inversion H; subst s1 ns.
    apply run_dfn_facts in E1 as [A1 [A2 [A3 [A4 [A5 A6]]]]]. apply IH in E2 as [B1 [B2 [B3 [B4 [B5 B6]]]]].
    repeat split; try congruence. intros n Hn. apply in_app_or in Hn as [Hn|Hn].
    + destruct (A6 n Hn) as [ob [x [_ [Hx [_ ->]]]]]. exists x. split; [exact Hx|]. eauto.
    + destruct (B6 n Hn) as [x [Hx [ob ->]]]. exists x. rewrite <- A2, <- A1. eauto.
Qed.

(* ------------------------------------------------------------------ sorting keeps the elements *)
Lemma In_insert_by : forall {A} (le : A -> A -> bool) x y l, In y (insert_by le x l) <-> y = x \/ In y l.
Proof.
  intros A le x y l. induction l as [|z r IH]; cbn; [intuition|].
  destruct (le x z); cbn; [intuition|]. rewrite IH. intuition.
Qed.

Lemma In_sort_by : forall {A} (le : A -> A -> bool) y l, In y (sort_by le l) <-> In y l.
Proof.
  intros A le y l. induction l as [|z r IH]; cbn; [reflexivity|].
  rewrite In_insert_by, IH. intuition.
Qed.

(* ------------------------------------------------------------------ liveness of table entries *)
Definition sub_live (nw : Z) (x : sub) : Prop :=
  match s_task x with None => s_life x = 0 | Some (t, _) => 0 < s_life x /\ nw < t end.
Definition sub_live_le (nw : Z) (x : sub) : Prop :=
  match s_task x with None => s_life x = 0 | Some (t, _) => 0 < s_life x /\ nw <= t end.

Definition inv (s : st) : Prop :=
  NoDup (keys (subs s)) /\ NoDup (oids (objs s)) /\ Forall (sub_live (now s)) (subs s).

(* ------------------------------------------------------------------ dropping a subscription *)
Lemma drop_sub_subs : forall s c p o, subs (drop_sub s c p o) = remove_sub c p o (subs s).
Proof. intros. unfold drop_sub. reflexivity. Qed.
Lemma drop_sub_now : forall s c p o, now (drop_sub s c p o) = now s.
Proof. reflexivity. Qed.
Lemma drop_sub_oids : forall s c p o, oids (objs (drop_sub s c p o)) = oids (objs s).
Proof.
  intros. unfold drop_sub. cbn. destruct (subs_of o (remove_sub c p o (subs s))); [|reflexivity].
  apply oids_upd_obj. intros ob H. exact H.
Qed.
Lemma remove_sub_in : forall c p o sb x, In x (remove_sub c p o sb) <-> In x sb /\ key x <> (c, p, o).
Proof.
  intros. unfold remove_sub. rewrite filter_In. rewrite negb_true_iff, key_eqb_false. reflexivity.
Qed.

(* ------------------------------------------------------------------ timers *)
Lemma fire_item_now : forall s it, now (fst (fire_item s it)) = now s.
Proof.
  intros s [k [c p o|o]]; cbn.
  - destruct (find_sub c p o (subs s)); [|reflexivity]. destruct (task_eqb _ _ _); reflexivity.
  - destruct (find_obj o (objs s)); [|reflexivity]. destruct (task_eqb _ _ _); reflexivity.
Qed.

Lemma fire_item_oids : forall s it, oids (objs (fst (fire_item s it))) = oids (objs s).
Proof.
  intros s [k [c p o|o]]; cbn.
  - destruct (find_sub c p o (subs s)); [|reflexivity]. destruct (task_eqb _ _ _); [|reflexivity]. apply drop_sub_oids.
  - destruct (find_obj o (objs s)) as [ob|] eqn:F; [|reflexivity]. destruct (task_eqb _ _ _); [|reflexivity]. cbn.
    apply oids_upd_obj. intros _ _. cbn. rewrite oid_report. apply find_obj_some in F. tauto.
Qed.

(* a timer either leaves the table alone or removes exactly the subscription whose task is due *)
Lemma fire_item_subs : forall s it,
  subs (fst (fire_item s it)) = subs s \/
  exists c p o x, it = (match s_task x with Some (_, k) => k | None => 0 end, ISub c p o) /\
     find_sub c p o (subs s) = Some x /\ (exists k, s_task x = Some (now s, k)) /\
     subs (fst (fire_item s it)) = remove_sub c p o (subs s).
Proof.
  intros s [k [c p o|o]]; cbn.
  - destruct (find_sub c p o (subs s)) as [x|] eqn:F; [|left; reflexivity].
    destruct (task_eqb (s_task x) (now s) k) eqn:T; [|left; reflexivity].
    right. exists c, p, o, x. unfold task_eqb in T. destruct (s_task x) as [[t' k']|]; [|discriminate].
    apply andb_prop in T as [T1 T2]. apply Z.eqb_eq in T1, T2. subst. split; [reflexivity|].
    split; [exact F|]. split; [eauto|]. reflexivity.
  - destruct (find_obj o (objs s)); [|left; reflexivity]. destruct (task_eqb _ _ _); left; reflexivity.
Qed.

Lemma fire_item_ntfs : forall s it n, In n (snd (fire_item s it)) ->
  exists ob x, In ob (objs s) /\ In x (subs s) /\ s_oid x = oid ob /\ n = mk_ntf (now s) ob x.
Proof.
  intros s [k [c p o|o]] n; cbn.
  - destruct (find_sub c p o (subs s)); [|intros []]. destruct (task_eqb _ _ _); intros [].
  - destruct (find_obj o (objs s)) as [ob|] eqn:F; [|intros []]. destruct (task_eqb _ _ _); [|intros []]. cbn.
    intro H. apply in_map_iff in H as [x [Hn Hx]]. unfold subs_of in Hx. apply filter_In in Hx as [Hx Ho].
    apply Z.eqb_eq in Ho. apply find_obj_some in F as [F1 F2]. exists ob, x. auto.
Qed.

Lemma fire_item_shrink : forall s it x, In x (subs (fst (fire_item s it))) -> In x (subs s).
Proof.
  intros s it x H. destruct (fire_item_subs s it) as [E|[c [p [o [y [_ [_ [_ E]]]]]]]]; rewrite E in H; [assumption|].
  apply remove_sub_in in H. tauto.
Qed.

Definition Jinv (its : list (Z * item)) (s : st) : Prop :=
  NoDup (keys (subs s)) /\ Forall (sub_live_le (now s)) (subs s) /\
  forall x k, In x (subs s) -> s_task x = Some (now s, k) -> In (k, ISub (s_cli x) (s_proc x) (s_oid x)) its.

Lemma fire_item_J : forall it r s, Jinv (it :: r) s -> Jinv r (fst (fire_item s it)).
Proof.
  intros [k [c p o|o]] r s [Hnd [Hlive Hpend]]; cbn.
  - destruct (find_sub c p o (subs s)) as [x0|] eqn:F.
    + destruct (task_eqb (s_task x0) (now s) k) eqn:T; cbn.
      * split; [apply NoDup_map_filter; exact Hnd|]. split.
        -- apply Forall_forall. intros x Hx. apply remove_sub_in in Hx as [Hx _].
           rewrite Forall_forall in Hlive. apply Hlive. exact Hx.
        -- intros x k' Hx Ht. apply remove_sub_in in Hx as [Hx Hne].
           destruct (Hpend x k' Hx Ht) as [E|Hin]; [|exact Hin]. inversion E; subst. exfalso. apply Hne. reflexivity.
      * split; [exact Hnd|]. split; [exact Hlive|]. intros x k' Hx Ht.
        destruct (Hpend x k' Hx Ht) as [E|Hin]; [|exact Hin]. inversion E; subst. exfalso.
        rewrite (find_sub_in _ _ Hnd Hx) in F. inversion F; subst. rewrite Ht in T. cbn in T.
        rewrite !Z.eqb_refl in T. discriminate.
    + cbn. split; [exact Hnd|]. split; [exact Hlive|]. intros x k' Hx Ht.
      destruct (Hpend x k' Hx Ht) as [E|Hin]; [|exact Hin]. inversion E; subst. exfalso.
      apply find_sub_none in F. apply F. change (In (key x) (keys (subs s))). apply in_map. exact Hx.
  - assert (G : forall s1, subs s1 = subs s -> now s1 = now s -> Jinv r s1).
    { intros s1 E1 E2. unfold Jinv. rewrite E1, E2. split; [exact Hnd|]. split; [exact Hlive|].
      intros x k' Hx Ht. destruct (Hpend x k' Hx Ht) as [E|Hin]; [discriminate|exact Hin]. }
    destruct (find_obj o (objs s)); [|apply G; reflexivity].
    destruct (task_eqb _ _ _); apply G; reflexivity.
Qed.

Lemma fire_items_inv : forall its s, Jinv its s ->
  let s' := fst (fire_items its s) in
  NoDup (keys (subs s')) /\ Forall (sub_live (now s')) (subs s') /\ now s' = now s /\
  oids (objs s') = oids (objs s) /\ (forall x, In x (subs s') -> In x (subs s)).
Proof.
  induction its as [|it r IH]; intros s HJ.
  - cbn. destruct HJ as [Hnd [Hlive Hpend]]. repeat split; auto.
    apply Forall_forall. intros x Hx. rewrite Forall_forall in Hlive. specialize (Hlive x Hx).
    unfold sub_live, sub_live_le in *. destruct (s_task x) as [[t k]|] eqn:Ht; [|exact Hlive].
    split; [tauto|]. assert (t <> now s); [|lia]. intro E. subst t. apply (Hpend x k Hx Ht).
  - cbn. pose proof (fire_item_J it r s HJ) as HJ1. pose proof (fire_item_now s it) as Hn1.
    pose proof (fire_item_oids s it) as Ho1. pose proof (fire_item_shrink s it) as Hs1.
    destruct (fire_item s it) as [s1 n1]. cbn in *. specialize (IH s1 HJ1).
    destruct (fire_items r s1) as [s2 n2]. cbn in *. destruct IH as [A [B [C [D E]]]].
    repeat split; auto; try congruence.
Qed.

Lemma sub_live_weaken : forall nw x, sub_live nw x -> sub_live_le (nw + 1) x.
Proof. intros nw x. unfold sub_live, sub_live_le. destruct (s_task x) as [[t k]|]; [lia|auto]. Qed.

Lemma tick_J : forall s, NoDup (keys (subs s)) -> Forall (sub_live (now s)) (subs s) ->
  Jinv (sort_by (fun a b => fst a <=? fst b) (due_items (mkSt (now s + 1) (ctr s) (objs s) (subs s) (queue s))))
       (mkSt (now s + 1) (ctr s) (objs s) (subs s) (queue s)).
Proof.
  intros s Hnd Hlive. split; [exact Hnd|]. split.
  - cbn. apply Forall_forall. intros x Hx. rewrite Forall_forall in Hlive. apply sub_live_weaken. auto.
  - cbn. intros x k Hx Ht. apply In_sort_by. unfold due_items. apply in_or_app. left.
    apply in_flat_map. exists x. split; [exact Hx|]. cbn. rewrite Ht. rewrite Z.eqb_refl. left. reflexivity.
Qed.

Lemma tick_inv : forall s, NoDup (keys (subs s)) -> Forall (sub_live (now s)) (subs s) ->
  let s' := fst (tick s) in
  NoDup (keys (subs s')) /\ Forall (sub_live (now s')) (subs s') /\ now s' = now s + 1 /\
  oids (objs s') = oids (objs s) /\ (forall x, In x (subs s') -> In x (subs s)).
Proof. intros s Hnd Hlive. unfold tick. exact (fire_items_inv _ _ (tick_J s Hnd Hlive)). Qed.

Lemma ticks_inv : forall n s, NoDup (keys (subs s)) -> Forall (sub_live (now s)) (subs s) ->
  let s' := fst (ticks n s) in
  NoDup (keys (subs s')) /\ Forall (sub_live (now s')) (subs s') /\ now s' = now s + Z.of_nat n /\
  oids (objs s') = oids (objs s) /\ (forall x, In x (subs s') -> In x (subs s)).
Proof.
  induction n as [|n IH]; intros s Hnd Hlive.
  - cbn. repeat split; auto. lia.
  - cbn [ticks]. pose proof (tick_inv s Hnd Hlive) as T. destruct (tick s) as [s1 n1]. cbn in T.
    destruct T as [A [B [C [D E]]]]. specialize (IH s1 A B). destruct (ticks n s1) as [s2 n2]. cbn in *.
    destruct IH as [A' [B' [C' [D' E']]]]. repeat split; auto; try congruence. lia.
Qed.

(* what a notification says about the subscription it goes to *)
Definition ntf_of (nw : Z) (x : sub) (n : ntf) : Prop :=
  nkey n = key x /\ n_conf n = s_conf x /\ n_trem n = trem nw x /\ n_at n = nw.
Lemma mk_ntf_of : forall nw o x, ntf_of nw x (mk_ntf nw o x).
Proof. intros. unfold ntf_of. cbn. auto. Qed.

Lemma fire_items_ntfs : forall its s n, In n (snd (fire_items its s)) ->
  exists x, In x (subs s) /\ ntf_of (now s) x n.
Proof.
  induction its as [|it r IH]; intros s n H; [destruct H|]. cbn in H.
  pose proof (fire_item_now s it) as Hn1. pose proof (fire_item_shrink s it) as Hs1.
  pose proof (fire_item_ntfs s it) as Hf.
  destruct (fire_item s it) as [s1 n1]. cbn in *. specialize (IH s1).
  destruct (fire_items r s1) as [s2 n2]. cbn in *. apply in_app_or in H as [H|H].
  - destruct (Hf n H) as [ob [x [_ [Hx [_ ->]]]]]. exists x. split; [exact Hx|apply mk_ntf_of].
  - destruct (IH n H) as [x [Hx Hof]]. exists x. split; [auto|]. rewrite <- Hn1. exact Hof.
Qed.

Lemma ticks_ntfs : forall m s n, NoDup (keys (subs s)) -> Forall (sub_live (now s)) (subs s) ->
  In n (snd (ticks m s)) ->
  exists x tau, In x (subs s) /\ now s < tau <= now s + Z.of_nat m /\ ntf_of tau x n /\ sub_live_le tau x.
Proof.
  induction m as [|m IH]; intros s n Hnd Hlive H; [destruct H|]. cbn [ticks] in H.
  pose proof (tick_inv s Hnd Hlive) as T.
  assert (Hn : forall n, In n (snd (tick s)) -> exists x, In x (subs s) /\ ntf_of (now s + 1) x n).
  { intros n0 H0. unfold tick in H0. apply fire_items_ntfs in H0. exact H0. }
  destruct (tick s) as [s1 n1]. cbn in T, Hn. destruct T as [A [B [C [D E]]]].
  specialize (IH s1 n A B). destruct (ticks m s1) as [s2 n2]. cbn in *.
  apply in_app_or in H as [H|H].
  - destruct (Hn n H) as [x [Hx Hof]]. exists x, (now s + 1). split; [exact Hx|]. split; [lia|]. split; [exact Hof|].
    rewrite Forall_forall in Hlive. apply sub_live_weaken. auto.
  - destruct (IH H) as [x [tau [Hx [Ht [Hof Hl]]]]]. exists x, tau. split; [auto|]. split; [lia|]. auto.
Qed.

(* ------------------------------------------------------------------ subscribe / cancel *)
Lemma NoDup_snoc : forall {A} (l : list A) a, NoDup l -> ~ In a l -> NoDup (l ++ [a]).
Proof.
  intros A l a. induction l as [|x r IH]; cbn; intros Hnd Hn; [constructor; [intros []|constructor]|].
  inversion Hnd; subst. constructor.
  - rewrite in_app_iff. cbn. intuition.
  - apply IH; [assumption|]. intuition.
Qed.

Lemma NoDup_key_eq : forall sb x y, NoDup (keys sb) -> In x sb -> In y sb -> key x = key y -> x = y.
Proof.
  intros sb x y Hnd Hx Hy Hk. pose proof (find_sub_in sb x Hnd Hx) as Fx. pose proof (find_sub_in sb y Hnd Hy) as Fy.
  unfold key in Hk. inversion Hk as [[H1 H2 H3]]. rewrite H1, H2, H3 in Fx. congruence.
Qed.

Lemma renew_live : forall nw c p o cf lf k i, 0 <= lf ->
  sub_live nw (mkSub c p o cf lf (if lf =? 0 then None else Some (nw + lf * TICKS, k)) i).
Proof. intros. unfold sub_live, TICKS. cbn. destruct (lf =? 0) eqn:E; cbn; lia. Qed.
Lemma new_live : forall nw c p o cf lf k i, 0 <= lf ->
  sub_live nw (mkSub c p o cf lf (if 0 <? lf then Some (nw + lf * TICKS, k) else None) i).
Proof. intros. unfold sub_live, TICKS. cbn. destruct (0 <? lf) eqn:E; cbn; lia. Qed.
Lemma live_le : forall nw x, sub_live nw x -> sub_live_le nw x.
Proof. intros nw x. unfold sub_live, sub_live_le. destruct (s_task x) as [[t k]|]; [lia|auto]. Qed.

Definition life_of (life : option Z) : Z := match life with None => 0 | Some l => l end.

Lemma subscribe_now_facts : forall s c p o cf life s' ok code,
  inv s -> 0 <= life_of life -> subscribe_now s c p o cf life = (s', ok, code) ->
  inv s' /\ now s' = now s /\
  (forall x', In x' (subs s') -> In x' (subs s) \/ key x' = (c, p, o)) /\
  (forall x, In x (subs s) -> key x <> (c, p, o) -> In x (subs s')).
Proof.
  intros s c p o cf life s' ok code [Hnd [Hod Hlive]] Hlf H. unfold subscribe_now in H.
  fold (life_of life) in H. set (lf := life_of life) in *.
  assert (Hsame : s' = s -> inv s' /\ now s' = now s /\ (forall x', In x' (subs s') -> In x' (subs s) \/ key x' = (c, p, o)) /\
     (forall x, In x (subs s) -> key x <> (c, p, o) -> In x (subs s'))).
  { intros ->. repeat split; auto. }
  destruct (find_obj o (objs s)) as [ob|] eqn:F; [|inversion H; subst; apply Hsame; reflexivity].
  apply find_obj_some in F as [Fin Foid].
  destruct (okind ob) eqn:K; try (inversion H; subst; apply Hsame; reflexivity).
  all: destruct (find_sub c p o (subs s)) as [y|] eqn:FS; inversion H; subst s' ok code; clear H; unfold inv; cbn [now subs objs].
  all: try (apply find_sub_some in FS as [Hy Hky]).
  all: try (pose proof (find_sub_none _ _ _ _ FS) as Hnone).
  1,3,5: split; [split; [rewrite keys_replace by reflexivity; exact Hnd|split;
                 [rewrite oids_upd_obj; [exact Hod|intros ob' _; cbn; rewrite oid_bind; exact Foid]|
                  apply Forall_forall; intros x Hx; apply in_map_iff in Hx as [x0 [<- Hx0]];
                  destruct (key_eqb c p o x0); [apply renew_live; exact Hlf|rewrite Forall_forall in Hlive; auto]]]|];
         split; [reflexivity|]; split;
         [intros x' Hx; apply in_map_iff in Hx as [x0 [<- Hx0]]; destruct (key_eqb c p o x0); [right; reflexivity|left; exact Hx0]|
          intros x Hx Hk; apply in_map_iff; exists x; split; [|exact Hx];
          destruct (key_eqb c p o x) eqn:E; [apply key_eqb_iff in E; contradiction|reflexivity]].
  all: split; [split; [unfold keys; rewrite map_app; apply NoDup_snoc; [exact Hnd|exact Hnone]|split;
               [rewrite oids_upd_obj; [exact Hod|intros ob' _; cbn;
                  repeat match goal with |- context [if ?b then _ else _] => destruct b end;
                  cbn; try rewrite oid_bind; exact Foid]|
                apply Forall_app; split; [exact Hlive|constructor; [apply new_live; exact Hlf|constructor]]]]|];
       split; [reflexivity|]; split;
       [intros x' Hx; apply in_app_or in Hx as [Hx|[<-|[]]]; [left; exact Hx|right; reflexivity]|
        intros x Hx _; apply in_or_app; left; exact Hx].
Qed.

Lemma cancel_now_facts : forall s c p o s' ok code,
  inv s -> cancel_now s c p o = (s', ok, code) ->
  inv s' /\ now s' = now s /\ (forall x', In x' (subs s') -> In x' (subs s)) /\
  (ok = true -> ~ In (c, p, o) (keys (subs s'))) /\
  (forall x, In x (subs s) -> key x <> (c, p, o) -> In x (subs s')).
Proof.
  intros s c p o s' ok code [Hnd [Hod Hlive]] H. unfold cancel_now in H.
  assert (Hsame : (s', ok) = (s, false) ->
     inv s' /\ now s' = now s /\ (forall x', In x' (subs s') -> In x' (subs s)) /\
     (ok = true -> ~ In (c, p, o) (keys (subs s'))) /\
     (forall x, In x (subs s) -> key x <> (c, p, o) -> In x (subs s'))).
  { intro E. inversion E; subst. repeat split; auto. discriminate. }
  destruct (find_obj o (objs s)) as [ob|] eqn:F; [|inversion H; subst; apply Hsame; reflexivity].
  destruct (okind ob) eqn:K; try (inversion H; subst; apply Hsame; reflexivity).
  all: assert (Hbind : oids (upd_obj o bind_obj (objs s)) = oids (objs s))
         by (apply oids_upd_obj; intros ob' E; rewrite oid_bind; exact E).
  all: destruct (find_sub c p o (subs s)) as [y|] eqn:FS; inversion H; subst s' ok code; clear H; unfold inv;
       cbn [now subs objs set_objs].
  1,3,5: rewrite drop_sub_oids; cbn [objs set_objs]; rewrite Hbind; split;
         [split; [apply NoDup_map_filter; exact Hnd|split; [exact Hod|
            apply Forall_forall; intros x Hx; apply remove_sub_in in Hx as [Hx _]; rewrite Forall_forall in Hlive; auto]]|];
         split; [reflexivity|]; split; [intros x' Hx; apply remove_sub_in in Hx; tauto|];
         split; [intros _ Hin; apply keys_remove in Hin; tauto|intros x Hx Hk; apply remove_sub_in; auto].
  all: rewrite Hbind; split; [auto|]; split; [reflexivity|]; split; [auto|];
       split; [intros _; exact (find_sub_none _ _ _ _ FS)|auto].
Qed.

(* ------------------------------------------------------------------ one event *)
Definition is_subscribe_of (k : Z * Z * Z) (e : ev) : Prop :=
  match e with Subscribe c p o _ _ => k = (c, p, o) | SubscribeNow c p o _ _ => k = (c, p, o) | _ => False end.

Lemma drain_facts : forall s s1 ns, inv s -> drain s = (s1, ns) ->
  inv s1 /\ now s1 = now s /\ subs s1 = subs s /\ queue s1 = [] /\
  (forall n, In n ns -> exists x, In x (subs s) /\ ntf_of (now s) x n /\ sub_live (now s) x).
Proof.
  intros s s1 ns [Hnd [Hod Hlive]] H. unfold drain in H. apply run_queue_facts in H as [A [B [C [D [E F]]]]].
  cbn in *. unfold inv. rewrite A, B, E. repeat split; auto.
  intros n Hn. destruct (F n Hn) as [x [Hx [ob ->]]]. exists x. split; [exact Hx|].
  split; [apply mk_ntf_of|]. rewrite Forall_forall in Hlive. auto.
Qed.

Lemma run_dfn_step_facts : forall s d s1 ns, inv s -> run_dfn s d = (s1, ns) ->
  inv s1 /\ now s1 = now s /\ subs s1 = subs s /\
  (forall n, In n ns -> exists x, In x (subs s) /\ ntf_of (now s) x n /\ sub_live (now s) x).
Proof.
  intros s d s1 ns [Hnd [Hod Hlive]] H. apply run_dfn_facts in H as [A [B [C [D [E F]]]]].
  unfold inv. rewrite A, B, E. repeat split; auto.
  intros n Hn. destruct (F n Hn) as [ob [x [_ [Hx [_ ->]]]]]. exists x. split; [exact Hx|].
  split; [apply mk_ntf_of|]. rewrite Forall_forall in Hlive. auto.
Qed.

Lemma inv_set_queue : forall s q, inv s -> inv (set_queue s q).
Proof. intros s q H. exact H. Qed.

Definition step_post (s : st) (e : ev) (s' : st) (out : out) : Prop :=
  inv s' /\ now s <= now s' /\
  (forall x', In x' (subs s') -> In x' (subs s) \/ is_subscribe_of (key x') e) /\
  (forall n, In n (o_ntfs out) -> exists x tau,
     (In x (subs s) \/ (In x (subs s') /\ is_subscribe_of (key x) e)) /\
     now s <= tau <= now s' /\ ntf_of tau x n /\ sub_live_le tau x).

Lemma req_out_ntfs : forall tag ok code ns, o_ntfs (req_out tag ok code ns) = ns.
Proof. intros. unfold req_out. destruct ok; reflexivity. Qed.

Lemma step_facts : forall s e s' out, inv s -> wf_ev e -> step s e = (s', out) -> step_post s e s' out.
Proof.
  intros s e s' out Hinv Hwf H. unfold step_post.
  destruct e as [i p v| |c p o cf life|c p o|t|c| |c p o cf life|c p o|c]; cbn [step] in H.
  - (* Write *)
    unfold write_ev in H.
    assert (Hsame : forall os q, oids os = oids (objs s) -> s' = mkSt (now s) (ctr s) os (subs s) q -> o_ntfs out = [] ->
        inv s' /\ now s <= now s' /\ (forall x', In x' (subs s') -> In x' (subs s) \/ False) /\
        (forall n, In n (o_ntfs out) -> exists x tau, (In x (subs s) \/ (In x (subs s') /\ False)) /\
            now s <= tau <= now s' /\ ntf_of tau x n /\ sub_live_le tau x)).
    { intros os q Ho -> Hn. rewrite Hn. destruct Hinv as [A [B C]]. unfold inv. cbn [now subs objs]. rewrite Ho.
      repeat split; auto; try lia. intros n []. }
    destruct (nth_error (objs s) i) as [ob|].
    + destruct (has_prop (okind ob) p); inversion H; subst s' out.
      * eapply Hsame; [|reflexivity|reflexivity]. apply oids_upd_nth. intro. apply oid_write_obj.
      * eapply (Hsame (objs s) (queue s)); [reflexivity|destruct s; reflexivity|reflexivity].
    + inversion H; subst s' out. eapply (Hsame (objs s) (queue s)); [reflexivity|destruct s; reflexivity|reflexivity].
  - (* Drain *)
    destruct (drain s) as [s1 ns] eqn:D. inversion H; subst s' out; clear H.
    destruct (drain_facts _ _ _ Hinv D) as [A [B [C [_ Hn]]]]. cbn [o_ntfs]. split; [exact A|]. split; [lia|].
    split; [rewrite C; auto|]. intros n Hin. destruct (Hn n Hin) as [x [Hx [Hof Hl]]].
    exists x, (now s). split; [auto|]. split; [lia|]. split; [exact Hof|apply live_le; exact Hl].
  - (* Subscribe = Drain; SubscribeNow; Drain *)
    destruct (drain s) as [s1 n1] eqn:D1. destruct (drain_facts _ _ _ Hinv D1) as [A1 [B1 [C1 [_ Hn1]]]].
    assert (Hlf : 0 <= life_of life) by (destruct life; cbn in *; lia).
    destruct (subscribe_now s1 c p o cf life) as [[s2 ok] code] eqn:SN.
    destruct (subscribe_now_facts _ _ _ _ _ _ _ _ _ A1 Hlf SN) as [A2 [B2 [C2 _]]].
    destruct (drain s2) as [s3 n3] eqn:D3. destruct (drain_facts _ _ _ A2 D3) as [A3 [B3 [C3 [_ Hn3]]]].
    inversion H; subst s' out; clear H. rewrite req_out_ntfs.
    split; [exact A3|]. split; [lia|]. split.
    + intros x' Hx. rewrite C3 in Hx. destruct (C2 x' Hx) as [Hin|Hk]; [left; rewrite <- C1; exact Hin|right; exact Hk].
    + intros n Hin. apply in_app_or in Hin as [Hin|Hin].
      * destruct (Hn1 n Hin) as [x [Hx [Hof Hl]]]. exists x, (now s). split; [auto|]. split; [lia|].
        split; [exact Hof|apply live_le; exact Hl].
      * destruct (Hn3 n Hin) as [x [Hx [Hof Hl]]]. exists x, (now s). rewrite B2, B1 in Hof, Hl. split.
        { destruct (C2 x Hx) as [Hin2|Hk]; [left; rewrite <- C1; exact Hin2|right; split; [rewrite C3; exact Hx|exact Hk]]. }
        split; [lia|]. split; [exact Hof|apply live_le; exact Hl].
  - (* Cancel = Drain; CancelNow; Drain *)
    destruct (drain s) as [s1 n1] eqn:D1. destruct (drain_facts _ _ _ Hinv D1) as [A1 [B1 [C1 [_ Hn1]]]].
    destruct (cancel_now s1 c p o) as [[s2 ok] code] eqn:CN.
    destruct (cancel_now_facts _ _ _ _ _ _ _ A1 CN) as [A2 [B2 [C2 _]]].
    destruct (drain s2) as [s3 n3] eqn:D3. destruct (drain_facts _ _ _ A2 D3) as [A3 [B3 [C3 [_ Hn3]]]].
    inversion H; subst s' out; clear H. rewrite req_out_ntfs.
    split; [exact A3|]. split; [lia|]. split; [intros x' Hx; left; rewrite C3 in Hx; rewrite <- C1; auto|].
    intros n Hin. apply in_app_or in Hin as [Hin|Hin].
    + destruct (Hn1 n Hin) as [x [Hx [Hof Hl]]]. exists x, (now s). split; [auto|]. split; [lia|].
      split; [exact Hof|apply live_le; exact Hl].
    + destruct (Hn3 n Hin) as [x [Hx [Hof Hl]]]. exists x, (now s). rewrite B2, B1 in Hof, Hl.
      split; [left; rewrite <- C1; auto|]. split; [lia|]. split; [exact Hof|apply live_le; exact Hl].
  - (* Advance *)
    destruct (drain s) as [s1 n1] eqn:D. destruct (drain_facts _ _ _ Hinv D) as [[A1 [A2 A3]] [B [C [_ Hn]]]].
    pose proof (ticks_inv (Z.to_nat t) s1 A1 A3) as T. pose proof (ticks_ntfs (Z.to_nat t) s1) as TN.
    destruct (ticks (Z.to_nat t) s1) as [s2 n2]. cbn in T, TN. inversion H; subst s' out; clear H.
    destruct T as [T1 [T2 [T3 [T4 T5]]]]. cbn in Hwf. cbn [o_ntfs].
    split; [unfold inv; rewrite T4; auto|]. split; [lia|]. split; [intros x' Hx; left; rewrite <- C; auto|].
    intros n Hin. apply in_app_or in Hin as [Hin|Hin].
    + destruct (Hn n Hin) as [x [Hx [Hof Hl]]]. exists x, (now s). split; [auto|]. split; [lia|].
      split; [exact Hof|apply live_le; exact Hl].
    + destruct (TN n A1 A3 Hin) as [x [tau [Hx [Ht [Hof Hl]]]]]. exists x, tau. rewrite C in Hx. split; [auto|].
      split; [lia|]. auto.
  - (* ReadActive *)
    destruct (drain s) as [s1 ns] eqn:D. inversion H; subst s' out; clear H.
    destruct (drain_facts _ _ _ Hinv D) as [A [B [C [_ Hn]]]]. cbn [o_ntfs]. split; [exact A|]. split; [lia|].
    split; [rewrite C; auto|]. intros n Hin. destruct (Hn n Hin) as [x [Hx [Hof Hl]]].
    exists x, (now s). split; [auto|]. split; [lia|]. split; [exact Hof|apply live_le; exact Hl].
  - (* StepQ *)
    destruct (queue s) as [|d r] eqn:Q.
    + inversion H; subst s' out. cbn [o_ntfs]. split; [exact Hinv|]. split; [lia|]. split; [auto|]. intros n [].
    + destruct (run_dfn (set_queue s r) d) as [s1 ns] eqn:R. inversion H; subst s' out; clear H.
      destruct (run_dfn_step_facts _ _ _ _ (inv_set_queue s r Hinv) R) as [A [B [C Hn]]]. cbn in B, C, Hn. cbn [o_ntfs].
      split; [exact A|]. split; [lia|]. split; [rewrite C; auto|]. intros n Hin.
      destruct (Hn n Hin) as [x [Hx [Hof Hl]]]. exists x, (now s). split; [auto|]. split; [lia|].
      split; [exact Hof|apply live_le; exact Hl].
  - (* SubscribeNow *)
    assert (Hlf : 0 <= life_of life) by (destruct life; cbn in *; lia).
    destruct (subscribe_now s c p o cf life) as [[s2 ok] code] eqn:SN.
    destruct (subscribe_now_facts _ _ _ _ _ _ _ _ _ Hinv Hlf SN) as [A2 [B2 [C2 _]]].
    inversion H; subst s' out; clear H. rewrite req_out_ntfs. split; [exact A2|]. split; [lia|].
    split; [intros x' Hx; destruct (C2 x' Hx); auto|]. intros n [].
  - (* CancelNow *)
    destruct (cancel_now s c p o) as [[s2 ok] code] eqn:CN.
    destruct (cancel_now_facts _ _ _ _ _ _ _ Hinv CN) as [A2 [B2 [C2 _]]].
    inversion H; subst s' out; clear H. rewrite req_out_ntfs. split; [exact A2|]. split; [lia|].
    split; [intros x' Hx; left; auto|]. intros n [].
  - (* ReadNow *)
    inversion H; subst s' out. cbn [o_ntfs]. split; [exact Hinv|]. split; [lia|]. split; [auto|]. intros n [].
Qed.
