(* Calendar.v — dates as BACnet 4-tuples (year-1900, month, day, day-of-week 1=Monday..7),
   the valid dates of 1900..2154, the successor date, and *independent* definitions of what
   each date pattern class denotes (ASHRAE 135 clause 20.2.12 / 21 BACnetWeekNDay / DateRange).
   No proofs here (CalendarFacts.v). *)
From Bac Require Import Base PyRt.
Open Scope Z_scope.

Definition D4 := (Z * Z * Z * Z)%type.
Definition W3 := (Z * Z * Z)%type.
Definition DR := (D4 * D4)%type.

(* month lengths by table, not by PyRt's if-chain *)
Definition leap_year (y : Z) : Prop := (y mod 4 = 0 /\ y mod 100 <> 0) \/ y mod 400 = 0.
Definition leap_yearb (y : Z) : bool := ((y mod 4 =? 0) && negb (y mod 100 =? 0)) || (y mod 400 =? 0).
Definition month_table (leap : bool) : list Z :=
  [31; if leap then 29 else 28; 31; 30; 31; 30; 31; 31; 30; 31; 30; 31].
Definition days_in_month (y m : Z) : Z := nth (Z.to_nat (m - 1)) (month_table (leap_yearb y)) 0.

(* a real calendar day of 1900..2154 in BACnet form; the day-of-week field is only range-checked
   here (its agreement with the calendar is what the correspondence sweep checks) *)
Definition valid_date (d : D4) : Prop :=
  let '(y, m, dd, w) := d in
  0 <= y <= 254 /\ 1 <= m <= 12 /\ 1 <= dd <= days_in_month (y + 1900) m /\ 1 <= w <= 7.
Definition valid_dateb (d : D4) : bool :=
  let '(y, m, dd, w) := d in
  (0 <=? y) && (y <=? 254) && (1 <=? m) && (m <=? 12) && (1 <=? dd)
  && (dd <=? days_in_month (y + 1900) m) && (1 <=? w) && (w <=? 7).

(* the day after *)
Definition next_date (d : D4) : D4 :=
  let '(y, m, dd, w) := d in
  let w' := w mod 7 + 1 in
  if dd <? last_day (y + 1900) m then (y, m, dd + 1, w')
  else if m <? 12 then (y, m + 1, 1, w') else (y + 1, 1, 1, w').

Fixpoint walk (n : nat) (d : D4) : list D4 :=
  match n with O => [] | S k => d :: walk k (next_date d) end.
Fixpoint nth_date (n : nat) (d : D4) : D4 :=
  match n with O => d | S k => nth_date k (next_date d) end.

(* ---- what the patterns denote *)
Definition year_denotes (yp y : Z) : Prop := yp = 255 \/ y = yp.
Definition month_denotes (mp m : Z) : Prop :=
  mp = 255 \/ (mp = 13 /\ Z.odd m = true) \/ (mp = 14 /\ Z.even m = true) \/ m = mp.
Definition day_denotes (dp y m dd : Z) : Prop :=
  dp = 255 \/ (dp = 32 /\ dd = days_in_month (y + 1900) m) \/ (dp = 33 /\ Z.odd dd = true)
  \/ (dp = 34 /\ Z.even dd = true) \/ dd = dp.
Definition dow_denotes (wp w : Z) : Prop := wp = 255 \/ w = wp.

Definition date_denotes (p d : D4) : Prop :=
  let '(y, m, dd, w) := d in let '(yp, mp, dp, wp) := p in
  year_denotes yp y /\ month_denotes mp m /\ day_denotes dp y m dd /\ dow_denotes wp w.

(* week of month: 1..5 = days 1-7, 8-14, 15-21, 22-28, 29-31; 6..9 = last 7 days, the 7 before
   them, ... counted from the end of the month *)
Definition week_denotes (kp y m dd : Z) : Prop :=
  kp = 255
  \/ (1 <= kp <= 5 /\ 7 * (kp - 1) < dd <= 7 * kp)
  \/ (6 <= kp <= 9 /\ 7 * (kp - 6) <= days_in_month (y + 1900) m - dd < 7 * (kp - 5)).
Definition wnd_denotes (p : W3) (d : D4) : Prop :=
  let '(y, m, dd, w) := d in let '(mp, kp, wp) := p in
  month_denotes mp m /\ week_denotes kp y m dd /\ dow_denotes wp w.
Definition wf_wnd (p : W3) : Prop :=
  let '(mp, kp, wp) := p in (kp = 255 \/ 1 <= kp <= 9).

(* date ranges: each end either unspecified (year, month, day all 255) = open, or a specific
   date; order by the ordinal ((y*16)+m)*32+d *)
Definition unspecified (e : D4) : Prop := let '(y, m, dd, _) := e in y = 255 /\ m = 255 /\ dd = 255.
Definition specific (e : D4) : Prop :=
  let '(y, m, dd, _) := e in 0 <= y <= 254 /\ 1 <= m <= 12 /\ 1 <= dd <= 31.
Definition ordinal (e : D4) : Z := let '(y, m, dd, _) := e in (y * 16 + m) * 32 + dd.
Definition wf_range (r : DR) : Prop :=
  (unspecified (fst r) \/ specific (fst r)) /\ (unspecified (snd r) \/ specific (snd r)).
Definition range_denotes (r : DR) (d : D4) : Prop :=
  (unspecified (fst r) \/ ordinal (fst r) <= ordinal d) /\
  (unspecified (snd r) \/ ordinal d <= ordinal (snd r)).
