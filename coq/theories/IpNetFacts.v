(* IpNetFacts.v — the global statement on a completely swept finite family of well-formed
   configurations (the general statement is C13_broadcast_once_partial's missing part), and the
   fuel facts of the network model. *)
From Bac Require Import Base Bip BipFacts IpNet.
Open Scope N_scope.

(* ------------------------------------------------------------------ a family of wf configurations *)
(* subnet k (k = 0..) is 10.(k+1).(k+1).0/24; its BBMD is host .2, ordinary nodes .10.., foreign
   devices live on the BBMD-less subnet 10.200.0.0/24 as hosts .40.. *)
Definition sub_ip (k : nat) : N := 167772160 + (N.of_nat k + 1) * 65536 + (N.of_nat k + 1) * 256.
Definition m24 : N := 4294967040.
Definition m32 : N := 4294967295.
Definition port : N := 47808.
Definition fsub : N := 180879360.    (* 10.200.0.0 *)

Record cfg := mkCfg { c_simple : list nat;      (* per BBMD subnet: number of ordinary nodes *)
                      c_onehop : list bool;     (* per peer BBMD: listed with its subnet mask (one-hop) or /32 (two-hop) *)
                      c_foreign : nat }.        (* foreign devices, device j registered with BBMD (j mod n) *)

Definition bbmd_addr (k : nat) : addr := (sub_ip k + 2, port).
Definition cfg_bdt (c : cfg) : list bdte :=
  map (fun k => mkBdte (bbmd_addr k) (if nth k (c_onehop c) false then m24 else m32))
      (seq 0 (length (c_simple c))).

Definition cfg_lans (c : cfg) : list lan :=
  map (fun k => mkLan (sub_ip k) m24 port) (seq 0 (length (c_simple c))) ++ [mkLan fsub m24 port].

Fixpoint subnet_nodes (c : cfg) (k : nat) (ss : list nat) : list node :=
  match ss with
  | [] => []
  | s :: r =>
      mkNode k (bbmd_addr k) true (KBbmd (mkBbmd (bbmd_addr k) (cfg_bdt c) [] true))
      :: map (fun j => mkNode k (sub_ip k + 10 + N.of_nat j, port) true KSimple) (seq 0 s)
      ++ subnet_nodes c (S k) r
  end.
Definition foreign_nodes (c : cfg) : list node :=
  map (fun j => mkNode (length (c_simple c)) (fsub + 40 + N.of_nat j, port) true
                       (KForeign (mkForeign (-1) None None None None)))
      (seq 0 (c_foreign c)).

Definition cfg_world0 (c : cfg) : world :=
  mkWorld (cfg_lans c) (subnet_nodes c 0 (c_simple c) ++ foreign_nodes c) 0.

(* registrations: device j (node index base + j) registers with BBMD (j mod n), ttl 30 s, one
   every 100 ms starting at t = 150 ms *)
Fixpoint register_all (w : world) (base n : nat) (js : list nat) : res world :=
  match js with
  | [] => Ok w
  | j :: r =>
      do x <- step w (150 + 100 * Z.of_nat j)%Z (ERegister (base + j) (bbmd_addr (Nat.modulo j n)) 30);
      register_all (fst x) base n r
  end.
Definition cfg_world (c : cfg) : res world :=
  let w := cfg_world0 c in
  register_all w (length (subnet_nodes c 0 (c_simple c))) (length (c_simple c)) (seq 0 (c_foreign c)).

(* ------------------------------------------------------------------ the exactly-once predicate *)
Definition ups (log : list obs) : list (nat * addr * dest * npdu) :=
  flat_map (fun o => match o with ODeliver i (Up s d p) => [(i, s, d, p)] | _ => [] end) log.

Definition dest_is_bcast (d : dest) : bool := match d with DBcast => true | _ => false end.

(* node o broadcasts payload 777 at t = 900 ms: every other node gets exactly one copy, as a
   broadcast, showing o's address; o gets none *)
Definition bcast_ok (w : world) (o : nat) : bool :=
  match nth_error (w_nodes w) o with
  | None => false
  | Some no =>
      match step w 900%Z (EBcast o 777) with
      | Err _ => false
      | Ok (_, log) =>
          let u := ups log in
          forallb (fun x => match x with (_, s, d, p) => addr_eqb s (n_addr no) && dest_is_bcast d && (p =? 777) end) u
          && forallb (fun i => Nat.eqb (length (filter (fun x => match x with (j, _, _, _) => Nat.eqb i j end) u))
                                       (if Nat.eqb i o then 0 else 1))
                     (seq 0 (length (w_nodes w)))
      end
  end.

Definition cfg_ok (c : cfg) : bool :=
  match cfg_world c with
  | Err _ => false
  | Ok w => forallb (bcast_ok w) (seq 0 (length (w_nodes w)))
  end.

(* the swept family: 1..3 BBMD subnets, 0..2 ordinary nodes each, every per-peer choice of
   one-hop / two-hop entries, 0..2 registered foreign devices *)
Fixpoint lists {A} (xs : list A) (n : nat) : list (list A) :=
  match n with
  | O => [[]]
  | S k => flat_map (fun l => map (fun x => x :: l) xs) (lists xs k)
  end.
Definition family : list cfg :=
  flat_map (fun n =>
    flat_map (fun ss =>
      flat_map (fun hs =>
        map (fun f => mkCfg ss hs f) [0; 1; 2]%nat)
        (lists [false; true] n))
      (lists [0; 1; 2]%nat n))
    [1; 2; 3]%nat.

Lemma family_size : length family = 774%nat.
Proof. vm_compute. reflexivity. Qed.

Lemma family_all_ok : forallb cfg_ok family = true.
Proof. vm_compute. reflexivity. Qed.

Theorem broadcast_once_family : forall c w o,
  In c family -> cfg_world c = Ok w -> (o < length (w_nodes w))%nat -> bcast_ok w o = true.
Proof.
  intros c w o I W L.
  pose proof (proj1 (forallb_forall cfg_ok family) family_all_ok c I) as H.
  unfold cfg_ok in H. rewrite W in H.
  apply (proj1 (forallb_forall _ _) H). apply in_seq. split; [apply Nat.le_0_l | exact L].
Qed.

(* what bcast_ok = true means, spelled out *)
Theorem bcast_ok_spec : forall w o, bcast_ok w o = true ->
  exists no w' log, nth_error (w_nodes w) o = Some no /\ step w 900%Z (EBcast o 777) = Ok (w', log) /\
    (forall i s d p, In (i, s, d, p) (ups log) -> s = n_addr no /\ d = DBcast /\ p = 777) /\
    (forall i, (i < length (w_nodes w))%nat ->
       length (filter (fun x => match x with (j, _, _, _) => Nat.eqb i j end) (ups log))
       = if Nat.eqb i o then 0%nat else 1%nat).
Proof.
  intros w o H. unfold bcast_ok in H.
  destruct (nth_error (w_nodes w) o) as [no|] eqn:E; [|discriminate].
  destruct (step w 900%Z (EBcast o 777)) as [[w' log]|] eqn:S; [|discriminate].
  apply andb_true_iff in H. destruct H as [H1 H2].
  exists no, w', log. repeat split; try reflexivity.
  - pose proof (proj1 (forallb_forall _ _) H1 _ H) as X. cbn in X.
    apply andb_true_iff in X. destruct X as [X _]. apply andb_true_iff in X. destruct X as [X _].
    apply addr_eqb_eq in X. exact X.
  - pose proof (proj1 (forallb_forall _ _) H1 _ H) as X. cbn in X.
    apply andb_true_iff in X. destruct X as [X _]. apply andb_true_iff in X. destruct X as [_ X].
    destruct d; [reflexivity | discriminate].
  - pose proof (proj1 (forallb_forall _ _) H1 _ H) as X. cbn in X.
    apply andb_true_iff in X. destruct X as [_ X]. apply N.eqb_eq in X. exact X.
  - intros i L. pose proof (proj1 (forallb_forall _ _) H2 i) as X.
    apply Nat.eqb_eq. apply X. apply in_seq. split; [apply Nat.le_0_l | exact L].
Qed.

(* a member of the family with every feature: 3 subnets, mixed table styles, 2 foreign devices *)
Example family_member :
  In (mkCfg [2; 0; 1]%nat [true; false; true] 2) family /\
  exists w, cfg_world (mkCfg [2; 0; 1]%nat [true; false; true] 2) = Ok w /\ length (w_nodes w) = 8%nat.
Proof.
  split.
  - apply (nth_error_In family 407). vm_compute. reflexivity.
  - eexists. split; [vm_compute; reflexivity | reflexivity].
Qed.
