(* NetCert.v — decidable forms of the hypotheses of the tree theorems (internet_ok, tree_to, tree_from) with
   soundness proofs, so that the check can validate, inside Coq, that the random internetworks it simulates do
   satisfy them.  Lemmas about Net.v (property C06). *)
From Coq Require Import ZifyBool ZifyN ZifyNat.
From Bac Require Import Base Net NetFacts NetTerm NetTerm2 NetReply NetOnce NetRoute NetArrive NetLocal NetBcast NetTree NetFlood.
Ltac Zify.zify_post_hook ::= Z.to_euclidean_division_equations.
Open Scope N_scope.

(* ---- small decidable equalities *)
Definition pair_eqb (a b : nat * nat) : bool := Nat.eqb (fst a) (fst b) && Nat.eqb (snd a) (snd b).

Lemma pair_eqb_eq : forall a b, pair_eqb a b = true -> a = b.
Proof.
  intros [a1 a2] [b1 b2] H. unfold pair_eqb in H. cbn in H. apply andb_prop in H. destruct H as [H1 H2].
  apply Nat.eqb_eq in H1, H2. congruence.
Qed.

Lemma existsb_pair_in : forall x l, existsb (pair_eqb x) l = true -> In x l.
Proof.
  intros x l H. apply existsb_exists in H. destruct H as [y [Hy E]]. apply pair_eqb_eq in E. subst y. assumption.
Qed.

Lemma optN_eqb_eq : forall a b, optN_eqb a b = true -> a = b.
Proof. intros [x|] [y|]; cbn; intro H; try discriminate; [apply N.eqb_eq in H; congruence|reflexivity]. Qed.

Lemma omac_eqb_eq : forall a b, omac_eqb a b = true -> a = b.
Proof. intros [x|] [y|]; cbn; intro H; try discriminate; [apply mac_eqb_eq in H; congruence|reflexivity]. Qed.

Definition adapter_eqb (a b : adapter) : bool := optN_eqb (a_net a) (a_net b) && omac_eqb (a_mac a) (a_mac b).

Lemma adapter_eqb_eq : forall a b, adapter_eqb a b = true -> a = b.
Proof.
  intros [n1 m1] [n2 m2] H. unfold adapter_eqb in H. cbn in H. apply andb_prop in H. destruct H as [H1 H2].
  apply optN_eqb_eq in H1. apply omac_eqb_eq in H2. congruence.
Qed.

Lemma list_eqb_eq : forall {A} (eqb : A -> A -> bool), (forall x y, eqb x y = true -> x = y) ->
  forall a b, list_eqb eqb a b = true -> a = b.
Proof.
  intros A eqb He. induction a as [|x a IH]; destruct b as [|y b]; cbn; intro H; try discriminate; [reflexivity|].
  apply andb_prop in H. destruct H as [H1 H2]. f_equal; auto.
Qed.

Fixpoint nodupNb (l : list N) : bool :=
  match l with [] => true | a :: r => negb (existsb (N.eqb a) r) && nodupNb r end.

Lemma nodupNb_sound : forall l, nodupNb l = true -> NoDup l.
Proof.
  induction l as [|a r IH]; intro H; [constructor|]. cbn in H. apply andb_prop in H. destruct H as [H1 H2].
  constructor; [|apply IH; assumption]. intro Hin.
  assert (existsb (N.eqb a) r = true) by (apply existsb_exists; exists a; split; [assumption|apply N.eqb_refl]).
  rewrite H in H1. discriminate.
Qed.

Fixpoint nodupnatb (l : list nat) : bool :=
  match l with [] => true | a :: r => negb (existsb (Nat.eqb a) r) && nodupnatb r end.

Lemma nodupnatb_sound : forall l, nodupnatb l = true -> NoDup l.
Proof.
  induction l as [|a r IH]; intro H; [constructor|]. cbn in H. apply andb_prop in H. destruct H as [H1 H2].
  constructor; [|apply IH; assumption]. intro Hin.
  assert (existsb (Nat.eqb a) r = true) by (apply existsb_exists; exists a; split; [assumption|apply Nat.eqb_refl]).
  rewrite H in H1. discriminate.
Qed.

(* ---- node shapes *)
Definition router_shapeb (w : wnode) : bool :=
  (2 <=? length (w_ports w))%nat && nodupNb (map fst (w_ports w)) &&
  list_eqb adapter_eqb (adapters (w_node w)) (map ad_of (w_ports w)) && negb (has_app (w_node w)).

Definition station_shapeb (w : wnode) : bool :=
  match w_ports w, adapters (w_node w) with
  | [(lan, _)], [a] => (match a_net a with None => true | Some l => l =? lan end) && has_app (w_node w)
  | _, _ => false
  end.

Lemma router_shapeb_sound : forall w, router_shapeb w = true -> router_shape w.
Proof.
  intros w H. unfold router_shapeb in H. repeat (apply andb_prop in H; destruct H as [H ?]).
  unfold router_shape. repeat split.
  - apply Nat.leb_le. assumption.
  - apply nodupNb_sound. assumption.
  - apply (list_eqb_eq adapter_eqb adapter_eqb_eq). assumption.
  - destruct (has_app (w_node w)); [discriminate|reflexivity].
Qed.

Lemma station_shapeb_sound : forall w, station_shapeb w = true -> station_shape w.
Proof.
  intros w H. unfold station_shapeb in H.
  destruct (w_ports w) as [|[lan m] [|? ?]] eqn:Ep; try discriminate.
  destruct (adapters (w_node w)) as [|a [|? ?]] eqn:Ea; try discriminate.
  apply andb_prop in H. destruct H as [H1 H2].
  exists lan, m, a. repeat split; auto.
  destruct (a_net a) as [l|]; [right; apply N.eqb_eq in H1; congruence|left; reflexivity].
Qed.

(* ---- internet_ok *)
Definition all_ports_of (ns : list wnode) : list (nat * nat) :=
  flat_map (fun who => match nth_error ns who with
                       | Some w => map (fun p => (who, p)) (seq 0 (length (w_ports w)))
                       | None => [] end) (seq 0 (length ns)).

Lemma all_ports_of_complete : forall ns x lan m, port_of ns x = Some (lan, m) -> In x (all_ports_of ns).
Proof.
  intros ns [who p] lan m H. unfold port_of in H. cbn [fst snd] in H.
  destruct (nth_error ns who) as [w|] eqn:Ew; [|discriminate].
  unfold all_ports_of. apply in_flat_map. exists who. split.
  - apply in_seq. assert (nth_error ns who <> None) by congruence. apply nth_error_Some in H0. lia.
  - rewrite Ew. apply in_map. apply in_seq. assert (nth_error (w_ports w) p <> None) by congruence.
    apply nth_error_Some in H0. lia.
Qed.

Definition internet_okb (lns : list (N * list (nat * nat))) (ns : list wnode) : bool :=
  forallb (fun kv => forallb (fun x => match port_of ns x with Some (l, _) => l =? fst kv | None => false end) (snd kv)) lns
  && forallb (fun x => match port_of ns x with
                       | Some (lan, _) => existsb (pair_eqb x) (lan_members lns lan)
                       | None => true end) (all_ports_of ns)
  && lans_distinctb lns ns
  && forallb (fun kv => nodupnatb (map fst (snd kv))) lns
  && forallb (fun w => router_shapeb w || station_shapeb w) ns.

Lemma lan_members_entry : forall lns lan, lan_members lns lan = [] \/ In (lan, lan_members lns lan) lns.
Proof.
  induction lns as [|[k m] r IH]; intro lan; cbn [lan_members]; [left; reflexivity|].
  destruct (N.eqb_spec k lan).
  - subst k. right. left. reflexivity.
  - destruct (IH lan) as [H|H]; [left; assumption|right; right; assumption].
Qed.

Lemma internet_okb_sound : forall lns ns, internet_okb lns ns = true -> internet_ok lns ns.
Proof.
  intros lns ns H. unfold internet_okb in H. repeat (apply andb_prop in H; destruct H as [H ?]).
  rename H into H1, H3 into H2, H2 into H3, H1 into H4, H0 into H5.
  constructor.
  - intros lan x Hx. destruct (lan_members_entry lns lan) as [E|E]; [rewrite E in Hx; contradiction|].
    rewrite forallb_forall in H1. specialize (H1 _ E). cbn [fst snd] in H1. rewrite forallb_forall in H1.
    specialize (H1 x Hx). destruct (port_of ns x) as [[l m]|]; [|discriminate]. apply N.eqb_eq in H1. subst l. eauto.
  - intros x lan m Hp. rewrite forallb_forall in H2. specialize (H2 x (all_ports_of_complete _ _ _ _ Hp)).
    rewrite Hp in H2. apply existsb_pair_in. assumption.
  - apply lans_distinctb_sound. assumption.
  - intro lan. destruct (lan_members_entry lns lan) as [E|E]; [rewrite E; constructor|].
    rewrite forallb_forall in H4. apply nodupnatb_sound. apply (H4 _ E).
  - intros who w Hw. rewrite forallb_forall in H5. specialize (H5 w (nth_error_In _ _ Hw)).
    apply orb_prop in H5. destruct H5 as [E|E]; [left; apply router_shapeb_sound|right; apply station_shapeb_sound]; assumption.
Qed.

(* ---- tree_to *)
Definition router_okb (ns : list wnode) (d : N) (lv : N -> nat) (up : nat -> nat) (par : N -> nat * nat)
                      (who : nat) (w : wnode) : bool :=
  match nth_error (w_ports w) (up who) with
  | None => false
  | Some (lu, _) =>
      (negb (Nat.eqb (lv lu) 0) || (lu =? d))
      && forallb (fun p => Nat.eqb p (up who) ||
                           match nth_error (w_ports w) p with
                           | Some (lp, _) => Nat.eqb (lv lp) (S (lv lu)) | None => true end)
                 (seq 0 (length (w_ports w)))
      && (Nat.eqb (lv lu) 0 ||
          match port_mac ns (par lu), find_path (w_node w) d with
          | Some pm, Some (j, m) => Nat.eqb j (up who) && mac_eqb m pm
          | _, _ => false
          end)
  end.

Definition parent_okb (lns : list (N * list (nat * nat))) (ns : list wnode) (lv : N -> nat) (up : nat -> nat)
                      (par : N -> nat * nat) (L : N) : bool :=
  Nat.eqb (lv L) 0 ||
  (existsb (pair_eqb (par L)) (lan_members lns L) &&
   match nth_error ns (fst (par L)) with
   | Some w => router_shapeb w && negb (Nat.eqb (snd (par L)) (up (fst (par L))))
   | None => false
   end).

Definition tree_tob lns ns d lv up par : bool :=
  Nat.eqb (lv d) 0
  && forallb (fun who => match nth_error ns who with
                         | Some w => negb (router_shapeb w) || router_okb ns d lv up par who w
                         | None => true end) (seq 0 (length ns))
  && forallb (parent_okb lns ns lv up par) (map fst lns).

Lemma shapeb_router : forall lns ns who w, internet_okb lns ns = true -> nth_error ns who = Some w ->
  router_shape w -> router_shapeb w = true.
Proof.
  intros lns ns who w H Hw Hr. unfold internet_okb in H. apply andb_prop in H. destruct H as [_ H].
  rewrite forallb_forall in H. specialize (H w (nth_error_In _ _ Hw)).
  destruct (router_shapeb w); [reflexivity|]. cbn in H. apply station_shapeb_sound in H.
  exfalso. eapply router_not_station; eauto.
Qed.

Lemma inhabited_key : forall lns ns L, internet_ok lns ns -> (exists x m, port_of ns x = Some (L, m)) ->
  In L (map fst lns).
Proof.
  intros lns ns L Hio (x & m & Hp). pose proof (io_listed _ _ Hio _ _ _ Hp) as Hin.
  destruct (lan_members_entry lns L) as [E|E]; [rewrite E in Hin; contradiction|].
  apply (in_map fst) in E. exact E.
Qed.

Lemma parent_okb_sound : forall lns ns lv up par L, parent_okb lns ns lv up par L = true -> lv L <> 0%nat ->
  In (par L) (lan_members lns L) /\
  exists w, nth_error ns (fst (par L)) = Some w /\ router_shape w /\ snd (par L) <> up (fst (par L)).
Proof.
  intros lns ns lv up par L H Hlv. unfold parent_okb in H. apply orb_prop in H. destruct H as [H|H].
  - apply Nat.eqb_eq in H. contradiction.
  - apply andb_prop in H. destruct H as [H1 H2]. split; [apply existsb_pair_in; assumption|].
    destruct (nth_error ns (fst (par L))) as [w|]; [|discriminate]. apply andb_prop in H2. destruct H2 as [H2 H3].
    exists w. split; [reflexivity|]. split; [apply router_shapeb_sound; assumption|].
    destruct (Nat.eqb_spec (snd (par L)) (up (fst (par L)))); [discriminate|assumption].
Qed.

Lemma tree_tob_sound : forall lns ns d lv up par,
  internet_okb lns ns = true -> tree_tob lns ns d lv up par = true -> tree_to lns ns d lv up par.
Proof.
  intros lns ns d lv up par Hiob H. pose proof (internet_okb_sound _ _ Hiob) as Hio.
  unfold tree_tob in H. apply andb_prop in H. destruct H as [H H3]. apply andb_prop in H. destruct H as [H1 H2].
  constructor.
  - apply Nat.eqb_eq. assumption.
  - intros who w Hw Hr. rewrite forallb_forall in H2.
    assert (Hin : In who (seq 0 (length ns))).
    { apply in_seq. assert (nth_error ns who <> None) by congruence. apply nth_error_Some in H. lia. }
    specialize (H2 who Hin). rewrite Hw, (shapeb_router _ _ _ _ Hiob Hw Hr) in H2. cbn [negb orb] in H2.
    unfold router_okb in H2. destruct (nth_error (w_ports w) (up who)) as [[lu mu]|] eqn:Eu; [|discriminate].
    apply andb_prop in H2. destruct H2 as [H2 H6]. apply andb_prop in H2. destruct H2 as [H4 H5].
    exists lu, mu. split; [reflexivity|]. split; [|split].
    + intro E. rewrite E in H4. cbn in H4. apply N.eqb_eq in H4. assumption.
    + intros p lp mp Hp Hne. rewrite forallb_forall in H5.
      assert (Hinp : In p (seq 0 (length (w_ports w)))).
      { apply in_seq. assert (nth_error (w_ports w) p <> None) by congruence. apply nth_error_Some in H. lia. }
      specialize (H5 p Hinp). rewrite Hp in H5. destruct (Nat.eqb_spec p (up who)); [contradiction|].
      cbn in H5. apply Nat.eqb_eq in H5. assumption.
    + intro Hne. destruct (Nat.eqb_spec (lv lu) 0); [contradiction|]. cbn in H6.
      destruct (port_mac ns (par lu)) as [pm|]; [|discriminate].
      destruct (find_path (w_node w) d) as [[j m]|]; [|discriminate].
      apply andb_prop in H6. destruct H6 as [E1 E2]. apply Nat.eqb_eq in E1. apply mac_eqb_eq in E2. subst j m.
      exists pm. split; reflexivity.
  - intros L Hinh Hlv. rewrite forallb_forall in H3.
    apply (parent_okb_sound lns ns lv up par L); [|assumption]. apply H3. eapply inhabited_key; eauto.
Qed.

(* ---- tree_from *)
Definition router_fromb (lv : N -> nat) (up : nat -> nat) (who : nat) (w : wnode) : bool :=
  match nth_error (w_ports w) (up who) with
  | None => false
  | Some (lu, _) =>
      forallb (fun p => Nat.eqb p (up who) ||
                        match nth_error (w_ports w) p with
                        | Some (lp, _) => Nat.eqb (lv lp) (S (lv lu)) | None => true end)
              (seq 0 (length (w_ports w)))
  end.

Definition tree_fromb lns ns s lv up par : bool :=
  Nat.eqb (lv s) 0
  && forallb (fun L => (negb (Nat.eqb (lv L) 0) || (L =? s)) && (lv L <? 255)%nat) (map fst lns)
  && forallb (fun who => match nth_error ns who with
                         | Some w => negb (router_shapeb w) || router_fromb lv up who w
                         | None => true end) (seq 0 (length ns))
  && forallb (parent_okb lns ns lv up par) (map fst lns)
  && forallb (fun L => forallb (fun x => match nth_error ns (fst x) with
                                          | Some w => negb (router_shapeb w) || Nat.eqb (snd x) (up (fst x)) || pair_eqb x (par L)
                                          | None => true end) (lan_members lns L)) (map fst lns).

Lemma tree_fromb_sound : forall lns ns s lv up par,
  internet_okb lns ns = true -> tree_fromb lns ns s lv up par = true -> tree_from lns ns s lv up par.
Proof.
  intros lns ns s lv up par Hiob H. pose proof (internet_okb_sound _ _ Hiob) as Hio.
  unfold tree_fromb in H. repeat (apply andb_prop in H; destruct H as [H ?]).
  rename H into H1, H3 into H2, H2 into H3, H1 into H4, H0 into H5.
  constructor.
  - apply Nat.eqb_eq. assumption.
  - intros L Hinh Hlv. rewrite forallb_forall in H2. specialize (H2 L (inhabited_key _ _ _ Hio Hinh)).
    apply andb_prop in H2. destruct H2 as [H2 _]. rewrite Hlv in H2. cbn in H2. apply N.eqb_eq in H2. assumption.
  - intros L Hinh. rewrite forallb_forall in H2. specialize (H2 L (inhabited_key _ _ _ Hio Hinh)).
    apply andb_prop in H2. destruct H2 as [_ H2]. apply Nat.ltb_lt in H2. assumption.
  - intros who w Hw Hr. rewrite forallb_forall in H3.
    assert (Hin : In who (seq 0 (length ns))).
    { apply in_seq. assert (nth_error ns who <> None) by congruence. apply nth_error_Some in H. lia. }
    specialize (H3 who Hin). rewrite Hw, (shapeb_router _ _ _ _ Hiob Hw Hr) in H3. cbn [negb orb] in H3.
    unfold router_fromb in H3. destruct (nth_error (w_ports w) (up who)) as [[lu mu]|] eqn:Eu; [|discriminate].
    exists lu, mu. split; [reflexivity|].
    intros p lp mp Hp Hne. rewrite forallb_forall in H3.
    assert (Hinp : In p (seq 0 (length (w_ports w)))).
    { apply in_seq. assert (nth_error (w_ports w) p <> None) by congruence. apply nth_error_Some in H. lia. }
    specialize (H3 p Hinp). rewrite Hp in H3. destruct (Nat.eqb_spec p (up who)); [contradiction|].
    cbn in H3. apply Nat.eqb_eq in H3. assumption.
  - intros L Hinh Hlv. rewrite forallb_forall in H4.
    apply (parent_okb_sound lns ns lv up par L); [|assumption]. apply H4. eapply inhabited_key; eauto.
  - intros L x w Hx Hw Hr Hne.
    destruct (lan_members_entry lns L) as [E|E]; [rewrite E in Hx; contradiction|].
    rewrite forallb_forall in H5. specialize (H5 L (in_map fst _ _ E)). cbn [fst] in H5.
    rewrite forallb_forall in H5. specialize (H5 x Hx). rewrite Hw, (shapeb_router _ _ _ _ Hiob Hw Hr) in H5.
    cbn [negb orb] in H5. destruct (Nat.eqb_spec (snd x) (up (fst x))); [contradiction|]. cbn in H5.
    apply pair_eqb_eq. assumption.
Qed.

(* certificates given as association lists *)
Fixpoint assoc_nat (l : list (N * nat)) (dflt : nat) (k : N) : nat :=
  match l with [] => dflt | (a, v) :: r => if a =? k then v else assoc_nat r dflt k end.
Fixpoint assoc_pair (l : list (N * (nat * nat))) (k : N) : nat * nat :=
  match l with [] => (0, 0)%nat | (a, v) :: r => if a =? k then v else assoc_pair r k end.
Definition nth_nat (l : list nat) (i : nat) : nat := nth i l 0%nat.

Theorem checkers_sound : forall lns ns, internet_okb lns ns = true ->
  internet_ok lns ns /\
  (forall d lv up par, tree_tob lns ns d lv up par = true -> tree_to lns ns d lv up par) /\
  (forall s lv up par, tree_fromb lns ns s lv up par = true -> tree_from lns ns s lv up par).
Proof.
  intros lns ns H. split; [apply internet_okb_sound; assumption|]. split.
  - intros. apply tree_tob_sound; assumption.
  - intros. apply tree_fromb_sound; assumption.
Qed.

(* ---- loop-free + warm = tree_to *)
Definition warm_to (ns : list wnode) (d : N) (lv : N -> nat) (up : nat -> nat) (par : N -> nat * nat) : Prop :=
  forall who w lu mu, nth_error ns who = Some w -> router_shape w ->
    nth_error (w_ports w) (up who) = Some (lu, mu) -> lv lu <> 0%nat ->
    exists pm, port_mac ns (par lu) = Some pm /\ find_path (w_node w) d = Some (up who, pm).

Theorem loop_free_warm_tree_to : forall lns ns d lv up par,
  tree_from lns ns d lv up par -> warm_to ns d lv up par -> tree_to lns ns d lv up par.
Proof.
  intros lns ns d lv up par Htf Hw. constructor.
  - apply (tf_root _ _ _ _ _ _ Htf).
  - intros who w Hwn Hr. destruct (tf_router _ _ _ _ _ _ Htf _ _ Hwn Hr) as (lu & mu & Hup & Hchild).
    exists lu, mu. split; [assumption|]. split; [|split; [assumption|]].
    + intro E. apply (tf_zero _ _ _ _ _ _ Htf lu); [|assumption].
      exists (who, up who), mu. unfold port_of. cbn [fst snd]. rewrite Hwn. exact Hup.
    + intro Hne. apply (Hw who w lu mu); assumption.
  - apply (tf_parent _ _ _ _ _ _ Htf).
Qed.
