(* NetAnn.v — a relayed I-Am-Router-To-Network announcement terminates on a loop-free internetwork, every LAN
   carrying at most one copy (contrast: C06_cycle_discovery_refuted).  Lemmas about Net.v (property C06). *)
From Coq Require Import ZifyBool ZifyN ZifyNat.
From Bac Require Import Base Net NetFacts NetTerm NetTerm2 NetReply NetOnce NetRoute NetArrive NetLocal NetBcast NetTree NetFlood NetCert.
Ltac Zify.zify_post_hook ::= Z.to_euclidean_division_equations.
Open Scope N_scope.

Lemma dec_i_am_many : forall nets, Forall (fun d => d < 65536) nets -> dec_i_am (flat_map put_short nets) = Ok nets.
Proof.
  induction nets as [|d r IH]; intro H; [reflexivity|]. inversion H; subst.
  cbn [flat_map]. unfold put_short at 1, be2. cbn [app dec_i_am]. rewrite (IH H3). cbn [bind]. f_equal. f_equal. lia.
Qed.

Lemma release_nil : forall nets i src, release [] i src nets = ([], []).
Proof. induction nets as [|d r IH]; intros; cbn [release pending_get]; [reflexivity|apply IH]. Qed.

(* a router with nothing parked: learns, relays on every other port *)
Lemma router_relays_iam : forall n i ai src dst nets,
  nth_adapter n i = Some ai -> modelled_config n = true -> is_router n = true -> pending n = [] ->
  Forall (fun d => d < 65536) nets ->
  process_npdu n i src dst (i_am nets) =
    (set_pending (set_cache n (cache_update (rcache n) (a_net ai) src nets)) [],
     map (fun j => Tx j LBcast (i_am nets)) (other_ports n i)).
Proof.
  intros n i ai src dst nets Ha Hm Hr Hp Hn.
  unfold process_npdu. rewrite Ha, Hm. cbn [negb i_am n_sadr n_dadr n_msg n_data].
  rewrite orb_true_r. cbn [known_msg N.leb N.compare negb orb].
  change (1 =? 0) with false. change (1 =? 1) with true. cbv iota.
  rewrite (dec_i_am_many nets Hn). unfold nse_i_am. cbn [pending set_cache]. rewrite Hp, release_nil, Hr.
  rewrite !app_nil_r. reflexivity.
Qed.

(* a station with nothing parked: learns, says nothing *)
Lemma station_hears_iam : forall n a src dst nets,
  adapters n = [a] -> pending n = [] -> Forall (fun d => d < 65536) nets ->
  process_npdu n 0 src dst (i_am nets) =
    (set_pending (set_cache n (cache_update (rcache n) (a_net a) src nets)) [], []).
Proof.
  intros n a src dst nets Had Hp Hn.
  unfold process_npdu, nth_adapter, modelled_config. rewrite Had. cbn [nth_error negb i_am n_sadr n_dadr n_msg n_data].
  rewrite orb_true_r. cbn [known_msg N.leb N.compare negb orb].
  change (1 =? 0) with false. change (1 =? 1) with true. cbv iota.
  rewrite (dec_i_am_many nets Hn). unfold nse_i_am, is_router. cbn [pending set_cache adapters]. rewrite Hp, release_nil, Had.
  reflexivity.
Qed.

Definition tx_frames (ports : list (N * mac)) (q : npdu) (js : list nat) : list frame :=
  flat_map (fun j => match nth_error ports j with Some (lan, m) => [mkFrame lan m LBcast q] | None => [] end) js.

Lemma emit_tx : forall n' ports who q js,
  emit (mkW n' ports) who (map (fun j => Tx j LBcast q) js) = (tx_frames ports q js, []).
Proof.
  intros n' ports who q. induction js as [|j js IH]; [reflexivity|].
  cbn [map emit w_ports tx_frames flat_map]. rewrite IH. fold (tx_frames ports q js).
  destruct (nth_error ports j) as [[lan m]|]; reflexivity.
Qed.

Lemma tx_frames_map : forall (F : N -> frame) ports q js,
  (forall j lan mj, In j js -> nth_error ports j = Some (lan, mj) -> mkFrame lan mj LBcast q = F lan) ->
  tx_frames ports q js =
  map F (flat_map (fun j => match nth_error ports j with Some (lan, _) => [lan] | None => [] end) js).
Proof. exact port_frames_map. Qed.

(* ---- the copies of the announcement *)
Definition af (ns : list wnode) (par : N -> nat * nat) (L0 : N) (m0 : mac) (nets : list N) (L : N) : frame :=
  mkFrame L (sender_mac ns par L0 m0 L) LBcast (i_am nets).

(* the origin relays nothing more: its own copy is the one in flight *)
Definition kidsA (ns : list wnode) (up : nat -> nat) (x0 x : nat * nat) : list N :=
  if pair_eqb x x0 then [] else kids ns up x.
Definition childrenA lns ns up x0 (L : N) : list N := flat_map (kidsA ns up x0) (lan_members lns L).

(* node states: structure as at the start, and nothing parked *)
Definition simp (dd : N) (ns0 ns : list wnode) : Prop :=
  sim dd ns0 ns /\ forall who w, nth_error ns who = Some w -> pending (w_node w) = [].

Lemma pair_eqb_refl : forall x, pair_eqb x x = true.
Proof. intros [a b]. unfold pair_eqb. cbn. rewrite !Nat.eqb_refl. reflexivity. Qed.

Lemma pair_eqb_neq : forall x y, x <> y -> pair_eqb x y = false.
Proof. intros x y H. destruct (pair_eqb x y) eqn:E; [apply pair_eqb_eq in E; contradiction|reflexivity]. Qed.

Lemma cache_update_other : forall nets c s m x dd, ~ In dd nets ->
  cache_get (cache_update c s m nets) x dd = cache_get c x dd.
Proof.
  unfold cache_update. induction nets as [|d r IH]; intros c s m x dd H; cbn [fold_left]; [reflexivity|].
  rewrite IH by (intro Hin; apply H; right; assumption).
  apply cache_get_set_other. cbn. intro E. apply H. left. assumption.
Qed.

Lemma find_path_learn_other : forall n s m nets dd, ~ In dd nets ->
  find_path (set_pending (set_cache n (cache_update (rcache n) s m nets)) []) dd = find_path n dd.
Proof.
  intros n s m nets dd H. unfold find_path. cbn [adapters rcache set_pending set_cache].
  apply find_path_from_ext. intro x. apply cache_update_other. assumption.
Qed.

Lemma member_ann : forall lns ns0 L0 lv up par x0 m0 nets dd ns L x,
  internet_ok lns ns0 -> tree_from lns ns0 L0 lv up par ->
  In x0 (lan_members lns L0) -> port_of ns0 x0 = Some (L0, m0) ->
  Forall (fun d => d < 65536) nets -> ~ In dd nets ->
  simp dd ns0 ns -> In x (lan_members lns L) ->
  out_frames ns (af ns0 par L0 m0 nets L) x = map (af ns0 par L0 m0 nets) (kidsA ns0 up x0 x) /\
  hearers (out_obs ns (af ns0 par L0 m0 nets L) x) = [] /\
  match fst (fst (member_out ns (af ns0 par L0 m0 nets L) x)) with
  | Some w' => (exists w0, nth_error ns0 (fst x) = Some w0 /\ node_sim dd w0 w') /\ pending (w_node w') = []
  | None => True
  end.
Proof.
  intros lns ns0 L0 lv up par x0 m0 nets dd ns L x Hio Htf Hx0 Hp0 Hn Hdd [Hsim Hpend] Hx.
  destruct (io_members _ _ Hio _ _ Hx) as [m Hport].
  assert (Hinh : exists y m1, port_of ns0 y = Some (L, m1)) by eauto.
  pose proof Hport as Hport'. unfold port_of in Hport'.
  destruct (nth_error ns0 (fst x)) as [w0|] eqn:Ew0; [|discriminate].
  destruct (sim_nth _ _ _ _ _ Hsim Ew0) as (w' & Hw' & Hns). pose proof Hns as (Hp1 & Hp2 & Hp3 & Hp4).
  pose proof (Hpend _ _ Hw') as Hpw.
  (* does x hear this copy? not if it is the one who sent it *)
  assert (Hsender : sender_mac ns0 par L0 m0 L = m -> (L = L0 /\ x = x0) \/ (L <> L0 /\ x = par L)).
  { unfold sender_mac. destruct (N.eqb_spec L L0) as [E|E]; intro Hm.
    - subst L m. left. split; [reflexivity|].
      apply (nodup_map_inj (port_mac ns0) (lan_members lns L0)); [apply (io_macs _ _ Hio)|assumption|assumption|].
      rewrite (port_of_mac _ _ _ _ Hp0), (port_of_mac _ _ _ _ Hport). reflexivity.
    - right. split; [assumption|].
      assert (Hlv : lv L <> 0%nat) by (intro E0; apply E; eapply tf_zero; eauto).
      destruct (tf_parent _ _ _ _ _ _ Htf L Hinh Hlv) as (Hpin & _).
      destruct (io_members _ _ Hio _ _ Hpin) as [mp Hpp]. rewrite (port_of_mac _ _ _ _ Hpp) in Hm. subst mp.
      symmetry. apply (nodup_map_inj (port_mac ns0) (lan_members lns L)); [apply (io_macs _ _ Hio)|assumption|assumption|].
      rewrite (port_of_mac _ _ _ _ Hpp), (port_of_mac _ _ _ _ Hport). reflexivity. }
  assert (Hstay : node_sim dd w0 (mkW (set_pending (set_cache (w_node w') (cache_update (rcache (w_node w')) (Some L) (sender_mac ns0 par L0 m0 L) nets)) []) (w_ports w0)) -> True) by auto.
  unfold out_frames, out_obs, member_out. rewrite Hw', Hp1, Hport'.
  unfold accepts. cbn [af f_dst f_src].
  destruct (mac_eqb (sender_mac ns0 par L0 m0 L) m) eqn:Eacc; cbn [negb].
  - (* x is the sender *)
    apply mac_eqb_eq in Eacc. cbn [fst snd]. split; [|split; [reflexivity|exact I]].
    destruct (Hsender Eacc) as [[E1 E2]|[E1 E2]].
    + subst x. unfold kidsA. rewrite pair_eqb_refl. reflexivity.
    + unfold kidsA. destruct (pair_eqb x x0); [reflexivity|].
      (* the parent port is a down-port: no children through it *)
      assert (Hlv : lv L <> 0%nat) by (intro E0; apply E1; eapply tf_zero; eauto).
      destruct (tf_parent _ _ _ _ _ _ Htf L Hinh Hlv) as (_ & wp & Hwp & Hrp & Hnup). rewrite <- E2 in Hnup.
      unfold kids. rewrite Ew0. destruct (Nat.eqb_spec (snd x) (up (fst x))); [contradiction|]. rewrite andb_false_r. reflexivity.
  - assert (Hne : sender_mac ns0 par L0 m0 L <> m) by (intro E; rewrite E, mac_eqb_refl in Eacc; discriminate).
    destruct (io_shape _ _ Hio _ _ Ew0) as [Hr|Hst].
    + (* a router that hears it *)
      pose proof (router_shape_sim _ _ _ Hns Hr) as Hr'.
      destruct (tf_router _ _ _ _ _ _ Htf _ _ Ew0 Hr) as (lu & mu & Hup & Hchild).
      assert (Hxne : x <> x0).
      { intro E. subst x. apply Hne. rewrite Hp0 in Hport. inversion Hport; subst. unfold sender_mac. rewrite N.eqb_refl. reflexivity. }
      destruct (Nat.eq_dec (snd x) (up (fst x))) as [Eup|Eup].
      * assert (lu = L /\ mu = m) by (rewrite <- Eup, Hport' in Hup; inversion Hup; auto). destruct H; subst lu mu.
        assert (Hpp' : nth_error (w_ports w') (snd x) = Some (L, m)) by (rewrite Hp1; exact Hport').
        rewrite (router_relays_iam (w_node w') (snd x) (mkAd (Some L) (Some m)) _ LBcast nets
                   (router_nth_adapter _ _ _ _ Hr' Hpp') (router_modelled _ Hr') (router_is_router _ Hr') Hpw Hn).
        rewrite emit_tx. cbn [fst snd]. split; [|split; [reflexivity|]].
        -- unfold kidsA. rewrite (pair_eqb_neq _ _ Hxne). unfold kids. rewrite Ew0.
           assert (Hlen : (2 <=? length (w_ports w0))%nat = true) by (destruct Hr as (Hl & _); apply Nat.leb_le; exact Hl).
           rewrite Hlen, Eup, Nat.eqb_refl. cbn [andb].
           unfold other_ports. destruct Hr' as (_ & _ & Ha' & _). rewrite Ha', map_length, Hp1, <- Eup.
           apply tx_frames_map. intros j lan mj Hj Hnj.
           apply filter_In in Hj. destruct Hj as [_ Hj]. destruct (Nat.eqb_spec j (snd x)) as [E|E]; [discriminate|].
           assert (Hlvlan : lv lan = S (lv L)) by (apply (Hchild j lan mj Hnj); rewrite <- Eup; exact E).
           assert (Hlans : lan <> L0) by (intro E0; subst lan; rewrite (tf_root _ _ _ _ _ _ Htf) in Hlvlan; discriminate).
           assert (Hpj : port_of ns0 (fst x, j) = Some (lan, mj)) by (unfold port_of; cbn [fst snd]; rewrite Ew0; exact Hnj).
           assert (Hparj : (fst x, j) = par lan).
           { eapply (tf_unique _ _ _ _ _ _ Htf lan (fst x, j) w0); cbn [fst snd]; eauto.
             - eapply io_listed; eauto.
             - rewrite <- Eup. exact E. }
           unfold af, sender_mac. destruct (N.eqb_spec lan L0); [contradiction|].
           rewrite <- Hparj, (port_of_mac _ _ _ _ Hpj). reflexivity.
        -- split; [|reflexivity]. exists w0. split; [reflexivity|]. unfold node_sim. cbn [w_ports w_node adapters has_app set_pending set_cache].
           repeat split; auto. rewrite <- Hp4. apply find_path_learn_other. assumption.
      * (* a down-port that is not the sender: impossible *)
        exfalso. apply Hne.
        assert (Hlv : lv L <> 0%nat) by (intro E0; pose proof (Hchild (snd x) L m Hport' Eup); lia).
        assert (HLs : L <> L0) by (intro E; subst L; apply Hlv; apply (tf_root _ _ _ _ _ _ Htf)).
        assert (Hxp : x = par L) by (eapply (tf_unique _ _ _ _ _ _ Htf); eauto).
        unfold sender_mac. destruct (N.eqb_spec L L0); [contradiction|]. rewrite <- Hxp, (port_of_mac _ _ _ _ Hport). reflexivity.
    + (* a station that hears it *)
      destruct Hst as (lan0 & m1 & a & Hp & Ha & Hnn & Hh).
      rewrite Hp in Hport'. destruct (snd x) as [|q] eqn:Eq; [|destruct q; discriminate]. cbn in Hport'. inversion Hport'; subst lan0 m1.
      rewrite (station_hears_iam (w_node w') a _ LBcast nets ltac:(rewrite Hp2; exact Ha) Hpw Hn).
      cbn [emit fst snd]. split; [|split; [reflexivity|]].
      * unfold kidsA. destruct (pair_eqb x x0); [reflexivity|]. unfold kids. rewrite Ew0, Hp. reflexivity.
      * split; [|reflexivity]. exists w0. split; [reflexivity|]. unfold node_sim. cbn [w_ports w_node adapters has_app set_pending set_cache].
        repeat split; auto. rewrite <- Hp4. apply find_path_learn_other. assumption.
Qed.

(* ---- which LANs carried a copy *)
Definition frame_lans (os : list obs) : list N :=
  flat_map (fun o => match o with OFrame f => [f_lan f] | _ => [] end) os.

Lemma frame_lans_app : forall a b, frame_lans (a ++ b) = frame_lans a ++ frame_lans b.
Proof. intros. unfold frame_lans. apply flat_map_app. Qed.

(* observations of one delivery contain no OFrame: they come from emit *)
Lemma emit_no_frames : forall w who acts fs os, emit w who acts = (fs, os) -> frame_lans os = [].
Proof.
  intros w who. induction acts as [|a r IH]; intros fs os H; cbn [emit] in H.
  - inversion H; reflexivity.
  - destruct (emit w who r) as [fs0 os0] eqn:Er. specialize (IH _ _ eq_refl).
    destruct a; try (destruct (nth_error (w_ports w) port) as [[? ?]|]); inversion H; subst; cbn; assumption.
Qed.

Lemma out_obs_no_frames : forall ns f x, frame_lans (out_obs ns f x) = [].
Proof.
  intros ns f x. unfold out_obs, member_out.
  destruct (nth_error ns (fst x)) as [w|]; [|reflexivity].
  destruct (nth_error (w_ports w) (snd x)) as [[lan m]|]; [|reflexivity].
  destruct (accepts m f); [|reflexivity].
  destruct (process_npdu (w_node w) (snd x) (f_src f) (f_dst f) (f_npdu f)) as [n' acts].
  destruct (emit (mkW n' (w_ports w)) (fst x) acts) as [fs os] eqn:Ee. cbn [snd]. eapply emit_no_frames; eauto.
Qed.


Lemma frame_lans_rev : forall os, frame_lans (rev os) = rev (frame_lans os).
Proof.
  induction os as [|o os IH]; [reflexivity|]. cbn [rev]. rewrite frame_lans_app, IH.
  replace (o :: os) with ([o] ++ os) by reflexivity. rewrite (frame_lans_app [o] os), rev_app_distr.
  f_equal. destruct o; reflexivity.
Qed.

Lemma frame_lans_flat_map : forall {A} (g : A -> list obs) l, frame_lans (flat_map g l) = flat_map (fun x => frame_lans (g x)) l.
Proof. induction l as [|a l IH]; cbn; [reflexivity|]. rewrite frame_lans_app, IH. reflexivity. Qed.

(* ---- one copy is delivered on its LAN *)
Lemma lan_ann : forall lns ns0 L0 lv up par x0 m0 nets dd,
  internet_ok lns ns0 -> tree_from lns ns0 L0 lv up par ->
  In x0 (lan_members lns L0) -> port_of ns0 x0 = Some (L0, m0) ->
  Forall (fun d => d < 65536) nets -> ~ In dd nets ->
  forall w L q, lans w = lns -> simp dd ns0 (nodes w) -> queue w = af ns0 par L0 m0 nets L :: q ->
  exists w' osn, step w = Some w' /\ lans w' = lns /\ simp dd ns0 (nodes w') /\
     queue w' = q ++ map (af ns0 par L0 m0 nets) (childrenA lns ns0 up x0 L) /\
     trace w' = osn ++ OFrame (af ns0 par L0 m0 nets L) :: trace w /\ hearers osn = [] /\ frame_lans osn = [].
Proof.
  intros lns ns0 L0 lv up par x0 m0 nets dd Hio Htf Hx0 Hp0 Hn Hdd w L q Hl Hsimp Hq.
  unfold step, step_core. rewrite Hq, Hl.
  set (F := af ns0 par L0 m0 nets) in *.
  change (f_lan (F L)) with L.
  destruct (deliver (nodes w) (F L) (lan_members lns L) q [OFrame (F L)]) as [[ns' q'] tr'] eqn:Ed.
  destruct (deliver_as_map _ _ _ _ _ _ _ _ Ed (io_once _ _ Hio L)) as (A1 & A2 & A3 & A4).
  assert (Hmf := fun x Hx => member_ann lns ns0 L0 lv up par x0 m0 nets dd (nodes w) L x Hio Htf Hx0 Hp0 Hn Hdd Hsimp Hx).
  fold F in Hmf. destruct Hsimp as [Hsim Hpend].
  eexists. exists (rev (flat_map (out_obs (nodes w) (F L)) (lan_members lns L))).
  split; [reflexivity|]. cbn [lans nodes queue trace]. split; [reflexivity|]. split; [|split; [|split; [|split]]].
  - split.
    + intro who. destruct (in_dec Nat.eq_dec who (map fst (lan_members lns L))) as [Hin|Hnin].
      * apply in_map_iff in Hin. destruct Hin as [x [Ex Hx]]. subst who.
        rewrite (A4 x Hx). destruct (Hmf x Hx) as (_ & _ & H3).
        destruct (fst (fst (member_out (nodes w) (F L) x))) as [w'|].
        -- destruct H3 as ((w0 & Hw0 & Hns) & _). rewrite Hw0. exact Hns.
        -- exact (Hsim (fst x)).
      * rewrite (A3 who Hnin). exact (Hsim who).
    + intros who w1 Hw1. destruct (in_dec Nat.eq_dec who (map fst (lan_members lns L))) as [Hin|Hnin].
      * apply in_map_iff in Hin. destruct Hin as [x [Ex Hx]]. subst who.
        rewrite (A4 x Hx) in Hw1. destruct (Hmf x Hx) as (_ & _ & H3).
        destruct (fst (fst (member_out (nodes w) (F L) x))) as [w'|].
        -- inversion Hw1; subst. apply H3.
        -- eapply Hpend; eauto.
      * rewrite (A3 who Hnin) in Hw1. eapply Hpend; eauto.
  - rewrite A1. f_equal. unfold childrenA. rewrite <- flat_map_map.
    apply flat_map_ext_in'. intros x Hx. apply (Hmf x Hx).
  - rewrite A2, <- app_assoc. reflexivity.
  - rewrite hearers_rev, hearers_flat_map.
    rewrite (flat_map_ext_in' _ (fun _ => []) _ (fun x Hx => proj1 (proj2 (Hmf x Hx)))).
    clear. induction (lan_members lns L); [reflexivity|assumption].
  - rewrite frame_lans_rev, frame_lans_flat_map.
    rewrite (flat_map_ext_in' _ (fun _ => []) _ (fun x _ => out_obs_no_frames (nodes w) (F L) x)).
    clear. induction (lan_members lns L); [reflexivity|assumption].
Qed.

(* ---- child networks, minus the origin's *)
Lemma kidsA_sub : forall ns up x0 x, kidsA ns up x0 x = [] \/ kidsA ns up x0 x = kids ns up x.
Proof. intros. unfold kidsA. destruct (pair_eqb x x0); auto. Qed.

Lemma nodup_app_parts : forall {B} (a b : list B), NoDup (a ++ b) ->
  NoDup a /\ NoDup b /\ (forall e, In e a -> ~ In e b).
Proof.
  induction a as [|y a IH]; intros b H; cbn in *.
  - repeat split; [constructor|assumption|intros e []].
  - inversion H; subst. destruct (IH b H3) as (I1 & I2 & I3). repeat split; auto.
    + constructor; [|assumption]. intro Hin. apply H2. apply in_or_app. left. assumption.
    + intros e [E|E] Hb; [subst; apply H2; apply in_or_app; right; assumption|eapply I3; eauto].
Qed.

Lemma nodup_sub_flat_map : forall {A B} (g g' : A -> list B) l,
  (forall x, g' x = [] \/ g' x = g x) -> NoDup (flat_map g l) -> NoDup (flat_map g' l).
Proof.
  intros A B g g' l Hs. induction l as [|a l IH]; intro H; cbn in *; [constructor|].
  assert (Hsub : forall e, In e (flat_map g' l) -> In e (flat_map g l)).
  { intros e He. apply in_flat_map in He. destruct He as [y [Hy Hey]]. apply in_flat_map. exists y. split; [assumption|].
    destruct (Hs y) as [E|E]; rewrite E in Hey; [contradiction|assumption]. }
  destruct (nodup_app_parts _ _ H) as (Ha & Hb & Hd).
  destruct (Hs a) as [E|E]; rewrite E; [apply IH; assumption|].
  apply nodup_app; [assumption|apply IH; assumption|].
  intros e He Hq. apply (Hd e He). apply Hsub. assumption.
Qed.

Lemma childrenA_nodup : forall lns ns0 s lv up par x0 L,
  internet_ok lns ns0 -> tree_from lns ns0 s lv up par -> NoDup (childrenA lns ns0 up x0 L).
Proof.
  intros. unfold childrenA. apply (nodup_sub_flat_map (kids ns0 up)); [intro x; apply kidsA_sub|].
  eapply children_nodup; eauto.
Qed.

Lemma childrenA_in : forall lns ns0 up x0 L L', In L' (childrenA lns ns0 up x0 L) ->
  exists x, In x (lan_members lns L) /\ In L' (kids ns0 up x).
Proof.
  intros lns ns0 up x0 L L' H. unfold childrenA in H. apply in_flat_map in H. destruct H as [x [Hx Hk]].
  exists x. split; [assumption|]. destruct (kidsA_sub ns0 up x0 x) as [E|E]; rewrite E in Hk; [contradiction|assumption].
Qed.


(* ---- the invariant *)
Definition InvAx lns ns0 L0 (up : nat -> nat) par m0 nets dd (T0 : list obs)
                 (done todo : list N) (osn : list obs) (w : world) : Prop :=
    lans w = lns /\ simp dd ns0 (nodes w) /\
    queue w = map (af ns0 par L0 m0 nets) todo /\ trace w = osn ++ T0 /\
    NoDup (done ++ todo) /\
    (forall L, In L (done ++ todo) -> inhabited ns0 L) /\
    (forall L, In L (done ++ todo) -> L <> L0 -> exists lu, up_lan ns0 up par L lu /\ In lu done) /\
    hearers osn = [] /\ frame_lans osn = rev done.

Lemma invA_step : forall lns ns0 L0 lv up par x0 m0 nets dd T0 done L todo' osn w,
  internet_ok lns ns0 -> tree_from lns ns0 L0 lv up par ->
  In x0 (lan_members lns L0) -> port_of ns0 x0 = Some (L0, m0) ->
  Forall (fun d => d < 65536) nets -> ~ In dd nets ->
  InvAx lns ns0 L0 up par m0 nets dd T0 done (L :: todo') osn w ->
  exists w' osn1, step w = Some w' /\
    InvAx lns ns0 L0 up par m0 nets dd T0 (done ++ [L]) (todo' ++ childrenA lns ns0 up x0 L)
          (osn1 ++ OFrame (af ns0 par L0 m0 nets L) :: osn) w'.
Proof.
  intros lns ns0 L0 lv up par x0 m0 nets dd T0 done L todo' osn w Hio Htf Hx0 Hp0 Hn Hdd
         (Hl & Hsimp & Hq & Htr & Hnd & Hinh & Hpar & Hhe & Hfl).
  cbn [map] in Hq.
  destruct (lan_ann lns ns0 L0 lv up par x0 m0 nets dd Hio Htf Hx0 Hp0 Hn Hdd w L _ Hl Hsimp Hq)
    as (w' & osn1 & Hstep & Hl' & Hsimp' & Hq' & Htr' & Hh1 & Hf1).
  exists w', osn1. split; [assumption|].
  set (ch := childrenA lns ns0 up x0 L) in *.
  assert (HLnd : ~ In L done).
  { intro Hin. apply NoDup_remove_2 in Hnd. apply Hnd. apply in_or_app. left. assumption. }
  assert (Hch : forall L', In L' ch -> inhabited ns0 L' /\ L' <> L0 /\ up_lan ns0 up par L' L).
  { intros L' HL'. destruct (childrenA_in _ _ _ _ _ _ HL') as [x [Hx Hk]].
    destruct (kids_spec _ _ _ _ _ _ _ _ _ Hio Htf Hx Hk) as (wr & j & mj & Hwr & Hr & Hup & Hj & Hju & Hpj & Hlv & Hns).
    destruct (io_members _ _ Hio _ _ Hx) as [m Hport]. unfold port_of in Hport. rewrite Hwr, Hup in Hport.
    split; [|split; [assumption|]].
    - exists (fst x, j), mj. unfold port_of. cbn [fst snd]. rewrite Hwr. exact Hj.
    - exists wr, m. rewrite Hpj. cbn [fst]. split; assumption. }
  assert (Hdisj : forall L', In L' (done ++ L :: todo') -> ~ In L' ch).
  { intros L' Hold Hnew. destruct (Hch L' Hnew) as (_ & Hns & (wr & m & Hwr & Hupp)).
    destruct (Hpar L' Hold Hns) as (lu & (wr2 & m2 & Hwr2 & Hupp2) & Hlu).
    rewrite Hwr in Hwr2. inversion Hwr2; subst wr2. rewrite Hupp in Hupp2. inversion Hupp2; subst lu. contradiction. }
  assert (Hmem : forall z, In z ((done ++ [L]) ++ todo' ++ ch) <-> In z (done ++ L :: todo') \/ In z ch).
  { intro z. rewrite !in_app_iff. cbn [In]. tauto. }
  split; [assumption|]. split; [assumption|]. split; [rewrite Hq', map_app; reflexivity|].
  split; [rewrite Htr', Htr, <- app_assoc; reflexivity|].
  split.
  { replace ((done ++ [L]) ++ todo' ++ ch) with ((done ++ L :: todo') ++ ch) by (rewrite <- !app_assoc; reflexivity).
    apply nodup_app; [assumption|eapply childrenA_nodup; eauto|exact Hdisj]. }
  split.
  { intros L1 H0. apply Hmem in H0. destruct H0 as [H0|H0]; [apply Hinh; assumption|apply (Hch L1 H0)]. }
  split.
  { intros L1 H0 Hns. apply Hmem in H0. destruct H0 as [H0|H0].
    - destruct (Hpar L1 H0 Hns) as (lu & Hul & Hlu). exists lu. split; [assumption|]. apply in_or_app. left. assumption.
    - exists L. split; [apply (Hch L1 H0)|]. apply in_or_app. right. left. reflexivity. }
  split.
  { rewrite hearers_app. cbn [hearers flat_map]. fold (hearers osn). rewrite Hh1, Hhe. reflexivity. }
  { rewrite frame_lans_app, Hf1. cbn [app frame_lans flat_map]. fold (frame_lans osn). rewrite Hfl, rev_app_distr. reflexivity. }
Qed.

(* ---- termination: every step serves a new LAN, and there are only so many *)
Lemma invA_terminates : forall lns ns0 L0 lv up par x0 m0 nets dd T0,
  internet_ok lns ns0 -> tree_from lns ns0 L0 lv up par ->
  In x0 (lan_members lns L0) -> port_of ns0 x0 = Some (L0, m0) ->
  Forall (fun d => d < 65536) nets -> ~ In dd nets ->
  forall n done todo osn w, InvAx lns ns0 L0 up par m0 nets dd T0 done todo osn w ->
    (length (map fst lns) - length done <= n)%nat ->
    exists k done' osn', queue (run k w) = [] /\ InvAx lns ns0 L0 up par m0 nets dd T0 done' [] osn' (run k w).
Proof.
  intros lns ns0 L0 lv up par x0 m0 nets dd T0 Hio Htf Hx0 Hp0 Hn Hdd.
  induction n as [|n IH]; intros done todo osn w Hinv Hbound.
  all: destruct todo as [|L todo'];
    [exists 0%nat, done, osn; cbn [run]; split; [destruct Hinv as (_ & _ & Hq & _); exact Hq|exact Hinv]|].
  all: pose proof Hinv as (Hl & Hsimp & Hq2 & Htr & Hnd & Hinh & Hpar & Hhe & Hfl).
  all: assert (Hlen : (length (done ++ L :: todo') <= length (map fst lns))%nat)
         by (apply NoDup_incl_length; [assumption|]; intros L1 HL; eapply inhabited_key; eauto; apply (Hinh L1 HL)).
  all: rewrite app_length in Hlen; cbn [length] in Hlen.
  - lia.
  - destruct (invA_step lns ns0 L0 lv up par x0 m0 nets dd T0 done L todo' osn w Hio Htf Hx0 Hp0 Hn Hdd Hinv)
      as (w' & osn1 & Hs & Hinv').
    destruct (IH _ _ _ w' Hinv') as (k & done' & osn' & Hk1 & Hk2).
    + rewrite app_length. cbn [length]. lia.
    + exists (S k), done', osn'. cbn [run]. rewrite Hs. auto.
Qed.

Definition fresh (nets : list N) : N := N.succ (fold_right N.max 0 nets).

Lemma max_ge : forall nets d, In d nets -> d <= fold_right N.max 0 nets.
Proof.
  induction nets as [|a r IH]; intros d H; [contradiction|]. cbn [fold_right].
  destruct H as [E|H]; [subst; lia|]. specialize (IH d H). lia.
Qed.

Lemma fresh_not_in : forall nets, ~ In (fresh nets) nets.
Proof. intros nets H. apply max_ge in H. unfold fresh in H. lia. Qed.

(* C06_announcements_terminate on loop-free internetworks: a broadcast I-Am-Router-To-Network in flight on LAN L0
   (sent by the member x0 of L0), nothing parked anywhere: the relays stop, no LAN carries more than one copy,
   nothing is handed to any application *)
Theorem announcement_terminates_on_tree : forall w L0 lv up par x0 m0 nets,
  internet_ok (lans w) (nodes w) -> tree_from (lans w) (nodes w) L0 lv up par ->
  In x0 (lan_members (lans w) L0) -> port_of (nodes w) x0 = Some (L0, m0) ->
  Forall (fun d => d < 65536) nets ->
  (forall who wn, nth_error (nodes w) who = Some wn -> pending (w_node wn) = []) ->
  queue w = [mkFrame L0 m0 LBcast (i_am nets)] ->
  exists k osn, queue (run k w) = [] /\ trace (run k w) = osn ++ trace w /\
                hearers osn = [] /\ NoDup (frame_lans osn).
Proof.
  intros w L0 lv up par x0 m0 nets Hio Htf Hx0 Hp0 Hn Hpend Hq.
  pose proof (fresh_not_in nets) as Hdd.
  assert (Hinv : InvAx (lans w) (nodes w) L0 up par m0 nets (fresh nets) (trace w) [] [L0] [] w).
  { unfold InvAx. split; [reflexivity|]. split; [split; [apply sim_refl|exact Hpend]|].
    split. { rewrite Hq. cbn [map]. unfold af, sender_mac. rewrite N.eqb_refl. reflexivity. }
    split; [reflexivity|]. split; [repeat constructor; intros []|].
    split. { intros L [E|[]]. subst L. exists x0, m0. assumption. }
    split; [intros L [E|[]] Hne; congruence|]. split; reflexivity. }
  destruct (invA_terminates (lans w) (nodes w) L0 lv up par x0 m0 nets (fresh nets) (trace w) Hio Htf Hx0 Hp0 Hn Hdd
              _ [] [L0] [] w Hinv (Nat.le_refl _)) as (k & done' & osn' & Hk & (_ & _ & _ & Htr & Hnd & _ & _ & Hhe & Hfl)).
  exists k, osn'. split; [assumption|]. split; [assumption|]. split; [assumption|].
  rewrite Hfl. apply NoDup_rev. rewrite app_nil_r in Hnd. assumption.
Qed.
