(* NetAnn.v — a relayed I-Am-Router-To-Network announcement terminates on a loop-free internetwork, every LAN
   carrying at most one copy (contrast: C06_cycle_discovery_refuted).  Lemmas about Net.v (property C06). *)
From Coq Require Import ZifyBool ZifyN ZifyNat.
From Bac Require Import Base Net NetFacts NetTerm NetTerm2 NetReply NetOnce NetRoute NetArrive NetLocal NetBcast NetTree NetFlood NetCert.
Ltac Zify.zify_post_hook ::= Z.to_euclidean_division_equations.
Open Scope N_scope.

Lemma dec_i_am_many : forall nets, Forall (fun d => d < 65536) nets -> dec_i_am (flat_map put_short nets) = Ok nets.
Proof.
  induction nets as [|d r IH]; intro H; [reflexivity|]. inversion H; subst.
  cbn [flat_map]. unfold put_short at 1, be2. cbn [app dec_i_am]. rewrite (IH H3). cbn [bind]. f_equal. f_equal. lia.
Qed.

Lemma release_nil : forall nets i src, release [] i src nets = ([], []).
Proof. induction nets as [|d r IH]; intros; cbn [release pending_get]; [reflexivity|apply IH]. Qed.

(* a router with nothing parked: learns, relays on every other port *)
Lemma router_relays_iam : forall n i ai src dst nets,
  nth_adapter n i = Some ai -> modelled_config n = true -> is_router n = true -> pending n = [] ->
  Forall (fun d => d < 65536) nets ->
  process_npdu n i src dst (i_am nets) =
    (set_pending (set_cache n (cache_update (rcache n) (a_net ai) src nets)) [],
     map (fun j => Tx j LBcast (i_am nets)) (other_ports n i)).
Proof.
  intros n i ai src dst nets Ha Hm Hr Hp Hn.
  unfold process_npdu. rewrite Ha, Hm. cbn [negb i_am n_sadr n_dadr n_msg n_data].
  rewrite orb_true_r. cbn [known_msg N.leb N.compare negb orb].
  change (1 =? 0) with false. change (1 =? 1) with true. cbv iota.
  rewrite (dec_i_am_many nets Hn). unfold nse_i_am. cbn [pending set_cache]. rewrite Hp, release_nil, Hr.
  rewrite !app_nil_r. reflexivity.
Qed.

(* a station with nothing parked: learns, says nothing *)
Lemma station_hears_iam : forall n a src dst nets,
  adapters n = [a] -> pending n = [] -> Forall (fun d => d < 65536) nets ->
  process_npdu n 0 src dst (i_am nets) =
    (set_pending (set_cache n (cache_update (rcache n) (a_net a) src nets)) [], []).
Proof.
  intros n a src dst nets Had Hp Hn.
  unfold process_npdu, nth_adapter, modelled_config. rewrite Had. cbn [nth_error negb i_am n_sadr n_dadr n_msg n_data].
  rewrite orb_true_r. cbn [known_msg N.leb N.compare negb orb].
  change (1 =? 0) with false. change (1 =? 1) with true. cbv iota.
  rewrite (dec_i_am_many nets Hn). unfold nse_i_am, is_router. cbn [pending set_cache adapters]. rewrite Hp, release_nil, Had.
  reflexivity.
Qed.

Definition tx_frames (ports : list (N * mac)) (q : npdu) (js : list nat) : list frame :=
  flat_map (fun j => match nth_error ports j with Some (lan, m) => [mkFrame lan m LBcast q] | None => [] end) js.

Lemma emit_tx : forall n' ports who q js,
  emit (mkW n' ports) who (map (fun j => Tx j LBcast q) js) = (tx_frames ports q js, []).
Proof.
  intros n' ports who q. induction js as [|j js IH]; [reflexivity|].
  cbn [map emit w_ports tx_frames flat_map]. rewrite IH. fold (tx_frames ports q js).
  destruct (nth_error ports j) as [[lan m]|]; reflexivity.
Qed.

Lemma tx_frames_map : forall (F : N -> frame) ports q js,
  (forall j lan mj, In j js -> nth_error ports j = Some (lan, mj) -> mkFrame lan mj LBcast q = F lan) ->
  tx_frames ports q js =
  map F (flat_map (fun j => match nth_error ports j with Some (lan, _) => [lan] | None => [] end) js).
Proof. exact port_frames_map. Qed.

(* ---- the copies of the announcement *)
Definition af (ns : list wnode) (par : N -> nat * nat) (L0 : N) (m0 : mac) (nets : list N) (L : N) : frame :=
  mkFrame L (sender_mac ns par L0 m0 L) LBcast (i_am nets).

(* the origin relays nothing more: its own copy is the one in flight *)
Definition kidsA (ns : list wnode) (up : nat -> nat) (x0 x : nat * nat) : list N :=
  if pair_eqb x x0 then [] else kids ns up x.
Definition childrenA lns ns up x0 (L : N) : list N := flat_map (kidsA ns up x0) (lan_members lns L).

(* node states: structure as at the start, and nothing parked *)
Definition simp (dd : N) (ns0 ns : list wnode) : Prop :=
  sim dd ns0 ns /\ forall who w, nth_error ns who = Some w -> pending (w_node w) = [].

Lemma pair_eqb_refl : forall x, pair_eqb x x = true.
Proof. intros [a b]. unfold pair_eqb. cbn. rewrite !Nat.eqb_refl. reflexivity. Qed.

Lemma pair_eqb_neq : forall x y, x <> y -> pair_eqb x y = false.
Proof. intros x y H. destruct (pair_eqb x y) eqn:E; [apply pair_eqb_eq in E; contradiction|reflexivity]. Qed.

Lemma cache_update_other : forall nets c s m x dd, ~ In dd nets ->
  cache_get (cache_update c s m nets) x dd = cache_get c x dd.
Proof.
  unfold cache_update. induction nets as [|d r IH]; intros c s m x dd H; cbn [fold_left]; [reflexivity|].
  rewrite IH by (intro Hin; apply H; right; assumption).
  apply cache_get_set_other. cbn. intro E. apply H. left. assumption.
Qed.

Lemma find_path_learn_other : forall n s m nets dd, ~ In dd nets ->
  find_path (set_pending (set_cache n (cache_update (rcache n) s m nets)) []) dd = find_path n dd.
Proof.
  intros n s m nets dd H. unfold find_path. cbn [adapters rcache set_pending set_cache].
  apply find_path_from_ext. intro x. apply cache_update_other. assumption.
Qed.

Lemma member_ann : forall lns ns0 L0 lv up par x0 m0 nets dd ns L x,
  internet_ok lns ns0 -> tree_from lns ns0 L0 lv up par ->
  In x0 (lan_members lns L0) -> port_of ns0 x0 = Some (L0, m0) ->
  Forall (fun d => d < 65536) nets -> ~ In dd nets ->
  simp dd ns0 ns -> In x (lan_members lns L) ->
  out_frames ns (af ns0 par L0 m0 nets L) x = map (af ns0 par L0 m0 nets) (kidsA ns0 up x0 x) /\
  hearers (out_obs ns (af ns0 par L0 m0 nets L) x) = [] /\
  match fst (fst (member_out ns (af ns0 par L0 m0 nets L) x)) with
  | Some w' => (exists w0, nth_error ns0 (fst x) = Some w0 /\ node_sim dd w0 w') /\ pending (w_node w') = []
  | None => True
  end.
Proof.
  intros lns ns0 L0 lv up par x0 m0 nets dd ns L x Hio Htf Hx0 Hp0 Hn Hdd [Hsim Hpend] Hx.
  destruct (io_members _ _ Hio _ _ Hx) as [m Hport].
  assert (Hinh : exists y m1, port_of ns0 y = Some (L, m1)) by eauto.
  pose proof Hport as Hport'. unfold port_of in Hport'.
  destruct (nth_error ns0 (fst x)) as [w0|] eqn:Ew0; [|discriminate].
  destruct (sim_nth _ _ _ _ _ Hsim Ew0) as (w' & Hw' & Hns). pose proof Hns as (Hp1 & Hp2 & Hp3 & Hp4).
  pose proof (Hpend _ _ Hw') as Hpw.
  (* does x hear this copy? not if it is the one who sent it *)
  assert (Hsender : sender_mac ns0 par L0 m0 L = m -> (L = L0 /\ x = x0) \/ (L <> L0 /\ x = par L)).
  { unfold sender_mac. destruct (N.eqb_spec L L0) as [E|E]; intro Hm.
    - subst L m. left. split; [reflexivity|].
      apply (nodup_map_inj (port_mac ns0) (lan_members lns L0)); [apply (io_macs _ _ Hio)|assumption|assumption|].
      rewrite (port_of_mac _ _ _ _ Hp0), (port_of_mac _ _ _ _ Hport). reflexivity.
    - right. split; [assumption|].
      assert (Hlv : lv L <> 0%nat) by (intro E0; apply E; eapply tf_zero; eauto).
      destruct (tf_parent _ _ _ _ _ _ Htf L Hinh Hlv) as (Hpin & _).
      destruct (io_members _ _ Hio _ _ Hpin) as [mp Hpp]. rewrite (port_of_mac _ _ _ _ Hpp) in Hm. subst mp.
      symmetry. apply (nodup_map_inj (port_mac ns0) (lan_members lns L)); [apply (io_macs _ _ Hio)|assumption|assumption|].
      rewrite (port_of_mac _ _ _ _ Hpp), (port_of_mac _ _ _ _ Hport). reflexivity. }
  assert (Hstay : node_sim dd w0 (mkW (set_pending (set_cache (w_node w') (cache_update (rcache (w_node w')) (Some L) (sender_mac ns0 par L0 m0 L) nets)) []) (w_ports w0)) -> True) by auto.
  unfold out_frames, out_obs, member_out. rewrite Hw', Hp1, Hport'.
  unfold accepts. cbn [af f_dst f_src].
  destruct (mac_eqb (sender_mac ns0 par L0 m0 L) m) eqn:Eacc; cbn [negb].
  - (* x is the sender *)
    apply mac_eqb_eq in Eacc. cbn [fst snd]. split; [|split; [reflexivity|exact I]].
    destruct (Hsender Eacc) as [[E1 E2]|[E1 E2]].
    + subst x. unfold kidsA. rewrite pair_eqb_refl. reflexivity.
    + unfold kidsA. destruct (pair_eqb x x0); [reflexivity|].
      (* the parent port is a down-port: no children through it *)
      assert (Hlv : lv L <> 0%nat) by (intro E0; apply E1; eapply tf_zero; eauto).
      destruct (tf_parent _ _ _ _ _ _ Htf L Hinh Hlv) as (_ & wp & Hwp & Hrp & Hnup). rewrite <- E2 in Hnup.
      unfold kids. rewrite Ew0. destruct (Nat.eqb_spec (snd x) (up (fst x))); [contradiction|]. rewrite andb_false_r. reflexivity.
  - assert (Hne : sender_mac ns0 par L0 m0 L <> m) by (intro E; rewrite E, mac_eqb_refl in Eacc; discriminate).
    destruct (io_shape _ _ Hio _ _ Ew0) as [Hr|Hst].
    + (* a router that hears it *)
      pose proof (router_shape_sim _ _ _ Hns Hr) as Hr'.
      destruct (tf_router _ _ _ _ _ _ Htf _ _ Ew0 Hr) as (lu & mu & Hup & Hchild).
      assert (Hxne : x <> x0).
      { intro E. subst x. apply Hne. rewrite Hp0 in Hport. inversion Hport; subst. unfold sender_mac. rewrite N.eqb_refl. reflexivity. }
      destruct (Nat.eq_dec (snd x) (up (fst x))) as [Eup|Eup].
      * assert (lu = L /\ mu = m) by (rewrite <- Eup, Hport' in Hup; inversion Hup; auto). destruct H; subst lu mu.
        assert (Hpp' : nth_error (w_ports w') (snd x) = Some (L, m)) by (rewrite Hp1; exact Hport').
        rewrite (router_relays_iam (w_node w') (snd x) (mkAd (Some L) (Some m)) _ LBcast nets
                   (router_nth_adapter _ _ _ _ Hr' Hpp') (router_modelled _ Hr') (router_is_router _ Hr') Hpw Hn).
        rewrite emit_tx. cbn [fst snd]. split; [|split; [reflexivity|]].
        -- unfold kidsA. rewrite (pair_eqb_neq _ _ Hxne). unfold kids. rewrite Ew0.
           assert (Hlen : (2 <=? length (w_ports w0))%nat = true) by (destruct Hr as (Hl & _); apply Nat.leb_le; exact Hl).
           rewrite Hlen, Eup, Nat.eqb_refl. cbn [andb].
           unfold other_ports. destruct Hr' as (_ & _ & Ha' & _). rewrite Ha', map_length, Hp1, <- Eup.
           apply tx_frames_map. intros j lan mj Hj Hnj.
           apply filter_In in Hj. destruct Hj as [_ Hj]. destruct (Nat.eqb_spec j (snd x)) as [E|E]; [discriminate|].
           assert (Hlvlan : lv lan = S (lv L)) by (apply (Hchild j lan mj Hnj); rewrite <- Eup; exact E).
           assert (Hlans : lan <> L0) by (intro E0; subst lan; rewrite (tf_root _ _ _ _ _ _ Htf) in Hlvlan; discriminate).
           assert (Hpj : port_of ns0 (fst x, j) = Some (lan, mj)) by (unfold port_of; cbn [fst snd]; rewrite Ew0; exact Hnj).
           assert (Hparj : (fst x, j) = par lan).
           { eapply (tf_unique _ _ _ _ _ _ Htf lan (fst x, j) w0); cbn [fst snd]; eauto.
             - eapply io_listed; eauto.
             - rewrite <- Eup. exact E. }
           unfold af, sender_mac. destruct (N.eqb_spec lan L0); [contradiction|].
           rewrite <- Hparj, (port_of_mac _ _ _ _ Hpj). reflexivity.
        -- split; [|reflexivity]. exists w0. split; [reflexivity|]. unfold node_sim. cbn [w_ports w_node adapters has_app set_pending set_cache].
           repeat split; auto. rewrite <- Hp4. apply find_path_learn_other. assumption.
      * (* a down-port that is not the sender: impossible *)
        exfalso. apply Hne.
        assert (Hlv : lv L <> 0%nat) by (intro E0; pose proof (Hchild (snd x) L m Hport' Eup); lia).
        assert (HLs : L <> L0) by (intro E; subst L; apply Hlv; apply (tf_root _ _ _ _ _ _ Htf)).
        assert (Hxp : x = par L) by (eapply (tf_unique _ _ _ _ _ _ Htf); eauto).
        unfold sender_mac. destruct (N.eqb_spec L L0); [contradiction|]. rewrite <- Hxp, (port_of_mac _ _ _ _ Hport). reflexivity.
    + (* a station that hears it *)
      destruct Hst as (lan0 & m1 & a & Hp & Ha & Hnn & Hh).
      rewrite Hp in Hport'. destruct (snd x) as [|q] eqn:Eq; [|destruct q; discriminate]. cbn in Hport'. inversion Hport'; subst lan0 m1.
      rewrite (station_hears_iam (w_node w') a _ LBcast nets ltac:(rewrite Hp2; exact Ha) Hpw Hn).
      cbn [emit fst snd]. split; [|split; [reflexivity|]].
      * unfold kidsA. destruct (pair_eqb x x0); [reflexivity|]. unfold kids. rewrite Ew0, Hp. reflexivity.
      * split; [|reflexivity]. exists w0. split; [reflexivity|]. unfold node_sim. cbn [w_ports w_node adapters has_app set_pending set_cache].
        repeat split; auto. rewrite <- Hp4. apply find_path_learn_other. assumption.
Qed.
