From Bac Require Import Base.
From Bac Require Import Tag.
From Bac Require Import Schema.
From Bac Require Import Codec.
From Bac Require Import Asap.
From Bac Require Import AsapFacts.
From Bac Require Import AsapCodec.
From BacGen Require Import Schemas.
Open Scope N_scope.

(* whatever the octets of the parameter area are: exactly one reply unless the service itself stays silent *)
Lemma octets_one_reply svc params h x :
  x <> XSilent -> exists r, asap_octets svc params h x = [r].
Proof.
  intros Hx. unfold asap_octets. destruct (decode_outcome svc params); apply one_reply; exact Hx.
Qed.

(* parameters the codec refuses — with ANY error class — are answered by Reject or Abort,
   independently of the service implementation *)
Lemma octets_refused_params svc params h x t e :
  assocN svc Schemas.confirmed_request_types = Some t -> decode_pdu t params = Err e ->
  exists r, asap_octets svc params h x = [r] /\ (ptype r = REJECT \/ ptype r = ABORT).
Proof.
  intros Hs He. unfold asap_octets, decode_outcome. rewrite Hs, He.
  apply malformed_rejected. destruct e; cbn; discriminate.
Qed.

Lemma octets_unknown_service svc params h x :
  assocN svc Schemas.confirmed_request_types = None ->
  asap_octets svc params h x = [mkReply REJECT unrecognizedService 0].
Proof. intros Hs. unfold asap_octets, decode_outcome. rewrite Hs. reflexivity. Qed.
