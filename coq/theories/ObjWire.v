(* ObjWire.v — C15: the array index as it travels (Obj.wire_index / enc_index / step_wire).
   An index that is present in a request is never treated as absent, whatever its octets; every index the
   library's encoder can send arrives as itself; an index beyond the array (or any index on a property that is not
   an array) is refused by ReadProperty, WriteProperty and as a ReadPropertyMultiple element, state unchanged. *)
From Coq Require Import ZifyBool ZifyN ZifyNat.
From Bac Require Import Base PyRt Obj ObjFacts.
Open Scope Z_scope.
Ltac Zify.zify_post_hook ::= Z.to_euclidean_division_equations.

Definition octets (bs : list Z) : Prop := Forall (fun b => 0 <= b < 256) bs.

Lemma zlength_cons : forall {A} (a : A) l, zlength (a :: l) = zlength l + 1.
Proof. intros. unfold zlength. cbn [length]. lia. Qed.
Lemma zlength_nonneg : forall {A} (l : list A), 0 <= zlength l.
Proof. intros. unfold zlength. lia. Qed.

(* big-endian fold: the accumulator is shifted by the number of octets, the octets alone stay below 256^len *)
Lemma be_value_acc : forall bs acc, be_value acc bs = acc * 256 ^ zlength bs + be_value 0 bs.
Proof.
  induction bs as [| b r IH]; intros acc; cbn [be_value].
  - unfold zlength; cbn. lia.
  - rewrite (IH (acc * 256 + b)), (IH (0 * 256 + b)), zlength_cons.
    rewrite Z.pow_add_r by (pose proof (zlength_nonneg r); lia). lia.
Qed.
Lemma be_value_range : forall bs, octets bs -> 0 <= be_value 0 bs < 256 ^ zlength bs.
Proof.
  induction bs as [| b r IH]; intros H.
  - cbn. unfold zlength; cbn. lia.
  - inversion H as [| ? ? Hb Hr]; subst. specialize (IH Hr). cbn [be_value].
    rewrite be_value_acc, zlength_cons. rewrite Z.pow_add_r by (pose proof (zlength_nonneg r); lia).
    assert (0 < 256 ^ zlength r) by (apply Z.pow_pos_nonneg; [lia | apply zlength_nonneg]). nia.
Qed.

(* an index element that is present never decodes to "no index": it is Some i, 0 <= i < 256^(number of octets) *)
Lemma wire_index_present : forall bs, bs <> [] -> octets bs ->
  exists i, wire_index (Some bs) = Ok (Some i) /\ i = be_value 0 bs /\ 0 <= i < 256 ^ zlength bs.
Proof.
  intros bs Hne Ho. exists (be_value 0 bs). split; [| split; [reflexivity | apply be_value_range; exact Ho]].
  destruct bs; [congruence | reflexivity].
Qed.
Lemma wire_index_none_only_absent : forall w, wire_index w = Ok None -> w = None.
Proof. intros [[| b r] |] H; cbn in H; congruence. Qed.

(* the all-ones octet strings (the "all elements" markers of other stacks) are the largest indexes of their size *)
Lemma be_value_all_ones : forall k, be_value 0 (repeat 255 k) = 256 ^ Z.of_nat k - 1.
Proof.
  induction k as [| k IH].
  - reflexivity.
  - cbn [repeat be_value]. rewrite be_value_acc, IH.
    assert (zlength (repeat 255 k) = Z.of_nat k) by (unfold zlength; rewrite repeat_length; reflexivity).
    rewrite H. rewrite Nat2Z.inj_succ, Z.pow_succ_r by lia. lia.
Qed.

(* Unsigned.encode then Unsigned.decode *)
Lemma strip_zeros_cons2 : forall b c r,
  strip_zeros (b :: c :: r) = if b =? 0 then strip_zeros (c :: r) else b :: c :: r.
Proof. reflexivity. Qed.
Lemma be_strip : forall bs, be_value 0 (strip_zeros bs) = be_value 0 bs.
Proof.
  induction bs as [| b r IH]; [reflexivity |]. destruct r as [| c r']; [reflexivity |].
  rewrite strip_zeros_cons2. destruct (b =? 0) eqn:E; [| reflexivity].
  rewrite IH. assert (b = 0) by lia. subst b. reflexivity.
Qed.
Lemma strip_nonempty : forall bs, bs <> [] -> strip_zeros bs <> [].
Proof.
  induction bs as [| b r IH]; intros H; [congruence |]. destruct r as [| c r']; [cbn; congruence |].
  rewrite strip_zeros_cons2. destruct (b =? 0); [apply IH; congruence | congruence].
Qed.
Lemma strip_octets : forall bs, octets bs -> octets (strip_zeros bs).
Proof.
  induction bs as [| b r IH]; intros H; [exact H |]. destruct r as [| c r']; [exact H |].
  rewrite strip_zeros_cons2. destruct (b =? 0); [apply IH; inversion H; assumption | exact H].
Qed.

Lemma index_roundtrip : forall i, 0 <= i <= 4294967295 ->
  exists bs, enc_index i = Ok bs /\ bs <> [] /\ octets bs /\ wire_index (Some bs) = Ok (Some i).
Proof.
  intros i Hi. unfold enc_index.
  destruct ((i <? 0) || (4294967295 <? i)) eqn:E; [lia |].
  set (l := [(i / 16777216) mod 256; (i / 65536) mod 256; (i / 256) mod 256; i mod 256]).
  exists (strip_zeros l). split; [reflexivity |].
  assert (Hne : strip_zeros l <> []) by (apply strip_nonempty; unfold l; congruence).
  assert (Hoc : octets l) by (unfold l, octets; repeat constructor; lia).
  split; [exact Hne |]. split; [apply strip_octets; exact Hoc |].
  destruct (strip_zeros l) as [| b r] eqn:Es; [congruence |].
  cbn [wire_index]. rewrite <- Es, be_strip. unfold l. cbn [be_value]. do 2 f_equal. lia.
Qed.
Lemma enc_index_out_of_range : forall i, i < 0 \/ 4294967295 < i -> enc_index i = Err StructErr.
Proof. intros i H. unfold enc_index. destruct ((i <? 0) || (4294967295 <? i)) eqn:E; [reflexivity | lia]. Qed.

(* ------------------------------------------------------------ requests with the index as octets *)
Lemma step_wire_read : forall d oid pid bs, bs <> [] ->
  step_wire d (WRead oid pid (Some bs)) = step d (ORead oid pid (Some (be_value 0 bs))).
Proof. intros d oid pid bs H. destruct bs; [congruence | reflexivity]. Qed.
Lemma step_wire_write : forall d oid pid bs prio w, bs <> [] ->
  step_wire d (WWrite oid pid (Some bs) prio w) = step d (OWrite oid pid (Some (be_value 0 bs)) prio w).
Proof. intros d oid pid bs prio w H. destruct bs; [congruence | reflexivity]. Qed.
Lemma step_wire_absent : forall d oid pid prio w,
  step_wire d (WRead oid pid None) = step d (ORead oid pid None) /\
  step_wire d (WWrite oid pid None prio w) = step d (OWrite oid pid None prio w).
Proof. intros. split; reflexivity. Qed.
Lemma step_wire_empty : forall d oid pid prio w,
  step_wire d (WRead oid pid (Some [])) = (RReject 4, d) /\
  step_wire d (WWrite oid pid (Some []) prio w) = (RReject 4, d).
Proof. intros. split; reflexivity. Qed.

Lemma write_not_an_array : forall d oid pid i prio w o p v, find_obj (d_objs d) oid = Some o ->
  find_prop o pid = Some (p, v) -> is_array (p_dt p) = false ->
  step d (OWrite oid pid (Some i) prio w) = (RError EC_PROPERTY E_NOT_AN_ARRAY, d).
Proof.
  intros d oid pid i prio w o p v Ho Hp Ha. cbn [step]. unfold do_write. rewrite Ho. unfold write_obj, obj_read. rewrite Hp.
  unfold prop_read. rewrite Ha. reflexivity.
Qed.

(* the error an index that does not designate the length or an element is refused with *)
Definition bad_index_code (p : pdesc) : Z := if is_array (p_dt p) then E_INVALID_ARRAY_INDEX else E_NOT_AN_ARRAY.
(* ... and when: any index on a property that is not an array; beyond the length slot on an ArrayOf instance *)
Definition index_is_bad (p : pdesc) (cur : val) (i : Z) : Prop :=
  is_array (p_dt p) = false \/ (exists n l, cur = VArr n l /\ (i < 0 \/ n < i)).

Lemma rp_element_bad_index : forall o pid i p cur, find_prop o pid = Some (p, cur) -> index_is_bad p cur i ->
  rp_element (Some o) pid (Some i) = XOk (pid, Some i, RErr EC_PROPERTY (bad_index_code p)).
Proof.
  intros o pid i p cur Hp Hb. unfold rp_element, read_any, obj_read, bad_index_code. rewrite Hp. unfold prop_read.
  destruct (is_array (p_dt p)) eqn:Ha; cbn [negb].
  - destruct Hb as [Hb | [n [l [-> Hi]]]]; [congruence |].
    rewrite index_out_of_range by exact Hi. reflexivity.
  - reflexivity.
Qed.

Theorem wire_index_refused : forall d oid pid bs prio w o p cur,
  bs <> [] -> find_prop o pid = Some (p, cur) -> index_is_bad p cur (be_value 0 bs) ->
  (find_obj (d_objs d) (map_oid d oid) = Some o ->
     step_wire d (WRead oid pid (Some bs)) = (RError EC_PROPERTY (bad_index_code p), d)) /\
  (find_obj (d_objs d) oid = Some o ->
     step_wire d (WWrite oid pid (Some bs) prio w) = (RError EC_PROPERTY (bad_index_code p), d)) /\
  rp_element (Some o) pid (Some (be_value 0 bs)) = XOk (pid, Some (be_value 0 bs), RErr EC_PROPERTY (bad_index_code p)).
Proof.
  intros d oid pid bs prio w o p cur Hne Hp Hb. repeat split.
  - intros Ho. rewrite step_wire_read by exact Hne. unfold bad_index_code.
    destruct (is_array (p_dt p)) eqn:Ha.
    + destruct Hb as [Hb | [n [l [-> Hi]]]]; [congruence |]. eapply read_bad_index; eassumption.
    + eapply not_an_array; eassumption.
  - intros Ho. rewrite step_wire_write by exact Hne. unfold bad_index_code.
    destruct (is_array (p_dt p)) eqn:Ha.
    + destruct Hb as [Hb | [n [l [-> Hi]]]]; [congruence |]. eapply write_bad_index; eassumption.
    + eapply write_not_an_array; eassumption.
  - eapply rp_element_bad_index; eassumption.
Qed.

(* the index the client's encoder sends: every i of 0..2^32-1 (all that struct.pack('>L') takes) arrives as i *)
Theorem wire_index_sent : forall d oid pid i prio w, 0 <= i <= 4294967295 ->
  exists bs, enc_index i = Ok bs /\
    step_wire d (WRead oid pid (Some bs)) = step d (ORead oid pid (Some i)) /\
    step_wire d (WWrite oid pid (Some bs) prio w) = step d (OWrite oid pid (Some i) prio w).
Proof.
  intros d oid pid i prio w Hi. destruct (index_roundtrip i Hi) as [bs [He [Hne [_ Hw]]]].
  exists bs. split; [exact He |]. unfold step_wire, op_of_wire. rewrite Hw. split; reflexivity.
Qed.

Theorem wire_index_total : forall bs, bs <> [] -> octets bs ->
  exists i, wire_index (Some bs) = Ok (Some i) /\ i = be_value 0 bs /\ 0 <= i < 256 ^ zlength bs.
Proof. exact wire_index_present. Qed.

Theorem wire_index_all_ones : forall k,
  wire_index (Some (repeat 255 (S k))) = Ok (Some (256 ^ Z.of_nat (S k) - 1)).
Proof. intros k. rewrite <- be_value_all_ones. reflexivity. Qed.
