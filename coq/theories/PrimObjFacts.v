(* PrimObjFacts.v — object life cycles (PrimObj.v): encode observes the value only and leaves it alone,
   decode-into does not depend on what the object held before, and after set_long(w) the encoder
   emits exactly the word w. *)
From Bac Require Import Base BytesFacts Tag Prim PrimTables PrimInt PrimFacts PrimObj.
From Coq Require Import ZifyBool ZifyN ZifyNat.
Ltac Zify.zify_post_hook ::= Z.to_euclidean_division_equations.
Open Scope N_scope.

Definition is_encode (o : op) : Prop := o = OEncApp \/ exists c, o = OEncCtx c.

(* encode() (and get_long) never change the object *)
Lemma encode_keeps_state tb otb maxi k s o :
  is_encode o \/ o = OGetLong -> snd (step tb otb maxi k s o) = s.
Proof.
  intros [[->|[c ->]]| ->]; cbn [step snd]; try reflexivity.
  destruct s; reflexivity.
Qed.

(* what an encode call shows is a function of the current value — not of the history that led to it *)
Lemma encode_obs_app tb otb maxi k s : fst (step tb otb maxi k s OEncApp) = ores zs (enc_octets_app tb s).
Proof. reflexivity. Qed.
Lemma encode_obs_ctx tb otb maxi k s c : fst (step tb otb maxi k s (OEncCtx c)) = ores zs (enc_octets_ctx tb c s).
Proof. reflexivity. Qed.

Theorem encode_depends_on_value_only tb otb maxi k s1 s2 h1 h2 o :
  is_encode o ->
  final tb otb maxi k s1 h1 = final tb otb maxi k s2 h2 ->
  fst (step tb otb maxi k (final tb otb maxi k s1 h1) o) = fst (step tb otb maxi k (final tb otb maxi k s2 h2) o) /\
  snd (step tb otb maxi k (final tb otb maxi k s1 h1) o) = final tb otb maxi k s1 h1.
Proof.
  intros E H. split.
  - rewrite H. reflexivity.
  - apply encode_keeps_state. left. exact E.
Qed.

(* a history may end anywhere: the state after h ++ [o] is the step from the state after h *)
Lemma final_app tb otb maxi k s h1 h2 :
  final tb otb maxi k s (h1 ++ h2) = final tb otb maxi k (final tb otb maxi k s h1) h2.
Proof. revert s. induction h1 as [|o r IH]; intros s; cbn [final app]; [reflexivity|apply IH]. Qed.

(* a successful decode(tag) into a live object gives what a fresh object would hold *)
Lemma dec_into_fresh tb k t v : dec_app tb k t = Ok v -> forall s, dec_into tb k s t = (None, v).
Proof. intros H s. unfold dec_into. rewrite H. reflexivity. Qed.

(* after ANY history: if the value the object now holds is in the round-trip domain, what it emits
   decodes — into any object, whatever that one held — to exactly that value *)
Theorem history_roundtrip tb otb maxi k s0 h v t s' :
  final tb otb maxi k s0 h = v ->
  enum_bijective tb = true -> prim_ok tb v -> enc_app tb v = Ok t ->
  fst (step tb otb maxi k v OEncApp) = ores zs (enc_octets_app tb v) /\
  step tb otb maxi (kind v) s' (ODecode t) = ([0%Z], v).
Proof.
  intros _ B V E. split; [reflexivity|].
  cbn [step]. rewrite (dec_into_fresh tb (kind v) t v (roundtrip_app tb v t B V E)). reflexivity.
Qed.

(* set_long(w) on any object identifier: the encoder then emits the four octets of w, get_long gives w *)
Lemma objid_set_long_word otb w : enum_bijective otb = true -> (0 <= w < 4294967296)%Z ->
  match objid_set_long otb w with
  | PObjId t i => objid_word otb t i = Ok w
  | _ => False
  end.
Proof.
  intros B W. unfold objid_set_long, objid_word, eval_of_num.
  set (n := Z.to_N ((w / 4194304) mod 1024)).
  assert (Hn : Z.of_N n = ((w / 4194304) mod 1024)%Z) by (subst n; lia).
  destruct (tbl_name otb n) as [s|] eqn:E.
  - rewrite (tbl_num_name otb s n B E). cbn [bind]. f_equal. lia.
  - cbn [bind]. f_equal. lia.
Qed.

Theorem objid_set_long_encode tb otb maxi t0 i0 w : enum_bijective otb = true -> (0 <= w < 4294967296)%Z ->
  let s := snd (step tb otb maxi 12 (PObjId t0 i0) (OSetLong w)) in
  enc_app otb s = Ok (app_tag 12 (be4 (Z.to_N w))) /\
  fst (step tb otb maxi 12 s OGetLong) = [0%Z; w].
Proof.
  intros B W. cbn [step snd]. pose proof (objid_set_long_word otb w B W) as H.
  destruct (objid_set_long otb w) as [| | | | | | | | | | | |t i] eqn:E; try contradiction.
  cbn [enc_app step fst]. unfold enc_objid. rewrite H. cbn [bind ores]. unfold pack_L.
  destruct ((0 <=? w)%Z && (w <? 4294967296)%Z) eqn:R; [|lia]. cbn [bind]. split; reflexivity.
Qed.
