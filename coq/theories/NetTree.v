(* NetTree.v — loop-free internetworks with warm caches, and why a unicast / remote broadcast follows a consistent
   route there (the link between "tree with correct routing tables" and NetArrive.arrives / NetBcast.bcast_arrives).
   Lemmas about Net.v (property C06). *)
From Coq Require Import ZifyBool ZifyN ZifyNat.
From Bac Require Import Base Net NetFacts NetTerm NetTerm2 NetReply NetOnce NetRoute NetArrive NetLocal NetBcast.
Ltac Zify.zify_post_hook ::= Z.to_euclidean_division_equations.
Open Scope N_scope.

(* ---- shape of the nodes *)
Definition ad_of (pm : N * mac) : adapter := mkAd (Some (fst pm)) (Some (snd pm)).

(* a router: at least two ports on pairwise different LANs, every port bound with its network number and address,
   no application *)
Definition router_shape (w : wnode) : Prop :=
  (2 <= length (w_ports w))%nat /\ NoDup (map fst (w_ports w)) /\
  adapters (w_node w) = map ad_of (w_ports w) /\ has_app (w_node w) = false.

(* a station: one port; it was told nothing, its address, or network and address; it carries an application *)
Definition station_shape (w : wnode) : Prop :=
  exists lan m a, w_ports w = [(lan, m)] /\ adapters (w_node w) = [a] /\
                  (a_net a = None \/ a_net a = Some lan) /\ has_app (w_node w) = true.

Lemma router_nth_adapter : forall w p lan m, router_shape w -> nth_error (w_ports w) p = Some (lan, m) ->
  nth_adapter (w_node w) p = Some (mkAd (Some lan) (Some m)).
Proof.
  intros w p lan m (_ & _ & Ha & _) Hp. unfold nth_adapter. rewrite Ha, nth_error_map, Hp. reflexivity.
Qed.

Lemma router_is_router : forall w, router_shape w -> is_router (w_node w) = true.
Proof.
  intros w (Hl & _ & Ha & _). unfold is_router. rewrite Ha, map_length.
  destruct (length (w_ports w)) as [|[|k]]; try lia; try reflexivity.
Qed.

Lemma router_modelled : forall w, router_shape w -> modelled_config (w_node w) = true.
Proof.
  intros w (Hl & _ & Ha & _). unfold modelled_config. rewrite Ha.
  destruct (w_ports w) as [|a [|b l]]; cbn [length] in Hl; try lia. cbn [map].
  change (forallb (fun a0 => match a_net a0 with Some _ => true | None => false end) (map ad_of (a :: b :: l)) = true).
  apply forallb_forall. intros x Hx. apply in_map_iff in Hx. destruct Hx as [pm [E _]]. subst x. reflexivity.
Qed.

Lemma find_net_from_map_none : forall ports k L, ~ In L (map fst ports) ->
  find_net_from (map ad_of ports) k (Some L) = None.
Proof.
  induction ports as [|[l m] r IH]; intros k L H; cbn; [reflexivity|].
  destruct (N.eqb_spec l L); [exfalso; apply H; left; assumption|]. apply IH. intro Hin. apply H. right. assumption.
Qed.

Lemma find_net_from_map_some : forall ports k L j m, NoDup (map fst ports) -> nth_error ports j = Some (L, m) ->
  find_net_from (map ad_of ports) k (Some L) = Some (k + j)%nat.
Proof.
  induction ports as [|[l m0] r IH]; intros k L j m Hnd Hj; [destruct j; discriminate|].
  cbn [map fst] in Hnd. inversion Hnd; subst. cbn [map find_net_from ad_of fst snd a_net optN_eqb].
  destruct j as [|j]; cbn in Hj.
  - inversion Hj; subst. rewrite N.eqb_refl. f_equal. lia.
  - destruct (N.eqb_spec l L).
    + exfalso. subst l. apply H1. apply nth_error_In in Hj. apply (in_map fst) in Hj. exact Hj.
    + rewrite (IH (S k) L j m H2 Hj). f_equal. lia.
Qed.

Lemma router_find_net_some : forall w j L m, router_shape w -> nth_error (w_ports w) j = Some (L, m) ->
  find_net (w_node w) (Some L) = Some j.
Proof.
  intros w j L m (_ & Hnd & Ha & _) Hj. unfold find_net. rewrite Ha.
  rewrite (find_net_from_map_some _ 0 L j m Hnd Hj). reflexivity.
Qed.

Lemma router_find_net_none : forall w L, router_shape w -> ~ In L (map fst (w_ports w)) ->
  find_net (w_node w) (Some L) = None.
Proof. intros w L (_ & _ & Ha & _) H. unfold find_net. rewrite Ha. apply find_net_from_map_none. assumption. Qed.

(* the local adapter of a router is one of its ports *)
Lemma router_local_adapter : forall w, router_shape w ->
  exists x lan m, nth_error (w_ports w) x = Some (lan, m) /\
                  nth_adapter (w_node w) (local_idx (w_node w)) = Some (mkAd (Some lan) (Some m)).
Proof.
  intros w Hr. pose proof Hr as (Hl & _ & Ha & _).
  assert (Hne : adapters (w_node w) <> []).
  { rewrite Ha. destruct (w_ports w); cbn in *; [lia|discriminate]. }
  pose proof (local_idx_lt (w_node w) Hne) as Hlt. rewrite Ha, map_length in Hlt.
  destruct (nth_error (w_ports w) (local_idx (w_node w))) as [[lan m]|] eqn:E.
  - exists (local_idx (w_node w)), lan, m. split; [assumption|]. apply router_nth_adapter; assumption.
  - apply nth_error_None in E. lia.
Qed.

(* ---- the internetwork *)
Definition port_of (ns : list wnode) (x : nat * nat) : option (N * mac) :=
  match nth_error ns (fst x) with Some w => nth_error (w_ports w) (snd x) | None => None end.

Lemma port_of_mac : forall ns x lan m, port_of ns x = Some (lan, m) -> port_mac ns x = Some m.
Proof.
  intros ns x lan m H. unfold port_of in H. unfold port_mac.
  destruct (nth_error ns (fst x)); [|discriminate]. rewrite H. reflexivity.
Qed.

Record internet_ok (lns : list (N * list (nat * nat))) (ns : list wnode) : Prop := {
  io_members : forall lan x, In x (lan_members lns lan) -> exists m, port_of ns x = Some (lan, m);
  io_listed : forall x lan m, port_of ns x = Some (lan, m) -> In x (lan_members lns lan);
  io_macs : forall lan, NoDup (map (port_mac ns) (lan_members lns lan));
  io_once : forall lan, NoDup (map fst (lan_members lns lan));
  io_shape : forall who w, nth_error ns who = Some w -> router_shape w \/ station_shape w
}.

(* loop-free, seen from network d: every LAN has a level (router hops to d), every router has exactly one port
   towards d (`up`), its other ports lead one level away from d, and every LAN other than d has a router port
   (`par`) leading towards d.  warm towards d: every router not attached to d has, as its path to d, the `par`
   port of its up-network. *)
Record tree_to (lns : list (N * list (nat * nat))) (ns : list wnode) (d : N)
               (lv : N -> nat) (up : nat -> nat) (par : N -> nat * nat) : Prop := {
  tt_root : lv d = 0%nat;
  tt_router : forall who w, nth_error ns who = Some w -> router_shape w ->
      exists lu mu, nth_error (w_ports w) (up who) = Some (lu, mu) /\
        (lv lu = 0%nat -> lu = d) /\
        (forall p lp mp, nth_error (w_ports w) p = Some (lp, mp) -> p <> up who -> lv lp = S (lv lu)) /\
        (lv lu <> 0%nat -> exists pm, port_mac ns (par lu) = Some pm /\ find_path (w_node w) d = Some (up who, pm));
  tt_parent : forall L, (exists x m, port_of ns x = Some (L, m)) -> lv L <> 0%nat ->
      In (par L) (lan_members lns L) /\
      exists w, nth_error ns (fst (par L)) = Some w /\ router_shape w /\ snd (par L) <> up (fst (par L))
}.

(* ---- node states that differ only in what was learned about networks other than d *)
Definition node_sim (d : N) (w w' : wnode) : Prop :=
  w_ports w' = w_ports w /\ adapters (w_node w') = adapters (w_node w) /\
  has_app (w_node w') = has_app (w_node w) /\ find_path (w_node w') d = find_path (w_node w) d.

Definition sim (d : N) (ns ns' : list wnode) : Prop :=
  forall who, match nth_error ns who, nth_error ns' who with
              | Some w, Some w' => node_sim d w w'
              | None, None => True
              | _, _ => False
              end.

Lemma sim_refl : forall d ns, sim d ns ns.
Proof. intros d ns who. destruct (nth_error ns who); [repeat split|exact I]. Qed.

Lemma sim_nth : forall d ns ns' who w, sim d ns ns' -> nth_error ns who = Some w ->
  exists w', nth_error ns' who = Some w' /\ node_sim d w w'.
Proof.
  intros d ns ns' who w H Hw. specialize (H who). rewrite Hw in H.
  destruct (nth_error ns' who) as [w'|]; [eauto|contradiction].
Qed.

Lemma sim_port_of : forall d ns ns' x, sim d ns ns' -> port_of ns' x = port_of ns x.
Proof.
  intros d ns ns' x H. unfold port_of. specialize (H (fst x)).
  destruct (nth_error ns (fst x)) as [w|], (nth_error ns' (fst x)) as [w'|]; try contradiction; [|reflexivity].
  destruct H as [Hp _]. rewrite Hp. reflexivity.
Qed.

Lemma sim_port_mac : forall d ns ns' x, sim d ns ns' -> port_mac ns' x = port_mac ns x.
Proof.
  intros d ns ns' x H. unfold port_mac. specialize (H (fst x)).
  destruct (nth_error ns (fst x)) as [w|], (nth_error ns' (fst x)) as [w'|]; try contradiction; [|reflexivity].
  destruct H as [Hp _]. rewrite Hp. reflexivity.
Qed.

Lemma router_shape_sim : forall d w w', node_sim d w w' -> router_shape w -> router_shape w'.
Proof.
  intros d w w' (Hp & Ha & Hh & _) (H1 & H2 & H3 & H4). unfold router_shape. rewrite Hp, Ha, Hh. auto.
Qed.

Lemma station_shape_sim : forall d w w', node_sim d w w' -> station_shape w -> station_shape w'.
Proof.
  intros d w w' (Hp & Ha & Hh & _) (lan & m & a & H1 & H2 & H3 & H4).
  exists lan, m, a. rewrite Hp, Ha, Hh. auto.
Qed.

Lemma sim_step : forall d ns0 ns who w ai src p,
  sim d ns0 ns -> nth_error ns who = Some w ->
  (forall snet sm, n_sadr p = Some (snet, sm) -> snet <> d) ->
  sim d ns0 (set_nth ns who (mkW (learned (w_node w) ai src p) (w_ports w))).
Proof.
  intros d ns0 ns who w ai src p H Hw Hs x. specialize (H x).
  destruct (Nat.eq_dec who x) as [E|E].
  - subst x. rewrite (set_nth_nth_same _ _ _ _ Hw). rewrite Hw in H.
    destruct (nth_error ns0 who) as [w0|]; [|contradiction].
    destruct H as (Hp & Ha & Hh & Hf). unfold node_sim. cbn [w_ports w_node].
    rewrite learned_adapters, (learned_find_path _ _ _ _ _ Hs). repeat split; auto.
    unfold learned. destruct (n_sadr p) as [[? ?]|]; exact Hh.
  - rewrite set_nth_nth_other by assumption. exact H.
Qed.

Lemma nodup_map_inj : forall {A B} (f : A -> B) l x y,
  NoDup (map f l) -> In x l -> In y l -> f x = f y -> x = y.
Proof.
  intros A B f. induction l as [|a l IH]; intros x y Hnd Hx Hy E; [contradiction|].
  cbn [map] in Hnd. inversion Hnd; subst.
  destruct Hx as [Hx|Hx], Hy as [Hy|Hy]; subst; auto.
  - exfalso. apply H1. rewrite E. apply in_map. assumption.
  - exfalso. apply H1. rewrite <- E. apply in_map. assumption.
Qed.

Lemma router_not_station : forall w, router_shape w -> station_shape w -> False.
Proof. intros w (Hl & _) (lan & m & a & Hp & _). rewrite Hp in Hl. cbn in Hl. lia. Qed.

Lemma in_map_fst_nth : forall (ports : list (N * mac)) L, In L (map fst ports) ->
  exists p m, nth_error ports p = Some (L, m).
Proof.
  intros ports L H. apply in_map_iff in H. destruct H as [[l m] [E Hin]]. cbn in E. subst l.
  apply In_nth_error in Hin. destruct Hin as [p Hp]. eauto.
Qed.

(* the source network recorded by the first router on the way *)
Lemma fwd_sadr_level : forall (lv : N -> nat) L src p k,
  lv L = S k -> (forall sn sm, n_sadr p = Some (sn, sm) -> (S k < lv sn)%nat) ->
  (S k <= lv (fst (fwd_sadr L src p)))%nat.
Proof.
  intros lv L src p k HL Hs. unfold fwd_sadr. destruct (n_sadr p) as [[sn sm]|] eqn:E; cbn [fst].
  - specialize (Hs sn sm eq_refl). lia.
  - lia.
Qed.

Section ClimbProof.
(* (no section variables: plain lemma below) *)
End ClimbProof.

Lemma climb : forall lns ns0 d lv up par tgt wt dm a_t,
  internet_ok lns ns0 -> tree_to lns ns0 d lv up par ->
  In (tgt, 0%nat) (lan_members lns d) -> nth_error ns0 tgt = Some wt ->
  w_ports wt = [(d, dm)] -> adapters (w_node wt) = [a_t] -> (a_net a_t = None \/ a_net a_t = Some d) ->
  has_app (w_node wt) = true ->
  forall k ns f mL,
    sim d ns0 ns ->
    lv (f_lan f) = S k ->
    (exists x m, port_of ns0 x = Some (f_lan f, m)) ->
    port_mac ns0 (par (f_lan f)) = Some mL -> f_dst f = LStation mL ->
    n_msg (f_npdu f) = None -> n_dadr (f_npdu f) = Some (DStation d dm) ->
    apdu_ok (n_data (f_npdu f)) = true ->
    (S k <= N.to_nat (n_hop (f_npdu f)))%nat ->
    (forall sn sm, n_sadr (f_npdu f) = Some (sn, sm) -> (S k < lv sn)%nat) ->
    arrives lns ns f tgt
            (ARS (fst (fwd_sadr (f_lan f) (f_src f) (f_npdu f))) (snd (fwd_sadr (f_lan f) (f_src f) (f_npdu f))))
            (ALS dm) (n_data (f_npdu f)).
Proof.
  intros lns ns0 d lv up par tgt wt dm a_t Hio Htt Htgt Hwt Hwtp Hwta Hwtn Hwth.
  induction k as [|k IH]; intros ns f mL Hsim HlvL Hinh HparM Hdst Hmsg Hdadr Hok Hhop Hsadr.
  all: destruct (tt_parent _ _ _ _ _ _ Htt (f_lan f) Hinh ltac:(lia)) as (Hpin & w0 & Hw0 & Hsh0 & Hnotup).
  all: destruct (par (f_lan f)) as [pw pp] eqn:Epar; cbn [fst snd] in *.
  all: destruct (io_members _ _ Hio _ _ Hpin) as [m0 Hport0].
  all: assert (m0 = mL) by (apply port_of_mac in Hport0; congruence); subst m0.
  all: destruct (sim_nth _ _ _ _ _ Hsim Hw0) as (w' & Hw' & Hns).
  all: pose proof (router_shape_sim _ _ _ Hns Hsh0) as Hsh'.
  all: assert (Hports : w_ports w' = w_ports w0) by (destruct Hns; assumption).
  all: assert (Hpp : nth_error (w_ports w') pp = Some (f_lan f, mL))
         by (rewrite Hports; unfold port_of in Hport0; cbn [fst snd] in Hport0; rewrite Hw0 in Hport0; exact Hport0).
  all: assert (Hacc : acceptor lns ns f pw pp w' mL).
  1,3: (unfold acceptor; split; [assumption|]; split;
        [rewrite (map_ext _ _ (fun x => sim_port_mac d ns0 ns x Hsim)); apply (io_macs _ _ Hio)|];
        split; [assumption|]; split; [assumption|eexists; exact Hpp]).
  all: destruct (tt_router _ _ _ _ _ _ Htt pw w0 Hw0 Hsh0) as (lu & mu & Hup & Hroot & Hchild & Hwarm).
  all: assert (Hlvlu : lv (f_lan f) = S (lv lu))
         by (apply (Hchild pp (f_lan f) mL); [rewrite <- Hports; exact Hpp|assumption]).
  all: assert (Hup' : nth_error (w_ports w') (up pw) = Some (lu, mu)) by (rewrite Hports; exact Hup).
  all: pose proof (router_nth_adapter _ _ _ _ Hsh' Hpp) as Hai.
  all: assert (Hlevels : forall Lx, In Lx (map fst (w_ports w')) -> lv Lx = lv lu \/ lv Lx = S (lv lu)).
  1,3: (intros Lx HLx; apply in_map_fst_nth in HLx; destruct HLx as (p & mp & Hp);
        destruct (Nat.eq_dec p (up pw)) as [E|E];
        [subst p; rewrite Hup' in Hp; inversion Hp; subst; left; reflexivity
        |right; apply (Hchild p Lx mp); [rewrite <- Hports; exact Hp|exact E]]).
  all: assert (Hsrc : forall snet sm, n_sadr (f_npdu f) = Some (snet, sm) ->
                        find_net (w_node w') (Some snet) = None /\ snet <> d).
  1,3: (intros snet sm Es; specialize (Hsadr snet sm Es); split;
        [apply router_find_net_none; [assumption|]; intro Hin; destruct (Hlevels _ Hin); lia
        |intro E; subst snet; rewrite (tt_root _ _ _ _ _ _ Htt) in Hsadr; lia]).
  all: assert (Hhop0 : n_hop (f_npdu f) <> 0) by lia.
  all: pose proof (fwd_sadr_level lv (f_lan f) (f_src f) (f_npdu f) _ HlvL Hsadr) as Hsl.
  all: assert (Hsim' : sim d ns0 (set_nth ns pw (mkW (learned (w_node w') (mkAd (Some (f_lan f)) (Some mL)) (f_src f) (f_npdu f)) (w_ports w'))))
         by (apply sim_step; [assumption|assumption|intros snet sm Es; apply (Hsrc snet sm Es)]).
  - (* the router attached to d *)
    assert (lu = d) by (apply Hroot; lia). subst lu.
    destruct (router_local_adapter _ Hsh') as (x & lanx & mx & Hx & Hla).
    eapply arr_last_router with (who := pw) (i := pp) (w := w') (m := mL) (inet := f_lan f) (d := d) (dm := dm)
                                (j := up pw) (lan' := d) (mj := mu); try eassumption; try reflexivity.
    + apply router_modelled; assumption.
    + apply router_is_router; assumption.
    + intros snet sm Es. apply (Hsrc snet sm Es).
    + eapply router_find_net_some; eauto.
    + auto.
    + cbn. destruct (N.eqb_spec d (f_lan f)) as [E|E]; [|reflexivity].
      rewrite <- E, (tt_root _ _ _ _ _ _ Htt) in HlvL. discriminate.
    + unfold not_for_me. cbn [a_net a_mac optN_eqb].
      destruct (N.eqb_spec d lanx) as [E|E]; [|reflexivity]. subst lanx.
      destruct (mac_eqb dm mx) eqn:Em; [|reflexivity]. exfalso. apply mac_eqb_eq in Em. subst mx.
      assert (Hx0 : port_of ns0 (pw, x) = Some (d, dm)).
      { unfold port_of. cbn [fst snd]. rewrite Hw0, <- Hports. exact Hx. }
      assert (Ht0 : port_of ns0 (tgt, 0%nat) = Some (d, dm)).
      { unfold port_of. cbn [fst snd]. rewrite Hwt, Hwtp. reflexivity. }
      pose proof (io_listed _ _ Hio _ _ _ Hx0) as Hin1.
      assert (E : (pw, x) = (tgt, 0%nat)).
      { apply (nodup_map_inj (port_mac ns0) (lan_members lns d)); [apply (io_macs _ _ Hio)|assumption|assumption|].
        rewrite (port_of_mac _ _ _ _ Hx0), (port_of_mac _ _ _ _ Ht0). reflexivity. }
      inversion E; subst. rewrite Hwt in Hw0. inversion Hw0; subst.
      apply (router_not_station w0 Hsh0). exists d, dm, a_t. auto.
    + (* the station *)
      destruct (sim_nth _ _ _ _ _ Hsim' Hwt) as (wt' & Hwt' & (Hp1 & Hp2 & Hp3 & _)).
      remember (fwd_sadr (f_lan f) (f_src f) (f_npdu f)) as X. destruct X as [sn sm]. cbn [fst snd] in *.
      match goal with |- arrives _ ?NS ?G _ _ _ _ => eapply (arr_station lns NS G tgt wt' dm a_t sn sm) end; try reflexivity.
      * unfold acceptor. cbn [f_dst f_lan]. split; [reflexivity|]. split.
        { rewrite (map_ext _ _ (fun x => sim_port_mac d ns0 _ x Hsim')). apply (io_macs _ _ Hio). }
        split; [assumption|]. split; [assumption|]. exists d. rewrite Hp1, Hwtp. reflexivity.
      * rewrite Hp2. assumption.
      * rewrite Hp3. assumption.
      * assumption.
      * destruct Hwtn as [E|E]; rewrite E; cbn; [reflexivity|].
        destruct (N.eqb_spec d sn) as [E2|E2]; [|reflexivity]. subst sn.
        rewrite (tt_root _ _ _ _ _ _ Htt) in Hsl. lia.
  - (* a router further away: forwards to the parent port of its up-network *)
    assert (Hlu : lv lu = S k) by lia.
    destruct (Hwarm ltac:(lia)) as (pm & Hpm & Hfp).
    assert (Hfp' : find_path (w_node w') d = Some (up pw, pm)) by (destruct Hns as (_ & _ & _ & E); rewrite E; exact Hfp).
    remember (fwd_sadr (f_lan f) (f_src f) (f_npdu f)) as X.
    eapply arr_router with (who := pw) (i := pp) (w := w') (m := mL) (inet := f_lan f) (d := d) (dm := dm)
                           (j := up pw) (m' := pm) (lan' := lu) (mj := mu); try eassumption; try reflexivity.
    + apply router_modelled; assumption.
    + apply router_is_router; assumption.
    + apply router_find_net_none; [assumption|]. intro Hin. destruct (Hlevels _ Hin) as [E|E];
        rewrite (tt_root _ _ _ _ _ _ Htt) in E; lia.
    + rewrite <- HeqX.
      set (g := mkFrame lu mu (LStation pm) (mkNpdu (n_dadr (f_npdu f)) (Some X) (n_hop (f_npdu f) - 1) None (n_data (f_npdu f)))).
      assert (HX : fwd_sadr (f_lan g) (f_src g) (f_npdu g) = X) by reflexivity.
      rewrite <- HX. change (n_data (f_npdu f)) with (n_data (f_npdu g)).
      apply (IH _ g pm); try assumption; try reflexivity.
      * exists (pw, up pw), mu. unfold port_of. cbn [fst snd]. rewrite Hw0. exact Hup.
      * cbn. lia.
      * cbn [g f_npdu n_sadr]. intros sn sm E. injection E as E2. rewrite E2 in Hsl. cbn [fst] in Hsl. lia.
Qed.

(* ---- the same climb for a remote broadcast; who hears it on the target network *)
Definition appb (ns : list wnode) (x : nat * nat) : bool :=
  match nth_error ns (fst x) with Some w => has_app (w_node w) | None => false end.

Lemma mac_eqb_neq : forall a b, a <> b -> mac_eqb a b = false.
Proof. intros a b H. destruct (mac_eqb a b) eqn:E; [apply mac_eqb_eq in E; contradiction|reflexivity]. Qed.

Lemma listener_is_station : forall lns ns0 ns' d pw pu mu sn sm hop data x,
  internet_ok lns ns0 -> sim d ns0 ns' ->
  In x (lan_members lns d) -> port_of ns0 (pw, pu) = Some (d, mu) ->
  (exists wr, nth_error ns0 pw = Some wr /\ router_shape wr) -> sn <> d ->
  (forall who w, nth_error ns0 who = Some w -> station_shape w ->
     exists lan m a, w_ports w = [(lan, m)] /\ adapters (w_node w) = [a] /\ (a_net a = None \/ a_net a = Some lan)) ->
  listenerb ns' (mkFrame d mu LBcast (mkNpdu None (Some (sn, sm)) hop None data)) x = appb ns0 x.
Proof.
  intros lns ns0 ns' d pw pu mu sn sm hop data x Hio Hsim Hx Hsender (wr & Hwr & Hshr) Hsn _.
  destruct (io_members _ _ Hio _ _ Hx) as [m Hport].
  unfold port_of in Hport. destruct (nth_error ns0 (fst x)) as [w0|] eqn:Ew0; [|discriminate].
  destruct (sim_nth _ _ _ _ _ Hsim Ew0) as (w' & Hw' & (Hp1 & Hp2 & Hp3 & _)).
  unfold listenerb, appb. rewrite Hw', Ew0, Hp1, Hport, Hp2, Hp3.
  destruct (io_shape _ _ Hio _ _ Ew0) as [Hr|Hs].
  - destruct Hr as (Hl & _ & Ha & Hh). rewrite Ha, Hh.
    destruct (w_ports w0) as [|a [|b l]]; cbn [length] in Hl; try lia. reflexivity.
  - destruct Hs as (lan & m' & a & Hp & Ha & Hn & Hh). rewrite Ha, Hh. cbn [f_npdu n_sadr].
    rewrite Hp in Hport. destruct (snd x) as [|q] eqn:Eq; [|destruct q; discriminate].
    cbn in Hport. inversion Hport; subst lan m'. cbn [Nat.eqb andb].
    assert (Hacc : accepts m (mkFrame d mu LBcast (mkNpdu None (Some (sn, sm)) hop None data)) = true).
    { unfold accepts. cbn [f_dst f_src]. rewrite mac_eqb_neq; [reflexivity|]. intro E. subst m.
      assert (Hx0 : port_of ns0 x = Some (d, mu)).
      { unfold port_of. rewrite Ew0, Hp, Eq. reflexivity. }
      pose proof (io_listed _ _ Hio _ _ _ Hsender) as Hin1.
      assert (E : (pw, pu) = x).
      { apply (nodup_map_inj (port_mac ns0) (lan_members lns d)); [apply (io_macs _ _ Hio)|assumption|assumption|].
        rewrite (port_of_mac _ _ _ _ Hx0), (port_of_mac _ _ _ _ Hsender). reflexivity. }
      subst x. cbn [fst] in Ew0. rewrite Hwr in Ew0. inversion Ew0; subst.
      apply (router_not_station w0 Hshr). exists d, mu, a. auto. }
    rewrite Hacc. cbn [andb].
    destruct Hn as [E|E]; rewrite E; cbn; [reflexivity|].
    destruct (N.eqb_spec d sn); [congruence|reflexivity].
Qed.

Lemma silent_or_listener : forall ns ns' x, (forall y, appb ns y = negb (silentb ns' y)) -> forall l, l = appb ns x ->
  l = true \/ silentb ns' x = true.
Proof. intros ns ns' x H l E. subst l. rewrite H. destruct (silentb ns' x); auto. Qed.

Lemma climb_b : forall lns ns0 d lv up par,
  internet_ok lns ns0 -> tree_to lns ns0 d lv up par ->
  forall k ns f mL,
    sim d ns0 ns ->
    lv (f_lan f) = S k ->
    (exists x m, port_of ns0 x = Some (f_lan f, m)) ->
    port_mac ns0 (par (f_lan f)) = Some mL -> f_dst f = LStation mL ->
    n_msg (f_npdu f) = None -> n_dadr (f_npdu f) = Some (DBcast d) ->
    apdu_ok (n_data (f_npdu f)) = true ->
    (S k <= N.to_nat (n_hop (f_npdu f)))%nat ->
    (forall sn sm, n_sadr (f_npdu f) = Some (sn, sm) -> (S k < lv sn)%nat) ->
    bcast_arrives lns ns f (rev (map fst (filter (appb ns0) (lan_members lns d)))).
Proof.
  intros lns ns0 d lv up par Hio Htt.
  induction k as [|k IH]; intros ns f mL Hsim HlvL Hinh HparM Hdst Hmsg Hdadr Hok Hhop Hsadr.
  all: destruct (tt_parent _ _ _ _ _ _ Htt (f_lan f) Hinh ltac:(lia)) as (Hpin & w0 & Hw0 & Hsh0 & Hnotup).
  all: destruct (par (f_lan f)) as [pw pp] eqn:Epar; cbn [fst snd] in *.
  all: destruct (io_members _ _ Hio _ _ Hpin) as [m0 Hport0].
  all: assert (m0 = mL) by (apply port_of_mac in Hport0; congruence); subst m0.
  all: destruct (sim_nth _ _ _ _ _ Hsim Hw0) as (w' & Hw' & Hns).
  all: pose proof (router_shape_sim _ _ _ Hns Hsh0) as Hsh'.
  all: assert (Hports : w_ports w' = w_ports w0) by (destruct Hns; assumption).
  all: assert (Hpp : nth_error (w_ports w') pp = Some (f_lan f, mL))
         by (rewrite Hports; unfold port_of in Hport0; cbn [fst snd] in Hport0; rewrite Hw0 in Hport0; exact Hport0).
  all: assert (Hacc : acceptor lns ns f pw pp w' mL).
  1,3: (unfold acceptor; split; [assumption|]; split;
        [rewrite (map_ext _ _ (fun x => sim_port_mac d ns0 ns x Hsim)); apply (io_macs _ _ Hio)|];
        split; [assumption|]; split; [assumption|eexists; exact Hpp]).
  all: destruct (tt_router _ _ _ _ _ _ Htt pw w0 Hw0 Hsh0) as (lu & mu & Hup & Hroot & Hchild & Hwarm).
  all: assert (Hlvlu : lv (f_lan f) = S (lv lu))
         by (apply (Hchild pp (f_lan f) mL); [rewrite <- Hports; exact Hpp|assumption]).
  all: assert (Hup' : nth_error (w_ports w') (up pw) = Some (lu, mu)) by (rewrite Hports; exact Hup).
  all: pose proof (router_nth_adapter _ _ _ _ Hsh' Hpp) as Hai.
  all: assert (Hlevels : forall Lx, In Lx (map fst (w_ports w')) -> lv Lx = lv lu \/ lv Lx = S (lv lu)).
  1,3: (intros Lx HLx; apply in_map_fst_nth in HLx; destruct HLx as (p & mp & Hp);
        destruct (Nat.eq_dec p (up pw)) as [E|E];
        [subst p; rewrite Hup' in Hp; inversion Hp; subst; left; reflexivity
        |right; apply (Hchild p Lx mp); [rewrite <- Hports; exact Hp|exact E]]).
  all: assert (Hsrc : forall snet sm, n_sadr (f_npdu f) = Some (snet, sm) ->
                        find_net (w_node w') (Some snet) = None /\ snet <> d).
  1,3: (intros snet sm Es; specialize (Hsadr snet sm Es); split;
        [apply router_find_net_none; [assumption|]; intro Hin; destruct (Hlevels _ Hin); lia
        |intro E; subst snet; rewrite (tt_root _ _ _ _ _ _ Htt) in Hsadr; lia]).
  all: assert (Hhop0 : n_hop (f_npdu f) <> 0) by lia.
  all: pose proof (fwd_sadr_level lv (f_lan f) (f_src f) (f_npdu f) _ HlvL Hsadr) as Hsl.
  all: assert (Hsim' : sim d ns0 (set_nth ns pw (mkW (learned (w_node w') (mkAd (Some (f_lan f)) (Some mL)) (f_src f) (f_npdu f)) (w_ports w'))))
         by (apply sim_step; [assumption|assumption|intros snet sm Es; apply (Hsrc snet sm Es)]).
  - (* the router attached to d, then the target network *)
    assert (lu = d) by (apply Hroot; lia). subst lu.
    remember (fwd_sadr (f_lan f) (f_src f) (f_npdu f)) as X. destruct X as [sn sm]. cbn [fst] in Hsl.
    assert (Hsn : sn <> d) by (intro E; subst sn; rewrite (tt_root _ _ _ _ _ _ Htt) in Hsl; lia).
    set (ns' := set_nth ns pw (mkW (learned (w_node w') (mkAd (Some (f_lan f)) (Some mL)) (f_src f) (f_npdu f)) (w_ports w'))) in *.
    set (g := mkFrame d mu LBcast (mkNpdu None (Some (sn, sm)) (n_hop (f_npdu f) - 1) None (n_data (f_npdu f)))).
    assert (Hsender : port_of ns0 (pw, up pw) = Some (d, mu)) by (unfold port_of; cbn [fst snd]; rewrite Hw0; exact Hup).
    assert (Hclass : forall x, In x (lan_members lns d) -> listenerb ns' g x = appb ns0 x).
    { intros x Hx. unfold g. eapply (listener_is_station lns ns0 ns' d pw (up pw) mu); eauto.
      intros who w Hw Hs. destruct Hs as (lan & m & a & H1 & H2 & H3 & _). eauto 8. }
    assert (Hsil : forall x, In x (lan_members lns d) -> listenerb ns' g x = true \/ silentb ns' x = true).
    { intros x Hx. rewrite (Hclass x Hx). unfold appb, silentb.
      destruct (io_members _ _ Hio _ _ Hx) as [m Hport]. unfold port_of in Hport.
      destruct (nth_error ns0 (fst x)) as [w0x|] eqn:Ew0x; [|discriminate].
      destruct (sim_nth _ _ _ _ _ Hsim' Ew0x) as (wx' & Hwx' & (_ & _ & Hh & _)).
      fold ns' in Hwx'. rewrite Hwx', Hh. destruct (has_app (w_node w0x)); auto. }
    rewrite <- (filter_ext_in _ _ _ Hclass).
    unfold g, ns'. rewrite HeqX.
    eapply barr_last_router with (who := pw) (i := pp) (w := w') (m := mL) (inet := f_lan f) (d := d)
                                 (j := up pw) (lan' := d) (mj := mu); try eassumption; try reflexivity.
    + apply router_modelled; assumption.
    + apply router_is_router; assumption.
    + destruct Hsh' as (_ & _ & _ & Hh). exact Hh.
    + intros snet sm0 Es. apply (Hsrc snet sm0 Es).
    + eapply router_find_net_some; eauto.
    + auto.
    + cbn. destruct (N.eqb_spec d (f_lan f)) as [E|E]; [|reflexivity].
      rewrite <- E, (tt_root _ _ _ _ _ _ Htt) in HlvL. discriminate.
    + apply (io_once _ _ Hio).
    + rewrite <- HeqX. exact Hsil.
  - (* a router further away *)
    assert (Hlu : lv lu = S k) by lia.
    destruct (Hwarm ltac:(lia)) as (pm & Hpm & Hfp).
    assert (Hfp' : find_path (w_node w') d = Some (up pw, pm)) by (destruct Hns as (_ & _ & _ & E); rewrite E; exact Hfp).
    remember (fwd_sadr (f_lan f) (f_src f) (f_npdu f)) as X.
    eapply barr_router with (who := pw) (i := pp) (w := w') (m := mL) (inet := f_lan f) (d := d)
                            (j := up pw) (m' := pm) (lan' := lu) (mj := mu); try eassumption; try reflexivity.
    + apply router_modelled; assumption.
    + apply router_is_router; assumption.
    + apply router_find_net_none; [assumption|]. intro Hin. destruct (Hlevels _ Hin) as [E|E];
        rewrite (tt_root _ _ _ _ _ _ Htt) in E; lia.
    + rewrite <- HeqX.
      set (g := mkFrame lu mu (LStation pm) (mkNpdu (n_dadr (f_npdu f)) (Some X) (n_hop (f_npdu f) - 1) None (n_data (f_npdu f)))).
      apply (IH _ g pm); try assumption; try reflexivity.
      * exists (pw, up pw), mu. unfold port_of. cbn [fst snd]. rewrite Hw0. exact Hup.
      * cbn. lia.
      * cbn [g f_npdu n_sadr]. intros sn sm E. injection E as E2. rewrite E2 in Hsl. cbn [fst] in Hsl. lia.
Qed.

Lemma sim_set_same : forall d ns who w, nth_error ns who = Some w ->
  sim d ns (set_nth ns who (mkW (w_node w) (w_ports w))).
Proof.
  intros d ns who w Hw x. destruct (Nat.eq_dec who x) as [E|E].
  - subst x. rewrite Hw, (set_nth_nth_same _ _ _ _ Hw). repeat split.
  - rewrite set_nth_nth_other by assumption. destruct (nth_error ns x); [repeat split|exact I].
Qed.

(* C06_tree_unicast_once: loop-free towards d (tree_to), warm caches (in tree_to for the routers, explicit for the
   source station), any states otherwise *)
Theorem tree_unicast_once : forall w d lv up par src ws s smac a_s tgt wt dm a_t data mR,
  internet_ok (lans w) (nodes w) -> tree_to (lans w) (nodes w) d lv up par ->
  queue w = [] ->
  In (tgt, 0%nat) (lan_members (lans w) d) -> nth_error (nodes w) tgt = Some wt ->
  w_ports wt = [(d, dm)] -> adapters (w_node wt) = [a_t] -> (a_net a_t = None \/ a_net a_t = Some d) ->
  has_app (w_node wt) = true ->
  nth_error (nodes w) src = Some ws -> w_ports ws = [(s, smac)] -> adapters (w_node ws) = [a_s] ->
  (a_net a_s = None \/ a_net a_s = Some s) ->
  (0 < lv s <= 255)%nat ->
  pending_get (pending (w_node ws)) d = None ->
  port_mac (nodes w) (par s) = Some mR -> cache_get (rcache (w_node ws)) (a_net a_s) d = Some mR ->
  apdu_ok data = true ->
  let w0 := submit w src (ARS d dm) data in
  exists k osn, queue (run k w0) = [] /\ (forall k', (k <= k')%nat -> run k' w0 = run k w0) /\
                trace (run k w0) = osn ++ trace w /\ oups osn = [OUp tgt (ARS s smac) (ALS dm) data].
Proof.
  intros w d lv up par src ws s smac a_s tgt wt dm a_t data mR Hio Htt Hq Htgt Hwt Hwtp Hwta Hwtn Hwth
         Hws Hwsp Hwsa Hwsn Hlv Hpend HmR Hcache Hok w0.
  assert (Hsd : optN_eqb (Some d) (a_net a_s) = false).
  { destruct Hwsn as [E|E]; rewrite E; cbn; [reflexivity|].
    destruct (N.eqb_spec d s) as [E2|E2]; [|reflexivity]. subst s. rewrite (tt_root _ _ _ _ _ _ Htt) in Hlv. lia. }
  pose proof (station_sends_unicast (w_node ws) a_s d dm mR data Hwsa Hsd Hpend Hcache) as Hind.
  set (p0 := mkNpdu (Some (DStation d dm)) None 255 None data) in *.
  set (f0 := mkFrame s smac (LStation mR) p0).
  assert (Hw0 : w0 = mkWorld (set_nth (nodes w) src (mkW (w_node ws) (w_ports ws))) (lans w) [f0] (trace w)).
  { unfold w0, submit. rewrite Hws, Hind. cbn [emit w_ports]. rewrite Hwsp. cbn [nth_error]. rewrite Hq. reflexivity. }
  assert (Harr : arrives (lans w0) (nodes w0) f0 tgt (ARS s smac) (ALS dm) data).
  { rewrite Hw0. cbn [lans nodes].
    destruct (lv s) as [|k] eqn:Ek; [lia|].
    pose proof (climb (lans w) (nodes w) d lv up par tgt wt dm a_t Hio Htt Htgt Hwt Hwtp Hwta Hwtn Hwth
                      k (set_nth (nodes w) src (mkW (w_node ws) (w_ports ws))) f0 mR) as Hc.
    cbn [f0 f_lan f_src f_dst f_npdu p0 n_msg n_dadr n_sadr n_hop n_data fwd_sadr fst snd] in Hc.
    apply Hc; try reflexivity; try assumption.
    - apply sim_set_same. assumption.
    - exists (src, 0%nat), smac. unfold port_of. cbn [fst snd]. rewrite Hws, Hwsp. reflexivity.
    - change (N.to_nat 255) with 255%nat. lia.
    - intros sn sm E. discriminate E. }
  assert (Hq0 : queue w0 = [f0]) by (rewrite Hw0; reflexivity).
  destruct (route_arrives_exactly_once w0 f0 tgt _ _ _ Hq0 Harr) as (k & osn & A1 & A2 & A3 & A4).
  exists k, osn. repeat split; auto. rewrite A3, Hw0. reflexivity.
Qed.

Lemma station_sends_bcast : forall n a d m data,
  adapters n = [a] -> optN_eqb (Some d) (a_net a) = false ->
  pending_get (pending n) d = None -> cache_get (rcache n) (a_net a) d = Some m ->
  indication n (ARB d) data = (n, [Tx 0 (LStation m) (mkNpdu (Some (DBcast d)) None 255 None data)]).
Proof.
  intros n a d m data Had Hne Hp Hc.
  unfold indication, local_idx, nth_adapter, modelled_config, find_path. rewrite Had. cbn [last_with_addr].
  assert (Hl : match match a_mac a with Some _ => Some 0%nat | None => None end with Some i => i | None => 0%nat end = 0%nat)
    by (destruct (a_mac a); reflexivity).
  rewrite Hl. cbn [nth_error negb]. rewrite Hne, Hp. cbn [find_path_from]. rewrite Hc. reflexivity.
Qed.

(* C06_tree_remote_broadcast_once: the nodes handed the payload are exactly the nodes with an application on the
   target network (its stations), each once *)
Theorem tree_remote_broadcast_once : forall w d lv up par src ws s smac a_s data mR,
  internet_ok (lans w) (nodes w) -> tree_to (lans w) (nodes w) d lv up par ->
  queue w = [] ->
  nth_error (nodes w) src = Some ws -> w_ports ws = [(s, smac)] -> adapters (w_node ws) = [a_s] ->
  (a_net a_s = None \/ a_net a_s = Some s) ->
  (0 < lv s <= 255)%nat ->
  pending_get (pending (w_node ws)) d = None ->
  port_mac (nodes w) (par s) = Some mR -> cache_get (rcache (w_node ws)) (a_net a_s) d = Some mR ->
  apdu_ok data = true ->
  let w0 := submit w src (ARB d) data in
  exists k osn, queue (run k w0) = [] /\ (forall k', (k <= k')%nat -> run k' w0 = run k w0) /\
                trace (run k w0) = osn ++ trace w /\
                hearers osn = rev (map fst (filter (appb (nodes w)) (lan_members (lans w) d))).
Proof.
  intros w d lv up par src ws s smac a_s data mR Hio Htt Hq Hws Hwsp Hwsa Hwsn Hlv Hpend HmR Hcache Hok w0.
  assert (Hsd : optN_eqb (Some d) (a_net a_s) = false).
  { destruct Hwsn as [E|E]; rewrite E; cbn; [reflexivity|].
    destruct (N.eqb_spec d s) as [E2|E2]; [|reflexivity]. subst s. rewrite (tt_root _ _ _ _ _ _ Htt) in Hlv. lia. }
  pose proof (station_sends_bcast (w_node ws) a_s d mR data Hwsa Hsd Hpend Hcache) as Hind.
  set (p0 := mkNpdu (Some (DBcast d)) None 255 None data) in *.
  set (f0 := mkFrame s smac (LStation mR) p0).
  assert (Hw0 : w0 = mkWorld (set_nth (nodes w) src (mkW (w_node ws) (w_ports ws))) (lans w) [f0] (trace w)).
  { unfold w0, submit. rewrite Hws, Hind. cbn [emit w_ports]. rewrite Hwsp. cbn [nth_error]. rewrite Hq. reflexivity. }
  assert (Harr : bcast_arrives (lans w0) (nodes w0) f0 (rev (map fst (filter (appb (nodes w)) (lan_members (lans w) d))))).
  { rewrite Hw0. cbn [lans nodes].
    destruct (lv s) as [|k] eqn:Ek; [lia|].
    pose proof (climb_b (lans w) (nodes w) d lv up par Hio Htt
                        k (set_nth (nodes w) src (mkW (w_node ws) (w_ports ws))) f0 mR) as Hc.
    cbn [f0 f_lan f_src f_dst f_npdu p0 n_msg n_dadr n_sadr n_hop n_data] in Hc.
    apply Hc; try reflexivity; try assumption.
    - apply sim_set_same. assumption.
    - exists (src, 0%nat), smac. unfold port_of. cbn [fst snd]. rewrite Hws, Hwsp. reflexivity.
    - change (N.to_nat 255) with 255%nat. lia.
    - intros sn sm E. discriminate E. }
  assert (Hq0 : queue w0 = [f0]) by (rewrite Hw0; reflexivity).
  destruct (bcast_route_arrives _ _ _ _ Harr w0 eq_refl eq_refl Hq0) as (k & osn & A1 & A2 & A3).
  exists k, osn. repeat split; auto.
  - intros k' Hk. replace k' with (k + (k' - k))%nat by lia. rewrite run_add. apply run_quiet. assumption.
  - rewrite A2, Hw0. reflexivity.
Qed.
