(* ScheduleSpec.v — what BACnet prescribes for a schedule (clause 12.24.4), stated independently
   of the interpreter's loops, and the well-formedness under which the theorems hold.
   Definitions only. *)
From Bac Require Import Base PyRt Calendar ScheduleEval.
Open Scope Z_scope.

Definition valid_time (t : T4) : Prop :=
  let '(h, m, s, c) := t in 0 <= h < 24 /\ 0 <= m < 60 /\ 0 <= s < 60 /\ 0 <= c < 100.

(* the value of the LAST list entry whose time is at or before t (None: no such entry, or Null) *)
Fixpoint cur_from (acc : option Z) (tvs : list TV) (t : T4) : option Z :=
  match tvs with
  | [] => acc
  | (tv, v) :: r => cur_from (if t4_le tv t then v else acc) r t
  end.
Definition cur_val (tvs : list TV) (t : T4) : option Z := cur_from None tvs t.

(* ascending times *)
Fixpoint sorted_tvs (l : list TV) : Prop :=
  match l with
  | [] => True
  | (tv, _) :: r => (forall x, In x r -> t4_le tv (fst x) = true) /\ sorted_tvs r
  end.

(* what the periods denote *)
Definition centry_denotes (c : centry) (d : D4) : Prop :=
  match c with
  | CDate p => date_denotes p d
  | CRange r => range_denotes r d
  | CWnd w => wnd_denotes w d
  | CEmpty => False
  end.
Definition wf_centry (c : centry) : Prop :=
  match c with CDate _ => True | CRange r => wf_range r | CWnd w => wf_wnd w | CEmpty => False end.
Definition period_denotes (p : period) (d : D4) : Prop :=
  match p with
  | PEntry c => centry_denotes c d
  | PRef (Some l) => exists c, In c l /\ centry_denotes c d
  | _ => False
  end.
Definition wf_period (p : period) : Prop :=
  match p with
  | PEntry c => wf_centry c
  | PRef (Some l) => forall c, In c l -> wf_centry c
  | _ => False
  end.

Definition prio_of (e : sevent) : Z := match se_prio e with Some p => p | None => 0 end.
Definition in_force (d : D4) (e : sevent) : Prop := period_denotes (se_period e) d.

Definition wf_event (e : sevent) : Prop :=
  wf_period (se_period e) /\ (exists p, se_prio e = Some p /\ 1 <= p <= 16) /\ sorted_tvs (se_tvs e).

(* pairwise distinct priorities among the events in force on d *)
Fixpoint distinct_priorities (d : D4) (evs : list sevent) : Prop :=
  match evs with
  | [] => True
  | e :: r => (in_force d e -> forall e', In e' r -> in_force d e' -> prio_of e' <> prio_of e)
              /\ distinct_priorities d r
  end.

Definition wf_weekly (w : option (list (list TV))) : Prop :=
  match w with None => True | Some l => length l = 7%nat /\ forall day, In day l -> sorted_tvs day end.

Definition wf_sched (c : sched) (d : D4) : Prop :=
  wf_range (eff c) /\ Forall wf_event (excs c) /\ distinct_priorities d (excs c) /\ wf_weekly (weekly c).

Definition weekly_day (c : sched) (d : D4) : list TV :=
  match weekly c with
  | None => []
  | Some w => let '(_, _, _, dow) := d in nth (Z.to_nat (dow - 1)) w []
  end.

(* clause 12.24.4: the current value of the highest-priority (lowest number) exception in force
   whose current value is not Null; otherwise the weekday's current value; otherwise the default *)
Definition spec_value (c : sched) (d : D4) (t : T4) (v : Z) : Prop :=
  (exists e, In e (excs c) /\ in_force d e /\ cur_val (se_tvs e) t = Some v /\
             forall e', In e' (excs c) -> in_force d e' -> cur_val (se_tvs e') t <> None ->
                        prio_of e <= prio_of e')
  \/ ((forall e, In e (excs c) -> in_force d e -> cur_val (se_tvs e) t = None) /\
      v = match cur_val (weekly_day c d) t with Some x => x | None => dflt c end).

Definition in_effect (c : sched) (d : D4) : Prop := range_denotes (eff c) d.

(* entry times with whole seconds (datetime_to_time drops the hundredths) *)
Definition whole_tv (tv : TV) : Prop := let '(_, _, _, h) := fst tv in h = 0.
Definition whole_seconds (c : sched) : Prop :=
  (forall e, In e (excs c) -> Forall whole_tv (se_tvs e)) /\
  (forall w, weekly c = Some w -> forall day, In day w -> Forall whole_tv day).
Definition valid_tvs (l : list TV) : Prop := Forall (fun tv => valid_time (fst tv)) l.
Definition valid_times (c : sched) : Prop :=
  (forall e, In e (excs c) -> valid_tvs (se_tvs e)) /\
  (forall w, weekly c = Some w -> forall day, In day w -> valid_tvs day).

(* ---- what datetime_to_time (schedule.py:236-247) must satisfy, for ANY local-time rule:
   the instant it returns is one whose local wall-clock reading is the requested (date, time),
   whenever such an instant exists (on a day with a UTC-offset change a reading may not exist, or
   exist twice: then nothing is required beyond being one of them).  The code meets this by handing
   the whole wall-clock tuple to time.mktime with isdst = -1; mktime/localtime are trusted CPython and
   are exercised, not modelled: `normalise` in ScheduleEval.v is their behaviour under a constant
   offset (TZ=UTC), and the harness judges real objects by local wall-clock reading in two zones with
   daylight-saving rules across both change days. *)
Definition dtt_requirement (localtime : Z -> D4 * T4) (dtt : D4 -> T4 -> Z) : Prop :=
  forall d t, (exists e, localtime e = (d, t)) -> localtime (dtt d t) = (d, t).
