(* Deferred.v — model of the deferred-call queue of core.py: `deferred` (core.py:239-250) and
   the drain loop shared by `run` (core.py:157-173) and `run_once` (core.py:212-228):

       while deferredFns:
           fnlist = deferredFns ; deferredFns = []          # the batch is DETACHED
           for fn, args, kwargs in fnlist:
               try: fn(ARGS)                                   # <- per-call guard (the fix: commit)
               except Exception as err: ..._exception(...)

   A deferred function is `DF id raises spawns acts`: when called it is logged, calls
   `deferred(f)` for every f of `spawns` (in order) and then raises iff `raises`.
   `guard = true` is the code as it is in the worktree (per-call try/except);
   `guard = false` is the pinned tree before the fix: the exception leaves the `for`,
   the rest of the detached batch is gone.  No proofs here (DeferredFacts.v). *)
From Bac Require Export Base.
Open Scope Z_scope.

(* what a callback (of a task or of a deferred function) may do to the schedule, besides
   deferring functions: the _Task API on itself or on another task *)
Inductive sact : Set :=
| AInstall (i : nat) (t : Z)        (* tasks[i].install_task(when=t) *)
| AInstallAfter (i : nat) (d : Z)   (* tasks[i].install_task(delta=d) *)
| AReinstall (i : nat)              (* tasks[i].install_task() *)
| ASuspend (i : nat)                (* tasks[i].suspend_task() *)
| AResume (i : nat).                (* tasks[i].resume_task() *)

(* a deferred function: logged, defers `spawns`, performs `acts` in order (an API call that raises
   ends it), then raises iff `raises`.  The pure functions of this file ignore `acts` (they do not
   touch the deferred queue); Sched.v threads the scheduler state through them. *)
Inductive dfn : Set := DF (id : nat) (raises : bool) (spawns : list dfn) (acts : list sact).

Definition d_id (d : dfn) : nat := match d with DF i _ _ _ => i end.
Definition d_raises (d : dfn) : bool := match d with DF _ r _ _ => r end.
Definition d_spawns (d : dfn) : list dfn := match d with DF _ _ s _ => s end.
Definition d_acts (d : dfn) : list sact := match d with DF _ _ _ a => a end.

(* total number of functions in a forest (termination measure of the drain loop) *)
Fixpoint d_size (d : dfn) : nat :=
  match d with DF _ _ sp _ => S ((fix go (l : list dfn) : nat :=
                                  match l with [] => O | x :: r => (d_size x + go r)%nat end) sp) end.
Fixpoint f_size (l : list dfn) : nat :=
  match l with [] => O | x :: r => (d_size x + f_size r)%nat end.

(* every function of a forest (depth first), the population "handed to the queue" *)
Fixpoint d_all (d : dfn) : list dfn :=
  match d with DF _ _ sp _ => d :: (fix go (l : list dfn) : list dfn :=
                                    match l with [] => [] | x :: r => d_all x ++ go r end) sp end.
Fixpoint f_all (l : list dfn) : list dfn :=
  match l with [] => [] | x :: r => d_all x ++ f_all r end.

(* the `for` over one detached batch.  Result: functions called (in order), the new
   deferredFns built meanwhile, and whether an exception left the loop *)
Fixpoint call_batch (guard : bool) (b : list dfn) : list dfn * list dfn * bool :=
  match b with
  | [] => ([], [], false)
  | d :: rest =>
      if d_raises d && negb guard then ([d], d_spawns d, true)
      else let '(c, q, x) := call_batch guard rest in (d :: c, d_spawns d ++ q, x)
  end.

Inductive dstatus : Set := DDone | DRaised | DOutOfFuel.

(* the `while deferredFns:` loop: (called, deferredFns afterwards, status) *)
Fixpoint drain (guard : bool) (fuel : nat) (q : list dfn) : list dfn * list dfn * dstatus :=
  match q with
  | [] => ([], [], DDone)
  | _ :: _ =>
      match fuel with
      | O => ([], q, DOutOfFuel)
      | S f =>
          let '(c, q', x) := call_batch guard q in
          if x then (c, q', DRaised)
          else let '(c2, q2, s) := drain guard f q' in (c ++ c2, q2, s)
      end
  end.

(* fuel the wrapper supplies: one round per function is always enough *)
Definition drain_all (guard : bool) (q : list dfn) := drain guard (f_size q) q.

(* a function (transitively) without scheduling actions *)
Fixpoint no_acts (d : dfn) : bool :=
  match d with DF _ _ sp a => (match a with [] => true | _ :: _ => false end)
                              && (fix go (l : list dfn) : bool :=
                                    match l with [] => true | x :: r => no_acts x && go r end) sp end.

(* canonical output for the correspondence *)
Definition zn (n : nat) : Z := Z.of_nat n.
Definition ids (l : list dfn) : list Z := map (fun d => zn (d_id d)) l.
Definition dstatus_code (s : dstatus) : Z :=
  match s with DDone => 0 | DRaised => 1 | DOutOfFuel => 17 end.
Definition canon_drain (r : list dfn * list dfn * dstatus) : list Z :=
  let '(c, q, s) := r in dstatus_code s :: zlen c :: ids c ++ zlen q :: ids q.
