(* CovQueue.v — the deferred queue under arbitrary interleavings: at every reachable state each bound detection
   instance has exactly one _execute pending if it is triggered and none otherwise (coalescing), older instances
   only leave stale entries, and a drain leaves nothing triggered. *)
From Coq Require Import ZifyBool ZifyN ZifyNat.
From Bac Require Import Base Cov CovFacts CovRun.
Ltac Zify.zify_post_hook ::= Z.to_euclidean_division_equations.
Open Scope Z_scope.

Definition dfn_eqb (a b : dfn) : bool :=
  match a, b with
  | DExec o g, DExec o' g' => (o =? o') && (g =? g')
  | DInit i, DInit j => i =? j
  | _, _ => false
  end.
Definition cnt (d : dfn) (q : list dfn) : nat := length (filter (dfn_eqb d) q).

Lemma dfn_eqb_eq : forall a b, dfn_eqb a b = true <-> a = b.
Proof.
  intros [o g|i] [o' g'|j]; cbn; split; intro H; try discriminate; try lia.
  - apply andb_prop in H as [H1 H2]. apply Z.eqb_eq in H1, H2. congruence.
  - inversion H. rewrite !Z.eqb_refl. reflexivity.
  - apply Z.eqb_eq in H. congruence.
  - inversion H. apply Z.eqb_refl.
Qed.

Lemma cnt_app : forall d q e, cnt d (q ++ [e]) = (cnt d q + (if dfn_eqb d e then 1 else 0))%nat.
Proof. intros. unfold cnt. rewrite filter_app, app_length. cbn. destruct (dfn_eqb d e); reflexivity. Qed.
Lemma cnt_cons : forall d q e, cnt d (e :: q) = ((if dfn_eqb d e then 1 else 0) + cnt d q)%nat.
Proof. intros. unfold cnt. cbn. destruct (dfn_eqb d e); reflexivity. Qed.
Lemma cnt_notin : forall d q, ~ In d q -> cnt d q = 0%nat.
Proof.
  intros d q. induction q as [|e r IH]; intro H; [reflexivity|]. rewrite cnt_cons.
  destruct (dfn_eqb d e) eqn:E; [apply dfn_eqb_eq in E; subst; exfalso; apply H; left; reflexivity|].
  apply IH. intro Hin. apply H. right. exact Hin.
Qed.
Lemma cnt_pos_in : forall d q, (0 < cnt d q)%nat -> In d q.
Proof.
  intros d q. induction q as [|e r IH]; intro H; [cbn in H; lia|]. rewrite cnt_cons in H.
  destruct (dfn_eqb d e) eqn:E; [apply dfn_eqb_eq in E; subst; left; reflexivity|right; apply IH; lia].
Qed.

Lemma in_cnt_pos : forall d q, In d q -> (0 < cnt d q)%nat.
Proof.
  intros d q. induction q as [|e r IH]; intro H; [destruct H|]. rewrite cnt_cons. destruct H as [->|H].
  - assert (E : dfn_eqb d d = true) by (apply dfn_eqb_eq; reflexivity). rewrite E. lia.
  - specialize (IH H). lia.
Qed.

Definition obj_q (q : list dfn) (ob : obj) : Prop :=
  (forall g, In (DExec (oid ob) g) q -> g <= gen ob) /\
  (bound ob = true -> cnt (DExec (oid ob) (gen ob)) q = if trig ob then 1%nat else 0%nat) /\
  (bound ob = false -> trig ob = false).
Definition qinv (s : st) : Prop := Forall (obj_q (queue s)) (objs s).

(* ---- object-wise preservation *)
Lemma obj_q_same : forall q a b, obj_q q a -> oid b = oid a -> gen b = gen a -> bound b = bound a -> trig b = trig a -> obj_q q b.
Proof. intros q a b H E1 E2 E3 E4. unfold obj_q. rewrite E1, E2, E3, E4. exact H. Qed.

Lemma obj_q_app_init : forall q ob i, obj_q q ob -> obj_q (q ++ [DInit i]) ob.
Proof.
  intros q ob i [A [B C]]. split; [|split; [|exact C]].
  - intros g H. apply in_app_or in H as [H|[H|[]]]; [auto|discriminate].
  - intro Hb. rewrite cnt_app. cbn. rewrite Nat.add_0_r. auto.
Qed.

Lemma obj_q_app_other : forall q ob o g, oid ob <> o -> obj_q q ob -> obj_q (q ++ [DExec o g]) ob.
Proof.
  intros q ob o g Hne [A [B C]]. split; [|split; [|exact C]].
  - intros g' H. apply in_app_or in H as [H|[H|[]]]; [auto|inversion H; congruence].
  - intro Hb. rewrite cnt_app. cbn. assert (oid ob =? o = false) by lia. rewrite H. cbn. rewrite Nat.add_0_r. auto.
Qed.

Lemma obj_q_trigger : forall q a b, obj_q q a -> bound a = true -> trig a = false ->
  oid b = oid a -> gen b = gen a -> bound b = true -> trig b = true -> obj_q (q ++ [DExec (oid a) (gen a)]) b.
Proof.
  intros q a b [A [B C]] Hb Ht E1 E2 E3 E4. unfold obj_q. rewrite E1, E2, E3, E4. split; [|split; [|discriminate]].
  - intros g H. apply in_app_or in H as [H|[H|[]]]; [auto|inversion H; lia].
  - intros _. rewrite cnt_app, (B Hb), Ht. cbn. rewrite !Z.eqb_refl. reflexivity.
Qed.

Lemma obj_q_bind : forall q ob, obj_q q ob -> obj_q q (bind_obj ob).
Proof.
  intros q ob H. pose proof H as [A _]. unfold bind_obj. destruct (bound ob) eqn:Hb; [exact H|].
  unfold obj_q. cbn. split; [|split; [|discriminate]].
  - intros g Hg. specialize (A g Hg). lia.
  - intros _. apply cnt_notin. intro Hg. specialize (A _ Hg). lia.
Qed.

Lemma obj_q_unbind : forall q ob, obj_q q ob -> obj_q q (unbind_obj ob).
Proof. intros q ob [A _]. unfold obj_q, unbind_obj. cbn. split; [exact A|]. split; [discriminate|reflexivity]. Qed.

Lemma obj_q_pop_init : forall q ob i, obj_q (DInit i :: q) ob -> obj_q q ob.
Proof.
  intros q ob i [A [B C]]. split; [|split; [|exact C]].
  - intros g H. apply A. right. exact H.
  - intro Hb. specialize (B Hb). rewrite cnt_cons in B. cbn in B. exact B.
Qed.

Lemma obj_q_pop_other : forall q ob o g, (oid ob <> o \/ bound ob = false \/ gen ob <> g) ->
  obj_q (DExec o g :: q) ob -> obj_q q ob.
Proof.
  intros q ob o g Hne [A [B C]]. split; [|split; [|exact C]].
  - intros g' H. apply A. right. exact H.
  - intro Hb. specialize (B Hb). rewrite cnt_cons in B. cbn in B.
    destruct ((oid ob =? o) && (gen ob =? g)) eqn:E; [|exact B]. exfalso. apply andb_prop in E as [E1 E2].
    apply Z.eqb_eq in E1, E2. destruct Hne as [H|[H|H]]; congruence.
Qed.

Lemma obj_q_pop_exec : forall q a b, obj_q (DExec (oid a) (gen a) :: q) a -> bound a = true ->
  oid b = oid a -> gen b = gen a -> bound b = true -> trig b = false -> obj_q q b.
Proof.
  intros q a b [A [B C]] Hb E1 E2 E3 E4. unfold obj_q. rewrite E1, E2, E3, E4. split; [|split; [|discriminate]].
  - intros g H. apply A. right. exact H.
  - intros _. specialize (B Hb). rewrite cnt_cons in B. cbn in B. rewrite !Z.eqb_refl in B. cbn in B.
    destruct (trig a); lia.
Qed.

(* ---- lists of objects *)
Lemma Forall_upd_obj : forall (P : obj -> Prop) o f os,
  Forall P os -> (forall a, In a os -> oid a = o -> P a -> P (f a)) -> Forall P (upd_obj o f os).
Proof.
  intros P o f os H Hf. unfold upd_obj. apply Forall_forall. intros x Hx. apply in_map_iff in Hx as [a [<- Ha]].
  rewrite Forall_forall in H. destruct (oid a =? o) eqn:E; [apply Hf; auto; lia|auto].
Qed.

Lemma NoDup_oid_eq : forall os a b, NoDup (oids os) -> In a os -> In b os -> oid a = oid b -> a = b.
Proof.
  intros os a b Hnd Ha Hb E. pose proof (find_obj_in os a Hnd Ha) as Fa. pose proof (find_obj_in os b Hnd Hb) as Fb.
  rewrite E in Fa. congruence.
Qed.

Lemma Forall_upd_const : forall (P P' : obj -> Prop) o X os, Forall P os ->
  (forall a, In a os -> oid a <> o -> P a -> P' a) -> (forall a, In a os -> oid a = o -> P a -> P' X) ->
  Forall P' (upd_obj o (fun _ => X) os).
Proof.
  intros P P' o X os H H1 H2. unfold upd_obj. apply Forall_forall. intros x Hx. apply in_map_iff in Hx as [a [<- Ha]].
  rewrite Forall_forall in H. destruct (oid a =? o) eqn:E; [apply (H2 a); auto; lia|apply H1; auto; lia].
Qed.

Lemma Forall_upd_fun : forall (P P' : obj -> Prop) o f os, Forall P os ->
  (forall a, In a os -> oid a <> o -> P a -> P' a) -> (forall a, In a os -> oid a = o -> P a -> P' (f a)) ->
  Forall P' (upd_obj o f os).
Proof.
  intros P P' o f os H H1 H2. unfold upd_obj. apply Forall_forall. intros x Hx. apply in_map_iff in Hx as [a [<- Ha]].
  rewrite Forall_forall in H. destruct (oid a =? o) eqn:E; [apply (H2 a); auto; lia|apply H1; auto; lia].
Qed.

Lemma report_det : forall o, oid (report o) = oid o /\ gen (report o) = gen o /\ bound (report o) = bound o /\ trig (report o) = trig o.
Proof. intro o. unfold report. destruct (reports_prev (okind o)); cbn; auto. Qed.

(* ---- the operations *)
Lemma run_dfn_q : forall s d r s1 ns, NoDup (oids (objs s)) -> Forall (obj_q (d :: r)) (objs s) ->
  run_dfn s d = (s1, ns) -> Forall (obj_q r) (objs s1).
Proof.
  intros s d r s1 ns Hnd H R. destruct d as [o g|i]; cbn in R.
  - assert (Hstale : (forall a, In a (objs s) -> oid a = o -> bound a = false \/ gen a <> g) -> Forall (obj_q r) (objs s)).
    { intro Hs. apply Forall_forall. intros a Ha. rewrite Forall_forall in H. specialize (H a Ha).
      eapply obj_q_pop_other; [|exact H]. destruct (Z.eq_dec (oid a) o) as [E|E]; [right; apply Hs; auto|left; exact E]. }
    destruct (find_obj o (objs s)) as [ob|] eqn:F.
    + pose proof (find_obj_some _ _ _ F) as [Fin Foid].
      destruct (bound ob && (gen ob =? g)) eqn:E; inversion R; subst s1 ns; cbn.
      * apply andb_prop in E as [Eb Eg]. apply Z.eqb_eq in Eg. subst g o.
        destruct (report_det ob) as [R1 [R2 [R3 R4]]].
        apply (Forall_upd_const (obj_q (DExec (oid ob) (gen ob) :: r))); [exact H| |].
        -- intros a Ha Hne Pa. eapply obj_q_pop_other; [left; exact Hne|exact Pa].
        -- intros a Ha Ho Pa. assert (a = ob) by (apply (NoDup_oid_eq (objs s)); auto). subst a.
           apply (obj_q_pop_exec r ob); cbn; auto; congruence.
      * apply Hstale. intros a Ha Ho. assert (a = ob) by (apply (NoDup_oid_eq (objs s)); auto; congruence). subst a.
        destruct (bound ob); [right|left; reflexivity]. cbn in E. lia.
    + inversion R; subst. apply Hstale. intros a Ha Ho. exfalso. unfold find_obj in F.
      eapply find_none in F; [|exact Ha]. cbn in F. lia.
  - assert (Hsame : Forall (obj_q r) (objs s)).
    { apply Forall_forall. intros a Ha. rewrite Forall_forall in H. eapply obj_q_pop_init. apply H. exact Ha. }
    destruct (find_id i (subs s)) as [x|]; [|inversion R; subst; exact Hsame].
    destruct (find_obj (s_oid x) (objs s)) as [ob|] eqn:F; inversion R; subst s1 ns; [|exact Hsame]. cbn.
    pose proof (find_obj_some _ _ _ F) as [Fin Foid]. destruct (report_det ob) as [R1 [R2 [R3 R4]]].
    apply (Forall_upd_const (obj_q r)); [exact Hsame|auto|].
    intros a Ha Ho Pa. assert (a = ob) by (apply (NoDup_oid_eq (objs s)); auto; congruence). subst a.
    eapply obj_q_same; eauto.
Qed.

Lemma run_queue_q : forall q s s1 ns, NoDup (oids (objs s)) -> Forall (obj_q q) (objs s) ->
  run_queue q s = (s1, ns) -> Forall (obj_q []) (objs s1).
Proof.
  induction q as [|d r IH]; intros s s1 ns Hnd H R; cbn in R; [inversion R; subst; exact H|].
  destruct (run_dfn s d) as [sa na] eqn:E1. destruct (run_queue r sa) as [sb nb] eqn:E2. inversion R; subst.
  pose proof (run_dfn_q _ _ _ _ _ Hnd H E1) as Ha. apply run_dfn_facts in E1 as [_ [_ [_ [_ [Eo _]]]]].
  eapply IH; [rewrite Eo; exact Hnd|exact Ha|exact E2].
Qed.

Lemma set_psched_det : forall o ps, oid (set_psched o ps) = oid o /\ gen (set_psched o ps) = gen o /\
  bound (set_psched o ps) = bound o /\ trig (set_psched o ps) = trig o.
Proof. intros. cbn. auto. Qed.

Lemma subscribe_now_q : forall s c p o cf life s' ok code, NoDup (oids (objs s)) -> qinv s ->
  subscribe_now s c p o cf life = (s', ok, code) -> qinv s'.
Proof.
  intros s c p o cf life s' ok code Hnd H S. unfold subscribe_now in S. unfold qinv in *.
  destruct (find_obj o (objs s)) as [ob|] eqn:F; [|inversion S; subst; exact H].
  pose proof (find_obj_some _ _ _ F) as [Fin Foid].
  destruct (okind ob); try (inversion S; subst; exact H).
  all: destruct (find_sub c p o (subs s)) as [y|]; inversion S; subst s' ok code; cbn [objs queue].
  all: apply (Forall_upd_const (obj_q (queue s))); [exact H|intros a _ _ Pa; apply obj_q_app_init; exact Pa|];
       intros a Ha Ho Pa; assert (a = ob) by (apply (NoDup_oid_eq (objs s)); auto; congruence); subst a;
       apply obj_q_app_init; repeat match goal with |- context [if ?b then _ else _] => destruct b end;
       try (eapply obj_q_same; [apply (obj_q_bind _ _ Pa)|cbn; reflexivity..]); apply obj_q_bind; exact Pa.
Qed.

Lemma drop_sub_q : forall s c p o, qinv s -> qinv (drop_sub s c p o).
Proof.
  intros s c p o H. unfold qinv, drop_sub in *. cbn [objs queue].
  destruct (subs_of o (remove_sub c p o (subs s))); [|exact H].
  apply (Forall_upd_fun (obj_q (queue s))); [exact H|auto|]. intros a _ _ Pa. apply obj_q_unbind. exact Pa.
Qed.

Lemma cancel_now_q : forall s c p o s' ok code, qinv s -> cancel_now s c p o = (s', ok, code) -> qinv s'.
Proof.
  intros s c p o s' ok code H S. unfold cancel_now in S.
  destruct (find_obj o (objs s)) as [ob|]; [|inversion S; subst; exact H].
  assert (Hb : qinv (set_objs s (upd_obj o bind_obj (objs s)))).
  { unfold qinv in *. cbn. apply (Forall_upd_fun (obj_q (queue s))); [exact H|auto|]. intros a _ _ Pa. apply obj_q_bind. exact Pa. }
  destruct (okind ob); try (inversion S; subst; exact H).
  all: destruct (find_sub c p o (subs s)); inversion S; subst s' ok code; [apply drop_sub_q; exact Hb|exact Hb].
Qed.

Lemma fire_item_q : forall s it, NoDup (oids (objs s)) -> qinv s -> qinv (fst (fire_item s it)).
Proof.
  intros s [k [c p o|o]] Hnd H; cbn.
  - destruct (find_sub c p o (subs s)); [|exact H]. destruct (task_eqb _ _ _); [apply drop_sub_q; exact H|exact H].
  - destruct (find_obj o (objs s)) as [ob|] eqn:F; [|exact H]. destruct (task_eqb _ _ _); [|exact H]. cbn.
    pose proof (find_obj_some _ _ _ F) as [Fin Foid]. destruct (report_det ob) as [R1 [R2 [R3 R4]]].
    unfold qinv in *. cbn. apply (Forall_upd_const (obj_q (queue s))); [exact H|auto|].
    intros a Ha Ho Pa. assert (a = ob) by (apply (NoDup_oid_eq (objs s)); auto; congruence). subst a.
    eapply obj_q_same; [exact Pa|cbn; auto..].
Qed.

Lemma fire_items_q : forall its s, NoDup (oids (objs s)) -> qinv s -> qinv (fst (fire_items its s)).
Proof.
  induction its as [|it r IH]; intros s Hnd H; [exact H|]. cbn.
  pose proof (fire_item_q s it Hnd H) as A. pose proof (fire_item_oids s it) as O.
  destruct (fire_item s it) as [s1 n1]. cbn in *. assert (Hnd1 : NoDup (oids (objs s1))) by (rewrite O; exact Hnd).
  specialize (IH s1 Hnd1 A). destruct (fire_items r s1). exact IH.
Qed.

Lemma ticks_q : forall n s, NoDup (oids (objs s)) -> qinv s -> qinv (fst (ticks n s)) /\ oids (objs (fst (ticks n s))) = oids (objs s).
Proof.
  induction n as [|n IH]; intros s Hnd H; [split; [exact H|reflexivity]|]. cbn [ticks].
  assert (A : qinv (fst (tick s)) /\ oids (objs (fst (tick s))) = oids (objs s)).
  { unfold tick. split; [apply fire_items_q; cbn; auto|].
    set (s0 := mkSt (now s + 1) (ctr s) (objs s) (subs s) (queue s)).
    assert (G : forall its s2, oids (objs (fst (fire_items its s2))) = oids (objs s2)).
    { induction its as [|it r IHr]; intro s2; [reflexivity|]. cbn. pose proof (fire_item_oids s2 it) as O.
      destruct (fire_item s2 it) as [sa na]. cbn in *. specialize (IHr sa). destruct (fire_items r sa). cbn in *. congruence. }
    rewrite G. reflexivity. }
  destruct (tick s) as [s1 n1]. cbn in A. destruct A as [A1 A2].
  assert (Hnd1 : NoDup (oids (objs s1))) by (rewrite A2; exact Hnd).
  specialize (IH s1 Hnd1 A1). destruct (ticks n s1) as [s2 n2]. cbn in *. destruct IH. split; [assumption|congruence].
Qed.

Lemma drain_q : forall s s1 ns, NoDup (oids (objs s)) -> qinv s -> drain s = (s1, ns) -> qinv s1 /\ queue s1 = [].
Proof.
  intros s s1 ns Hnd H D. unfold drain in D. pose proof (run_queue_q (queue s) (set_queue s []) _ _ Hnd H D) as A.
  apply run_queue_facts in D as [_ [_ [_ [Q _]]]]. cbn in Q. unfold qinv. rewrite Q. auto.
Qed.

Lemma upd_obj_notin : forall o f os, ~ In o (oids os) -> upd_obj o f os = os.
Proof.
  intros o f os H. unfold upd_obj. rewrite <- (map_id os) at 2. apply map_ext_in. intros a Ha.
  destruct (oid a =? o) eqn:E; [|reflexivity]. exfalso. apply H. apply Z.eqb_eq in E. rewrite <- E. apply in_map. exact Ha.
Qed.

Lemma upd_nth_obj : forall os i o f, NoDup (oids os) -> nth_error os i = Some o -> upd_nth i f os = upd_obj (oid o) f os.
Proof.
  induction os as [|a r IH]; intros i o f Hnd N; [destruct i; discriminate|]. cbn in Hnd. inversion Hnd as [|? ? Hn Hr]; subst.
  destruct i as [|i]; cbn in N.
  - inversion N; subst. cbn. rewrite Z.eqb_refl. f_equal. symmetry. apply upd_obj_notin. exact Hn.
  - cbn. assert (oid a =? oid o = false).
    { apply Z.eqb_neq. intro E. apply Hn. rewrite E. apply in_map. eapply nth_error_In; eauto. }
    rewrite H. f_equal. apply IH; auto.
Qed.

Lemma write_q : forall s i p v s' out, NoDup (oids (objs s)) -> qinv s -> step s (Write i p v) = (s', out) -> qinv s'.
Proof.
  intros s i p v s' out Hnd H S. cbn [step] in S. unfold write_ev in S.
  destruct (nth_error (objs s) i) as [o|] eqn:N; [|inversion S; subst; exact H].
  destruct (has_prop (okind o) p); inversion S; subst s' out; [|exact H]. unfold qinv in *. cbn [objs queue]. clear S.
  assert (Hin : In o (objs s)) by (eapply nth_error_In; eauto).
  assert (Hw : oid (write_obj o p v) = oid o /\ gen (write_obj o p v) = gen o /\ bound (write_obj o p v) = bound o /\
               (bound o = false -> trig (write_obj o p v) = trig o)).
  { split; [apply oid_write_obj|]. unfold write_obj.
    repeat match goal with |- context [if ?b then _ else _] => destruct b eqn:? end; destruct p; cbn; auto;
      repeat split; auto; intro Hb; rewrite Hb in *; cbn in *; try discriminate; auto. }
  destruct Hw as [W1 [W2 [W3 W4]]].
  rewrite (upd_nth_obj _ _ _ _ Hnd N).
  destruct (negb (trig o) && trig (write_obj o p v)) eqn:Flip.
  - apply andb_prop in Flip as [F1 F2]. apply negb_true_iff in F1.
    assert (Hb : bound o = true) by (destruct (bound o) eqn:Eb; [reflexivity|rewrite (W4 eq_refl) in F2; congruence]).
    apply (Forall_upd_fun (obj_q (queue s))); [exact H| |].
    + intros a _ Hne Pa. apply obj_q_app_other; auto.
    + intros a Ha Ho Pa. assert (a = o) by (apply (NoDup_oid_eq (objs s)); auto). subst a.
      apply (obj_q_trigger _ o); auto; congruence.
  - apply (Forall_upd_fun (obj_q (queue s))); [exact H|auto|].
    intros a Ha Ho Pa. assert (a = o) by (apply (NoDup_oid_eq (objs s)); auto). subst a.
    eapply obj_q_same; [exact Pa|auto..].
    destruct (trig o) eqn:Et; [apply (write_triggered o p v Et)|]. cbn in Flip. exact Flip.
Qed.

(* ---- every event *)
Lemma step_q : forall s e s' out, inv s -> qinv s -> wf_ev e -> step s e = (s', out) -> qinv s'.
Proof.
  intros s e s' out Hi Hq Hwf S. pose proof Hi as [_ [Hnd _]].
  destruct e as [i p v| |c p o cf life|c p o|t|c| |c p o cf life|c p o|c].
  - eapply write_q; eauto.
  - cbn [step] in S. destruct (drain s) as [s1 ns] eqn:D. inversion S; subst. apply (drain_q _ _ _ Hnd Hq D).
  - cbn [step] in S. destruct (drain s) as [s1 n1] eqn:D1. destruct (drain_q _ _ _ Hnd Hq D1) as [Q1 _].
    destruct (drain_facts _ _ _ Hi D1) as [[_ [Hnd1 _]] _].
    destruct (subscribe_now s1 c p o cf life) as [[s2 ok] code] eqn:SN. pose proof (subscribe_now_q _ _ _ _ _ _ _ _ _ Hnd1 Q1 SN) as Q2.
    assert (Hlf : 0 <= life_of life) by (destruct life; cbn in *; lia).
    destruct (drain_facts _ _ _ Hi D1) as [A1 _]. destruct (subscribe_now_facts _ _ _ _ _ _ _ _ _ A1 Hlf SN) as [[_ [Hnd2 _]] _].
    destruct (drain s2) as [s3 n3] eqn:D3. inversion S; subst. apply (drain_q _ _ _ Hnd2 Q2 D3).
  - cbn [step] in S. destruct (drain s) as [s1 n1] eqn:D1. destruct (drain_q _ _ _ Hnd Hq D1) as [Q1 _].
    destruct (drain_facts _ _ _ Hi D1) as [A1 _].
    destruct (cancel_now s1 c p o) as [[s2 ok] code] eqn:CN. pose proof (cancel_now_q _ _ _ _ _ _ _ Q1 CN) as Q2.
    destruct (cancel_now_facts _ _ _ _ _ _ _ A1 CN) as [[_ [Hnd2 _]] _].
    destruct (drain s2) as [s3 n3] eqn:D3. inversion S; subst. apply (drain_q _ _ _ Hnd2 Q2 D3).
  - cbn [step] in S. destruct (drain s) as [s1 n1] eqn:D1. destruct (drain_q _ _ _ Hnd Hq D1) as [Q1 _].
    destruct (drain_facts _ _ _ Hi D1) as [[_ [Hnd1 _]] _].
    pose proof (ticks_q (Z.to_nat t) s1 Hnd1 Q1) as [T _]. destruct (ticks (Z.to_nat t) s1) as [s2 n2]. inversion S; subst. exact T.
  - cbn [step] in S. destruct (drain s) as [s1 ns] eqn:D. inversion S; subst. apply (drain_q _ _ _ Hnd Hq D).
  - cbn [step] in S. destruct (queue s) as [|d r] eqn:Q; [inversion S; subst; exact Hq|].
    destruct (run_dfn (set_queue s r) d) as [s1 ns] eqn:R. inversion S; subst.
    unfold qinv in *. rewrite Q in Hq. pose proof (run_dfn_q (set_queue s r) d r _ _ Hnd Hq R) as A.
    apply run_dfn_facts in R as [_ [_ [_ [Qr _]]]]. rewrite Qr. exact A.
  - cbn [step] in S. destruct (subscribe_now s c p o cf life) as [[s2 ok] code] eqn:SN. inversion S; subst.
    apply (subscribe_now_q _ _ _ _ _ _ _ _ _ Hnd Hq SN).
  - cbn [step] in S. destruct (cancel_now s c p o) as [[s2 ok] code] eqn:CN. inversion S; subst.
    apply (cancel_now_q _ _ _ _ _ _ _ Hq CN).
  - cbn [step] in S. inversion S; subst. exact Hq.
Qed.

Lemma init_q : forall os, Forall (fun o => bound o = false /\ trig o = false) os -> qinv (init os).
Proof.
  intros os H. unfold qinv, init. cbn. eapply Forall_impl; [|exact H]. intros o [Hb Ht]. unfold obj_q. cbn.
  split; [intros g []|]. split; [rewrite Hb; discriminate|auto].
Qed.

Theorem run_q : forall es s, inv s -> idinv s -> qinv s -> Forall wf_ev es ->
  let s' := fst (run s es) in inv s' /\ idinv s' /\ qinv s'.
Proof.
  induction es as [|e r IH]; intros s Hi Hid Hq Hw; [cbn; auto|]. cbn. inversion Hw; subst.
  destruct (step s e) as [s1 o] eqn:S. destruct (step_facts _ _ _ _ Hi H1 S) as [Hi1 _].
  pose proof (step_id _ _ _ _ Hi Hid H1 S) as Hid1. pose proof (step_q _ _ _ _ Hi Hq H1 S) as Hq1.
  specialize (IH s1 Hi1 Hid1 Hq1 H2). destruct (run s1 r) as [s2 os]. exact IH.
Qed.

(* what the invariant says *)
Theorem pending_execute : forall s ob, qinv s -> In ob (objs s) ->
  (bound ob = true -> trig ob = true -> In (DExec (oid ob) (gen ob)) (queue s)) /\
  (bound ob = true -> (cnt (DExec (oid ob) (gen ob)) (queue s) <= 1)%nat) /\
  (bound ob = true -> In (DExec (oid ob) (gen ob)) (queue s) -> trig ob = true) /\
  (queue s = [] -> trig ob = false).
Proof.
  intros s ob H Hin. unfold qinv in H. rewrite Forall_forall in H. destruct (H ob Hin) as [A [B C]].
  split; [|split; [|split]].
  - intros Hb Ht. apply cnt_pos_in. rewrite (B Hb), Ht. lia.
  - intro Hb. rewrite (B Hb). destruct (trig ob); lia.
  - intros Hb Hd. destruct (trig ob) eqn:Et; [reflexivity|]. specialize (B Hb).
    exfalso. pose proof (in_cnt_pos _ _ Hd). lia.
  - intro Q. destruct (bound ob) eqn:Hb; [|apply C; reflexivity]. specialize (B eq_refl). rewrite Q in B. cbn in B.
    destruct (trig ob); [discriminate|reflexivity].
Qed.
