(* SsmC11s.v — C11 for the serving side: a request, a client's segment-ack or a client's abort changes only the server
   transaction with the sender's address and the PDU's invoke id (which may be created, replaced or removed — also by the
   application's answer given inside the same step); every other server transaction, the client table and every other node
   stay exactly as they were. *)
From Coq Require Import ZifyBool ZifyN ZifyNat.
From Bac Require Import Base PyRt Ssm SsmFacts SsmC04a SsmWorld SsmC11.
From BacGen Require Import ApduFns.
Open Scope Z_scope.

(* the server transactions other than the one with key (invoke id, peer) *)
Definition others (inv peer : Z) (l : list ssm) : list ssm := filter (fun t => negb (tr_matches inv peer t)) l.

Lemma others_app_match : forall inv peer l t, tr_matches inv peer t = true -> others inv peer (l ++ [t]) = others inv peer l.
Proof. intros. unfold others. rewrite filter_app. cbn [filter]. rewrite H. cbn [negb]. apply app_nil_r. Qed.

Lemma others_replace : forall inv peer l i t t', nth_error l i = Some t -> tr_matches inv peer t = true ->
  tr_matches inv peer t' = true -> others inv peer (replace_nth i t' l) = others inv peer l.
Proof.
  intros inv peer l. induction l as [|x r IH]; intros i t t' Hn Hm Hm'; destruct i; cbn in Hn; try discriminate.
  - inversion Hn; subst. cbn [replace_nth others filter]. rewrite Hm, Hm'. reflexivity.
  - cbn [replace_nth]. unfold others in *. cbn [filter]. rewrite (IH i t t' Hn Hm Hm'). reflexivity.
Qed.

Lemma others_remove : forall inv peer l i t, nth_error l i = Some t -> tr_matches inv peer t = true ->
  others inv peer (remove_nth i l) = others inv peer l.
Proof.
  intros inv peer l. induction l as [|x r IH]; intros i t Hn Hm; destruct i; cbn in Hn; try discriminate.
  - inversion Hn; subst. cbn [remove_nth others filter]. rewrite Hm. reflexivity.
  - cbn [remove_nth]. unfold others in *. cbn [filter]. rewrite (IH i t Hn Hm). reflexivity.
Qed.

(* the key of a server transaction is stable under its handlers; a new one takes the key of the request *)
Definition key_step (a_inv : Z) (s s' : ssm) : Prop :=
  s_peer s' = s_peer s /\ (s_invoke s' = s_invoke s \/ (s_state s = IDLE /\ s_invoke s' = a_inv)).

Ltac finish_key := unfold key_step; mcbn; split; [reflexivity | first [left; reflexivity | right; split; reflexivity]].

Lemma s_confirmation_key : forall x st, key_step 0 (h_s st) (h_s (fst (s_confirmation x st))) /\
  s_invoke (h_s (fst (s_confirmation x st))) = s_invoke (h_s st).
Proof.
  intros x [s outs ctr now live]. destruct_ssm s. unfold s_confirmation, s_abort.
  path_split; (split; [finish_key | mcbn; reflexivity]).
Qed.

Lemma s_indication_key : forall a st, a_type a = 0 \/ s_state (h_s st) <> IDLE ->
  key_step (a_invoke a) (h_s st) (h_s (fst (s_indication a st))).
Proof.
  intros a [s outs ctr now live] Hty. destruct_ssm s. cbn [h_s s_state] in Hty.
  unfold s_indication, s_idle, s_segmented_request, s_await_response, s_segmented_response, s_abort, append_segment, actwin_z.
  mcbn.
  destruct (x_state =? IDLE) eqn:E0.
  - destruct (a_type a =? 0) eqn:Et; cbn [negb].
    + destruct (decode_max_apdu_length_accepted (a_maxresp a)) as [[dec|]|e0]; [ | | destruct e0];
      destruct (dec_maxsegs (a_maxsegs a)) as [ms|e1];
      path_split; unfold key_step; mcbn; (split; [reflexivity | right; split; [unfold IDLE in *; lia | reflexivity]]).
    + exfalso. unfold IDLE in *. lia.
  - path_split; finish_key.
Qed.

(* what a server handler hands to the application as a request (type 0) is the request itself or the reassembled one *)
Lemma s_indication_toapp : forall a st x, h_outs st = [] -> In (ToApp x) (h_outs (fst (s_indication a st))) -> a_type x = 0 ->
  a_invoke x = a_invoke a \/ (exists c, s_ctx (h_s st) = Some c /\ a_invoke x = a_invoke c).
Proof.
  intros a [s outs ctr now live] x Ho. cbn [h_outs] in Ho. subst outs. destruct_ssm s.
  unfold s_indication, s_idle, s_segmented_request, s_await_response, s_segmented_response, s_abort, append_segment, actwin_z.
  mcbn.
  destruct (x_state =? IDLE).
  - destruct (a_type a =? 0); cbn [negb]; [|mcbn; intros []].
    destruct (decode_max_apdu_length_accepted (a_maxresp a)) as [[dec|]|e0]; [ | | destruct e0];
    destruct (dec_maxsegs (a_maxsegs a)) as [ms|e1];
    path_split; mcbn; intros Hin Hx; cbn [In] in Hin;
      repeat (destruct Hin as [Hin|Hin]; [try discriminate; try (inversion Hin; subst; cbn [a_type mk_abort] in Hx; try discriminate; left; reflexivity)|]);
      try contradiction.
  - path_split; mcbn; intros Hin Hx;
      try (apply in_app_or in Hin; destruct Hin as [Hin|Hin]; [apply Htx in Hin; discriminate Hin|]);
      cbn [In] in Hin;
      repeat (destruct Hin as [Hin|Hin]; [try discriminate;
        try (inversion Hin; subst; cbn [a_type a_invoke mk_abort] in *; try discriminate;
             first [left; reflexivity | right; eexists; split; [reflexivity | reflexivity]])|]);
      try contradiction.
Qed.

(* ---------- world level ---------- *)
Definition node_ok_after (inv peer dst : Z) (w w' : world) : Prop :=
  (forall addr, addr <> dst -> get_node addr (w_nodes w') = get_node addr (w_nodes w)) /\
  (forall n, get_node dst (w_nodes w) = Some n ->
     exists n', get_node dst (w_nodes w') = Some n' /\ n_ctr n' = n_ctr n /\ n_cfg n' = n_cfg n /\
                others inv peer (n_str n') = others inv peer (n_str n)).

Lemma node_ok_refl : forall inv peer dst w w', w_nodes w' = w_nodes w -> node_ok_after inv peer dst w w'.
Proof.
  intros inv peer dst w w' H. unfold node_ok_after. rewrite H. split; [auto|].
  intros n Hn. exists n. auto.
Qed.

Lemma node_ok_trans : forall inv peer dst w1 w2 w3,
  node_ok_after inv peer dst w1 w2 -> node_ok_after inv peer dst w2 w3 -> node_ok_after inv peer dst w1 w3.
Proof.
  intros inv peer dst w1 w2 w3 (A1 & A2) (B1 & B2). split.
  - intros addr Hne. rewrite (B1 addr Hne). apply A1. exact Hne.
  - intros n Hn. destruct (A2 n Hn) as (n' & Hn' & C1 & C2 & C3). destruct (B2 n' Hn') as (n'' & Hn'' & D1 & D2 & D3).
    exists n''. repeat split; congruence.
Qed.

Lemma get_node_addr : forall addr ns n, get_node addr ns = Some n -> c_addr (n_cfg n) = addr.
Proof.
  intros addr ns n. induction ns as [|m r IH]; cbn [get_node]; [discriminate|].
  destruct (c_addr (n_cfg m) =? addr) eqn:E; [intros H; inversion H; subst; lia | exact IH].
Qed.

Lemma get_put_same : forall n ns addr m, get_node addr ns = Some m -> c_addr (n_cfg n) = addr -> get_node addr (put_node n ns) = Some n.
Proof.
  intros n ns addr m. induction ns as [|x r IH]; cbn [get_node put_node]; [discriminate|]. intros H Ha.
  destruct (c_addr (n_cfg x) =? addr) eqn:E.
  - replace (c_addr (n_cfg x) =? c_addr (n_cfg n)) with true by lia. cbn [get_node]. replace (c_addr (n_cfg n) =? addr) with true by lia. reflexivity.
  - replace (c_addr (n_cfg x) =? c_addr (n_cfg n)) with false by lia. cbn [get_node]. rewrite E. apply IH; assumption.
Qed.

(* replacing / removing the matching entry of the server table of node dst *)
Lemma put_str_ok : forall inv peer dst w w' n l',
  get_node dst (w_nodes w) = Some n ->
  w_nodes w' = put_node (mkN (n_cfg n) (n_next n) (n_ctr n) l') (w_nodes w) ->
  others inv peer l' = others inv peer (n_str n) ->
  node_ok_after inv peer dst w w'.
Proof.
  intros inv peer dst w w' n l' Hn Hw Ho. pose proof (get_node_addr _ _ _ Hn) as Ha. split.
  - intros addr Hne. rewrite Hw. apply get_put_other. cbn [n_cfg]. lia.
  - intros n0 Hn0. rewrite Hn in Hn0. inversion Hn0; subst n0.
    exists (mkN (n_cfg n) (n_next n) (n_ctr n) l'). rewrite Hw. split; [eapply get_put_same; [exact Hn | exact Ha]|].
    cbn [n_ctr n_cfg n_str]. auto.
Qed.

Lemma process_tx_nodes : forall outs node peer w, w_nodes (process_tx node peer outs w) = w_nodes w.
Proof.
  induction outs as [|o r IH]; intros node peer w; cbn [process_tx]; [reflexivity|].
  destruct o; rewrite IH; [apply sent_nodes | reflexivity].
Qed.

(* the script of the applications is never changed *)
Lemma schedule_copies_reqs : forall fate it w, w_reqs (schedule_copies fate it w) = w_reqs w.
Proof.
  induction fate as [|d r IH]; intros it w; cbn [schedule_copies]; [reflexivity|].
  rewrite IH. destruct (d =? 0); reflexivity.
Qed.

Lemma sent_reqs : forall src dst a w, w_reqs (sent src dst a w) = w_reqs w.
Proof.
  intros. unfold sent.
  match goal with |- w_reqs (fold_left ?f (w_injs ?w1) ?w1) = _ =>
    assert (H : w_reqs w1 = w_reqs w) by (rewrite schedule_copies_reqs; reflexivity);
    generalize (w_injs w1); generalize dependent w1
  end.
  intros w1 H l. revert w1 H.
  induction l as [|i r IH]; intros w1 H; cbn [fold_left]; [exact H|].
  apply IH. destruct (i_after i =? w_nframes w); exact H.
Qed.

Lemma process_tx_reqs : forall outs node peer w, w_reqs (process_tx node peer outs w) = w_reqs w.
Proof.
  induction outs as [|o r IH]; intros node peer w; cbn [process_tx]; [reflexivity|].
  destruct o; rewrite IH; [apply sent_reqs | reflexivity].
Qed.

Lemma respond_reqs : forall j w, w_reqs (respond j w) = w_reqs w.
Proof.
  intros j w. unfold respond.
  destruct (job_apdu j); [|reflexivity]. destruct (get_node (j_node j) (w_nodes w)); [|reflexivity].
  destruct (find_tr (j_invoke j) (j_to j) (n_str n) 0) as [[i t]|]; [|reflexivity].
  destruct (s_confirmation a _) as [st e].
  destruct e; cbn [w_reqs log]; rewrite process_tx_reqs; reflexivity.
Qed.

(* the hypothesis of the serving-side theorem: no server application gives parked answers of OTHER requests from inside an
   indication (that is the application touching other transactions, not the stack) *)
Definition no_flush (rs : list reqcfg) : Prop := forall r, In r rs -> r_delay r <> -2.

Lemma find_policy_in : forall src dst data rs no0 no r, find_policy src dst data no0 rs = Some (no, r) -> In r rs.
Proof.
  induction rs as [|x rest IH]; intros no0 no r H; cbn [find_policy] in H; [discriminate|].
  destruct ((r_src x =? src) && (r_dst x =? dst) && (zlen data =? r_len x) && list_eqb Z.eqb data (req_payload no0 (r_len x))).
  - inversion H; subst. left. reflexivity.
  - right. eapply IH. exact H.
Qed.

(* the application's answer: only the server transaction (invoke, client) of that node *)
Lemma respond_ok : forall j w, node_ok_after (j_invoke j) (j_to j) (j_node j) w (respond j w).
Proof.
  intros j w. unfold respond.
  destruct (job_apdu j) as [x|]; [|apply node_ok_refl; reflexivity].
  destruct (get_node (j_node j) (w_nodes w)) as [n|] eqn:Hn; [|apply node_ok_refl; reflexivity].
  destruct (find_tr (j_invoke j) (j_to j) (n_str n) O) as [[i t]|] eqn:Hf; [|apply node_ok_refl; reflexivity].
  destruct (find_tr_spec _ _ _ _ _ _ Hf) as (_ & Hnth & Hm & _). rewrite Nat.sub_0_r in Hnth.
  pose proof (s_confirmation_key x (mkH t [] (w_tctr w) (w_now w) true)) as ((Hp & _) & Hi). cbn [h_s] in Hp, Hi.
  destruct (s_confirmation x (mkH t [] (w_tctr w) (w_now w) true)) as [st e]. cbn [fst] in Hp, Hi.
  assert (Hm' : tr_matches (j_invoke j) (j_to j) (h_s st) = true).
  { unfold tr_matches in *. rewrite Hp, Hi. exact Hm. }
  eapply put_str_ok with (l' := if h_live st then replace_nth i (h_s st) (n_str n) else remove_nth i (n_str n)); [exact Hn | |].
  - destruct e; cbn [w_nodes log]; rewrite process_tx_nodes; cbn [w_nodes set_tctr set_nodes]; reflexivity.
  - destruct (h_live st); [eapply others_replace; eauto | eapply others_remove; eauto].
Qed.

Lemma app_indication_ok : forall node peer x w, no_flush (w_reqs w) ->
  node_ok_after (a_invoke x) peer node w (app_indication node peer x w) /\ w_reqs (app_indication node peer x w) = w_reqs w.
Proof.
  intros node peer x w Hnf. unfold app_indication.
  destruct (negb (a_type x =? 0)); [split; [apply node_ok_refl; reflexivity | reflexivity]|].
  match goal with |- context [find_policy ?a ?b ?c ?d ?e] => destruct (find_policy a b c d e) as [[no r]|] eqn:Hfp end; cbv beta iota zeta.
  - assert (Hr : r_delay r <> -2) by (apply Hnf; apply find_policy_in in Hfp; exact Hfp).
    destruct (r_delay r =? 0).
    + split; [|rewrite respond_reqs; reflexivity].
      match goal with |- node_ok_after _ _ _ _ (respond ?j ?w0) =>
        eapply node_ok_trans; [apply (node_ok_refl _ _ _ w w0); reflexivity | apply (respond_ok j w0)] end.
    + destruct (r_delay r =? -1); [split; [apply node_ok_refl; reflexivity | reflexivity]|].
      replace (r_delay r =? -2) with false by lia. split; [apply node_ok_refl; reflexivity | reflexivity].
  - cbn [Z.eqb]. split; [|rewrite respond_reqs; reflexivity].
    match goal with |- node_ok_after _ _ _ _ (respond ?j ?w0) =>
      eapply node_ok_trans; [apply (node_ok_refl _ _ _ w w0); reflexivity | apply (respond_ok j w0)] end.
Qed.

Lemma process_outs_server_ok : forall outs inv node peer w, no_flush (w_reqs w) ->
  (forall x, In (ToApp x) outs -> a_type x = 0 -> a_invoke x = inv) ->
  node_ok_after inv peer node w (process_outs false node peer outs w).
Proof.
  induction outs as [|o r IH]; intros inv node peer w Hnf H; cbn [process_outs]; [apply node_ok_refl; reflexivity|].
  destruct o as [x|x].
  - eapply node_ok_trans; [apply node_ok_refl; apply sent_nodes|].
    apply IH; [rewrite sent_reqs; exact Hnf | intros y Hy; apply H; right; exact Hy].
  - destruct (app_indication_ok node peer x w Hnf) as (Hok & Hrq).
    eapply node_ok_trans; [|apply IH; [rewrite Hrq; exact Hnf | intros y Hy; apply H; right; exact Hy]].
    destruct (a_type x =? 0) eqn:Et.
    + rewrite <- (H x (or_introl eq_refl)) by lia. exact Hok.
    + unfold app_indication. rewrite Et. cbn [negb]. apply node_ok_refl. reflexivity.
Qed.

Lemma s_idle_takes_key : forall a st, s_state (h_s st) = IDLE -> a_type a = 0 ->
  s_peer (h_s (fst (s_indication a st))) = s_peer (h_s st) /\ s_invoke (h_s (fst (s_indication a st))) = a_invoke a.
Proof.
  intros a [s outs ctr now live] Hs Ht. destruct_ssm s. cbn [h_s s_state] in Hs. subst x_state.
  unfold s_indication, s_idle, s_abort. mcbn. cbn [Z.eqb IDLE]. rewrite Ht. cbn [Z.eqb negb].
  destruct (decode_max_apdu_length_accepted (a_maxresp a)) as [[dec|]|e0]; [ | | destruct e0];
  destruct (dec_maxsegs (a_maxsegs a)) as [ms|e1];
  path_split; mcbn; split; reflexivity.
Qed.

Lemma put_put : forall a b ns, c_addr (n_cfg a) = c_addr (n_cfg b) -> put_node a (put_node b ns) = put_node a ns.
Proof.
  intros a b ns H. induction ns as [|x r IH]; cbn [put_node]; [reflexivity|].
  destruct (c_addr (n_cfg x) =? c_addr (n_cfg b)) eqn:E; cbn [put_node].
  - replace (c_addr (n_cfg b) =? c_addr (n_cfg a)) with true by lia. replace (c_addr (n_cfg x) =? c_addr (n_cfg a)) with true by lia. reflexivity.
  - replace (c_addr (n_cfg x) =? c_addr (n_cfg a)) with false by lia. rewrite IH. reflexivity.
Qed.

Lemma replace_nth_last : forall {A} (l : list A) t t', replace_nth (length l) t' (l ++ [t]) = l ++ [t'].
Proof. induction l as [|x r IH]; intros; cbn [length app replace_nth]; [reflexivity | rewrite IH; reflexivity]. Qed.
Lemma remove_nth_last : forall {A} (l : list A) t, remove_nth (length l) (l ++ [t]) = l.
Proof. induction l as [|x r IH]; intros; cbn [length app remove_nth]; [reflexivity | rewrite IH; reflexivity]. Qed.

Definition ctx_ok (t : ssm) : Prop := forall c, s_ctx t = Some c -> a_invoke c = s_invoke t.

(* C11_rx_touches_only_match for the serving side *)
Lemma deliver_server_only_match : forall src dst a w n,
  to_client_side a = false -> (a_type a = 0 \/ a_type a = 4 \/ a_type a = 7) ->
  get_node dst (w_nodes w) = Some n ->
  (forall t, In t (n_str n) -> ctx_ok t) -> no_flush (w_reqs w) ->
  node_ok_after (a_invoke a) src dst w (deliver src dst a w).
Proof.
  intros src dst a w n Hc Hty Hn Hctx Hnf. pose proof (get_node_addr _ _ _ Hn) as Haddr.
  unfold deliver. rewrite Hn. destruct (c_raw (n_cfg n)); [apply node_ok_refl; reflexivity|].
  (* the handler run on an entry (i, t) of the server table of the node n1 stored in world w1 *)
  assert (Hrun : forall w1 n1 i t,
            get_node dst (w_nodes w1) = Some n1 -> nth_error (n_str n1) i = Some t ->
            (forall l', others (a_invoke a) src l' = others (a_invoke a) src (n_str n) ->
                        node_ok_after (a_invoke a) src dst w
                          (set_tctr 0 (set_nodes (put_node (mkN (n_cfg n1) (n_next n1) (n_ctr n1) l') (w_nodes w1)) w1)) ) -> True) by auto.
  clear Hrun.
  destruct (a_type a =? 0) eqn:E0.
  - assert (Hat : a_type a = 0) by lia.
    destruct (find_tr (a_invoke a) src (n_str n) O) as [[i t]|] eqn:Hf.
    + (* retransmission / further segment for an existing transaction *)
      destruct (find_tr_spec _ _ _ _ _ _ Hf) as (_ & Hnth & Hm & _). rewrite Nat.sub_0_r in Hnth.
      apply tr_matches_eq in Hm as Hm2. destruct Hm2 as (Hi & Hp).
      unfold run_on.
      pose proof (s_indication_key a (mkH t [] (w_tctr w) (w_now w) true) (or_introl Hat)) as (Kp & Ki). cbn [h_s] in Kp, Ki.
      pose proof (s_indication_toapp a (mkH t [] (w_tctr w) (w_now w) true)) as Hto. cbn [h_outs h_s] in Hto.
      destruct (s_indication a (mkH t [] (w_tctr w) (w_now w) true)) as [st e]. cbn [fst] in *.
      assert (Hm' : tr_matches (a_invoke a) src (h_s st) = true).
      { unfold tr_matches. rewrite Kp. destruct Ki as [Ki|(_ & Ki)]; rewrite Ki; lia. }
      set (l' := if h_live st then replace_nth i (h_s st) (n_str n) else remove_nth i (n_str n)).
      assert (Ho : others (a_invoke a) src l' = others (a_invoke a) src (n_str n)).
      { unfold l'. destruct (h_live st); [eapply others_replace; eauto | eapply others_remove; eauto]. }
      set (w1 := set_tctr (h_ctr st) (set_nodes (put_node (mkN (n_cfg n) (n_next n) (n_ctr n) l') (w_nodes w)) w)).
      assert (H1 : node_ok_after (a_invoke a) src dst w w1) by (eapply put_str_ok; [exact Hn | reflexivity | exact Ho]).
      assert (H2 : node_ok_after (a_invoke a) src dst w1 (process_outs false (c_addr (n_cfg n)) (s_peer t) (rev (h_outs st)) w1)).
      { rewrite Haddr, <- Hp. apply process_outs_server_ok; [exact Hnf|]. intros x Hx Htx. apply in_rev in Hx.
        destruct (Hto x eq_refl Hx Htx) as [H|(c & Hc1 & Hc2)]; [exact H|].
        rewrite Hc2. rewrite (Hctx t (nth_error_In _ _ Hnth) c Hc1). lia. }
      destruct e; [eapply node_ok_trans; [eapply node_ok_trans; [exact H1 | exact H2] | apply node_ok_refl; reflexivity]
                  | eapply node_ok_trans; [exact H1 | exact H2]].
    + (* a new transaction *)
      unfold run_on.
      set (t0 := new_ssm (n_cfg n) src false).
      pose proof (s_idle_takes_key a (mkH t0 [] (w_tctr w) (w_now w) true) eq_refl Hat) as (Kp & Ki). cbn [h_s] in Kp, Ki.
      pose proof (s_indication_toapp a (mkH t0 [] (w_tctr w) (w_now w) true)) as Hto. cbn [h_outs h_s] in Hto.
      cbn [w_tctr w_now set_nodes n_str n_ctr n_cfg n_next].
      destruct (s_indication a (mkH t0 [] (w_tctr w) (w_now w) true)) as [st e]. cbn [fst] in *.
      assert (Hm' : tr_matches (a_invoke a) src (h_s st) = true).
      { unfold tr_matches. rewrite Kp, Ki. unfold t0. cbn [new_ssm s_peer]. lia. }
      set (l' := if h_live st then replace_nth (length (n_str n)) (h_s st) (n_str n ++ [t0]) else remove_nth (length (n_str n)) (n_str n ++ [t0])).
      assert (Ho : others (a_invoke a) src l' = others (a_invoke a) src (n_str n)).
      { unfold l'. destruct (h_live st); [rewrite replace_nth_last; apply others_app_match; exact Hm' | rewrite remove_nth_last; reflexivity]. }
      match goal with |- node_ok_after _ _ _ _ (match ?e0 with Some x => log _ ?W | None => ?W end) =>
        assert (HW : node_ok_after (a_invoke a) src dst w W) end.
      { match goal with |- node_ok_after _ _ _ _ (process_outs false ?nd ?pr ?os ?W1) =>
          assert (H1 : node_ok_after (a_invoke a) src dst w W1) end.
        { eapply put_str_ok with (l' := l'); [exact Hn | | exact Ho].
          cbn [w_nodes set_tctr set_nodes]. rewrite put_put by reflexivity. reflexivity. }
        eapply node_ok_trans; [exact H1|]. rewrite Haddr.
        replace (s_peer t0) with src by reflexivity.
        apply process_outs_server_ok; [exact Hnf|]. intros x Hx Htx. apply in_rev in Hx.
        destruct (Hto x eq_refl Hx Htx) as [H|(c & Hc1 & _)]; [exact H | discriminate Hc1]. }
      destruct e; [eapply node_ok_trans; [exact HW | apply node_ok_refl; reflexivity] | exact HW].
  - replace (a_type a =? 1) with false by lia. rewrite Hc.
    replace ((a_type a =? 4) || (a_type a =? 7)) with true by lia.
    destruct (find_tr (a_invoke a) src (n_str n) O) as [[i t]|] eqn:Hf; [|apply node_ok_refl; reflexivity].
    destruct (find_tr_spec _ _ _ _ _ _ Hf) as (_ & Hnth & Hm & _). rewrite Nat.sub_0_r in Hnth.
    apply tr_matches_eq in Hm as Hm2. destruct Hm2 as (Hi & Hp).
    unfold run_on.
    assert (Hst : s_state t <> IDLE \/ s_state t = IDLE) by lia.
    pose proof (s_indication_toapp a (mkH t [] (w_tctr w) (w_now w) true)) as Hto. cbn [h_outs h_s] in Hto.
    assert (Kk : s_peer (h_s (fst (s_indication a (mkH t [] (w_tctr w) (w_now w) true)))) = s_peer t /\
                 s_invoke (h_s (fst (s_indication a (mkH t [] (w_tctr w) (w_now w) true)))) = s_invoke t).
    { destruct Hst as [Hst|Hst].
      - destruct (s_indication_key a (mkH t [] (w_tctr w) (w_now w) true) (or_intror Hst)) as (Kp & [Ki|(Ki & _)]); cbn [h_s] in *; [auto | contradiction].
      - (* IDLE with a non-request: s_idle raises at once, nothing changes *)
        unfold s_indication, withs. cbn [h_s]. rewrite Hst. cbn [Z.eqb IDLE]. unfold s_idle.
        replace (negb (a_type a =? 0)) with true by lia. unfold raise. cbn [fst h_s]. auto. }
    destruct Kk as (Kp & Ki).
    destruct (s_indication a (mkH t [] (w_tctr w) (w_now w) true)) as [st e]. cbn [fst] in *.
    assert (Hm' : tr_matches (a_invoke a) src (h_s st) = true) by (unfold tr_matches; rewrite Kp, Ki; lia).
    set (l' := if h_live st then replace_nth i (h_s st) (n_str n) else remove_nth i (n_str n)).
    assert (Ho : others (a_invoke a) src l' = others (a_invoke a) src (n_str n)).
    { unfold l'. destruct (h_live st); [eapply others_replace; eauto | eapply others_remove; eauto]. }
    set (w1 := set_tctr (h_ctr st) (set_nodes (put_node (mkN (n_cfg n) (n_next n) (n_ctr n) l') (w_nodes w)) w)).
    assert (H1 : node_ok_after (a_invoke a) src dst w w1) by (eapply put_str_ok; [exact Hn | reflexivity | exact Ho]).
    assert (H2 : node_ok_after (a_invoke a) src dst w1 (process_outs false (c_addr (n_cfg n)) (s_peer t) (rev (h_outs st)) w1)).
    { rewrite Haddr, <- Hp. apply process_outs_server_ok; [exact Hnf|]. intros x Hx Htx. apply in_rev in Hx.
      destruct (Hto x eq_refl Hx Htx) as [H|(c & Hc1 & Hc2)]; [exact H|].
      rewrite Hc2. rewrite (Hctx t (nth_error_In _ _ Hnth) c Hc1). lia. }
    destruct e; [eapply node_ok_trans; [eapply node_ok_trans; [exact H1 | exact H2] | apply node_ok_refl; reflexivity]
                | eapply node_ok_trans; [exact H1 | exact H2]].
Qed.

(* the hypothesis ctx_ok is an invariant: a fresh transaction has no context; ServerSSM.indication keeps it for the
   transaction the PDU is dispatched to (same invoke id, or a new one), the application's answer keeps it when it carries
   the transaction's invoke id (sap_confirmation looks the transaction up by that id) *)
Lemma ctx_ok_new : forall c peer client, ctx_ok (new_ssm c peer client).
Proof. intros c peer client x H. discriminate H. Qed.

Lemma s_indication_ctx_ok : forall a st, ctx_ok (h_s st) ->
  (s_state (h_s st) = IDLE /\ s_ctx (h_s st) = None) \/ (s_state (h_s st) <> IDLE /\ s_invoke (h_s st) = a_invoke a) ->
  ctx_ok (h_s (fst (s_indication a st))).
Proof.
  intros a [s outs ctr now live] Hok Hk. destruct_ssm s. unfold ctx_ok in *. cbn [h_s s_ctx s_invoke s_state] in *.
  unfold s_indication, s_idle, s_segmented_request, s_await_response, s_segmented_response, s_abort, append_segment, actwin_z.
  mcbn.
  destruct (x_state =? IDLE) eqn:E0.
  - destruct Hk as [(_ & Hn)|(Hs & _)]; [subst x_ctx | unfold IDLE in *; lia].
    destruct (a_type a =? 0); cbn [negb]; [|mcbn; intros c H; discriminate H].
    destruct (decode_max_apdu_length_accepted (a_maxresp a)) as [[dec|]|e0]; [ | | destruct e0];
    destruct (dec_maxsegs (a_maxsegs a)) as [ms|e1];
    path_split; mcbn; intros c H; try discriminate H; inversion H; subst; reflexivity.
  - destruct Hk as [(Hs & _)|(_ & Hi)]; [unfold IDLE in *; lia|]. subst x_inv.
    path_split; mcbn; intros c H; try discriminate H; try (apply Hok; exact H);
      try (inversion H; subst; cbn [a_invoke]; apply Hok; reflexivity).
Qed.

Lemma s_confirmation_ctx_ok : forall x st, ctx_ok (h_s st) -> a_invoke x = s_invoke (h_s st) ->
  ctx_ok (h_s (fst (s_confirmation x st))).
Proof.
  intros x [s outs ctr now live] Hok Hi. destruct_ssm s. unfold ctx_ok in *. cbn [h_s s_ctx s_invoke] in *.
  unfold s_confirmation, s_abort.
  path_split; mcbn; intros c H; try discriminate H; try (apply Hok; exact H); try (inversion H; congruence).
Qed.
