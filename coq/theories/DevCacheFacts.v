(* DevCacheFacts.v — the reference counts of DeviceInfoCache follow the transactions: over any history of I-Ams, transactions
   being created, finishing and upgrading their record, the count of every record equals the number of live transactions
   that hold it; hence release never raises (the outcome of a transaction is never pre-empted by it), creating a transaction
   never raises, nothing stays referenced once no transaction is left, and a release - also the one that brings the count
   to zero - keeps the record in the cache under the same keys. *)
From Coq Require Import ZifyBool ZifyN ZifyNat Lia.
From Bac Require Import Base DevCache.
Open Scope Z_scope.

(* ---------- lists ---------- *)
Lemma upd_nth_length : forall {A} i (f : A -> A) l, length (upd_nth i f l) = length l.
Proof. intros A i f l. revert i. induction l as [|x r IH]; intros [|k]; cbn [upd_nth length]; auto. Qed.

Lemma nth_error_upd_nth_eq : forall {A} i (f : A -> A) l, nth_error (upd_nth i f l) i = option_map f (nth_error l i).
Proof. intros A i f l. revert i. induction l as [|x r IH]; intros [|k]; cbn [upd_nth nth_error option_map]; auto. Qed.

Lemma nth_error_upd_nth_ne : forall {A} i j (f : A -> A) l, i <> j -> nth_error (upd_nth i f l) j = nth_error l j.
Proof.
  intros A i j f l. revert i j. induction l as [|x r IH]; intros [|k] [|m] H; cbn [upd_nth nth_error]; auto.
  - congruence.
Qed.

Definition dvalid (n : nat) (d : list (Z * nat)) : Prop := Forall (fun p => (snd p < n)%nat) d.

Lemma dvalid_mono : forall n m d, (n <= m)%nat -> dvalid n d -> dvalid m d.
Proof. intros n m d H Hd. eapply Forall_impl; [|exact Hd]. cbn. intros; lia. Qed.

Lemma dget_valid : forall n d k i, dvalid n d -> dget k d = Some i -> (i < n)%nat.
Proof.
  intros n d k i Hd. induction Hd as [|[k' v] r Hp Hr IH]; cbn [dget]; [discriminate|].
  destruct (k =? k'); [intros E; inversion E; subst; exact Hp | exact IH].
Qed.

Lemma dset_valid : forall n d k v, (v < n)%nat -> dvalid n d -> dvalid n (dset k v d).
Proof.
  intros n d k v Hv Hd. induction Hd as [|[k' v'] r Hp Hr IH]; cbn [dset].
  - constructor; [exact Hv | constructor].
  - destruct (k =? k'); constructor; auto.
Qed.

Lemma ddel_valid : forall n d k d', dvalid n d -> ddel k d = Ok d' -> dvalid n d'.
Proof.
  intros n d k d' Hd. revert d'. induction Hd as [|[k' v'] r Hp Hr IH]; intros d'; cbn [ddel]; [discriminate|].
  destruct (k =? k').
  - intros E; inversion E; subst; exact Hr.
  - destruct (ddel k r) as [r'|e]; [|discriminate]. intros E; inversion E; subst. constructor; [exact Hp | apply IH; reflexivity].
Qed.

(* ---------- holders ---------- *)
Lemma holders_app : forall i l1 l2, holders i (l1 ++ l2) = holders i l1 + holders i l2.
Proof.
  intros i l1 l2. induction l1 as [|[a [j|]] r IH]; cbn [app holders]; [reflexivity | rewrite IH; lia | exact IH].
Qed.

Lemma holders_nonneg : forall i l, 0 <= holders i l.
Proof. intros i l. induction l as [|[a [j|]] r IH]; cbn [holders]; [lia | destruct (Nat.eqb j i); lia | exact IH]. Qed.

Definition holds (i : nat) (di : option nat) : Z := match di with Some j => if Nat.eqb j i then 1 else 0 | None => 0 end.

Lemma holders_del_nth : forall i l k a di, nth_error l k = Some (a, di) -> holders i (del_nth k l) = holders i l - holds i di.
Proof.
  intros i l. induction l as [|[b [j|]] r IH]; intros [|k] a di; cbn [nth_error del_nth holders]; try discriminate.
  - intros E; inversion E; subst. cbn [holds]. lia.
  - intros E. rewrite (IH _ _ _ E). lia.
  - intros E; inversion E; subst. cbn [holds]. lia.
  - intros E. exact (IH _ _ _ E).
Qed.

Lemma In_del_nth : forall {A} k (l : list A) x, In x (del_nth k l) -> In x l.
Proof.
  intros A k l. revert k. induction l as [|y r IH]; intros [|k] x; cbn [del_nth In]; auto.
  intros [H|H]; [left; exact H | right; exact (IH _ _ H)].
Qed.

(* ---------- the invariant ---------- *)
Definition live_valid (n : nat) (l : list (Z * option nat)) : Prop := forall a i, In (a, Some i) l -> (i < n)%nat.

Lemma holders_out_of_range : forall n l i, live_valid n l -> (n <= i)%nat -> holders i l = 0.
Proof.
  intros n l i. induction l as [|[a [j|]] r IH]; intros Hv Hi; cbn [holders]; [reflexivity| |].
  - assert (j < n)%nat by (apply (Hv a); left; reflexivity).
    replace (Nat.eqb j i) with false by (symmetry; apply Nat.eqb_neq; lia).
    rewrite IH; [lia | intros b k Hk; apply (Hv b); right; exact Hk | exact Hi].
  - apply IH; [intros b k Hk; apply (Hv b); right; exact Hk | exact Hi].
Qed.

Definition refs_ok (recs : list drec) (l : list (Z * option nat)) : Prop :=
  forall i r, nth_error recs i = Some r -> dr_ref r = holders i l.

Record Inv (s : dstate) : Prop := mkInv {
  inv_id : dvalid (length (dc_recs (ds_cache s))) (dc_by_id (ds_cache s));
  inv_addr : dvalid (length (dc_recs (ds_cache s))) (dc_by_addr (ds_cache s));
  inv_live : live_valid (length (dc_recs (ds_cache s))) (ds_live s);
  inv_refs : refs_ok (dc_recs (ds_cache s)) (ds_live s) }.

(* an update of record i that leaves its count alone keeps refs_ok *)
Lemma refs_ok_upd : forall recs l i f, (forall r, dr_ref (f r) = dr_ref r) -> refs_ok recs l -> refs_ok (upd_nth i f recs) l.
Proof.
  intros recs l i f Hf H j r. destruct (Nat.eq_dec i j) as [->|Hne].
  - rewrite nth_error_upd_nth_eq. destruct (nth_error recs j) as [r0|] eqn:E; cbn [option_map]; [|discriminate].
    intros X; inversion X; subst. rewrite Hf. exact (H _ _ E).
  - rewrite nth_error_upd_nth_ne by exact Hne. apply H.
Qed.

Lemma update_device_info_inv : forall i recs bid bad l,
  (i < length recs)%nat -> dvalid (length recs) bid -> dvalid (length recs) bad -> live_valid (length recs) l -> refs_ok recs l ->
  Inv (mkDs (fst (update_device_info i (mkDc recs bid bad))) l).
Proof.
  intros i recs bid bad l Hi Hid Had Hl Hr. unfold update_device_info. cbn [dc_recs dc_by_id dc_by_addr].
  destruct (nth_error recs i) as [r|] eqn:E; cbn [fst]; [|constructor; assumption].
  assert (Hk : forall k, refs_ok (upd_nth i (set_keys k) recs) l) by (intros k; apply refs_ok_upd; [reflexivity | exact Hr]).
  destruct (dr_keys r) as [[kid kad]|]; cbn [fst].
  - destruct (negb (dr_inst r =? kid)).
    + destruct (ddel kid bid) as [d|e] eqn:Ed; cbn [fst]; [|constructor; assumption].
      assert (Hd : dvalid (length recs) (dset (dr_inst r) i d)) by (apply dset_valid; [exact Hi | exact (ddel_valid _ _ _ _ Hid Ed)]).
      destruct (negb (dr_addr r =? kad)).
      * destruct (ddel kad bad) as [d2|e2] eqn:Ed2; cbn [fst]; [|constructor; assumption].
        constructor; cbn [ds_cache ds_live dc_recs dc_by_id dc_by_addr]; rewrite ?upd_nth_length; auto.
        apply dset_valid; [exact Hi | exact (ddel_valid _ _ _ _ Had Ed2)].
      * cbn [fst]. constructor; cbn [ds_cache ds_live dc_recs dc_by_id dc_by_addr]; rewrite ?upd_nth_length; auto.
    + destruct (negb (dr_addr r =? kad)).
      * destruct (ddel kad bad) as [d2|e2] eqn:Ed2; cbn [fst]; [|constructor; assumption].
        constructor; cbn [ds_cache ds_live dc_recs dc_by_id dc_by_addr]; rewrite ?upd_nth_length; auto.
        apply dset_valid; [exact Hi | exact (ddel_valid _ _ _ _ Had Ed2)].
      * cbn [fst]. constructor; cbn [ds_cache ds_live dc_recs dc_by_id dc_by_addr]; rewrite ?upd_nth_length; auto.
  - constructor; cbn [ds_cache ds_live dc_recs dc_by_id dc_by_addr]; rewrite ?upd_nth_length; auto using dset_valid.
Qed.

Lemma refs_ok_snoc : forall recs l r0, live_valid (length recs) l -> dr_ref r0 = 0 -> refs_ok recs l -> refs_ok (recs ++ [r0]) l.
Proof.
  intros recs l r0 Hl H0 H i r Hn.
  destruct (Nat.lt_ge_cases i (length recs)) as [Hlt|Hge].
  - rewrite nth_error_app1 in Hn by exact Hlt. exact (H _ _ Hn).
  - rewrite nth_error_app2 in Hn by exact Hge.
    destruct (i - length recs)%nat eqn:Ei; cbn [nth_error] in Hn.
    + inversion Hn; subst. rewrite H0. symmetry. eapply holders_out_of_range; [exact Hl | exact Hge].
    + destruct n; discriminate.
Qed.

Lemma live_valid_mono : forall n m l, (n <= m)%nat -> live_valid n l -> live_valid m l.
Proof. intros n m l H Hl a i Hin. specialize (Hl a i Hin). lia. Qed.

Lemma dstep_inv : forall o s, Inv s -> Inv (fst (dstep o s)).
Proof.
  intros o [[recs bid bad] l] [Hid Had Hl Hr]. cbn [ds_cache ds_live dc_recs dc_by_id dc_by_addr] in *.
  destruct o as [inst addr ma sg | addr | k | k]; unfold dstep; cbn [ds_cache ds_live dc_recs dc_by_id dc_by_addr].
  - (* I-Am *)
    unfold iam_device_info. cbn [dc_recs dc_by_id dc_by_addr].
    set (found := match dget inst bid with Some i => Some i | None => dget addr bad end).
    assert (Hf : forall i, found = Some i -> (i < length recs)%nat).
    { intros i. unfold found. destruct (dget inst bid) eqn:E1.
      - intros X; inversion X; subst. exact (dget_valid _ _ _ _ Hid E1).
      - intros X. exact (dget_valid _ _ _ _ Had X). }
    destruct found as [i|].
    + specialize (Hf i eq_refl).
      pose proof (update_device_info_inv i (upd_nth i (set_iam inst addr ma sg) recs) bid bad l) as H.
      rewrite upd_nth_length in H. specialize (H Hf Hid Had Hl (refs_ok_upd recs l i (set_iam inst addr ma sg) (fun _ => eq_refl) Hr)).
      destruct (update_device_info i _) as [c' e]. exact H.
    + pose proof (update_device_info_inv (length recs) (upd_nth (length recs) (set_iam inst addr ma sg) (recs ++ [mkDrec inst addr 1024 0 0 None])) bid bad l) as H.
      rewrite upd_nth_length, app_length in H. cbn [length] in H.
      assert (Hle : (length recs <= length recs + 1)%nat) by lia.
      specialize (H ltac:(lia) (dvalid_mono _ _ _ Hle Hid) (dvalid_mono _ _ _ Hle Had) (live_valid_mono _ _ _ Hle Hl)
                    (refs_ok_upd _ l (length recs) (set_iam inst addr ma sg) (fun _ => eq_refl) (refs_ok_snoc recs l (mkDrec inst addr 1024 0 0 None) Hl eq_refl Hr))).
      destruct (update_device_info (length recs) _) as [c' e]. exact H.
  - (* a transaction is created *)
    unfold get_device_info, acquire. cbn [dc_recs dc_by_id dc_by_addr fst].
    destruct (dget addr bad) as [i|] eqn:E; cbn [fst].
    + assert (Hi : (i < length recs)%nat) by exact (dget_valid _ _ _ _ Had E).
      constructor; cbn [ds_cache ds_live dc_recs dc_by_id dc_by_addr]; rewrite ?upd_nth_length; auto.
      * intros a j Hin. apply in_app_or in Hin. destruct Hin as [Hin|[Hin|[]]]; [exact (Hl _ _ Hin)|]. inversion Hin; subst. exact Hi.
      * intros j r. rewrite holders_app. cbn [holders]. destruct (Nat.eq_dec i j) as [->|Hne].
        -- rewrite nth_error_upd_nth_eq. destruct (nth_error recs j) as [r0|] eqn:En; cbn [option_map]; [|discriminate].
           intros X; inversion X; subst. cbn [set_ref dr_ref]. rewrite (Hr _ _ En), Nat.eqb_refl. lia.
        -- rewrite nth_error_upd_nth_ne by exact Hne. intros En. rewrite (Hr _ _ En).
           replace (Nat.eqb i j) with false by (symmetry; apply Nat.eqb_neq; exact Hne). lia.
    + constructor; cbn [ds_cache ds_live dc_recs dc_by_id dc_by_addr]; auto.
      * intros a j Hin. apply in_app_or in Hin. destruct Hin as [Hin|[Hin|[]]]; [exact (Hl _ _ Hin) | discriminate].
      * intros j r En. rewrite holders_app. cbn [holders]. rewrite (Hr _ _ En). lia.
  - (* a transaction finishes *)
    destruct (nth_error l k) as [[a di]|] eqn:Ek; cbn [fst]; [|constructor; assumption].
    pose proof (nth_error_In _ _ Ek) as Hin.
    assert (Hl' : live_valid (length recs) (del_nth k l)) by (intros b j Hj; apply (Hl b); eapply In_del_nth; exact Hj).
    destruct di as [i|].
    + unfold release. cbn [dc_recs dc_by_id dc_by_addr].
      assert (Hi : (i < length recs)%nat) by exact (Hl _ _ Hin).
      destruct (nth_error recs i) as [r|] eqn:En; [|apply nth_error_None in En; lia].
      pose proof (Hr _ _ En) as Href.
      pose proof (holders_del_nth i _ _ _ _ Ek) as Hd. cbn [holds] in Hd. rewrite Nat.eqb_refl in Hd.
      pose proof (holders_nonneg i (del_nth k l)) as Hnn.
      destruct (dr_ref r =? 0) eqn:E0; [lia|]. cbn [fst].
      constructor; cbn [ds_cache ds_live dc_recs dc_by_id dc_by_addr]; rewrite ?upd_nth_length; auto.
      intros j r'. destruct (Nat.eq_dec i j) as [->|Hne].
      * rewrite nth_error_upd_nth_eq, En. cbn [option_map]. intros X; inversion X; subst. cbn [set_ref dr_ref]. lia.
      * rewrite nth_error_upd_nth_ne by exact Hne. intros En'. rewrite (Hr _ _ En').
        pose proof (holders_del_nth j _ _ _ _ Ek) as Hd'. cbn [holds] in Hd'.
        replace (Nat.eqb i j) with false in Hd' by (symmetry; apply Nat.eqb_neq; exact Hne). lia.
    + cbn [fst]. constructor; cbn [ds_cache ds_live dc_recs dc_by_id dc_by_addr]; auto.
      intros j r En. rewrite (Hr _ _ En). pose proof (holders_del_nth j _ _ _ _ Ek) as Hd. cbn [holds] in Hd. lia.
  - (* ServerSSM.idle upgrades the record *)
    destruct (nth_error l k) as [[a [i|]]|] eqn:Ek; cbn [fst]; try (constructor; assumption).
    destruct (nth_error recs i) as [r|] eqn:En; cbn [fst]; [|constructor; assumption].
    assert (Hi : (i < length recs)%nat) by (apply nth_error_Some; congruence).
    destruct ((dr_seg r =? 0) || (dr_seg r =? 1)).
    + pose proof (update_device_info_inv i (upd_nth i (set_seg (dr_seg r + 2)) recs) bid bad l) as H.
      rewrite upd_nth_length in H. specialize (H Hi Hid Had Hl (refs_ok_upd recs l i (set_seg (dr_seg r + 2)) (fun _ => eq_refl) Hr)).
      destruct (update_device_info i _) as [c' e]. exact H.
    + destruct ((dr_seg r =? 2) || (dr_seg r =? 3)); cbn [fst]; constructor; assumption.
Qed.

Lemma inv_init : Inv ds_init.
Proof. constructor; cbn; try constructor. - intros a i []. - intros [|i] r; discriminate. Qed.

Lemma dsteps_inv : forall ops s, Inv s -> Inv (dsteps ops s).
Proof. induction ops as [|o r IH]; intros s H; cbn [dsteps]; [exact H | apply IH, dstep_inv, H]. Qed.

(* ---------- the statements ---------- *)
Lemma dc_refcount_history : forall ops i r,
  nth_error (dc_recs (ds_cache (dsteps ops ds_init))) i = Some r -> dr_ref r = holders i (ds_live (dsteps ops ds_init)).
Proof. intros ops. exact (inv_refs _ (dsteps_inv ops _ inv_init)). Qed.

Lemma close_never_raises : forall s k, Inv s -> snd (dstep (DClose k) s) = None.
Proof.
  intros [[recs bid bad] l] k [Hid Had Hl Hr]. cbn [ds_cache ds_live dc_recs dc_by_id dc_by_addr] in *.
  unfold dstep. cbn [ds_cache ds_live dc_recs].
  destruct (nth_error l k) as [[a [i|]]|] eqn:Ek; cbn [snd]; try reflexivity.
  unfold release. cbn [dc_recs dc_by_id dc_by_addr].
  pose proof (Hl _ _ (nth_error_In _ _ Ek)) as Hi.
  destruct (nth_error recs i) as [r|] eqn:En; [|apply nth_error_None in En; lia].
  pose proof (Hr _ _ En) as Href.
  pose proof (holders_del_nth i _ _ _ _ Ek) as Hd. cbn [holds] in Hd. rewrite Nat.eqb_refl in Hd.
  pose proof (holders_nonneg i (del_nth k l)).
  destruct (dr_ref r =? 0) eqn:E0; [lia | reflexivity].
Qed.

Lemma dc_close_never_raises_history : forall ops k, snd (dstep (DClose k) (dsteps ops ds_init)) = None.
Proof. intros ops k. apply close_never_raises, dsteps_inv, inv_init. Qed.

Lemma dc_open_never_raises : forall s addr, snd (dstep (DOpen addr) s) = None.
Proof. intros s addr. reflexivity. Qed.

Lemma dc_quiescent_history : forall ops i r,
  ds_live (dsteps ops ds_init) = [] -> nth_error (dc_recs (ds_cache (dsteps ops ds_init))) i = Some r -> dr_ref r = 0.
Proof. intros ops i r Hq Hn. rewrite (dc_refcount_history ops i r Hn), Hq. reflexivity. Qed.

(* release keeps the record where it is, whatever the count becomes: no eviction *)
Lemma dc_close_keeps_records : forall s k,
  let s' := fst (dstep (DClose k) s) in
  dc_by_id (ds_cache s') = dc_by_id (ds_cache s) /\ dc_by_addr (ds_cache s') = dc_by_addr (ds_cache s) /\
  length (dc_recs (ds_cache s')) = length (dc_recs (ds_cache s)) /\
  forall i r, nth_error (dc_recs (ds_cache s)) i = Some r ->
    exists r', nth_error (dc_recs (ds_cache s')) i = Some r' /\ obs_rec (set_ref 0 r') = obs_rec (set_ref 0 r).
Proof.
  intros [[recs bid bad] l] k. unfold dstep. cbn [ds_cache ds_live dc_recs dc_by_id dc_by_addr].
  destruct (nth_error l k) as [[a [i|]]|] eqn:Ek; cbn [fst ds_cache dc_recs dc_by_id dc_by_addr];
    try (repeat split; intros j r Hn; exists r; split; [exact Hn | reflexivity]).
  unfold release. cbn [dc_recs dc_by_id dc_by_addr].
  destruct (nth_error recs i) as [r0|] eqn:En; cbn [fst ds_cache dc_recs dc_by_id dc_by_addr];
    try (repeat split; intros j r Hn; exists r; split; [exact Hn | reflexivity]).
  destruct (dr_ref r0 =? 0); cbn [fst ds_cache dc_recs dc_by_id dc_by_addr];
    try (repeat split; intros j r Hn; exists r; split; [exact Hn | reflexivity]).
  repeat split; [apply upd_nth_length|].
  intros j r Hn. destruct (Nat.eq_dec i j) as [->|Hne].
  - rewrite nth_error_upd_nth_eq, Hn. cbn [option_map]. eexists; split; [reflexivity | reflexivity].
  - rewrite nth_error_upd_nth_ne by exact Hne. exists r; split; [exact Hn | reflexivity].
Qed.

(* a transaction created while the peer has a record holds that record and the count goes up by one *)
Lemma dc_open_counts : forall s addr i r, Inv s ->
  get_device_info addr (ds_cache s) = Some i -> nth_error (dc_recs (ds_cache s)) i = Some r ->
  exists r', nth_error (dc_recs (ds_cache (fst (dstep (DOpen addr) s)))) i = Some r' /\ dr_ref r' = dr_ref r + 1 /\
             ds_live (fst (dstep (DOpen addr) s)) = ds_live s ++ [(addr, Some i)].
Proof.
  intros [[recs bid bad] l] addr i r _ Hg Hn. unfold get_device_info in Hg. cbn [ds_cache dc_by_addr dc_recs] in *.
  unfold dstep, get_device_info, acquire. cbn [ds_cache ds_live dc_recs dc_by_id dc_by_addr]. rewrite Hg. cbn [fst ds_cache dc_recs ds_live].
  rewrite nth_error_upd_nth_eq, Hn. cbn [option_map]. eexists; split; [reflexivity | split; reflexivity].
Qed.
