(* SsmC11p.v — C11, sender side: the "server" bit of every Abort / SegmentAck a transaction puts on the wire names the
   role that sent it.  A client transaction (ClientSSM) only ever sends them with srv = 0, so the peer looks them up among
   its SERVER transactions; a server transaction (ServerSSM) only with srv = 1 — except that it sends a PDU it was handed
   (the client's Abort in segmented_request / segmented_response, the application's own Abort) back as it is.
   Compositional: `txs_ok P m` = every frame m adds to the outbox satisfies P. *)
From Coq Require Import ZifyBool ZifyN ZifyNat.
From Bac Require Import Base PyRt Ssm.
From BacGen Require Import ApduFns.
Open Scope Z_scope.

Definition txs_ok (P : apdu -> Prop) (m : M) : Prop :=
  forall st x, In (Tx x) (h_outs (fst (m st))) -> In (Tx x) (h_outs st) \/ P x.

Lemma txs_ret : forall P, txs_ok P ret.
Proof. intros P st x H. left. exact H. Qed.
Lemma txs_raise : forall P e, txs_ok P (raise e).
Proof. intros P e st x H. left. exact H. Qed.
Lemma txs_upd : forall P f, txs_ok P (upd f).
Proof. intros P f st x H. left. exact H. Qed.
Lemma txs_emit_toapp : forall P a, txs_ok P (emit (ToApp a)).
Proof. intros P a st x H. cbn in H. destruct H as [H|H]; [discriminate | left; exact H]. Qed.
Lemma txs_emit_tx : forall (P : apdu -> Prop) a, P a -> txs_ok P (emit (Tx a)).
Proof. intros P a Pa st x H. cbn in H. destruct H as [H|H]; [inversion H; subst; right; exact Pa | left; exact H]. Qed.
Lemma txs_start_timer : forall P t, txs_ok P (start_timer t).
Proof. intros P t st x H. left. exact H. Qed.
Lemma txs_stop_timer : forall P, txs_ok P stop_timer.
Proof. intros P st x H. left. exact H. Qed.
Lemma txs_unlist : forall P, txs_ok P unlist.
Proof. intros P st x H. left. exact H. Qed.

Lemma txs_mseq : forall P m1 m2, txs_ok P m1 -> txs_ok P m2 -> txs_ok P (m1 ;; m2).
Proof.
  intros P m1 m2 H1 H2 st x H. unfold mseq in H.
  specialize (H1 st x). destruct (m1 st) as [st' [e|]]; cbn [fst] in *.
  - apply H1. exact H.
  - destruct (H2 st' x H) as [Hin|Hp]; [apply H1; exact Hin | right; exact Hp].
Qed.

Lemma txs_withs : forall P k, (forall s, txs_ok P (k s)) -> txs_ok P (withs k).
Proof. intros P k H st x Hin. unfold withs in Hin. exact (H (h_s st) st x Hin). Qed.

Lemma txs_set_state : forall P n t, txs_ok P (set_state n t).
Proof.
  intros P n t. unfold set_state. apply txs_withs. intro s.
  destruct ((s_state s =? COMPLETED) || (s_state s =? ABORTED)); [apply txs_raise|].
  apply txs_mseq; [apply txs_stop_timer|]. apply txs_mseq; [apply txs_upd|].
  apply txs_mseq; [destruct (t =? 0); [apply txs_ret | apply txs_start_timer]|].
  destruct ((n =? COMPLETED) || (n =? ABORTED)); [apply txs_unlist | apply txs_ret].
Qed.

(* a segment is a ConfirmedRequest or a ComplexAck: neither an Abort nor a SegmentAck *)
Lemma get_segment_type : forall s i a, get_segment s i = Ok a -> a_type a = 0 \/ a_type a = 3.
Proof.
  intros s i a H. unfold get_segment in H.
  destruct (s_ctx s) as [c|]; [|discriminate].
  destruct (s_segcount s <=? i); [discriminate|].
  destruct (a_type c =? 0).
  - destruct (enc_maxsegs (s_maxsegs s)); [|discriminate]. cbn [bind] in H.
    destruct (encode_max_apdu_length_accepted (s_maxapdu s)); [|discriminate]. cbn [bind] in H.
    inversion H. left. reflexivity.
  - destruct (a_type c =? 3); [|discriminate]. inversion H. right. reflexivity.
Qed.

Definition not_ack_abort (P : apdu -> Prop) : Prop := forall a, a_type a = 0 \/ a_type a = 3 -> P a.

Lemma txs_send_seg : forall P i, not_ack_abort P -> txs_ok P (send_seg i).
Proof.
  intros P i HP. unfold send_seg. apply txs_withs. intro s.
  destruct (get_segment s i) eqn:E; [|apply txs_raise].
  apply txs_emit_tx. apply HP. exact (get_segment_type _ _ _ E).
Qed.

Lemma txs_fill_loop : forall P n sq ix, not_ack_abort P -> txs_ok P (fill_loop n sq ix).
Proof.
  intros P n sq. induction n as [|n IH]; intros ix HP; cbn [fill_loop]; [apply txs_ret|].
  apply txs_withs. intro s. destruct (get_segment s (sq + ix)) eqn:E; [|apply txs_raise].
  apply txs_mseq; [apply txs_emit_tx; apply HP; exact (get_segment_type _ _ _ E)|].
  destruct (a_mor a); [apply IH; exact HP | apply txs_upd].
Qed.

Lemma txs_fill_window : forall P sq, not_ack_abort P -> txs_ok P (fill_window sq).
Proof.
  intros P sq HP. unfold fill_window. apply txs_withs. intro s.
  destruct (s_actwin s); [apply txs_fill_loop; exact HP | apply txs_raise].
Qed.

Lemma txs_append : forall P a, txs_ok P (append_segment a).
Proof.
  intros P a. unfold append_segment. apply txs_withs. intro s. destruct (s_ctx s); [apply txs_upd | apply txs_raise].
Qed.

(* ---------- the two roles ---------- *)
Definition is_ack_abort (x : apdu) : Prop := a_type x = 4 \/ a_type x = 7.
(* what a client transaction may send *)
Definition client_pdu (x : apdu) : Prop := is_ack_abort x -> a_srv x = false.
(* what a server transaction may send while handling `a0` (the PDU it was handed: sent back as it is) *)
Definition server_pdu (a0 : apdu) (x : apdu) : Prop := is_ack_abort x -> a_srv x = true \/ x = a0.

Lemma client_pdu_seg : not_ack_abort client_pdu.
Proof. intros a H [H4|H7]; lia. Qed.
Lemma server_pdu_seg : forall a0, not_ack_abort (server_pdu a0).
Proof. intros a0 a H [H4|H7]; lia. Qed.

Ltac txs_step :=
  cbv zeta beta;
  lazymatch goal with
  | |- txs_ok _ (mseq _ _) => apply txs_mseq
  | |- txs_ok _ (withs _) => apply txs_withs; intro
  | |- txs_ok _ (upd _) => apply txs_upd
  | |- txs_ok _ ret => apply txs_ret
  | |- txs_ok _ (raise _) => apply txs_raise
  | |- txs_ok _ (emit (ToApp _)) => apply txs_emit_toapp
  | |- txs_ok _ (emit (Tx _)) => apply txs_emit_tx
  | |- txs_ok _ (start_timer _) => apply txs_start_timer
  | |- txs_ok _ (set_state _ _) => apply txs_set_state
  | |- txs_ok client_pdu (send_seg _) => apply txs_send_seg; exact client_pdu_seg
  | |- txs_ok (server_pdu _) (send_seg _) => apply txs_send_seg; apply server_pdu_seg
  | |- txs_ok client_pdu (fill_window _) => apply txs_fill_window; exact client_pdu_seg
  | |- txs_ok (server_pdu _) (fill_window _) => apply txs_fill_window; apply server_pdu_seg
  | |- txs_ok _ (append_segment _) => apply txs_append
  | |- txs_ok _ (if ?b then _ else _) => destruct b
  | |- txs_ok _ (match ?x with _ => _ end) => destruct x
  | |- client_pdu _ => intros _; reflexivity
  | |- server_pdu _ _ => intros _; first [left; reflexivity | right; reflexivity]
  end.
Ltac txs_auto := repeat txs_step.

(* ---------- ClientSSM ---------- *)
Lemma c_indication_txs : forall a, txs_ok client_pdu (c_indication a).
Proof. intro a. unfold c_indication, c_abort. txs_auto. Qed.

Lemma c_segmented_request_txs : forall a, txs_ok client_pdu (c_segmented_request a).
Proof. intro a. unfold c_segmented_request, c_abort. txs_auto. Qed.

Lemma c_await_confirmation_txs : forall a, txs_ok client_pdu (c_await_confirmation a).
Proof. intro a. unfold c_await_confirmation, c_abort. txs_auto. Qed.

Lemma c_segmented_confirmation_txs : forall a, txs_ok client_pdu (c_segmented_confirmation a).
Proof. intro a. unfold c_segmented_confirmation, c_abort. txs_auto. Qed.

Lemma c_confirmation_txs : forall a, txs_ok client_pdu (c_confirmation a).
Proof.
  intro a. unfold c_confirmation. apply txs_withs. intro s.
  destruct (s_state s =? SEGMENTED_REQUEST); [apply c_segmented_request_txs|].
  destruct (s_state s =? AWAIT_CONFIRMATION); [apply c_await_confirmation_txs|].
  destruct (s_state s =? SEGMENTED_CONFIRMATION); [apply c_segmented_confirmation_txs | apply txs_raise].
Qed.

Lemma c_process_task_txs : txs_ok client_pdu c_process_task.
Proof.
  unfold c_process_task. apply txs_withs. intro s.
  destruct (s_state s =? SEGMENTED_REQUEST).
  { unfold c_segmented_request_timeout, c_abort. txs_auto. }
  destruct (s_state s =? AWAIT_CONFIRMATION).
  { unfold c_await_confirmation_timeout, c_abort. apply txs_withs. intro s1.
    destruct (s_retry s1 <? s_retries s1); [|txs_auto].
    apply txs_mseq; [apply txs_upd|]. apply txs_mseq; [|apply txs_upd].
    destruct (s_ctx s1); [apply c_indication_txs | apply txs_raise]. }
  destruct (s_state s =? SEGMENTED_CONFIRMATION).
  { unfold c_segmented_confirmation_timeout, c_abort. txs_auto. }
  destruct ((s_state s =? COMPLETED) || (s_state s =? ABORTED)); [apply txs_ret | apply txs_raise].
Qed.

(* ---------- ServerSSM ---------- *)
Lemma s_idle_txs : forall a, txs_ok (server_pdu a) (s_idle a).
Proof. intro a. unfold s_idle, s_abort, dec_maxsegs. txs_auto. Qed.

Lemma s_segmented_request_txs : forall a, txs_ok (server_pdu a) (s_segmented_request a).
Proof. intro a. unfold s_segmented_request, s_abort. txs_auto. Qed.

Lemma s_await_response_txs : forall a, txs_ok (server_pdu a) (s_await_response a).
Proof. intro a. unfold s_await_response. txs_auto. Qed.

Lemma s_segmented_response_txs : forall a, txs_ok (server_pdu a) (s_segmented_response a).
Proof. intro a. unfold s_segmented_response. txs_auto. Qed.

Lemma s_indication_txs : forall a, txs_ok (server_pdu a) (s_indication a).
Proof.
  intro a. unfold s_indication. apply txs_withs. intro s.
  destruct (s_state s =? IDLE); [apply s_idle_txs|].
  destruct (s_state s =? SEGMENTED_REQUEST); [apply s_segmented_request_txs|].
  destruct (s_state s =? AWAIT_RESPONSE); [apply s_await_response_txs|].
  destruct (s_state s =? SEGMENTED_RESPONSE); [apply s_segmented_response_txs | apply txs_ret].
Qed.

Lemma s_confirmation_txs : forall a, txs_ok (server_pdu a) (s_confirmation a).
Proof. intro a. unfold s_confirmation, s_abort. txs_auto. Qed.

Lemma s_process_task_txs : forall a0, txs_ok (server_pdu a0) s_process_task.
Proof.
  intro a0. unfold s_process_task, s_segmented_request_timeout, s_await_response_timeout, s_segmented_response_timeout, s_abort.
  txs_auto.
Qed.

(* ---------- as statements about the outbox ---------- *)
Lemma client_frames_polarity : forall a st x,
  In (Tx x) (h_outs (fst (c_confirmation a st))) \/ In (Tx x) (h_outs (fst (c_indication a st))) \/ In (Tx x) (h_outs (fst (c_process_task st))) ->
  a_type x = 4 \/ a_type x = 7 -> In (Tx x) (h_outs st) \/ (a_srv x = false /\ to_client_side x = false).
Proof.
  intros a st x H Ht.
  assert (Hc : In (Tx x) (h_outs st) \/ client_pdu x).
  { destruct H as [H|[H|H]]; [exact (c_confirmation_txs a st x H) | exact (c_indication_txs a st x H) | exact (c_process_task_txs st x H)]. }
  destruct Hc as [Hc|Hc]; [left; exact Hc|]. right. specialize (Hc Ht). split; [exact Hc|].
  unfold to_client_side. rewrite Hc. lia.
Qed.

Lemma server_frames_polarity : forall a st x,
  In (Tx x) (h_outs (fst (s_indication a st))) \/ In (Tx x) (h_outs (fst (s_confirmation a st))) \/ In (Tx x) (h_outs (fst (s_process_task st))) ->
  a_type x = 4 \/ a_type x = 7 -> In (Tx x) (h_outs st) \/ x = a \/ (a_srv x = true /\ to_client_side x = true).
Proof.
  intros a st x H Ht.
  assert (Hc : In (Tx x) (h_outs st) \/ server_pdu a x).
  { destruct H as [H|[H|H]]; [exact (s_indication_txs a st x H) | exact (s_confirmation_txs a st x H) | exact (s_process_task_txs a st x H)]. }
  destruct Hc as [Hc|Hc]; [left; exact Hc|]. right. destruct (Hc Ht) as [Hs|He]; [right | left; exact He].
  split; [exact Hs|]. unfold to_client_side. rewrite Hs. lia.
Qed.

(* non-vacuity: a client waiting for its answer that is handed a ComplexAck segment number 1 gives up with an Abort, srv = 0 *)
Definition waiting_client : hst :=
  mkH (mkSsm 2 7 AWAIT_CONFIRMATION None 50 1 0 0 true 0 0 None 3 3000 1500 3 (Some 64) 50 false (Some (3000, 0)) None 2 3000) [] 1 0 true.
Lemma client_abort_example :
  h_outs (fst (c_confirmation (mk_cack true true 1 2 7 12 [1; 2]) waiting_client)) = [ToApp (mk_abort false 7 2); Tx (mk_abort false 7 2)].
Proof. vm_compute. reflexivity. Qed.
