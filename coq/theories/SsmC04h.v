(* SsmC04h.v — C04 on the serving side over whole histories: whatever sequence of frames, application answers and
   time-outs a server transaction sees (raising handlers included), as long as it is in the table it is armed and in a
   state that has a time-out handler, and once it has left the table it is COMPLETED/ABORTED without a timer. *)
From Coq Require Import ZifyBool ZifyN ZifyNat.
From Bac Require Import Base PyRt Ssm SsmFacts SsmC04a SsmC04s.
From BacGen Require Import ApduFns.
Open Scope Z_scope.

Definition s_state_ok (s : ssm) : bool :=
  (s_state s =? SEGMENTED_REQUEST) || (s_state s =? AWAIT_RESPONSE) || (s_state s =? SEGMENTED_RESPONSE).

(* the invariant of a listed server transaction *)
Definition s_inv (s : ssm) : Prop :=
  s_state_ok s = true /\ s_timer s <> None /\ 0 < s_app_to s /\ 0 < s_seg_to s.
(* what is left of one that has been removed *)
Definition s_done (s : ssm) : Prop := terminal s = true /\ s_timer s = None.

Definition post_h (r : hst * option err) : Prop :=
  let st' := fst r in
  (h_live st' = true -> s_inv (h_s st')) /\ (h_live st' = false -> s_done (h_s st')).

Ltac finish_h :=
  unfold post_h, s_inv, s_done, s_state_ok, terminal; mcbn; cbn [app];
  repeat split; intros; first [exact I | reflexivity | discriminate | assumption | congruence | lia | tauto
         | exfalso; unfold IDLE, SEGMENTED_REQUEST, AWAIT_RESPONSE, SEGMENTED_RESPONSE, COMPLETED, ABORTED in *; lia | auto].

Ltac start_h :=
  intros [s outs ctr now live] (Hok & Harm & Ha & Hs) Hl; cbn [h_s h_outs h_live] in *; subst live;
  destruct_ssm s; unfold s_state_ok in Hok; cbn [s_state s_app_to s_seg_to s_timer] in *.

Lemma s_segmented_request_h : forall a st, s_inv (h_s st) -> h_live st = true -> post_h (s_segmented_request a st).
Proof.
  intros a. start_h. unfold s_segmented_request, s_abort, append_segment, actwin_z.
  path_split; finish_h.
Qed.

Lemma s_await_response_h : forall a st, s_inv (h_s st) -> h_live st = true -> post_h (s_await_response a st).
Proof.
  intros a. start_h. unfold s_await_response.
  path_split; finish_h.
Qed.

Lemma s_segmented_response_h : forall a st, s_inv (h_s st) -> h_live st = true -> post_h (s_segmented_response a st).
Proof.
  intros a. start_h. unfold s_segmented_response.
  path_split; finish_h.
Qed.

Lemma s_confirmation_h : forall a st, s_inv (h_s st) -> h_live st = true -> post_h (s_confirmation a st).
Proof.
  intros a. start_h. unfold s_confirmation, s_abort.
  path_split; finish_h.
Qed.

(* the timer has just been popped by the TaskManager *)
Lemma s_process_task_h : forall st, s_inv (h_s st) -> h_live st = true ->
  post_h (s_process_task (mkH (set_timer_f None (h_s st)) (h_outs st) (h_ctr st) (h_now st) (h_live st))).
Proof.
  start_h.
  unfold s_process_task, s_segmented_request_timeout, s_await_response_timeout, s_segmented_response_timeout, s_abort.
  path_split; finish_h.
Qed.

Lemma s_indication_h : forall a st, s_inv (h_s st) -> h_live st = true -> post_h (s_indication a st).
Proof.
  intros a st Hinv Hl. unfold s_indication, withs.
  assert (Hni : (s_state (h_s st) =? IDLE) = false).
  { destruct Hinv as (Hok & _). unfold s_state_ok, IDLE, SEGMENTED_REQUEST, AWAIT_RESPONSE, SEGMENTED_RESPONSE in *. lia. }
  rewrite Hni.
  destruct (s_state (h_s st) =? SEGMENTED_REQUEST); [apply s_segmented_request_h; assumption|].
  destruct (s_state (h_s st) =? AWAIT_RESPONSE); [apply s_await_response_h; assumption|].
  destruct (s_state (h_s st) =? SEGMENTED_RESPONSE); [apply s_segmented_response_h; assumption|].
  unfold ret, post_h. cbn [fst]. split; [intros; exact Hinv | congruence].
Qed.

(* the first frame: a confirmed request as the header decoder can produce it (3-bit max-segments, 4-bit max-response) *)
Definition wf_request (a : apdu) : Prop := a_type a = 0 /\ 0 <= a_maxsegs a < 8 /\ 0 <= a_maxresp a < 16.

Lemma dec_maxsegs_total : forall x, 0 <= x < 8 -> exists v, dec_maxsegs x = Ok v.
Proof.
  intros x H. assert (x = 0 \/ x = 1 \/ x = 2 \/ x = 3 \/ x = 4 \/ x = 5 \/ x = 6 \/ x = 7) as Hx by lia.
  repeat (destruct Hx as [->|Hx]; [eexists; vm_compute; reflexivity|]). subst. eexists; vm_compute; reflexivity.
Qed.

Lemma dec_maxresp_total : forall x, 0 <= x < 16 ->
  (exists v, decode_max_apdu_length_accepted x = Ok (Some v)) \/ decode_max_apdu_length_accepted x = Err ValueErr.
Proof.
  intros x H.
  assert (x = 0 \/ x = 1 \/ x = 2 \/ x = 3 \/ x = 4 \/ x = 5 \/ x = 6 \/ x = 7 \/ x = 8 \/ x = 9 \/ x = 10 \/ x = 11 \/
          x = 12 \/ x = 13 \/ x = 14 \/ x = 15) as Hx by lia.
  repeat (destruct Hx as [->|Hx]; [first [left; eexists; vm_compute; reflexivity | right; vm_compute; reflexivity]|]).
  subst. first [left; eexists; vm_compute; reflexivity | right; vm_compute; reflexivity].
Qed.

Ltac path_split_c :=
  repeat (mcbn;
    lazymatch goal with
    | |- context [if ?b then _ else _] => let E := fresh "E" in destruct b eqn:E; try (cbn in E; discriminate E)
    | |- context [match ?x with Some _ => _ | None => _ end] => let E := fresh "E" in destruct x eqn:E
    | |- context [match ?x with Ok _ => _ | Err _ => _ end] => let E := fresh "E" in destruct x eqn:E
    end).

Lemma s_idle_h : forall a st, wf_request a -> s_state (h_s st) = IDLE -> 0 < s_app_to (h_s st) -> 0 < s_seg_to (h_s st) ->
  h_live st = true -> post_h (s_idle a st) /\ snd (s_idle a st) = None.
Proof.
  intros a [s outs ctr now live] (Ht & Hms & Hmr) Hi Ha Hs Hl. cbn [h_s h_live] in *. subst live. destruct_ssm s. cbn [s_state s_app_to s_seg_to] in *. subst x_state.
  unfold s_idle, s_abort. rewrite Ht. cbn [Z.eqb negb].
  destruct (dec_maxsegs_total _ Hms) as (ms & ->).
  destruct (dec_maxresp_total _ Hmr) as [(v & ->) | ->];
  path_split_c; (split; [finish_h | mcbn; reflexivity]).
Qed.

(* ---------- histories ---------- *)
Inductive sevent := SRx (a : apdu) | SAnswer (a : apdu) | STimeout.

Definition s_handle (ev : sevent) (s : ssm) (ctr now : Z) : hst * option err :=
  match ev with
  | SRx a => s_indication a (mkH s [] ctr now true)
  | SAnswer a => s_confirmation a (mkH s [] ctr now true)
  | STimeout => s_process_task (mkH (set_timer_f None s) [] ctr now true)
  end.

(* the transaction after a history: None once it has been removed from serverTransactions (then nothing reaches it) *)
Fixpoint s_after (evs : list (Z * sevent)) (s : ssm) (ctr : Z) : ssm * bool :=
  match evs with
  | [] => (s, true)
  | (now, ev) :: r =>
    let st' := fst (s_handle ev s ctr now) in
    if h_live st' then s_after r (h_s st') (h_ctr st') else (h_s st', false)
  end.

Lemma s_handle_inv : forall ev s ctr now, s_inv s -> post_h (s_handle ev s ctr now).
Proof.
  intros ev s ctr now Hinv. destruct ev as [a|a|]; unfold s_handle.
  - apply s_indication_h; [exact Hinv | reflexivity].
  - apply s_confirmation_h; [exact Hinv | reflexivity].
  - apply (s_process_task_h (mkH s [] ctr now true)); [exact Hinv | reflexivity].
Qed.

Lemma s_history_inv : forall evs s ctr, s_inv s ->
  let r := s_after evs s ctr in (snd r = true -> s_inv (fst r)) /\ (snd r = false -> s_done (fst r)).
Proof.
  induction evs as [|[now ev] r IH]; intros s ctr Hinv; cbn [s_after].
  - cbn. split; [intros; exact Hinv | discriminate].
  - destruct (s_handle_inv ev s ctr now Hinv) as (H1 & H2).
    destruct (h_live (fst (s_handle ev s ctr now))) eqn:El.
    + apply IH. apply H1. reflexivity.
    + cbn [fst snd]. split; [discriminate | intros; apply H2; reflexivity].
Qed.

(* from the very first frame: StateMachineAccessPoint.confirmation creates the transaction in IDLE and hands it the request *)
Definition s_life (a : apdu) (s0 : ssm) (ctr now : Z) (evs : list (Z * sevent)) : ssm * bool :=
  let st := fst (s_idle a (mkH s0 [] ctr now true)) in
  if h_live st then s_after evs (h_s st) (h_ctr st) else (h_s st, false).

Lemma s_life_inv : forall a s0 ctr now evs, wf_request a -> s_state s0 = IDLE -> 0 < s_app_to s0 -> 0 < s_seg_to s0 ->
  let r := s_life a s0 ctr now evs in (snd r = true -> s_inv (fst r)) /\ (snd r = false -> s_done (fst r)).
Proof.
  intros a s0 ctr now evs Hwf Hi Ha Hs. unfold s_life.
  destruct (s_idle_h a (mkH s0 [] ctr now true) Hwf Hi Ha Hs eq_refl) as ((H1 & H2) & _).
  destruct (h_live (fst (s_idle a (mkH s0 [] ctr now true)))) eqn:El.
  - apply s_history_inv. apply H1. reflexivity.
  - cbn [fst snd]. split; [discriminate | intros; apply H2; reflexivity].
Qed.
